/-
C02 T3: the non-malleable satisfier (`satDissatG nz`, `mall = false`, `root_has_sig = true`)
finds a satisfaction whenever the specification's table has one, for scripts whose type is
non-malleable (`m`), when every hash preimage of the script is known.

Invariants carried by the induction, for a node of malleability type `M`
(`Model/Types.lean`: `dissat` ∈ {none, unique, unknown}, `signed`, `nonMall`):
  * the satisfaction is never `Unavailable`;
  * `M.signed`  → a possible satisfaction has `has_sig`;
  * `M.dissat = none`   → a possible dissatisfaction has `has_sig`;
  * `M.dissat = unique` → the dissatisfaction is a stack without signature;
  * table-satisfiable → the satisfaction is a stack.
With them `Satisfaction::minimum` never reaches its `(false, false)` refusal and
`Satisfaction::thresh` never answers `Unavailable`/`Impossible` when the table has a row.
-/
import MsVerif.Lemmas.CompleteFixed
import MsVerif.Lemmas.CompleteThresh
import MsVerif.Lemmas.Thresh

set_option linter.unusedSimpArgs false
set_option linter.unusedVariables false

namespace MsVerif.Complete
open MsVerif Sat SatTable

/-! ### more about `concatenate_rev` and pushes -/

section
variable {ua ur : Bool}

theorem concat_sigOrImp_left {s o : Sat} (hs : LockOK ua ur s) (ho : LockOK ua ur o)
    (h : SigOrImp s) : SigOrImp (concatenateRev s o) := by
  intro hne
  rw [concat_hasSig hs ho hne, h (concat_ne_imp hs ho hne).1]; rfl

theorem concat_sigOrImp_right {s o : Sat} (hs : LockOK ua ur s) (ho : LockOK ua ur o)
    (h : SigOrImp o) : SigOrImp (concatenateRev s o) := by
  intro hne
  rw [concat_hasSig hs ho hne, h (concat_ne_imp hs ho hne).2]; simp

theorem concat_stk_nosig {s o : Sat} (hs : LockOK ua ur s) (ho : LockOK ua ur o)
    (h1 : isStk s.stack = true ∧ s.hasSig = false) (h2 : isStk o.stack = true ∧ o.hasSig = false) :
    isStk (concatenateRev s o).stack = true ∧ (concatenateRev s o).hasSig = false :=
  ⟨by rw [concat_isStk hs ho, h1.1, h2.1]; rfl, concat_hasSig_false hs ho h1.2 h2.2⟩

end

theorem push_sigOrImp {s t : Sat} {p : Ph} (hst : t.stack = Wit.combine s.stack (.stack [p]))
    (hsig : t.hasSig = s.hasSig) (h : SigOrImp s) : SigOrImp t := by
  intro hne
  rw [hst] at hne
  rw [hsig]; exact h (combine_ne_imp hne).1

theorem push_ne_unav {s t : Sat} {p : Ph} (hst : t.stack = Wit.combine s.stack (.stack [p]))
    (h : s.stack ≠ .unavailable) : t.stack ≠ .unavailable := by
  rw [hst]; exact combine_ne_unav h (by simp)

theorem push_isStk {s t : Sat} {p : Ph} (hst : t.stack = Wit.combine s.stack (.stack [p])) :
    isStk t.stack = isStk s.stack := by
  rw [hst]; simp

/-- `or_i`'s selector push -/
def pushTop (p : Ph) (s : Sat) : Sat := { s with stack := Wit.combine s.stack (.stack [p]) }

theorem sigOrImp_of_imp {s : Sat} (h : s.stack = .impossible) : SigOrImp s := fun hne => absurd h hne
theorem sigOrImp_of_sig {s : Sat} (h : s.hasSig = true) : SigOrImp s := fun _ => h

/-! ### finite facts about the malleability rules -/

theorem andB_none (a b : Mall) (h : (Mall.andB a b).dissat = .none) :
    a.dissat = .none ∨ b.dissat = .none := by
  obtain ⟨ad, as, am⟩ := a; obtain ⟨bd, bs, bm⟩ := b
  cases ad <;> cases bd <;> cases as <;> cases bs <;> simp [Mall.andB] at h ⊢

theorem andB_unique (a b : Mall) (h : (Mall.andB a b).dissat = .unique) :
    a.dissat = .unique ∧ b.dissat = .unique := by
  obtain ⟨ad, as, am⟩ := a; obtain ⟨bd, bs, bm⟩ := b
  cases ad <;> cases bd <;> cases as <;> cases bs <;> simp [Mall.andB] at h ⊢

theorem andV_none (a b : Mall) (h : (Mall.andV a b).dissat = .none) :
    b.dissat = .none ∨ a.signed = true := by
  obtain ⟨ad, as, am⟩ := a; obtain ⟨bd, bs, bm⟩ := b
  cases bd <;> cases as <;> simp [Mall.andV] at h ⊢

theorem andV_not_unique (a b : Mall) : (Mall.andV a b).dissat ≠ .unique := by
  obtain ⟨ad, as, am⟩ := a; obtain ⟨bd, bs, bm⟩ := b
  cases bd <;> cases as <;> simp [Mall.andV]

theorem orI_none (a b : Mall) (h : (Mall.orI a b).dissat = .none) :
    a.dissat = .none ∧ b.dissat = .none := by
  obtain ⟨ad, as, am⟩ := a; obtain ⟨bd, bs, bm⟩ := b
  cases ad <;> cases bd <;> simp [Mall.orI] at h ⊢

theorem orI_unique (a b : Mall) (h : (Mall.orI a b).dissat = .unique) :
    (a.dissat = .unique ∧ b.dissat = .none) ∨ (a.dissat = .none ∧ b.dissat = .unique) := by
  obtain ⟨ad, as, am⟩ := a; obtain ⟨bd, bs, bm⟩ := b
  cases ad <;> cases bd <;> simp [Mall.orI] at h ⊢

theorem andOr_none (a b c : Mall) (h : (Mall.andOr a b c).dissat = .none) : c.dissat = .none := by
  obtain ⟨ad, as, am⟩ := a; obtain ⟨bd, bs, bm⟩ := b; obtain ⟨cd, cs, cm⟩ := c
  cases bd <;> cases cd <;> cases as <;> simp [Mall.andOr] at h ⊢

theorem andOr_unique (a b c : Mall) (h : (Mall.andOr a b c).dissat = .unique) :
    c.dissat = .unique := by
  obtain ⟨ad, as, am⟩ := a; obtain ⟨bd, bs, bm⟩ := b; obtain ⟨cd, cs, cm⟩ := c
  cases bd <;> cases cd <;> cases as <;> simp [Mall.andOr] at h ⊢

theorem wrapD_not_none (d : Dissat) : (if d = .none then Dissat.unique else Dissat.unknown) ≠ .none := by
  cases d <;> simp

/-! ### reading the type of a node -/

theorem lift1_mall {fc : Corr → Option Corr} {fm : Mall → Mall} {t τ : Ty}
    (h : Ty.lift1 fc fm t = some τ) : τ.mall = fm t.mall := by
  unfold Ty.lift1 at h
  split at h
  · simp only [Option.some.injEq] at h; rw [← h]
  · cases h

theorem lift2_mall {fc : Corr → Corr → Option Corr} {fm : Mall → Mall → Mall} {a b τ : Ty}
    (h : Ty.lift2 fc fm a b = some τ) : τ.mall = fm a.mall b.mall := by
  unfold Ty.lift2 at h
  split at h
  · simp only [Option.some.injEq] at h; rw [← h]
  · cases h

theorem andOr_mall {a b c τ : Ty} (h : Ty.andOr a b c = some τ) :
    τ.mall = Mall.andOr a.mall b.mall c.mall := by
  unfold Ty.andOr at h
  split at h
  · simp only [Option.some.injEq] at h; rw [← h]
  · cases h

theorem threshold_mall {k : Nat} {ts : List Ty} {τ : Ty} (h : Ty.threshold k ts = some τ) :
    τ.mall = Mall.threshold k (ts.map (·.mall)) := by
  unfold Ty.threshold at h
  split at h
  · simp only [Option.some.injEq] at h; rw [← h]
  · cases h

/-- the type of a node, `default` if ill-typed -/
def tyOf (x : Ms) : Ty := (typeOf x).getD default

theorem typesOf_eq : (xs : MsList) → (ts : List Ty) → typesOf xs = some ts →
    ts = xs.toList.map tyOf ∧ ∀ x ∈ xs.toList, typeOf x = some (tyOf x)
  | .nil, ts, h => by
    simp only [typesOf, Option.some.injEq] at h
    subst h; simp [MsList.toList]
  | .cons y ys, ts, h => by
    simp only [typesOf] at h
    cases hy : typeOf y with
    | none => simp [hy] at h
    | some t =>
      cases hys : typesOf ys with
      | none => simp [hy, hys] at h
      | some ts' =>
        simp only [hy, hys, Option.some.injEq] at h
        have ih := typesOf_eq ys ts' hys
        subst h
        constructor
        · simp [MsList.toList, tyOf, hy, ih.1]
        · intro x hx
          simp only [MsList.toList, List.mem_cons] at hx
          rcases hx with rfl | hx
          · simp [tyOf, hy]
          · exact ih.2 x hx

theorem unary_type {x : Ms} {g : Ty → Option Ty} {τ : Ty} (h : (typeOf x).bind g = some τ) :
    ∃ t, typeOf x = some t ∧ g t = some τ := by
  cases hx : typeOf x with
  | none => simp [hx] at h
  | some t => exact ⟨t, rfl, by simpa [hx] using h⟩

/-! ### the invariant -/

structure NMInv (ua ur : Bool) (av : Avail) (ms : Ms) (M : Mall) (r : SatDissat) : Prop where
  lockS : LockOK ua ur r.sat
  lockD : LockOK ua ur r.dissat
  nu : r.sat.stack ≠ .unavailable
  sgn : M.signed = true → SigOrImp r.sat
  dn : M.dissat = .none → SigOrImp r.dissat
  du : M.dissat = .unique → isStk r.dissat.stack = true ∧ r.dissat.hasSig = false
  cs : satEx av ms = true → isStk r.sat.stack = true

theorem NMInv.of_eq {ua ur : Bool} {av : Avail} {x y : Ms} {M : Mall} {r : SatDissat}
    (h : NMInv ua ur av x M r) (hs : satEx av y = satEx av x) : NMInv ua ur av y M r :=
  ⟨h.lockS, h.lockD, h.nu, h.sgn, h.dn, h.du, hs ▸ h.cs⟩

/-- a leaf described by `LeafFacts` (the four multisig fragments: type `e`, `s`, `m`) -/
theorem leaf_nmInv {ua ur : Bool} {av : Avail} {ms : Ms} {a : Assets} {B : Nat} {can : Bool}
    {r : SatDissat} {M : Mall} (hf : LeafFacts a B can r) (hM : M.dissat = .unique)
    (hsat : satEx av ms = can) : NMInv ua ur av ms M r :=
  ⟨lockOK_none hf.sAbs hf.sRel, lockOK_none hf.dAbs hf.dRel, hf.sNU, fun _ => hf.sSig,
    fun h => (by rw [hM] at h; cases h),
    fun _ => ⟨hf.dStk, hf.dNoSig⟩, fun h => by rw [hf.sStk, ← hsat, h]⟩

/-! ### the threshold node -/

theorem countP_add_countP_not {α : Type} (l : List α) (p : α → Bool) :
    l.countP p + l.countP (fun x => !p x) = l.length := by
  induction l with
  | nil => rfl
  | cons a t ih =>
    simp only [List.countP_cons, List.length_cons]
    cases p a <;> simp <;> omega

theorem not_freeSat_sigOrImp {sd : SatDissat} (h : freeSat sd = false) : SigOrImp sd.sat := by
  intro hne
  simp only [freeSat, Bool.and_eq_false_iff, decide_eq_false_iff_not, Bool.not_eq_false'] at h
  rcases h with h | h
  · exact absurd hne h
  · exact h

section
variable {ua ur : Bool} {av : Avail}

theorem thresh_nm_inv (k : Nat) (xs : MsList) (f : Ms → SatDissat) (ty : Ms → Mall) (M : Mall)
    (h : ∀ x ∈ xs.toList, NMInv ua ur av x (ty x) (f x))
    (hallU : ∀ x ∈ xs.toList, (ty x).dissat = .unique)
    (hk1 : 1 ≤ k) (hkn : k ≤ xs.toList.length)
    (hcnt : xs.toList.length - xs.toList.countP (fun x => (ty x).signed) ≤ k)
    (hMs : M.signed = true → xs.toList.length - xs.toList.countP (fun x => (ty x).signed) < k)
    (hMd : M.dissat ≠ .none) :
    NMInv ua ur av (.thresh k xs) M
      ⟨foldConcat ((xs.toList.map f).map (·.dissat)),
       if k = (xs.toList.map f).length then foldConcat ((xs.toList.map f).map (·.sat))
       else threshNonMall k ((xs.toList.map f).map (·.dissat)) ((xs.toList.map f).map (·.sat))⟩ := by
  have hlen : (xs.toList.map f).length = xs.toList.length := List.length_map _
  have hlock : ∀ sd ∈ xs.toList.map f, LockOK ua ur sd.sat ∧ LockOK ua ur sd.dissat := by
    intro sd hsd
    obtain ⟨x, hx, rfl⟩ := List.mem_map.mp hsd
    exact ⟨(h x hx).lockS, (h x hx).lockD⟩
  have hlockD : ∀ s ∈ (xs.toList.map f).map (·.dissat), LockOK ua ur s := by
    intro s hs
    obtain ⟨sd, hsd, rfl⟩ := List.mem_map.mp hs
    exact (hlock sd hsd).2
  have hlockS : ∀ s ∈ (xs.toList.map f).map (·.sat), LockOK ua ur s := by
    intro s hs
    obtain ⟨sd, hsd, rfl⟩ := List.mem_map.mp hs
    exact (hlock sd hsd).1
  have hdu : ∀ sd ∈ xs.toList.map f, isStk sd.dissat.stack = true ∧ sd.dissat.hasSig = false := by
    intro sd hsd
    obtain ⟨x, hx, rfl⟩ := List.mem_map.mp hsd
    exact (h x hx).du (hallU x hx)
  have hnu : ∀ sd ∈ xs.toList.map f, sd.sat.stack ≠ .unavailable := by
    intro sd hsd
    obtain ⟨x, hx, rfl⟩ := List.mem_map.mp hsd
    exact (h x hx).nu
  have hfree : (xs.toList.map f).countP freeSat
      ≤ xs.toList.length - xs.toList.countP (fun x => (ty x).signed) := by
    have h1 : (xs.toList.map f).countP freeSat
        ≤ xs.toList.countP (fun x => !(ty x).signed) := by
      rw [List.countP_map]
      apply List.countP_mono_left
      intro x hx hfx
      simp only [Function.comp] at hfx
      cases hsg : (ty x).signed with
      | false => rfl
      | true =>
        exfalso
        have hso := (h x hx).sgn hsg
        simp only [freeSat, Bool.and_eq_true, decide_eq_true_eq, Bool.not_eq_true'] at hfx
        have := hso hfx.1
        rw [hfx.2] at this; cases this
    have h2 := countP_add_countP_not xs.toList (fun x => (ty x).signed)
    omega
  refine ⟨?_, foldConcat_lockOK _ hlockD, ?_, ?_, fun hd => absurd hd hMd, ?_, ?_⟩
  · show LockOK ua ur (if _ then _ else _)
    split
    · exact foldConcat_lockOK _ hlockS
    · exact threshNonMall_lockOK k _ hlock
  · show (if _ then _ else _ : Sat).stack ≠ _
    split
    · unfold foldConcat
      refine foldl_concat_ne_unav _ _ (lockOK_empty ua ur) hlockS (by simp [Sat.empty]) ?_
      intro s hs
      obtain ⟨sd, hsd, rfl⟩ := List.mem_map.mp hs
      exact hnu sd hsd
    next hk =>
      exact threshNonMall_ne_unav k _ (by omega) hlock
        (fun sd hsd => ⟨hnu sd hsd, isStk_ne_unav (hdu sd hsd).1⟩) (by omega)
  · intro hsg
    have hlt := hMs hsg
    show SigOrImp (if _ then _ else _)
    split
    next hk =>
      -- all children satisfied; one of them is not `freeSat`
      have hex : ∃ sd ∈ xs.toList.map f, freeSat sd = false := by
        apply Classical.byContradiction
        intro hno
        have hall : ∀ sd ∈ xs.toList.map f, freeSat sd = true := by
          intro sd hsd
          cases hfx : freeSat sd with
          | true => rfl
          | false => exact absurd ⟨sd, hsd, hfx⟩ hno
        have := List.countP_eq_length.mpr hall
        omega
      obtain ⟨sd, hsd, hfs⟩ := hex
      intro hne
      unfold foldConcat at hne ⊢
      exact foldl_concat_hasSig _ _ (lockOK_empty ua ur) hlockS hne
        (.inr ⟨sd.sat, List.mem_map.mpr ⟨sd, hsd, rfl⟩, not_freeSat_sigOrImp hfs⟩)
    next hk =>
      exact threshNonMall_sigOrImp k _ (by omega) hlock (by omega)
  · intro _
    constructor
    · rw [foldConcat_isStk _ hlockD, List.all_map, List.all_eq_true]
      intro sd hsd
      exact (hdu sd hsd).1
    · unfold foldConcat
      refine foldl_concat_hasSig_false _ _ (lockOK_empty ua ur) hlockD rfl ?_
      intro s hs
      obtain ⟨sd, hsd, rfl⟩ := List.mem_map.mp hs
      exact (hdu sd hsd).2
  · intro hex
    simp only [satEx, threshEx, Bool.and_eq_true, beq_iff_eq, decide_eq_true_eq,
      countOnlySat_eq, countCanSat_eq, countDead_eq] at hex
    obtain ⟨⟨hdead, hlo⟩, hhi⟩ := hex
    have hcs : xs.toList.countP (fun x => satEx av x)
        ≤ (xs.toList.map f).countP (fun sd => isStk sd.sat.stack) := by
      rw [List.countP_map]
      apply List.countP_mono_left
      intro x hx hsx
      exact (h x hx).cs hsx
    show isStk (if _ then _ else _ : Sat).stack = true
    split
    next hk =>
      rw [foldConcat_isStk _ hlockS, List.all_map]
      have hle := List.countP_le_length (p := fun sd : SatDissat => isStk sd.sat.stack)
        (l := xs.toList.map f)
      have : (xs.toList.map f).countP (fun sd => isStk sd.sat.stack) = (xs.toList.map f).length := by
        omega
      rw [List.countP_eq_length] at this
      rw [List.all_eq_true]
      intro sd hsd
      exact this sd hsd
    next hk =>
      apply threshNonMall_isStk k _ hk1 (by omega) hlock hnu (fun sd hsd => (hdu sd hsd).1) (by omega)
      refine Nat.le_trans hhi (Nat.le_trans hcs ?_)
      apply List.countP_mono_left
      intro sd _ hst
      simpa using isStk_ne_imp hst

end

theorem cntS_map (l : List Ms) (ty : Ms → Mall) :
    Thresh.cntS (l.map ty) = l.countP (fun x => (ty x).signed) := by
  unfold Thresh.cntS
  rw [← List.countP_eq_length_filter, List.countP_map]
  rfl

theorem threshold_facts (k : Nat) (ms : List Mall) (h : (Mall.threshold k ms).nonMall = true) :
    ms.all (·.nonMall) = true ∧ ms.all (fun s => s.dissat == .unique) = true ∧
    ms.length - Thresh.cntS ms ≤ k ∧
    ((Mall.threshold k ms).signed = true → ms.length - Thresh.cntS ms < k) ∧
    (Mall.threshold k ms).dissat ≠ .none := by
  unfold Mall.threshold at h ⊢
  rw [Thresh.threshFold_eq] at h ⊢
  simp only [Bool.and_eq_true, decide_eq_true_eq] at h ⊢
  have hle : Thresh.cntS ms ≤ ms.length := List.length_filter_le _ _
  refine ⟨h.1.1, h.2, by omega, fun hs => by omega, ?_⟩
  split <;> simp

/-! ### the induction -/

/-- node predicate of the non-malleable theorem -/
def nmP (nz : Sat) (a : Assets) (ua ur : Bool) (m : Ms) : Bool :=
  lockUnit a ua ur m && (isNotNonZero m || decide (nz = Sat.push0)) && isNotRawPkH m
    && preKnown a m && threshKOK m

theorem minFn_nonmall {c : SatCfg} (hm : c.mall = false) : c.minFn = minimum := by
  simp [SatCfg.minFn, hm]

section
variable (nz : Sat) (c : SatCfg) (ua ur : Bool)

mutual
theorem nm_inv (hm : c.mall = false) (hr : c.rootHasSig = true) :
    (ms : Ms) → (τ : Ty) → typeOf ms = some τ → τ.mall.nonMall = true →
      allNodes (nmP nz c.assets ua ur) ms = true →
      NMInv ua ur (availOf c.assets c.ctx) ms τ.mall (satDissatG nz c ms)
  | .fls, τ, hτ, _, _ => by
    simp only [typeOf, Option.some.injEq] at hτ; subst hτ
    simp only [satDissatG]
    exact ⟨lockOK_IMPOSSIBLE _ _, lockOK_TRIVIAL _ _, by simp [IMPOSSIBLE],
      fun _ => sigOrImp_of_imp rfl, fun h => by simp [Ty.FALSE, Mall.FALSE] at h,
      fun _ => ⟨rfl, rfl⟩, by simp [satEx]⟩
  | .tru, τ, hτ, _, _ => by
    simp only [typeOf, Option.some.injEq] at hτ; subst hτ
    simp only [satDissatG]
    exact ⟨lockOK_TRIVIAL _ _, lockOK_IMPOSSIBLE _ _, by simp [TRIVIAL],
      fun h => by simp [Ty.TRUE, Mall.TRUE] at h, fun _ => sigOrImp_of_imp rfl,
      fun h => by simp [Ty.TRUE, Mall.TRUE] at h, fun _ => rfl⟩
  | .pkK k, τ, hτ, _, _ => by
    simp only [typeOf, Option.some.injEq] at hτ; subst hτ
    simp only [satDissatG]
    exact ⟨lockOK_none rfl rfl, lockOK_push0 _ _, sigWit_ne_unav _ _ _, fun _ => sigOrImp_of_sig rfl,
      fun h => by simp [Ty.pkK, Mall.pkK] at h, fun _ => ⟨rfl, rfl⟩,
      fun h => by simpa [satEx, availOf, sigWit_isStk] using h⟩
  | .pkH k, τ, hτ, _, _ => by
    simp only [typeOf, Option.some.injEq] at hτ; subst hτ
    simp only [satDissatG]
    exact ⟨lockOK_none rfl rfl, lockOK_none rfl rfl,
      combine_ne_unav (sigWit_ne_unav _ _ _) (by simp), fun _ => sigOrImp_of_sig rfl,
      fun h => by simp [Ty.pkH, Mall.pkH] at h, fun _ => ⟨rfl, rfl⟩,
      fun h => by simpa [satEx, availOf, sigWit_isStk] using h⟩
  | .rawPkH h, τ, _, _, hP => by
    simp [allNodes, subterms, nmP, isNotRawPkH] at hP
  | .multi k ks, τ, hτ, _, _ => by
    simp only [typeOf, Option.some.injEq] at hτ; subst hτ
    simp only [satDissatG]
    exact leaf_nmInv (multiSD_facts c.ctx c.assets k ks) rfl (by simp [satEx, availOf])
  | .sortedMulti k ks, τ, hτ, _, _ => by
    simp only [typeOf, Option.some.injEq] at hτ; subst hτ
    simp only [satDissatG]
    exact leaf_nmInv (multiSD_facts c.ctx c.assets k (sortKeys' c.env ks)) rfl
      (by simp [satEx, availOf, sortKeys'_filter])
  | .multiA k ks, τ, hτ, _, _ => by
    simp only [typeOf, Option.some.injEq] at hτ; subst hτ
    simp only [satDissatG]
    exact leaf_nmInv (multiASD_facts c.ctx c.assets k ks) rfl (by simp [satEx, availOf])
  | .sortedMultiA k ks, τ, hτ, _, _ => by
    simp only [typeOf, Option.some.injEq] at hτ; subst hτ
    simp only [satDissatG]
    exact leaf_nmInv (multiASD_facts c.ctx c.assets k (sortKeys' c.env ks)) rfl
      (by simp [satEx, availOf, sortKeys'_filter])
  | .after n, τ, hτ, _, hP => by
    simp only [typeOf, Option.some.injEq] at hτ; subst hτ
    simp only [allNodes, subterms, List.all_cons, List.all_nil, nmP, lockUnit, Bool.and_eq_true] at hP
    cases hc : c.assets.checkAfter n with
    | true =>
      simp only [satDissatG, hc, if_true]
      refine ⟨⟨?_, by simp⟩, lockOK_IMPOSSIBLE _ _, by simp,
        fun h => by simp [Ty.time, Mall.time] at h, fun _ => sigOrImp_of_imp rfl,
        fun h => by simp [Ty.time, Mall.time] at h, fun _ => rfl⟩
      intro m hm'
      simp only [Option.some.injEq] at hm'
      subst hm'
      simpa [hc] using hP.1.1.1.1.1
    | false =>
      have hsat : satEx (availOf c.assets c.ctx) (.after n) = false := by simp [satEx, availOf, hc]
      simp only [satDissatG, hc, hr]
      exact ⟨lockOK_none rfl rfl, lockOK_IMPOSSIBLE _ _, by simp,
        fun h => by simp [Ty.time, Mall.time] at h, fun _ => sigOrImp_of_imp rfl,
        fun h => by simp [Ty.time, Mall.time] at h, by simp [hsat]⟩
  | .older n, τ, hτ, _, hP => by
    simp only [typeOf, Option.some.injEq] at hτ; subst hτ
    simp only [allNodes, subterms, List.all_cons, List.all_nil, nmP, lockUnit, Bool.and_eq_true] at hP
    cases hc : c.assets.checkOlder (relCanon n) with
    | true =>
      simp only [satDissatG, hc, if_true]
      refine ⟨⟨by simp, ?_⟩, lockOK_IMPOSSIBLE _ _, by simp,
        fun h => by simp [Ty.time, Mall.time] at h, fun _ => sigOrImp_of_imp rfl,
        fun h => by simp [Ty.time, Mall.time] at h, fun _ => rfl⟩
      intro m hm'
      simp only [Option.some.injEq] at hm'
      subst hm'
      simpa [hc] using hP.1.1.1.1.1
    | false =>
      have hsat : satEx (availOf c.assets c.ctx) (.older n) = false := by simp [satEx, availOf, hc]
      simp only [satDissatG, hc, hr]
      exact ⟨lockOK_none rfl rfl, lockOK_IMPOSSIBLE _ _, by simp,
        fun h => by simp [Ty.time, Mall.time] at h, fun _ => sigOrImp_of_imp rfl,
        fun h => by simp [Ty.time, Mall.time] at h, by simp [hsat]⟩
  | .hash kind h, τ, hτ, _, hP => by
    simp only [typeOf, Option.some.injEq] at hτ; subst hτ
    simp only [allNodes, subterms, List.all_cons, List.all_nil, nmP, preKnown, Bool.and_eq_true] at hP
    have hpre : c.assets.preimage kind h = true := hP.1.1.2
    simp only [satDissatG, hpre, if_true]
    exact ⟨lockOK_none rfl rfl, lockOK_none rfl rfl, by simp,
      fun h => by simp [Ty.hash, Mall.hash] at h, fun h => by simp [Ty.hash, Mall.hash] at h,
      fun h => by simp [Ty.hash, Mall.hash] at h, fun _ => rfl⟩
  | .alt x, τ, hτ, hnm, hP => by
    simp only [allNodes, subterms, List.all_cons, Bool.and_eq_true] at hP
    simp only [typeOf] at hτ
    obtain ⟨t, ht, hc⟩ := unary_type hτ
    have hM : τ.mall = t.mall := lift1_mall hc
    rw [hM] at hnm ⊢
    simp only [satDissatG]
    exact (nm_inv hm hr x t ht hnm hP.2).of_eq (by simp only [satEx])
  | .swap x, τ, hτ, hnm, hP => by
    simp only [allNodes, subterms, List.all_cons, Bool.and_eq_true] at hP
    simp only [typeOf] at hτ
    obtain ⟨t, ht, hc⟩ := unary_type hτ
    have hM : τ.mall = t.mall := lift1_mall hc
    rw [hM] at hnm ⊢
    simp only [satDissatG]
    exact (nm_inv hm hr x t ht hnm hP.2).of_eq (by simp only [satEx])
  | .check x, τ, hτ, hnm, hP => by
    simp only [allNodes, subterms, List.all_cons, Bool.and_eq_true] at hP
    simp only [typeOf] at hτ
    obtain ⟨t, ht, hc⟩ := unary_type hτ
    have hM : τ.mall = t.mall := lift1_mall hc
    rw [hM] at hnm ⊢
    simp only [satDissatG]
    exact (nm_inv hm hr x t ht hnm hP.2).of_eq (by simp only [satEx])
  | .zeroNotEqual x, τ, hτ, hnm, hP => by
    simp only [allNodes, subterms, List.all_cons, Bool.and_eq_true] at hP
    simp only [typeOf] at hτ
    obtain ⟨t, ht, hc⟩ := unary_type hτ
    have hM : τ.mall = t.mall := lift1_mall hc
    rw [hM] at hnm ⊢
    simp only [satDissatG]
    exact (nm_inv hm hr x t ht hnm hP.2).of_eq (by simp only [satEx])
  | .dupIf x, τ, hτ, hnm, hP => by
    simp only [allNodes, subterms, List.all_cons, Bool.and_eq_true] at hP
    simp only [typeOf] at hτ
    obtain ⟨t, ht, hc⟩ := unary_type hτ
    have hM : τ.mall = Mall.castDupIf t.mall := lift1_mall hc
    rw [hM] at hnm ⊢
    have ih := nm_inv hm hr x t ht (by simpa [Mall.castDupIf] using hnm) hP.2
    simp only [satDissatG]
    exact ⟨lockOK_congr ih.lockS rfl rfl, lockOK_push0 _ _, push_ne_unav rfl ih.nu,
      fun h => push_sigOrImp rfl rfl (ih.sgn (by simpa [Mall.castDupIf] using h)),
      fun h => absurd h (by simp only [Mall.castDupIf]; exact wrapD_not_none _),
      fun _ => ⟨rfl, rfl⟩,
      fun h => by
        simp only [satEx] at h
        rw [push_isStk (s := (satDissatG nz c x).sat) rfl]; exact ih.cs h⟩
  | .verify x, τ, hτ, hnm, hP => by
    simp only [allNodes, subterms, List.all_cons, Bool.and_eq_true] at hP
    simp only [typeOf] at hτ
    obtain ⟨t, ht, hc⟩ := unary_type hτ
    have hM : τ.mall = Mall.castVerify t.mall := lift1_mall hc
    rw [hM] at hnm ⊢
    have ih := nm_inv hm hr x t ht (by simpa [Mall.castVerify] using hnm) hP.2
    simp only [satDissatG]
    exact ⟨ih.lockS, lockOK_IMPOSSIBLE _ _, ih.nu,
      fun h => ih.sgn (by simpa [Mall.castVerify] using h),
      fun _ => sigOrImp_of_imp rfl,
      fun h => by simp [Mall.castVerify] at h,
      fun h => ih.cs (by simpa only [satEx] using h)⟩
  | .nonZero x, τ, hτ, hnm, hP => by
    simp only [allNodes, subterms, List.all_cons, Bool.and_eq_true, nmP, isNotNonZero,
      Bool.false_or, decide_eq_true_eq] at hP
    simp only [typeOf] at hτ
    obtain ⟨t, ht, hc⟩ := unary_type hτ
    have hM : τ.mall = Mall.castNonZero t.mall := lift1_mall hc
    rw [hM] at hnm ⊢
    have ih := nm_inv hm hr x t ht (by simpa [Mall.castNonZero] using hnm) hP.2
    have hnz : nz = Sat.push0 := hP.1.1.1.1.2
    subst hnz
    simp only [satDissatG]
    exact ⟨ih.lockS, lockOK_push0 _ _, ih.nu,
      fun h => ih.sgn (by simpa [Mall.castNonZero] using h),
      fun h => absurd h (by simp only [Mall.castNonZero]; exact wrapD_not_none _),
      fun _ => ⟨rfl, rfl⟩,
      fun h => ih.cs (by simpa only [satEx] using h)⟩
  | .andB l r, τ, hτ, hnm, hP => by
    simp only [allNodes, subterms, List.all_cons, List.all_append, Bool.and_eq_true] at hP
    simp only [typeOf] at hτ
    cases htl : typeOf l with
    | none => simp [htl] at hτ
    | some tl =>
    cases htr : typeOf r with
    | none => simp [htl, htr] at hτ
    | some tr =>
    simp only [htl, htr] at hτ
    have hM : τ.mall = Mall.andB tl.mall tr.mall := lift2_mall hτ
    rw [hM] at hnm ⊢
    simp only [Mall.andB, Bool.and_eq_true] at hnm
    have hl := nm_inv hm hr l tl htl hnm.1 hP.2.1
    have hr' := nm_inv hm hr r tr htr hnm.2 hP.2.2
    simp only [satDissatG]
    refine ⟨concat_lockOK hl.lockS hr'.lockS, concat_lockOK hl.lockD hr'.lockD,
      concat_ne_unav hl.lockS hr'.lockS hl.nu hr'.nu, ?_, ?_, ?_, ?_⟩
    · intro h
      simp only [Mall.andB, Bool.or_eq_true] at h
      rcases h with h | h
      · exact concat_sigOrImp_left hl.lockS hr'.lockS (hl.sgn h)
      · exact concat_sigOrImp_right hl.lockS hr'.lockS (hr'.sgn h)
    · intro h
      rcases andB_none _ _ h with h | h
      · exact concat_sigOrImp_left hl.lockD hr'.lockD (hl.dn h)
      · exact concat_sigOrImp_right hl.lockD hr'.lockD (hr'.dn h)
    · intro h
      have := andB_unique _ _ h
      exact concat_stk_nosig hl.lockD hr'.lockD (hl.du this.1) (hr'.du this.2)
    · intro hex
      simp only [satEx, Bool.and_eq_true] at hex
      rw [concat_isStk hl.lockS hr'.lockS, hl.cs hex.1, hr'.cs hex.2]; rfl
  | .andV l r, τ, hτ, hnm, hP => by
    simp only [allNodes, subterms, List.all_cons, List.all_append, Bool.and_eq_true] at hP
    simp only [typeOf] at hτ
    cases htl : typeOf l with
    | none => simp [htl] at hτ
    | some tl =>
    cases htr : typeOf r with
    | none => simp [htl, htr] at hτ
    | some tr =>
    simp only [htl, htr] at hτ
    have hM : τ.mall = Mall.andV tl.mall tr.mall := lift2_mall hτ
    rw [hM] at hnm ⊢
    simp only [Mall.andV, Bool.and_eq_true] at hnm
    have hl := nm_inv hm hr l tl htl hnm.1 hP.2.1
    have hr' := nm_inv hm hr r tr htr hnm.2 hP.2.2
    simp only [satDissatG]
    refine ⟨concat_lockOK hl.lockS hr'.lockS, concat_lockOK hl.lockS hr'.lockD,
      concat_ne_unav hl.lockS hr'.lockS hl.nu hr'.nu, ?_, ?_, ?_, ?_⟩
    · intro h
      simp only [Mall.andV, Bool.or_eq_true] at h
      rcases h with h | h
      · exact concat_sigOrImp_left hl.lockS hr'.lockS (hl.sgn h)
      · exact concat_sigOrImp_right hl.lockS hr'.lockS (hr'.sgn h)
    · intro h
      rcases andV_none _ _ h with h | h
      · exact concat_sigOrImp_right hl.lockS hr'.lockD (hr'.dn h)
      · exact concat_sigOrImp_left hl.lockS hr'.lockD (hl.sgn h)
    · intro h
      exact absurd h (andV_not_unique _ _)
    · intro hex
      simp only [satEx, Bool.and_eq_true] at hex
      rw [concat_isStk hl.lockS hr'.lockS, hl.cs hex.1, hr'.cs hex.2]; rfl
  | .orB l r, τ, hτ, hnm, hP => by
    simp only [allNodes, subterms, List.all_cons, List.all_append, Bool.and_eq_true] at hP
    simp only [typeOf] at hτ
    cases htl : typeOf l with
    | none => simp [htl] at hτ
    | some tl =>
    cases htr : typeOf r with
    | none => simp [htl, htr] at hτ
    | some tr =>
    simp only [htl, htr] at hτ
    have hM : τ.mall = Mall.orB tl.mall tr.mall := lift2_mall hτ
    rw [hM] at hnm ⊢
    simp only [Mall.orB, Bool.and_eq_true, Bool.or_eq_true, beq_iff_eq] at hnm
    obtain ⟨⟨⟨⟨hml, hdl⟩, hmr⟩, hdr⟩, hsg⟩ := hnm
    have hl := nm_inv hm hr l tl htl hml hP.2.1
    have hr' := nm_inv hm hr r tr htr hmr hP.2.2
    have dl := hl.du hdl
    have dr := hr'.du hdr
    have l1 := concat_lockOK hl.lockD hr'.lockS
    have l2 := concat_lockOK hl.lockS hr'.lockD
    have nu1 := concat_ne_unav hl.lockD hr'.lockS (isStk_ne_unav dl.1) hr'.nu
    have nu2 := concat_ne_unav hl.lockS hr'.lockD hl.nu (isStk_ne_unav dr.1)
    have hsig : (concatenateRev (satDissatG nz c l).dissat (satDissatG nz c r).sat).stack ≠ .impossible →
        (concatenateRev (satDissatG nz c l).sat (satDissatG nz c r).dissat).stack ≠ .impossible →
        (concatenateRev (satDissatG nz c l).dissat (satDissatG nz c r).sat).hasSig = true ∨
        (concatenateRev (satDissatG nz c l).sat (satDissatG nz c r).dissat).hasSig = true := by
      intro h1 h2
      rcases hsg with h | h
      · right; exact concat_sigOrImp_left hl.lockS hr'.lockD (hl.sgn h) h2
      · left; exact concat_sigOrImp_right hl.lockD hr'.lockS (hr'.sgn h) h1
    simp only [satDissatG, minFn_nonmall hm]
    refine ⟨min_lockOK l1 l2, concat_lockOK hl.lockD hr'.lockD, min_ne_unav nu1 nu2 hsig, ?_, ?_, ?_, ?_⟩
    · intro h
      simp only [Mall.orB, Bool.and_eq_true] at h
      exact min_sigOrImp (concat_sigOrImp_right hl.lockD hr'.lockS (hr'.sgn h.2))
        (concat_sigOrImp_left hl.lockS hr'.lockD (hl.sgn h.1))
    · intro h; simp [Mall.orB] at h
    · intro _; exact concat_stk_nosig hl.lockD hr'.lockD dl dr
    · intro hex
      simp only [satEx, Bool.or_eq_true, Bool.and_eq_true] at hex
      apply min_isStk nu1 nu2 hsig
      rcases hex with h | h
      · right; rw [concat_isStk hl.lockS hr'.lockD, hl.cs h.1, dr.1]; rfl
      · left; rw [concat_isStk hl.lockD hr'.lockS, dl.1, hr'.cs h.2]; rfl
  | .orD l r, τ, hτ, hnm, hP => by
    simp only [allNodes, subterms, List.all_cons, List.all_append, Bool.and_eq_true] at hP
    simp only [typeOf] at hτ
    cases htl : typeOf l with
    | none => simp [htl] at hτ
    | some tl =>
    cases htr : typeOf r with
    | none => simp [htl, htr] at hτ
    | some tr =>
    simp only [htl, htr] at hτ
    have hM : τ.mall = Mall.orD tl.mall tr.mall := lift2_mall hτ
    rw [hM] at hnm ⊢
    simp only [Mall.orD, Bool.and_eq_true, Bool.or_eq_true, beq_iff_eq] at hnm
    obtain ⟨⟨⟨hml, hdl⟩, hmr⟩, hsg⟩ := hnm
    have hl := nm_inv hm hr l tl htl hml hP.2.1
    have hr' := nm_inv hm hr r tr htr hmr hP.2.2
    have dl := hl.du hdl
    have l2 := concat_lockOK hl.lockD hr'.lockS
    have nu2 := concat_ne_unav hl.lockD hr'.lockS (isStk_ne_unav dl.1) hr'.nu
    have hsig : (satDissatG nz c l).sat.stack ≠ .impossible →
        (concatenateRev (satDissatG nz c l).dissat (satDissatG nz c r).sat).stack ≠ .impossible →
        (satDissatG nz c l).sat.hasSig = true ∨
        (concatenateRev (satDissatG nz c l).dissat (satDissatG nz c r).sat).hasSig = true := by
      intro h1 h2
      rcases hsg with h | h
      · left; exact hl.sgn h h1
      · right; exact concat_sigOrImp_right hl.lockD hr'.lockS (hr'.sgn h) h2
    simp only [satDissatG, minFn_nonmall hm]
    refine ⟨min_lockOK hl.lockS l2, concat_lockOK hl.lockD hr'.lockD, min_ne_unav hl.nu nu2 hsig,
      ?_, ?_, ?_, ?_⟩
    · intro h
      simp only [Mall.orD, Bool.and_eq_true] at h
      exact min_sigOrImp (hl.sgn h.1) (concat_sigOrImp_right hl.lockD hr'.lockS (hr'.sgn h.2))
    · intro h
      exact concat_sigOrImp_right hl.lockD hr'.lockD (hr'.dn h)
    · intro h
      exact concat_stk_nosig hl.lockD hr'.lockD dl (hr'.du h)
    · intro hex
      simp only [satEx, Bool.or_eq_true, Bool.and_eq_true] at hex
      apply min_isStk hl.nu nu2 hsig
      rcases hex with h | h
      · left; exact hl.cs h
      · right; rw [concat_isStk hl.lockD hr'.lockS, dl.1, hr'.cs h.2]; rfl
  | .orC l r, τ, hτ, hnm, hP => by
    simp only [allNodes, subterms, List.all_cons, List.all_append, Bool.and_eq_true] at hP
    simp only [typeOf] at hτ
    cases htl : typeOf l with
    | none => simp [htl] at hτ
    | some tl =>
    cases htr : typeOf r with
    | none => simp [htl, htr] at hτ
    | some tr =>
    simp only [htl, htr] at hτ
    have hM : τ.mall = Mall.orC tl.mall tr.mall := lift2_mall hτ
    rw [hM] at hnm ⊢
    simp only [Mall.orC, Bool.and_eq_true, Bool.or_eq_true, beq_iff_eq] at hnm
    obtain ⟨⟨⟨hml, hdl⟩, hmr⟩, hsg⟩ := hnm
    have hl := nm_inv hm hr l tl htl hml hP.2.1
    have hr' := nm_inv hm hr r tr htr hmr hP.2.2
    have dl := hl.du hdl
    have l2 := concat_lockOK hl.lockD hr'.lockS
    have nu2 := concat_ne_unav hl.lockD hr'.lockS (isStk_ne_unav dl.1) hr'.nu
    have hsig : (satDissatG nz c l).sat.stack ≠ .impossible →
        (concatenateRev (satDissatG nz c l).dissat (satDissatG nz c r).sat).stack ≠ .impossible →
        (satDissatG nz c l).sat.hasSig = true ∨
        (concatenateRev (satDissatG nz c l).dissat (satDissatG nz c r).sat).hasSig = true := by
      intro h1 h2
      rcases hsg with h | h
      · left; exact hl.sgn h h1
      · right; exact concat_sigOrImp_right hl.lockD hr'.lockS (hr'.sgn h) h2
    simp only [satDissatG, minFn_nonmall hm]
    refine ⟨min_lockOK hl.lockS l2, lockOK_IMPOSSIBLE _ _, min_ne_unav hl.nu nu2 hsig,
      ?_, fun _ => sigOrImp_of_imp rfl, fun h => by simp [Mall.orC] at h, ?_⟩
    · intro h
      simp only [Mall.orC, Bool.and_eq_true] at h
      exact min_sigOrImp (hl.sgn h.1) (concat_sigOrImp_right hl.lockD hr'.lockS (hr'.sgn h.2))
    · intro hex
      simp only [satEx, Bool.or_eq_true, Bool.and_eq_true] at hex
      apply min_isStk hl.nu nu2 hsig
      rcases hex with h | h
      · left; exact hl.cs h
      · right; rw [concat_isStk hl.lockD hr'.lockS, dl.1, hr'.cs h.2]; rfl
  | .orI l r, τ, hτ, hnm, hP => by
    simp only [allNodes, subterms, List.all_cons, List.all_append, Bool.and_eq_true] at hP
    simp only [typeOf] at hτ
    cases htl : typeOf l with
    | none => simp [htl] at hτ
    | some tl =>
    cases htr : typeOf r with
    | none => simp [htl, htr] at hτ
    | some tr =>
    simp only [htl, htr] at hτ
    have hM : τ.mall = Mall.orI tl.mall tr.mall := lift2_mall hτ
    rw [hM] at hnm ⊢
    simp only [Mall.orI, Bool.and_eq_true, Bool.or_eq_true] at hnm
    obtain ⟨⟨hml, hmr⟩, hsg⟩ := hnm
    have hl := nm_inv hm hr l tl htl hml hP.2.1
    have hr' := nm_inv hm hr r tr htr hmr hP.2.2
    simp only [satDissatG, minFn_nonmall hm]
    -- the four pushed alternatives
    show NMInv ua ur _ _ _
      ⟨minimum (pushTop .pushOne (satDissatG nz c l).dissat) (pushTop .pushZero (satDissatG nz c r).dissat),
       minimum (pushTop .pushOne (satDissatG nz c l).sat) (pushTop .pushZero (satDissatG nz c r).sat)⟩
    generalize hs1 : pushTop .pushOne (satDissatG nz c l).sat = s1
    generalize hs2 : pushTop .pushZero (satDissatG nz c r).sat = s2
    generalize hd1 : pushTop .pushOne (satDissatG nz c l).dissat = d1
    generalize hd2 : pushTop .pushZero (satDissatG nz c r).dissat = d2
    have e1 : s1.stack = Wit.combine (satDissatG nz c l).sat.stack (.stack [.pushOne]) := by rw [← hs1]; rfl
    have e1' : s1.hasSig = (satDissatG nz c l).sat.hasSig := by rw [← hs1]; rfl
    have e2 : s2.stack = Wit.combine (satDissatG nz c r).sat.stack (.stack [.pushZero]) := by rw [← hs2]; rfl
    have e2' : s2.hasSig = (satDissatG nz c r).sat.hasSig := by rw [← hs2]; rfl
    have f1 : d1.stack = Wit.combine (satDissatG nz c l).dissat.stack (.stack [.pushOne]) := by rw [← hd1]; rfl
    have f1' : d1.hasSig = (satDissatG nz c l).dissat.hasSig := by rw [← hd1]; rfl
    have f2 : d2.stack = Wit.combine (satDissatG nz c r).dissat.stack (.stack [.pushZero]) := by rw [← hd2]; rfl
    have f2' : d2.hasSig = (satDissatG nz c r).dissat.hasSig := by rw [← hd2]; rfl
    have ls1 : LockOK ua ur s1 := by rw [← hs1]; exact lockOK_congr hl.lockS rfl rfl
    have ls2 : LockOK ua ur s2 := by rw [← hs2]; exact lockOK_congr hr'.lockS rfl rfl
    have ld1 : LockOK ua ur d1 := by rw [← hd1]; exact lockOK_congr hl.lockD rfl rfl
    have ld2 : LockOK ua ur d2 := by rw [← hd2]; exact lockOK_congr hr'.lockD rfl rfl
    have nu1 := push_ne_unav e1 hl.nu
    have nu2 := push_ne_unav e2 hr'.nu
    have hsig : s1.stack ≠ .impossible → s2.stack ≠ .impossible →
        s1.hasSig = true ∨ s2.hasSig = true := by
      intro h1 h2
      rcases hsg with h | h
      · left; exact push_sigOrImp e1 e1' (hl.sgn h) h1
      · right; exact push_sigOrImp e2 e2' (hr'.sgn h) h2
    refine ⟨min_lockOK ls1 ls2, min_lockOK ld1 ld2, min_ne_unav nu1 nu2 hsig, ?_, ?_, ?_, ?_⟩
    · intro h
      simp only [Mall.orI, Bool.and_eq_true] at h
      exact min_sigOrImp (push_sigOrImp e1 e1' (hl.sgn h.1)) (push_sigOrImp e2 e2' (hr'.sgn h.2))
    · intro h
      have := orI_none _ _ h
      exact min_sigOrImp (push_sigOrImp f1 f1' (hl.dn this.1)) (push_sigOrImp f2 f2' (hr'.dn this.2))
    · intro h
      rcases orI_unique _ _ h with ⟨h1, h2⟩ | ⟨h1, h2⟩
      · have dl := hl.du h1
        exact min_unique_left (by rw [push_isStk f1]; exact dl.1) (by rw [f1']; exact dl.2)
          (push_sigOrImp f2 f2' (hr'.dn h2))
      · have dr := hr'.du h2
        exact min_unique_right (by rw [push_isStk f2]; exact dr.1) (by rw [f2']; exact dr.2)
          (push_sigOrImp f1 f1' (hl.dn h1))
    · intro hex
      simp only [satEx, Bool.or_eq_true] at hex
      apply min_isStk nu1 nu2 hsig
      rcases hex with h | h
      · left; rw [push_isStk e1]; exact hl.cs h
      · right; rw [push_isStk e2]; exact hr'.cs h
  | .andOr x y z, τ, hτ, hnm, hP => by
    simp only [allNodes, subterms, List.all_cons, List.all_append, Bool.and_eq_true] at hP
    simp only [typeOf] at hτ
    cases htx : typeOf x with
    | none => simp [htx] at hτ
    | some tx =>
    cases hty : typeOf y with
    | none => simp [htx, hty] at hτ
    | some ty =>
    cases htz : typeOf z with
    | none => simp [htx, hty, htz] at hτ
    | some tz =>
    simp only [htx, hty, htz] at hτ
    have hM : τ.mall = Mall.andOr tx.mall ty.mall tz.mall := andOr_mall hτ
    rw [hM] at hnm ⊢
    simp only [Mall.andOr, Bool.and_eq_true, Bool.or_eq_true, beq_iff_eq] at hnm
    obtain ⟨⟨⟨⟨hmx, hmz⟩, hdx⟩, hmy⟩, hsg⟩ := hnm
    have hx := nm_inv hm hr x tx htx hmx hP.2.1.1
    have hy := nm_inv hm hr y ty hty hmy hP.2.1.2
    have hz := nm_inv hm hr z tz htz hmz hP.2.2
    have dx := hx.du hdx
    have l1 := concat_lockOK hx.lockS hy.lockS
    have l2 := concat_lockOK hx.lockD hz.lockS
    have nu1 := concat_ne_unav hx.lockS hy.lockS hx.nu hy.nu
    have nu2 := concat_ne_unav hx.lockD hz.lockS (isStk_ne_unav dx.1) hz.nu
    have hsig : (concatenateRev (satDissatG nz c x).sat (satDissatG nz c y).sat).stack ≠ .impossible →
        (concatenateRev (satDissatG nz c x).dissat (satDissatG nz c z).sat).stack ≠ .impossible →
        (concatenateRev (satDissatG nz c x).sat (satDissatG nz c y).sat).hasSig = true ∨
        (concatenateRev (satDissatG nz c x).dissat (satDissatG nz c z).sat).hasSig = true := by
      intro h1 h2
      rcases hsg with (h | h) | h
      · left; exact concat_sigOrImp_left hx.lockS hy.lockS (hx.sgn h) h1
      · left; exact concat_sigOrImp_right hx.lockS hy.lockS (hy.sgn h) h1
      · right; exact concat_sigOrImp_right hx.lockD hz.lockS (hz.sgn h) h2
    simp only [satDissatG, minFn_nonmall hm]
    refine ⟨min_lockOK l1 l2, concat_lockOK hx.lockD hz.lockD, min_ne_unav nu1 nu2 hsig, ?_, ?_, ?_, ?_⟩
    · intro h
      simp only [Mall.andOr, Bool.and_eq_true, Bool.or_eq_true] at h
      refine min_sigOrImp ?_ (concat_sigOrImp_right hx.lockD hz.lockS (hz.sgn h.2))
      rcases h.1 with h | h
      · exact concat_sigOrImp_left hx.lockS hy.lockS (hx.sgn h)
      · exact concat_sigOrImp_right hx.lockS hy.lockS (hy.sgn h)
    · intro h
      exact concat_sigOrImp_right hx.lockD hz.lockD (hz.dn (andOr_none _ _ _ h))
    · intro h
      exact concat_stk_nosig hx.lockD hz.lockD dx (hz.du (andOr_unique _ _ _ h))
    · intro hex
      simp only [satEx, Bool.or_eq_true, Bool.and_eq_true] at hex
      apply min_isStk nu1 nu2 hsig
      rcases hex with h | h
      · left; rw [concat_isStk hx.lockS hy.lockS, hx.cs h.1, hy.cs h.2]; rfl
      · right; rw [concat_isStk hx.lockD hz.lockS, dx.1, hz.cs h.2]; rfl
  | .thresh k xs, τ, hτ, hnm, hP => by
    simp only [allNodes, subterms, List.all_cons, Bool.and_eq_true, nmP, threshKOK,
      decide_eq_true_eq] at hP
    simp only [typeOf] at hτ
    obtain ⟨ts, hts, hth⟩ := Option.bind_eq_some_iff.mp hτ
    have hM : τ.mall = Mall.threshold k (ts.map (·.mall)) := threshold_mall hth
    obtain ⟨htsEq, htyx⟩ := typesOf_eq xs ts hts
    have hmap : ts.map (·.mall) = xs.toList.map (fun x => (tyOf x).mall) := by
      rw [htsEq, List.map_map]; rfl
    rw [hM] at hnm ⊢
    rw [hmap] at hnm ⊢
    obtain ⟨hallM, hallU, hcnt, hsgn, hdnn⟩ := threshold_facts k _ hnm
    rw [cntS_map, List.length_map] at hcnt hsgn
    rw [List.all_map, List.all_eq_true] at hallM hallU
    have ih := nm_invs hm hr xs hP.2
    have hkk : 1 ≤ k ∧ k ≤ xs.length := hP.1.2
    have := thresh_nm_inv (ua := ua) (ur := ur) (av := availOf c.assets c.ctx) k xs (satDissatG nz c)
      (fun x => (tyOf x).mall) _
      (fun x hx => ih x hx (tyOf x) (htyx x hx) (by simpa using hallM x hx))
      (fun x hx => by simpa using hallU x hx)
      hkk.1 (by rw [MsList.length_toList]; exact hkk.2) hcnt hsgn hdnn
    simp only [satDissatG, hm, satDissatsG_eq_map]
    exact this
theorem nm_invs (hm : c.mall = false) (hr : c.rootHasSig = true) :
    (xs : MsList) → allNodesL (nmP nz c.assets ua ur) xs = true →
      ∀ x ∈ xs.toList, ∀ t, typeOf x = some t → t.mall.nonMall = true →
        NMInv ua ur (availOf c.assets c.ctx) x t.mall (satDissatG nz c x)
  | .nil, _ => by simp [MsList.toList]
  | .cons y ys, hP => by
    rw [allNodesL_cons, Bool.and_eq_true] at hP
    intro x hx
    simp only [MsList.toList, List.mem_cons] at hx
    rcases hx with h | hx
    · rw [h]; exact fun t ht hnm => nm_inv hm hr y t ht hnm hP.1
    · exact nm_invs hm hr ys hP.2 x hx
end

end

end MsVerif.Complete

/-
C06 helper lemmas, part 12: the induction for the `s` letter — `signed`: when no signature
verifies, a fragment typed `signed` is never satisfied (B/W: no true result, V: cannot complete,
K: the following CHECKSIG pushes false).  Limits off.  Core Lean only.
-/
import MsVerif.Lemmas.TypeSoundSigned

namespace MsVerif.TypeSound
open MsVerif MsVerif.Script

mutual
/-- side conditions of `Threshold::new` the signed-ness rules rely on: every multi-family
threshold is ≥ 1, `multi_a` has a key, `thresh` has k ≤ n < 2³¹ children -/
def wfS : Ms → Bool
  | .multi k _ | .sortedMulti k _ => decide (1 ≤ k)
  | .multiA k ks | .sortedMultiA k ks => decide (1 ≤ k) && decide (1 ≤ ks.length)
  | .thresh k xs => decide (k ≤ xs.length) && decide (xs.length < 2 ^ 31) && wfSL xs
  | .alt x | .swap x | .check x | .dupIf x | .verify x | .nonZero x | .zeroNotEqual x => wfS x
  | .andV l r | .andB l r | .orB l r | .orD l r | .orC l r | .orI l r => wfS l && wfS r
  | .andOr a b c => wfS a && wfS b && wfS c
  | _ => true
def wfSL : MsList → Bool
  | .nil => true
  | .cons x xs => wfS x && wfSL xs
end

/-- "not satisfied" for a completed run from stack `s` to core `c'` -/
def UnsatS (env : Env) (base : Base) (s : List Bytes) (c' : Core) : Prop :=
  match base with
  | .B => ∀ v r, c'.stack = v :: r → castToBool v = false
  | .V => False
  | .K => ∀ c'', opc env .checksig c' = .ok c'' → ∀ v r, c''.stack = v :: r → castToBool v = false
  | .W => ∀ x tl, s = x :: tl → ∃ v r, (c'.stack = x :: v :: r ∨ c'.stack = v :: x :: r) ∧ castToBool v = false

theorem UnsatS.B {env : Env} {b : Base} {s : List Bytes} {c' : Core} (hb : b = .B) :
    UnsatS env b s c' ↔ ∀ v r, c'.stack = v :: r → castToBool v = false := by subst hb; rfl
theorem UnsatS.V {env : Env} {b : Base} {s : List Bytes} {c' : Core} (hb : b = .V) :
    UnsatS env b s c' ↔ False := by subst hb; rfl
theorem UnsatS.W {env : Env} {b : Base} {s : List Bytes} {c' : Core} (hb : b = .W) :
    UnsatS env b s c' ↔ ∀ x tl, s = x :: tl →
      ∃ v r, (c'.stack = x :: v :: r ∨ c'.stack = v :: x :: r) ∧ castToBool v = false := by subst hb; rfl

/-- for B, V, K the starting stack is irrelevant -/
theorem UnsatS.move {env : Env} {b b' : Base} {s s' : List Bytes} {c' : Core} (h : UnsatS env b s c')
    (hb : b' = b) (hw : b ≠ .W) : UnsatS env b' s' c' := by
  subst hb
  cases b' with
  | B => exact h
  | V => exact h
  | K => exact h
  | W => exact absurd rfl hw

/-- any K fragment is unsatisfied when nothing verifies -/
theorem unsat_K {env : Env} (hns : NoSig env) (s : List Bytes) (c' : Core) : UnsatS env .K s c' :=
  fun _ hc _ _ hs => checksig_nosig hns hc hs

theorem falsy_head {c' : Core} {w : Bytes} {r : List Bytes} (e : c'.stack = w :: r) (hw : castToBool w = false) :
    ∀ v r', c'.stack = v :: r' → castToBool v = false := by
  intro v r' hv
  rw [e] at hv
  simp only [List.cons.injEq] at hv
  rw [← hv.1]; exact hw

theorem nil_head {c' : Core} {r : List Bytes} (e : c'.stack = [] :: r) :
    ∀ v r', c'.stack = v :: r' → castToBool v = false := falsy_head e (by rfl)

theorem typesOf_length : (xs : MsList) → ∀ (ts : List Ty), typesOf xs = some ts → ts.length = xs.length
  | .nil, ts, h => by simp only [typesOf, Option.some.injEq] at h; subst h; rfl
  | .cons x xs, ts, h => by
    obtain ⟨t1, tl', _, h2, rfl⟩ := typesOf_cons h
    simp only [List.length_cons, MsList.length, typesOf_length xs tl' h2]

mutual
theorem signed {env : Env} (hlim : env.flags.stackLimits = false) (hns : NoSig env) (ke : KeyEnv) (ctx : Ctx) :
    (ms : Ms) → wf ms = true → wfS ms = true → ∀ (τ : Ty), typeOf ms = some τ → τ.mall.signed = true →
      ∀ (c c' : Core), frag env ke ctx ms c = .ok c' → UnsatS env τ.corr.base c.stack c'
  | .tru, _, _, τ, h, hs, _, _, _ | .after _, _, _, τ, h, hs, _, _, _ | .older _, _, _, τ, h, hs, _, _, _
  | .hash _ _, _, _, τ, h, hs, _, _, _ => by
    simp only [typeOf] at h; cases h
    simp [Ty.TRUE, Ty.time, Ty.hash, Mall.TRUE, Mall.time, Mall.hash] at hs
  | .fls, _, _, τ, h, _, c, c', hr => by
    simp only [typeOf] at h; cases h
    rw [frag] at hr
    exact nil_head (pushElem_ok hr).1
  | .pkK _, _, _, τ, h, _, c, c', _ | .pkH _, _, _, τ, h, _, c, c', _ | .rawPkH _, _, _, τ, h, _, c, c', _ => by
    simp only [typeOf] at h; cases h
    exact unsat_K hns _ _
  | .multi k ks, hw, hk, τ, h, _, c, c', hr => by
    simp only [typeOf] at h; cases h
    rw [frag] at hr
    simp only [wf, decide_eq_true_eq] at hw
    simp only [wfS, decide_eq_true_eq] at hk
    obtain ⟨r, e⟩ := multi_nosig hns ke k hk ks hw hr
    exact nil_head e
  | .sortedMulti k ks, hw, hk, τ, h, _, c, c', hr => by
    simp only [typeOf] at h; cases h
    rw [frag] at hr
    simp only [wf, decide_eq_true_eq] at hw
    simp only [wfS, decide_eq_true_eq] at hk
    rw [← sortKeys_length ke ks] at hr hw
    obtain ⟨r, e⟩ := multi_nosig hns ke k hk (sortKeys ke ks) hw hr
    exact nil_head e
  | .multiA k ks, _, hk, τ, h, _, c, c', hr => by
    simp only [typeOf] at h; cases h
    rw [frag] at hr
    simp only [wfS, Bool.and_eq_true, decide_eq_true_eq] at hk
    obtain ⟨r, e⟩ := multiA_nosig hns ke k hk.1 ks hk.2 hr
    exact nil_head e
  | .sortedMultiA k ks, _, hk, τ, h, _, c, c', hr => by
    simp only [typeOf] at h; cases h
    rw [frag] at hr
    simp only [wfS, Bool.and_eq_true, decide_eq_true_eq] at hk
    obtain ⟨r, e⟩ := multiA_nosig hns ke k hk.1 (sortKeys ke ks) (by rw [sortKeys_length]; exact hk.2) hr
    exact nil_head e
  | .alt x, hw, hk, τ, h, hs, c, c', hr => by
    simp only [typeOf] at h
    obtain ⟨a, hx, h⟩ := typeOf_un h
    obtain ⟨hab, hy⟩ := castAlt_inv (lift1_corr h)
    rw [lift1_mall h] at hs
    rw [hy]
    rw [frag_alt] at hr
    obtain ⟨c1, h1, hr⟩ := bind_ok hr
    obtain ⟨c2, h2, h3⟩ := bind_ok hr
    obtain ⟨e, e1, a1⟩ := toalt_ok h1
    have ih := signed hlim hns ke ctx x (by simpa [wf] using hw) (by simpa [wfS] using hk) a hx hs c1 c2 h2
    obtain ⟨ih1, ih2⟩ := shape hlim ke ctx x (by simpa [wf] using hw) a hx c1 c2 h2
    obtain ⟨v, n, e2, _⟩ := (Post.B hab).1 ih2
    obtain ⟨e', a3, e3⟩ := fromalt_ok h3
    rw [ih1, a1] at a3
    simp only [List.cons.injEq] at a3
    obtain ⟨rfl, _⟩ := a3
    refine (UnsatS.W rfl).2 ?_
    intro x0 tl hx0
    rw [e1] at hx0
    simp only [List.cons.injEq] at hx0
    obtain ⟨rfl, _⟩ := hx0
    exact ⟨v, _, Or.inl (by rw [e3, e2]), (UnsatS.B hab).1 ih v _ e2⟩
  | .swap x, hw, hk, τ, h, hs, c, c', hr => by
    simp only [typeOf] at h
    obtain ⟨a, hx, h⟩ := typeOf_un h
    obtain ⟨hab, hai, hy⟩ := castSwap_inv (lift1_corr h)
    rw [lift1_mall h] at hs
    rw [hy]
    rw [frag_swap] at hr
    obtain ⟨c1, h1, h2⟩ := bind_ok hr
    obtain ⟨p, q, r, e1, e1', _⟩ := swap_ok h1
    have hwx : wf x = true := by simpa [wf] using hw
    have ih := signed hlim hns ke ctx x hwx (by simpa [wfS] using hk) a hx hs c1 c' h2
    have hna : nargs a.corr.input = some 1 := by rcases hai with h1 | h1 <;> rw [h1] <;> rfl
    have hc := args_cons hlim ke ctx x hwx a 1 hx hna
    rw [hab] at hc
    obtain ⟨out, ho, hs'⟩ := (hc.at c1 [q] (p :: r) (by rw [e1']; rfl) rfl).2 c' h2
    obtain ⟨w, rfl⟩ := len1 ho
    refine (UnsatS.W rfl).2 ?_
    intro x0 tl hx0
    rw [e1] at hx0
    simp only [List.cons.injEq] at hx0
    obtain ⟨rfl, _⟩ := hx0
    exact ⟨w, r, Or.inr (by rw [hs']; rfl), (UnsatS.B hab).1 ih w _ (by rw [hs']; rfl)⟩
  | .check x, _, _, τ, h, _, c, c', hr => by
    simp only [typeOf] at h
    obtain ⟨a, _, h⟩ := typeOf_un h
    obtain ⟨_, hy⟩ := castCheck_inv (lift1_corr h)
    rw [hy]
    rw [frag_check] at hr
    obtain ⟨c1, _, h2⟩ := bind_ok hr
    exact fun v r hv => checksig_nosig hns h2 hv
  | .dupIf x, hw, hk, τ, h, hs, c, c', hr => by
    simp only [typeOf] at h
    obtain ⟨a, hx, h⟩ := typeOf_un h
    obtain ⟨hab, _, hy⟩ := castDupIf_inv (lift1_corr h)
    rw [lift1_mall h] at hs
    rw [hy]
    rw [frag_dupIf] at hr
    obtain ⟨c1, h1, h2⟩ := bind_ok hr
    obtain ⟨p, r, e1, e1', _⟩ := dup_ok h1
    obtain ⟨a0, c2, e2, _, hcase⟩ := ifThen_ok h2
    rw [e1'] at e2
    simp only [List.cons.injEq] at e2
    obtain ⟨rfl, e2⟩ := e2
    rcases hcase with ⟨_, c3, h3, _, _⟩ | ⟨hf, e3, _⟩
    · have ih := signed hlim hns ke ctx x (by simpa [wf] using hw) (by simpa [wfS] using hk) a hx hs c2 c3 h3
      exact ((UnsatS.V hab).1 ih).elim
    · exact falsy_head (by rw [e3, ← e2]) (by simpa [condFlag] using hf)
  | .verify x, hw, hk, τ, h, hs, c, c', hr => by
    simp only [typeOf] at h
    obtain ⟨a, hx, h⟩ := typeOf_un h
    obtain ⟨hab, hy⟩ := castVerify_inv (lift1_corr h)
    rw [lift1_mall h] at hs
    rw [hy]
    rw [frag_verify] at hr
    obtain ⟨c1, h1, h2⟩ := bind_ok hr
    have ih := signed hlim hns ke ctx x (by simpa [wf] using hw) (by simpa [wfS] using hk) a hx hs c c1 h1
    obtain ⟨a0, e2, hv, _⟩ := verifyTail_ok h2
    have := (UnsatS.B hab).1 ih a0 _ e2
    rw [this] at hv
    cases hv
  | .nonZero x, hw, hk, τ, h, hs, c, c', hr => by
    simp only [typeOf] at h
    obtain ⟨a, hx, h⟩ := typeOf_un h
    obtain ⟨hab, _, hy⟩ := castNonZero_inv (lift1_corr h)
    rw [lift1_mall h] at hs
    rw [hy]
    rw [frag_nonZero] at hr
    obtain ⟨c1, h1, hr⟩ := bind_ok hr
    obtain ⟨c2, h2, h3⟩ := bind_ok hr
    obtain ⟨p, r, b, e1, e2, _, hb⟩ := size_zne_ok h1 h2
    obtain ⟨a0, c3, e3, _, hcase⟩ := ifThen_ok h3
    rw [e2] at e3
    simp only [List.cons.injEq] at e3
    obtain ⟨rfl, e3⟩ := e3
    rcases hcase with ⟨_, c4, h4, e4, _⟩ | ⟨hf, e4, _⟩
    · have ih := signed hlim hns ke ctx x (by simpa [wf] using hw) (by simpa [wfS] using hk) a hx hs c3 c4 h4
      intro v r' hv
      rw [e4] at hv
      exact (UnsatS.B hab).1 ih v r' hv
    · have hbf : b = false := by
        cases b
        · rfl
        · simp [condFlag, boolBytes, castToBool] at hf
      have hp := hb hbf
      subst hp
      exact nil_head (by rw [e4, ← e3])
  | .zeroNotEqual x, hw, hk, τ, h, hs, c, c', hr => by
    simp only [typeOf] at h
    obtain ⟨a, hx, h⟩ := typeOf_un h
    obtain ⟨hab, hy⟩ := castZeroNotEqual_inv (lift1_corr h)
    rw [lift1_mall h] at hs
    rw [hy]
    rw [frag_zeroNotEqual] at hr
    obtain ⟨c1, h1, h2⟩ := bind_ok hr
    have ih := signed hlim hns ke ctx x (by simpa [wf] using hw) (by simpa [wfS] using hk) a hx hs c c1 h1
    obtain ⟨a0, r0, x0, e2, hx0, e2', _⟩ := zeronotequal_ok' h2
    have hz : x0 = 0 := falsy_decodes_zero ((UnsatS.B hab).1 ih a0 r0 e2) (num4_ok hx0)
    subst hz
    exact nil_head e2'
  | .andV l r, hw, hk, τ, h, hs, c, c', hr => by
    simp only [typeOf] at h
    obtain ⟨a, b, hl, hrr, h⟩ := typeOf_bin h
    obtain ⟨hab, hbb, hy⟩ := andV_inv (lift2_corr h)
    rw [lift2_mall h] at hs
    simp only [Mall.andV, Bool.or_eq_true] at hs
    rw [hy]
    simp only [wf, Bool.and_eq_true] at hw
    simp only [wfS, Bool.and_eq_true] at hk
    rw [frag_andV] at hr
    obtain ⟨c1, h1, h2⟩ := bind_ok hr
    rcases hs with hs | hs
    · have ih := signed hlim hns ke ctx l hw.1 hk.1 a hl hs c c1 h1
      exact ((UnsatS.V hab).1 ih).elim
    · have ih := signed hlim hns ke ctx r hw.2 hk.2 b hrr hs c1 c' h2
      exact ih.move rfl (by rcases hbb with hb | hb | hb <;> rw [hb] <;> simp)
  | .andB l r, hw, hk, τ, h, hs, c, c', hr => by
    simp only [typeOf] at h
    obtain ⟨a, b, hl, hrr, h⟩ := typeOf_bin h
    obtain ⟨hab, hbb, hy⟩ := andB_inv (lift2_corr h)
    rw [lift2_mall h] at hs
    simp only [Mall.andB, Bool.or_eq_true] at hs
    rw [hy]
    simp only [wf, Bool.and_eq_true] at hw
    simp only [wfS, Bool.and_eq_true] at hk
    rw [frag_andB] at hr
    obtain ⟨c1, h1, hr⟩ := bind_ok hr
    obtain ⟨c2, h2, h3⟩ := bind_ok hr
    obtain ⟨_, ih2⟩ := shape hlim ke ctx l hw.1 a hl c c1 h1
    obtain ⟨v, n, e1, _⟩ := (Post.B hab).1 ih2
    obtain ⟨_, jh2⟩ := shape hlim ke ctx r hw.2 b hrr c1 c2 h2
    obtain ⟨x, tl, w, m, e2, e3, _⟩ := (Post.W hbb).1 jh2
    obtain ⟨p, q, r', xp, xq, e4, hp, hq, e4', _⟩ := booland_ok' h3
    -- one of the two operands of BOOLAND is a false value
    have hone : ∃ z, (z = p ∨ z = q) ∧ castToBool z = false := by
      rcases hs with hs | hs
      · have ih := signed hlim hns ke ctx l hw.1 hk.1 a hl hs c c1 h1
        have hxf := (UnsatS.B hab).1 ih x tl e2
        rcases e3 with e3 | e3 <;> rw [e3] at e4 <;> simp only [List.cons.injEq] at e4
        · exact ⟨x, Or.inl e4.1, hxf⟩
        · exact ⟨x, Or.inr e4.2.1, hxf⟩
      · have ih := signed hlim hns ke ctx r hw.2 hk.2 b hrr hs c1 c2 h2
        obtain ⟨w', r'', e5, hwf⟩ := (UnsatS.W hbb).1 ih x tl e2
        rcases e5 with e5 | e5 <;> rw [e5] at e4 <;> simp only [List.cons.injEq] at e4
        · exact ⟨w', Or.inr e4.2.1, hwf⟩
        · exact ⟨w', Or.inl e4.1, hwf⟩
    have hfalse : (xp != 0 && xq != 0) = false := by
      obtain ⟨z, hz, hzf⟩ := hone
      rcases hz with rfl | rfl
      · have := falsy_decodes_zero hzf (num4_ok hp)
        subst this; rfl
      · have := falsy_decodes_zero hzf (num4_ok hq)
        subst this; simp
    rw [hfalse] at e4'
    exact nil_head e4'
  | .orB l r, hw, hk, τ, h, hs, c, c', hr => by
    simp only [typeOf] at h
    obtain ⟨a, b, hl, hrr, h⟩ := typeOf_bin h
    obtain ⟨hab, hbb, hy⟩ := orB_inv (lift2_corr h)
    rw [lift2_mall h] at hs
    simp only [Mall.orB, Bool.and_eq_true] at hs
    rw [hy]
    simp only [wf, Bool.and_eq_true] at hw
    simp only [wfS, Bool.and_eq_true] at hk
    rw [frag_orB] at hr
    obtain ⟨c1, h1, hr⟩ := bind_ok hr
    obtain ⟨c2, h2, h3⟩ := bind_ok hr
    obtain ⟨_, ih2⟩ := shape hlim ke ctx l hw.1 a hl c c1 h1
    obtain ⟨v, n, e1, _⟩ := (Post.B hab).1 ih2
    have ihl := signed hlim hns ke ctx l hw.1 hk.1 a hl hs.1 c c1 h1
    have ihr := signed hlim hns ke ctx r hw.2 hk.2 b hrr hs.2 c1 c2 h2
    have hvf := (UnsatS.B hab).1 ihl v _ e1
    obtain ⟨w', r'', e5, hwf⟩ := (UnsatS.W hbb).1 ihr v _ e1
    obtain ⟨p, q, r', xp, xq, e4, hp, hq, e4', _⟩ := boolor_ok' h3
    have hfalse : (xp != 0 || xq != 0) = false := by
      rcases e5 with e5 | e5 <;> rw [e5] at e4 <;> simp only [List.cons.injEq] at e4 <;>
        obtain ⟨rfl, rfl, _⟩ := e4
      · have h1 := falsy_decodes_zero hvf (num4_ok hp)
        have h2 := falsy_decodes_zero hwf (num4_ok hq)
        subst h1; subst h2; rfl
      · have h1 := falsy_decodes_zero hwf (num4_ok hp)
        have h2 := falsy_decodes_zero hvf (num4_ok hq)
        subst h1; subst h2; rfl
    rw [hfalse] at e4'
    exact nil_head e4'
  | .orD l r, hw, hk, τ, h, hs, c, c', hr => by
    simp only [typeOf] at h
    obtain ⟨a, b, hl, hrr, h⟩ := typeOf_bin h
    obtain ⟨hab, hbb, _, _, hy⟩ := orD_inv (lift2_corr h)
    rw [lift2_mall h] at hs
    simp only [Mall.orD, Bool.and_eq_true] at hs
    rw [hy]
    simp only [wf, Bool.and_eq_true] at hw
    simp only [wfS, Bool.and_eq_true] at hk
    rw [frag_orD] at hr
    obtain ⟨c1, h1, hr⟩ := bind_ok hr
    obtain ⟨c2, h2, h3⟩ := bind_ok hr
    have ihl := signed hlim hns ke ctx l hw.1 hk.1 a hl hs.1 c c1 h1
    obtain ⟨a0, r0, e2, _, e2'⟩ := ifdup_ok h2
    have hvf := (UnsatS.B hab).1 ihl a0 r0 e2
    simp only [hvf, Bool.false_eq_true, if_false] at e2'
    obtain ⟨a1, c3, e3, _, hcase⟩ := ifThen_ok h3
    rw [e2'] at e3
    simp only [List.cons.injEq] at e3
    obtain ⟨rfl, e3⟩ := e3
    rcases hcase with ⟨_, c4, h4, e4, _⟩ | ⟨hf, _⟩
    · have ihr := signed hlim hns ke ctx r hw.2 hk.2 b hrr hs.2 c3 c4 h4
      intro v r' hv
      rw [e4] at hv
      exact (UnsatS.B hbb).1 ihr v r' hv
    · simp [condFlag, hvf] at hf
  | .orC l r, hw, hk, τ, h, hs, c, c', hr => by
    simp only [typeOf] at h
    obtain ⟨a, b, hl, hrr, h⟩ := typeOf_bin h
    obtain ⟨hab, hbb, _, _, hy⟩ := orC_inv (lift2_corr h)
    rw [lift2_mall h] at hs
    simp only [Mall.orC, Bool.and_eq_true] at hs
    rw [hy]
    simp only [wf, Bool.and_eq_true] at hw
    simp only [wfS, Bool.and_eq_true] at hk
    rw [frag_orC] at hr
    obtain ⟨c1, h1, h2⟩ := bind_ok hr
    have ihl := signed hlim hns ke ctx l hw.1 hk.1 a hl hs.1 c c1 h1
    obtain ⟨a1, c3, e3, _, hcase⟩ := ifThen_ok h2
    have hvf := (UnsatS.B hab).1 ihl a1 _ e3
    rcases hcase with ⟨_, c4, h4, _, _⟩ | ⟨hf, _⟩
    · have ihr := signed hlim hns ke ctx r hw.2 hk.2 b hrr hs.2 c3 c4 h4
      exact (UnsatS.V hbb).1 ihr
    · simp [condFlag, hvf] at hf
  | .orI l r, hw, hk, τ, h, hs, c, c', hr => by
    simp only [typeOf] at h
    obtain ⟨a, b, hl, hrr, h⟩ := typeOf_bin h
    obtain ⟨hab, hbb, hy⟩ := orI_inv (lift2_corr h)
    rw [lift2_mall h] at hs
    simp only [Mall.orI, Bool.and_eq_true] at hs
    rw [hy]
    simp only [wf, Bool.and_eq_true] at hw
    simp only [wfS, Bool.and_eq_true] at hk
    rw [frag_orI] at hr
    obtain ⟨a0, c2, c4, _, _, e4, _, hcase⟩ := ifElse_ok hr
    have hnw : a.corr.base ≠ .W := by rcases hbb with hb | hb | hb <;> rw [hb] <;> simp
    have hstk : ∀ {b0 : Base} {s0 : List Bytes}, UnsatS env b0 s0 c4 → b0 ≠ .W → UnsatS env b0 c.stack c' := by
      intro b0 s0 hu hb0
      have : c' = ⟨c4.stack, c'.alt, c'.ops⟩ := by rw [← e4]
      cases b0 with
      | B => intro v r hv; rw [e4] at hv; exact hu v r hv
      | V => exact hu
      | K =>
        intro c'' hc v r hv
        -- CHECKSIG only looks at the stack
        exact checksig_nosig hns hc hv
      | W => exact absurd rfl hb0
    rcases hcase with ⟨_, h3⟩ | ⟨_, c2', _, _, h3⟩
    · have ih := signed hlim hns ke ctx l hw.1 hk.1 a hl hs.1 c2 c4 h3
      exact hstk ih hnw
    · have ih := signed hlim hns ke ctx r hw.2 hk.2 b hrr hs.2 c2' c4 h3
      rw [← hab] at ih
      exact hstk ih hnw
  | .andOr x y z, hw, hk, τ, h, hs, c, c', hr => by
    obtain ⟨a, b, cc, hx, hy', hz, h'⟩ := typeOf_andOr h
    obtain ⟨hab, _, _, hbc, hbb, hy⟩ := andOr_inv (andOr_corr h')
    rw [andOr_mall h'] at hs
    simp only [Mall.andOr, Bool.and_eq_true, Bool.or_eq_true] at hs
    rw [hy]
    simp only [wf, Bool.and_eq_true] at hw
    simp only [wfS, Bool.and_eq_true] at hk
    rw [frag_andOr] at hr
    obtain ⟨c1, h1, h2⟩ := bind_ok hr
    obtain ⟨a0, c2, c4, e2, _, e4, _, hcase⟩ := ifElse_ok h2
    have hnw : b.corr.base ≠ .W := by rcases hbb with hb | hb | hb <;> rw [hb] <;> simp
    have hstk : ∀ {b0 : Base} {s0 : List Bytes}, UnsatS env b0 s0 c4 → b0 ≠ .W → UnsatS env b0 c.stack c' := by
      intro b0 s0 hu hb0
      cases b0 with
      | B => intro v r hv; rw [e4] at hv; exact hu v r hv
      | V => exact hu
      | K => intro c'' hc v r hv; exact checksig_nosig hns hc hv
      | W => exact absurd rfl hb0
    rcases hcase with ⟨_, h3⟩ | ⟨hf, c2', _, _, h3⟩
    · have ih := signed hlim hns ke ctx z hw.2 hk.2 cc hz hs.2 c2 c4 h3
      rw [← hbc] at ih
      exact hstk ih hnw
    · rcases hs.1 with hsa | hsb
      · have iha := signed hlim hns ke ctx x hw.1.1 hk.1.1 a hx hsa c c1 h1
        have hvf := (UnsatS.B hab).1 iha a0 _ e2
        simp [condFlag, hvf] at hf
      · have ih := signed hlim hns ke ctx y hw.1.2 hk.1.2 b hy' hsb c2' c4 h3
        exact hstk ih hnw
  | .thresh k .nil, hw, _, _, _, _, _, _, _ => by
    simp [wf, MsList.length] at hw
  | .thresh k (.cons x xs'), hw, hk, τ, h, hs, c, c', hr => by
    obtain ⟨ts, hts, h'⟩ := typeOf_thresh h
    obtain ⟨t0, ts', hx, hxs, rfl⟩ := typesOf_cons hts
    obtain ⟨nargs', hloop, hy⟩ := threshold_inv (threshold_corr h')
    simp only [List.map_cons] at hloop
    obtain ⟨hB, _, hu0, _, htail⟩ := threshLoop_cons hloop
    rw [threshold_mall h', threshold_signed] at hs
    simp only [List.map_cons, List.length_cons, List.length_map, decide_eq_true_eq] at hs
    simp only [wf, wfL, Bool.and_eq_true, decide_eq_true_eq] at hw
    simp only [wfS, wfSL, Bool.and_eq_true, decide_eq_true_eq] at hk
    simp only [MsList.length] at hk hw
    have hlen : ts'.length = xs'.length := typesOf_length xs' ts' hxs
    rw [hy]
    rw [frag_thresh] at hr
    obtain ⟨cT, hT, hfin⟩ := bind_ok hr
    rw [fragThresh_cons] at hT
    obtain ⟨c1, h1, hT⟩ := bind_ok hT
    obtain ⟨c1', h1', hT⟩ := bind_ok hT
    simp only [if_true] at h1'
    cases h1'
    obtain ⟨_, ih2⟩ := shape hlim ke ctx x hw.2.1 t0 hx c c1 h1
    obtain ⟨v1, n1, e1, hunit⟩ := (Post.B (hB rfl)).1 ih2
    have hunit' := hunit hu0
    have hsx : t0.mall.signed = true → castToBool v1 = false := by
      intro hs0
      have ih := signed hlim hns ke ctx x hw.2.1 hk.2.1 t0 hx hs0 c c1 h1
      exact (UnsatS.B (hB rfl)).1 ih v1 _ e1
    have hpos : ∀ y, num4 env v1 = .ok y → 0 ≤ y := by
      intro y hy0
      rcases (unit_decode hunit' hy0).1 with h0 | h0 <;> omega
    have htl := signedTail hlim hns ke ctx xs' hw.2.2 hk.2.2 ts' hxs 1 _ nargs' (by omega) htail c1 cT v1 _ hT e1 hpos
    obtain ⟨c4, h4, h5⟩ := seqOps_cons_ok hfin
    obtain ⟨c5, h6, h7⟩ := seqOps_cons_ok h5
    cases seqOps_nil_ok h7
    obtain ⟨e4, _⟩ := pushInt_ok h4
    obtain ⟨p, q, r, e6, e6'⟩ := equal_ok' h6
    have hsum := sgn_add_unsg (t0.mall :: ts'.map (·.mall))
    simp only [List.length_cons, List.length_map] at hsum
    have hfalse : (p == q) = false := by
      apply Classical.byContradiction
      intro hne
      have heq : p = q := by simpa using hne
      rcases htl with ⟨hnil, hc⟩ | ⟨y, t, r', hy0, ht0, ht1, eT⟩
      · -- a single child
        subst hnil; subst hc
        rw [e4, e1] at e6
        simp only [List.cons.injEq] at e6
        obtain ⟨rfl, rfl, _⟩ := e6
        simp only [typesOf, Option.some.injEq] at hxs
        subst hxs
        simp only [MsList.length, List.length_nil, List.map_nil] at hk hs hsum
        have hk1 : k ≤ 1 := by omega
        have hsg : sgn [t0.mall] ≤ 1 := by unfold sgn; exact (List.length_filter_le _ _)
        have hk' : k = 1 := by omega
        subst hk'
        have hs0 : t0.mall.signed = true := by
          cases hm : t0.mall.signed
          · simp [sgn, hm] at hs
          · rfl
        have := hsx hs0
        rw [← heq] at this
        simp [intBytes, castToBool] at this
      · rw [e4, eT] at e6
        simp only [List.cons.injEq] at e6
        obtain ⟨rfl, rfl, _⟩ := e6
        obtain ⟨hy01, hyf⟩ := unit_decode hunit' hy0
        have hyle : y ≤ (if t0.mall.signed then 0 else 1 : Nat) := by
          cases hm : t0.mall.signed
          · rcases hy01 with h0 | h0 <;> simp [h0]
          · have := hyf (hsx hm); simp [this]
        rw [unsg_cons] at hsum
        have hT0 : 0 ≤ y + t := by have := hpos y hy0; omega
        have hTk : (y + t).toNat < k := by
          have : xs'.length = ts'.length := hlen.symm
          omega
        rw [intBytes_eq_numEncode] at heq
        have hcast : y + t = ((y + t).toNat : Int) := by omega
        rw [hcast] at heq
        have := numEncode_inj (by omega) (by omega) heq
        omega
    rw [hfalse] at e6'
    exact nil_head e6'
theorem signedTail {env : Env} (hlim : env.flags.stackLimits = false) (hns : NoSig env) (ke : KeyEnv) (ctx : Ctx) :
    (xs : MsList) → wfL xs = true → wfSL xs = true → ∀ (ts : List Ty), typesOf xs = some ts →
      ∀ (i acc n : Nat), i ≠ 0 → Corr.threshLoop i acc (ts.map (·.corr)) = some n →
        ∀ (c c' : Core) (a : Bytes) (tl : List Bytes), fragThresh env ke ctx false xs c = .ok c' →
          c.stack = a :: tl → (∀ y, num4 env a = .ok y → 0 ≤ y) →
          (xs = .nil ∧ c' = c) ∨
          (∃ (y t : Int) (r : List Bytes), num4 env a = .ok y ∧ 0 ≤ t ∧ t ≤ (unsg (ts.map (·.mall)) : Int) ∧
            c'.stack = numEncode (y + t) :: r)
  | .nil, _, _, ts, _, i, acc, n, _, _, c, c', a, tl, hr, _, _ => by
    rw [fragThresh] at hr
    cases hr
    exact Or.inl ⟨rfl, rfl⟩
  | .cons x xs', hw, hk, ts, hts, i, acc, n, hi, hloop, c, c', a, tl, hr, hst, ha => by
    obtain ⟨t0, ts', hx, hxs, rfl⟩ := typesOf_cons hts
    simp only [List.map_cons] at hloop
    obtain ⟨_, hW, hu0, _, htail⟩ := threshLoop_cons hloop
    have hbW := hW hi
    simp only [wfL, Bool.and_eq_true] at hw
    simp only [wfSL, Bool.and_eq_true] at hk
    rw [fragThresh_cons] at hr
    obtain ⟨c1, h1, hr⟩ := bind_ok hr
    obtain ⟨c2, h2, h3⟩ := bind_ok hr
    simp only [Bool.false_eq_true, if_false] at h2
    obtain ⟨_, ih2⟩ := shape hlim ke ctx x hw.1 t0 hx c c1 h1
    obtain ⟨x0, tl0, w, m, e0, e1, hunit⟩ := (Post.W hbW).1 ih2
    rw [hst] at e0
    simp only [List.cons.injEq] at e0
    obtain ⟨rfl, rfl⟩ := e0
    have hunit' := hunit hu0
    -- a signed child leaves a false value
    have hsw : t0.mall.signed = true → castToBool w = false := by
      intro hs0
      have ih := signed hlim hns ke ctx x hw.1 hk.1 t0 hx hs0 c c1 h1
      obtain ⟨v, r, e2, hvf⟩ := (UnsatS.W hbW).1 ih a tl hst
      have : w = v := by
        rcases e1 with e1 | e1 <;> rcases e2 with e2 | e2 <;> rw [e1] at e2 <;>
          simp only [List.cons.injEq] at e2
        · exact e2.2.1
        · rw [e2.2.1, ← e2.1]
        · rw [e2.1, e2.2.1]
        · exact e2.1
      rw [this]; exact hvf
    obtain ⟨p, q, r', xp, xq, e3, hp, hq, e3', _⟩ := add_ok' h2
    -- the two operands of ADD are the accumulator and the child's result
    have hops : ∃ y d, num4 env a = .ok y ∧ num4 env w = .ok d ∧ xq + xp = y + d := by
      rcases e1 with e1 | e1 <;> rw [e1] at e3 <;> simp only [List.cons.injEq] at e3 <;>
        obtain ⟨rfl, rfl, _⟩ := e3
      · exact ⟨xp, xq, hp, hq, by omega⟩
      · exact ⟨xq, xp, hq, hp, rfl⟩
    obtain ⟨y, d, hy0, hd0, hsum⟩ := hops
    rw [hsum] at e3'
    obtain ⟨hd01, hdf⟩ := unit_decode hunit' hd0
    have hy_nn := ha y hy0
    have hd_nn : 0 ≤ d := by rcases hd01 with h0 | h0 <;> omega
    have hdle : d ≤ ((if t0.mall.signed then 0 else 1 : Nat) : Int) := by
      cases hm : t0.mall.signed
      · rcases hd01 with h0 | h0 <;> simp [h0]
      · have := hdf (hsw hm); simp [this]
    have hcast : y + d = ((y + d).toNat : Int) := by omega
    have ha' : ∀ y', num4 env (numEncode (y + d)) = .ok y' → 0 ≤ y' := by
      intro y' hy'
      rw [hcast] at hy'
      have := decode_encode_nat (num4_ok hy')
      omega
    have ih := signedTail hlim hns ke ctx xs' hw.2 hk.2 ts' hxs (i + 1) _ n (by omega) htail c2 c' _ r' h3 e3' ha'
    right
    simp only [List.map_cons]
    rw [unsg_cons]
    rcases ih with ⟨_, hc⟩ | ⟨y', t', r'', hy', ht0, ht1, eT⟩
    · subst hc
      exact ⟨y, d, r', hy0, hd_nn, by push_cast; omega, e3'⟩
    · have hyy : y' = y + d := by
        rw [hcast] at hy'
        have := decode_encode_nat (num4_ok hy')
        omega
      subst hyy
      exact ⟨y, d + t', r'', hy0, by omega, by push_cast; omega, by rw [eT, Int.add_assoc]⟩
end

end MsVerif.TypeSound

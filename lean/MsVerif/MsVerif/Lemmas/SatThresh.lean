/-
Soundness of the satisfier model for `thresh`: whichever children the satisfier chooses to
satisfy (`ch`), running the ADD chain on the concatenated witnesses leaves the number of
satisfied children; the satisfier always satisfies exactly `k` (its sorted index list is a
permutation of `0..n`), so the final `k EQUAL` leaves `[1]`; the all-dissatisfied stack leaves
`[]` because `k ≥ 1`.
-/
import MsVerif.Lemmas.SatCasesN

namespace MsVerif.SatSpec
open MsVerif Script

variable {env : Env} {σ : Ph → Bytes} {cfg : SatCfg}

/-! ### the sorted index list is a permutation -/

theorem insertIdx_perm (key : Nat → SortKey) (i : Nat) (l : List Nat) :
    (insertIdx key i l).Perm (i :: l) := by
  induction l with
  | nil => exact .refl _
  | cons j js ih =>
    simp only [insertIdx]
    split
    · exact ((List.Perm.cons j ih).trans (List.Perm.swap i j js))
    · exact .refl _

theorem sortIdx_perm (key : Nat → SortKey) (n : Nat) : (sortIdx key n).Perm (List.range n) := by
  unfold sortIdx
  have : ∀ (l acc : List Nat),
      (l.foldl (fun acc i => insertIdx key i acc) acc).Perm (l ++ acc) := by
    intro l
    induction l with
    | nil => intro acc; exact .refl _
    | cons x xs ih =>
      intro acc
      rw [List.foldl_cons]
      refine (ih _).trans ?_
      refine (List.Perm.append_left xs (insertIdx_perm key x acc)).trans ?_
      exact List.perm_middle
  simpa using this (List.range n) []

/-- exactly `k` indices are chosen -/
theorem chosen_count (idx : List Nat) (n k : Nat) (hp : idx.Perm (List.range n)) (hk : k ≤ n) :
    ((List.range n).map (fun i => (idx.take k).contains i)).count true = k := by
  have hnd : idx.Nodup := hp.nodup_iff.mpr List.nodup_range
  have hlen : idx.length = n := by simpa using hp.length_eq
  rw [List.count_eq_countP, List.countP_map]
  have e : ((fun x => x == true) ∘ fun i => (idx.take k).contains i) =
      fun i => (idx.take k).contains i := by
    funext i; simp
  rw [e, ← hp.countP_eq]
  conv => lhs; arg 2; rw [← List.take_append_drop k idx]
  rw [List.countP_append]
  have h1 : List.countP (fun i => (idx.take k).contains i) (idx.take k) = k := by
    have : List.countP (fun i => (idx.take k).contains i) (idx.take k) = (idx.take k).length :=
      List.countP_eq_length.mpr (fun a ha => by simpa using ha)
    rw [this]; simp; omega
  have h2 : List.countP (fun i => (idx.take k).contains i) (idx.drop k) = 0 := by
    apply List.countP_eq_zero.mpr
    intro a ha hc
    have hnd' : (idx.take k ++ idx.drop k).Nodup := by rw [List.take_append_drop]; exact hnd
    have := (List.nodup_append.mp hnd').2.2 a (by simpa using hc) a ha
    exact this rfl
  omega

/-! ### choices -/

/-- `ret[i]` = satisfaction if chosen, else dissatisfaction -/
def pick (ch : List Bool) (sds : List SatDissat) : List Sat :=
  List.zipWith (fun b sd => if b then sd.sat else sd.dissat) ch sds

theorem pick_range (sds : List SatDissat) (f : Nat → Bool) :
    (List.range sds.length).map
        (fun i => if f i then (sds.map (·.sat))[i]! else (sds.map (·.dissat))[i]!) =
      pick ((List.range sds.length).map f) sds := by
  apply List.ext_getElem
  · simp [pick]
  · intro i h1 h2
    have hi : i < sds.length := by simpa using h1
    simp [pick, hi]

theorem pick_false (sds : List SatDissat) :
    sds.map (·.dissat) = pick (List.replicate sds.length false) sds := by
  induction sds with
  | nil => rfl
  | cons x xs ih => simp [pick, List.replicate_succ] at ih ⊢; exact ih

theorem pick_true (sds : List SatDissat) :
    sds.map (·.sat) = pick (List.replicate sds.length true) sds := by
  induction sds with
  | nil => rfl
  | cons x xs ih => simp [pick, List.replicate_succ] at ih ⊢; exact ih

theorem satDissats_length (cfg : SatCfg) : (xs : MsList) → (satDissats cfg xs).length = xs.length
  | .nil => rfl
  | .cons _ xs => by simp [satDissats, MsList.length, satDissats_length cfg xs]

/-- what the satisfaction of `thresh(k, xs)` is, when it is a stack: the fold over a choice of
exactly `k` satisfied children -/
theorem thresh_sat_choice (k : Nat) (xs : MsList) (hk : k ≤ xs.length) {w : List Ph}
    (hw : Good env (satDissat cfg (.thresh k xs)).sat w) :
    ∃ ch : List Bool, ch.length = xs.length ∧ ch.count true = k ∧
      Good env (foldConcat (pick ch (satDissats cfg xs))) w := by
  simp only [satDissat] at hw
  have hlen := satDissats_length cfg xs
  split at hw
  · rename_i hkn
    refine ⟨List.replicate xs.length true, by simp, by simp; omega, ?_⟩
    rw [← hlen, ← pick_true]; exact hw
  · rename_i hkn
    have hperm := fun key => sortIdx_perm key (satDissats cfg xs).length
    split at hw
    · simp only [threshMall, swapped, List.length_map] at hw
      rw [pick_range] at hw
      exact ⟨_, by simp [hlen], chosen_count _ _ k (hperm _) (by omega), hw⟩
    · simp only [threshNonMall, swapped, List.length_map] at hw
      split at hw
      · exact (good_impossible hw).elim
      · split at hw
        · simp [Good, Sat.UNAVAILABLE] at hw
        · rw [pick_range] at hw
          exact ⟨_, by simp [hlen], chosen_count _ _ k (hperm _) (by omega), hw⟩

/-! ### running the ADD chain -/

/-- every child is `Sound` at its type -/
def SoundList (env : Env) (σ : Ph → Bytes) (cfg : SatCfg) : MsList → List Corr → Prop
  | .nil, [] => True
  | .cons x xs, c :: cs =>
    Sound env cfg.env cfg.ctx σ c x (satDissat cfg x) ∧ SoundList env σ cfg xs cs
  | _, _ => False

theorem stk_flatten_cons (w0 : List Ph) (ws : List (List Ph)) :
    stk σ (w0 :: ws).reverse.flatten = stk σ w0 ++ stk σ ws.reverse.flatten := by
  simp [stk]

theorem numEncode_zero : numEncode 0 = [] := by decide
theorem numEncode_one : numEncode 1 = [1] := by decide

/-- children 2..n (all `W`, unit): each consumes its witness below the running sum and ADDs
0 or 1 -/
theorem thresh_tail (h : EnvOk env cfg.ctx) : (xs : MsList) → (cs : List Corr) → (ch : List Bool) →
    (ws : List (List Ph)) → (acc : Nat) → (rest : List Bytes) →
    SoundList env σ cfg xs cs → (∀ c ∈ cs, c.base = .W ∧ c.unit = true) →
    ch.length = xs.length → All2 (Good env) (pick ch (satDissats cfg xs)) ws →
    (∀ j, j ≤ acc + xs.length → NumOk j) →
    Runs (fragThresh env cfg.env cfg.ctx false xs)
      (numEncode (acc : Int) :: (stk σ ws.reverse.flatten ++ rest))
      (numEncode ((acc + ch.count true : Nat) : Int) :: rest)
  | .nil, cs, ch, ws, acc, rest, _, _, hch, hws, _ => by
    have : ch = [] := by simpa [MsList.length] using hch
    subst this
    cases hws
    simpa [stk] using fragThresh_nil (env := env) (ke := cfg.env) (ctx := cfg.ctx) false _
  | .cons x xs, [], _, _, _, _, hs, _, _, _, _ => by simp [SoundList] at hs
  | .cons x xs, c :: cs, [], _, _, _, _, _, hch, _, _ => by simp [MsList.length] at hch
  | .cons x xs, c :: cs, b :: ch, ws, acc, rest, hs, hcs, hch, hws, hnum => by
    obtain ⟨hx, hxs⟩ := hs
    have hc := hcs c (by simp)
    simp only [satDissats, pick, List.zipWith_cons_cons] at hws
    cases hws with
    | @cons _ w0 _ ws' hg hws' =>
    have hacc := (hnum acc (by omega)).num4 env
    have ih := fun acc' hn' => thresh_tail h xs cs ch ws' acc' rest hxs
      (fun c' hc' => hcs c' (by simp [hc'])) (by simpa [MsList.length] using hch) hws' hn'
    rw [stk_flatten_cons, List.append_assoc]
    cases b with
    | true =>
      obtain ⟨v, hv, hu, hr⟩ := (satRuns_W hc.1).mp (hx.sat _ hg) (numEncode (acc : Int))
        (stk σ ws'.reverse.flatten ++ rest)
      have := hu hc.2; subst this
      have ih' := ih (acc + 1) (fun j hj => hnum j (by simp [MsList.length] at hj ⊢; omega))
      have hcount : acc + (true :: ch).count true = acc + 1 + ch.count true := by
        simp [List.count_cons]; omega
      rw [hcount]
      rcases hr with hr | hr
      · refine fragThresh_cons_add h hr hacc (num4_one env) ?_
        have e : (1 : Int) + (acc : Int) = ((acc + 1 : Nat) : Int) := by omega
        rw [e]; exact ih'
      · refine fragThresh_cons_add h hr (num4_one env) hacc ?_
        have e : (acc : Int) + 1 = ((acc + 1 : Nat) : Int) := by omega
        rw [e]; exact ih'
    | false =>
      have hr := (disRuns_W hc.1).mp (hx.dis _ hg) (numEncode (acc : Int))
        (stk σ ws'.reverse.flatten ++ rest)
      have ih' := ih acc (fun j hj => hnum j (by simp [MsList.length] at hj ⊢; omega))
      have hcount : acc + (false :: ch).count true = acc + ch.count true := by
        simp [List.count_cons]
      rw [hcount]
      rcases hr with hr | hr
      · refine fragThresh_cons_add h hr hacc (num4_nil env) ?_
        have e : (0 : Int) + (acc : Int) = (acc : Int) := by omega
        rw [e]; exact ih'
      · refine fragThresh_cons_add h hr (num4_nil env) hacc ?_
        have e : (acc : Int) + 0 = (acc : Int) := by omega
        rw [e]; exact ih'

/-- all children: the first is `B`, the others `W` -/
theorem thresh_run (h : EnvOk env cfg.ctx) (x : Ms) (xs : MsList) (c : Corr) (cs : List Corr)
    (ch : List Bool) (ws : List (List Ph)) (rest : List Bytes)
    (hs : SoundList env σ cfg (.cons x xs) (c :: cs)) (hc0 : c.base = .B ∧ c.unit = true)
    (hcs : ∀ c ∈ cs, c.base = .W ∧ c.unit = true)
    (hch : ch.length = (MsList.cons x xs).length)
    (hws : All2 (Good env) (pick ch (satDissats cfg (.cons x xs))) ws)
    (hnum : ∀ j, j ≤ (MsList.cons x xs).length → NumOk j) :
    Runs (fragThresh env cfg.env cfg.ctx true (.cons x xs)) (stk σ ws.reverse.flatten ++ rest)
      (numEncode ((ch.count true : Nat) : Int) :: rest) := by
  obtain ⟨hx, hxs⟩ := hs
  cases ch with
  | nil => simp [MsList.length] at hch
  | cons b ch =>
    simp only [satDissats, pick, List.zipWith_cons_cons] at hws
    cases hws with
    | @cons _ w0 _ ws' hg hws' =>
    have tail := fun acc hn' => thresh_tail h xs cs ch ws' acc rest hxs hcs
      (by simpa [MsList.length] using hch) hws' hn'
    rw [stk_flatten_cons, List.append_assoc]
    cases b with
    | true =>
      obtain ⟨v, hr, _, hu⟩ := (satRuns_B hc0.1).mp (hx.sat _ hg) (stk σ ws'.reverse.flatten ++ rest)
      have := hu hc0.2; subst this
      have t := tail 1 (fun j hj => hnum j (by simp [MsList.length] at hj ⊢; omega))
      have hcount : (true :: ch).count true = 1 + ch.count true := by
        simp [List.count_cons]; omega
      rw [hcount]
      refine fragThresh_cons_first hr ?_
      have e : numEncode ((1 : Nat) : Int) = [1] := by decide
      rw [e] at t; exact t
    | false =>
      have hr := (disRuns_B hc0.1).mp (hx.dis _ hg) (stk σ ws'.reverse.flatten ++ rest)
      have t := tail 0 (fun j hj => hnum j (by simp [MsList.length] at hj ⊢; omega))
      have hcount : (false :: ch).count true = 0 + ch.count true := by
        simp [List.count_cons]
      rw [hcount]
      refine fragThresh_cons_first hr ?_
      have e : numEncode ((0 : Nat) : Int) = [] := by decide
      rw [e] at t; exact t

/-- what `Correctness::threshold` checks of the children -/
theorem threshLoop_inv : ∀ (cs : List Corr) (i acc n : Nat), Corr.threshLoop i acc cs = some n →
    (∀ c ∈ cs, c.unit = true) ∧ (i ≠ 0 → ∀ c ∈ cs, c.base = .W) ∧
    (i = 0 → match cs with | [] => True | c0 :: cs' => c0.base = .B ∧ ∀ c ∈ cs', c.base = .W) := by
  intro cs
  induction cs with
  | nil => intro i acc n _; simp
  | cons c cs ih =>
    intro i acc n hl
    simp only [Corr.threshLoop] at hl
    split at hl; · simp at hl
    split at hl; · simp at hl
    split at hl; · simp at hl
    split at hl; · simp at hl
    rename_i h1 h2 h3 h4
    obtain ⟨ihu, ihw, _⟩ := ih (i + 1) _ n hl
    have hu : c.unit = true := by simpa using h3
    refine ⟨?_, ?_, ?_⟩
    · intro c' hc'
      rcases List.mem_cons.mp hc' with rfl | hc'
      · exact hu
      · exact ihu c' hc'
    · intro hi c' hc'
      rcases List.mem_cons.mp hc' with rfl | hc'
      · have := fun hb => h2 ⟨hi, hb⟩
        cases hb : c'.base <;> simp_all
      · exact ihw (by omega) c' hc'
    · intro hi
      refine ⟨?_, ihw (by omega)⟩
      have := fun hb => h1 ⟨hi, hb⟩
      cases hb : c.base <;> simp_all

theorem soundList_length : (xs : MsList) → (cs : List Corr) → SoundList env σ cfg xs cs →
    cs.length = xs.length
  | .nil, [], _ => rfl
  | .nil, _ :: _, h => by simp [SoundList] at h
  | .cons _ _, [], h => by simp [SoundList] at h
  | .cons _ xs, _ :: cs, h => by
    simp [MsList.length, soundList_length xs cs h.2]

theorem numEncode_inj {a b : Nat} (ha : NumOk a) (hb : NumOk b)
    (h : numEncode (a : Int) = numEncode (b : Int)) : a = b := by
  have h1 := ha.1 false
  have h2 := hb.1 false
  rw [h, h2] at h1
  have := Option.some.inj h1
  omega

theorem thresh_case (h : EnvOk env cfg.ctx) (k : Nat) (xs : MsList) (cs : List Corr) (c : Corr)
    (hwf : WF cfg.ctx (.thresh k xs)) (hc : Corr.threshold k cs = some c)
    (hs : SoundList env σ cfg xs cs) :
    Sound env cfg.env cfg.ctx σ c (.thresh k xs) (satDissat cfg (.thresh k xs)) := by
  simp only [WF] at hwf
  obtain ⟨hk1, hkn, hlt, _⟩ := hwf
  have hnum : ∀ j, j ≤ xs.length → NumOk j := fun j hj => numOk_of_lt j (by omega)
  have hcB : c.base = .B := by
    unfold Corr.threshold at hc; split at hc <;> simp at hc; subst hc; rfl
  obtain ⟨n, hloop⟩ : ∃ n, Corr.threshLoop 0 0 cs = some n := by
    unfold Corr.threshold at hc; split at hc <;> simp at hc
    exact ⟨_, by assumption⟩
  obtain ⟨hunit, _, hbase⟩ := threshLoop_inv cs 0 0 n hloop
  have hlen := soundList_length xs cs hs
  -- the children list is non-empty
  cases xs with
  | nil => simp [MsList.length] at hkn; omega
  | cons x xs' =>
  cases cs with
  | nil => simp [MsList.length] at hlen
  | cons c0 cs' =>
  have hb := hbase rfl
  simp only at hb
  have hc0 : c0.base = .B ∧ c0.unit = true := ⟨hb.1, hunit c0 (by simp)⟩
  have hcs : ∀ c ∈ cs', c.base = .W ∧ c.unit = true :=
    fun c' hc' => ⟨hb.2 c' hc', hunit c' (by simp [hc'])⟩
  have hkk : NumOk k := hnum k hkn
  constructor
  · intro w hw
    obtain ⟨ch, hchl, hcnt, hg⟩ := thresh_sat_choice k (.cons x xs') hkn hw
    obtain ⟨ws, hws, rfl⟩ := foldConcat_good hg
    rw [satRuns_B hcB]
    intro rest
    refine ⟨[1], ?_, trueVal_one, fun _ => rfl⟩
    have run := thresh_run h x xs' c0 cs' ch ws rest hs hc0 hcs hchl hws hnum
    have := frag_thresh (k := k) h run
    rw [hcnt] at this
    simpa [boolBytes] using this
  · intro w hw
    simp only [satDissat] at hw
    rw [pick_false] at hw
    obtain ⟨ws, hws, rfl⟩ := foldConcat_good hw
    rw [disRuns_B hcB]
    intro rest
    have run := thresh_run h x xs' c0 cs' _ ws rest hs hc0 hcs
      (by simp [satDissats_length]) hws hnum
    have := frag_thresh (k := k) h run
    have hcount : (List.replicate (satDissats cfg (MsList.cons x xs')).length false).count true = 0 := by
      simp [List.count_replicate]
    rw [hcount] at this
    have hne : ¬ numEncode (k : Int) = numEncode 0 := by
      intro e
      have := numEncode_inj hkk (numOk_le_20 0 (by omega)) e
      omega
    simpa [boolBytes, hne] using this

end MsVerif.SatSpec

/-
Selections are exactly the ways of satisfying a policy: a policy holds under an assignment iff
all atoms of one of its selections are true.
-/
import MsVerif.Lemmas.PolicyBasic

set_option linter.unusedSimpArgs false
namespace MsVerif.Pol

/-- some alternative is fully satisfied -/
def good (v : Atom → Bool) (al : List (List Atom)) : Bool := al.any (fun s => s.all v)

theorem any_prefix (v : Atom → Bool) (a : List Atom) (R : List (List Atom)) :
    (R.map (a ++ ·)).any (fun s => s.all v) = (a.all v && R.any (fun s => s.all v)) := by
  induction R with
  | nil => simp
  | cons r R ih =>
    rw [List.map_cons, List.any_cons, ih, List.any_cons, List.all_append]
    cases a.all v <;> simp

theorem any_product (v : Atom → Bool) (al R : List (List Atom)) :
    (al.flatMap (fun a => R.map (a ++ ·))).any (fun s => s.all v) = (good v al && good v R) := by
  induction al with
  | nil => simp [good]
  | cons a al ih =>
    rw [List.flatMap_cons, List.any_append, ih, any_prefix]
    simp only [good, List.any_cons]
    cases a.all v <;> cases al.any (fun s => s.all v) <;> cases R.any (fun s => s.all v) <;> rfl

theorem good_chooseK (v : Atom → Bool) (alts : List (List (List Atom))) :
    ∀ k, good v (chooseK alts k) = decide (k ≤ alts.countP (good v)) := by
  induction alts with
  | nil =>
    intro k
    cases k <;> simp [chooseK, good]
  | cons al rest ih =>
    intro k
    cases k with
    | zero => simp [chooseK, good]
    | succ k =>
      have h1 := ih (k + 1)
      have h2 := ih k
      simp only [good] at h1 h2 ⊢
      rw [chooseK, List.any_append, h1, any_product, List.countP_cons]
      simp only [good]
      rw [h2]
      by_cases hg : al.any (fun s => s.all v) = true
      · simp only [hg, if_true, Bool.true_and]
        by_cases h : k ≤ rest.countP (good v)
        · have h' : k + 1 ≤ rest.countP (good v) + 1 := by omega
          simp [h, h']
        · have h' : ¬ (k + 1 ≤ rest.countP (good v) + 1) := by omega
          have h'' : ¬ (k + 1 ≤ rest.countP (good v)) := by omega
          simp [h, h', h'']
      · simp [hg]

theorem holdsA_eq_good (v : Atom → Bool) : ∀ p, holdsA v p = good v (sels p) := by
  intro p
  induction p using Policy.induct' with
  | unsat => simp [holdsA, sels, good]
  | trivial => simp [holdsA, sels, good]
  | atom a => simp [holdsA, sels, good]
  | thresh k subs ih =>
    rw [holdsA_thresh, sels, selsList_eq, good_chooseK,
      countP_map_congr sels (fun p => good v (sels p)) (good v) subs (fun _ _ => rfl)]
    congr 2
    exact List.countP_congr (fun p hp => by rw [ih p hp])

theorem holdsC_eq_good (v : Atom → Bool) : ∀ c, holdsC v c = good v (selsC false c) := by
  intro c
  induction c using CPolicy.induct' with
  | unsat => simp [holdsC, selsC, good]
  | trivial => simp [holdsC, selsC, good]
  | atom a => simp [holdsC, selsC, good]
  | and subs ih =>
    rw [holdsC, countC_eq, selsC, selsCList_eq, good_chooseK,
      countP_map_congr (selsC false) (fun p => good v (selsC false p)) (good v) subs
        (fun _ _ => rfl)]
    congr 2
    exact List.countP_congr (fun p hp => by rw [ih p hp])
  | or subs ih =>
    rw [holdsC, countC_eq, selsC, selsCList_eq, good_chooseK,
      countP_map_congr (selsC false) (fun p => good v (selsC false p)) (good v) subs
        (fun _ _ => rfl)]
    congr 2
    exact List.countP_congr (fun p hp => by rw [ih p hp])
  | thresh k subs ih =>
    rw [holdsC, countC_eq, selsC, selsCList_eq, good_chooseK,
      countP_map_congr (selsC false) (fun p => good v (selsC false p)) (good v) subs
        (fun _ _ => rfl)]
    congr 2
    exact List.countP_congr (fun p hp => by rw [ih p hp])

end MsVerif.Pol

/-
Bridge theorem, part 1: basic facts about the flat interpreter `Script.run`.

* `Except` helper lemmas (`bindE_*`, `mapE_*`), `run_nil/cons/append`;
* `step` on a non-conditional element in an executing state equals `pshOp` (`step_straight`),
  hence `run = seqOps` on straight-line lists (`run_straight`);
* `step` on IF / NOTIF / ELSE / ENDIF in an executing state (`step_if`, `step_else`, `step_endif`);
* the stack-limit invariant `StkOk` (stack + altstack ≤ 1000 when `stackLimits` is on) is
  preserved by every successful `step`, hence by `run` (`run_stkOk`).

Core Lean only.
-/
import MsVerif.Spec.Frag

namespace MsVerif.Bridge
open MsVerif MsVerif.Script

/-! ### `Except` helpers -/

@[simp] theorem map_ok {ε α β} (f : α → β) (a : α) : (Except.ok a : Except ε α).map f = .ok (f a) := rfl
@[simp] theorem map_error {ε α β} (f : α → β) (e : ε) : (Except.error e : Except ε α).map f = .error e := rfl
@[simp] theorem bind_ok {ε α β} (f : α → Except ε β) (a : α) : ((Except.ok a : Except ε α) >>= f) = f a := rfl
@[simp] theorem bind_error {ε α β} (f : α → Except ε β) (e : ε) :
    ((Except.error e : Except ε α) >>= f) = .error e := rfl

/-- lift a core state to a full state with condition stack `cs` -/
def lift (cs : List Bool) (x : Except Err Core) : Except Err State := x.map (fun c => ⟨c, cs⟩)

@[simp] theorem lift_ok (cs : List Bool) (c : Core) : lift cs (.ok c) = .ok ⟨c, cs⟩ := rfl
@[simp] theorem lift_error (cs : List Bool) (e : Err) : lift cs (.error e) = .error e := rfl

theorem lift_bind (cs : List Bool) (x : Except Err Core) (f : Core → Except Err Core) :
    lift cs (x >>= f) = (lift cs x >>= fun s => lift cs (f s.core)) := by
  cases x <;> rfl

/-! ### `run` -/

@[simp] theorem run_nil (env : Env) (s : State) : run env [] s = .ok s := rfl

theorem run_cons (env : Env) (op : Op) (ops : List Op) (s : State) :
    run env (op :: ops) s = (step env s op >>= run env ops) := by
  simp only [run, List.foldlM_cons]; rfl

theorem run_append (env : Env) (xs ys : List Op) (s : State) :
    run env (xs ++ ys) s = (run env xs s >>= run env ys) := by
  simp only [run, List.foldlM_append]; rfl

theorem run_single (env : Env) (op : Op) (s : State) : run env [op] s = step env s op := by
  rw [run_cons]; cases step env s op <;> rfl

/-! ### straight-line elements -/

/-- not IF / NOTIF / ELSE / ENDIF -/
def Opc.plain : Opc → Bool
  | .if_ | .notif | .else_ | .endif => false
  | _ => true

def Op.plain : Op → Bool
  | .code o => Opc.plain o
  | _ => true

/-- a list of elements without IF / NOTIF / ELSE / ENDIF -/
def straight (ops : List Op) : Bool := ops.all Op.plain

theorem step_code_plain (env : Env) (o : Opc) (h : Opc.plain o = true) (c : Core) (cs : List Bool)
    (hcs : cs.all id = true) :
    step env ⟨c, cs⟩ (.code o) = lift cs (opc env o c) := by
  unfold step opc
  cases hc : countOp env c 1 with
  | error e => rfl
  | ok c1 =>
    cases o <;> first | (simp [Opc.plain] at h; done) | simp [State.executing, hcs, lift]

theorem step_plain (env : Env) (op : Op) (h : Op.plain op = true) (c : Core) (cs : List Bool)
    (hcs : cs.all id = true) :
    step env ⟨c, cs⟩ op = lift cs (pshOp env op c) := by
  cases op with
  | code o => exact step_code_plain env o h c cs hcs
  | small n => simp [step, State.executing, hcs, pshOp, lift]
  | push bs =>
    simp only [step, State.executing, hcs, pshOp, psh, lift]
    split <;> simp
  | bad b => simp [step, State.executing, hcs, pshOp, lift]

theorem run_straight (env : Env) (ops : List Op) (h : straight ops = true) (c : Core)
    (cs : List Bool) (hcs : cs.all id = true) :
    run env ops ⟨c, cs⟩ = lift cs (seqOps env ops c) := by
  induction ops generalizing c with
  | nil => rfl
  | cons op ops ih =>
    simp only [straight, List.all_cons, Bool.and_eq_true] at h
    rw [run_cons, step_plain env op h.1 c cs hcs]
    simp only [seqOps, List.foldlM_cons]
    cases pshOp env op c with
    | error e => rfl
    | ok c1 => exact ih h.2 c1

theorem run_opc (env : Env) (o : Opc) (h : Opc.plain o = true) (c : Core) (cs : List Bool)
    (hcs : cs.all id = true) :
    run env [.code o] ⟨c, cs⟩ = lift cs (opc env o c) := by
  rw [run_single, step_code_plain env o h c cs hcs]

/-! ### conditionals in an executing state -/

theorem step_if (env : Env) (c : Core) (cs : List Bool) (hcs : cs.all id = true) :
    step env ⟨c, cs⟩ (.code .if_) =
      (match cnd env false c with
       | .error e => .error e
       | .ok (v, c1) => .ok ⟨c1, v :: cs⟩) := by
  unfold step cnd
  cases countOp env c 1 with
  | error e => rfl
  | ok c1 =>
    have hb : (Opc.if_ == Opc.notif) = false := by decide
    simp only [State.executing, hcs, hb]
    cases condPop env false c1 with
    | error e => simp
    | ok p => cases p; simp

theorem step_notif (env : Env) (c : Core) (cs : List Bool) (hcs : cs.all id = true) :
    step env ⟨c, cs⟩ (.code .notif) =
      (match cnd env true c with
       | .error e => .error e
       | .ok (v, c1) => .ok ⟨c1, v :: cs⟩) := by
  unfold step cnd
  cases countOp env c 1 with
  | error e => rfl
  | ok c1 =>
    have hb : (Opc.notif == Opc.notif) = true := by decide
    simp only [State.executing, hcs, hb]
    cases condPop env true c1 with
    | error e => simp
    | ok p => cases p; simp

theorem step_else (env : Env) (c : Core) (b : Bool) (cs : List Bool) :
    step env ⟨c, b :: cs⟩ (.code .else_) = lift ((!b) :: cs) (countOp env c 1) := by
  unfold step
  cases countOp env c 1 <;> rfl

theorem step_endif (env : Env) (c : Core) (b : Bool) (cs : List Bool) :
    step env ⟨c, b :: cs⟩ (.code .endif) = lift cs (countOp env c 1) := by
  unfold step
  cases countOp env c 1 <;> rfl

end MsVerif.Bridge

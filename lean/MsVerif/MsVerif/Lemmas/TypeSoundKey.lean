/-
C06 helper lemmas, part 9: what a K-typed fragment leaves on top is "the key": the
serialisation the fragment names (`pk_k`) or an element whose HASH160 is the committed key hash
(`pk_h`, which is `ser k` as soon as HASH160 is collision free).  Core Lean only.
-/
import MsVerif.Lemmas.TypeSoundShapeThm

namespace MsVerif.TypeSound
open MsVerif MsVerif.Script

/-- `x` is acceptable as "the key" a K fragment `ms` leaves on top -/
def keyTop (env : Env) (ke : KeyEnv) : Ms → Bytes → Prop
  | .pkK k, x => x = ke.ser k
  | .pkH k, x => env.hash .hash160 x = ke.pkh k
  | .rawPkH h, x => env.hash .hash160 x = ke.rawPkh h
  | .andV _ r, x => keyTop env ke r x
  | .orI l r, x => keyTop env ke l x ∨ keyTop env ke r x
  | .andOr _ b c, x => keyTop env ke b x ∨ keyTop env ke c x
  | _, _ => False

theorem pkh_top {env : Env} {h : Bytes} {c c' : Core}
    (hr : seqOps env [.code .dup, .code .hash160, .push h, .code .equalverify] c = .ok c') :
    ∃ a r, c.stack = a :: r ∧ c'.stack = a :: r ∧ env.hash .hash160 a = h := by
  obtain ⟨c1, h1, hr⟩ := seqOps_cons_ok hr
  obtain ⟨c2, h2, hr⟩ := seqOps_cons_ok hr
  obtain ⟨c3, h3, hr⟩ := seqOps_cons_ok hr
  obtain ⟨c4, h4, hr⟩ := seqOps_cons_ok hr
  cases seqOps_nil_ok hr
  obtain ⟨a, r, e1, e1', a1⟩ := dup_ok h1
  obtain ⟨a2, r2, e2, e2', a2'⟩ := hash160_ok h2
  obtain ⟨e3, a3⟩ := pushData_ok h3
  obtain ⟨x, y, e4, hxy, a4⟩ := equalverify_ok h4
  rw [e1'] at e2
  simp only [List.cons.injEq] at e2
  obtain ⟨rfl, rfl⟩ := e2
  rw [e3, e2'] at e4
  simp only [List.cons.injEq] at e4
  obtain ⟨rfl, rfl, e4⟩ := e4
  exact ⟨a, r, e1, e4.symm, hxy.symm⟩

theorem key_top {env : Env} (ke : KeyEnv) (ctx : Ctx) :
    (ms : Ms) → ∀ (τ : Ty), typeOf ms = some τ → τ.corr.base = .K → ∀ (c c' : Core),
      frag env ke ctx ms c = .ok c' → ∃ k r, c'.stack = k :: r ∧ keyTop env ke ms k
  | .pkK k, τ, h, hb, c, c', hr => by
    rw [frag] at hr
    exact ⟨_, _, (psh_ok hr).1, rfl⟩
  | .pkH k, τ, h, hb, c, c', hr => by
    rw [frag] at hr
    obtain ⟨a, r, _, e, hh⟩ := pkh_top hr
    exact ⟨a, r, e, hh⟩
  | .rawPkH k, τ, h, hb, c, c', hr => by
    rw [frag] at hr
    obtain ⟨a, r, _, e, hh⟩ := pkh_top hr
    exact ⟨a, r, e, hh⟩
  | .andV l r, τ, h, hb, c, c', hr => by
    simp only [typeOf] at h
    obtain ⟨a, b, _, hrr, h⟩ := typeOf_bin h
    obtain ⟨_, _, hy⟩ := andV_inv (lift2_corr h)
    rw [hy] at hb
    rw [frag_andV] at hr
    obtain ⟨c1, _, h2⟩ := bind_ok hr
    exact key_top ke ctx r b hrr hb c1 c' h2
  | .orI l r, τ, h, hb, c, c', hr => by
    simp only [typeOf] at h
    obtain ⟨a, b, hl, hrr, h⟩ := typeOf_bin h
    obtain ⟨hab, _, hy⟩ := orI_inv (lift2_corr h)
    rw [hy] at hb
    simp only at hb
    rw [frag_orI] at hr
    obtain ⟨a0, c2, c4, _, _, e4, _, hcase⟩ := ifElse_ok hr
    rcases hcase with ⟨_, h3⟩ | ⟨_, c2', _, _, h3⟩
    · obtain ⟨k, r', e, hk⟩ := key_top ke ctx l a hl hb c2 c4 h3
      exact ⟨k, r', by rw [e4, e], Or.inl hk⟩
    · obtain ⟨k, r', e, hk⟩ := key_top ke ctx r b hrr (hab ▸ hb) c2' c4 h3
      exact ⟨k, r', by rw [e4, e], Or.inr hk⟩
  | .andOr x y z, τ, h, hb, c, c', hr => by
    obtain ⟨a, b, cc, _, hy', hz, h⟩ := typeOf_andOr h
    obtain ⟨_, _, _, hbc, _, hy⟩ := andOr_inv (andOr_corr h)
    rw [hy] at hb
    simp only at hb
    rw [frag_andOr] at hr
    obtain ⟨c1, _, h2⟩ := bind_ok hr
    obtain ⟨a0, c2, c4, _, _, e4, _, hcase⟩ := ifElse_ok h2
    rcases hcase with ⟨_, h3⟩ | ⟨_, c2', _, _, h3⟩
    · obtain ⟨k, r', e, hk⟩ := key_top ke ctx z cc hz (hbc ▸ hb) c2 c4 h3
      exact ⟨k, r', by rw [e4, e], Or.inr hk⟩
    · obtain ⟨k, r', e, hk⟩ := key_top ke ctx y b hy' hb c2' c4 h3
      exact ⟨k, r', by rw [e4, e], Or.inl hk⟩
  | .tru, τ, h, hb, _, _, _ | .fls, τ, h, hb, _, _, _ | .after _, τ, h, hb, _, _, _
  | .older _, τ, h, hb, _, _, _ | .hash _ _, τ, h, hb, _, _, _
  | .multi _ _, τ, h, hb, _, _, _ | .sortedMulti _ _, τ, h, hb, _, _, _
  | .multiA _ _, τ, h, hb, _, _, _ | .sortedMultiA _ _, τ, h, hb, _, _, _ => by
    simp only [typeOf] at h; cases h; cases hb
  | .alt x, τ, h, hb, _, _, _ => by
    simp only [typeOf] at h
    obtain ⟨a, _, h⟩ := typeOf_un h
    rw [(castAlt_inv (lift1_corr h)).2] at hb; cases hb
  | .swap x, τ, h, hb, _, _, _ => by
    simp only [typeOf] at h
    obtain ⟨a, _, h⟩ := typeOf_un h
    rw [(castSwap_inv (lift1_corr h)).2.2] at hb; cases hb
  | .check x, τ, h, hb, _, _, _ => by
    simp only [typeOf] at h
    obtain ⟨a, _, h⟩ := typeOf_un h
    rw [(castCheck_inv (lift1_corr h)).2] at hb; cases hb
  | .dupIf x, τ, h, hb, _, _, _ => by
    simp only [typeOf] at h
    obtain ⟨a, _, h⟩ := typeOf_un h
    rw [(castDupIf_inv (lift1_corr h)).2.2] at hb; cases hb
  | .verify x, τ, h, hb, _, _, _ => by
    simp only [typeOf] at h
    obtain ⟨a, _, h⟩ := typeOf_un h
    rw [(castVerify_inv (lift1_corr h)).2] at hb; cases hb
  | .nonZero x, τ, h, hb, _, _, _ => by
    simp only [typeOf] at h
    obtain ⟨a, _, h⟩ := typeOf_un h
    rw [(castNonZero_inv (lift1_corr h)).2.2] at hb; cases hb
  | .zeroNotEqual x, τ, h, hb, _, _, _ => by
    simp only [typeOf] at h
    obtain ⟨a, _, h⟩ := typeOf_un h
    rw [(castZeroNotEqual_inv (lift1_corr h)).2] at hb; cases hb
  | .andB l r, τ, h, hb, _, _, _ => by
    simp only [typeOf] at h
    obtain ⟨a, b, _, _, h⟩ := typeOf_bin h
    rw [(andB_inv (lift2_corr h)).2.2] at hb; cases hb
  | .orB l r, τ, h, hb, _, _, _ => by
    simp only [typeOf] at h
    obtain ⟨a, b, _, _, h⟩ := typeOf_bin h
    rw [(orB_inv (lift2_corr h)).2.2] at hb; cases hb
  | .orD l r, τ, h, hb, _, _, _ => by
    simp only [typeOf] at h
    obtain ⟨a, b, _, _, h⟩ := typeOf_bin h
    rw [(orD_inv (lift2_corr h)).2.2.2.2] at hb; cases hb
  | .orC l r, τ, h, hb, _, _, _ => by
    simp only [typeOf] at h
    obtain ⟨a, b, _, _, h⟩ := typeOf_bin h
    rw [(orC_inv (lift2_corr h)).2.2.2.2] at hb; cases hb
  | .thresh k xs, τ, h, hb, _, _, _ => by
    obtain ⟨ts, _, h⟩ := typeOf_thresh h
    obtain ⟨n, _, hy⟩ := threshold_inv (threshold_corr h)
    rw [hy] at hb; cases hb

end MsVerif.TypeSound

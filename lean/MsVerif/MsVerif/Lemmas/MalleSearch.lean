/-
Helper lemmas for C03's adversary search (`Driver/OpsMalle.lean`): soundness of the
CHECKMULTISIG pruning rule.  When the pruned search stops inside CHECKMULTISIG(VERIFY) for lack
of signature / dummy elements, it only tries, for the missing elements, the empty string and
elements that are valid signatures for one of the opcode's keys.  `multisig_block` shows that
under NULLFAIL + NULLDUMMY no other choice can make the opcode succeed (whatever lies below):
the dummy is empty and every signature element is empty or verifies for one of the keys.
-/
import MsVerif.Spec.Script

namespace MsVerif.MalleSearch
open MsVerif.Script

theorem multisigLoop_true_all_valid (env : Env) (sigs keys : List Bytes)
    (h : multisigLoop env sigs keys = .ok true) :
    ∀ sg ∈ sigs, sg.isEmpty = false ∧ ∃ k ∈ keys, env.sigOk k sg = true := by
  fun_induction multisigLoop env sigs keys with
  | case1 keys => intro sg hsg; cases hsg
  | case2 sg sigs => cases h
  | case3 sig sigs key keys hlen => cases h
  | case4 sig sigs key keys hlen hpk => cases h
  | case5 sig sigs key keys hlen hpk ok hok ih =>
    intro sg hsg
    rcases List.mem_cons.mp hsg with rfl | hsg
    · simp only [ok, Bool.and_eq_true, Bool.not_eq_true'] at hok
      exact ⟨hok.1, key, by simp, hok.2⟩
    · obtain ⟨a, k, hk, b⟩ := ih h sg hsg
      exact ⟨a, k, by simp [hk], b⟩
  | case6 sig sigs key keys hlen hpk ok hok ih =>
    intro sg hsg
    obtain ⟨a, k, hk, b⟩ := ih h sg hsg
    exact ⟨a, k, by simp [hk], b⟩

theorem multisig_block (env : Env) (s s' : Core) (verify : Bool)
    (hnf : env.flags.nullFail = true) (hnd : env.flags.nullDummy = true)
    (nB mB dummy : Bytes) (keys sigs rest : List Bytes) (n m : Nat)
    (hst : s.stack = nB :: (keys ++ mB :: (sigs ++ dummy :: rest)))
    (hn : numDecode env.flags.minimalNum 4 nB = some (n : Int)) (hkl : keys.length = n)
    (hm : numDecode env.flags.minimalNum 4 mB = some (m : Int)) (hsl : sigs.length = m)
    (h : multisig env s verify = .ok s') :
    dummy = [] ∧ ∀ sg ∈ sigs, sg = [] ∨ ∃ k ∈ keys, env.sigOk k sg = true := by
  unfold multisig at h
  split at h
  · cases h
  · rw [hst] at h
    simp only [hn] at h
    split at h
    · cases h
    · simp only [Int.toNat_natCast] at h
      split at h
      · cases h
      · rename_i s2 hs2
        split at h
        · cases h
        · have ht : (keys ++ mB :: (sigs ++ dummy :: rest)).take n = keys := by
            rw [← hkl]; exact List.take_left'  rfl
          have hd : (keys ++ mB :: (sigs ++ dummy :: rest)).drop n = mB :: (sigs ++ dummy :: rest) := by
            rw [← hkl]; exact List.drop_left' rfl
          simp only [ht, hd, hm] at h
          split at h
          · cases h
          · simp only [Int.toNat_natCast] at h
            split at h
            · cases h
            · have ht2 : (sigs ++ dummy :: rest).take m = sigs := by rw [← hsl]; exact List.take_left' rfl
              have hd2 : (sigs ++ dummy :: rest).drop m = dummy :: rest := by rw [← hsl]; exact List.drop_left' rfl
              simp only [ht2, hd2] at h
              cases hl : multisigLoop env sigs keys with
              | error e => rw [hl] at h; cases h
              | ok ok =>
                rw [hl] at h
                simp only [hnf, hnd, Bool.true_and] at h
                split at h
                · cases h
                · rename_i hnull
                  split at h
                  · cases h
                  · rename_i hdum
                    refine ⟨by simpa using hdum, ?_⟩
                    cases ok with
                    | true =>
                      intro sg hsg
                      obtain ⟨_, k, hk, hv⟩ := multisigLoop_true_all_valid env sigs keys hl sg hsg
                      exact .inr ⟨k, hk, hv⟩
                    | false =>
                      intro sg hsg
                      left
                      simp only [Bool.not_false, Bool.true_and, List.any_eq_true, Bool.not_eq_true', not_exists, not_and,
                        Bool.not_eq_false] at hnull
                      have := hnull sg hsg
                      simpa [List.isEmpty_iff] using this

end MsVerif.MalleSearch

/-
C02 helper lemmas, part 1: the witness lattice (`Wit`, `Sat`), `concatenate_rev`,
`minimum_mall`, `minimum`, folds — facts used by both completeness inductions.
-/
import MsVerif.Model.Satisfy

namespace MsVerif.Complete
open MsVerif Sat

/-! ### witnesses -/

def isStk : Wit → Bool
  | .stack _ => true
  | _ => false

def sumSize (w : List Ph) : Nat := (w.map Ph.size).sum

/-- total byte size of the items of a stack witness (0 for non-stacks) -/
def wsz : Wit → Nat
  | .stack w => sumSize w
  | _ => 0

@[simp] theorem sumSize_nil : sumSize [] = 0 := rfl
@[simp] theorem sumSize_cons (x : Ph) (w : List Ph) : sumSize (x :: w) = x.size + sumSize w := by
  simp [sumSize]
@[simp] theorem sumSize_append (a b : List Ph) : sumSize (a ++ b) = sumSize a + sumSize b := by
  simp [sumSize]

@[simp] theorem isStk_stack (l : List Ph) : isStk (.stack l) = true := rfl
@[simp] theorem isStk_impossible : isStk .impossible = false := rfl
@[simp] theorem isStk_unavailable : isStk .unavailable = false := rfl
@[simp] theorem wsz_stack (l : List Ph) : wsz (.stack l) = sumSize l := rfl
@[simp] theorem wsz_impossible : wsz .impossible = 0 := rfl
@[simp] theorem wsz_unavailable : wsz .unavailable = 0 := rfl

theorem isStk_iff (w : Wit) : isStk w = true ↔ ∃ l, w = .stack l := by
  cases w <;> simp [isStk]

theorem isStk_ne_imp {w : Wit} (h : isStk w = true) : w ≠ .impossible := by
  cases w <;> simp_all [isStk]

theorem isStk_ne_unav {w : Wit} (h : isStk w = true) : w ≠ .unavailable := by
  cases w <;> simp_all [isStk]

theorem isStk_of_ne {w : Wit} (h1 : w ≠ .impossible) (h2 : w ≠ .unavailable) : isStk w = true := by
  cases w <;> simp_all [isStk]

theorem varintLen_le (n : Nat) : varintLen n ≤ 9 := by
  unfold varintLen; split <;> (try split) <;> (try split) <;> omega

theorem witnessSize_le (w : List Ph) : witnessSize w ≤ sumSize w + 9 := by
  have := varintLen_le w.length
  unfold witnessSize sumSize; omega

theorem sumSize_le_witnessSize (w : List Ph) : sumSize w ≤ witnessSize w := by
  unfold witnessSize sumSize; omega

@[simp] theorem combine_isStk (a b : Wit) : isStk (Wit.combine a b) = (isStk a && isStk b) := by
  cases a <;> cases b <;> simp [Wit.combine, isStk]

theorem combine_wsz_le (a b : Wit) : wsz (Wit.combine a b) ≤ wsz a + wsz b := by
  cases a <;> cases b <;> simp [Wit.combine, wsz]

theorem combine_ne_unav {a b : Wit} (ha : a ≠ .unavailable) (hb : b ≠ .unavailable) :
    Wit.combine a b ≠ .unavailable := by
  cases a <;> cases b <;> simp_all [Wit.combine]

theorem combine_ne_imp {a b : Wit} (h : Wit.combine a b ≠ .impossible) :
    a ≠ .impossible ∧ b ≠ .impossible := by
  cases a <;> cases b <;> simp_all [Wit.combine]

theorem combine_imp_left (b : Wit) : Wit.combine .impossible b = .impossible := by
  cases b <;> rfl
theorem combine_imp_right (a : Wit) : Wit.combine a .impossible = .impossible := by
  cases a <;> rfl

/-! ### lock bookkeeping -/

def absUnit (n : Nat) : Bool := decide (n < 500000000)

/-- every lock recorded in `s` has the given unit -/
structure LockOK (ua ur : Bool) (s : Sat) : Prop where
  abs : ∀ n, s.abs = some n → absUnit n = ua
  rel : ∀ n, s.rel = some n → relIsTime n = ur

theorem lockOK_none {ua ur : Bool} {s : Sat} (ha : s.abs = none) (hr : s.rel = none) :
    LockOK ua ur s := ⟨by simp [ha], by simp [hr]⟩

theorem lockOK_IMPOSSIBLE (ua ur : Bool) : LockOK ua ur IMPOSSIBLE := lockOK_none rfl rfl
theorem lockOK_UNAVAILABLE (ua ur : Bool) : LockOK ua ur UNAVAILABLE := lockOK_none rfl rfl
theorem lockOK_TRIVIAL (ua ur : Bool) : LockOK ua ur TRIVIAL := lockOK_none rfl rfl
theorem lockOK_empty (ua ur : Bool) : LockOK ua ur Sat.empty := lockOK_none rfl rfl
theorem lockOK_push0 (ua ur : Bool) : LockOK ua ur push0 := lockOK_none rfl rfl

theorem lockOK_congr {ua ur : Bool} {s t : Sat} (h : LockOK ua ur s) (ha : t.abs = s.abs)
    (hr : t.rel = s.rel) : LockOK ua ur t := ⟨by rw [ha]; exact h.abs, by rw [hr]; exact h.rel⟩

theorem absMax_ok {ua : Bool} {a b : Nat} (ha : absUnit a = ua) (hb : absUnit b = ua) :
    ∃ c, absMax a b = some c ∧ absUnit c = ua := by
  unfold absUnit at ha hb
  unfold absMax
  rw [ha, hb]
  simp only [beq_self_eq_true, if_true]
  by_cases h : a ≥ b
  · exact ⟨a, by simp [h], ha⟩
  · exact ⟨b, by simp [h], hb⟩

theorem relMax_ok {ur : Bool} {a b : Nat} (ha : relIsTime a = ur) (hb : relIsTime b = ur) :
    ∃ c, relMax a b = some c ∧ relIsTime c = ur := by
  unfold relMax
  rw [ha, hb]
  simp only [beq_self_eq_true, if_true]
  by_cases h : relVal a ≥ relVal b
  · exact ⟨a, by simp [h], ha⟩
  · exact ⟨b, by simp [h], hb⟩

/-- merged lock of `concatenate_rev` (one kind) -/
def mergeOpt (f : Nat → Nat → Option Nat) : Option Nat → Option Nat → Option (Option Nat)
  | none, x => some x
  | x, none => some x
  | some a, some b => (f a b).map some

theorem concatenateRev_eq (s o : Sat) :
    concatenateRev s o =
      if s.stack = .impossible ∨ o.stack = .impossible then IMPOSSIBLE else
      match mergeOpt relMax s.rel o.rel with
      | none => IMPOSSIBLE
      | some rel =>
        match mergeOpt absMax s.abs o.abs with
        | none => IMPOSSIBLE
        | some abs => ⟨Wit.combine o.stack s.stack, s.hasSig || o.hasSig, abs, rel⟩ := by
  unfold concatenateRev mergeOpt
  cases s.rel <;> cases o.rel <;> cases s.abs <;> cases o.abs <;> rfl

theorem mergeOpt_ok {P : Nat → Prop} {f : Nat → Nat → Option Nat}
    (hf : ∀ a b, P a → P b → ∃ c, f a b = some c ∧ P c) {x y : Option Nat}
    (hx : ∀ n, x = some n → P n) (hy : ∀ n, y = some n → P n) :
    ∃ z, mergeOpt f x y = some z ∧ ∀ n, z = some n → P n := by
  cases x with
  | none => exact ⟨y, by simp [mergeOpt], hy⟩
  | some a =>
    cases y with
    | none => exact ⟨some a, by simp [mergeOpt], hx⟩
    | some b =>
      obtain ⟨c, hc, hp⟩ := hf a b (hx a rfl) (hy b rfl)
      exact ⟨some c, by simp [mergeOpt, hc], by intro n hn; cases hn; exact hp⟩

/-- with unit-compatible locks `concatenate_rev` never fails on the lock merge -/
theorem concat_ok {ua ur : Bool} {s o : Sat} (hs : LockOK ua ur s) (ho : LockOK ua ur o) :
    ∃ t : Sat, concatenateRev s o = t ∧ LockOK ua ur t ∧
      t.stack = Wit.combine o.stack s.stack ∧
      (t.stack ≠ .impossible → t.hasSig = (s.hasSig || o.hasSig)) := by
  obtain ⟨rel, hrel, hrelP⟩ := mergeOpt_ok (P := fun n => relIsTime n = ur)
    (fun a b => relMax_ok) hs.rel ho.rel
  obtain ⟨abs, habs, habsP⟩ := mergeOpt_ok (P := fun n => absUnit n = ua)
    (fun a b => absMax_ok) hs.abs ho.abs
  rw [concatenateRev_eq, hrel, habs]
  by_cases h : s.stack = .impossible ∨ o.stack = .impossible
  · refine ⟨IMPOSSIBLE, by simp [h], lockOK_IMPOSSIBLE _ _, ?_, by simp [IMPOSSIBLE]⟩
    rcases h with h | h
    · rw [h, combine_imp_right]; rfl
    · rw [h, combine_imp_left]; rfl
  · exact ⟨⟨Wit.combine o.stack s.stack, s.hasSig || o.hasSig, abs, rel⟩, by simp [h],
      ⟨habsP, hrelP⟩, rfl, fun _ => rfl⟩

theorem concat_lockOK {ua ur : Bool} {s o : Sat} (hs : LockOK ua ur s) (ho : LockOK ua ur o) :
    LockOK ua ur (concatenateRev s o) := by
  obtain ⟨t, h, hl, _⟩ := concat_ok hs ho; rw [h]; exact hl

theorem concat_stack {ua ur : Bool} {s o : Sat} (hs : LockOK ua ur s) (ho : LockOK ua ur o) :
    (concatenateRev s o).stack = Wit.combine o.stack s.stack := by
  obtain ⟨t, h, _, hst, _⟩ := concat_ok hs ho; rw [h]; exact hst

theorem concat_isStk {ua ur : Bool} {s o : Sat} (hs : LockOK ua ur s) (ho : LockOK ua ur o) :
    isStk (concatenateRev s o).stack = (isStk s.stack && isStk o.stack) := by
  rw [concat_stack hs ho, combine_isStk, Bool.and_comm]

theorem concat_wsz {ua ur : Bool} {s o : Sat} (hs : LockOK ua ur s) (ho : LockOK ua ur o) :
    wsz (concatenateRev s o).stack ≤ wsz s.stack + wsz o.stack := by
  rw [concat_stack hs ho]; have := combine_wsz_le o.stack s.stack; omega

theorem concat_hasSig {ua ur : Bool} {s o : Sat} (hs : LockOK ua ur s) (ho : LockOK ua ur o)
    (h : (concatenateRev s o).stack ≠ .impossible) :
    (concatenateRev s o).hasSig = (s.hasSig || o.hasSig) := by
  obtain ⟨t, ht, _, _, hsig⟩ := concat_ok hs ho; rw [ht] at h ⊢; exact hsig h

theorem concat_ne_imp {ua ur : Bool} {s o : Sat} (hs : LockOK ua ur s) (ho : LockOK ua ur o)
    (h : (concatenateRev s o).stack ≠ .impossible) :
    s.stack ≠ .impossible ∧ o.stack ≠ .impossible := by
  rw [concat_stack hs ho] at h
  exact (combine_ne_imp h).symm

theorem concat_ne_unav {ua ur : Bool} {s o : Sat} (hs : LockOK ua ur s) (ho : LockOK ua ur o)
    (h1 : s.stack ≠ .unavailable) (h2 : o.stack ≠ .unavailable) :
    (concatenateRev s o).stack ≠ .unavailable := by
  rw [concat_stack hs ho]; exact combine_ne_unav h2 h1

theorem concat_hasSig_false {ua ur : Bool} {s o : Sat} (hs : LockOK ua ur s) (ho : LockOK ua ur o)
    (h1 : s.hasSig = false) (h2 : o.hasSig = false) : (concatenateRev s o).hasSig = false := by
  by_cases h : (concatenateRev s o).stack = .impossible
  · rw [concatenateRev_eq] at h ⊢
    obtain ⟨rel, hrel, -⟩ := mergeOpt_ok (P := fun n => relIsTime n = ur)
      (fun a b => relMax_ok) hs.rel ho.rel
    obtain ⟨abs, habs, -⟩ := mergeOpt_ok (P := fun n => absUnit n = ua)
      (fun a b => absMax_ok) hs.abs ho.abs
    rw [hrel, habs] at h ⊢
    split <;> simp_all [IMPOSSIBLE]
  · rw [concat_hasSig hs ho h, h1, h2]; rfl

/-! ### `minimum_mall` -/

theorem minMall_cases (s1 s2 : Sat) :
    (minimumMall s1 s2 = s2 ∧ isStk s1.stack = false) ∨
    (minimumMall s1 s2 = s1 ∧ isStk s2.stack = false ∧ isStk s1.stack = true) ∨
    (isStk s1.stack = true ∧ isStk s2.stack = true ∧
      ((minimumMall s1 s2).stack = s1.stack ∧ (minimumMall s1 s2).abs = s1.abs ∧
          (minimumMall s1 s2).rel = s1.rel ∨
       (minimumMall s1 s2).stack = s2.stack ∧ (minimumMall s1 s2).abs = s2.abs ∧
          (minimumMall s1 s2).rel = s2.rel)) := by
  unfold minimumMall
  by_cases h1 : s1.stack = .impossible ∨ s1.stack = .unavailable
  · left; refine ⟨by simp [h1], ?_⟩
    rcases h1 with h | h <;> simp [h, isStk]
  · right
    have hs1 : isStk s1.stack = true := isStk_of_ne (fun h => h1 (.inl h)) (fun h => h1 (.inr h))
    by_cases h2 : s2.stack = .impossible ∨ s2.stack = .unavailable
    · left; refine ⟨by simp [h1, h2], ?_, hs1⟩
      rcases h2 with h | h <;> simp [h, isStk]
    · right
      have hs2 : isStk s2.stack = true := isStk_of_ne (fun h => h2 (.inl h)) (fun h => h2 (.inr h))
      refine ⟨hs1, hs2, ?_⟩
      simp only [h1, h2, if_false]
      by_cases hl : s1.stack.lt s2.stack = true
      · left; simp [hl]
      · right; simp [hl]

theorem minMall_lockOK {ua ur : Bool} {s1 s2 : Sat} (h1 : LockOK ua ur s1) (h2 : LockOK ua ur s2) :
    LockOK ua ur (minimumMall s1 s2) := by
  rcases minMall_cases s1 s2 with ⟨h, _⟩ | ⟨h, _⟩ | ⟨_, _, ⟨_, ha, hr⟩ | ⟨_, ha, hr⟩⟩
  · rw [h]; exact h2
  · rw [h]; exact h1
  · exact lockOK_congr h1 ha hr
  · exact lockOK_congr h2 ha hr

theorem minMall_isStk (s1 s2 : Sat) :
    isStk (minimumMall s1 s2).stack = (isStk s1.stack || isStk s2.stack) := by
  rcases minMall_cases s1 s2 with ⟨h, h'⟩ | ⟨h, h', h''⟩ | ⟨h', h'', ⟨h, _⟩ | ⟨h, _⟩⟩
  · rw [h, h']; rfl
  · rw [h, h', h'']; rfl
  · rw [h, h', h'']; rfl
  · rw [h, h', h'']; rfl

theorem minMall_wsz {B : Nat} {s1 s2 : Sat} (h1 : wsz s1.stack ≤ B) (h2 : wsz s2.stack ≤ B) :
    wsz (minimumMall s1 s2).stack ≤ B := by
  rcases minMall_cases s1 s2 with ⟨h, _⟩ | ⟨h, _⟩ | ⟨_, _, ⟨h, _⟩ | ⟨h, _⟩⟩ <;> rw [h] <;> assumption

/-! ### `minimum` (non-malleable) -/

/-- "a third party cannot produce it": impossible, or carries a signature -/
def SigOrImp (s : Sat) : Prop := s.stack ≠ .impossible → s.hasSig = true

theorem min_cases (s1 s2 : Sat) :
    (s1.stack = .impossible ∧ minimum s1 s2 = s2) ∨
    (s1.stack ≠ .impossible ∧ s2.stack = .impossible ∧ minimum s1 s2 = s1) ∨
    (s1.stack ≠ .impossible ∧ s2.stack ≠ .impossible ∧
      ((s1.hasSig = false ∧ s2.hasSig = false ∧ minimum s1 s2 = UNAVAILABLE) ∨
       (s1.hasSig = false ∧ s2.hasSig = true ∧ minimum s1 s2 = ⟨s1.stack, false, s1.abs, s1.rel⟩) ∨
       (s1.hasSig = true ∧ s2.hasSig = false ∧ minimum s1 s2 = ⟨s2.stack, false, s2.abs, s2.rel⟩) ∨
       (s1.hasSig = true ∧ s2.hasSig = true ∧
          (minimum s1 s2 = ⟨s1.stack, true, s1.abs, s1.rel⟩ ∨
           minimum s1 s2 = ⟨s2.stack, true, s2.abs, s2.rel⟩)))) := by
  unfold minimum
  by_cases h1 : s1.stack = .impossible
  · left; exact ⟨h1, by simp [h1]⟩
  · right
    by_cases h2 : s2.stack = .impossible
    · left; exact ⟨h1, h2, by simp [h1, h2]⟩
    · right
      refine ⟨h1, h2, ?_⟩
      simp only [h1, h2, if_false]
      cases e1 : s1.hasSig <;> cases e2 : s2.hasSig <;> simp
      by_cases hl : s1.stack.lt s2.stack = true <;> simp [hl]

theorem min_lockOK {ua ur : Bool} {s1 s2 : Sat} (h1 : LockOK ua ur s1) (h2 : LockOK ua ur s2) :
    LockOK ua ur (minimum s1 s2) := by
  rcases min_cases s1 s2 with ⟨_, h⟩ | ⟨_, _, h⟩ | ⟨_, _, ⟨_, _, h⟩ | ⟨_, _, h⟩ | ⟨_, _, h⟩ | ⟨_, _, h | h⟩⟩
    <;> rw [h]
  · exact h2
  · exact h1
  · exact lockOK_UNAVAILABLE _ _
  · exact lockOK_congr h1 rfl rfl
  · exact lockOK_congr h2 rfl rfl
  · exact lockOK_congr h1 rfl rfl
  · exact lockOK_congr h2 rfl rfl

/-- `minimum` never answers `Unavailable` when neither input is and at least one of two
possible inputs carries a signature -/
theorem min_ne_unav {s1 s2 : Sat} (h1 : s1.stack ≠ .unavailable) (h2 : s2.stack ≠ .unavailable)
    (hsig : s1.stack ≠ .impossible → s2.stack ≠ .impossible → s1.hasSig = true ∨ s2.hasSig = true) :
    (minimum s1 s2).stack ≠ .unavailable := by
  rcases min_cases s1 s2 with ⟨_, h⟩ | ⟨_, _, h⟩ | ⟨a, b, ⟨c, d, h⟩ | ⟨_, _, h⟩ | ⟨_, _, h⟩ | ⟨_, _, h | h⟩⟩
    <;> rw [h] <;> try assumption
  rcases hsig a b with h | h <;> simp_all

theorem min_isStk {s1 s2 : Sat} (h1 : s1.stack ≠ .unavailable) (h2 : s2.stack ≠ .unavailable)
    (hsig : s1.stack ≠ .impossible → s2.stack ≠ .impossible → s1.hasSig = true ∨ s2.hasSig = true)
    (hst : isStk s1.stack = true ∨ isStk s2.stack = true) :
    isStk (minimum s1 s2).stack = true := by
  have hne := min_ne_unav h1 h2 hsig
  refine isStk_of_ne ?_ hne
  rcases min_cases s1 s2 with ⟨a, h⟩ | ⟨a, b, h⟩ | ⟨a, b, ⟨c, d, h⟩ | ⟨_, _, h⟩ | ⟨_, _, h⟩ | ⟨_, _, h | h⟩⟩
    <;> rw [h] <;> try assumption
  · rcases hst with hst | hst
    · rw [a] at hst; simp [isStk] at hst
    · exact isStk_ne_imp hst
  · simp [UNAVAILABLE]

theorem min_sigOrImp {s1 s2 : Sat} (h1 : SigOrImp s1) (h2 : SigOrImp s2) :
    SigOrImp (minimum s1 s2) := by
  unfold SigOrImp at *
  rcases min_cases s1 s2 with ⟨_, h⟩ | ⟨_, _, h⟩ | ⟨a, b, ⟨c, d, h⟩ | ⟨c, _, h⟩ | ⟨_, d, h⟩ | ⟨_, _, h | h⟩⟩
    <;> rw [h] <;> try assumption
  · simp [h1 a] at c
  · simp [h1 a] at c
  · simp [h2 b] at d
  · simp
  · simp

/-- the `or_i` dissatisfaction row "unique / none": the unique signature-free one is kept -/
theorem min_unique_left {s1 s2 : Sat} (hs : isStk s1.stack = true) (hn : s1.hasSig = false)
    (h2 : SigOrImp s2) :
    isStk (minimum s1 s2).stack = true ∧ (minimum s1 s2).hasSig = false := by
  unfold SigOrImp at h2
  have hi := isStk_ne_imp hs
  rcases min_cases s1 s2 with ⟨a, _⟩ | ⟨_, _, h⟩ | ⟨a, b, ⟨c, d, h⟩ | ⟨c, _, h⟩ | ⟨c, d, h⟩ | ⟨c, _, h | h⟩⟩
  · exact absurd a hi
  · rw [h]; exact ⟨hs, hn⟩
  · simp [h2 b] at d
  · rw [h]; exact ⟨hs, rfl⟩
  · simp [hn] at c
  · simp [hn] at c
  · simp [hn] at c

theorem min_unique_right {s1 s2 : Sat} (hs : isStk s2.stack = true) (hn : s2.hasSig = false)
    (h1 : SigOrImp s1) :
    isStk (minimum s1 s2).stack = true ∧ (minimum s1 s2).hasSig = false := by
  unfold SigOrImp at h1
  have hi := isStk_ne_imp hs
  rcases min_cases s1 s2 with ⟨a, h⟩ | ⟨_, b, h⟩ | ⟨a, b, ⟨c, d, h⟩ | ⟨c, d, h⟩ | ⟨c, d, h⟩ | ⟨c, d, h | h⟩⟩
  · rw [h]; exact ⟨hs, hn⟩
  · exact absurd b hi
  · simp [h1 a] at c
  · simp [hn] at d
  · rw [h]; exact ⟨hs, rfl⟩
  · simp [hn] at d
  · simp [hn] at d

/-! ### folds of `concatenate_rev` -/

theorem foldl_concat_lockOK {ua ur : Bool} (l : List Sat) (acc : Sat) (ha : LockOK ua ur acc)
    (hl : ∀ s ∈ l, LockOK ua ur s) : LockOK ua ur (l.foldl concatenateRev acc) := by
  induction l generalizing acc with
  | nil => exact ha
  | cons s t ih =>
    simp only [List.foldl_cons]
    exact ih _ (concat_lockOK ha (hl s (by simp))) (fun x hx => hl x (by simp [hx]))

theorem foldl_concat_isStk {ua ur : Bool} (l : List Sat) (acc : Sat) (ha : LockOK ua ur acc)
    (hl : ∀ s ∈ l, LockOK ua ur s) :
    isStk (l.foldl concatenateRev acc).stack = (isStk acc.stack && l.all (fun s => isStk s.stack)) := by
  induction l generalizing acc with
  | nil => simp
  | cons s t ih =>
    simp only [List.foldl_cons, List.all_cons]
    rw [ih _ (concat_lockOK ha (hl s (by simp))) (fun x hx => hl x (by simp [hx])),
      concat_isStk ha (hl s (by simp)), Bool.and_assoc]

theorem foldl_concat_wsz {ua ur : Bool} (l : List Sat) (acc : Sat) (ha : LockOK ua ur acc)
    (hl : ∀ s ∈ l, LockOK ua ur s) :
    wsz (l.foldl concatenateRev acc).stack ≤ wsz acc.stack + (l.map (fun s => wsz s.stack)).sum := by
  induction l generalizing acc with
  | nil => simp
  | cons s t ih =>
    simp only [List.foldl_cons, List.map_cons, List.sum_cons]
    have h1 := ih _ (concat_lockOK ha (hl s (by simp))) (fun x hx => hl x (by simp [hx]))
    have h2 := concat_wsz ha (hl s (by simp))
    omega

theorem foldl_concat_ne_unav {ua ur : Bool} (l : List Sat) (acc : Sat) (ha : LockOK ua ur acc)
    (hl : ∀ s ∈ l, LockOK ua ur s) (hna : acc.stack ≠ .unavailable)
    (hnl : ∀ s ∈ l, s.stack ≠ .unavailable) :
    (l.foldl concatenateRev acc).stack ≠ .unavailable := by
  induction l generalizing acc with
  | nil => exact hna
  | cons s t ih =>
    simp only [List.foldl_cons]
    exact ih _ (concat_lockOK ha (hl s (by simp))) (fun x hx => hl x (by simp [hx]))
      (concat_ne_unav ha (hl s (by simp)) hna (hnl s (by simp))) (fun x hx => hnl x (by simp [hx]))

theorem foldl_concat_hasSig_false {ua ur : Bool} (l : List Sat) (acc : Sat) (ha : LockOK ua ur acc)
    (hl : ∀ s ∈ l, LockOK ua ur s) (hna : acc.hasSig = false)
    (hnl : ∀ s ∈ l, s.hasSig = false) :
    (l.foldl concatenateRev acc).hasSig = false := by
  induction l generalizing acc with
  | nil => exact hna
  | cons s t ih =>
    simp only [List.foldl_cons]
    exact ih _ (concat_lockOK ha (hl s (by simp))) (fun x hx => hl x (by simp [hx]))
      (concat_hasSig_false ha (hl s (by simp)) hna (hnl s (by simp))) (fun x hx => hnl x (by simp [hx]))

theorem foldl_concat_imp {ua ur : Bool} (l : List Sat) (acc : Sat) (ha : LockOK ua ur acc)
    (hl : ∀ s ∈ l, LockOK ua ur s) (hi : acc.stack = .impossible) :
    (l.foldl concatenateRev acc).stack = .impossible := by
  induction l generalizing acc with
  | nil => exact hi
  | cons s t ih =>
    simp only [List.foldl_cons]
    refine ih _ (concat_lockOK ha (hl s (by simp))) (fun x hx => hl x (by simp [hx])) ?_
    rw [concat_stack ha (hl s (by simp)), hi, combine_imp_right]

/-- a possible fold carries a signature as soon as one of its (necessarily possible) parts does -/
theorem foldl_concat_hasSig {ua ur : Bool} (l : List Sat) (acc : Sat) (ha : LockOK ua ur acc)
    (hl : ∀ s ∈ l, LockOK ua ur s)
    (hne : (l.foldl concatenateRev acc).stack ≠ .impossible)
    (hex : acc.hasSig = true ∨ ∃ s ∈ l, SigOrImp s ) :
    (l.foldl concatenateRev acc).hasSig = true := by
  induction l generalizing acc with
  | nil =>
    rcases hex with h | ⟨s, hs, _⟩
    · exact h
    · simp at hs
  | cons s t ih =>
    simp only [List.foldl_cons] at hne ⊢
    have hls := hl s (by simp)
    have hc := concat_lockOK ha hls
    have hne' : (concatenateRev acc s).stack ≠ .impossible := by
      intro h; exact hne (foldl_concat_imp t _ hc (fun x hx => hl x (by simp [hx])) h)
    have hsig := concat_hasSig ha hls hne'
    have hparts := concat_ne_imp ha hls hne'
    refine ih _ hc (fun x hx => hl x (by simp [hx])) hne ?_
    rcases hex with h | ⟨x, hx, hsx⟩
    · left; rw [hsig, h]; rfl
    · rcases List.mem_cons.mp hx with rfl | hx
      · left; rw [hsig, hsx hparts.2]; simp
      · right; exact ⟨x, hx, hsx⟩

end MsVerif.Complete

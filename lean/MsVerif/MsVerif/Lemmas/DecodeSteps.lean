/-
Multi-step runs of the decoder loop (`Steps`) and how they relate to `decodeLoop` with fuel.
-/
import MsVerif.Lemmas.DecodeFuel

namespace MsVerif
namespace DecodeL

variable {dec : AtomDec} {env : KeyEnv} {ctx : Ctx}

/-- one iteration of the loop -/
def Step (dec : AtomDec) (env : KeyEnv) (ctx : Ctx) (s s' : DState) : Prop :=
  ∃ top nt, s.nt = top :: nt ∧ stepNT dec env ctx top { s with nt := nt } = .ok s'

inductive Steps (dec : AtomDec) (env : KeyEnv) (ctx : Ctx) : DState → DState → Prop
  | refl (s : DState) : Steps dec env ctx s s
  | head {s s₁ s₂ : DState} (h : Step dec env ctx s s₁) (t : Steps dec env ctx s₁ s₂) : Steps dec env ctx s s₂

theorem Steps.trans {a b c : DState} (h1 : Steps dec env ctx a b) (h2 : Steps dec env ctx b c) :
    Steps dec env ctx a c := by
  induction h1 with
  | refl => exact h2
  | head h _ ih => exact .head h (ih h2)

theorem Steps.one {a b : DState} (h : Step dec env ctx a b) : Steps dec env ctx a b := .head h (.refl _)

theorem step_mk {toks : List Token} {top : NonTerm} {nt : List NonTerm} {term : List Ms} {s' : DState}
    (h : stepNT dec env ctx top ⟨toks, nt, term⟩ = .ok s') :
    Step dec env ctx ⟨toks, top :: nt, term⟩ s' := ⟨top, nt, rfl, h⟩

theorem step_loop {s s' : DState} (h : Step dec env ctx s s') (f : Nat) :
    decodeLoop dec env ctx (f + 1) s = decodeLoop dec env ctx f s' := by
  obtain ⟨top, nt, e, hs⟩ := h
  obtain ⟨toks, nt0, term⟩ := s
  simp only at e; subst e
  simp only [decodeLoop, hs]

theorem step_measure {s s' : DState} (h : Step dec env ctx s s') : measure s' < measure s := by
  obtain ⟨top, nt, e, hs⟩ := h
  obtain ⟨toks, nt0, term⟩ := s
  simp only at e; subst e
  exact stepNT_measure hs

theorem steps_loop {s s' : DState} (h : Steps dec env ctx s s') :
    ∃ n, n + measure s' ≤ measure s ∧
      ∀ f, decodeLoop dec env ctx (n + f) s = decodeLoop dec env ctx f s' := by
  induction h with
  | refl s => exact ⟨0, by omega, fun f => by simp⟩
  | head h _ ih =>
    obtain ⟨n, hn, hf⟩ := ih
    have hm := step_measure h
    refine ⟨n + 1, by omega, fun f => ?_⟩
    have : n + 1 + f = (n + f) + 1 := by omega
    rw [this, step_loop h, hf]

theorem decodeLoop_mono : ∀ (f k : Nat) (s : DState) (r : Except DecodeErr (Ms × List Token)),
    decodeLoop dec env ctx f s = some r → decodeLoop dec env ctx (f + k) s = some r := by
  intro f
  induction f with
  | zero => intro k s r h; simp [decodeLoop] at h
  | succ f ih =>
    intro k s r h
    have : f + 1 + k = (f + k) + 1 := by omega
    rw [this]
    simp only [decodeLoop] at h ⊢
    split
    · rename_i hn; simp only [hn] at h; exact h
    · rename_i top nt hn
      simp only [hn] at h
      split
      · rename_i e he; simp only [he] at h; exact h
      · rename_i s' hs; simp only [hs] at h; exact ih k s' r h

/-- a run from the initial state to the final state `⟨rest, [], [ms]⟩` is what `decodeToks` returns -/
theorem decodeToks_of_steps {toks rest : List Token} {ms : Ms}
    (h : Steps dec env ctx (initState toks.reverse) ⟨rest, [], [ms]⟩) :
    decodeToks dec env ctx toks = .ok (ms, rest) := by
  obtain ⟨n, hn, hf⟩ := steps_loop h
  have h1 : decodeLoop dec env ctx (n + 1) (initState toks.reverse) = some (.ok (ms, rest)) := by
    rw [hf 1]; rfl
  have hm := measure_init toks.reverse
  have hle : n + 1 ≤ decodeFuel toks := by
    simp only [decodeFuel]
    simp only [List.length_reverse] at hm
    have : 0 ≤ measure (⟨rest, [], [ms]⟩ : DState) := Nat.zero_le _
    omega
  obtain ⟨k, hk⟩ := Nat.exists_eq_add_of_le hle
  have := decodeLoop_mono (n + 1) k _ _ h1
  simp only [decodeToks, hk, this]

end DecodeL
end MsVerif

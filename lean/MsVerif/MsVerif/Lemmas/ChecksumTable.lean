/-
C10/T3 table lemma, chained from the eight kernel-checked chunks of `ChecksumTableData.lean`.
-/
import MsVerif.Lemmas.ChecksumTableData

namespace MsVerif.Checksum

/-- chaining one chunk -/
theorem chain_step {t t' : List W} {base : Nat} (hc : runChunk t 128 = some t')
    (ht : t = tab0.map (Lpow base)) :
    t' = tab0.map (Lpow (base + 128)) ∧
    ∀ d, base + 1 ≤ d → d ≤ base + 128 → ∀ v ∈ tab0, 32 ≤ (Lpow d v).toNat := by
  obtain ⟨e, hk⟩ := runChunk_sound hc
  refine ⟨?_, ?_⟩
  · rw [e, ht, List.map_map]
    apply List.map_congr_left
    intro x _
    show Lpow 128 (Lpow base x) = _
    rw [← Lpow_add, Nat.add_comm]
  · intro d h1 h2 v hv
    have := hk (d - base) (by omega) (by omega) (Lpow base v) (by rw [ht]; exact List.mem_map_of_mem hv)
    rw [← Lpow_add, show d - base + base = d by omega] at this
    exact this

/-- **the table**: no non-zero 5-bit value returns to a 5-bit value within 1024 steps -/
theorem table_1024 : ∀ d, 1 ≤ d → d ≤ 1024 → ∀ v ∈ tab0, 32 ≤ (Lpow d v).toNat := by
  have s0 := chain_step (base := 0) chunk0 (by simp [Lpow])
  have s1 := chain_step (base := 128) chunk1 s0.1
  have s2 := chain_step (base := 256) chunk2 s1.1
  have s3 := chain_step (base := 384) chunk3 s2.1
  have s4 := chain_step (base := 512) chunk4 s3.1
  have s5 := chain_step (base := 640) chunk5 s4.1
  have s6 := chain_step (base := 768) chunk6 s5.1
  have s7 := chain_step (base := 896) chunk7 s6.1
  intro d h1 h2 v hv
  by_cases c0 : d ≤ 128; · exact s0.2 d (by omega) (by omega) v hv
  by_cases c1 : d ≤ 256; · exact s1.2 d (by omega) (by omega) v hv
  by_cases c2 : d ≤ 384; · exact s2.2 d (by omega) (by omega) v hv
  by_cases c3 : d ≤ 512; · exact s3.2 d (by omega) (by omega) v hv
  by_cases c4 : d ≤ 640; · exact s4.2 d (by omega) (by omega) v hv
  by_cases c5 : d ≤ 768; · exact s5.2 d (by omega) (by omega) v hv
  by_cases c6 : d ≤ 896; · exact s6.2 d (by omega) (by omega) v hv
  exact s7.2 d (by omega) (by omega) v hv

theorem mem_tab0 (e : Nat) (h1 : 0 < e) (h2 : e < 32) : BitVec.ofNat 40 e ∈ tab0 := by
  have : ∀ e, e < 32 → 0 < e → BitVec.ofNat 40 e ∈ tab0 := by decide +kernel
  exact this e h2 h1

/-- in the form used by the engine proof: a difference `x` with `0 < x < 32` never comes back
to a value below 32 -/
theorem Lpow_ge_32 (x : W) (h1 : x.toNat ≠ 0) (h2 : x.toNat < 32) (d : Nat) (hd1 : 1 ≤ d)
    (hd2 : d ≤ 1024) : 32 ≤ (Lpow d x).toNat := by
  have : x = BitVec.ofNat 40 x.toNat := by simp
  rw [this]
  exact table_1024 d hd1 hd2 _ (mem_tab0 _ (by omega) h2)

end MsVerif.Checksum

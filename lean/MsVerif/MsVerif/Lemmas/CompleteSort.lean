/-
C02 helper lemmas, part 2: the stable index sort of `Satisfaction::thresh{,_mall}` and the
`mem::swap` of the first `k` sorted children.
-/
import MsVerif.Lemmas.CompleteBasic

namespace MsVerif.Complete
open MsVerif Sat

/-! ### `sortIdx` is a permutation of `range n` -/

theorem insertIdx_perm (key : Nat → SortKey) (i : Nat) (l : List Nat) :
    (insertIdx key i l).Perm (i :: l) := by
  induction l with
  | nil => exact List.Perm.refl _
  | cons j js ih =>
    unfold insertIdx
    split
    · exact (List.Perm.cons j ih).trans (List.Perm.swap i j js)
    · exact List.Perm.refl _

theorem foldl_insertIdx_perm (key : Nat → SortKey) (l acc : List Nat) :
    (l.foldl (fun acc i => insertIdx key i acc) acc).Perm (l ++ acc) := by
  induction l generalizing acc with
  | nil => exact List.Perm.refl _
  | cons x t ih =>
    simp only [List.foldl_cons, List.cons_append]
    refine (ih _).trans ?_
    exact (List.Perm.append_left t (insertIdx_perm key x acc)).trans List.perm_middle

theorem sortIdx_perm (key : Nat → SortKey) (n : Nat) : (sortIdx key n).Perm (List.range n) := by
  unfold sortIdx
  simpa using foldl_insertIdx_perm key (List.range n) []

theorem sortIdx_length (key : Nat → SortKey) (n : Nat) : (sortIdx key n).length = n := by
  simpa using (sortIdx_perm key n).length_eq

theorem sortIdx_nodup (key : Nat → SortKey) (n : Nat) : (sortIdx key n).Nodup :=
  (sortIdx_perm key n).nodup_iff.mpr List.nodup_range

theorem mem_sortIdx (key : Nat → SortKey) (n i : Nat) : i ∈ sortIdx key n ↔ i < n := by
  rw [(sortIdx_perm key n).mem_iff, List.mem_range]

/-! ### a key-downward-closed class of indices forms a prefix of the sorted list -/

/-- `P` is a lower set of the sort order: members sort strictly before non-members -/
structure LowerSet (key : Nat → SortKey) (P : Nat → Bool) : Prop where
  strict : ∀ i j, P i = true → P j = false → (key j).le (key i) = false
  before : ∀ i j, P j = true → P i = false → (key j).le (key i) = true

/-- members first -/
def PrefixP (P : Nat → Bool) (l : List Nat) : Prop :=
  l.Pairwise (fun a b => P b = true → P a = true)

theorem insertIdx_prefix {key : Nat → SortKey} {P : Nat → Bool} (hP : LowerSet key P)
    (i : Nat) (l : List Nat) (hl : PrefixP P l) : PrefixP P (insertIdx key i l) := by
  induction l with
  | nil => simp [insertIdx, PrefixP]
  | cons j js ih =>
    unfold PrefixP at hl
    rw [List.pairwise_cons] at hl
    obtain ⟨hj, hjs⟩ := hl
    unfold insertIdx
    split
    next hle =>
      unfold PrefixP
      rw [List.pairwise_cons]
      refine ⟨?_, ih hjs⟩
      intro b hb hPb
      rcases List.mem_cons.mp ((insertIdx_perm key i js).mem_iff.mp hb) with rfl | hb
      · cases hPj : P j with
        | true => rfl
        | false => have := hP.strict _ _ hPb hPj; simp [hle] at this
      · exact hj b hb hPb
    next hle =>
      unfold PrefixP
      rw [List.pairwise_cons, List.pairwise_cons]
      have hji : P j = true → P i = true := by
        intro hPj
        cases hPi : P i with
        | true => rfl
        | false => have := hP.before _ _ hPj hPi; simp [this] at hle
      refine ⟨?_, hj, hjs⟩
      intro b hb hPb
      rcases List.mem_cons.mp hb with rfl | hb
      · exact hji hPb
      · exact hji (hj b hb hPb)

theorem foldl_insertIdx_prefix {key : Nat → SortKey} {P : Nat → Bool} (hP : LowerSet key P)
    (l acc : List Nat) (ha : PrefixP P acc) :
    PrefixP P (l.foldl (fun acc i => insertIdx key i acc) acc) := by
  induction l generalizing acc with
  | nil => exact ha
  | cons x t ih => exact ih _ (insertIdx_prefix hP x acc ha)

theorem sortIdx_prefix {key : Nat → SortKey} {P : Nat → Bool} (hP : LowerSet key P) (n : Nat) :
    PrefixP P (sortIdx key n) :=
  foldl_insertIdx_prefix hP _ _ (by simp [PrefixP])

theorem prefix_take {P : Nat → Bool} (l : List Nat) (hl : PrefixP P l) (k : Nat)
    (hk : k ≤ l.countP P) : ∀ x ∈ l.take k, P x = true := by
  induction l generalizing k with
  | nil => simp
  | cons a t ih =>
    unfold PrefixP at hl
    rw [List.pairwise_cons] at hl
    obtain ⟨ha, ht⟩ := hl
    cases k with
    | zero => simp
    | succ k =>
      cases hPa : P a with
      | true =>
        rw [List.countP_cons_of_pos (by simpa using hPa)] at hk
        intro x hx
        rw [List.take_succ_cons] at hx
        rcases List.mem_cons.mp hx with rfl | hx
        · exact hPa
        · exact ih ht k (by omega) x hx
      | false =>
        have hz : t.countP P = 0 := by
          rw [List.countP_eq_zero]
          intro b hb hPb
          have := ha b hb hPb
          simp [hPa] at this
        rw [List.countP_cons_of_neg (by simp [hPa]), hz] at hk
        omega

theorem prefix_drop {P : Nat → Bool} (l : List Nat) (hl : PrefixP P l) (k : Nat)
    (hk : l.countP P ≤ k) : ∀ x ∈ l.drop k, P x = false := by
  induction l generalizing k with
  | nil => simp
  | cons a t ih =>
    unfold PrefixP at hl
    rw [List.pairwise_cons] at hl
    obtain ⟨ha, ht⟩ := hl
    cases hPa : P a with
    | true =>
      rw [List.countP_cons_of_pos (by simpa using hPa)] at hk
      cases k with
      | zero => omega
      | succ k =>
        intro x hx
        rw [List.drop_succ_cons] at hx
        exact ih ht k (by omega) x hx
    | false =>
      have hall : ∀ b ∈ t, P b = false := by
        intro b hb
        cases hPb : P b with
        | false => rfl
        | true => have := ha b hb hPb; simp [hPa] at this
      intro x hx
      rcases List.mem_cons.mp (List.mem_of_mem_drop hx) with rfl | hx
      · exact hPa
      · exact hall x hx

/-- the first `k` sorted indices all lie in a lower set with at least `k` members -/
theorem sortIdx_take_mem {key : Nat → SortKey} {P : Nat → Bool} (hP : LowerSet key P) (n k : Nat)
    (hk : k ≤ (List.range n).countP P) : ∀ x ∈ (sortIdx key n).take k, P x = true := by
  apply prefix_take _ (sortIdx_prefix hP n)
  rw [(sortIdx_perm key n).countP_eq]; exact hk

/-- the sorted indices from position `k` on avoid a lower set with at most `k` members -/
theorem sortIdx_drop_mem {key : Nat → SortKey} {P : Nat → Bool} (hP : LowerSet key P) (n k : Nat)
    (hk : (List.range n).countP P ≤ k) : ∀ x ∈ (sortIdx key n).drop k, P x = false := by
  apply prefix_drop _ (sortIdx_prefix hP n)
  rw [(sortIdx_perm key n).countP_eq]; exact hk

/-- an index below `n` that is not among the first `k` sorted ones is among the rest -/
theorem mem_drop_of_not_take (key : Nat → SortKey) (n k i : Nat) (hi : i < n)
    (hni : i ∉ (sortIdx key n).take k) : i ∈ (sortIdx key n).drop k := by
  have h : i ∈ (sortIdx key n).take k ++ (sortIdx key n).drop k := by
    rw [List.take_append_drop]; exact (mem_sortIdx key n i).mpr hi
  rcases List.mem_append.mp h with h | h
  · exact absurd h hni
  · exact h

theorem not_take_of_mem_drop (key : Nat → SortKey) (n k i : Nat)
    (hd : i ∈ (sortIdx key n).drop k) : i ∉ (sortIdx key n).take k := by
  have hnd := sortIdx_nodup key n
  rw [← List.take_append_drop k (sortIdx key n)] at hnd
  intro ht
  exact (List.nodup_append.mp hnd).2.2 i ht i hd rfl

/-! ### indexing helpers -/

theorem map_range_getElem! {α β : Type} [Inhabited α] (l : List α) (F : α → β) :
    (List.range l.length).map (fun i => F l[i]!) = l.map F := by
  apply List.ext_getElem
  · simp
  · intro i h1 h2
    simp only [List.length_map, List.length_range] at h1
    simp [h1]

theorem countP_range_getElem! {α : Type} [Inhabited α] (l : List α) (q : α → Bool) :
    (List.range l.length).countP (fun i => q l[i]!) = l.countP q := by
  have := congrArg (List.countP id) (map_range_getElem! l q)
  simpa [List.countP_map, Function.comp_def] using this

theorem sum_map_le {α : Type} (l : List α) (f g : α → Nat) (h : ∀ x ∈ l, f x ≤ g x) :
    (l.map f).sum ≤ (l.map g).sum := by
  induction l with
  | nil => simp
  | cons a t ih =>
    simp only [List.map_cons, List.sum_cons]
    have := h a (by simp)
    have := ih (fun x hx => h x (by simp [hx]))
    omega

/-! ### `swapped` -/

theorem swapped_fst (k : Nat) (idx : List Nat) (dissats sats : List Sat) :
    (swapped k idx dissats sats).1 =
      (List.range dissats.length).map fun i =>
        if (idx.take k).contains i then sats[i]! else dissats[i]! := rfl

theorem swapped_snd (k : Nat) (idx : List Nat) (dissats sats : List Sat) :
    (swapped k idx dissats sats).2 =
      (List.range dissats.length).map fun i =>
        if (idx.take k).contains i then dissats[i]! else sats[i]! := rfl

theorem swapped_snd_get (k : Nat) (idx : List Nat) (dissats sats : List Sat) (j : Nat)
    (hj : j < dissats.length) :
    (swapped k idx dissats sats).2[j]! =
      if (idx.take k).contains j then dissats[j]! else sats[j]! := by
  rw [swapped_snd]
  rw [getElem!_pos _ j (by simpa using hj)]
  simp

/-- every entry of the selection is a satisfaction of a chosen child or a dissatisfaction of a
non-chosen child -/
theorem swapped_fst_mem (k : Nat) (idx : List Nat) (dissats sats : List Sat) (s : Sat)
    (hs : s ∈ (swapped k idx dissats sats).1) :
    ∃ i, i < dissats.length ∧
      ((i ∈ idx.take k ∧ s = sats[i]!) ∨ (i ∉ idx.take k ∧ s = dissats[i]!)) := by
  rw [swapped_fst, List.mem_map] at hs
  obtain ⟨i, hi, rfl⟩ := hs
  refine ⟨i, List.mem_range.mp hi, ?_⟩
  by_cases hc : (idx.take k).contains i = true
  · left; exact ⟨by simpa using hc, by rw [if_pos hc]⟩
  · right; exact ⟨by simpa using hc, by rw [if_neg hc]⟩

end MsVerif.Complete

/-
Lemmas for C20 at descriptor level: `Descriptor::translate_pk` with a pure mapping, the script
of a key-substituted descriptor, `Descriptor::iter_pk`.
-/
import MsVerif.Lemmas.TranslateEncode
import MsVerif.Model.TranslateDesc

set_option linter.unusedSimpArgs false

namespace MsVerif.TranslateDesc
open MsVerif MsVerif.Desc MsVerif.TreeWalk MsVerif.TranslateLemmas MsVerif.TranslateEncode

variable {σ ε : Type}

/-! ### pure mappings -/

theorem outC_map {α β : Type} (a : Bool) (v : α) (k : α → β) :
    k <$> (outC a v : TrM σ ε α) = outC a (k v) := by
  cases a <;> simp [outC]

theorem translatePk_pure (f : Key → Key) (g : HashKind → Nat → Nat) (chk : Ms → Bool) (ms : Ms) :
    translatePk (pureT (σ := σ) (ε := ε) f g) chk ms
      = outC ((ms.mapKeys f g).pre.all chk) (ms.mapKeys f g) := by
  rw [translatePk_eq, trRtl_pure]; rfl

theorem translateKey_pure (f : Key → Key) (g : HashKind → Nat → Nat) (ok : Key → Bool) (k : Key) :
    translateKey (pureT (σ := σ) (ε := ε) f g) ok k = outC (ok (f k)) (f k) := by
  simp [translateKey, pureT, outC]

theorem translateLeaves_pure (f : Key → Key) (g : HashKind → Nat → Nat) (chk : Ms → Bool) :
    (ls : List (Nat × Ms)) →
    translateLeaves (pureT (σ := σ) (ε := ε) f g) chk ls
      = outC (ls.all fun l => (l.2.mapKeys f g).pre.all chk) (ls.map fun l => (l.1, l.2.mapKeys f g))
  | [] => by simp [translateLeaves, outC]
  | (d, m) :: ls => by
    simp only [translateLeaves, translatePk_pure, translateLeaves_pure f g chk ls]
    rw [show (fun m' => (outC (ls.all fun l => (l.2.mapKeys f g).pre.all chk)
            (ls.map fun l => (l.1, l.2.mapKeys f g)) : TrM σ ε (List (Nat × Ms))) >>=
          fun ls' => pure ((d, m') :: ls'))
        = fun m' => outC (ls.all fun l => (l.2.mapKeys f g).pre.all chk)
            ((d, m') :: ls.map fun l => (l.1, l.2.mapKeys f g)) from
          funext fun m' => outC_bind_pure _ _ _]
    rw [outC_bind]
    apply outC_congr
    simp [List.all_cons]

theorem descTranslate_pure (f : Key → Key) (g : HashKind → Nat → Nat) (chk : Ctx → Ms → Bool)
    (keyOk : Ctx → Key → Bool) (d : Desc) :
    descTranslate (pureT (σ := σ) (ε := ε) f g) chk keyOk d
      = outC ((d.mapKeys f g).legal chk keyOk) (d.mapKeys f g) := by
  cases d with
  | sh inner =>
    cases inner <;>
      simp [descTranslate, Desc.mapKeys, Desc.legal, translatePk_pure, translateKey_pure, outC_bind_pure, outC_map]
  | tr ik leaves =>
    simp only [descTranslate, translateLeaves_pure, translateKey_pure, Desc.mapKeys, Desc.legal]
    rw [show (fun ls => (outC (keyOk Ctx.tap (f ik)) (f ik) : TrM σ ε Key) >>= fun ik' => pure (Desc.tr ik' ls))
        = fun ls => outC (keyOk Ctx.tap (f ik)) (Desc.tr (f ik) ls) from
          funext fun ls => outC_bind_pure _ _ _]
    rw [outC_bind]
    apply outC_congr
    simp [List.all_map, Function.comp_def]
  | _ => simp [descTranslate, Desc.mapKeys, Desc.legal, translatePk_pure, translateKey_pure, outC_bind_pure, outC_map]

/-! ### scripts -/

/-- the byte-level parameters seen through a mapping -/
def Params.comap (P : Params) (f : Key → Key) (g : HashKind → Nat → Nat) : Params where
  H := P.H
  env := KeyEnv.comap P.env f g
  trOutputKey ik ls := P.trOutputKey (f ik) ls

theorem scriptPubkey_mapKeys (P : Params) (f : Key → Key) (g : HashKind → Nat → Nat) (d : Desc) :
    (d.mapKeys f g).scriptPubkey P = d.scriptPubkey (Params.comap P f g) := by
  cases d with
  | sh inner =>
    cases inner <;>
      simp [Desc.mapKeys, Desc.scriptPubkey, shScriptPubkey, wshScriptPubkey, wshInnerScript,
        wpkhScriptPubkey, wpkhAddress, encodeBytes_mapKeys', Params.comap, KeyEnv.comap]
  | tr ik leaves =>
    simp [Desc.mapKeys, Desc.scriptPubkey, trScriptPubkey, trLeafScripts, Params.comap,
      encodeBytes_mapKeys', Function.comp_def]
  | _ =>
    simp [Desc.mapKeys, Desc.scriptPubkey, bareScriptPubkey, pkhScriptPubkey, pkhAddress,
      wpkhScriptPubkey, wpkhAddress, wshScriptPubkey, wshInnerScript, encodeBytes_mapKeys',
      Params.comap, KeyEnv.comap]
where
  encodeBytes_mapKeys' (env : KeyEnv) (ctx : Ctx) (f : Key → Key) (g : HashKind → Nat → Nat) (ms : Ms) :
      encodeBytes env ctx (ms.mapKeys f g) = encodeBytes (KeyEnv.comap env f g) ctx ms := by
    unfold encodeBytes; rw [encode_mapKeys]

/-- the leaf scripts of a `tr` descriptor -/
theorem leafScripts_mapKeys (P : Params) (f : Key → Key) (g : HashKind → Nat → Nat) (leaves : List (Nat × Ms)) :
    trLeafScripts P (leaves.map fun l => (l.1, l.2.mapKeys f g))
      = trLeafScripts (Params.comap P f g) leaves := by
  simp [trLeafScripts, Params.comap, Function.comp_def, scriptPubkey_mapKeys.encodeBytes_mapKeys']

/-! ### keys -/

theorem keysPrinted_mapKeys (f : Key → Key) (g : HashKind → Nat → Nat) (d : Desc) :
    (d.mapKeys f g).keysPrinted = d.keysPrinted.map f := by
  cases d with
  | sh inner => cases inner <;> simp [Desc.mapKeys, Desc.keysPrinted, Ms.keys, keysPre_mapKeys]
  | tr ik leaves =>
    simp only [Desc.mapKeys, Desc.keysPrinted, List.map_cons, List.cons.injEq, true_and]
    induction leaves with
    | nil => rfl
    | cons l ls ih =>
      simp only [Ms.keys] at ih
      simp [List.flatMap_cons, Ms.keys, keysPre_mapKeys, ih]
  | _ => simp [Desc.mapKeys, Desc.keysPrinted, Ms.keys, keysPre_mapKeys]

/-! ### `for_each_key` -/

theorem forEachKey_eq (pred : Key → Bool) (ms : Ms) : forEachKey pred ms = allVisit pred ms.keys := by
  unfold forEachKey Ms.keys
  rw [preOrder_eq_pre, forEachKeyLoop_eq]

theorem trLeavesForEach_eq (pred : Key → Bool) : (ls : List (Nat × Ms)) →
    trLeavesForEach pred ls = allVisit pred (ls.flatMap fun l => l.2.keys)
  | [] => rfl
  | (d, m) :: ls => by
    simp only [trLeavesForEach, forEachKey_eq, List.flatMap_cons, allVisit_append,
      trLeavesForEach_eq pred ls]

theorem allVisit_single (pred : Key → Bool) (k : Key) : allVisit pred [k] = ([k], pred k) := by
  cases h : pred k <;> simp [allVisit, h]

theorem descForEachKey_eq (pred : Key → Bool) (d : Desc) :
    descForEachKey pred d = allVisit pred d.keysForEach := by
  cases d with
  | sh inner => cases inner <;> simp [descForEachKey, Desc.keysForEach, forEachKey_eq, allVisit_single]
  | tr ik leaves =>
    simp only [descForEachKey, Desc.keysForEach, trLeavesForEach_eq, allVisit_append, allVisit_single]
  | _ => simp [descForEachKey, Desc.keysForEach, forEachKey_eq, allVisit_single]

/-! ### `iter_pk` -/

theorem optNext_none (o : Option (List Key)) (h : optNext o = none) : o.getD [] = [] := by
  cases o with
  | none => rfl
  | some l => cases l <;> simp [optNext] at h ⊢

theorem optNext_some (o it : Option (List Key)) (k : Key) (h : optNext o = some (k, it)) :
    o.getD [] = k :: it.getD [] := by
  cases o with
  | none => simp [optNext] at h
  | some l =>
    cases l with
    | nil => simp [optNext] at h
    | cons x xs => simp [optNext] at h; obtain ⟨rfl, rfl⟩ := h; rfl

def leafKeys (ls : List (Nat × Ms)) : List Key := ls.flatMap fun l => l.2.iterPkLit

theorem tapLoop_none : ∀ (it : Option (List Key)) (ls : List (Nat × Ms)),
    tapLoop it ls = none → it.getD [] ++ leafKeys ls = []
  | it, [], h => by
    simp only [tapLoop] at h
    cases hn : optNext it with
    | none => simp [optNext_none it hn, leafKeys]
    | some r => simp [hn] at h
  | it, (d, m) :: rest, h => by
    simp only [tapLoop] at h
    cases hn : optNext it with
    | none =>
      simp only [hn] at h
      have := tapLoop_none (some m.iterPkLit) rest h
      simp only [Option.getD_some] at this
      simp [optNext_none it hn, leafKeys, List.flatMap_cons] at this ⊢
      exact this
    | some r => simp [hn] at h

theorem tapLoop_some : ∀ (it : Option (List Key)) (ls : List (Nat × Ms)) (k : Key)
    (it' : Option (List Key)) (rest : List (Nat × Ms)),
    tapLoop it ls = some (k, it', rest) → it.getD [] ++ leafKeys ls = k :: (it'.getD [] ++ leafKeys rest)
  | it, [], k, it', rest, h => by
    simp only [tapLoop] at h
    cases hn : optNext it with
    | none => simp [hn] at h
    | some r =>
      obtain ⟨k0, it0⟩ := r
      simp only [hn, Option.some.injEq, Prod.mk.injEq] at h
      obtain ⟨rfl, rfl, rfl⟩ := h
      simp [optNext_some it _ _ hn, leafKeys]
  | it, (d, m) :: ls, k, it', rest, h => by
    simp only [tapLoop] at h
    cases hn : optNext it with
    | none =>
      simp only [hn] at h
      have := tapLoop_some (some m.iterPkLit) ls k it' rest h
      simp only [Option.getD_some] at this
      simp [optNext_none it hn, leafKeys, List.flatMap_cons] at this ⊢
      exact this
    | some r =>
      obtain ⟨k0, it0⟩ := r
      simp only [hn, Option.some.injEq, Prod.mk.injEq] at h
      obtain ⟨rfl, rfl, rfl⟩ := h
      simp [optNext_some it _ _ hn]

/-- what a `PkIter` state still has to yield -/
def remaining (s : DPkIter) : List Key :=
  s.singleKey.toList ++ (s.msTaproot.getD [] ++ leafKeys (s.taptreeIter.getD []))
    ++ s.msBare.getD [] ++ s.msLegacy.getD [] ++ s.msSegwit.getD []

theorem next_spec (s : DPkIter) :
    (match DPkIter.next s with
     | none => remaining s = []
     | some (k, s') => remaining s = k :: remaining s') := by
  obtain ⟨sk, tt, mb, ml, msg, mt⟩ := s
  cases sk with
  | some k => simp [DPkIter.next, remaining]
  | none =>
    simp only [DPkIter.next, remaining, Option.toList_none, List.nil_append]
    cases tt with
    | some leaves =>
      simp only [Option.getD_some]
      cases ht : tapLoop mt leaves with
      | some r =>
        obtain ⟨k, it, rest⟩ := r
        simp [tapLoop_some mt leaves k it rest ht]
      | none =>
        have h0 := tapLoop_none mt leaves ht
        simp only [h0, List.nil_append]
        cases hb : optNext mb with
        | some r => obtain ⟨k, it⟩ := r; simp [optNext_some mb it k hb, h0]
        | none =>
          simp only [optNext_none mb hb, List.nil_append]
          cases hl : optNext ml with
          | some r => obtain ⟨k, it⟩ := r; simp [optNext_some ml it k hl, h0, optNext_none mb hb]
          | none =>
            simp only [optNext_none ml hl, List.nil_append]
            cases hs : optNext msg with
            | some r =>
              obtain ⟨k, it⟩ := r
              simp [optNext_some msg it k hs, h0, optNext_none mb hb, optNext_none ml hl]
            | none => simp [optNext_none msg hs]
    | none =>
      simp only [Option.getD_none, leafKeys, List.flatMap_nil, List.append_nil]
      cases ht : optNext mt with
      | some r => obtain ⟨k, it⟩ := r; simp [optNext_some mt it k ht, leafKeys]
      | none =>
        simp only [optNext_none mt ht, List.nil_append]
        cases hb : optNext mb with
        | some r => obtain ⟨k, it⟩ := r; simp [optNext_some mb it k hb, optNext_none mt ht, leafKeys]
        | none =>
          simp only [optNext_none mb hb, List.nil_append]
          cases hl : optNext ml with
          | some r =>
            obtain ⟨k, it⟩ := r
            simp [optNext_some ml it k hl, optNext_none mt ht, optNext_none mb hb, leafKeys]
          | none =>
            simp only [optNext_none ml hl, List.nil_append]
            cases hs : optNext msg with
            | some r =>
              obtain ⟨k, it⟩ := r
              simp [optNext_some msg it k hs, optNext_none mt ht, optNext_none mb hb,
                optNext_none ml hl, leafKeys]
            | none => simp [optNext_none msg hs]

theorem collect_eq : ∀ (fuel : Nat) (s : DPkIter),
    iterCollect DPkIter.next fuel s = (remaining s).take fuel := by
  intro fuel
  induction fuel with
  | zero => intro s; simp [iterCollect]
  | succ n ih =>
    intro s
    have h := next_spec s
    simp only [iterCollect]
    cases hn : DPkIter.next s with
    | none => simp only [hn] at h; simp [h]
    | some r =>
      obtain ⟨k, s'⟩ := r
      simp only [hn] at h
      simp [h, ih s', List.take_succ_cons]

theorem bound_eq (s : DPkIter) : s.bound = (remaining s).length := by
  obtain ⟨sk, tt, mb, ml, msg, mt⟩ := s
  cases sk <;> simp [DPkIter.bound, remaining, leafKeys, List.length_flatMap] <;> omega

theorem iterPk_eq (d : Desc) : d.iterPk = d.keysPrinted := by
  unfold Desc.iterPk
  rw [collect_eq, bound_eq, List.take_length]
  cases d with
  | sh inner =>
    cases inner <;> simp [Desc.iterPkInit, remaining, Desc.keysPrinted, leafKeys, TranslateEncode.iterPk_eq]
  | tr ik leaves =>
    simp [Desc.iterPkInit, remaining, Desc.keysPrinted, leafKeys, TranslateEncode.iterPk_eq]
  | _ => simp [Desc.iterPkInit, remaining, Desc.keysPrinted, leafKeys, TranslateEncode.iterPk_eq]

end MsVerif.TranslateDesc

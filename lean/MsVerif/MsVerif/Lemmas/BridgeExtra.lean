/-
Bridge theorem, part 8: discharging the "no oversized push" side condition for realistic key
environments (`KeyEnv.Small` ⇒ `bigPush (encode ke ctx ms) = false`), and the concrete values
used by the examples / counterexample in `Thm/Bridge.lean`.

Core Lean only.
-/
import MsVerif.Lemmas.BridgeMain

namespace MsVerif.Bridge
open MsVerif MsVerif.Script

set_option linter.unusedSimpArgs false

/-- every byte string the key environment can put into a script fits into one stack element
(real keys are 32/33/65 bytes, hashes 20/32 bytes) -/
def KeyEnv.Small (ke : KeyEnv) : Prop :=
  (∀ k, (ke.ser k).length ≤ 520) ∧ (∀ k, (ke.pkh k).length ≤ 520) ∧
  (∀ h, (ke.rawPkh h).length ≤ 520) ∧ (∀ kind h, (ke.hashVal kind h).length ≤ 520)

theorem leBytes_length (fuel n : Nat) : (leBytes fuel n).length ≤ fuel := by
  induction fuel generalizing n with
  | zero => simp [leBytes]
  | succ f ih =>
    unfold leBytes
    split
    · simp
    · simp only [List.length_cons]; have := ih (n / 256); omega

theorem numEncode_length (v : Int) : (numEncode v).length ≤ 10 := by
  unfold numEncode
  have h9 := leBytes_length 9 v.natAbs
  split
  · simp
  · dsimp only
    split
    · simp
    · split
      · simp only [List.length_append, List.length_cons, List.length_nil]; omega
      · split
        · simp only [List.length_append, List.length_dropLast, List.length_cons, List.length_nil]; omega
        · omega

theorem bigPush_single_push (bs : Bytes) (h : bs.length ≤ 520) (ops : List Op) :
    bigPush (.push bs :: ops) = bigPush ops := by
  rw [bigPush_cons]
  have : decide (bs.length > 520) = false := by simp; omega
  simp only [this, Bool.false_or]

theorem bigPush_code (o : Opc) (ops : List Op) : bigPush (.code o :: ops) = bigPush ops := by
  rw [bigPush_cons]; rfl

theorem bigPush_small (n : Nat) (ops : List Op) : bigPush (.small n :: ops) = bigPush ops := by
  rw [bigPush_cons]; rfl

theorem bigPush_pushInt (n : Nat) (ops : List Op) : bigPush (pushInt n :: ops) = bigPush ops := by
  unfold pushInt
  split
  · exact bigPush_small n ops
  · exact bigPush_single_push _ (by have := numEncode_length (Int.ofNat n); omega) ops

theorem bigPush_pushes (ke : KeyEnv) (hs : KeyEnv.Small ke) (ks : List Key) :
    bigPush (ks.map (fun pk => Op.push (ke.ser pk))) = false := by
  induction ks with
  | nil => rfl
  | cons k ks ih => rw [List.map_cons, bigPush_single_push _ (hs.1 k)]; exact ih

theorem bigPush_multiA (ke : KeyEnv) (hs : KeyEnv.Small ke) (ks : List Key) :
    bigPush (encodeMultiA ke ks) = false := by
  cases ks with
  | nil => rfl
  | cons k ks =>
    simp only [encodeMultiA, List.cons_append, List.nil_append]
    rw [bigPush_single_push _ (hs.1 k), bigPush_code]
    induction ks with
    | nil => rfl
    | cons k' ks ih =>
      simp only [List.flatMap_cons, List.cons_append, List.nil_append]
      rw [bigPush_single_push _ (hs.1 k'), bigPush_code]; exact ih

mutual
theorem encode_noBigPush (ke : KeyEnv) (ctx : Ctx) (hs : KeyEnv.Small ke) :
    (ms : Ms) → bigPush (encode ke ctx ms) = false
  | .pkK k => by rw [encode, bigPush_single_push _ (hs.1 k)]; rfl
  | .pkH k => by
    rw [encode, bigPush_code, bigPush_code, bigPush_single_push _ (hs.2.1 k)]; rfl
  | .rawPkH h => by
    rw [encode, bigPush_code, bigPush_code, bigPush_single_push _ (hs.2.2.1 h)]; rfl
  | .after n => by rw [encode, bigPush_pushInt]; rfl
  | .older n => by rw [encode, bigPush_pushInt]; rfl
  | .hash kind h => by
    rw [encode, bigPush_code, bigPush_pushInt, bigPush_code, bigPush_code,
      bigPush_single_push _ (hs.2.2.2 kind h)]; rfl
  | .tru => rfl
  | .fls => rfl
  | .alt x => by
    have hx := encode_noBigPush ke ctx hs x
    simp only [encode, bigPush_append, bigPush_code, bigPush_nil, hx, Bool.or_false]
  | .swap x => by
    have hx := encode_noBigPush ke ctx hs x
    simp only [encode, bigPush_append, bigPush_code, bigPush_nil, hx, Bool.or_false]
  | .check x => by
    have hx := encode_noBigPush ke ctx hs x
    simp only [encode, bigPush_append, bigPush_code, bigPush_nil, hx, Bool.or_false]
  | .dupIf x => by
    have hx := encode_noBigPush ke ctx hs x
    simp only [encode, bigPush_append, bigPush_code, bigPush_nil, hx, Bool.or_false]
  | .verify x => by
    have hx := encode_noBigPush ke ctx hs x
    simp only [encode, bigPush_pushVerify, hx]
  | .nonZero x => by
    have hx := encode_noBigPush ke ctx hs x
    simp only [encode, bigPush_append, bigPush_code, bigPush_nil, hx, Bool.or_false]
  | .zeroNotEqual x => by
    have hx := encode_noBigPush ke ctx hs x
    simp only [encode, bigPush_append, bigPush_code, bigPush_nil, hx, Bool.or_false]
  | .andV l r => by
    have hl := encode_noBigPush ke ctx hs l
    have hr := encode_noBigPush ke ctx hs r
    simp only [encode, bigPush_append, bigPush_code, bigPush_nil, hl, hr, Bool.or_false]
  | .andB l r => by
    have hl := encode_noBigPush ke ctx hs l
    have hr := encode_noBigPush ke ctx hs r
    simp only [encode, bigPush_append, bigPush_code, bigPush_nil, hl, hr, Bool.or_false]
  | .andOr a b z => by
    have ha := encode_noBigPush ke ctx hs a
    have hb := encode_noBigPush ke ctx hs b
    have hz := encode_noBigPush ke ctx hs z
    simp only [encode, bigPush_append, bigPush_code, bigPush_nil, ha, hb, hz, Bool.or_false]
  | .orB l r => by
    have hl := encode_noBigPush ke ctx hs l
    have hr := encode_noBigPush ke ctx hs r
    simp only [encode, bigPush_append, bigPush_code, bigPush_nil, hl, hr, Bool.or_false]
  | .orD l r => by
    have hl := encode_noBigPush ke ctx hs l
    have hr := encode_noBigPush ke ctx hs r
    simp only [encode, bigPush_append, bigPush_code, bigPush_nil, hl, hr, Bool.or_false]
  | .orC l r => by
    have hl := encode_noBigPush ke ctx hs l
    have hr := encode_noBigPush ke ctx hs r
    simp only [encode, bigPush_append, bigPush_code, bigPush_nil, hl, hr, Bool.or_false]
  | .orI l r => by
    have hl := encode_noBigPush ke ctx hs l
    have hr := encode_noBigPush ke ctx hs r
    simp only [encode, bigPush_append, bigPush_code, bigPush_nil, hl, hr, Bool.or_false]
  | .thresh k xs => by
    have hxs := encodeThresh_noBigPush ke ctx hs true xs
    simp only [encode, bigPush_append, bigPush_pushInt, bigPush_code, bigPush_nil, hxs, Bool.or_false]
  | .multi k ks => by
    simp only [encode, bigPush_append, bigPush_pushInt, bigPush_code, bigPush_nil,
      bigPush_pushes ke hs, Bool.or_false]
  | .sortedMulti k ks => by
    simp only [encode, bigPush_append, bigPush_pushInt, bigPush_code, bigPush_nil,
      bigPush_pushes ke hs, Bool.or_false]
  | .multiA k ks => by
    simp only [encode, bigPush_append, bigPush_pushInt, bigPush_code, bigPush_nil,
      bigPush_multiA ke hs, Bool.or_false]
  | .sortedMultiA k ks => by
    simp only [encode, bigPush_append, bigPush_pushInt, bigPush_code, bigPush_nil,
      bigPush_multiA ke hs, Bool.or_false]
theorem encodeThresh_noBigPush (ke : KeyEnv) (ctx : Ctx) (hs : KeyEnv.Small ke) (first : Bool) :
    (xs : MsList) → bigPush (encodeThresh ke ctx first xs) = false
  | .nil => rfl
  | .cons x xs => by
    have hx := encode_noBigPush ke ctx hs x
    have hxs := encodeThresh_noBigPush ke ctx hs false xs
    cases first <;>
      simp only [encodeThresh, bigPush_append, bigPush_code, bigPush_nil, hx, hxs, Bool.or_false,
        if_true, Bool.false_eq_true, if_false]
end

/-! ### concrete values for examples -/

/-- decidable equality of `Except` results, for `decide` on concrete runs -/
@[instance_reducible] def decEqExcept {ε α} [DecidableEq ε] [DecidableEq α] : DecidableEq (Except ε α)
  | .ok a, .ok b => if h : a = b then isTrue (by rw [h]) else isFalse (by intro h'; cases h'; exact h rfl)
  | .error a, .error b => if h : a = b then isTrue (by rw [h]) else isFalse (by intro h'; cases h'; exact h rfl)
  | .ok _, .error _ => isFalse (by intro h; cases h)
  | .error _, .ok _ => isFalse (by intro h; cases h)

/-- P2WSH-like flags with selectable limits; every signature is valid, hashes are the identity -/
def exEnv (opLimit stackLimits : Bool) : Env :=
  ⟨⟨false, true, true, true, true, opLimit, stackLimits⟩, fun _ _ => true, fun _ b => b, 0, 0, 2⟩

/-- key 1 serialises to 521 bytes (not a real key), every other key to 33 bytes -/
def exKe : KeyEnv :=
  ⟨fun k => if k = 1 then List.replicate 521 0 else List.replicate 33 2,
   fun _ => List.replicate 33 2, fun _ => List.replicate 20 0, fun _ => List.replicate 20 0,
   fun _ _ => List.replicate 32 0⟩

/-- all keys 33 bytes -/
def exKeSmall : KeyEnv :=
  ⟨fun _ => List.replicate 33 2, fun _ => List.replicate 33 2, fun _ => List.replicate 20 0,
   fun _ => List.replicate 20 0, fun _ _ => List.replicate 32 0⟩

theorem exKeSmall_small : KeyEnv.Small exKeSmall := by
  refine ⟨?_, ?_, ?_, ?_⟩ <;> intros <;> simp [exKeSmall]

/-- `or_i(and_v(c:pk_k(0),pk_k(1)),1)`: the IF branch contains a counted opcode followed by
the oversized push of key 1 -/
def exMsBad : Ms := .orI (.andV (.check (.pkK 0)) (.pkK 1)) .tru

/-- `or_i(and_v(v:pk(0),older(5)),and_v(v:hash160(0),pk(2)))` -/
def exMs : Ms :=
  .orI (.andV (.verify (.check (.pkK 0))) (.older 5))
       (.andV (.verify (.hash .hash160 0)) (.check (.pkK 2)))

end MsVerif.Bridge

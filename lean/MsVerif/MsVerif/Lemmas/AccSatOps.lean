/-
C02 T2 helper lemmas, part 1: what the ENVIRONMENT may accept (`EnvOK`), the signature / hash /
lock opcodes read backwards under it, the multisig loops, and the static fact "a fragment typed
`d` (without raw pkh) has a table dissatisfaction".  Limits off.  Core Lean only.
-/
import MsVerif.Lemmas.TypeSoundSignedThm
import MsVerif.Lemmas.TypeSoundForced
import MsVerif.Spec.SatTable
import MsVerif.Lemmas.CompleteFixed

set_option linter.unusedSimpArgs false

namespace MsVerif.AccSat
open MsVerif MsVerif.Script MsVerif.TypeSound MsVerif.SatTable

def hashOpOf : HashKind → HashOp
  | .sha256 => .sha256 | .hash256 => .hash256 | .ripemd160 => .ripemd160 | .hash160 => .hash160

/-- The caller's assets `av` bound what the transaction environment `env` accepts:
* unforgeability — a signature that verifies for (the serialisation of) a key of the script, or
  for any key bytes whose HASH160 is a `pk_h` commitment of the script, is one the caller holds;
* preimage resistance — a 32-byte string hashing to a committed value is a preimage the caller
  knows;
* the transaction's nLockTime / nSequence satisfy exactly the locks the caller declares. -/
structure EnvOK (env : Env) (ke : KeyEnv) (av : Avail) : Prop where
  sigK : ∀ k s, env.sigOk (ke.ser k) s = true → av.sig k = true
  sigH : ∀ k p s, env.hash .hash160 p = ke.pkh k → env.sigOk p s = true → av.sig k = true
  pre : ∀ kind h x, x.length = 32 → env.hash (hashOpOf kind) x = ke.hashVal kind h →
    av.preimage kind h = true
  after : ∀ n, checkLockTime env n = true → av.after n = true
  older : ∀ n, checkSequence env n = true → av.older n = true

/-! ### small facts -/

theorem leBytes_nil {f m : Nat} (h : leBytes (f + 1) m = []) : m = 0 := by
  unfold leBytes at h
  split at h
  · assumption
  · cases h

/-- `OP_SIZE <32> OP_EQUALVERIFY`: only a length of exactly 32 encodes like `pushInt 32` (for
EVERY length, no size bound) -/
theorem numEncode_eq32 {n : Nat} (h : numEncode (n : Int) = intBytes 32) : n = 32 := by
  have h32 : intBytes 32 = [32] := by decide
  rw [h32] at h
  unfold numEncode at h
  by_cases hn : n = 0
  · subst hn; simp at h
  · have hn' : ¬ (n : Int) = 0 := by omega
    simp only [hn', if_false, Int.natAbs_natCast] at h
    have hneg : ¬ ((n : Int) < 0) := by omega
    have hmag : leBytes 9 n = UInt8.ofNat (n % 256) :: leBytes 8 (n / 256) := by
      rw [leBytes]; simp [hn]
    rw [hmag] at h
    cases hrest : leBytes 8 (n / 256) with
    | nil =>
      have hq := leBytes_nil hrest
      rw [hrest] at h
      simp only [List.getLast?_singleton, hneg, decide_false] at h
      split at h
      · simp at h
      · simp only [Bool.false_eq_true, if_false, List.cons.injEq, and_true] at h
        have := congrArg UInt8.toNat h
        simp at this
        omega
    | cons b bs =>
      rw [hrest] at h
      have hlen : ∀ l : Bytes, l.length ≥ 2 → l ≠ [32] := by
        intro l hl he; rw [he] at hl; simp at hl
      exfalso
      cases hl : (UInt8.ofNat (n % 256) :: b :: bs).getLast? with
      | none => simp at hl
      | some last =>
        simp only [hl, hneg, decide_false, Bool.false_eq_true, if_false] at h
        split at h
        · exact hlen _ (by simp) h
        · exact hlen _ (by simp) h

theorem insertByKey_perm (ke : KeyEnv) (k : Key) (l : List Key) : (insertByKey ke k l).Perm (k :: l) := by
  induction l with
  | nil => exact List.Perm.refl _
  | cons x xs ih =>
    unfold insertByKey
    split
    · exact (List.Perm.cons x ih).trans (List.Perm.swap k x xs)
    · exact List.Perm.refl _

theorem sortKeys_perm (ke : KeyEnv) (ks : List Key) : (sortKeys ke ks).Perm ks := by
  unfold sortKeys
  have : ∀ (l acc : List Key), (l.foldl (fun acc k => insertByKey ke k acc) acc).Perm (l ++ acc) := by
    intro l
    induction l with
    | nil => intro acc; exact List.Perm.refl _
    | cons x t ih =>
      intro acc
      simp only [List.foldl_cons, List.cons_append]
      exact (ih _).trans ((List.Perm.append_left t (insertByKey_perm ke x acc)).trans List.perm_middle)
  simpa using this ks []

theorem sortKeys_filter (ke : KeyEnv) (ks : List Key) (p : Key → Bool) :
    ((sortKeys ke ks).filter p).length = (ks.filter p).length :=
  ((sortKeys_perm ke ks).filter p).length_eq

theorem countCanSat_le (av : Avail) (xs : MsList) : countCanSat av xs ≤ xs.length := by
  rw [Complete.countCanSat_eq, ← MsList.length_toList]
  exact List.countP_le_length

/-! ### signature opcodes -/

theorem checkSig_true {env : Env} {sg pk : Bytes} (h : checkSig env sg pk = .ok true) :
    env.sigOk pk sg = true := by
  unfold checkSig at h
  split at h
  · cases h
  · split at h
    · cases h
    · split at h
      · assumption
      · split at h <;> cases h

/-- a true result of `OP_CHECKSIG`: the two top elements were a key and a signature that verifies -/
theorem checksig_true {env : Env} {c c' : Core} (h : opc env .checksig c = .ok c')
    {v : Bytes} {r : List Bytes} (hs : c'.stack = v :: r) (hv : castToBool v = true) :
    ∃ pk sg r', c.stack = pk :: sg :: r' ∧ env.sigOk pk sg = true := by
  obtain ⟨pk, sg, r', b, e1, e2, e3⟩ := checksig_ok' h
  rw [e3] at hs
  simp only [List.cons.injEq] at hs
  cases b with
  | false => rw [← hs.1] at hv; simp [boolBytes, castToBool] at hv
  | true => exact ⟨pk, sg, r', e1, checkSig_true e2⟩

/-! ### numbers -/

theorem raw_intBytes {n : Nat} (hn : n < 2 ^ 31) : numDecodeRaw (intBytes n) = (n : Int) := by
  by_cases h16 : n ≤ 16
  · have : ∀ (j : Fin 17), numDecodeRaw (intBytes j.val) = Int.ofNat j.val := by decide
    exact this ⟨n, by omega⟩
  · unfold intBytes
    simp only [h16, if_false]
    have hlen : (leBytes 9 n).length < 9 := by
      have := leBytes_length_le 9 n 4 (by omega); omega
    exact raw_roundtrip hlen

/-- whatever size limit / minimality rule applies: if `pushInt n` decodes, it decodes to `n` -/
theorem decode_any_intBytes {flag : Bool} {mx n : Nat} {z : Int} (hn : n < 2 ^ 31)
    (h : numDecode flag mx (intBytes n) = some z) : z = (n : Int) := by
  unfold numDecode at h
  split at h
  · cases h
  · split at h
    · cases h
    · simp only [Option.some.injEq] at h
      rw [← h]; exact raw_intBytes hn

/-! ### locks -/

theorem cltv_true {env : Env} {c c' : Core} {n : Nat} {r : List Bytes} (hn : n < 2 ^ 31)
    (hs : c.stack = intBytes n :: r) (h : opc env .cltv c = .ok c') : checkLockTime env n = true := by
  obtain ⟨c1, hs1, _, h⟩ := opc_ok h
  obtain ⟨s, al, ops⟩ := c1
  simp only at hs1
  rw [hs] at hs1
  subst hs1
  simp only [execOpc] at h
  split at h
  · cases h
  · rename_i v hv
    have := decode_any_intBytes hn hv
    subst this
    split at h
    · cases h
    · split at h
      · rename_i hc; simpa using hc
      · cases h

theorem csv_true {env : Env} {c c' : Core} {n : Nat} {r : List Bytes} (hn : n < 2 ^ 31)
    (hs : c.stack = intBytes n :: r) (h : opc env .csv c = .ok c') : checkSequence env n = true := by
  obtain ⟨c1, hs1, _, h⟩ := opc_ok h
  obtain ⟨s, al, ops⟩ := c1
  simp only at hs1
  rw [hs] at hs1
  subst hs1
  simp only [execOpc] at h
  split at h
  · cases h
  · rename_i v hv
    have := decode_any_intBytes hn hv
    subst this
    split at h
    · cases h
    · split at h
      · rename_i hd
        exfalso
        have : (n / SEQ_DISABLE) % 2 = 0 := by
          have : n / SEQ_DISABLE = 0 := by unfold SEQ_DISABLE; omega
          rw [this]
        simp [Int.toNat_natCast, this] at hd
      · split at h
        · rename_i hc; simpa using hc
        · cases h

/-! ### hashes -/

theorem hashop_val {env : Env} {k : HashKind} {c c' : Core} (h : opc env (hashOpc k) c = .ok c') :
    ∃ a r, c.stack = a :: r ∧ c'.stack = env.hash (hashOpOf k) a :: r := by
  obtain ⟨c1, hs, ha, h⟩ := opc_ok h
  obtain ⟨s, al, ops⟩ := c1
  match s, h with
  | [], h => cases k <;> simp [execOpc, hashOpc] at h
  | a :: r, h =>
    cases k <;> simp only [execOpc, hashOpc] at h <;>
    · have := pushElem_ok h
      exact ⟨a, r, hs.symm, this.1⟩

theorem equal_true {env : Env} {c c' : Core} (h : opc env .equal c = .ok c')
    {v : Bytes} {r : List Bytes} (hs : c'.stack = v :: r) (hv : castToBool v = true) :
    ∃ a r', c.stack = a :: a :: r' := by
  obtain ⟨a, b, r', e1, e2⟩ := equal_ok' h
  rw [e2] at hs
  simp only [List.cons.injEq] at hs
  by_cases hab : a = b
  · subst hab; exact ⟨a, r', e1⟩
  · have : (a == b) = false := by simpa using hab
    rw [this] at hs
    rw [← hs.1] at hv
    simp [boolBytes, castToBool] at hv

/-! ### the multi family -/

section
variable {env : Env} {ke : KeyEnv} {av : Avail}

/-- CHECKMULTISIG's matching loop succeeds only if every signature is matched by its own key,
keys in order: at least as many keys with an available signature as there are signatures -/
theorem multisigLoop_true (henv : EnvOK env ke av) :
    ∀ (kl : List Key) (sigs : List Bytes), multisigLoop env sigs (kl.map ke.ser) = .ok true →
      sigs.length ≤ (kl.filter av.sig).length
  | _, [], _ => by simp
  | [], _ :: _, h => by
    unfold multisigLoop at h
    simp at h
  | k :: kl, sg :: sigs, h => by
    rw [List.map_cons] at h
    unfold multisigLoop at h
    split at h
    · cases h
    · split at h
      · cases h
      · dsimp only at h
        split at h
        · rename_i hok
          simp only [Bool.and_eq_true] at hok
          have hk := henv.sigK k sg hok.2
          have := multisigLoop_true henv kl sigs h
          simp only [List.filter_cons, hk, if_true, List.length_cons]
          omega
        · have := multisigLoop_true henv kl (sg :: sigs) h
          simp only [List.length_cons] at this ⊢
          have hle : (kl.filter av.sig).length ≤ ((k :: kl).filter av.sig).length := by
            simp only [List.filter_cons]; split <;> simp
          omega

/-- `multi` / `sortedmulti` leaving a true value: at least `k` of the keys have an available
signature -/
theorem multi_true (henv : EnvOK env ke av) (k : Nat) (hk2 : k < 2 ^ 31) (kl : List Key)
    (hkl : kl.length ≤ 20) {c c' : Core}
    (h : seqOps env ([pushInt k] ++ kl.map (fun pk => Op.push (ke.ser pk)) ++ [pushInt kl.length, .code .checkmultisig]) c
      = .ok c') {v : Bytes} {rr : List Bytes} (hst : c'.stack = v :: rr) (hv : castToBool v = true) :
    k ≤ (kl.filter av.sig).length := by
  obtain ⟨c2, h12, h3⟩ := seqOps_append_ok h
  obtain ⟨c1, h1, h2⟩ := seqOps_cons_ok (show seqOps env (pushInt k :: kl.map (fun pk => Op.push (ke.ser pk)))
    c = .ok c2 from h12)
  obtain ⟨hs1, _⟩ := pushInt_ok h1
  have hmm : kl.map (fun pk => Op.push (ke.ser pk)) = (kl.map ke.ser).map Op.push := by
    rw [List.map_map]; rfl
  rw [hmm] at h2
  obtain ⟨hs2, _⟩ := seqOps_pushes_ok _ h2
  obtain ⟨c3, h4, h5⟩ := seqOps_cons_ok h3
  obtain ⟨hs3, _⟩ := pushInt_ok h4
  obtain ⟨c4, h6, h7⟩ := seqOps_cons_ok h5
  cases seqOps_nil_ok h7
  obtain ⟨c3', hs, _, h6⟩ := opc_ok (show opc env .checkmultisig c3 = .ok c' from h6)
  rw [execOpc_cms] at h6
  obtain ⟨nB, r, nI, mB, r1, mI, r2, b, e1, e2, _, e4, e5, e6, e7, e8, e9⟩ := multisig_ok' h6
  rw [hs, hs3, hs2, hs1] at e1
  simp only [List.cons.injEq] at e1
  obtain ⟨rfl, rfl⟩ := e1
  have hdec := decode_intBytes env.flags.minimalNum ⟨kl.length, by omega⟩
  simp only at hdec
  rw [hdec] at e2
  cases e2
  have hlen : ((kl.map ke.ser).reverse).length = kl.length := by simp
  rw [show (Int.ofNat kl.length).toNat = ((kl.map ke.ser).reverse).length from by rw [hlen]; rfl,
    List.drop_left] at e4
  simp only [List.cons.injEq] at e4
  obtain ⟨rfl, rfl⟩ := e4
  have hmk := decode_any_intBytes hk2 e5
  subst hmk
  rw [show (Int.ofNat kl.length).toNat = ((kl.map ke.ser).reverse).length from by rw [hlen]; rfl,
    List.take_left] at e7
  -- the result is true
  rw [e8] at hst
  simp only [List.cons.injEq] at hst
  have hb : b = true := by
    cases b
    · rw [← hst.1] at hv; simp [boolBytes, castToBool] at hv
    · rfl
  subst hb
  rw [← List.map_reverse] at e7
  have := multisigLoop_true henv kl.reverse _ e7
  rw [List.filter_reverse, List.length_reverse, List.length_take] at this
  simp only [Int.toNat_natCast] at this e9
  omega

/-- the `<pk> OP_CHECKSIGADD` repetitions add at most the number of keys with an available
signature to the counter -/
theorem csa_loop_sound (henv : EnvOK env ke av) (ks : List Key) {c c' : Core}
    (h : seqOps env (ks.flatMap fun pk => [Op.push (ke.ser pk), .code .checksigadd]) c = .ok c')
    {cnt : Bytes} {tl : List Bytes} (hs : c.stack = cnt :: tl) {x : Int} (hx : num4 env cnt = .ok x)
    (hx0 : 0 ≤ x) :
    (c'.stack = c.stack) ∨
    (∃ (t : Int) (r : List Bytes), 0 ≤ t ∧ t ≤ ((ks.filter av.sig).length : Int) ∧
      c'.stack = numEncode (x + t) :: r) := by
  induction ks generalizing c cnt tl x with
  | nil => rw [List.flatMap_nil] at h; cases seqOps_nil_ok h; exact Or.inl rfl
  | cons k ks ih =>
    rw [List.flatMap_cons] at h
    obtain ⟨c1, h1, h2⟩ := seqOps_cons_ok (show seqOps env (Op.push (ke.ser k) :: .code .checksigadd ::
      ks.flatMap fun pk => [Op.push (ke.ser pk), .code .checksigadd]) c = .ok c' from h)
    obtain ⟨c2, h3, h4⟩ := seqOps_cons_ok h2
    obtain ⟨hs1, _⟩ := pushData_ok h1
    obtain ⟨pk, n, sg, r, v, b, e1, e2, e3, e4⟩ := checksigadd_ok' h3
    rw [hs1, hs] at e1
    simp only [List.cons.injEq] at e1
    obtain ⟨rfl, rfl, _⟩ := e1
    rw [hx] at e2
    cases e2
    -- this key's contribution
    have hd : ∃ d : Int, (if b then 1 else 0 : Int) = d ∧ 0 ≤ d ∧
        d ≤ (((k :: ks).filter av.sig).length : Int) - ((ks.filter av.sig).length : Int) := by
      cases b with
      | false =>
        refine ⟨0, rfl, by omega, ?_⟩
        simp only [List.filter_cons]; split <;> simp <;> omega
      | true =>
        have hk := henv.sigK k sg (checkSig_true e3)
        refine ⟨1, rfl, by omega, ?_⟩
        simp only [List.filter_cons, hk, if_true, List.length_cons]; push_cast; omega
    obtain ⟨d, hd1, hd0, hdle⟩ := hd
    rw [hd1] at e4
    have hcast : x + d = ((x + d).toNat : Int) := by omega
    have hx' : ∀ y, num4 env (numEncode (x + d)) = .ok y → y = x + d := by
      intro y hy
      rw [hcast] at hy
      have := decode_encode_nat (num4_ok hy)
      omega
    right
    -- the counter after this step decodes (the next opcode decodes it) or the loop is over
    cases ks with
    | nil =>
      rw [List.flatMap_nil] at h4
      cases seqOps_nil_ok h4
      exact ⟨d, r, hd0, by simpa using hdle, e4⟩
    | cons k2 ks2 =>
      -- the next CHECKSIGADD decodes the counter
      have hnext : ∃ y, num4 env (numEncode (x + d)) = .ok y := by
        rw [List.flatMap_cons] at h4
        obtain ⟨c3, g1, g2⟩ := seqOps_cons_ok (show seqOps env (Op.push (ke.ser k2) :: .code .checksigadd ::
          ks2.flatMap fun pk => [Op.push (ke.ser pk), .code .checksigadd]) c2 = .ok c' from h4)
        obtain ⟨c4, g3, _⟩ := seqOps_cons_ok g2
        obtain ⟨gs1, _⟩ := pushData_ok g1
        obtain ⟨pk', n', sg', r', v', b', f1, f2, _, _⟩ := checksigadd_ok' g3
        rw [gs1, e4] at f1
        simp only [List.cons.injEq] at f1
        obtain ⟨_, rfl, _⟩ := f1
        exact ⟨v', f2⟩
      obtain ⟨y, hy⟩ := hnext
      have hyv := hx' y hy
      subst hyv
      rcases ih h4 e4 hy (by omega) with hsame | ⟨t, r', ht0, htle, eT⟩
      · exact ⟨d, r, hd0, by omega, by rw [hsame, e4]⟩
      · exact ⟨d + t, r', by omega, by omega, by rw [eT, Int.add_assoc]⟩

/-- `multi_a` / `sortedmulti_a` leaving a true value: at least `k` keys have an available signature -/
theorem multiA_true (henv : EnvOK env ke av) (k : Nat) (hk2 : k < 2 ^ 31) (kl : List Key)
    (hkl : 1 ≤ kl.length) {c c' : Core}
    (h : seqOps env (encodeMultiA ke kl ++ [pushInt k, .code .numequal]) c = .ok c')
    {v : Bytes} {rr : List Bytes} (hst : c'.stack = v :: rr) (hv : castToBool v = true) :
    k ≤ (kl.filter av.sig).length := by
  obtain ⟨c2, h1, h2⟩ := seqOps_append_ok h
  obtain ⟨c3, h3, h4⟩ := seqOps_cons_ok h2
  obtain ⟨hs3, _⟩ := pushInt_ok h3
  obtain ⟨c4, h5, h6⟩ := seqOps_cons_ok h4
  cases seqOps_nil_ok h6
  obtain ⟨a, b, r, x, y, e1, hx, hy, e2⟩ := numequal_ok' h5
  rw [hs3] at e1
  simp only [List.cons.injEq] at e1
  obtain ⟨rfl, e1⟩ := e1
  have hxk := decode_any_intBytes hk2 (num4_ok hx)
  subst hxk
  -- the comparison is true
  rw [e2] at hst
  simp only [List.cons.injEq] at hst
  have hxy : (k : Int) = y := by
    by_cases hh : ((k : Int) == y) = true
    · simpa using hh
    · have : ((k : Int) == y) = false := by simpa using hh
      rw [this] at hst
      rw [← hst.1] at hv
      simp [boolBytes, castToBool] at hv
  match kl, hkl with
  | k0 :: ks, _ =>
    simp only [encodeMultiA] at h1
    obtain ⟨c5, h7, h8⟩ := seqOps_cons_ok (show seqOps env (Op.push (ke.ser k0) :: .code .checksig ::
      ks.flatMap fun pk => [Op.push (ke.ser pk), .code .checksigadd]) c = .ok c2 from h1)
    obtain ⟨c6, h9, h10⟩ := seqOps_cons_ok h8
    obtain ⟨hs5, _⟩ := pushData_ok h7
    obtain ⟨pk, sg, r', b0, f1, f2, f3⟩ := checksig_ok' h9
    rw [hs5] at f1
    simp only [List.cons.injEq] at f1
    obtain ⟨rfl, _⟩ := f1
    -- the first key's contribution
    have h0 : ∃ x0 : Int, num4 env (boolBytes b0) = .ok x0 → True := ⟨0, fun _ => trivial⟩
    have hb0 : b0 = true → av.sig k0 = true := fun hb => by
      subst hb; exact henv.sigK k0 sg (checkSig_true f2)
    have hdec0 : ∀ z, num4 env (boolBytes b0) = .ok z → z = (if b0 then 1 else 0 : Int) := by
      intro z hz
      cases b0
      · exact num4_nil hz
      · exact num4_one hz
    have hfirst : (if b0 then 1 else 0 : Int) + ((ks.filter av.sig).length : Int)
        ≤ (((k0 :: ks).filter av.sig).length : Int) := by
      cases b0 with
      | false =>
        have hle : (ks.filter av.sig).length ≤ ((k0 :: ks).filter av.sig).length := by
          simp only [List.filter_cons]; split <;> simp
        simp only [Bool.false_eq_true, if_false]; omega
      | true =>
        simp only [List.filter_cons, hb0 rfl, if_true, List.length_cons]; push_cast; omega
    -- run the loop
    cases ks with
    | nil =>
      rw [List.flatMap_nil] at h10
      cases seqOps_nil_ok h10
      rw [f3] at e1
      simp only [List.cons.injEq] at e1
      obtain ⟨rfl, _⟩ := e1
      have := hdec0 y hy
      have hle : (k : Int) ≤ (((k0 :: ([] : List Key)).filter av.sig).length : Int) := by
        simp only [List.filter_nil, List.length_nil] at hfirst
        omega
      exact_mod_cast hle
    | cons k2 ks2 =>
      -- the first CHECKSIGADD decodes the counter
      have hnext : ∃ z, num4 env (boolBytes b0) = .ok z := by
        rw [List.flatMap_cons] at h10
        obtain ⟨c7, g1, g2⟩ := seqOps_cons_ok (show seqOps env (Op.push (ke.ser k2) :: .code .checksigadd ::
          ks2.flatMap fun pk => [Op.push (ke.ser pk), .code .checksigadd]) c6 = .ok c2 from h10)
        obtain ⟨c8, g3, _⟩ := seqOps_cons_ok g2
        obtain ⟨gs1, _⟩ := pushData_ok g1
        obtain ⟨pk', n', sg', r'', v', b', q1, q2, _, _⟩ := checksigadd_ok' g3
        rw [gs1, f3] at q1
        simp only [List.cons.injEq] at q1
        obtain ⟨_, rfl, _⟩ := q1
        exact ⟨v', q2⟩
      obtain ⟨z, hz⟩ := hnext
      have hzv := hdec0 z hz
      have hz0 : 0 ≤ z := by rw [hzv]; split <;> omega
      rcases csa_loop_sound henv (k2 :: ks2) h10 f3 hz hz0 with hsame | ⟨t, r2, ht0, htle, eT⟩
      · rw [hsame, f3] at e1
        simp only [List.cons.injEq] at e1
        obtain ⟨rfl, _⟩ := e1
        have := hdec0 y hy
        have hle : (k : Int) ≤ (((k0 :: k2 :: ks2).filter av.sig).length : Int) := by omega
        exact_mod_cast hle
      · rw [eT] at e1
        simp only [List.cons.injEq] at e1
        obtain ⟨rfl, _⟩ := e1
        have hcast : z + t = ((z + t).toNat : Int) := by omega
        rw [hcast] at hy
        have := decode_encode_nat (num4_ok hy)
        have hle : (k : Int) ≤ (((k0 :: k2 :: ks2).filter av.sig).length : Int) := by omega
        exact_mod_cast hle

end

/-! ### a `d`-typed fragment (no raw pkh) has a table dissatisfaction — statically -/

theorem orB_d {a b y : Corr} (e : Corr.orB a b = some y) : a.dissat = true ∧ b.dissat = true := by
  obtain ⟨ab, ai, ad, au⟩ := a
  obtain ⟨bb, bi, bd, bu⟩ := b
  cases ad <;> cases bd <;> simp [Corr.orB] at e ⊢

open Complete in
mutual
theorem dsat_of_d (av : Avail) : (ms : Ms) → ∀ (τ : Ty), typeOf ms = some τ → τ.corr.dissat = true →
    allNodes isNotRawPkH ms = true → dsatEx av ms = true
  | .tru, τ, h, hd, _ | .after _, τ, h, hd, _ | .older _, τ, h, hd, _ => by
    simp only [typeOf] at h; cases h
    simp [Ty.TRUE, Ty.time, Corr.TRUE, Corr.time] at hd
  | .fls, _, _, _, _ | .pkK _, _, _, _, _ | .pkH _, _, _, _, _ | .hash _ _, _, _, _, _
  | .multi _ _, _, _, _, _ | .sortedMulti _ _, _, _, _, _ | .multiA _ _, _, _, _, _
  | .sortedMultiA _ _, _, _, _, _ => by simp only [dsatEx]
  | .rawPkH _, _, _, _, hP => by simp [allNodes, subterms, isNotRawPkH] at hP
  | .alt x, τ, h, hd, hP => by
    simp only [typeOf] at h
    obtain ⟨a, hx, h⟩ := typeOf_un h
    obtain ⟨_, hy⟩ := castAlt_inv (lift1_corr h)
    rw [hy] at hd
    simp only [allNodes, subterms, List.all_cons, Bool.and_eq_true] at hP
    simp only [dsatEx]; exact dsat_of_d av x a hx hd hP.2
  | .swap x, τ, h, hd, hP => by
    simp only [typeOf] at h
    obtain ⟨a, hx, h⟩ := typeOf_un h
    obtain ⟨_, _, hy⟩ := castSwap_inv (lift1_corr h)
    rw [hy] at hd
    simp only [allNodes, subterms, List.all_cons, Bool.and_eq_true] at hP
    simp only [dsatEx]; exact dsat_of_d av x a hx hd hP.2
  | .check x, τ, h, hd, hP => by
    simp only [typeOf] at h
    obtain ⟨a, hx, h⟩ := typeOf_un h
    obtain ⟨_, hy⟩ := castCheck_inv (lift1_corr h)
    rw [hy] at hd
    simp only [allNodes, subterms, List.all_cons, Bool.and_eq_true] at hP
    simp only [dsatEx]; exact dsat_of_d av x a hx hd hP.2
  | .zeroNotEqual x, τ, h, hd, hP => by
    simp only [typeOf] at h
    obtain ⟨a, hx, h⟩ := typeOf_un h
    obtain ⟨_, hy⟩ := castZeroNotEqual_inv (lift1_corr h)
    rw [hy] at hd
    simp only [allNodes, subterms, List.all_cons, Bool.and_eq_true] at hP
    simp only [dsatEx]; exact dsat_of_d av x a hx hd hP.2
  | .dupIf _, _, _, _, _ | .nonZero _, _, _, _, _ => by simp only [dsatEx]
  | .verify x, τ, h, hd, _ => by
    simp only [typeOf] at h
    obtain ⟨a, _, h⟩ := typeOf_un h
    obtain ⟨_, hy⟩ := castVerify_inv (lift1_corr h)
    rw [hy] at hd; cases hd
  | .andV l r, τ, h, hd, _ => by
    simp only [typeOf] at h
    obtain ⟨a, b, _, _, h⟩ := typeOf_bin h
    obtain ⟨_, _, hy⟩ := andV_inv (lift2_corr h)
    rw [hy] at hd; cases hd
  | .andB l r, τ, h, hd, hP => by
    simp only [typeOf] at h
    obtain ⟨a, b, hl, hr, h⟩ := typeOf_bin h
    obtain ⟨_, _, hy⟩ := andB_inv (lift2_corr h)
    rw [hy] at hd
    simp only [Bool.and_eq_true] at hd
    simp only [allNodes, subterms, List.all_cons, List.all_append, Bool.and_eq_true] at hP
    simp only [dsatEx, Bool.and_eq_true]
    exact ⟨dsat_of_d av l a hl hd.1 hP.2.1, dsat_of_d av r b hr hd.2 hP.2.2⟩
  | .orB l r, τ, h, _, hP => by
    simp only [typeOf] at h
    obtain ⟨a, b, hl, hr, h⟩ := typeOf_bin h
    obtain ⟨da, db⟩ := orB_d (lift2_corr h)
    simp only [allNodes, subterms, List.all_cons, List.all_append, Bool.and_eq_true] at hP
    simp only [dsatEx, Bool.and_eq_true]
    exact ⟨dsat_of_d av l a hl da hP.2.1, dsat_of_d av r b hr db hP.2.2⟩
  | .orD l r, τ, h, hd, hP => by
    simp only [typeOf] at h
    obtain ⟨a, b, hl, hr, h⟩ := typeOf_bin h
    obtain ⟨_, _, _, da, hy⟩ := orD_inv (lift2_corr h)
    rw [hy] at hd
    simp only [allNodes, subterms, List.all_cons, List.all_append, Bool.and_eq_true] at hP
    simp only [dsatEx, Bool.and_eq_true]
    exact ⟨dsat_of_d av l a hl da hP.2.1, dsat_of_d av r b hr hd hP.2.2⟩
  | .orC l r, τ, h, hd, _ => by
    simp only [typeOf] at h
    obtain ⟨a, b, _, _, h⟩ := typeOf_bin h
    obtain ⟨_, _, _, _, hy⟩ := orC_inv (lift2_corr h)
    rw [hy] at hd; cases hd
  | .orI l r, τ, h, hd, hP => by
    simp only [typeOf] at h
    obtain ⟨a, b, hl, hr, h⟩ := typeOf_bin h
    obtain ⟨_, _, hy⟩ := orI_inv (lift2_corr h)
    rw [hy] at hd
    simp only [Bool.or_eq_true] at hd
    simp only [allNodes, subterms, List.all_cons, List.all_append, Bool.and_eq_true] at hP
    simp only [dsatEx, Bool.or_eq_true]
    rcases hd with hd | hd
    · exact .inl (dsat_of_d av l a hl hd hP.2.1)
    · exact .inr (dsat_of_d av r b hr hd hP.2.2)
  | .andOr x y z, τ, h, hd, hP => by
    obtain ⟨a, b, cc, hx, _, hz, h'⟩ := typeOf_andOr h
    obtain ⟨_, _, da, _, _, hy⟩ := andOr_inv (andOr_corr h')
    rw [hy] at hd
    simp only [allNodes, subterms, List.all_cons, List.all_append, Bool.and_eq_true] at hP
    simp only [dsatEx, Bool.and_eq_true]
    exact ⟨dsat_of_d av x a hx da hP.2.1.1, dsat_of_d av z cc hz hd hP.2.2⟩
  | .thresh k xs, τ, h, _, hP => by
    obtain ⟨ts, hts, h'⟩ := typeOf_thresh h
    obtain ⟨n, hloop, _⟩ := threshold_inv (threshold_corr h')
    simp only [allNodes, subterms, List.all_cons, Bool.and_eq_true] at hP
    simp only [dsatEx]
    exact dsat_of_dL av xs ts hts 0 0 n hloop hP.2
theorem dsat_of_dL (av : Avail) : (xs : MsList) → ∀ (ts : List Ty), typesOf xs = some ts →
    ∀ (i acc n : Nat), Corr.threshLoop i acc (ts.map (·.corr)) = some n →
      allNodesL isNotRawPkH xs = true → allDsatEx av xs = true
  | .nil, _, _, _, _, _, _, _ => by simp only [allDsatEx]
  | .cons x xs, ts, hts, i, acc, n, hloop, hP => by
    obtain ⟨t0, ts', hx, hxs, rfl⟩ := typesOf_cons hts
    simp only [List.map_cons] at hloop
    obtain ⟨_, _, _, hd0, htail⟩ := threshLoop_cons hloop
    rw [allNodesL_cons, Bool.and_eq_true] at hP
    simp only [allDsatEx, Bool.and_eq_true]
    exact ⟨dsat_of_d av x t0 hx hd0 hP.1, dsat_of_dL av xs ts' hxs _ _ n htail hP.2⟩
end

end MsVerif.AccSat

/-
C03 (uniqueness), part 1: keys of a script, the map from the satisfier's placeholders to the
specification table's items, and the invariant "every placeholder of a returned stack satisfies
`Q`" for predicates `Q` that hold of all non-signature placeholders — instantiated with
"a signature placeholder names a key of the script".
-/
import MsVerif.Lemmas.MalleLattice
import MsVerif.Lemmas.CompleteNonMall
import MsVerif.Spec.SatAll

namespace MsVerif.Uniq
open MsVerif Sat SatTable MalleLattice

/-- placeholder ↦ table item -/
def phItem : Ph → Item
  | .pubkey k _ => .key k
  | .pubkeyHash h _ => .rawKey h
  | .ecdsaSig k | .schnorrSig k _ => .sig k
  | .ecdsaSigPkh h | .schnorrSigPkh h _ => .rawSig h
  | .preimage kind h => .pre kind h
  | .hashDissat => .zero32
  | .pushOne => .one
  | .pushZero => .empty

/-- a witness as table items -/
def items (w : List Ph) : List Item := w.map phItem

@[simp] theorem items_nil : items [] = [] := rfl
@[simp] theorem items_append (a b : List Ph) : items (a ++ b) = items a ++ items b := by
  simp [items]
@[simp] theorem items_cons (p : Ph) (w : List Ph) : items (p :: w) = phItem p :: items w := rfl

mutual
/-- the keys of a script, in `iter_pk` order -/
def keysOf : Ms → List Key
  | .pkK k | .pkH k => [k]
  | .multi _ ks | .sortedMulti _ ks | .multiA _ ks | .sortedMultiA _ ks => ks
  | .alt x | .swap x | .check x | .dupIf x | .verify x | .nonZero x | .zeroNotEqual x => keysOf x
  | .andV l r | .andB l r | .orB l r | .orD l r | .orC l r | .orI l r => keysOf l ++ keysOf r
  | .andOr a b c => keysOf a ++ (keysOf b ++ keysOf c)
  | .thresh _ xs => keysOfL xs
  | _ => []
def keysOfL : MsList → List Key
  | .nil => []
  | .cons x xs => keysOf x ++ keysOfL xs
end

theorem keysOfL_mem {x : Ms} : (xs : MsList) → x ∈ xs.toList → ∀ k ∈ keysOf x, k ∈ keysOfL xs
  | .nil, h => by simp [MsList.toList] at h
  | .cons y ys, h => by
    intro k hk
    simp only [MsList.toList, List.mem_cons] at h
    simp only [keysOfL, List.mem_append]
    rcases h with rfl | h
    · exact .inl hk
    · exact .inr (keysOfL_mem ys h k hk)

/-! ### stacks whose placeholders all satisfy `Q` -/

def StackQ (Q : Ph → Prop) (s : Sat) : Prop := ∀ l, s.stack = .stack l → ∀ p ∈ l, Q p

theorem stackQ_mono {Q R : Ph → Prop} (h : ∀ p, Q p → R p) {s : Sat} (hs : StackQ Q s) : StackQ R s :=
  fun l hl p hp => h p (hs l hl p hp)

theorem stackQ_notStack {Q : Ph → Prop} {s : Sat} (h : ∀ l, s.stack ≠ .stack l) : StackQ Q s :=
  fun l hl => absurd hl (h l)

theorem stackQ_IMPOSSIBLE (Q : Ph → Prop) : StackQ Q Sat.IMPOSSIBLE := stackQ_notStack (fun _ h => by cases h)
theorem stackQ_UNAVAILABLE (Q : Ph → Prop) : StackQ Q Sat.UNAVAILABLE := stackQ_notStack (fun _ h => by cases h)

theorem stackQ_lit {Q : Ph → Prop} (l : List Ph) (h : ∀ p ∈ l, Q p) (b : Bool) (a r : Option Nat) :
    StackQ Q ⟨.stack l, b, a, r⟩ := by
  intro l' hl; cases hl; exact h

theorem stackQ_default (Q : Ph → Prop) : StackQ Q (default : Sat) := by
  show StackQ Q ⟨.stack [], false, none, none⟩
  exact stackQ_lit [] (fun _ h => by cases h) _ _ _

theorem stackQ_concatenateRev {Q : Ph → Prop} {s o : Sat} (hs : StackQ Q s) (ho : StackQ Q o) :
    StackQ Q (s.concatenateRev o) := by
  rcases concatenateRev_cases s o with e | ⟨abs, rel, e⟩
  · rw [e]; exact stackQ_IMPOSSIBLE Q
  · rw [e]
    intro l hl p hp
    simp only at hl
    obtain ⟨lo, ls, ho', hs', rfl⟩ := combine_stack hl
    rcases List.mem_append.mp hp with h | h
    · exact ho lo ho' p h
    · exact hs ls hs' p h

theorem stackQ_foldl {Q : Ph → Prop} (l : List Sat) (init : Sat) (hi : StackQ Q init)
    (hl : ∀ s ∈ l, StackQ Q s) : StackQ Q (l.foldl Sat.concatenateRev init) := by
  induction l generalizing init with
  | nil => exact hi
  | cons x xs ih =>
    simp only [List.foldl_cons]
    exact ih _ (stackQ_concatenateRev hi (hl x (by simp))) (fun s hs => hl s (by simp [hs]))

theorem stackQ_foldConcat {Q : Ph → Prop} (l : List Sat) (hl : ∀ s ∈ l, StackQ Q s) :
    StackQ Q (foldConcat l) :=
  stackQ_foldl l _ (stackQ_lit [] (fun _ h => by cases h) _ _ _) hl

theorem stackQ_minimum {Q : Ph → Prop} {s1 s2 : Sat} (h1 : StackQ Q s1) (h2 : StackQ Q s2) :
    StackQ Q (minimum s1 s2) := by
  rcases minimum_cases s1 s2 with ⟨_, e⟩ | ⟨_, _, e⟩ | ⟨_, _, h⟩
  · rw [e]; exact h2
  · rw [e]; exact h1
  · rcases h with ⟨_, _, e⟩ | ⟨_, _, e⟩ | ⟨_, _, e⟩ | ⟨_, _, e | e⟩ <;> rw [e]
    · exact stackQ_UNAVAILABLE Q
    · exact fun l hl => h1 l hl
    · exact fun l hl => h2 l hl
    · exact fun l hl => h1 l hl
    · exact fun l hl => h2 l hl

theorem stackQ_withStack {Q : Ph → Prop} {s : Sat} (h : StackQ Q s) (extra : List Ph)
    (he : ∀ p ∈ extra, Q p) :
    StackQ Q { s with stack := Wit.combine s.stack (.stack extra) } := by
  intro l hl p hp
  simp only at hl
  obtain ⟨la, lb, h1, h2, rfl⟩ := combine_stack hl
  cases h2
  rcases List.mem_append.mp hp with h' | h'
  · exact h la h1 p h'
  · exact he p h'

theorem stackQ_getElem! {Q : Ph → Prop} (l : List Sat) (h : ∀ s ∈ l, StackQ Q s) (i : Nat) :
    StackQ Q l[i]! := by
  by_cases hi : i < l.length
  · rw [getElem!_pos l i hi]; exact h _ (List.getElem_mem hi)
  · rw [getElem!_neg l i hi]; exact stackQ_default Q

theorem stackQ_swapped {Q : Ph → Prop} (k : Nat) (idx : List Nat) (dissats sats : List Sat)
    (hd : ∀ s ∈ dissats, StackQ Q s) (hs : ∀ s ∈ sats, StackQ Q s) :
    ∀ s ∈ (swapped k idx dissats sats).1, StackQ Q s := by
  intro s hmem
  simp only [swapped, List.mem_map] at hmem
  obtain ⟨i, _, rfl⟩ := hmem
  split
  · exact stackQ_getElem! sats hs i
  · exact stackQ_getElem! dissats hd i

theorem stackQ_threshNonMall {Q : Ph → Prop} (k : Nat) (dissats sats : List Sat)
    (hd : ∀ s ∈ dissats, StackQ Q s) (hs : ∀ s ∈ sats, StackQ Q s) :
    StackQ Q (threshNonMall k dissats sats) := by
  rcases threshNonMall_cases k dissats sats with e | e | ⟨idx, e⟩ <;> rw [e]
  · exact stackQ_IMPOSSIBLE Q
  · exact stackQ_UNAVAILABLE Q
  · exact stackQ_foldConcat _ (stackQ_swapped k idx dissats sats hd hs)

/-! ### leaves -/

theorem sigWit_item (ctx : Ctx) (a : Assets) (k : Key) :
    sigWit ctx a k = .impossible ∨ ∃ p, phItem p = .sig k ∧ sigWit ctx a k = .stack [p] := by
  unfold sigWit
  split
  · split
    · exact .inr ⟨_, rfl, rfl⟩
    · exact .inl rfl
  · split
    · exact .inr ⟨_, rfl, rfl⟩
    · exact .inl rfl

/-- `Q` holds of everything that is not a signature-for-a-key placeholder -/
def QBase (Q : Ph → Prop) : Prop := ∀ p, (∀ k, phItem p ≠ .sig k) → Q p

/-- every placeholder of every entry satisfies `Q` -/
def EntriesQ (Q : Ph → Prop) (l : List (List Ph)) : Prop := ∀ e ∈ l, ∀ p ∈ e, Q p

theorem entriesQ_set {Q : Ph → Prop} {l : List (List Ph)} (h : EntriesQ Q l) (i : Nat) (e : List Ph)
    (he : ∀ p ∈ e, Q p) : EntriesQ Q (l.set i e) := by
  intro x hx
  rcases List.mem_or_eq_of_mem_set hx with h' | h'
  · exact h x h'
  · rw [h']; exact he

theorem entriesQ_dropMostExpensive {Q : Ph → Prop} (n : Nat) (l : List (List Ph)) (h : EntriesQ Q l) :
    EntriesQ Q (dropMostExpensive n l) := by
  induction n generalizing l with
  | zero => exact h
  | succ m ih => simp only [dropMostExpensive]; exact ih _ (entriesQ_set h _ [] (fun _ hp => by cases hp))

theorem entriesQ_flatten {Q : Ph → Prop} {l : List (List Ph)} (h : EntriesQ Q l) :
    ∀ p ∈ l.flatten, Q p := by
  intro p hp
  obtain ⟨e, he, hpe⟩ := List.mem_flatten.mp hp
  exact h e he p hpe

theorem stackQ_multiSD {Q : Ph → Prop} (hb : QBase Q) (ctx : Ctx) (a : Assets) (k : Nat) (ks : List Key)
    (hk : ∀ x ∈ ks, ∀ p, phItem p = .sig x → Q p) :
    StackQ Q (multiSD ctx a k ks).sat ∧ StackQ Q (multiSD ctx a k ks).dissat := by
  have hz : Q .pushZero := hb _ (fun _ h => by cases h)
  unfold multiSD
  simp only
  have hdis : StackQ Q ⟨.stack (List.replicate (k + 1) Ph.pushZero), false, none, none⟩ :=
    stackQ_lit _ (fun p hp => by rw [List.eq_of_mem_replicate hp]; exact hz) _ _ _
  split
  · exact ⟨stackQ_IMPOSSIBLE Q, hdis⟩
  · refine ⟨?_, hdis⟩
    intro l hl p hp
    simp only at hl
    rw [foldl_combine_stack] at hl
    cases hl
    rcases List.mem_append.mp hp with h | h
    · simp only [List.mem_singleton] at h; rw [h]; exact hz
    · refine entriesQ_flatten (entriesQ_dropMostExpensive _ _ ?_) p h
      intro e he q hq
      obtain ⟨x, hx, hxe⟩ := List.mem_filterMap.mp he
      rcases sigWit_item ctx a x with hw | ⟨p', hp', hw⟩
      · simp only [hw] at hxe; cases hxe
      · simp only [hw, Option.some.injEq] at hxe
        subst hxe
        simp only [List.mem_singleton] at hq
        subst hq
        exact hk x hx _ hp'

theorem entriesQ_multiALoop {Q : Ph → Prop} (ctx : Ctx) (a : Assets) (k : Nat) (all : List Key)
    (hk : ∀ x ∈ all, ∀ p, phItem p = .sig x → Q p) (ks : List Key) (hsub : ∀ x ∈ ks, x ∈ all)
    (i cnt : Nat) (sigs : List (List Ph)) (h : EntriesQ Q sigs) :
    EntriesQ Q (multiALoop ctx a k ks i cnt sigs).2 := by
  induction ks generalizing i cnt sigs with
  | nil => exact h
  | cons pk rest ih =>
    unfold multiALoop
    have hrest : ∀ x ∈ rest, x ∈ all := fun x hx => hsub x (by simp [hx])
    rcases sigWit_item ctx a pk with hw | ⟨p, hp, hw⟩
    · simp only [hw]; exact ih hrest _ _ _ h
    · simp only [hw]
      have hset : EntriesQ Q (sigs.set i [p]) :=
        entriesQ_set h i [p] (fun q hq => by
          simp only [List.mem_singleton] at hq; subst hq; exact hk pk (hsub pk (by simp)) _ hp)
      split
      · exact hset
      · exact ih hrest _ _ _ hset

theorem stackQ_multiASD {Q : Ph → Prop} (hb : QBase Q) (ctx : Ctx) (a : Assets) (k : Nat) (ks : List Key)
    (hk : ∀ x ∈ ks, ∀ p, phItem p = .sig x → Q p) :
    StackQ Q (multiASD ctx a k ks).sat ∧ StackQ Q (multiASD ctx a k ks).dissat := by
  have hz : Q .pushZero := hb _ (fun _ h => by cases h)
  unfold multiASD
  simp only
  have hdis : StackQ Q ⟨.stack (List.replicate ks.length Ph.pushZero), false, none, none⟩ :=
    stackQ_lit _ (fun p hp => by rw [List.eq_of_mem_replicate hp]; exact hz) _ _ _
  split
  · exact ⟨stackQ_IMPOSSIBLE Q, hdis⟩
  · refine ⟨?_, hdis⟩
    intro l hl p hp
    simp only at hl
    rw [foldl_combine_stack] at hl
    cases hl
    simp only [List.nil_append] at hp
    refine entriesQ_flatten (entriesQ_multiALoop ctx a k ks hk ks.reverse (fun x hx => by simpa using hx)
      0 0 _ ?_) p hp
    intro e he q hq
    rw [List.eq_of_mem_replicate he] at hq
    simp only [List.mem_singleton] at hq
    rw [hq]; exact hz

/-! ### every signature placeholder of a returned stack names a key of the script -/

/-- "if the placeholder is a signature for a key, the key is in `ks`" -/
def Qk (ks : List Key) (p : Ph) : Prop := ∀ k, phItem p = .sig k → k ∈ ks

theorem qk_base (ks : List Key) : QBase (Qk ks) := fun p h k hk => absurd hk (h k)

theorem qk_mono {a b : List Key} (h : ∀ k ∈ a, k ∈ b) (p : Ph) (hp : Qk a p) : Qk b p :=
  fun k hk => h k (hp k hk)

theorem qk_nosig {ks : List Key} {p : Ph} (h : ∀ k, phItem p ≠ .sig k) : Qk ks p :=
  fun k hk => absurd hk (h k)

theorem satDissats_eq_map (c : SatCfg) : (xs : MsList) → satDissats c xs = xs.toList.map (satDissat c)
  | .nil => rfl
  | .cons x xs => by simp [satDissats, MsList.toList, satDissats_eq_map c xs]

mutual
theorem stackQ_satDissat (c : SatCfg) (hc : c.mall = false) :
    ∀ ms : Ms, StackQ (Qk (keysOf ms)) (satDissat c ms).sat ∧ StackQ (Qk (keysOf ms)) (satDissat c ms).dissat
  | .fls => by
    simp only [satDissat]; exact ⟨stackQ_IMPOSSIBLE _, stackQ_lit [] (fun _ h => by cases h) _ _ _⟩
  | .tru => by
    simp only [satDissat]; exact ⟨stackQ_lit [] (fun _ h => by cases h) _ _ _, stackQ_IMPOSSIBLE _⟩
  | .pkK k => by
    simp only [satDissat, keysOf]
    refine ⟨?_, stackQ_lit _ (fun p hp => by
      simp only [List.mem_singleton] at hp; subst hp; exact qk_nosig (fun _ h => by cases h)) _ _ _⟩
    intro l hl p hp
    simp only at hl
    rcases sigWit_item c.ctx c.assets k with hw | ⟨q, hq, hw⟩
    · rw [hw] at hl; cases hl
    · rw [hw] at hl; cases hl
      simp only [List.mem_singleton] at hp; subst hp
      intro k' hk'; rw [hq] at hk'; cases hk'; simp
  | .pkH k => by
    simp only [satDissat, keysOf]
    refine ⟨?_, stackQ_lit _ (fun p hp => by
      simp only [Wit.combine, List.cons_append, List.nil_append, List.mem_cons, List.mem_singleton,
        List.not_mem_nil, or_false] at hp
      rcases hp with rfl | rfl <;> exact qk_nosig (fun _ h => by cases h)) _ _ _⟩
    intro l hl p hp
    simp only at hl
    obtain ⟨la, lb, h1, h2, rfl⟩ := combine_stack hl
    cases h2
    rcases sigWit_item c.ctx c.assets k with hw | ⟨q, hq, hw⟩
    · rw [hw] at h1; cases h1
    · rw [hw] at h1; cases h1
      simp only [List.cons_append, List.nil_append, List.mem_cons, List.not_mem_nil, or_false] at hp
      rcases hp with rfl | rfl
      · intro k' hk'; rw [hq] at hk'; cases hk'; simp
      · exact qk_nosig (fun _ h => by cases h)
  | .rawPkH h => by
    simp only [satDissat, keysOf]
    constructor
    · intro l hl p hp
      simp only at hl
      split at hl
      · split at hl
        · cases hl
          simp only [List.mem_cons, List.not_mem_nil, or_false] at hp
          rcases hp with rfl | rfl <;> exact qk_nosig (fun _ h => by cases h)
        · cases hl
      · split at hl
        · cases hl
          simp only [List.mem_cons, List.not_mem_nil, or_false] at hp
          rcases hp with rfl | rfl <;> exact qk_nosig (fun _ h => by cases h)
        · cases hl
    · intro l hl p hp
      simp only at hl
      split at hl
      · cases hl
        simp only [List.cons_append, List.nil_append, List.mem_cons, List.not_mem_nil, or_false] at hp
        rcases hp with rfl | rfl <;> exact qk_nosig (fun _ h => by cases h)
      · cases hl
  | .multi k ks => by
    simp only [satDissat, keysOf]
    exact stackQ_multiSD (qk_base ks) _ _ _ _ (fun x hx p hp k' hk' => by rw [hp] at hk'; cases hk'; exact hx)
  | .sortedMulti k ks => by
    simp only [satDissat, keysOf]
    exact stackQ_multiSD (qk_base ks) _ _ _ _ (fun x hx p hp k' hk' => by
      rw [hp] at hk'; cases hk'
      exact (Complete.sortKeys'_perm c.env ks).mem_iff.mp hx)
  | .multiA k ks => by
    simp only [satDissat, keysOf]
    exact stackQ_multiASD (qk_base ks) _ _ _ _ (fun x hx p hp k' hk' => by rw [hp] at hk'; cases hk'; exact hx)
  | .sortedMultiA k ks => by
    simp only [satDissat, keysOf]
    exact stackQ_multiASD (qk_base ks) _ _ _ _ (fun x hx p hp k' hk' => by
      rw [hp] at hk'; cases hk'
      exact (Complete.sortKeys'_perm c.env ks).mem_iff.mp hx)
  | .after n => by
    simp only [satDissat, keysOf]
    refine ⟨?_, stackQ_IMPOSSIBLE _⟩
    intro l hl p hp
    simp only at hl
    split at hl
    · cases hl; cases hp
    · split at hl <;> cases hl
  | .older n => by
    simp only [satDissat, keysOf]
    refine ⟨?_, stackQ_IMPOSSIBLE _⟩
    intro l hl p hp
    simp only at hl
    split at hl
    · cases hl; cases hp
    · split at hl <;> cases hl
  | .hash kind h => by
    simp only [satDissat, keysOf]
    refine ⟨?_, stackQ_lit _ (fun p hp => by
      simp only [List.mem_singleton] at hp; subst hp; exact qk_nosig (fun _ h => by cases h)) _ _ _⟩
    intro l hl p hp
    simp only at hl
    split at hl
    · cases hl
      simp only [List.mem_singleton] at hp; subst hp; exact qk_nosig (fun _ h => by cases h)
    · cases hl
  | .alt x => by simp only [satDissat, keysOf]; exact stackQ_satDissat c hc x
  | .swap x => by simp only [satDissat, keysOf]; exact stackQ_satDissat c hc x
  | .check x => by simp only [satDissat, keysOf]; exact stackQ_satDissat c hc x
  | .zeroNotEqual x => by simp only [satDissat, keysOf]; exact stackQ_satDissat c hc x
  | .dupIf x => by
    simp only [satDissat, keysOf]
    exact ⟨stackQ_withStack (stackQ_satDissat c hc x).1 _ (fun p hp => by
        simp only [List.mem_singleton] at hp; subst hp; exact qk_nosig (fun _ h => by cases h)),
      stackQ_lit _ (fun p hp => by
        simp only [List.mem_singleton] at hp; subst hp; exact qk_nosig (fun _ h => by cases h)) _ _ _⟩
  | .verify x => by
    simp only [satDissat, keysOf]; exact ⟨(stackQ_satDissat c hc x).1, stackQ_IMPOSSIBLE _⟩
  | .nonZero x => by
    simp only [satDissat, keysOf]
    exact ⟨(stackQ_satDissat c hc x).1, stackQ_lit _ (fun p hp => by
        simp only [List.mem_singleton] at hp; subst hp; exact qk_nosig (fun _ h => by cases h)) _ _ _⟩
  | .andB l r => by
    have hl := stackQ_satDissat c hc l; have hr := stackQ_satDissat c hc r
    have ml : ∀ p, Qk (keysOf l) p → Qk (keysOf l ++ keysOf r) p := qk_mono (fun k hk => by simp [hk])
    have mr : ∀ p, Qk (keysOf r) p → Qk (keysOf l ++ keysOf r) p := qk_mono (fun k hk => by simp [hk])
    simp only [satDissat, keysOf]
    exact ⟨stackQ_concatenateRev (stackQ_mono ml hl.1) (stackQ_mono mr hr.1),
      stackQ_concatenateRev (stackQ_mono ml hl.2) (stackQ_mono mr hr.2)⟩
  | .andV l r => by
    have hl := stackQ_satDissat c hc l; have hr := stackQ_satDissat c hc r
    have ml : ∀ p, Qk (keysOf l) p → Qk (keysOf l ++ keysOf r) p := qk_mono (fun k hk => by simp [hk])
    have mr : ∀ p, Qk (keysOf r) p → Qk (keysOf l ++ keysOf r) p := qk_mono (fun k hk => by simp [hk])
    simp only [satDissat, keysOf]
    exact ⟨stackQ_concatenateRev (stackQ_mono ml hl.1) (stackQ_mono mr hr.1),
      stackQ_concatenateRev (stackQ_mono ml hl.1) (stackQ_mono mr hr.2)⟩
  | .andOr a b z => by
    have ha := stackQ_satDissat c hc a; have hb := stackQ_satDissat c hc b
    have hz := stackQ_satDissat c hc z
    have ma : ∀ p, Qk (keysOf a) p → Qk (keysOf a ++ (keysOf b ++ keysOf z)) p := qk_mono (fun k hk => by simp [hk])
    have mb : ∀ p, Qk (keysOf b) p → Qk (keysOf a ++ (keysOf b ++ keysOf z)) p := qk_mono (fun k hk => by simp [hk])
    have mz : ∀ p, Qk (keysOf z) p → Qk (keysOf a ++ (keysOf b ++ keysOf z)) p := qk_mono (fun k hk => by simp [hk])
    simp only [satDissat, keysOf, minFn_nonmall c hc]
    exact ⟨stackQ_minimum (stackQ_concatenateRev (stackQ_mono ma ha.1) (stackQ_mono mb hb.1))
        (stackQ_concatenateRev (stackQ_mono ma ha.2) (stackQ_mono mz hz.1)),
      stackQ_concatenateRev (stackQ_mono ma ha.2) (stackQ_mono mz hz.2)⟩
  | .orB l r => by
    have hl := stackQ_satDissat c hc l; have hr := stackQ_satDissat c hc r
    have ml : ∀ p, Qk (keysOf l) p → Qk (keysOf l ++ keysOf r) p := qk_mono (fun k hk => by simp [hk])
    have mr : ∀ p, Qk (keysOf r) p → Qk (keysOf l ++ keysOf r) p := qk_mono (fun k hk => by simp [hk])
    simp only [satDissat, keysOf, minFn_nonmall c hc]
    exact ⟨stackQ_minimum (stackQ_concatenateRev (stackQ_mono ml hl.2) (stackQ_mono mr hr.1))
        (stackQ_concatenateRev (stackQ_mono ml hl.1) (stackQ_mono mr hr.2)),
      stackQ_concatenateRev (stackQ_mono ml hl.2) (stackQ_mono mr hr.2)⟩
  | .orC l r => by
    have hl := stackQ_satDissat c hc l; have hr := stackQ_satDissat c hc r
    have ml : ∀ p, Qk (keysOf l) p → Qk (keysOf l ++ keysOf r) p := qk_mono (fun k hk => by simp [hk])
    have mr : ∀ p, Qk (keysOf r) p → Qk (keysOf l ++ keysOf r) p := qk_mono (fun k hk => by simp [hk])
    simp only [satDissat, keysOf, minFn_nonmall c hc]
    exact ⟨stackQ_minimum (stackQ_mono ml hl.1) (stackQ_concatenateRev (stackQ_mono ml hl.2) (stackQ_mono mr hr.1)),
      stackQ_IMPOSSIBLE _⟩
  | .orD l r => by
    have hl := stackQ_satDissat c hc l; have hr := stackQ_satDissat c hc r
    have ml : ∀ p, Qk (keysOf l) p → Qk (keysOf l ++ keysOf r) p := qk_mono (fun k hk => by simp [hk])
    have mr : ∀ p, Qk (keysOf r) p → Qk (keysOf l ++ keysOf r) p := qk_mono (fun k hk => by simp [hk])
    simp only [satDissat, keysOf, minFn_nonmall c hc]
    exact ⟨stackQ_minimum (stackQ_mono ml hl.1) (stackQ_concatenateRev (stackQ_mono ml hl.2) (stackQ_mono mr hr.1)),
      stackQ_concatenateRev (stackQ_mono ml hl.2) (stackQ_mono mr hr.2)⟩
  | .orI l r => by
    have hl := stackQ_satDissat c hc l; have hr := stackQ_satDissat c hc r
    have ml : ∀ p, Qk (keysOf l) p → Qk (keysOf l ++ keysOf r) p := qk_mono (fun k hk => by simp [hk])
    have mr : ∀ p, Qk (keysOf r) p → Qk (keysOf l ++ keysOf r) p := qk_mono (fun k hk => by simp [hk])
    have h1 : ∀ p ∈ [Ph.pushOne], Qk (keysOf l ++ keysOf r) p := fun p hp => by
      simp only [List.mem_singleton] at hp; subst hp; exact qk_nosig (fun _ h => by cases h)
    have h0 : ∀ p ∈ [Ph.pushZero], Qk (keysOf l ++ keysOf r) p := fun p hp => by
      simp only [List.mem_singleton] at hp; subst hp; exact qk_nosig (fun _ h => by cases h)
    simp only [satDissat, keysOf, minFn_nonmall c hc]
    exact ⟨stackQ_minimum (stackQ_withStack (stackQ_mono ml hl.1) _ h1) (stackQ_withStack (stackQ_mono mr hr.1) _ h0),
      stackQ_minimum (stackQ_withStack (stackQ_mono ml hl.2) _ h1) (stackQ_withStack (stackQ_mono mr hr.2) _ h0)⟩
  | .thresh k xs => by
    have hx := stackQ_satDissats c hc xs
    have hd : ∀ s ∈ (satDissats c xs).map (·.dissat), StackQ (Qk (keysOfL xs)) s := by
      intro s hs; obtain ⟨sd, hsd, rfl⟩ := List.mem_map.mp hs; exact (hx sd hsd).2
    have hs : ∀ s ∈ (satDissats c xs).map (·.sat), StackQ (Qk (keysOfL xs)) s := by
      intro s hs; obtain ⟨sd, hsd, rfl⟩ := List.mem_map.mp hs; exact (hx sd hsd).1
    simp only [satDissat, keysOf, hc]
    refine ⟨?_, stackQ_foldConcat _ hd⟩
    split
    · exact stackQ_foldConcat _ hs
    · exact stackQ_threshNonMall _ _ _ hd hs
theorem stackQ_satDissats (c : SatCfg) (hc : c.mall = false) :
    ∀ xs : MsList, ∀ sd ∈ satDissats c xs,
      StackQ (Qk (keysOfL xs)) sd.sat ∧ StackQ (Qk (keysOfL xs)) sd.dissat
  | .nil => by simp [satDissats]
  | .cons x xs => by
    intro sd hsd
    simp only [satDissats, List.mem_cons] at hsd
    simp only [keysOfL]
    rcases hsd with rfl | hsd
    · have h := stackQ_satDissat c hc x
      exact ⟨stackQ_mono (qk_mono (fun k hk => by simp [hk])) h.1,
        stackQ_mono (qk_mono (fun k hk => by simp [hk])) h.2⟩
    · have h := stackQ_satDissats c hc xs sd hsd
      exact ⟨stackQ_mono (qk_mono (fun k hk => by simp [hk])) h.1,
        stackQ_mono (qk_mono (fun k hk => by simp [hk])) h.2⟩
end

/-- K1: a signature item of a returned stack names a key of the script -/
theorem sig_in_keys (c : SatCfg) (hc : c.mall = false) (ms : Ms) :
    (∀ w, (satDissat c ms).sat.stack = .stack w → ∀ k, Item.sig k ∈ items w → k ∈ keysOf ms) ∧
    (∀ w, (satDissat c ms).dissat.stack = .stack w → ∀ k, Item.sig k ∈ items w → k ∈ keysOf ms) := by
  have h := stackQ_satDissat c hc ms
  constructor
  · intro w hw k hk
    obtain ⟨p, hp, hpk⟩ := List.mem_map.mp hk
    exact h.1 w hw p hp k hpk
  · intro w hw k hk
    obtain ⟨p, hp, hpk⟩ := List.mem_map.mp hk
    exact h.2 w hw p hp k hpk

/-- a stack without signature placeholder has no signature item -/
theorem no_sig_item {w : List Ph} (h : hasSigPh w = false) (k : Key) : Item.sig k ∉ items w := by
  intro hk
  obtain ⟨p, hp, hpk⟩ := List.mem_map.mp hk
  have : isSig p = true := by cases p <;> simp_all [phItem, isSig]
  have : hasSigPh w = true := by
    simp only [hasSigPh, List.any_eq_true]; exact ⟨p, hp, this⟩
  rw [h] at this; cases this

end MsVerif.Uniq

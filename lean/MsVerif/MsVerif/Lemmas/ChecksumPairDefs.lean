/-
The checker behind the two-character table of C10: for a distance `g` between the class symbols
of two corrupted groups, no error pattern `a₁·x^δ₁ + b₁` (low symbol, class symbol `δ₁` places
later) is mapped by `L^g` onto another pattern `a₂·x^δ₂ + b₂`.  Kernel-friendly: plain `Nat`
operations, every intermediate value forced (`seqNat`).
-/
import MsVerif.Lemmas.ChecksumRank
import MsVerif.Lemmas.ChecksumLpow

namespace MsVerif.Checksum
open Rank

/-- strict `map` in continuation-passing style -/
def mapK {α : Sort _} (f : Nat → Nat) : List Nat → (List Nat → α) → α
  | [], k => k []
  | x :: xs, k => seqNat (f x) fun y => mapK f xs fun ys => k (y :: ys)

theorem mapK_eq {α : Sort _} (f : Nat → Nat) (xs : List Nat) (k : List Nat → α) :
    mapK f xs k = k (xs.map f) := by
  induction xs generalizing k with
  | nil => rfl
  | cons x xs ih => simp only [mapK, seqNat_eq, ih, List.map]

/-- everything except symbol 0 and symbol `d` -/
def MSK (d : Nat) : Nat := (2 ^ 40 - 1) ^^^ 31 ^^^ (31 <<< (5 * d))

def chkMask (g d : Nat) (vs : List Nat) : Bool :=
  g ≤ d || mapK (· &&& MSK d) vs fun ws => indep 10 ws

/-- `bd` = images of the five unit bits under `L^(g+δ₁)`, `b0` under `L^g` -/
def chk1 (g : Nat) (bd b0 : List Nat) : Bool :=
  (mapK (· >>> 20) (bd ++ b0) fun ws => indep 10 ws)
    || (chkMask g 1 (bd ++ b0) && chkMask g 2 (bd ++ b0) && chkMask g 3 (bd ++ b0))

def checkG (g : Nat) (b0 b1 b2 b3 : List Nat) : Bool :=
  chk1 g b1 b0 && chk1 g b2 b0 && chk1 g b3 b0

/-- a window of four consecutive bases -/
structure Win where
  b0 : List Nat
  b1 : List Nat
  b2 : List Nat
  b3 : List Nat
deriving DecidableEq

/-- run the check for `n` consecutive distances starting at `g`; returns the final window -/
def tabRun : Nat → Nat → List Nat → List Nat → List Nat → List Nat → Option Win
  | 0, _, b0, b1, b2, b3 => some ⟨b0, b1, b2, b3⟩
  | n + 1, g, b0, b1, b2, b3 =>
    if checkG g b0 b1 b2 b3 then mapK LN b3 fun b4 => tabRun n (g + 1) b1 b2 b3 b4 else none

/-- images of the five unit bits under `L^d` -/
def basisN (d : Nat) : List Nat := [LNpow d 1, LNpow d 2, LNpow d 4, LNpow d 8, LNpow d 16]

theorem basisN_succ (d : Nat) : (basisN d).map LN = basisN (d + 1) := rfl

theorem tabRun_sound : ∀ (n g : Nat) (w : Win),
    tabRun n g (basisN g) (basisN (g + 1)) (basisN (g + 2)) (basisN (g + 3)) = some w →
    w = ⟨basisN (g + n), basisN (g + n + 1), basisN (g + n + 2), basisN (g + n + 3)⟩ ∧
    ∀ g', g ≤ g' → g' < g + n →
      checkG g' (basisN g') (basisN (g' + 1)) (basisN (g' + 2)) (basisN (g' + 3)) = true := by
  intro n
  induction n with
  | zero =>
    intro g w h
    simp only [tabRun, Option.some.injEq] at h
    exact ⟨h.symm, fun g' h1 h2 => by omega⟩
  | succ n ih =>
    intro g w h
    simp only [tabRun, mapK_eq, basisN_succ] at h
    split at h
    · rename_i hc
      obtain ⟨hw, hall⟩ := ih (g + 1) w h
      refine ⟨?_, ?_⟩
      · rw [hw]; simp only [Win.mk.injEq]
        refine ⟨?_, ?_, ?_, ?_⟩ <;> congr 1 <;> omega
      · intro g' h1 h2
        by_cases e : g' = g
        · subst e; exact hc
        · exact hall g' (by omega) (by omega)
    · cases h

end MsVerif.Checksum

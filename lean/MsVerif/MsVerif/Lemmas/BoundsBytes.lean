/-
C09 helper lemmas, part 10: from the library's placeholder size table (`Ph.size`, `ItemSize`) to
BYTES.  `LenOk σ p` states, per kind of witness element, how long the real bytes `σ p` may be
(signature ≤ 72 bytes incl. sighash byte resp. the recorded Schnorr length, key = recorded
length − 1, preimage 32, `1` = `[01]`, `0` = empty); under it the serialized element
(`Spec/Bounds`: CompactSize + bytes) is at most `Ph.size p` and its minimal scriptSig push at
most `phSs p`.
-/
import MsVerif.Lemmas.BoundsBasic
import MsVerif.Spec.Bounds

namespace MsVerif.C09
open MsVerif MsVerif.Bounds

/-- serialized size of one witness element -/
def elemSer (b : Bytes) : Nat := compactSizeLen b.length + b.length

/-- the real bytes of the element are no longer than the library assumes for its kind -/
def LenOk (σ : Ph → Bytes) (p : Ph) : Prop :=
  match p with
  | .pubkey _ s | .pubkeyHash _ s => (σ p).length + 1 ≤ s ∧ (σ p).length < 76
  | .ecdsaSig _ | .ecdsaSigPkh _ => (σ p).length ≤ 72
  | .schnorrSig _ s | .schnorrSigPkh _ s => (σ p).length ≤ s ∧ s < 76
  | .preimage _ _ | .hashDissat => (σ p).length ≤ 32
  | .pushOne => σ p = [1]
  | .pushZero => σ p = []

theorem compactSizeLen_small {n : Nat} (h : n < 253) : compactSizeLen n = 1 := by
  simp [compactSizeLen, h]

theorem minimalPushLen_le (b : Bytes) (h : b.length < 76) : minimalPushLen b ≤ 1 + b.length := by
  unfold minimalPushLen
  split
  · simp
  · split <;> simp
  · simp [Script.pushPrefix, h]

/-- one element: serialized size and scriptSig push size are within the table -/
theorem elem_le_table (σ : Ph → Bytes) (p : Ph) (h : LenOk σ p) :
    elemSer (σ p) ≤ Ph.size p ∧ minimalPushLen (σ p) ≤ phSs p := by
  cases p <;> simp only [LenOk] at h <;> simp only [Ph.size, phSs, elemSer]
  case pubkey k s =>
    have := minimalPushLen_le _ h.2
    rw [compactSizeLen_small (by omega)]; omega
  case pubkeyHash k s =>
    have := minimalPushLen_le _ h.2
    rw [compactSizeLen_small (by omega)]; omega
  case ecdsaSig k =>
    have := minimalPushLen_le (σ (.ecdsaSig k)) (by omega)
    rw [compactSizeLen_small (by omega)]; omega
  case ecdsaSigPkh k =>
    have := minimalPushLen_le (σ (.ecdsaSigPkh k)) (by omega)
    rw [compactSizeLen_small (by omega)]; omega
  case schnorrSig k s =>
    have := minimalPushLen_le (σ (.schnorrSig k s)) (by omega)
    rw [compactSizeLen_small (by omega)]; omega
  case schnorrSigPkh k s =>
    have := minimalPushLen_le (σ (.schnorrSigPkh k s)) (by omega)
    rw [compactSizeLen_small (by omega)]; omega
  case preimage kind x =>
    have := minimalPushLen_le (σ (.preimage kind x)) (by omega)
    rw [compactSizeLen_small (by omega)]; omega
  case hashDissat =>
    have := minimalPushLen_le (σ .hashDissat) (by omega)
    rw [compactSizeLen_small (by omega)]; omega
  case pushOne => rw [h]; decide
  case pushZero => rw [h]; decide

/-- a whole template: the realised witness `w.map σ` is within the table sums -/
theorem witness_le_table (σ : Ph → Bytes) : ∀ (w : List Ph), (∀ p ∈ w, LenOk σ p) →
    itemsSize (w.map σ) ≤ wsz w ∧ scriptSigPushSize (w.map σ) ≤ wss w := by
  intro w
  induction w with
  | nil => intro _; simp [itemsSize, scriptSigPushSize]
  | cons p ps ih =>
    intro h
    obtain ⟨i1, i2⟩ := ih (fun q hq => h q (List.mem_cons_of_mem _ hq))
    obtain ⟨e1, e2⟩ := elem_le_table σ p (h p (List.mem_cons_self ..))
    simp only [itemsSize, scriptSigPushSize, List.map_cons, List.sum_cons, wsz_cons, wss_cons] at *
    simp only [elemSer] at e1
    omega

end MsVerif.C09

/-
C06 helper lemmas, part 13: the `f` letter (`Dissat::None`) — when no signature verifies, a
forced fragment that completes leaves a TRUE value (B/W); a forced K fragment cannot complete at
all.  Uses `signed`.  Limits off.  Core Lean only.
-/
import MsVerif.Lemmas.TypeSoundSignedThm

namespace MsVerif.TypeSound
open MsVerif MsVerif.Script

mutual
/-- lock times are in range (`AbsLockTime` / `RelLockTime` reject 0 and values ≥ 2³¹) -/
def wfT : Ms → Bool
  | .after n | .older n => decide (1 ≤ n) && decide (n < 2 ^ 31)
  | .thresh _ xs => wfTL xs
  | .alt x | .swap x | .check x | .dupIf x | .verify x | .nonZero x | .zeroNotEqual x => wfT x
  | .andV l r | .andB l r | .orB l r | .orD l r | .orC l r | .orI l r => wfT l && wfT r
  | .andOr a b c => wfT a && wfT b && wfT c
  | _ => true
def wfTL : MsList → Bool
  | .nil => true
  | .cons x xs => wfT x && wfTL xs
end

/-- "forced": what a completed run of a fragment with `Dissat::None` looks like -/
def ForcedS (base : Base) (s : List Bytes) (c' : Core) : Prop :=
  match base with
  | .B => ∀ v r, c'.stack = v :: r → castToBool v = true
  | .V => True
  | .K => False
  | .W => ∀ x tl, s = x :: tl → ∃ v r, (c'.stack = x :: v :: r ∨ c'.stack = v :: x :: r) ∧ castToBool v = true

theorem ForcedS.B {b : Base} {s : List Bytes} {c' : Core} (hb : b = .B) :
    ForcedS b s c' ↔ ∀ v r, c'.stack = v :: r → castToBool v = true := by subst hb; rfl
theorem ForcedS.K {b : Base} {s : List Bytes} {c' : Core} (hb : b = .K) :
    ForcedS b s c' ↔ False := by subst hb; rfl
theorem ForcedS.W {b : Base} {s : List Bytes} {c' : Core} (hb : b = .W) :
    ForcedS b s c' ↔ ∀ x tl, s = x :: tl →
      ∃ v r, (c'.stack = x :: v :: r ∨ c'.stack = v :: x :: r) ∧ castToBool v = true := by subst hb; rfl

/-- for B, V, K only the resulting stack matters -/
theorem ForcedS.move {b b' : Base} {s s' : List Bytes} {c' c'' : Core} (h : ForcedS b s c')
    (hb : b' = b) (hw : b ≠ .W) (hs : c''.stack = c'.stack) : ForcedS b' s' c'' := by
  subst hb
  cases b' with
  | B => intro v r hv; rw [hs] at hv; exact h v r hv
  | V => trivial
  | K => exact h
  | W => exact absurd rfl hw

theorem truthy_head {c' : Core} {w : Bytes} {r : List Bytes} (e : c'.stack = w :: r) (hw : castToBool w = true) :
    ∀ v r', c'.stack = v :: r' → castToBool v = true := by
  intro v r' hv
  rw [e] at hv
  simp only [List.cons.injEq] at hv
  rw [← hv.1]; exact hw

/-- the number pushed for a lock time in range is a true value -/
theorem intBytes_truthy {n : Nat} (h1 : 1 ≤ n) (h2 : n < 2 ^ 31) : castToBool (intBytes n) = true := by
  rw [intBytes_eq_numEncode]
  apply Classical.byContradiction
  intro hf
  have hf' : castToBool (numEncode (n : Int)) = false := by simpa using hf
  have h0 := falsy_raw_zero hf'
  have hl : (leBytes 9 n).length < 9 := by
    have := leBytes_length_le 9 n 4 (by omega)
    omega
  rw [raw_roundtrip hl] at h0
  omega

/-- the two descriptions of what a W fragment left name the same value -/
theorem W_same_value {s : List Bytes} {a v w : Bytes} {r r' : List Bytes}
    (e1 : s = a :: w :: r ∨ s = w :: a :: r) (e2 : s = a :: v :: r' ∨ s = v :: a :: r') : w = v := by
  rcases e1 with e1 | e1 <;> rcases e2 with e2 | e2 <;> rw [e1] at e2 <;> simp only [List.cons.injEq] at e2
  · exact e2.2.1
  · rw [e2.2.1, ← e2.1]
  · rw [e2.1, e2.2.1]
  · exact e2.1

theorem forced {env : Env} (hlim : env.flags.stackLimits = false) (hns : NoSig env) (ke : KeyEnv) (ctx : Ctx) :
    (ms : Ms) → wf ms = true → wfS ms = true → wfT ms = true → ∀ (τ : Ty), typeOf ms = some τ →
      τ.mall.dissat = .none → ∀ (c c' : Core), frag env ke ctx ms c = .ok c' →
        ForcedS τ.corr.base c.stack c'
  | .tru, _, _, _, τ, h, _, c, c', hr => by
    simp only [typeOf] at h; cases h
    rw [frag] at hr
    exact truthy_head (pushElem_ok hr).1 (by decide)
  | .fls, _, _, _, τ, h, hd, _, _, _ | .pkK _, _, _, _, τ, h, hd, _, _, _ | .pkH _, _, _, _, τ, h, hd, _, _, _
  | .rawPkH _, _, _, _, τ, h, hd, _, _, _ | .hash _ _, _, _, _, τ, h, hd, _, _, _
  | .multi _ _, _, _, _, τ, h, hd, _, _, _ | .sortedMulti _ _, _, _, _, τ, h, hd, _, _, _
  | .multiA _ _, _, _, _, τ, h, hd, _, _, _ | .sortedMultiA _ _, _, _, _, τ, h, hd, _, _, _ => by
    simp only [typeOf] at h; cases h
    simp [Ty.FALSE, Ty.pkK, Ty.pkH, Ty.hash, Ty.multi, Ty.sortedmulti, Ty.multiA, Ty.sortedmultiA, Mall.FALSE,
      Mall.pkK, Mall.pkH, Mall.hash, Mall.multi, Mall.sortedmulti, Mall.multiA, Mall.sortedmultiA] at hd
  | .after n, _, _, ht, τ, h, _, c, c', hr => by
    simp only [typeOf] at h; cases h
    simp only [wfT, Bool.and_eq_true, decide_eq_true_eq] at ht
    rw [frag] at hr
    obtain ⟨c1, h1, hr⟩ := seqOps_cons_ok hr
    obtain ⟨c2, h2, hr⟩ := seqOps_cons_ok hr
    cases seqOps_nil_ok hr
    obtain ⟨e1, _⟩ := pushInt_ok h1
    obtain ⟨e2, _⟩ := locktime_ok (o := .cltv) (Or.inl rfl) h2
    exact truthy_head (by rw [e2, e1]) (intBytes_truthy ht.1 ht.2)
  | .older n, _, _, ht, τ, h, _, c, c', hr => by
    simp only [typeOf] at h; cases h
    simp only [wfT, Bool.and_eq_true, decide_eq_true_eq] at ht
    rw [frag] at hr
    obtain ⟨c1, h1, hr⟩ := seqOps_cons_ok hr
    obtain ⟨c2, h2, hr⟩ := seqOps_cons_ok hr
    cases seqOps_nil_ok hr
    obtain ⟨e1, _⟩ := pushInt_ok h1
    obtain ⟨e2, _⟩ := locktime_ok (o := .csv) (Or.inr rfl) h2
    exact truthy_head (by rw [e2, e1]) (intBytes_truthy ht.1 ht.2)
  | .alt x, hw, hk, ht, τ, h, hd, c, c', hr => by
    simp only [typeOf] at h
    obtain ⟨a, hx, h⟩ := typeOf_un h
    obtain ⟨hab, hy⟩ := castAlt_inv (lift1_corr h)
    rw [lift1_mall h] at hd
    rw [hy]
    rw [frag_alt] at hr
    obtain ⟨c1, h1, hr⟩ := bind_ok hr
    obtain ⟨c2, h2, h3⟩ := bind_ok hr
    obtain ⟨e, e1, a1⟩ := toalt_ok h1
    have ih := forced hlim hns ke ctx x (by simpa [wf] using hw) (by simpa [wfS] using hk)
      (by simpa [wfT] using ht) a hx hd c1 c2 h2
    obtain ⟨ih1, ih2⟩ := shape hlim ke ctx x (by simpa [wf] using hw) a hx c1 c2 h2
    obtain ⟨v, n, e2, _⟩ := (Post.B hab).1 ih2
    obtain ⟨e', a3, e3⟩ := fromalt_ok h3
    rw [ih1, a1] at a3
    simp only [List.cons.injEq] at a3
    obtain ⟨rfl, _⟩ := a3
    refine (ForcedS.W rfl).2 ?_
    intro x0 tl hx0
    rw [e1] at hx0
    simp only [List.cons.injEq] at hx0
    obtain ⟨rfl, _⟩ := hx0
    exact ⟨v, _, Or.inl (by rw [e3, e2]), (ForcedS.B hab).1 ih v _ e2⟩
  | .swap x, hw, hk, ht, τ, h, hd, c, c', hr => by
    simp only [typeOf] at h
    obtain ⟨a, hx, h⟩ := typeOf_un h
    obtain ⟨hab, hai, hy⟩ := castSwap_inv (lift1_corr h)
    rw [lift1_mall h] at hd
    rw [hy]
    rw [frag_swap] at hr
    obtain ⟨c1, h1, h2⟩ := bind_ok hr
    obtain ⟨p, q, r, e1, e1', _⟩ := swap_ok h1
    have hwx : wf x = true := by simpa [wf] using hw
    have ih := forced hlim hns ke ctx x hwx (by simpa [wfS] using hk) (by simpa [wfT] using ht) a hx hd c1 c' h2
    have hna : nargs a.corr.input = some 1 := by rcases hai with h1 | h1 <;> rw [h1] <;> rfl
    have hc := args_cons hlim ke ctx x hwx a 1 hx hna
    rw [hab] at hc
    obtain ⟨out, ho, hs'⟩ := (hc.at c1 [q] (p :: r) (by rw [e1']; rfl) rfl).2 c' h2
    obtain ⟨w, rfl⟩ := len1 ho
    refine (ForcedS.W rfl).2 ?_
    intro x0 tl hx0
    rw [e1] at hx0
    simp only [List.cons.injEq] at hx0
    obtain ⟨rfl, _⟩ := hx0
    exact ⟨w, r, Or.inr (by rw [hs']; rfl), (ForcedS.B hab).1 ih w _ (by rw [hs']; rfl)⟩
  | .check x, hw, hk, ht, τ, h, hd, c, c', hr => by
    simp only [typeOf] at h
    obtain ⟨a, hx, h⟩ := typeOf_un h
    obtain ⟨hab, hy⟩ := castCheck_inv (lift1_corr h)
    rw [lift1_mall h] at hd
    rw [frag_check] at hr
    obtain ⟨c1, h1, _⟩ := bind_ok hr
    have ih := forced hlim hns ke ctx x (by simpa [wf] using hw) (by simpa [wfS] using hk)
      (by simpa [wfT] using ht) a hx hd c c1 h1
    exact ((ForcedS.K hab).1 ih).elim
  | .dupIf x, _, _, _, τ, h, hd, _, _, _ => by
    simp only [typeOf] at h
    obtain ⟨a, _, h⟩ := typeOf_un h
    rw [lift1_mall h] at hd
    simp only [Mall.castDupIf] at hd
    split at hd <;> cases hd
  | .nonZero x, _, _, _, τ, h, hd, _, _, _ => by
    simp only [typeOf] at h
    obtain ⟨a, _, h⟩ := typeOf_un h
    rw [lift1_mall h] at hd
    simp only [Mall.castNonZero] at hd
    split at hd <;> cases hd
  | .verify x, _, _, _, τ, h, _, _, _, _ => by
    simp only [typeOf] at h
    obtain ⟨a, _, h⟩ := typeOf_un h
    rw [(castVerify_inv (lift1_corr h)).2]
    trivial
  | .zeroNotEqual x, hw, hk, ht, τ, h, hd, c, c', hr => by
    simp only [typeOf] at h
    obtain ⟨a, hx, h⟩ := typeOf_un h
    obtain ⟨hab, hy⟩ := castZeroNotEqual_inv (lift1_corr h)
    rw [lift1_mall h] at hd
    rw [hy]
    rw [frag_zeroNotEqual] at hr
    obtain ⟨c1, h1, h2⟩ := bind_ok hr
    have ih := forced hlim hns ke ctx x (by simpa [wf] using hw) (by simpa [wfS] using hk)
      (by simpa [wfT] using ht) a hx hd c c1 h1
    obtain ⟨a0, r0, x0, e2, hx0, e2', _⟩ := zeronotequal_ok' h2
    have hnz : x0 ≠ 0 := truthy_decodes_nonzero ((ForcedS.B hab).1 ih a0 r0 e2) (num4_ok hx0)
    have : (x0 != 0) = true := by simpa using hnz
    rw [this] at e2'
    exact truthy_head e2' (by decide)
  | .andV l r, hw, hk, ht, τ, h, hd, c, c', hr => by
    simp only [typeOf] at h
    obtain ⟨a, b, hl, hrr, h⟩ := typeOf_bin h
    obtain ⟨hab, hbb, hy⟩ := andV_inv (lift2_corr h)
    rw [lift2_mall h] at hd
    rw [hy]
    simp only [wf, Bool.and_eq_true] at hw
    simp only [wfS, Bool.and_eq_true] at hk
    simp only [wfT, Bool.and_eq_true] at ht
    rw [frag_andV] at hr
    obtain ⟨c1, h1, h2⟩ := bind_ok hr
    have hnw : b.corr.base ≠ .W := by rcases hbb with hb | hb | hb <;> rw [hb] <;> simp
    by_cases hrd : b.mall.dissat = .none
    · have ih := forced hlim hns ke ctx r hw.2 hk.2 ht.2 b hrr hrd c1 c' h2
      exact ih.move rfl hnw rfl
    · have hls : a.mall.signed = true := by
        simp only [Mall.andV] at hd
        cases hs : a.mall.signed
        · cases hdd : b.mall.dissat <;> simp [hs, hdd] at hd hrd
        · rfl
      have ih := signed hlim hns ke ctx l hw.1 hk.1 a hl hls c c1 h1
      exact ((UnsatS.V hab).1 ih).elim
  | .andB l r, hw, hk, ht, τ, h, hd, c, c', hr => by
    simp only [typeOf] at h
    obtain ⟨a, b, hl, hrr, h⟩ := typeOf_bin h
    obtain ⟨hab, hbb, hy⟩ := andB_inv (lift2_corr h)
    rw [lift2_mall h] at hd
    rw [hy]
    simp only [wf, Bool.and_eq_true] at hw
    simp only [wfS, Bool.and_eq_true] at hk
    simp only [wfT, Bool.and_eq_true] at ht
    rw [frag_andB] at hr
    obtain ⟨c1, h1, hr⟩ := bind_ok hr
    obtain ⟨c2, h2, h3⟩ := bind_ok hr
    obtain ⟨_, ih2⟩ := shape hlim ke ctx l hw.1 a hl c c1 h1
    obtain ⟨v, n, e1, _⟩ := (Post.B hab).1 ih2
    -- the three ways `and_b` is forced
    have hcases : (a.mall.dissat = .none ∧ b.mall.dissat = .none) ∨ (a.mall.dissat = .none ∧ a.mall.signed = true)
        ∨ (b.mall.dissat = .none ∧ b.mall.signed = true) := by
      simp only [Mall.andB] at hd
      cases hda : a.mall.dissat <;> cases hdb : b.mall.dissat <;> cases hsa : a.mall.signed <;>
        cases hsb : b.mall.signed <;> simp [hda, hdb, hsa, hsb] at hd ⊢
    rcases hcases with ⟨hda, hdb⟩ | ⟨hda, hsa⟩ | ⟨hdb, hsb⟩
    · have ihl := forced hlim hns ke ctx l hw.1 hk.1 ht.1 a hl hda c c1 h1
      have ihr := forced hlim hns ke ctx r hw.2 hk.2 ht.2 b hrr hdb c1 c2 h2
      have hvt := (ForcedS.B hab).1 ihl v _ e1
      obtain ⟨w, r'', e5, hwt⟩ := (ForcedS.W hbb).1 ihr v _ e1
      obtain ⟨p, q, r', xp, xq, e4, hp, hq, e4', _⟩ := booland_ok' h3
      have htrue : (xp != 0 && xq != 0) = true := by
        rcases e5 with e5 | e5 <;> rw [e5] at e4 <;> simp only [List.cons.injEq] at e4 <;>
          obtain ⟨rfl, rfl, _⟩ := e4
        · have h1 := truthy_decodes_nonzero hvt (num4_ok hp)
          have h2 := truthy_decodes_nonzero hwt (num4_ok hq)
          simp [h1, h2]
        · have h1 := truthy_decodes_nonzero hwt (num4_ok hp)
          have h2 := truthy_decodes_nonzero hvt (num4_ok hq)
          simp [h1, h2]
      rw [htrue] at e4'
      exact truthy_head e4' (by decide)
    · have ihl := forced hlim hns ke ctx l hw.1 hk.1 ht.1 a hl hda c c1 h1
      have ihs := signed hlim hns ke ctx l hw.1 hk.1 a hl hsa c c1 h1
      have h1 := (ForcedS.B hab).1 ihl v _ e1
      have h2 := (UnsatS.B hab).1 ihs v _ e1
      rw [h1] at h2; cases h2
    · have ihr := forced hlim hns ke ctx r hw.2 hk.2 ht.2 b hrr hdb c1 c2 h2
      have ihs := signed hlim hns ke ctx r hw.2 hk.2 b hrr hsb c1 c2 h2
      obtain ⟨w, r1, e5, hwt⟩ := (ForcedS.W hbb).1 ihr v _ e1
      obtain ⟨w', r2, e6, hwf⟩ := (UnsatS.W hbb).1 ihs v _ e1
      have := W_same_value e5 e6
      subst this
      rw [hwt] at hwf; cases hwf
  | .orB l r, _, _, _, τ, h, hd, _, _, _ => by
    simp only [typeOf] at h
    obtain ⟨a, b, _, _, h⟩ := typeOf_bin h
    rw [lift2_mall h] at hd
    simp [Mall.orB] at hd
  | .orD l r, hw, hk, ht, τ, h, hd, c, c', hr => by
    simp only [typeOf] at h
    obtain ⟨a, b, hl, hrr, h⟩ := typeOf_bin h
    obtain ⟨hab, hbb, _, _, hy⟩ := orD_inv (lift2_corr h)
    rw [lift2_mall h] at hd
    simp only [Mall.orD] at hd
    rw [hy]
    simp only [wf, Bool.and_eq_true] at hw
    simp only [wfS, Bool.and_eq_true] at hk
    simp only [wfT, Bool.and_eq_true] at ht
    rw [frag_orD] at hr
    obtain ⟨c1, h1, hr⟩ := bind_ok hr
    obtain ⟨c2, h2, h3⟩ := bind_ok hr
    obtain ⟨a0, r0, e2, _, e2'⟩ := ifdup_ok h2
    obtain ⟨a1, c3, e3, _, hcase⟩ := ifThen_ok h3
    by_cases hv : castToBool a0 = true
    · simp only [hv, if_true] at e2'
      rw [e2'] at e3
      simp only [List.cons.injEq] at e3
      obtain ⟨rfl, e3⟩ := e3
      rcases hcase with ⟨hf, _⟩ | ⟨_, e4, _⟩
      · simp [condFlag, hv] at hf
      · exact truthy_head (by rw [e4, ← e3]) hv
    · simp only [hv, Bool.false_eq_true, if_false] at e2'
      rw [e2'] at e3
      simp only [List.cons.injEq] at e3
      obtain ⟨rfl, e3⟩ := e3
      rcases hcase with ⟨_, c4, h4, e4, _⟩ | ⟨hf, _⟩
      · have ihr := forced hlim hns ke ctx r hw.2 hk.2 ht.2 b hrr hd c3 c4 h4
        intro v r' hv'
        rw [e4] at hv'
        exact (ForcedS.B hbb).1 ihr v r' hv'
      · simp [condFlag, hv] at hf
  | .orC l r, _, _, _, τ, h, _, _, _, _ => by
    simp only [typeOf] at h
    obtain ⟨a, b, _, _, h⟩ := typeOf_bin h
    rw [(orC_inv (lift2_corr h)).2.2.2.2]
    trivial
  | .orI l r, hw, hk, ht, τ, h, hd, c, c', hr => by
    simp only [typeOf] at h
    obtain ⟨a, b, hl, hrr, h⟩ := typeOf_bin h
    obtain ⟨hab, hbb, hy⟩ := orI_inv (lift2_corr h)
    rw [lift2_mall h] at hd
    rw [hy]
    simp only [wf, Bool.and_eq_true] at hw
    simp only [wfS, Bool.and_eq_true] at hk
    simp only [wfT, Bool.and_eq_true] at ht
    have hboth : a.mall.dissat = .none ∧ b.mall.dissat = .none := by
      simp only [Mall.orI] at hd
      cases hda : a.mall.dissat <;> cases hdb : b.mall.dissat <;> simp [hda, hdb] at hd ⊢
    rw [frag_orI] at hr
    obtain ⟨a0, c2, c4, _, _, e4, _, hcase⟩ := ifElse_ok hr
    have hnw : a.corr.base ≠ .W := by rcases hbb with hb | hb | hb <;> rw [hb] <;> simp
    rcases hcase with ⟨_, h3⟩ | ⟨_, c2', _, _, h3⟩
    · have ih := forced hlim hns ke ctx l hw.1 hk.1 ht.1 a hl hboth.1 c2 c4 h3
      exact ih.move rfl hnw e4
    · have ih := forced hlim hns ke ctx r hw.2 hk.2 ht.2 b hrr hboth.2 c2' c4 h3
      rw [← hab] at ih
      exact ih.move rfl hnw e4
  | .andOr x y z, hw, hk, ht, τ, h, hd, c, c', hr => by
    obtain ⟨a, b, cc, hx, hy', hz, h'⟩ := typeOf_andOr h
    obtain ⟨hab, _, _, hbc, hbb, hy⟩ := andOr_inv (andOr_corr h')
    rw [andOr_mall h'] at hd
    rw [hy]
    simp only [wf, Bool.and_eq_true] at hw
    simp only [wfS, Bool.and_eq_true] at hk
    simp only [wfT, Bool.and_eq_true] at ht
    have hfacts : cc.mall.dissat = .none ∧ (b.mall.dissat = .none ∨ a.mall.signed = true) := by
      simp only [Mall.andOr] at hd
      cases hsa : a.mall.signed <;> cases hdb : b.mall.dissat <;> cases hdc : cc.mall.dissat <;>
        simp [hsa, hdb, hdc] at hd ⊢
    rw [frag_andOr] at hr
    obtain ⟨c1, h1, h2⟩ := bind_ok hr
    obtain ⟨a0, c2, c4, e2, _, e4, _, hcase⟩ := ifElse_ok h2
    have hnw : b.corr.base ≠ .W := by rcases hbb with hb | hb | hb <;> rw [hb] <;> simp
    rcases hcase with ⟨_, h3⟩ | ⟨hf, c2', _, _, h3⟩
    · have ih := forced hlim hns ke ctx z hw.2 hk.2 ht.2 cc hz hfacts.1 c2 c4 h3
      rw [← hbc] at ih
      exact ih.move rfl hnw e4
    · rcases hfacts.2 with hdb | hsa
      · have ih := forced hlim hns ke ctx y hw.1.2 hk.1.2 ht.1.2 b hy' hdb c2' c4 h3
        exact ih.move rfl hnw e4
      · have iha := signed hlim hns ke ctx x hw.1.1 hk.1.1 a hx hsa c c1 h1
        have hvf := (UnsatS.B hab).1 iha a0 _ e2
        simp [condFlag, hvf] at hf
  | .thresh k xs, _, _, _, τ, h, hd, _, _, _ => by
    obtain ⟨ts, _, h'⟩ := typeOf_thresh h
    rw [threshold_mall h'] at hd
    simp only [Mall.threshold] at hd
    split at hd <;> cases hd

end MsVerif.TypeSound

/-
`Ord for Policy` (Model/PolicyOrd.lean) is a lawful total order whose `Equal` is structural
identity, for every lawful order on keys and hashes.
-/
import MsVerif.Lemmas.CmpOrd
import MsVerif.Model.PolicyOrd

set_option linter.unusedSimpArgs false

namespace MsVerif.PolicyOrd
open MsVerif MsVerif.CmpEq MsVerif.CmpOrd

theorem then_eq_eq (a b : Ordering) : a.then b = .eq ↔ a = .eq ∧ b = .eq := by
  cases a <;> simp [Ordering.then]

theorem then_eq_lt (a b : Ordering) : a.then b = .lt ↔ a = .lt ∨ (a = .eq ∧ b = .lt) := by
  cases a <;> simp [Ordering.then]

theorem then_swap (a b : Ordering) : (a.then b).swap = a.swap.then b.swap := by
  cases a <;> simp [Ordering.then, Ordering.swap]

theorem hashRank_inj (k1 k2 : HashKind) (h : hashRank k1 = hashRank k2) : k1 = k2 := by
  cases k1 <;> cases k2 <;> simp [hashRank] at h <;> rfl

/-- the variant of a policy node -/
def sameVariant : PPol → PPol → Bool
  | .unsat, .unsat | .trivial, .trivial | .key _, .key _ | .after _, .after _ | .older _, .older _
  | .and _, .and _ | .or _, .or _ | .thresh _ _, .thresh _ _ => true
  | .hash k1 _, .hash k2 _ => k1 = k2
  | _, _ => false

/-- equal variant names ⇒ same variant: the `unreachable!` arm of `cmp` is never reached -/
theorem same_rank_same_variant (a b : PPol) (h : a.vrank = b.vrank) : sameVariant a b = true := by
  cases a <;> cases b <;> simp [PPol.vrank, sameVariant] at h ⊢ <;>
    first
    | exact hashRank_inj _ _ h
    | (cases ‹HashKind› <;> simp [hashRank] at h)

/-! ### Equal ⇔ identical -/

mutual
theorem polCmp_eq_iff (o : AtomOrd) (ho : LawfulAtoms o) : (a b : PPol) → (polCmp o a b = .eq ↔ a = b)
  | .unsat, b | .trivial, b | .after _, b | .older _, b => by
    cases b <;> simp [polCmp, PPol.vrank, natCmp_eq] <;> (cases ‹HashKind› <;> simp [hashRank])
  | .key a, b => by
    cases b <;> simp [polCmp, PPol.vrank, natCmp_eq, ho.key.eq_iff] <;>
      (cases ‹HashKind› <;> simp [hashRank])
  | .hash k1 a, b => by
    cases b
    case hash k2 b =>
      by_cases hk : k1 = k2
      · subst hk; simp [polCmp, (ho.hash k1).eq_iff]
      · simp only [polCmp, hk, if_false, natCmp_eq, PPol.vrank]
        constructor
        · intro h; exact absurd (hashRank_inj _ _ h) hk
        · intro h; injection h with h1 _; exact absurd h1 hk
    all_goals (cases k1 <;> simp [polCmp, PPol.vrank, natCmp_eq, hashRank])
  | .and xs, b | .or xs, b => by
    cases b <;> simp [polCmp, PPol.vrank, natCmp_eq, polListCmp_eq_iff o ho xs] <;>
      (cases ‹HashKind› <;> simp [hashRank])
  | .thresh k xs, b => by
    cases b <;> simp [polCmp, PPol.vrank, natCmp_eq, then_eq_eq, polListCmp_eq_iff o ho xs] <;>
      (cases ‹HashKind› <;> simp [hashRank])
theorem polListCmp_eq_iff (o : AtomOrd) (ho : LawfulAtoms o) :
    (xs ys : PPolList) → (polListCmp o xs ys = .eq ↔ xs = ys)
  | .nil, .nil => by simp [polListCmp]
  | .nil, .cons _ _ _ => by simp [polListCmp]
  | .cons _ _ _, .nil => by simp [polListCmp]
  | .cons w x xs, .cons w' y ys => by
    simp [polListCmp, then_eq_eq, natCmp_eq, polCmp_eq_iff o ho x y, polListCmp_eq_iff o ho xs ys]
end

/-! ### antisymmetry -/

mutual
theorem polCmp_swap (o : AtomOrd) (ho : LawfulAtoms o) : (a b : PPol) → polCmp o b a = (polCmp o a b).swap
  | .unsat, b | .trivial, b | .after _, b | .older _, b => by
    cases b <;> simp only [polCmp] <;> exact natCmp_lawful.swap _ _
  | .key a, b => by
    cases b <;> simp only [polCmp] <;> first | exact ho.key.swap _ _ | exact natCmp_lawful.swap _ _
  | .hash k1 a, b => by
    cases b
    case hash k2 b =>
      by_cases hk : k1 = k2
      · subst hk; simp only [polCmp, if_true]; exact (ho.hash k1).swap _ _
      · have hk' : ¬k2 = k1 := fun e => hk e.symm
        simp only [polCmp, hk, hk', if_false]; exact natCmp_lawful.swap _ _
    all_goals (simp only [polCmp]; exact natCmp_lawful.swap _ _)
  | .and xs, b | .or xs, b => by
    cases b <;> simp only [polCmp] <;>
      first | exact polListCmp_swap o ho xs _ | exact natCmp_lawful.swap _ _
  | .thresh k xs, b => by
    cases b <;> simp only [polCmp] <;> try (exact natCmp_lawful.swap _ _)
    rw [then_swap, natCmp_lawful.swap, polListCmp_swap o ho xs]
theorem polListCmp_swap (o : AtomOrd) (ho : LawfulAtoms o) :
    (xs ys : PPolList) → polListCmp o ys xs = (polListCmp o xs ys).swap
  | .nil, .nil => rfl
  | .nil, .cons _ _ _ => rfl
  | .cons _ _ _, .nil => rfl
  | .cons w x xs, .cons w' y ys => by
    simp only [polListCmp]
    rw [then_swap, then_swap, natCmp_lawful.swap w w', polCmp_swap o ho x y, polListCmp_swap o ho xs ys]
end

/-! ### transitivity -/

theorem polCmp_of_rank_lt (o : AtomOrd) (a b : PPol) (h : a.vrank < b.vrank) : polCmp o a b = .lt := by
  cases a <;> cases b <;> simp [PPol.vrank] at h <;> simp [polCmp, PPol.vrank, natCmp_lt, h]
  case hash.hash k1 _ k2 _ =>
    have hk : ¬k1 = k2 := fun e => by subst e; omega
    simp [hk, natCmp_lt, h]

theorem rank_le_of_lt (o : AtomOrd) (a b : PPol) (h : polCmp o a b = .lt) : a.vrank ≤ b.vrank := by
  cases a <;> cases b <;> simp [polCmp, PPol.vrank, natCmp_lt] at h ⊢ <;> try omega
  case hash.hash k1 _ k2 _ =>
    by_cases hk : k1 = k2
    · subst hk; omega
    · simp [hk, natCmp_lt] at h; omega

mutual
theorem polCmp_trans (o : AtomOrd) (ho : LawfulAtoms o) : (a b c : PPol) →
    polCmp o a b = .lt → polCmp o b c = .lt → polCmp o a c = .lt
  | a, b, c, h1, h2 => by
    have r1 := rank_le_of_lt o a b h1
    have r2 := rank_le_of_lt o b c h2
    by_cases hr : a.vrank < c.vrank
    · exact polCmp_of_rank_lt o a c hr
    · have e1 : a.vrank = b.vrank := by omega
      have e2 : b.vrank = c.vrank := by omega
      have v1 := same_rank_same_variant a b e1
      have v2 := same_rank_same_variant b c e2
      match a, b, c with
      | .unsat, .unsat, .unsat => simp [polCmp, PPol.vrank, natCmp_lt] at h1
      | .trivial, .trivial, .trivial => simp [polCmp, PPol.vrank, natCmp_lt] at h1
      | .key x, .key y, .key z => simp only [polCmp] at h1 h2 ⊢; exact ho.key.trans_lt _ _ _ h1 h2
      | .after x, .after y, .after z => simp only [polCmp, natCmp_lt] at h1 h2 ⊢; omega
      | .older x, .older y, .older z => simp only [polCmp, natCmp_lt] at h1 h2 ⊢; omega
      | .hash k1 x, .hash k2 y, .hash k3 z =>
        simp [sameVariant] at v1 v2
        subst v1; subst v2
        simp only [polCmp, if_true] at h1 h2 ⊢
        exact (ho.hash k1).trans_lt _ _ _ h1 h2
      | .and xs, .and ys, .and zs => simp only [polCmp] at h1 h2 ⊢; exact polListCmp_trans o ho xs ys zs h1 h2
      | .or xs, .or ys, .or zs => simp only [polCmp] at h1 h2 ⊢; exact polListCmp_trans o ho xs ys zs h1 h2
      | .thresh k1 xs, .thresh k2 ys, .thresh k3 zs =>
        simp only [polCmp, then_eq_lt, natCmp_lt, natCmp_eq] at h1 h2 ⊢
        rcases h1 with h1 | ⟨e1, h1⟩ <;> rcases h2 with h2 | ⟨e2, h2⟩
        · left; omega
        · left; omega
        · left; omega
        · right; exact ⟨by omega, polListCmp_trans o ho xs ys zs h1 h2⟩
theorem polListCmp_trans (o : AtomOrd) (ho : LawfulAtoms o) : (xs ys zs : PPolList) →
    polListCmp o xs ys = .lt → polListCmp o ys zs = .lt → polListCmp o xs zs = .lt
  | .nil, _, .nil, h1, h2 => by cases ‹PPolList› <;> simp [polListCmp] at h1 h2
  | .nil, _, .cons _ _ _, _, _ => by simp [polListCmp]
  | .cons _ _ _, .nil, _, h1, _ => by simp [polListCmp] at h1
  | .cons _ _ _, .cons _ _ _, .nil, _, h2 => by simp [polListCmp] at h2
  | .cons w x xs, .cons w' y ys, .cons w'' z zs, h1, h2 => by
    simp only [polListCmp, then_eq_lt, natCmp_lt, natCmp_eq, polCmp_eq_iff o ho] at h1 h2 ⊢
    rcases h1 with h1 | ⟨e1, h1 | ⟨ex, h1⟩⟩ <;> rcases h2 with h2 | ⟨e2, h2 | ⟨ey, h2⟩⟩
    · left; omega
    · left; omega
    · left; omega
    · left; omega
    · right; exact ⟨by omega, Or.inl (polCmp_trans o ho x y z h1 h2)⟩
    · right; subst ey; exact ⟨by omega, Or.inl h1⟩
    · left; omega
    · right; subst ex; exact ⟨by omega, Or.inl h2⟩
    · right; subst ex; subst ey; exact ⟨by omega, Or.inr ⟨rfl, polListCmp_trans o ho xs ys zs h1 h2⟩⟩
end

theorem polCmp_lawful (o : AtomOrd) (ho : LawfulAtoms o) : LawfulCmp (polCmp o) :=
  ⟨polCmp_eq_iff o ho, polCmp_swap o ho, polCmp_trans o ho⟩

end MsVerif.PolicyOrd

/-
C09 helper lemmas, part 1: measures of witness templates and how the satisfier's combinators
(`Wit.combine`, `Sat.concatenateRev`, `Sat.minimum`, `Sat.minimumMall`, `foldConcat`) act on
them; the bound predicates `Fits` / `SB`.
-/
import MsVerif.Model.Ext
import MsVerif.Model.Satisfy

namespace MsVerif.C09
open MsVerif

/-- bytes a template element occupies in a push-only scriptSig (`witness_to_scriptsig`):
like `Ph.size` except that `1` is the single opcode `OP_1` -/
def phSs : Ph → Nat
  | .pubkey _ s | .pubkeyHash _ s => s
  | .ecdsaSig _ | .ecdsaSigPkh _ => 73
  | .schnorrSig _ s | .schnorrSigPkh _ s => s + 1
  | .preimage _ _ | .hashDissat => 33
  | .pushOne => 1
  | .pushZero => 1

/-- serialized size of the elements (each with its length prefix), without the count -/
def wsz (w : List Ph) : Nat := (w.map Ph.size).sum
/-- size of the scriptSig pushing the elements -/
def wss (w : List Ph) : Nat := (w.map phSs).sum

@[simp] theorem wsz_nil : wsz [] = 0 := rfl
@[simp] theorem wss_nil : wss [] = 0 := rfl
@[simp] theorem wsz_cons (a : Ph) (w : List Ph) : wsz (a :: w) = a.size + wsz w := by simp [wsz]
@[simp] theorem wss_cons (a : Ph) (w : List Ph) : wss (a :: w) = phSs a + wss w := by simp [wss]
@[simp] theorem wsz_append (a b : List Ph) : wsz (a ++ b) = wsz a + wsz b := by simp [wsz]
@[simp] theorem wss_append (a b : List Ph) : wss (a ++ b) = wss a + wss b := by simp [wss]

/-- the template `w` stays within the figures `d`; the scriptSig figure is only claimed
outside tapscript (`e`) -/
def Fits (e : Bool) (w : List Ph) (d : SatData) : Prop :=
  w.length ≤ d.wCount ∧ wsz w ≤ d.wSize ∧ (e = true → wss w ≤ d.ssSize)

/-- whenever the satisfier's result is a stack, the library has a figure and the stack fits -/
def SB (e : Bool) (s : Sat) (od : Option SatData) : Prop :=
  ∀ w, s.stack = .stack w → ∃ d, od = some d ∧ Fits e w d

theorem SB_of_not_stack {e : Bool} {s : Sat} {od : Option SatData}
    (h : ∀ w, s.stack ≠ .stack w) : SB e s od := fun w hw => absurd hw (h w)

/-! ### `Wit.combine`, `concatenateRev` -/

theorem combine_stack {a b : Wit} {w : List Ph} (h : Wit.combine a b = .stack w) :
    ∃ wa wb, a = .stack wa ∧ b = .stack wb ∧ w = wa ++ wb := by
  cases a <;> cases b <;> simp [Wit.combine] at h
  exact ⟨_, _, rfl, rfl, h.symm⟩

theorem concatenateRev_stack_eq (a b : Sat) :
    (a.concatenateRev b).stack = .impossible
      ∨ (a.concatenateRev b).stack = Wit.combine b.stack a.stack := by
  unfold Sat.concatenateRev
  cases hr : a.rel <;> cases hr2 : b.rel <;> cases ha : a.abs <;> cases ha2 : b.abs <;>
    simp only [Sat.IMPOSSIBLE] <;> (repeat' split) <;> simp_all

theorem concatenateRev_stack {a b : Sat} {w : List Ph}
    (h : (a.concatenateRev b).stack = .stack w) :
    ∃ wa wb, a.stack = .stack wa ∧ b.stack = .stack wb ∧ w = wb ++ wa := by
  rcases concatenateRev_stack_eq a b with h' | h'
  · rw [h'] at h; cases h
  · rw [h'] at h
    obtain ⟨wb, wa, hb, ha, hw⟩ := combine_stack h
    exact ⟨wa, wb, ha, hb, hw⟩

/-- a combinator of figures whose three size fields add up -/
def Additive (f : SatData → SatData → SatData) : Prop :=
  ∀ x y, (f x y).wCount = x.wCount + y.wCount ∧ (f x y).wSize = x.wSize + y.wSize
    ∧ (f x y).ssSize = x.ssSize + y.ssSize

theorem additive_catB : Additive catB := fun _ _ => ⟨rfl, rfl, rfl⟩
theorem additive_catV : Additive catV := fun _ _ => ⟨rfl, rfl, rfl⟩

theorem SB_concat {e : Bool} {a b : Sat} {da db : Option SatData} {f : SatData → SatData → SatData}
    (hf : Additive f) (ha : SB e a da) (hb : SB e b db) :
    SB e (a.concatenateRev b) (zipMap f da db) := by
  intro w hw
  obtain ⟨wa, wb, hsa, hsb, rfl⟩ := concatenateRev_stack hw
  obtain ⟨xa, rfl, ca, sa, ssa⟩ := ha wa hsa
  obtain ⟨xb, rfl, cb, sb, ssb⟩ := hb wb hsb
  obtain ⟨h1, h2, h3⟩ := hf xa xb
  refine ⟨f xa xb, rfl, ?_, ?_, ?_⟩
  · simp only [List.length_append]; omega
  · simp only [wsz_append]; omega
  · intro he; have := ssa he; have := ssb he; simp only [wss_append]; omega

/-! ### `minimum`, `minimumMall` -/

theorem minimum_stack {a b : Sat} {w : List Ph} (h : (Sat.minimum a b).stack = .stack w) :
    a.stack = .stack w ∨ b.stack = .stack w := by
  unfold Sat.minimum at h
  split at h
  · exact .inr h
  · split at h
    · exact .inl h
    · split at h
      · simp [Sat.UNAVAILABLE] at h
      · exact .inl h
      · exact .inr h
      · split at h
        · exact .inl h
        · exact .inr h

theorem minimumMall_stack {a b : Sat} {w : List Ph} (h : (Sat.minimumMall a b).stack = .stack w) :
    a.stack = .stack w ∨ b.stack = .stack w := by
  unfold Sat.minimumMall at h
  split at h
  · exact .inr h
  · split at h
    · exact .inl h
    · simp only at h
      split at h
      · exact .inl h
      · exact .inr h

theorem Fits_mono {e : Bool} {w : List Ph} {d d' : SatData} (h : Fits e w d)
    (h1 : d.wCount ≤ d'.wCount) (h2 : d.wSize ≤ d'.wSize) (h3 : d.ssSize ≤ d'.ssSize) :
    Fits e w d' :=
  ⟨Nat.le_trans h.1 h1, Nat.le_trans h.2.1 h2, fun he => Nat.le_trans (h.2.2 he) h3⟩

theorem fmaxOpt_left {x : SatData} (o : Option SatData) :
    ∃ y, SatData.fmaxOpt (some x) o = some y ∧ x.wCount ≤ y.wCount ∧ x.wSize ≤ y.wSize
      ∧ x.ssSize ≤ y.ssSize := by
  cases o with
  | none => exact ⟨x, rfl, Nat.le_refl _, Nat.le_refl _, Nat.le_refl _⟩
  | some z => exact ⟨x.fmax z, rfl, Nat.le_max_left _ _, Nat.le_max_left _ _, Nat.le_max_left _ _⟩

theorem fmaxOpt_right {x : SatData} (o : Option SatData) :
    ∃ y, SatData.fmaxOpt o (some x) = some y ∧ x.wCount ≤ y.wCount ∧ x.wSize ≤ y.wSize
      ∧ x.ssSize ≤ y.ssSize := by
  cases o with
  | none => exact ⟨x, rfl, Nat.le_refl _, Nat.le_refl _, Nat.le_refl _⟩
  | some z => exact ⟨z.fmax x, rfl, Nat.le_max_right _ _, Nat.le_max_right _ _, Nat.le_max_right _ _⟩

theorem SB_of_stack_or {e : Bool} {a b r : Sat} {da db : Option SatData}
    (hr : ∀ w, r.stack = .stack w → a.stack = .stack w ∨ b.stack = .stack w)
    (ha : SB e a da) (hb : SB e b db) : SB e r (SatData.fmaxOpt da db) := by
  intro w hw
  rcases hr w hw with h | h
  · obtain ⟨x, rfl, hx⟩ := ha w h
    obtain ⟨y, hy, h1, h2, h3⟩ := fmaxOpt_left (x := x) db
    exact ⟨y, hy, Fits_mono hx h1 h2 h3⟩
  · obtain ⟨x, rfl, hx⟩ := hb w h
    obtain ⟨y, hy, h1, h2, h3⟩ := fmaxOpt_right (x := x) da
    exact ⟨y, hy, Fits_mono hx h1 h2 h3⟩

theorem SB_minFn {e : Bool} (c : SatCfg) {a b : Sat} {da db : Option SatData}
    (ha : SB e a da) (hb : SB e b db) : SB e (c.minFn a b) (SatData.fmaxOpt da db) := by
  apply SB_of_stack_or _ ha hb
  intro w hw
  unfold SatCfg.minFn at hw
  split at hw
  · exact minimumMall_stack hw
  · exact minimum_stack hw

/-- appending fixed elements to the stack (`or_i`'s `1`/`0`, `d:`'s `1`) -/
theorem SB_push {e : Bool} {s : Sat} {od : Option SatData} (l : List Ph) (g : SatData → SatData)
    (hg : ∀ x, x.wCount + l.length ≤ (g x).wCount ∧ x.wSize + wsz l ≤ (g x).wSize
      ∧ x.ssSize + wss l ≤ (g x).ssSize)
    (h : SB e s od) :
    SB e { s with stack := Wit.combine s.stack (.stack l) } (od.map g) := by
  intro w hw
  obtain ⟨ws, wl, hs, hl, rfl⟩ := combine_stack hw
  cases hl
  obtain ⟨x, rfl, c1, c2, c3⟩ := h ws hs
  obtain ⟨g1, g2, g3⟩ := hg x
  refine ⟨g x, rfl, ?_, ?_, ?_⟩
  · simp only [List.length_append]; omega
  · simp only [wsz_append]; omega
  · intro he; have := c3 he; simp only [wss_append]; omega

/-! ### `foldConcat` -/

theorem foldl_concat_stack (l : List Sat) : ∀ (acc : Sat) (w : List Ph),
    (l.foldl Sat.concatenateRev acc).stack = .stack w →
    ∃ wacc, acc.stack = .stack wacc ∧ ∃ ws : List (List Ph),
      ws.length = l.length ∧ (∀ i (h1 : i < l.length) (h2 : i < ws.length), l[i].stack = .stack ws[i])
      ∧ w.length = wacc.length + (ws.map List.length).sum
      ∧ wsz w = wsz wacc + (ws.map wsz).sum ∧ wss w = wss wacc + (ws.map wss).sum := by
  induction l with
  | nil => intro acc w h; exact ⟨w, h, [], rfl, fun i h1 => absurd h1 (Nat.not_lt_zero _), by simp, by simp, by simp⟩
  | cons x xs ih =>
    intro acc w h
    simp only [List.foldl_cons] at h
    obtain ⟨w1, h1, ws, hlen, hall, e1, e2, e3⟩ := ih _ _ h
    obtain ⟨wa, wx, hacc, hx, rfl⟩ := concatenateRev_stack h1
    refine ⟨wa, hacc, wx :: ws, by simp [hlen], ?_, ?_, ?_, ?_⟩
    · intro i hi1 hi2
      cases i with
      | zero => simpa using hx
      | succ j => simpa using hall j (by simpa using hi1) (by simpa using hi2)
    · simp only [List.length_append] at e1; simp only [List.map_cons, List.sum_cons]; omega
    · simp only [wsz_append] at e2; simp only [List.map_cons, List.sum_cons]; omega
    · simp only [wss_append] at e3; simp only [List.map_cons, List.sum_cons]; omega

end MsVerif.C09

/-
C09 helper lemmas, part 6: the induction over the AST (`bound_ms` / `bound_list`).
-/
import MsVerif.Lemmas.BoundsMain

namespace MsVerif.C09
open MsVerif ExtData

variable (ke : KeyEnv) (ctx : Ctx) (mall rhs : Bool) (a : Assets)


theorem P_leafSB {ms : Ms}
    (h1 : SB (ess ctx) (satDissat (⟨ke, ctx, mall, rhs, a⟩ : SatCfg) ms).sat (extOf ke ctx ms).satData)
    (h2 : SB (ess ctx) (satDissat (⟨ke, ctx, mall, rhs, a⟩ : SatCfg) ms).dissat (extOf ke ctx ms).dissatData) :
    P ke ctx mall rhs a ms := ⟨h1, fun _ => h2⟩

mutual
theorem bound_ms (ha : AssetsOk ke ctx a) : (ms : Ms) → good ke ctx ms = true → P ke ctx mall rhs a ms
  | .tru, _ => by
    apply P_leafSB
    · exact SB_const (w := []) (by simp [satDissat, Sat.TRIVIAL]) (Fits_nil _ _)
    · simpa [satDissat] using SB_impossible _ _
  | .fls, _ => by
    apply P_leafSB
    · simpa [satDissat] using SB_impossible _ _
    · exact SB_const (w := []) (by simp [satDissat, Sat.TRIVIAL]) (Fits_nil _ _)
  | .pkK k, _ => by
    apply P_leafSB
    · simp only [satDissat, extOf, pkK_sat]
      intro w hw
      obtain ⟨p, rfl, p1, p2, p3⟩ := sigWit_stack ha hw
      exact ⟨_, rfl, by simp, by simpa using p2, fun _ => by simpa using p3⟩
    · simp only [satDissat, extOf, pkK_dis]
      exact SB_const (w := [.pushZero]) rfl ⟨by simp, by simp [Ph.size], fun _ => by simp [phSs]⟩
  | .pkH k, _ => by
    have hg := pkLen_le_keySig ke ctx k
    apply P_leafSB
    · simp only [satDissat, extOf, pkH_sat]
      intro w hw
      obtain ⟨ws, wp, hs, hp, rfl⟩ := combine_stack hw
      cases hp
      obtain ⟨p, rfl, p1, p2, p3⟩ := sigWit_stack ha hs
      have q1 : (Ph.pubkey k (pkLen ke ctx k)).size = pkLen ke ctx k := rfl
      have q2 : phSs (Ph.pubkey k (pkLen ke ctx k)) = pkLen ke ctx k := rfl
      refine ⟨_, rfl, by simp, ?_, fun _ => ?_⟩
      · simp only [wsz_append, wsz_cons, wsz_nil, q1]; omega
      · simp only [wss_append, wss_cons, wss_nil, q2]; omega
    · simp only [satDissat, extOf, pkH_dis]
      refine SB_const (w := [.pushZero, .pubkey k (pkLen ke ctx k)]) rfl ⟨by simp, ?_, fun _ => ?_⟩
      · simp [Ph.size]; omega
      · simp [phSs]; omega
  | .rawPkH h, _ => by
    have hu : (ctx == Ctx.bare || ctx == Ctx.legacy) = rawUnc ctx := rfl
    apply P_leafSB
    · simp only [satDissat, extOf, hu, pkH_sat]
      intro w hw
      cases hc : ctx.sigType with
      | schnorr =>
        rw [hc] at hw
        simp only at hw
        cases hr : a.rawPkhSchnorr h with
        | none => rw [hr] at hw; cases hw
        | some v =>
          obtain ⟨pk, sz⟩ := v
          rw [hr] at hw; cases hw
          have r1 := ha.rawSchnorr h pk sz hr
          have r2 := pkLen_le_rawKeySig ke ctx pk
          have hk : (keySig ctx false).2 = 66 := by simp [keySig, hc]
          refine ⟨_, rfl, by simp, ?_, fun _ => ?_⟩
          · simp [Ph.size]; omega
          · simp [phSs]; omega
      | ecdsa =>
        rw [hc] at hw
        simp only at hw
        cases hr : a.rawPkhEcdsa h with
        | none => rw [hr] at hw; cases hw
        | some pk =>
          rw [hr] at hw; cases hw
          have r2 := pkLen_le_rawKeySig ke ctx pk
          have hk : (keySig ctx false).2 = 73 := by simp [keySig, hc]
          refine ⟨_, rfl, by simp, ?_, fun _ => ?_⟩
          · simp [Ph.size]; omega
          · simp [phSs]; omega
    · simp only [satDissat, extOf, hu, pkH_dis]
      intro w hw
      obtain ⟨w0, wp, h0, hp, rfl⟩ := combine_stack hw
      cases h0
      cases hr : a.rawPkhPk h with
      | none => rw [hr] at hp; cases hp
      | some pk =>
        rw [hr] at hp; cases hp
        have r2 := pkLen_le_rawKeySig ke ctx pk
        refine ⟨_, rfl, by simp, ?_, fun _ => ?_⟩
        · simp [Ph.size]; omega
        · simp [phSs]; omega
  | .multi k ks, _ => by
    obtain ⟨h1, h2⟩ := multi_SB ha (ess ctx) k ks (ks.map (isUnc ke))
    exact P_leafSB ke ctx mall rhs a (by simpa [satDissat, extOf] using h1) (by simpa [satDissat, extOf] using h2)
  | .sortedMulti k ks, _ => by
    obtain ⟨h1, h2⟩ := multi_SB ha (ess ctx) k (sortKeys' ke ks) (ks.map (isUnc ke))
    exact P_leafSB ke ctx mall rhs a (by simpa [satDissat, extOf] using h1) (by simpa [satDissat, extOf] using h2)
  | .multiA k ks, hg => by
    simp only [good, Bool.and_eq_true, decide_eq_true_eq] at hg
    obtain ⟨rfl, hk⟩ := hg
    obtain ⟨h1, h2⟩ := multiA_SB ha k hk ks
    have e : ess Ctx.tap = false := by decide
    exact P_leafSB ke .tap mall rhs a (by simpa [satDissat, extOf, e] using h1) (by simpa [satDissat, extOf, e] using h2)
  | .sortedMultiA k ks, hg => by
    simp only [good, Bool.and_eq_true, decide_eq_true_eq] at hg
    obtain ⟨rfl, hk⟩ := hg
    obtain ⟨h1, h2⟩ := multiA_SB ha k hk (sortKeys' ke ks)
    rw [sortKeys'_length] at h1 h2
    have e : ess Ctx.tap = false := by decide
    exact P_leafSB ke .tap mall rhs a (by simpa [satDissat, extOf, e] using h1) (by simpa [satDissat, extOf, e] using h2)
  | .after n, _ => by
    apply P_leafSB
    · simp only [satDissat, extOf, ExtData.after]
      intro w hw
      split at hw
      · cases hw; exact ⟨_, rfl, Fits_nil _ _⟩
      · split at hw <;> cases hw
    · simpa [satDissat] using SB_impossible _ _
  | .older n, _ => by
    apply P_leafSB
    · simp only [satDissat, extOf, ExtData.older]
      intro w hw
      split at hw
      · cases hw; exact ⟨_, rfl, Fits_nil _ _⟩
      · split at hw <;> cases hw
    · simpa [satDissat] using SB_impossible _ _
  | .hash kind h, _ => by
    have hs : (extOf ke ctx (.hash kind h)).satData = some ⟨33, 1, 33, 2, 0⟩ := by
      cases kind <;> rfl
    have hd : (extOf ke ctx (.hash kind h)).dissatData = some ⟨33, 2, 33, 2, 0⟩ := by
      cases kind <;> rfl
    apply P_leafSB
    · rw [hs]; simp only [satDissat]
      intro w hw
      split at hw
      · cases hw; exact ⟨_, rfl, by simp, by simp [Ph.size], fun _ => by simp [phSs]⟩
      · cases hw
    · rw [hd]; simp only [satDissat]
      exact SB_const (w := [.hashDissat]) rfl ⟨by simp, by simp [Ph.size], fun _ => by simp [phSs]⟩
  | .alt x, hg => by
    simp only [good] at hg
    simpa [P, satDissat, extOf, castAlt, disOK] using bound_ms ha x hg
  | .swap x, hg => by
    simp only [good] at hg
    simpa [P, satDissat, extOf, castSwap, disOK] using bound_ms ha x hg
  | .check x, hg => by
    simp only [good] at hg
    simpa [P, satDissat, extOf, castCheck, disOK] using bound_ms ha x hg
  | .zeroNotEqual x, hg => by
    simp only [good] at hg
    simpa [P, satDissat, extOf, castZeroNotEqual, disOK] using bound_ms ha x hg
  | .dupIf x, hg => by
    simp only [good] at hg
    have ih := bound_ms ha x hg
    refine ⟨?_, fun _ => ?_⟩
    · simp only [satDissat, extOf, castDupIf]
      exact SB_push [.pushOne] _ dupIf_push ih.1
    · simp only [satDissat, extOf, castDupIf]
      exact SB_const (w := [.pushZero]) rfl ⟨by simp, by simp [Ph.size], fun _ => by simp [phSs]⟩
  | .verify x, hg => by
    simp only [good] at hg
    have ih := bound_ms ha x hg
    refine ⟨by simpa [satDissat, extOf, castVerify] using ih.1, fun _ => ?_⟩
    simpa [satDissat] using SB_impossible _ _
  | .nonZero x, hg => by
    simp only [good] at hg
    have ih := bound_ms ha x hg
    refine ⟨by simpa [satDissat, extOf, castNonZero] using ih.1, fun _ => ?_⟩
    simp only [satDissat, extOf, castNonZero]
    exact SB_const (w := [.pushZero]) rfl ⟨by simp, by simp [Ph.size], fun _ => by simp [phSs]⟩
  | .andB l r, hg => by
    simp only [good, Bool.and_eq_true] at hg
    have ihl := bound_ms ha l hg.1
    have ihr := bound_ms ha r hg.2
    refine ⟨?_, fun h => ?_⟩
    · simp only [satDissat, extOf, ExtData.andB]
      exact SB_concat additive_catB ihl.1 ihr.1
    · simp only [disOK, Bool.and_eq_true] at h
      simp only [satDissat, extOf, ExtData.andB]
      exact SB_concat additive_catB (ihl.2 h.1) (ihr.2 h.2)
  | .andV l r, hg => by
    simp only [good, Bool.and_eq_true] at hg
    have ihl := bound_ms ha l hg.1
    have ihr := bound_ms ha r hg.2
    refine ⟨?_, fun h => ?_⟩
    · simp only [satDissat, extOf, ExtData.andV]
      exact SB_concat additive_catV ihl.1 ihr.1
    · simp only [disOK] at h
      simp only [satDissat]
      exact SB_of_not_stack (concat_not_stack_right (noDis_sound _ r h))
  | .andOr x y z, hg => by
    simp only [good, Bool.and_eq_true] at hg
    obtain ⟨⟨⟨gx, gy⟩, gz⟩, cx⟩ := hg
    have ihx := bound_ms ha x gx
    have ihy := bound_ms ha y gy
    have ihz := bound_ms ha z gz
    have dx := ihx.2 cx
    refine ⟨?_, fun h => ?_⟩
    · simp only [satDissat, extOf, ExtData.andOr]
      exact SB_minFn _ (SB_concat additive_catV ihx.1 ihy.1) (SB_concat additive_catV dx ihz.1)
    · simp only [disOK, Bool.and_eq_true] at h
      simp only [satDissat, extOf, ExtData.andOr]
      exact SB_concat additive_catV dx (ihz.2 h.2)
  | .orB l r, hg => by
    simp only [good, Bool.and_eq_true] at hg
    obtain ⟨⟨⟨gl, gr⟩, cl⟩, cr⟩ := hg
    have ihl := bound_ms ha l gl
    have ihr := bound_ms ha r gr
    have dl := ihl.2 cl
    have dr := ihr.2 cr
    refine ⟨?_, fun _ => ?_⟩
    · simp only [satDissat, extOf, ExtData.orB]
      apply SB_of_stack_or _ (SB_concat additive_catB ihl.1 dr) (SB_concat additive_catB dl ihr.1)
      intro w hw
      exact (minFn_stack _ hw).symm
    · simp only [satDissat, extOf, ExtData.orB]
      exact SB_concat additive_catB dl dr
  | .orD l r, hg => by
    simp only [good, Bool.and_eq_true] at hg
    obtain ⟨⟨gl, gr⟩, cl⟩ := hg
    have ihl := bound_ms ha l gl
    have ihr := bound_ms ha r gr
    have dl := ihl.2 cl
    refine ⟨?_, fun h => ?_⟩
    · simp only [satDissat, extOf, ExtData.orD]
      exact SB_minFn _ ihl.1 (SB_concat additive_catV dl ihr.1)
    · simp only [disOK, Bool.and_eq_true] at h
      simp only [satDissat, extOf, ExtData.orD]
      exact SB_concat additive_catV dl (ihr.2 h.2)
  | .orC l r, hg => by
    simp only [good, Bool.and_eq_true] at hg
    obtain ⟨⟨gl, gr⟩, cl⟩ := hg
    have ihl := bound_ms ha l gl
    have ihr := bound_ms ha r gr
    have dl := ihl.2 cl
    refine ⟨?_, fun _ => ?_⟩
    · simp only [satDissat, extOf, ExtData.orC]
      exact SB_minFn _ ihl.1 (SB_concat additive_catV dl ihr.1)
    · simpa [satDissat] using SB_impossible _ _
  | .orI l r, hg => by
    simp only [good, Bool.and_eq_true] at hg
    obtain ⟨gl, gr⟩ := hg
    have ihl := bound_ms ha l gl
    have ihr := bound_ms ha r gr
    refine ⟨?_, fun h => ?_⟩
    · simp only [satDissat, extOf, ExtData.orI]
      exact SB_minFn _ (SB_push [.pushOne] with1 with1_push ihl.1) (SB_push [.pushZero] with0 with0_push ihr.1)
    · simp only [disOK, Bool.and_eq_true] at h
      simp only [satDissat, extOf, ExtData.orI]
      exact SB_minFn _ (SB_push [.pushOne] with1 with1_push (ihl.2 h.1))
        (SB_push [.pushZero] with0 with0_push (ihr.2 h.2))
  | .thresh k xs, hg => by
    simp only [good] at hg
    obtain ⟨hall, hhd⟩ := bound_list ha xs hg
    refine ⟨?_, fun _ => ?_⟩
    · simp only [satDissat, extOf]
      intro w hw
      obtain ⟨ch, hlen, hcnt, hfc⟩ := thresh_sat_choice (⟨ke, ctx, mall, rhs, a⟩ : SatCfg) k _ w hw
      obtain ⟨ws, hst, e1, e2, e3⟩ := foldConcat_stacks hfc
      obtain ⟨z1, z0, z2, z3, z4, z5, z6⟩ := chosen_bound (ess ctx) _ _ ch ws hall hlen hst
      obtain ⟨d, hd, b1, b2, b3⟩ := threshold_sat_bound k (extsOf ke ctx xs) _ z1 z3
        (by rw [z2, z0]; exact hcnt)
        (fun x hx => hhd x.1 (by rw [← z1]; exact List.mem_map_of_mem hx))
      refine ⟨d, hd, by omega, by omega, fun he => ?_⟩
      have := z6 he; omega
    · simp only [satDissat, extOf, threshold_dissat]
      intro w hw
      obtain ⟨ws, hst, e1, e2, e3⟩ := foldConcat_stacks hw
      obtain ⟨d, hd, i1, i2, i3⟩ := thresh_dissat_fold (ess ctx) _ _ ws ⟨0, 0, 0, 0, 0⟩ hall hst
      refine ⟨d, hd, by simp only at i1; omega, by simp only at i2; omega, fun he => ?_⟩
      have := i3 he; simp only at this; omega
theorem bound_list (ha : AssetsOk ke ctx a) : (xs : MsList) → goods ke ctx xs = true →
    AllSB (ess ctx) (satDissats (⟨ke, ctx, mall, rhs, a⟩ : SatCfg) xs) (extsOf ke ctx xs)
      ∧ ∀ p ∈ tv0 (extsOf ke ctx xs), p.2.isSome = true
  | .nil, _ => by simp [satDissats, extsOf, AllSB, tv0]
  | .cons x xs, hg => by
    simp only [goods, Bool.and_eq_true] at hg
    obtain ⟨⟨⟨gx, cx⟩, hx⟩, gxs⟩ := hg
    have ihx := bound_ms ha x gx
    obtain ⟨ih1, ih2⟩ := bound_list ha xs gxs
    simp only [satDissats, extsOf, AllSB, tv0, List.map_cons, List.mem_cons]
    refine ⟨⟨⟨ihx.1, ihx.2 cx⟩, ih1⟩, ?_⟩
    rintro p (rfl | hp)
    · exact hx
    · exact ih2 p hp
end

end MsVerif.C09

/-
Bridge theorem, part 4: `push_verify`.

* `pushVerify_cases` : either the script ends in a fusable opcode `o` and `pushVerify` replaces
  it by its `*VERIFY` form `ov`, or `OP_VERIFY` is appended;
* `fuse_opc` : a counted `ov` = counted `o` followed by an uncounted VERIFY (`vfy`), provided
  the boolean pushed in between cannot hit the stack-size limit (`StkOk`).

Core Lean only.
-/
import MsVerif.Lemmas.BridgeStk

namespace MsVerif.Bridge
open MsVerif MsVerif.Script

/-- the uncounted VERIFY that `frag` performs after a fused opcode -/
def vfy (c : Core) : Except Err Core :=
  match c.stack with
  | a :: r => if castToBool a then .ok { c with stack := r } else .error .verifyFailed
  | [] => .error .stackUnderflow

/-- rust-bitcoin's `opcode_to_verify` -/
def Fuse (o ov : Opc) : Prop :=
  (o = .equal ∧ ov = .equalverify) ∨ (o = .numequal ∧ ov = .numequalverify) ∨
  (o = .checksig ∧ ov = .checksigverify) ∨ (o = .checkmultisig ∧ ov = .checkmultisigverify)

theorem Fuse.plain {o ov : Opc} (h : Fuse o ov) : Opc.plain o = true ∧ Opc.plain ov = true := by
  rcases h with ⟨rfl, rfl⟩ | ⟨rfl, rfl⟩ | ⟨rfl, rfl⟩ | ⟨rfl, rfl⟩ <;> exact ⟨rfl, rfl⟩

theorem eq_dropLast_append_of_getLast? {α} (s : List α) (a : α) (h : s.getLast? = some a) :
    s = s.dropLast ++ [a] := by
  induction s with
  | nil => cases h
  | cons x xs ih =>
    cases xs with
    | nil => simp at h; simp [h]
    | cons y ys =>
      rw [List.getLast?_cons_cons] at h
      rw [List.dropLast_cons_cons, List.cons_append, ← ih h]

theorem pushVerify_cases (s : List Op) :
    (∃ pre o ov, Fuse o ov ∧ s = pre ++ [.code o] ∧ pushVerify s = pre ++ [.code ov] ∧ endsFusable s = true)
    ∨ (pushVerify s = s ++ [.code .verify] ∧ endsFusable s = false) := by
  cases h : s.getLast? with
  | none => right; simp [pushVerify, endsFusable, h]
  | some op =>
    have hs := eq_dropLast_append_of_getLast? s op h
    cases op with
    | code o =>
      cases o
      case equal =>
        exact .inl ⟨s.dropLast, .equal, .equalverify, .inl ⟨rfl, rfl⟩, hs, by simp [pushVerify, h], by simp [endsFusable, h]⟩
      case numequal =>
        exact .inl ⟨s.dropLast, .numequal, .numequalverify, .inr (.inl ⟨rfl, rfl⟩), hs, by simp [pushVerify, h], by simp [endsFusable, h]⟩
      case checksig =>
        exact .inl ⟨s.dropLast, .checksig, .checksigverify, .inr (.inr (.inl ⟨rfl, rfl⟩)), hs, by simp [pushVerify, h], by simp [endsFusable, h]⟩
      case checkmultisig =>
        exact .inl ⟨s.dropLast, .checkmultisig, .checkmultisigverify, .inr (.inr (.inr ⟨rfl, rfl⟩)), hs, by simp [pushVerify, h], by simp [endsFusable, h]⟩
      all_goals (right; simp [pushVerify, endsFusable, h])
    | _ => right; simp [pushVerify, endsFusable, h]

/-! ### `o ; VERIFY` = `o_VERIFY` -/

theorem castToBool_boolBytes (b : Bool) : castToBool (boolBytes b) = b := by
  cases b <;> rfl

theorem boolBytes_length (b : Bool) : (boolBytes b).length ≤ 1 := by
  cases b <;> simp [boolBytes]

/-- pushing a boolean onto a stack that has room -/
theorem pushElem_bool (env : Env) (stk alt : List Bytes) (n : Nat) (b : Bool)
    (h : env.flags.stackLimits = true → stk.length + 1 + alt.length ≤ 1000) :
    pushElem env ⟨stk, alt, n⟩ (boolBytes b) = .ok ⟨boolBytes b :: stk, alt, n⟩ := by
  unfold pushElem
  dsimp only
  have hb := boolBytes_length b
  rw [if_neg, if_neg]
  · simp only [Bool.and_eq_true, decide_eq_true_eq, List.length_cons, not_and, Nat.not_lt]
    intro hl; have := h hl; omega
  · simp only [Bool.and_eq_true, decide_eq_true_eq, not_and, Nat.not_lt]
    intro _; omega

theorem pushBool_vfy (env : Env) (stk alt : List Bytes) (n : Nat) (b : Bool)
    (h : env.flags.stackLimits = true → stk.length + 1 + alt.length ≤ 1000) :
    (pushElem env ⟨stk, alt, n⟩ (boolBytes b) >>= vfy)
      = if b then .ok ⟨stk, alt, n⟩ else .error .verifyFailed := by
  rw [pushElem_bool env stk alt n b h]
  simp only [bind_ok, vfy, castToBool_boolBytes]

theorem fuse_multisig (env : Env) (c : Core) (h : StkOk env c) :
    multisig env c true = (multisig env c false >>= vfy) := by
  unfold multisig
  dsimp only
  split
  · rfl
  · split
    · rename_i nB r hstk
      split
      · rfl
      · split
        · rfl
        · split
          · rfl
          · rename_i s hcnt
            have hs := countOp_stack env c s _ hcnt
            split
            · rfl
            · split
              · rename_i mB r1 hr1
                split
                · rfl
                · split
                  · rfl
                  · split
                    · rfl
                    · split
                      · rename_i dummy r2 hr2
                        split
                        · rfl
                        · split
                          · rfl
                          · split
                            · rfl
                            · rename_i ok _ _ _
                              simp only [if_true, Bool.false_eq_true, if_false]
                              rw [pushBool_vfy]
                              intro hl
                              have h1 := h hl
                              have l1 := congrArg List.length hr1
                              have l2 := congrArg List.length hr2
                              simp only [List.length_drop, List.length_cons] at l1 l2
                              rw [hstk] at h1
                              simp only [List.length_cons] at h1
                              rw [hs.2]
                              omega
                      · rfl
              · rfl
    · rfl

theorem fuse_execOpc (env : Env) (o ov : Opc) (hf : Fuse o ov) (c : Core) (h : StkOk env c) :
    execOpc env ov c = (execOpc env o c >>= vfy) := by
  obtain ⟨stk, alt, n⟩ := c
  have hroom : ∀ (a b : Bytes) (r : List Bytes), stk = a :: b :: r →
      env.flags.stackLimits = true → r.length + 1 + alt.length ≤ 1000 := by
    intro a b r hstk hl
    have := h hl
    rw [hstk] at this
    simp only [List.length_cons] at this
    omega
  rcases hf with ⟨rfl, rfl⟩ | ⟨rfl, rfl⟩ | ⟨rfl, rfl⟩ | ⟨rfl, rfl⟩
  · -- EQUAL
    rcases stk with _ | ⟨a, _ | ⟨b, r⟩⟩
    · rfl
    · rfl
    · simp only [execOpc]
      rw [pushBool_vfy env r alt n (a == b) (hroom a b r rfl)]
  · -- NUMEQUAL
    rcases stk with _ | ⟨a, _ | ⟨b, r⟩⟩
    · rfl
    · rfl
    · simp only [execOpc]
      cases num4 env a with
      | error e => rfl
      | ok x =>
        cases num4 env b with
        | error e => rfl
        | ok y =>
          simp only [bind_ok]
          rw [pushBool_vfy env r alt n (x == y) (hroom a b r rfl)]
  · -- CHECKSIG
    rcases stk with _ | ⟨a, _ | ⟨b, r⟩⟩
    · rfl
    · rfl
    · simp only [execOpc]
      cases checkSig env b a with
      | error e => rfl
      | ok x =>
        simp only [bind_ok]
        rw [pushBool_vfy env r alt n x (hroom a b r rfl)]
  · -- CHECKMULTISIG
    have h1 : execOpc env .checkmultisigverify ⟨stk, alt, n⟩ = multisig env ⟨stk, alt, n⟩ true := by
      unfold execOpc; rfl
    have h2 : execOpc env .checkmultisig ⟨stk, alt, n⟩ = multisig env ⟨stk, alt, n⟩ false := by
      unfold execOpc; rfl
    rw [h1, h2]
    exact fuse_multisig env _ h

theorem fuse_opc (env : Env) (o ov : Opc) (hf : Fuse o ov) (c : Core) (h : StkOk env c) :
    opc env ov c = (opc env o c >>= vfy) := by
  unfold opc
  cases hc : countOp env c 1 with
  | error e => rfl
  | ok c1 => exact fuse_execOpc env o ov hf c1 (good_countOp env c 1 h c1 hc)

end MsVerif.Bridge

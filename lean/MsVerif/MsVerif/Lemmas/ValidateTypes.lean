/-
Helper lemmas for C12: the library's whole-fragment type (`typeOf`) agrees with the
specification's (`specTy`) on every AST whose thresholds are in range — composition of the
rule-by-rule theorems of C05 and the finite tables of ValidateTypesTab.lean.
-/
import MsVerif.Lemmas.ValidateTypesTab

namespace MsVerif
open Spec

/-! ### `andor`: C05's exact rule plus monotonicity of the specification's rule in `u` -/

theorem C_andOr_upg (x y z : SCorr) (bx by' bz : Bool) (r : SCorr) (h : C.andOr x y z = some r) :
    ∃ b, C.andOr (upg bx x) (upg by' y) (upg bz z) = some (upg b r) := by
  unfold C.andOr at h ⊢
  split at h
  · rename_i hc
    obtain ⟨h1, h2, h3, h4, h5⟩ := hc
    simp only [Option.some.injEq] at h
    subst h
    refine ⟨(y.u || by') && (z.u || bz), ?_⟩
    have hcond : (upg bx x).base = SBase.B ∧ (upg bx x).d = true ∧ (upg bx x).u = true ∧
        (upg by' y).base = (upg bz z).base ∧ (upg by' y).base ≠ SBase.W := by
      refine ⟨h1, h2, ?_, h4, h5⟩
      show (x.u || bx) = true
      rw [h3]; rfl
    rw [if_pos hcond]
    simp only [upg, Option.some.injEq, SCorr.mk.injEq, true_and]
    cases y.u <;> cases z.u <;> cases by' <;> cases bz <;> rfl
  · simp at h

theorem andOr_step {x y z r : Corr} (e : Corr.andOr x y z = some r) (bx by' bz : Bool) :
    ∃ τ, C.andOr (upg bx x.toSpec) (upg by' y.toSpec) (upg bz z.toSpec) = some τ ∧ RelC r τ := by
  have h := C05.corr_andor x y z
  rw [e] at h
  cases hs : C.andOr x.toSpec y.toSpec z.toSpec with
  | none => simp [eqC, hs] at h
  | some s =>
    simp only [eqC, hs, beq_iff_eq] at h
    obtain ⟨b, hb⟩ := C_andOr_upg _ _ _ bx by' bz s hs
    exact ⟨_, hb, b, by rw [h]⟩

/-! ### thresholds -/

theorem all_z_upg (xs : List SCorr) (ys : List SCorr)
    (h : All2 (fun x y => ∃ b, y = upg b x) xs ys) :
    ys.all (·.z) = xs.all (·.z) ∧ (ys.filter (fun x => !x.z)).map (·.o)
      = (xs.filter (fun x => !x.z)).map (·.o) := by
  induction h with
  | nil => simp
  | cons hxy _ ih =>
    obtain ⟨b, rfl⟩ := hxy
    simp only [List.all_cons, upg, ih.1, List.filter_cons, true_and]
    split <;> simp [ih.2]

theorem threshO_upg (xs ys : List SCorr)
    (h : All2 (fun x y => ∃ b, y = upg b x) xs ys) : C.threshO ys = C.threshO xs := by
  have := (all_z_upg xs ys h).2
  unfold C.threshO
  generalize ys.filter (fun x => !x.z) = fy at this
  generalize xs.filter (fun x => !x.z) = fx at this
  match fy, fx, this with
  | [], [], _ => rfl
  | [a], [b], h => simp at h; simp [h]
  | [], _ :: _, h => simp at h
  | _ :: _, [], h => simp at h
  | [_], _ :: _ :: _, h => simp at h
  | _ :: _ :: _, [_], h => simp at h
  | _ :: _ :: _, _ :: _ :: _, _ => rfl

theorem C_thresh_upg (k : Nat) (xs ys : List SCorr) (r : SCorr)
    (h : All2 (fun x y => ∃ b, y = upg b x) xs ys) (e : C.thresh k xs = some r) :
    C.thresh k ys = some r := by
  cases h with
  | nil => simp [C.thresh] at e
  | @cons x y xs' ys' hxy hrest =>
    obtain ⟨b, rfl⟩ := hxy
    have hall := all_z_upg _ _ (All2.cons (a := x) (b := upg b x) ⟨b, rfl⟩ hrest)
    have hO := threshO_upg _ _ (All2.cons (a := x) (b := upg b x) ⟨b, rfl⟩ hrest)
    unfold C.thresh at e ⊢
    simp only at e ⊢
    split at e
    · rename_i hc
      obtain ⟨h1, h2, h3, h4⟩ := hc
      have hrest' : ys'.all (fun x => decide (x.base = .W) && x.d && x.u) = true := by
        clear e hall hO
        induction hrest with
        | nil => rfl
        | cons hab _ ih =>
          obtain ⟨c, rfl⟩ := hab
          simp only [List.all_cons, Bool.and_eq_true] at h4 ⊢
          refine ⟨?_, ih h4.2⟩
          obtain ⟨⟨p1, p2⟩, p3⟩ := h4.1
          simp [upg, p1, p2, p3]
            <;> simp_all
      rw [if_pos ⟨by simp [upg, h1], by simp [upg, h2], by simp [upg, h3], hrest'⟩]
      simp only [Option.some.injEq] at e ⊢
      rw [← e, hall.1, hO]
    · simp at e

/-! ### K-typed results are signed -/

theorem andV_base {l r y : Corr} (e : Corr.andV l r = some y) : y.base = r.base := by
  unfold Corr.andV at e
  cases hl : l.base <;> cases hr : r.base <;> simp [hl, hr] at e <;> subst e <;> rfl

theorem orI_base {l r y : Corr} (e : Corr.orI l r = some y) : y.base = l.base ∧ y.base = r.base := by
  unfold Corr.orI at e
  cases hl : l.base <;> cases hr : r.base <;> simp [hl, hr] at e <;> subst e <;> exact ⟨rfl, rfl⟩

theorem andOr_base {a b c y : Corr} (e : Corr.andOr a b c = some y) :
    y.base = b.base ∧ y.base = c.base := by
  unfold Corr.andOr at e
  cases ha : a.base <;> cases hb : b.base <;> cases hc : c.base <;> cases a.dissat <;>
    cases a.unit <;> simp [ha, hb, hc] at e <;> (obtain ⟨_, _, rfl⟩ := e; exact ⟨rfl, rfl⟩)

theorem andV_signed (a b : Mall) : (Mall.andV a b).signed = (a.signed || b.signed) := by
  have := C05.mall_and_v a b
  have h2 := congrArg SMall.s this
  simpa [Mall.toSpec, M.andV] using h2

theorem orI_signed (a b : Mall) : (Mall.orI a b).signed = (a.signed && b.signed) := by
  have := C05.mall_or_i a b
  have h2 := congrArg SMall.s this
  simpa [Mall.toSpec, M.orI] using h2

theorem andOr_signed (a b c : Mall) :
    (Mall.andOr a b c).signed = (c.signed && (a.signed || b.signed)) := by
  have := C05.mall_andor a b c
  have h2 := congrArg SMall.s this
  simpa [Mall.toSpec, M.andOr] using h2

/-! ### generic steps -/

theorem kz_of_reach {c : Corr} (h : Reach c) : c.kz = false := Reach.K_not_zero h

theorem step1 {noK : Bool} {fc : Corr → Option Corr} {fm : Mall → Mall}
    {gc : SCorr → Option SCorr} {gm : SMall → SMall} (hok : unaryOK noK fc gc = true) {tx : Ty} {τx : STy}
    (g : Good tx τx) (hm : (fm tx.mall).toSpec = gm tx.mall.toSpec) {ty : Ty}
    (h : Ty.lift1 fc fm tx = some ty) (hreach : ∀ y, fc tx.corr = some y → Reach y)
    (hk : ty.corr.base = .K → ty.mall.signed = true) :
    ∃ τ, ((gc τx.c).map fun c => (⟨c, gm τx.m⟩ : STy)) = some τ ∧ Good ty τ := by
  unfold Ty.lift1 at h
  cases e : fc tx.corr with
  | none => simp [e] at h
  | some y =>
    simp only [e, Option.some.injEq] at h
    subst h
    obtain ⟨b, hb⟩ := g.relc
    obtain ⟨_, τ, hτ, hrel⟩ := unaryOK_sound hok b (kz_of_reach g.reach) e
    refine ⟨⟨τ, gm τx.m⟩, by rw [hb, hτ]; rfl, ⟨hreach y e, hk, hrel, ?_⟩⟩
    simp only [g.relm, hm]

theorem step2 {noK : Bool} {fc : Corr → Corr → Option Corr} {fm : Mall → Mall → Mall}
    {gc : SCorr → SCorr → Option SCorr} {gm : SMall → SMall → SMall} (hok : binaryOK noK fc gc = true) {tl tr : Ty} {τl τr : STy}
    (gl : Good tl τl) (gr : Good tr τr)
    (hm : (fm tl.mall tr.mall).toSpec = gm tl.mall.toSpec tr.mall.toSpec) {ty : Ty}
    (h : Ty.lift2 fc fm tl tr = some ty) (hreach : ∀ y, fc tl.corr tr.corr = some y → Reach y)
    (hk : ∀ y, fc tl.corr tr.corr = some y → y.base = .K → (fm tl.mall tr.mall).signed = true) :
    ∃ τ, ((gc τl.c τr.c).map fun c => (⟨c, gm τl.m τr.m⟩ : STy)) = some τ ∧ Good ty τ := by
  unfold Ty.lift2 at h
  cases e : fc tl.corr tr.corr with
  | none => simp [e] at h
  | some y =>
    simp only [e, Option.some.injEq] at h
    subst h
    obtain ⟨b, hb⟩ := gl.relc
    obtain ⟨c, hc⟩ := gr.relc
    obtain ⟨_, τ, hτ, hrel⟩ :=
      binaryOK_sound hok b c (kz_of_reach gl.reach) (kz_of_reach gr.reach) e
    refine ⟨⟨τ, gm τl.m τr.m⟩, by rw [hb, hc, hτ]; rfl, ⟨hreach y e, hk y e, hrel, ?_⟩⟩
    simp only [gl.relm, gr.relm, hm]

/-- leaves: the library's constant is the specification's row -/
theorem good_leaf {ty : Ty} {c : SCorr} {m : SMall} (h : ty.toSpec = ⟨c, m⟩) (hr : Reach ty.corr)
    (hk : ty.corr.base = .K → ty.mall.signed = true) : Good ty ⟨c, m⟩ := by
  have h1 : ty.corr.toSpec = c := congrArg STy.c h
  have h2 : ty.mall.toSpec = m := congrArg STy.m h
  exact ⟨hr, hk, ⟨false, by simp [upg, ← h1]⟩, h2.symm⟩

theorem All2_good_reach {tys : List Ty} {τs : List STy} (h : All2 Good tys τs) :
    ∀ t ∈ tys, Reach t.corr := by
  induction h with
  | nil => intro t ht; cases ht
  | cons hg _ ih =>
    intro t ht
    rcases List.mem_cons.mp ht with rfl | ht'
    · exact hg.reach
    · exact ih t ht'

theorem All2_good_relc {tys : List Ty} {τs : List STy} (h : All2 Good tys τs) :
    All2 (fun x y => ∃ b, y = upg b x) ((tys.map (·.corr)).map Corr.toSpec) (τs.map (·.c)) := by
  induction h with
  | nil => exact All2.nil
  | cons hg _ ih => exact All2.cons hg.relc ih

theorem All2_good_malls {tys : List Ty} {τs : List STy} (h : All2 Good tys τs) :
    τs.map (·.m) = (tys.map (·.mall)).map Mall.toSpec := by
  induction h with
  | nil => rfl
  | cons hg _ ih => simp only [List.map_cons, ih, hg.relm]

/-! ### the induction over the AST -/

mutual
theorem typeBridge_ms (tap : Bool) : (ms : Ms) → ruleRange ms = true → ∀ ty, typeOf ms = some ty →
    ∃ τ, specTy tap ms = some τ ∧ Good ty τ
  | .tru, _, ty, h => by
    simp only [typeOf, Option.some.injEq] at h; subst h
    exact ⟨_, rfl, good_leaf C05.leaf_true Reach.tru (by decide)⟩
  | .fls, _, ty, h => by
    simp only [typeOf, Option.some.injEq] at h; subst h
    exact ⟨_, rfl, good_leaf C05.leaf_false Reach.fls (by decide)⟩
  | .pkK _, _, ty, h => by
    simp only [typeOf, Option.some.injEq] at h; subst h
    exact ⟨_, rfl, good_leaf C05.leaf_pk_k Reach.pkK (by decide)⟩
  | .pkH _, _, ty, h => by
    simp only [typeOf, Option.some.injEq] at h; subst h
    exact ⟨_, rfl, good_leaf C05.leaf_pk_h Reach.pkH (by decide)⟩
  | .rawPkH _, _, ty, h => by
    simp only [typeOf, Option.some.injEq] at h; subst h
    exact ⟨_, rfl, good_leaf C05.leaf_pk_h Reach.pkH (by decide)⟩
  | .after _, _, ty, h => by
    simp only [typeOf, Option.some.injEq] at h; subst h
    exact ⟨_, rfl, good_leaf C05.leaf_time Reach.time (by decide)⟩
  | .older _, _, ty, h => by
    simp only [typeOf, Option.some.injEq] at h; subst h
    exact ⟨_, rfl, good_leaf C05.leaf_time Reach.time (by decide)⟩
  | .hash _ _, _, ty, h => by
    simp only [typeOf, Option.some.injEq] at h; subst h
    exact ⟨_, rfl, good_leaf C05.leaf_hash Reach.hash (by decide)⟩
  | .multi _ _, _, ty, h => by
    simp only [typeOf, Option.some.injEq] at h; subst h
    exact ⟨_, rfl, good_leaf C05.leaf_multi Reach.multi (by decide)⟩
  | .sortedMulti _ _, _, ty, h => by
    simp only [typeOf, Option.some.injEq] at h; subst h
    exact ⟨_, rfl, good_leaf C05.leaf_sortedmulti Reach.multi (by decide)⟩
  | .multiA _ _, _, ty, h => by
    simp only [typeOf, Option.some.injEq] at h; subst h
    exact ⟨_, rfl, good_leaf C05.leaf_multi_a Reach.multiA (by decide)⟩
  | .sortedMultiA _ _, _, ty, h => by
    simp only [typeOf, Option.some.injEq] at h; subst h
    exact ⟨_, rfl, good_leaf C05.leaf_sortedmulti_a Reach.multiA (by decide)⟩
  | .alt x, hr, ty, h => by
    simp only [ruleRange, everyNode, Bool.and_eq_true] at hr
    simp only [typeOf] at h
    cases hx : typeOf x with
    | none => simp [hx] at h
    | some tx =>
      simp only [hx, Option.bind_some] at h
      obtain ⟨τx, hτx, gx⟩ := typeBridge_ms tap x hr.2 tx hx
      have hb : ty.corr.base ≠ .K := by
        unfold Ty.castAlt Ty.lift1 at h
        cases e : Corr.castAlt tx.corr with
        | none => simp [e] at h
        | some y =>
          simp only [e, Option.some.injEq] at h; subst h
          exact (unaryOK_sound ok_a false (kz_of_reach gx.reach) e).1 rfl
      obtain ⟨τ, hτ, g⟩ := step1 ok_a gx (C05.mall_a tx.mall) h
        (fun y e => Reach.alt gx.reach e) (fun hk => absurd hk hb)
      exact ⟨τ, by simp only [specTy, hτx, Option.bind_some]; exact hτ, g⟩
  | .swap x, hr, ty, h => by
    simp only [ruleRange, everyNode, Bool.and_eq_true] at hr
    simp only [typeOf] at h
    cases hx : typeOf x with
    | none => simp [hx] at h
    | some tx =>
      simp only [hx, Option.bind_some] at h
      obtain ⟨τx, hτx, gx⟩ := typeBridge_ms tap x hr.2 tx hx
      have hb : ty.corr.base ≠ .K := by
        unfold Ty.castSwap Ty.lift1 at h
        cases e : Corr.castSwap tx.corr with
        | none => simp [e] at h
        | some y =>
          simp only [e, Option.some.injEq] at h; subst h
          exact (unaryOK_sound ok_s false (kz_of_reach gx.reach) e).1 rfl
      obtain ⟨τ, hτ, g⟩ := step1 ok_s gx (C05.mall_s tx.mall) h
        (fun y e => Reach.swap gx.reach e) (fun hk => absurd hk hb)
      exact ⟨τ, by simp only [specTy, hτx, Option.bind_some]; exact hτ, g⟩
  | .check x, hr, ty, h => by
    simp only [ruleRange, everyNode, Bool.and_eq_true] at hr
    simp only [typeOf] at h
    cases hx : typeOf x with
    | none => simp [hx] at h
    | some tx =>
      simp only [hx, Option.bind_some] at h
      obtain ⟨τx, hτx, gx⟩ := typeBridge_ms tap x hr.2 tx hx
      have hbK : tx.corr.base = .K ∧ ty.corr.base ≠ .K := by
        unfold Ty.castCheck Ty.lift1 at h
        cases e : Corr.castCheck tx.corr with
        | none => simp [e] at h
        | some y =>
          simp only [e, Option.some.injEq] at h; subst h
          refine ⟨?_, (unaryOK_sound ok_c false (kz_of_reach gx.reach) e).1 rfl⟩
          unfold Corr.castCheck at e
          cases hb : tx.corr.base <;> simp [hb] at e ⊢
      obtain ⟨τ, hτ, g⟩ := step1 ok_c gx
        (C05.mall_c_exact_on_signed tx.mall (gx.ksig hbK.1)) h
        (fun y e => Reach.check gx.reach e) (fun hk => absurd hk hbK.2)
      exact ⟨τ, by simp only [specTy, hτx, Option.bind_some]; exact hτ, g⟩
  | .dupIf x, hr, ty, h => by
    simp only [ruleRange, everyNode, Bool.and_eq_true] at hr
    simp only [typeOf] at h
    cases hx : typeOf x with
    | none => simp [hx] at h
    | some tx =>
      simp only [hx, Option.bind_some] at h
      obtain ⟨τx, hτx, gx⟩ := typeBridge_ms tap x hr.2 tx hx
      have hb : ty.corr.base ≠ .K := by
        unfold Ty.castDupIf Ty.lift1 at h
        cases e : Corr.castDupIf tx.corr with
        | none => simp [e] at h
        | some y =>
          simp only [e, Option.some.injEq] at h; subst h
          exact (unaryOK_sound (ok_d tap) false (kz_of_reach gx.reach) e).1 rfl
      obtain ⟨τ, hτ, g⟩ := step1 (ok_d tap) gx (C05.mall_d tx.mall) h
        (fun y e => Reach.dupIf gx.reach e) (fun hk => absurd hk hb)
      exact ⟨τ, by simp only [specTy, hτx, Option.bind_some]; exact hτ, g⟩
  | .verify x, hr, ty, h => by
    simp only [ruleRange, everyNode, Bool.and_eq_true] at hr
    simp only [typeOf] at h
    cases hx : typeOf x with
    | none => simp [hx] at h
    | some tx =>
      simp only [hx, Option.bind_some] at h
      obtain ⟨τx, hτx, gx⟩ := typeBridge_ms tap x hr.2 tx hx
      have hb : ty.corr.base ≠ .K := by
        unfold Ty.castVerify Ty.lift1 at h
        cases e : Corr.castVerify tx.corr with
        | none => simp [e] at h
        | some y =>
          simp only [e, Option.some.injEq] at h; subst h
          exact (unaryOK_sound ok_v false (kz_of_reach gx.reach) e).1 rfl
      obtain ⟨τ, hτ, g⟩ := step1 ok_v gx (C05.mall_v tx.mall) h
        (fun y e => Reach.verify gx.reach e) (fun hk => absurd hk hb)
      exact ⟨τ, by simp only [specTy, hτx, Option.bind_some]; exact hτ, g⟩
  | .nonZero x, hr, ty, h => by
    simp only [ruleRange, everyNode, Bool.and_eq_true] at hr
    simp only [typeOf] at h
    cases hx : typeOf x with
    | none => simp [hx] at h
    | some tx =>
      simp only [hx, Option.bind_some] at h
      obtain ⟨τx, hτx, gx⟩ := typeBridge_ms tap x hr.2 tx hx
      have hb : ty.corr.base ≠ .K := by
        unfold Ty.castNonZero Ty.lift1 at h
        cases e : Corr.castNonZero tx.corr with
        | none => simp [e] at h
        | some y =>
          simp only [e, Option.some.injEq] at h; subst h
          exact (unaryOK_sound ok_j false (kz_of_reach gx.reach) e).1 rfl
      obtain ⟨τ, hτ, g⟩ := step1 ok_j gx (C05.mall_j tx.mall) h
        (fun y e => Reach.nonZero gx.reach e) (fun hk => absurd hk hb)
      exact ⟨τ, by simp only [specTy, hτx, Option.bind_some]; exact hτ, g⟩
  | .zeroNotEqual x, hr, ty, h => by
    simp only [ruleRange, everyNode, Bool.and_eq_true] at hr
    simp only [typeOf] at h
    cases hx : typeOf x with
    | none => simp [hx] at h
    | some tx =>
      simp only [hx, Option.bind_some] at h
      obtain ⟨τx, hτx, gx⟩ := typeBridge_ms tap x hr.2 tx hx
      have hb : ty.corr.base ≠ .K := by
        unfold Ty.castZeroNotEqual Ty.lift1 at h
        cases e : Corr.castZeroNotEqual tx.corr with
        | none => simp [e] at h
        | some y =>
          simp only [e, Option.some.injEq] at h; subst h
          exact (unaryOK_sound ok_n false (kz_of_reach gx.reach) e).1 rfl
      obtain ⟨τ, hτ, g⟩ := step1 ok_n gx (C05.mall_n tx.mall) h
        (fun y e => Reach.zeroNotEqual gx.reach e) (fun hk => absurd hk hb)
      exact ⟨τ, by simp only [specTy, hτx, Option.bind_some]; exact hτ, g⟩
  | .andB l r, hr, ty, h => by
    simp only [ruleRange, everyNode, Bool.and_eq_true] at hr
    simp only [typeOf] at h
    cases hl : typeOf l with
    | none => simp [hl] at h
    | some tl =>
      cases hrr : typeOf r with
      | none => simp [hl, hrr] at h
      | some tr =>
        simp only [hl, hrr] at h
        obtain ⟨τl, hτl, gl⟩ := typeBridge_ms tap l hr.1.2 tl hl
        obtain ⟨τr, hτr, gr⟩ := typeBridge_ms tap r hr.2 tr hrr
        obtain ⟨τ, hτ, g⟩ := step2 ok_andB gl gr (C05.mall_and_b tl.mall tr.mall) h
          (fun y e => Reach.andB gl.reach gr.reach e)
          (fun y e hk => absurd hk ((binaryOK_sound ok_andB false false (kz_of_reach gl.reach)
            (kz_of_reach gr.reach) e).1 rfl))
        exact ⟨τ, by simp only [specTy, hτl, hτr]; exact hτ, g⟩
  | .andV l r, hr, ty, h => by
    simp only [ruleRange, everyNode, Bool.and_eq_true] at hr
    simp only [typeOf] at h
    cases hl : typeOf l with
    | none => simp [hl] at h
    | some tl =>
      cases hrr : typeOf r with
      | none => simp [hl, hrr] at h
      | some tr =>
        simp only [hl, hrr] at h
        obtain ⟨τl, hτl, gl⟩ := typeBridge_ms tap l hr.1.2 tl hl
        obtain ⟨τr, hτr, gr⟩ := typeBridge_ms tap r hr.2 tr hrr
        obtain ⟨τ, hτ, g⟩ := step2 ok_andV gl gr (C05.mall_and_v tl.mall tr.mall) h
          (fun y e => Reach.andV gl.reach gr.reach e)
          (fun y e hk => by
            rw [andV_signed, gr.ksig (by rw [← andV_base e]; exact hk)]; simp)
        exact ⟨τ, by simp only [specTy, hτl, hτr]; exact hτ, g⟩
  | .orB l r, hr, ty, h => by
    simp only [ruleRange, everyNode, Bool.and_eq_true] at hr
    simp only [typeOf] at h
    cases hl : typeOf l with
    | none => simp [hl] at h
    | some tl =>
      cases hrr : typeOf r with
      | none => simp [hl, hrr] at h
      | some tr =>
        simp only [hl, hrr] at h
        obtain ⟨τl, hτl, gl⟩ := typeBridge_ms tap l hr.1.2 tl hl
        obtain ⟨τr, hτr, gr⟩ := typeBridge_ms tap r hr.2 tr hrr
        obtain ⟨τ, hτ, g⟩ := step2 ok_orB gl gr (C05.mall_or_b tl.mall tr.mall) h
          (fun y e => Reach.orB gl.reach gr.reach e)
          (fun y e hk => absurd hk ((binaryOK_sound ok_orB false false (kz_of_reach gl.reach)
            (kz_of_reach gr.reach) e).1 rfl))
        exact ⟨τ, by simp only [specTy, hτl, hτr]; exact hτ, g⟩
  | .orC l r, hr, ty, h => by
    simp only [ruleRange, everyNode, Bool.and_eq_true] at hr
    simp only [typeOf] at h
    cases hl : typeOf l with
    | none => simp [hl] at h
    | some tl =>
      cases hrr : typeOf r with
      | none => simp [hl, hrr] at h
      | some tr =>
        simp only [hl, hrr] at h
        obtain ⟨τl, hτl, gl⟩ := typeBridge_ms tap l hr.1.2 tl hl
        obtain ⟨τr, hτr, gr⟩ := typeBridge_ms tap r hr.2 tr hrr
        obtain ⟨τ, hτ, g⟩ := step2 ok_orC gl gr (C05.mall_or_c tl.mall tr.mall) h
          (fun y e => Reach.orC gl.reach gr.reach e)
          (fun y e hk => absurd hk ((binaryOK_sound ok_orC false false (kz_of_reach gl.reach)
            (kz_of_reach gr.reach) e).1 rfl))
        exact ⟨τ, by simp only [specTy, hτl, hτr]; exact hτ, g⟩
  | .orD l r, hr, ty, h => by
    simp only [ruleRange, everyNode, Bool.and_eq_true] at hr
    simp only [typeOf] at h
    cases hl : typeOf l with
    | none => simp [hl] at h
    | some tl =>
      cases hrr : typeOf r with
      | none => simp [hl, hrr] at h
      | some tr =>
        simp only [hl, hrr] at h
        obtain ⟨τl, hτl, gl⟩ := typeBridge_ms tap l hr.1.2 tl hl
        obtain ⟨τr, hτr, gr⟩ := typeBridge_ms tap r hr.2 tr hrr
        obtain ⟨τ, hτ, g⟩ := step2 ok_orD gl gr (C05.mall_or_d tl.mall tr.mall) h
          (fun y e => Reach.orD gl.reach gr.reach e)
          (fun y e hk => absurd hk ((binaryOK_sound ok_orD false false (kz_of_reach gl.reach)
            (kz_of_reach gr.reach) e).1 rfl))
        exact ⟨τ, by simp only [specTy, hτl, hτr]; exact hτ, g⟩
  | .orI l r, hr, ty, h => by
    simp only [ruleRange, everyNode, Bool.and_eq_true] at hr
    simp only [typeOf] at h
    cases hl : typeOf l with
    | none => simp [hl] at h
    | some tl =>
      cases hrr : typeOf r with
      | none => simp [hl, hrr] at h
      | some tr =>
        simp only [hl, hrr] at h
        obtain ⟨τl, hτl, gl⟩ := typeBridge_ms tap l hr.1.2 tl hl
        obtain ⟨τr, hτr, gr⟩ := typeBridge_ms tap r hr.2 tr hrr
        obtain ⟨τ, hτ, g⟩ := step2 ok_orI gl gr (C05.mall_or_i tl.mall tr.mall) h
          (fun y e => Reach.orI gl.reach gr.reach e)
          (fun y e hk => by
            have hb := orI_base e
            rw [orI_signed, gl.ksig (by rw [← hb.1]; exact hk), gr.ksig (by rw [← hb.2]; exact hk)]
            rfl)
        exact ⟨τ, by simp only [specTy, hτl, hτr]; exact hτ, g⟩
  | .andOr a b c, hr, ty, h => by
    simp only [ruleRange, everyNode, Bool.and_eq_true] at hr
    simp only [typeOf] at h
    cases ha : typeOf a with
    | none => simp [ha] at h
    | some ta =>
      cases hb : typeOf b with
      | none => simp [ha, hb] at h
      | some tb =>
        cases hc : typeOf c with
        | none => simp [ha, hb, hc] at h
        | some tc =>
          simp only [ha, hb, hc] at h
          obtain ⟨τa, hτa, ga⟩ := typeBridge_ms tap a hr.1.1.2 ta ha
          obtain ⟨τb, hτb, gb⟩ := typeBridge_ms tap b hr.1.2 tb hb
          obtain ⟨τc, hτc, gc⟩ := typeBridge_ms tap c hr.2 tc hc
          unfold Ty.andOr at h
          cases e : Corr.andOr ta.corr tb.corr tc.corr with
          | none => simp [e] at h
          | some y =>
            simp only [e, Option.some.injEq] at h
            subst h
            obtain ⟨ba, hba⟩ := ga.relc
            obtain ⟨bb, hbb⟩ := gb.relc
            obtain ⟨bc, hbc⟩ := gc.relc
            obtain ⟨τ, hτ, hrel⟩ := andOr_step e ba bb bc
            refine ⟨⟨τ, M.andOr τa.m τb.m τc.m⟩, ?_, ⟨Reach.andOr ga.reach gb.reach gc.reach e, ?_,
              hrel, ?_⟩⟩
            · simp only [specTy, hτa, hτb, hτc, hba, hbb, hbc, hτ]; rfl
            · intro hk
              have hbase := andOr_base e
              simp only at hk
              rw [andOr_signed, gb.ksig (by rw [← hbase.1]; exact hk),
                gc.ksig (by rw [← hbase.2]; exact hk)]
              simp
            · simp only [ga.relm, gb.relm, gc.relm, C05.mall_andor]
  | .thresh k xs, hr, ty, h => by
    simp only [ruleRange, everyNode, Bool.and_eq_true, rangeOk, decide_eq_true_eq] at hr
    obtain ⟨⟨hk1, hk2⟩, hrest⟩ := hr
    simp only [typeOf] at h
    cases hx : typesOf xs with
    | none => simp [hx] at h
    | some tys =>
      simp only [hx, Option.bind_some] at h
      obtain ⟨τs, hτs, hlen, hall⟩ := typeBridge_list tap xs hrest tys hx
      unfold Ty.threshold at h
      cases e : Corr.threshold k (tys.map (·.corr)) with
      | none => simp [e] at h
      | some y =>
        simp only [e, Option.some.injEq] at h
        subst h
        have hlen' : tys.length = xs.length := hlen
        have hne : tys.map (·.corr) ≠ [] := by
          intro hnil
          have : tys.length = 0 := by simpa using congrArg List.length hnil
          omega
        have hC := C05.corr_thresh k (tys.map (·.corr)) hne
        rw [e] at hC
        cases hs : C.thresh k ((tys.map (·.corr)).map Corr.toSpec) with
        | none => rw [hs] at hC; exact absurd hC (by simp [eqC])
        | some s =>
          rw [hs] at hC
          simp only [eqC, beq_iff_eq] at hC
          have hthr := C_thresh_upg k _ _ s (All2_good_relc hall) hs
          have hmalls := All2_good_malls hall
          refine ⟨⟨s, M.thresh k (τs.map (·.m))⟩, ?_, ⟨?_, ?_, ⟨false, ?_⟩, ?_⟩⟩
          · simp only [specTy, hτs, Option.bind_some, hthr]; rfl
          · exact Reach.thresh (fun x hx' => by
              obtain ⟨t, ht, rfl⟩ := List.mem_map.mp hx'
              exact All2_good_reach hall t ht) e
          · intro hkk
            simp only at hkk
            unfold Corr.threshold at e
            cases hloop : Corr.threshLoop 0 0 (tys.map (·.corr)) <;> simp [hloop] at e
            subst e; cases hkk
          · simp only [hC]; simp [upg]
          · simp only [hmalls]
            rw [C05.mall_thresh k (tys.map (·.mall)) (by simp; omega)]
theorem typeBridge_list (tap : Bool) : (xs : MsList) → everyNodeL rangeOk xs = true →
    ∀ tys, typesOf xs = some tys →
    ∃ τs, specTys tap xs = some τs ∧ tys.length = xs.length ∧ All2 Good tys τs
  | .nil, _, tys, h => by
    simp only [typesOf, Option.some.injEq] at h; subst h
    exact ⟨[], rfl, rfl, All2.nil⟩
  | .cons x xs, hr, tys, h => by
    simp only [everyNodeL, Bool.and_eq_true] at hr
    simp only [typesOf] at h
    cases hx : typeOf x with
    | none => simp [hx] at h
    | some t =>
      cases hxs : typesOf xs with
      | none => simp [hx, hxs] at h
      | some ts =>
        simp only [hx, hxs, Option.some.injEq] at h
        subst h
        obtain ⟨τ, hτ, g⟩ := typeBridge_ms tap x hr.1 t hx
        obtain ⟨τs, hτs, hlen, hall⟩ := typeBridge_list tap xs hr.2 ts hxs
        exact ⟨τ :: τs, by simp only [specTys, hτ, hτs], by simp [MsList.length, hlen],
          All2.cons g hall⟩
end

/-- the bridge in the form the C12 theorems use -/
theorem typeBridge (tap : Bool) (ms : Ms) (hr : ruleRange ms = true) (ty : Ty)
    (h : typeOf ms = some ty) :
    ∃ τ, specTy tap ms = some τ ∧ (τ.c.base == .B) = (ty.corr.base == .B) ∧
      τ.m.m = ty.mall.nonMall ∧ τ.m.s = ty.mall.signed := by
  obtain ⟨τ, hτ, g⟩ := typeBridge_ms tap ms hr ty h
  obtain ⟨b, hb⟩ := g.relc
  refine ⟨τ, hτ, ?_, ?_, ?_⟩
  · rw [hb]; simp only [upg, Corr.toSpec]; cases ty.corr.base <;> rfl
  · rw [g.relm]; rfl
  · rw [g.relm]; rfl

end MsVerif

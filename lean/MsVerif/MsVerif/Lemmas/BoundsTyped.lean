/-
C09 helper lemmas, part 9: the witness bounds for every WELL-TYPED fragment in NON-MALLEABLE
mode, without the structural side conditions of `good`.

Why this works where `good` was needed: in non-malleable mode `Satisfaction::minimum` never
prefers an alternative that carries a signature over a signature-free one, and the
dissatisfaction of a `d`-typed fragment is signature-free and never IMPOSSIBLE
(`SatSpec.dissat_clean_nonmall`, C01).  So wherever a parent uses a child's dissatisfaction the
typing rule makes that child `d`, and inside a `d`-typed `or_i` the satisfier can only pick the
dissatisfaction of a `d`-typed branch — never the signature-carrying "dissatisfaction" the
satisfier builds for `and_v`, for which `ExtData` has no figure.
-/
import MsVerif.Lemmas.BoundsInduct
import MsVerif.Lemmas.TypeSoundTyping
import MsVerif.Lemmas.SatAsserts
import MsVerif.Spec.SatSpec
import MsVerif.Lemmas.ValidateSat

namespace MsVerif.C09
open MsVerif ExtData MsVerif.SatSpec MsVerif.TypeSound

/-! ### `WF` gives `k ≤ n` at every `thresh` -/

mutual
theorem wf_threshKOk (ctx : Ctx) : (ms : Ms) → WF ctx ms → threshKOk ms = true
  | .tru, _ | .fls, _ | .pkK _, _ | .pkH _, _ | .rawPkH _, _ | .after _, _ | .older _, _ | .hash _ _, _
  | .multi _ _, _ | .sortedMulti _ _, _ | .multiA _ _, _ | .sortedMultiA _ _, _ => by simp [threshKOk]
  | .alt x, h | .swap x, h | .check x, h | .dupIf x, h | .verify x, h | .nonZero x, h
  | .zeroNotEqual x, h => by
    simp only [WF] at h; simp only [threshKOk]; exact wf_threshKOk ctx x h
  | .andV l r, h | .andB l r, h | .orB l r, h | .orC l r, h | .orD l r, h | .orI l r, h => by
    simp only [WF] at h
    simp only [threshKOk, Bool.and_eq_true]
    exact ⟨wf_threshKOk ctx l h.1, wf_threshKOk ctx r h.2⟩
  | .andOr a b c, h => by
    simp only [WF] at h
    simp only [threshKOk, Bool.and_eq_true]
    exact ⟨⟨wf_threshKOk ctx a h.1, wf_threshKOk ctx b h.2.1⟩, wf_threshKOk ctx c h.2.2⟩
  | .thresh k xs, h => by
    simp only [WF] at h
    simp only [threshKOk, Bool.and_eq_true, decide_eq_true_eq]
    exact ⟨h.2.1, wfs_threshKOks ctx xs h.2.2.2⟩
theorem wfs_threshKOks (ctx : Ctx) : (xs : MsList) → WFs ctx xs → threshKOks xs = true
  | .nil, _ => rfl
  | .cons x xs, h => by
    simp only [WFs] at h
    simp only [threshKOks, Bool.and_eq_true]
    exact ⟨wf_threshKOk ctx x h.1, wfs_threshKOks ctx xs h.2⟩
end

/-! ### typing, one level -/

theorem typeOf_andB' {l r : Ms} {τ : Ty} (h : typeOf (.andB l r) = some τ) :
    ∃ a b, typeOf l = some a ∧ typeOf r = some b ∧ Ty.andB a b = some τ := by
  simp only [typeOf] at h
  cases hl : typeOf l with
  | none => simp [hl] at h
  | some a =>
    cases hr : typeOf r with
    | none => simp [hl, hr] at h
    | some b => simp only [hl, hr] at h; exact ⟨a, b, rfl, rfl, h⟩

theorem typeOf_andV' {l r : Ms} {τ : Ty} (h : typeOf (.andV l r) = some τ) :
    ∃ a b, typeOf l = some a ∧ typeOf r = some b ∧ Ty.andV a b = some τ := by
  simp only [typeOf] at h
  cases hl : typeOf l with
  | none => simp [hl] at h
  | some a =>
    cases hr : typeOf r with
    | none => simp [hl, hr] at h
    | some b => simp only [hl, hr] at h; exact ⟨a, b, rfl, rfl, h⟩

theorem typeOf_orB' {l r : Ms} {τ : Ty} (h : typeOf (.orB l r) = some τ) :
    ∃ a b, typeOf l = some a ∧ typeOf r = some b ∧ Ty.orB a b = some τ := by
  simp only [typeOf] at h
  cases hl : typeOf l with
  | none => simp [hl] at h
  | some a =>
    cases hr : typeOf r with
    | none => simp [hl, hr] at h
    | some b => simp only [hl, hr] at h; exact ⟨a, b, rfl, rfl, h⟩

theorem typeOf_orD' {l r : Ms} {τ : Ty} (h : typeOf (.orD l r) = some τ) :
    ∃ a b, typeOf l = some a ∧ typeOf r = some b ∧ Ty.orD a b = some τ := by
  simp only [typeOf] at h
  cases hl : typeOf l with
  | none => simp [hl] at h
  | some a =>
    cases hr : typeOf r with
    | none => simp [hl, hr] at h
    | some b => simp only [hl, hr] at h; exact ⟨a, b, rfl, rfl, h⟩

theorem typeOf_orC' {l r : Ms} {τ : Ty} (h : typeOf (.orC l r) = some τ) :
    ∃ a b, typeOf l = some a ∧ typeOf r = some b ∧ Ty.orC a b = some τ := by
  simp only [typeOf] at h
  cases hl : typeOf l with
  | none => simp [hl] at h
  | some a =>
    cases hr : typeOf r with
    | none => simp [hl, hr] at h
    | some b => simp only [hl, hr] at h; exact ⟨a, b, rfl, rfl, h⟩

theorem typeOf_orI' {l r : Ms} {τ : Ty} (h : typeOf (.orI l r) = some τ) :
    ∃ a b, typeOf l = some a ∧ typeOf r = some b ∧ Ty.orI a b = some τ := by
  simp only [typeOf] at h
  cases hl : typeOf l with
  | none => simp [hl] at h
  | some a =>
    cases hr : typeOf r with
    | none => simp [hl, hr] at h
    | some b => simp only [hl, hr] at h; exact ⟨a, b, rfl, rfl, h⟩

/-! ### `minimum` and clean alternatives -/

/-- a signature-free alternative that is not IMPOSSIBLE is the only one `minimum` can return
as a stack -/
theorem minimum_stack_left_clean {s1 s2 : Sat} (hs : s1.hasSig = false) (hi : s1.stack ≠ .impossible)
    {w : List Ph} (h : (Sat.minimum s1 s2).stack = .stack w) : s1.stack = .stack w := by
  unfold Sat.minimum at h
  rw [if_neg hi] at h
  by_cases h2 : s2.stack = .impossible
  · rw [if_pos h2] at h; exact h
  · rw [if_neg h2, hs] at h
    cases hb : s2.hasSig <;> rw [hb] at h <;> simp [Sat.UNAVAILABLE] at h
    exact h

theorem minimum_stack_right_clean {s1 s2 : Sat} (hs : s2.hasSig = false) (hi : s2.stack ≠ .impossible)
    {w : List Ph} (h : (Sat.minimum s1 s2).stack = .stack w) : s2.stack = .stack w := by
  unfold Sat.minimum at h
  by_cases h1 : s1.stack = .impossible
  · rw [if_pos h1] at h; exact h
  · rw [if_neg h1, if_neg hi, hs] at h
    cases hb : s1.hasSig <;> rw [hb] at h <;> simp [Sat.UNAVAILABLE] at h
    exact h

theorem combine_ne_impossible {x : Wit} (l : List Ph) (h : x ≠ .impossible) :
    Wit.combine x (.stack l) ≠ .impossible := by
  cases x <;> simp_all [Wit.combine]

theorem SB_of_stack_left {e : Bool} {a r : Sat} {da db : Option SatData}
    (hr : ∀ w, r.stack = .stack w → a.stack = .stack w) (ha : SB e a da) :
    SB e r (SatData.fmaxOpt da db) := by
  intro w hw
  obtain ⟨x, rfl, hx⟩ := ha w (hr w hw)
  obtain ⟨y, hy, h1, h2, h3⟩ := fmaxOpt_left (x := x) db
  exact ⟨y, hy, Fits_mono hx h1 h2 h3⟩

theorem SB_of_stack_right {e : Bool} {b r : Sat} {da db : Option SatData}
    (hr : ∀ w, r.stack = .stack w → b.stack = .stack w) (hb : SB e b db) :
    SB e r (SatData.fmaxOpt da db) := by
  intro w hw
  obtain ⟨x, rfl, hx⟩ := hb w (hr w hw)
  obtain ⟨y, hy, h1, h2, h3⟩ := fmaxOpt_right (x := x) da
  exact ⟨y, hy, Fits_mono hx h1 h2 h3⟩

theorem zipMap_some_of {f : SatData → SatData → SatData} {a b : Option SatData}
    (ha : a.isSome = true) (hb : b.isSome = true) : (zipMap f a b).isSome = true := by
  cases a <;> cases b <;> simp_all [zipMap]

theorem fmaxOpt_some_left {a b : Option SatData} (ha : a.isSome = true) :
    (SatData.fmaxOpt a b).isSome = true := by
  cases a <;> cases b <;> simp_all [SatData.fmaxOpt]
theorem fmaxOpt_some_right {a b : Option SatData} (hb : b.isSome = true) :
    (SatData.fmaxOpt a b).isSome = true := by
  cases a <;> cases b <;> simp_all [SatData.fmaxOpt]

section typed
variable (ke : KeyEnv) (ctx : Ctx) (rhs : Bool) (a : Assets)

/-- the statement proved for every well-typed fragment: the satisfaction is bounded; if the
fragment is `d`, its dissatisfaction is bounded and the dissatisfaction figure exists -/
def Q (ms : Ms) (τ : Ty) : Prop :=
  SB (ess ctx) (satDissat ⟨ke, ctx, false, rhs, a⟩ ms).sat (extOf ke ctx ms).satData
  ∧ (τ.corr.dissat = true →
      SB (ess ctx) (satDissat ⟨ke, ctx, false, rhs, a⟩ ms).dissat (extOf ke ctx ms).dissatData
      ∧ (extOf ke ctx ms).dissatData.isSome = true)

end typed

variable (ke : KeyEnv) (ctx : Ctx) (rhs : Bool) (a : Assets)

theorem Q_of_leaf {ms : Ms} {τ : Ty} (hg : good ke ctx ms = true) (hd : disOK ms = true)
    (hs : (extOf ke ctx ms).dissatData.isSome = true ∨ τ.corr.dissat = false)
    (ha : AssetsOk ke ctx a) : Q ke ctx rhs a ms τ := by
  have hP := bound_ms ke ctx false rhs a ha ms hg
  refine ⟨hP.1, fun h => ⟨hP.2 hd, ?_⟩⟩
  rcases hs with hs | hs
  · exact hs
  · rw [hs] at h; cases h

theorem clean_of (c : SatCfg) (hm : c.mall = false) {x : Ms} {τ : Ty} (hty : typeOf x = some τ)
    (hwf : WF ctx x) (hd : τ.corr.dissat = true) :
    (satDissat c x).dissat.hasSig = false ∧ (satDissat c x).dissat.stack ≠ .impossible := by
  obtain ⟨h1, h2, _, _⟩ := dissat_clean_nonmall c hm x τ hty (wf_threshKOk ctx x hwf) hd
  exact ⟨h1, h2⟩

mutual
theorem bound_typed (ha : AssetsOk ke ctx a) : (ms : Ms) → (τ : Ty) → typeOf ms = some τ →
    WF ctx ms → Q ke ctx rhs a ms τ
  | .tru, τ, _, _ => Q_of_leaf ke ctx rhs a rfl rfl (.inr (by simp_all [typeOf, Ty.TRUE, Corr.TRUE]; subst_vars; rfl)) ha
  | .fls, _, _, _ => Q_of_leaf ke ctx rhs a rfl rfl (.inl rfl) ha
  | .pkK k, _, _, _ => Q_of_leaf ke ctx rhs a rfl rfl (.inl (by simp [extOf, pkK_dis])) ha
  | .pkH k, _, _, _ => Q_of_leaf ke ctx rhs a rfl rfl (.inl (by simp [extOf, pkH_dis])) ha
  | .rawPkH k, _, _, _ => Q_of_leaf ke ctx rhs a rfl rfl (.inl (by simp [extOf, pkH_dis])) ha
  | .multi k ks, _, _, _ => Q_of_leaf ke ctx rhs a rfl rfl (.inl rfl) ha
  | .sortedMulti k ks, _, _, _ => Q_of_leaf ke ctx rhs a rfl rfl (.inl rfl) ha
  | .multiA k ks, _, _, hwf => by
    simp only [WF] at hwf
    exact Q_of_leaf ke ctx rhs a (by simp [good, hwf.1, hwf.2.1]) rfl (.inl rfl) ha
  | .sortedMultiA k ks, _, _, hwf => by
    simp only [WF] at hwf
    exact Q_of_leaf ke ctx rhs a (by simp [good, hwf.1, hwf.2.1]) rfl (.inl rfl) ha
  | .after n, τ, hty, _ => Q_of_leaf ke ctx rhs a rfl rfl (.inr (by simp [typeOf] at hty; subst hty; rfl)) ha
  | .older n, τ, hty, _ => Q_of_leaf ke ctx rhs a rfl rfl (.inr (by simp [typeOf] at hty; subst hty; rfl)) ha
  | .hash kind h, _, _, _ => Q_of_leaf ke ctx rhs a rfl rfl (.inl (by cases kind <;> rfl)) ha
  | .alt x, τ, hty, hwf => by
    simp only [WF] at hwf
    obtain ⟨t, hx, hc⟩ := typeOf_un (by simpa [typeOf] using hty)
    have hd : τ.corr.dissat = t.corr.dissat := by rw [(castAlt_inv (lift1_corr hc)).2]
    have ih := bound_typed ha x t hx hwf
    simpa [Q, satDissat, extOf, castAlt, hd] using ih
  | .swap x, τ, hty, hwf => by
    simp only [WF] at hwf
    obtain ⟨t, hx, hc⟩ := typeOf_un (by simpa [typeOf] using hty)
    have hd : τ.corr.dissat = t.corr.dissat := by rw [(castSwap_inv (lift1_corr hc)).2.2]
    have ih := bound_typed ha x t hx hwf
    simpa [Q, satDissat, extOf, castSwap, hd] using ih
  | .check x, τ, hty, hwf => by
    simp only [WF] at hwf
    obtain ⟨t, hx, hc⟩ := typeOf_un (by simpa [typeOf] using hty)
    have hd : τ.corr.dissat = t.corr.dissat := by rw [(castCheck_inv (lift1_corr hc)).2]
    have ih := bound_typed ha x t hx hwf
    simpa [Q, satDissat, extOf, castCheck, hd] using ih
  | .zeroNotEqual x, τ, hty, hwf => by
    simp only [WF] at hwf
    obtain ⟨t, hx, hc⟩ := typeOf_un (by simpa [typeOf] using hty)
    have hd : τ.corr.dissat = t.corr.dissat := by rw [(castZeroNotEqual_inv (lift1_corr hc)).2]
    have ih := bound_typed ha x t hx hwf
    simpa [Q, satDissat, extOf, castZeroNotEqual, hd] using ih
  | .dupIf x, τ, hty, hwf => by
    simp only [WF] at hwf
    obtain ⟨t, hx, _⟩ := typeOf_un (by simpa [typeOf] using hty)
    have ih := bound_typed ha x t hx hwf
    refine ⟨?_, fun _ => ⟨?_, rfl⟩⟩
    · simp only [satDissat, extOf, castDupIf]
      exact SB_push [.pushOne] _ dupIf_push ih.1
    · simp only [satDissat, extOf, castDupIf]
      exact SB_const (w := [.pushZero]) rfl ⟨by simp, by simp [Ph.size], fun _ => by simp [phSs]⟩
  | .verify x, τ, hty, hwf => by
    simp only [WF] at hwf
    obtain ⟨t, hx, hc⟩ := typeOf_un (by simpa [typeOf] using hty)
    have hd : τ.corr.dissat = false := by rw [(castVerify_inv (lift1_corr hc)).2]
    have ih := bound_typed ha x t hx hwf
    refine ⟨by simpa [satDissat, extOf, castVerify] using ih.1, fun h => ?_⟩
    rw [hd] at h; cases h
  | .nonZero x, τ, hty, hwf => by
    simp only [WF] at hwf
    obtain ⟨t, hx, _⟩ := typeOf_un (by simpa [typeOf] using hty)
    have ih := bound_typed ha x t hx hwf
    refine ⟨by simpa [satDissat, extOf, castNonZero] using ih.1, fun _ => ⟨?_, rfl⟩⟩
    simp only [satDissat, extOf, castNonZero]
    exact SB_const (w := [.pushZero]) rfl ⟨by simp, by simp [Ph.size], fun _ => by simp [phSs]⟩
  | .andB l r, τ, hty, hwf => by
    simp only [WF] at hwf
    obtain ⟨tl, tr, hl, hr, hc⟩ := typeOf_andB' hty
    have hd : τ.corr.dissat = (tl.corr.dissat && tr.corr.dissat) := by rw [(andB_inv (lift2_corr hc)).2.2]
    have ihl := bound_typed ha l tl hl hwf.1
    have ihr := bound_typed ha r tr hr hwf.2
    refine ⟨?_, fun h => ?_⟩
    · simp only [satDissat, extOf, ExtData.andB]
      exact SB_concat additive_catB ihl.1 ihr.1
    · rw [hd, Bool.and_eq_true] at h
      obtain ⟨l1, l2⟩ := ihl.2 h.1
      obtain ⟨r1, r2⟩ := ihr.2 h.2
      simp only [satDissat, extOf, ExtData.andB]
      exact ⟨SB_concat additive_catB l1 r1, zipMap_some_of l2 r2⟩
  | .andV l r, τ, hty, hwf => by
    simp only [WF] at hwf
    obtain ⟨tl, tr, hl, hr, hc⟩ := typeOf_andV' hty
    have hd : τ.corr.dissat = false := by rw [(andV_inv (lift2_corr hc)).2.2]
    have ihl := bound_typed ha l tl hl hwf.1
    have ihr := bound_typed ha r tr hr hwf.2
    refine ⟨?_, fun h => ?_⟩
    · simp only [satDissat, extOf, ExtData.andV]
      exact SB_concat additive_catV ihl.1 ihr.1
    · rw [hd] at h; cases h
  | .andOr x y z, τ, hty, hwf => by
    simp only [WF] at hwf
    obtain ⟨tx, ty, tz, hx, hy, hz, hc⟩ := typeOf_andOr hty
    obtain ⟨_, _, hxd, _, _, hτ⟩ := andOr_inv (andOr_corr hc)
    have hd : τ.corr.dissat = tz.corr.dissat := by rw [hτ]
    have ihx := bound_typed ha x tx hx hwf.1
    have ihy := bound_typed ha y ty hy hwf.2.1
    have ihz := bound_typed ha z tz hz hwf.2.2
    obtain ⟨dx, dx2⟩ := ihx.2 hxd
    refine ⟨?_, fun h => ?_⟩
    · simp only [satDissat, extOf, ExtData.andOr]
      exact SB_minFn _ (SB_concat additive_catV ihx.1 ihy.1) (SB_concat additive_catV dx ihz.1)
    · rw [hd] at h
      obtain ⟨dz, dz2⟩ := ihz.2 h
      simp only [satDissat, extOf, ExtData.andOr]
      exact ⟨SB_concat additive_catV dx dz, zipMap_some_of dx2 dz2⟩
  | .orB l r, τ, hty, hwf => by
    simp only [WF] at hwf
    obtain ⟨tl, tr, hl, hr, hc⟩ := typeOf_orB' hty
    have hld : tl.corr.dissat = true ∧ tr.corr.dissat = true := by
      have := lift2_corr hc
      unfold Corr.orB at this
      cases h1 : tl.corr.dissat <;> cases h2 : tr.corr.dissat <;> simp_all
    have ihl := bound_typed ha l tl hl hwf.1
    have ihr := bound_typed ha r tr hr hwf.2
    obtain ⟨dl, dl2⟩ := ihl.2 hld.1
    obtain ⟨dr, dr2⟩ := ihr.2 hld.2
    refine ⟨?_, fun _ => ⟨?_, ?_⟩⟩
    · simp only [satDissat, extOf, ExtData.orB]
      apply SB_of_stack_or _ (SB_concat additive_catB ihl.1 dr) (SB_concat additive_catB dl ihr.1)
      intro w hw
      exact (minFn_stack _ hw).symm
    · simp only [satDissat, extOf, ExtData.orB]
      exact SB_concat additive_catB dl dr
    · simp only [extOf, ExtData.orB]
      exact zipMap_some_of dl2 dr2
  | .orD l r, τ, hty, hwf => by
    simp only [WF] at hwf
    obtain ⟨tl, tr, hl, hr, hc⟩ := typeOf_orD' hty
    obtain ⟨_, _, _, hldis, hτ⟩ := orD_inv (lift2_corr hc)
    have hd : τ.corr.dissat = tr.corr.dissat := by rw [hτ]
    have ihl := bound_typed ha l tl hl hwf.1
    have ihr := bound_typed ha r tr hr hwf.2
    obtain ⟨dl, dl2⟩ := ihl.2 hldis
    refine ⟨?_, fun h => ?_⟩
    · simp only [satDissat, extOf, ExtData.orD]
      exact SB_minFn _ ihl.1 (SB_concat additive_catV dl ihr.1)
    · rw [hd] at h
      obtain ⟨dr, dr2⟩ := ihr.2 h
      simp only [satDissat, extOf, ExtData.orD]
      exact ⟨SB_concat additive_catV dl dr, zipMap_some_of dl2 dr2⟩
  | .orC l r, τ, hty, hwf => by
    simp only [WF] at hwf
    obtain ⟨tl, tr, hl, hr, hc⟩ := typeOf_orC' hty
    obtain ⟨_, _, _, hldis, hτ⟩ := orC_inv (lift2_corr hc)
    have hd : τ.corr.dissat = false := by rw [hτ]
    have ihl := bound_typed ha l tl hl hwf.1
    have ihr := bound_typed ha r tr hr hwf.2
    obtain ⟨dl, _⟩ := ihl.2 hldis
    refine ⟨?_, fun h => ?_⟩
    · simp only [satDissat, extOf, ExtData.orC]
      exact SB_minFn _ ihl.1 (SB_concat additive_catV dl ihr.1)
    · rw [hd] at h; cases h
  | .orI l r, τ, hty, hwf => by
    simp only [WF] at hwf
    obtain ⟨tl, tr, hl, hr, hc⟩ := typeOf_orI' hty
    have hd : τ.corr.dissat = (tl.corr.dissat || tr.corr.dissat) := by rw [(orI_inv (lift2_corr hc)).2.2]
    have ihl := bound_typed ha l tl hl hwf.1
    have ihr := bound_typed ha r tr hr hwf.2
    refine ⟨?_, fun h => ?_⟩
    · simp only [satDissat, extOf, ExtData.orI]
      exact SB_minFn _ (SB_push [.pushOne] with1 with1_push ihl.1) (SB_push [.pushZero] with0 with0_push ihr.1)
    · rw [hd] at h
      simp only [satDissat, extOf, ExtData.orI]
      have hmin : (⟨ke, ctx, false, rhs, a⟩ : SatCfg).minFn = Sat.minimum := by simp [SatCfg.minFn]
      rw [hmin]
      cases hl1 : tl.corr.dissat with
      | true =>
        obtain ⟨dl, dl2⟩ := ihl.2 hl1
        have sl := SB_push [.pushOne] with1 with1_push dl
        cases hr1 : tr.corr.dissat with
        | true =>
          obtain ⟨dr, _⟩ := ihr.2 hr1
          have sr := SB_push [.pushZero] with0 with0_push dr
          refine ⟨SB_of_stack_or (fun w hw => minimum_stack hw) sl sr, fmaxOpt_some_left (by simp [dl2])⟩
        | false =>
          obtain ⟨c1, c2⟩ := clean_of ctx ⟨ke, ctx, false, rhs, a⟩ rfl hl hwf.1 hl1
          refine ⟨SB_of_stack_left (fun w hw => minimum_stack_left_clean (by exact c1)
            (combine_ne_impossible _ c2) hw) sl, fmaxOpt_some_left (by simp [dl2])⟩
      | false =>
        have hr1 : tr.corr.dissat = true := by simpa [hl1] using h
        obtain ⟨dr, dr2⟩ := ihr.2 hr1
        have sr := SB_push [.pushZero] with0 with0_push dr
        obtain ⟨c1, c2⟩ := clean_of ctx ⟨ke, ctx, false, rhs, a⟩ rfl hr hwf.2 hr1
        refine ⟨SB_of_stack_right (fun w hw => minimum_stack_right_clean (by exact c1)
          (combine_ne_impossible _ c2) hw) sr, fmaxOpt_some_right (by simp [dr2])⟩
  | .thresh k xs, τ, hty, hwf => by
    simp only [WF] at hwf
    obtain ⟨ts, hts, hc⟩ := typeOf_thresh hty
    obtain ⟨n, hloop, _⟩ := threshold_inv (threshold_corr hc)
    obtain ⟨hall, hhd⟩ := bound_typed_list ha xs ts hts hwf.2.2.2 0 0 n hloop
    refine ⟨?_, fun _ => ⟨?_, ?_⟩⟩
    · simp only [satDissat, extOf]
      intro w hw
      obtain ⟨ch, hlen, hcnt, hfc⟩ := thresh_sat_choice (⟨ke, ctx, false, rhs, a⟩ : SatCfg) k _ w hw
      obtain ⟨ws, hst, e1, e2, e3⟩ := foldConcat_stacks hfc
      obtain ⟨z1, z0, z2, z3, z4, z5, z6⟩ := chosen_bound (ess ctx) _ _ ch ws hall hlen hst
      obtain ⟨d, hd, b1, b2, b3⟩ := threshold_sat_bound k (extsOf ke ctx xs) _ z1 z3
        (by rw [z2, z0]; exact hcnt)
        (fun x hx => hhd x.1 (by rw [← z1]; exact List.mem_map_of_mem hx))
      refine ⟨d, hd, by omega, by omega, fun he => ?_⟩
      have := z6 he; omega
    · simp only [satDissat, extOf, threshold_dissat]
      intro w hw
      obtain ⟨ws, hst, e1, e2, e3⟩ := foldConcat_stacks hw
      obtain ⟨d, hd, i1, i2, i3⟩ := thresh_dissat_fold (ess ctx) _ _ ws ⟨0, 0, 0, 0, 0⟩ hall hst
      refine ⟨d, hd, by simp only at i1; omega, by simp only at i2; omega, fun he => ?_⟩
      have := i3 he; simp only at this; omega
    · simp only [extOf]
      rw [threshold_dissat_isSome, List.all_eq_true]
      intro e he
      exact hhd (e.satData, e.dissatData) (by simp only [tv0]; exact List.mem_map_of_mem he)
theorem bound_typed_list (ha : AssetsOk ke ctx a) : (xs : MsList) → (ts : List Ty) →
    typesOf xs = some ts → WFs ctx xs → ∀ i acc n, Corr.threshLoop i acc (ts.map (·.corr)) = some n →
    AllSB (ess ctx) (satDissats (⟨ke, ctx, false, rhs, a⟩ : SatCfg) xs) (extsOf ke ctx xs)
      ∧ ∀ p ∈ tv0 (extsOf ke ctx xs), p.2.isSome = true
  | .nil, _, _, _ => by intro _ _ _ _; simp [satDissats, extsOf, AllSB, tv0]
  | .cons x xs, ts, hts, hwf => by
    intro i acc n hloop
    simp only [WFs] at hwf
    obtain ⟨t, ts', hx, hxs, rfl⟩ := typesOf_cons hts
    simp only [List.map_cons] at hloop
    obtain ⟨_, _, _, hdis, hloop'⟩ := threshLoop_cons hloop
    have ihx := bound_typed ha x t hx hwf.1
    obtain ⟨dx, dx2⟩ := ihx.2 hdis
    obtain ⟨ih1, ih2⟩ := bound_typed_list ha xs ts' hxs hwf.2 _ _ n hloop'
    simp only [satDissats, extsOf, AllSB, tv0, List.map_cons, List.mem_cons]
    refine ⟨⟨⟨ihx.1, dx⟩, ih1⟩, ?_⟩
    rintro p (rfl | hp)
    · exact dx2
    · exact ih2 p hp
end

end MsVerif.C09

/-
Helper lemmas for C15: `Tr::translate_pk` (model `Tap.trTranslate`) succeeds exactly when every
leaf and the internal key translate, then keeps every depth and the order, and otherwise
returns an error and no descriptor.
-/
import MsVerif.Model.TapTree

set_option linter.unusedSimpArgs false

namespace MsVerif.Tap
variable {α β κ κ' : Type}

/-- the leaf loop of `TapTree::translate_pk` -/
def leafLoop (f : α → Except TrErr β) (t : TapTree α) : Except TrErr (TapTree β) :=
  t.mapM (fun p => (f p.2).map (fun s => (p.1, s)))

theorem leafLoop_nil (f : α → Except TrErr β) : leafLoop f [] = .ok [] := rfl

theorem leafLoop_cons (f : α → Except TrErr β) (p : Nat × α) (t : TapTree α) :
    leafLoop f (p :: t) =
      match f p.2 with
      | .error e => .error e
      | .ok s => match leafLoop f t with
        | .error e => .error e
        | .ok t' => .ok ((p.1, s) :: t') := by
  simp only [leafLoop, List.mapM_cons]
  generalize List.mapM (fun p => Except.map (fun s => (p.1, s)) (f p.2)) t = r
  cases f p.2 <;> cases r <;> rfl

theorem leafLoop_ok (f : α → Except TrErr β) : ∀ (t : TapTree α) (t' : TapTree β),
    leafLoop f t = .ok t' →
    t'.map (·.1) = t.map (·.1) ∧ t'.map (fun p => Except.ok p.2) = t.map (fun p => f p.2) := by
  intro t
  induction t with
  | nil => intro t' h; rw [leafLoop_nil] at h; cases h; simp
  | cons p t ih =>
    intro t' h
    rw [leafLoop_cons] at h
    cases hf : f p.2 with
    | error e => simp [hf] at h
    | ok s =>
      cases hl : leafLoop f t with
      | error e => simp [hf, hl] at h
      | ok t'' =>
        simp [hf, hl] at h
        subst h
        have := ih t'' hl
        simp [this.1, this.2, hf]

theorem leafLoop_ok_iff (f : α → Except TrErr β) : ∀ (t : TapTree α),
    (∃ t', leafLoop f t = .ok t') ↔ ∀ p ∈ t, ∃ s, f p.2 = .ok s := by
  intro t
  induction t with
  | nil => simp [leafLoop_nil]
  | cons p t ih =>
    rw [leafLoop_cons]
    cases hf : f p.2 with
    | error e => simp [hf]
    | ok s =>
      cases hl : leafLoop f t with
      | error e =>
        have hn : ¬ ∃ t', leafLoop f t = .ok t' := by simp [hl]
        rw [ih] at hn
        constructor
        · intro ⟨t', h⟩; simp at h
        · intro h
          exact absurd (fun q hq => h q (List.mem_cons_of_mem _ hq)) hn
      | ok t'' =>
        have hy : ∃ t', leafLoop f t = .ok t' := ⟨t'', hl⟩
        rw [ih] at hy
        constructor
        · intro _ q hq
          rcases List.mem_cons.mp hq with rfl | hq
          · exact ⟨s, hf⟩
          · exact hy q hq
        · intro _; exact ⟨_, rfl⟩

theorem trTranslate_some (f : α → Except TrErr β) (fk : κ → Except TrErr κ') (ik : κ) (t : TapTree α) :
    trTranslate f fk ik (some t) =
      match leafLoop f t with
      | .error e => .error e
      | .ok t' => match fk ik with
        | .error e => .error e
        | .ok k => .ok (k, some t') := rfl

end MsVerif.Tap

/-
Bridge theorem, part 6: facts about `encode` — straight-line pieces, conditional balance of
every encoding (`balanced_encode`), and how the "no oversized push" condition passes to
sub-fragments.

Core Lean only.
-/
import MsVerif.Lemmas.BridgeSim

namespace MsVerif.Bridge
open MsVerif MsVerif.Script

set_option linter.unusedSimpArgs false

/-! ### straight-line pieces -/

theorem straight_append (xs ys : List Op) : straight (xs ++ ys) = (straight xs && straight ys) := by
  simp [straight]

theorem straight_cons (x : Op) (xs : List Op) : straight (x :: xs) = (Op.plain x && straight xs) := by
  simp [straight]

theorem pushInt_plain (n : Nat) : Op.plain (pushInt n) = true := by
  unfold pushInt; split <;> rfl

theorem hashOpc_plain (k : HashKind) : Opc.plain (hashOpc k) = true := by
  cases k <;> rfl

theorem straight_pushes (f : Key → Bytes) (ks : List Key) :
    straight (ks.map (fun pk => Op.push (f pk))) = true := by
  simp [straight, Op.plain]

theorem straight_multiA (ke : KeyEnv) (ks : List Key) : straight (encodeMultiA ke ks) = true := by
  cases ks with
  | nil => rfl
  | cons k ks =>
    simp only [encodeMultiA, straight, List.all_append, List.all_cons, List.all_nil, List.all_flatMap,
      Op.plain, Opc.plain, Bool.and_true, Bool.true_and]
    simp

theorem straight_multi (ke : KeyEnv) (k n : Nat) (ks : List Key) :
    straight ([pushInt k] ++ ks.map (fun pk => Op.push (ke.ser pk)) ++ [pushInt n, .code .checkmultisig]) = true := by
  simp only [straight_append, straight_cons, pushInt_plain, straight_pushes]
  rfl

theorem straight_multiA_full (ke : KeyEnv) (k : Nat) (ks : List Key) :
    straight (encodeMultiA ke ks ++ [pushInt k, .code .numequal]) = true := by
  simp only [straight_append, straight_cons, pushInt_plain, straight_multiA]
  rfl

/-! ### balance of encodings -/

theorem balanced_pushVerify (E : List Op) (h : balanced E = true) : balanced (pushVerify E) = true := by
  rcases pushVerify_cases E with ⟨pre, o, ov, hf, hEq, hpv, _⟩ | ⟨hpv, _⟩
  · rw [balanced_iff] at *
    rw [hpv, bal_append_plain 0 pre (.code ov) hf.plain.2]
    rw [hEq, bal_append_plain 0 pre (.code o) hf.plain.1] at h
    exact h
  · rw [hpv]
    exact balanced_append E _ h rfl

theorem balanced_snoc_plain (xs : List Op) (o : Opc) (ho : Opc.plain o = true) (h : balanced xs = true) :
    balanced (xs ++ [.code o]) = true :=
  balanced_append xs _ h (balanced_plain_cons _ _ ho rfl)

mutual
theorem balanced_encode (ke : KeyEnv) (ctx : Ctx) : (ms : Ms) → balanced (encode ke ctx ms) = true
  | .pkK k => rfl
  | .pkH k => rfl
  | .rawPkH h => rfl
  | .after n => by
    apply balanced_straight; simp only [encode, straight_cons, pushInt_plain]; rfl
  | .older n => by
    apply balanced_straight; simp only [encode, straight_cons, pushInt_plain]; rfl
  | .hash kind h => by
    apply balanced_straight
    simp only [encode, straight_cons, pushInt_plain, Op.plain, hashOpc_plain]; rfl
  | .tru => rfl
  | .fls => rfl
  | .alt x => by
    have hx := balanced_encode ke ctx x
    simp only [encode, List.append_assoc, List.cons_append, List.nil_append]
    exact balanced_plain_cons _ _ rfl (balanced_snoc_plain _ _ rfl hx)
  | .swap x => by
    have hx := balanced_encode ke ctx x
    simp only [encode, List.cons_append, List.nil_append]
    exact balanced_plain_cons _ _ rfl hx
  | .check x => by
    have hx := balanced_encode ke ctx x
    simp only [encode]
    exact balanced_snoc_plain _ _ rfl hx
  | .dupIf x => by
    have hx := balanced_encode ke ctx x
    simp only [encode, List.append_assoc, List.cons_append, List.nil_append]
    exact balanced_plain_cons _ _ rfl (balanced_ifThen false _ hx)
  | .verify x => by
    have hx := balanced_encode ke ctx x
    simp only [encode]
    exact balanced_pushVerify _ hx
  | .nonZero x => by
    have hx := balanced_encode ke ctx x
    simp only [encode, List.append_assoc, List.cons_append, List.nil_append]
    exact balanced_plain_cons _ _ rfl (balanced_plain_cons _ _ rfl (balanced_ifThen false _ hx))
  | .zeroNotEqual x => by
    have hx := balanced_encode ke ctx x
    simp only [encode]
    exact balanced_snoc_plain _ _ rfl hx
  | .andV l r => by
    have hl := balanced_encode ke ctx l
    have hr := balanced_encode ke ctx r
    simp only [encode]
    exact balanced_append _ _ hl hr
  | .andB l r => by
    have hl := balanced_encode ke ctx l
    have hr := balanced_encode ke ctx r
    simp only [encode]
    exact balanced_snoc_plain _ _ rfl (balanced_append _ _ hl hr)
  | .andOr a b z => by
    have ha := balanced_encode ke ctx a
    have hb := balanced_encode ke ctx b
    have hz := balanced_encode ke ctx z
    simp only [encode, List.append_assoc, List.cons_append, List.nil_append]
    exact balanced_append _ _ ha (balanced_ifElse true _ _ hz hb)
  | .orB l r => by
    have hl := balanced_encode ke ctx l
    have hr := balanced_encode ke ctx r
    simp only [encode]
    exact balanced_snoc_plain _ _ rfl (balanced_append _ _ hl hr)
  | .orD l r => by
    have hl := balanced_encode ke ctx l
    have hr := balanced_encode ke ctx r
    simp only [encode, List.append_assoc, List.cons_append, List.nil_append]
    exact balanced_append _ _ hl (balanced_plain_cons _ _ rfl (balanced_ifThen true _ hr))
  | .orC l r => by
    have hl := balanced_encode ke ctx l
    have hr := balanced_encode ke ctx r
    simp only [encode, List.append_assoc, List.cons_append, List.nil_append]
    exact balanced_append _ _ hl (balanced_ifThen true _ hr)
  | .orI l r => by
    have hl := balanced_encode ke ctx l
    have hr := balanced_encode ke ctx r
    simp only [encode, List.append_assoc, List.cons_append, List.nil_append]
    exact balanced_ifElse false _ _ hl hr
  | .thresh k xs => by
    have hxs := balanced_encodeThresh ke ctx true xs
    simp only [encode]
    refine balanced_append _ _ hxs (balanced_straight _ ?_)
    simp only [straight_cons, pushInt_plain]; rfl
  | .multi k ks => by
    simp only [encode]; exact balanced_straight _ (straight_multi ke k _ ks)
  | .sortedMulti k ks => by
    simp only [encode]; exact balanced_straight _ (straight_multi ke k _ _)
  | .multiA k ks => by
    simp only [encode]; exact balanced_straight _ (straight_multiA_full ke k ks)
  | .sortedMultiA k ks => by
    simp only [encode]; exact balanced_straight _ (straight_multiA_full ke k _)
theorem balanced_encodeThresh (ke : KeyEnv) (ctx : Ctx) (first : Bool) :
    (xs : MsList) → balanced (encodeThresh ke ctx first xs) = true
  | .nil => rfl
  | .cons x xs => by
    have hx := balanced_encode ke ctx x
    have hxs := balanced_encodeThresh ke ctx false xs
    simp only [encodeThresh]
    refine balanced_append _ _ (balanced_append _ _ hx ?_) hxs
    cases first <;> rfl
end

/-! ### oversized pushes in sub-fragments -/

theorem bigPush_pushVerify (E : List Op) : bigPush (pushVerify E) = bigPush E := by
  rcases pushVerify_cases E with ⟨pre, o, ov, _, hEq, hpv, _⟩ | ⟨hpv, _⟩
  · rw [hpv, hEq, bigPush_append, bigPush_append]; rfl
  · rw [hpv, bigPush_append]; simp [bigPush]

theorem SkipHyp.mono {env : Env} {xs ys : List Op} (h : SkipHyp env ys)
    (hsub : bigPush ys = false → bigPush xs = false) : SkipHyp env xs := by
  rcases h with h | h | h
  · exact .inl h
  · exact .inr (.inl h)
  · exact .inr (.inr (hsub h))

theorem bigPush_nil : bigPush [] = false := rfl

end MsVerif.Bridge

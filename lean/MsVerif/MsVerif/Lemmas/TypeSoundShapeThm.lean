/-
C06 helper lemmas, part 8: the induction over the typing rules for the stack shape —
`shape`: a successful run of a well-typed fragment restores the alt stack and transforms the
main stack as its base type promises (`Post`, including the unit property).  Limits off.
Core Lean only.
-/
import MsVerif.Lemmas.TypeSoundShape
import MsVerif.Lemmas.TypeSoundNum

namespace MsVerif.TypeSound
open MsVerif MsVerif.Script

/-- stack effect of the children of a `thresh` processed so far -/
def ThreshPost (first : Bool) (N : Nat) (s s' : List Bytes) : Prop :=
  if first then ∃ v m, m ≤ N ∧ s' = v :: s.drop m
  else ∃ a tl v m, m ≤ N ∧ s = a :: tl ∧ s' = v :: tl.drop m

theorem one_bytes : (if (1 : Nat) = 0 then ([] : Bytes) else [UInt8.ofNat 1]) = [1] := by decide

/-- `OP_SIZE OP_0NOTEQUAL`: the flag is false only for the empty vector -/
theorem size_zne_ok {env : Env} {c c1 c2 : Core} (h1 : opc env .size c = .ok c1)
    (h2 : opc env .zeronotequal c1 = .ok c2) :
    ∃ p r b, c.stack = p :: r ∧ c2.stack = boolBytes b :: p :: r ∧ c2.alt = c.alt ∧ (b = false → p = []) := by
  obtain ⟨p, r, e1, e1', a1⟩ := size_ok h1
  obtain ⟨c1', hs, ha, h⟩ := opc_ok h2
  obtain ⟨s, al, ops⟩ := c1'
  simp only at hs ha
  subst hs
  rw [e1'] at h
  simp only [execOpc] at h
  obtain ⟨x, hx, h⟩ := bind_ok h
  obtain ⟨e2, a2⟩ := pushElem_ok h
  refine ⟨p, r, (x != 0), e1, e2, by rw [a2]; exact ha.trans a1, ?_⟩
  intro hb
  have hx0 : x = 0 := by simpa using hb
  subst hx0
  unfold num4 at hx
  split at hx
  · rename_i v hv
    cases hx
    exact List.eq_nil_of_length_eq_zero (decode_size_ne_zero hv)
  · cases hx

/-- a `PostN` for the stack `s.drop n` is a `PostN` for `s` (B, V, K), the bounds add up -/
theorem PostN.shift {t t' : Corr} {M N : Nat} {s s' : List Bytes} (n : Nat) (h : PostN t M (s.drop n) s')
    (hb : t'.base = t.base) (hu : t'.unit = true → t.unit = true) (hw : t.base ≠ .W) (hN : n + M ≤ N) :
    PostN t' N s s' := by
  cases htb : t.base with
  | B =>
    obtain ⟨v, m, hm, e, u⟩ := (PostN.B htb).1 h
    exact (PostN.B (hb.trans htb)).2 ⟨v, n + m, by omega, by rw [e, drop_drop'], fun h1 => u (hu h1)⟩
  | V =>
    obtain ⟨m, hm, e⟩ := (PostN.V htb).1 h
    exact (PostN.V (hb.trans htb)).2 ⟨n + m, by omega, by rw [e, drop_drop']⟩
  | K =>
    obtain ⟨k, m, hm, e⟩ := (PostN.K htb).1 h
    exact (PostN.K (hb.trans htb)).2 ⟨k, n + m, by omega, by rw [e, drop_drop']⟩
  | W => exact absurd htb hw

mutual
theorem shapeN {env : Env} (hlim : env.flags.stackLimits = false) (ke : KeyEnv) (ctx : Ctx) :
    (ms : Ms) → wf ms = true → ∀ (τ : Ty), typeOf ms = some τ → ∀ (c c' : Core),
      frag env ke ctx ms c = .ok c' → c'.alt = c.alt ∧ PostN τ.corr (maxArgs ms) c.stack c'.stack
  | .tru, _, τ, h, c, c', hr => by
    simp only [typeOf] at h; cases h
    rw [frag] at hr
    obtain ⟨hs, ha⟩ := pushElem_ok hr
    refine ⟨ha, (PostN.B rfl).2 ⟨_, 0, by simp only [maxArgs, maxArgsL]; omega, hs, fun _ _ => one_bytes⟩⟩
  | .fls, _, τ, h, c, c', hr => by
    simp only [typeOf] at h; cases h
    rw [frag] at hr
    obtain ⟨hs, ha⟩ := pushElem_ok hr
    refine ⟨ha, (PostN.B rfl).2 ⟨_, 0, by simp only [maxArgs, maxArgsL]; omega, hs, fun _ hv => ?_⟩⟩
    simp [castToBool] at hv
  | .pkK k, _, τ, h, c, c', hr => by
    simp only [typeOf] at h; cases h
    rw [frag] at hr
    obtain ⟨hs, ha⟩ := psh_ok hr
    exact ⟨ha, (PostN.K rfl).2 ⟨_, 0, by simp only [maxArgs, maxArgsL]; omega, hs⟩⟩
  | .pkH k, _, τ, h, c, c', hr => by
    simp only [typeOf] at h; cases h
    rw [frag] at hr
    obtain ⟨c1, h1, hr⟩ := seqOps_cons_ok hr
    obtain ⟨c2, h2, hr⟩ := seqOps_cons_ok hr
    obtain ⟨c3, h3, hr⟩ := seqOps_cons_ok hr
    obtain ⟨c4, h4, hr⟩ := seqOps_cons_ok hr
    cases seqOps_nil_ok hr
    obtain ⟨a, r, e1, e1', a1⟩ := dup_ok h1
    obtain ⟨a2, r2, e2, e2', a2'⟩ := hash160_ok h2
    obtain ⟨e3, a3⟩ := pushData_ok h3
    obtain ⟨x, y, e4, _, a4⟩ := equalverify_ok h4
    rw [e1'] at e2
    simp only [List.cons.injEq] at e2
    obtain ⟨rfl, rfl⟩ := e2
    rw [e3, e2'] at e4
    simp only [List.cons.injEq] at e4
    obtain ⟨_, _, e4⟩ := e4
    refine ⟨by rw [a4, a3, a2', a1], (PostN.K rfl).2 ⟨a, 1, by simp only [maxArgs, maxArgsL]; omega, ?_⟩⟩
    rw [← e4, e1]; rfl
  | .rawPkH k, _, τ, h, c, c', hr => by
    simp only [typeOf] at h; cases h
    rw [frag] at hr
    obtain ⟨c1, h1, hr⟩ := seqOps_cons_ok hr
    obtain ⟨c2, h2, hr⟩ := seqOps_cons_ok hr
    obtain ⟨c3, h3, hr⟩ := seqOps_cons_ok hr
    obtain ⟨c4, h4, hr⟩ := seqOps_cons_ok hr
    cases seqOps_nil_ok hr
    obtain ⟨a, r, e1, e1', a1⟩ := dup_ok h1
    obtain ⟨a2, r2, e2, e2', a2'⟩ := hash160_ok h2
    obtain ⟨e3, a3⟩ := pushData_ok h3
    obtain ⟨x, y, e4, _, a4⟩ := equalverify_ok h4
    rw [e1'] at e2
    simp only [List.cons.injEq] at e2
    obtain ⟨rfl, rfl⟩ := e2
    rw [e3, e2'] at e4
    simp only [List.cons.injEq] at e4
    obtain ⟨_, _, e4⟩ := e4
    refine ⟨by rw [a4, a3, a2', a1], (PostN.K rfl).2 ⟨a, 1, by simp only [maxArgs, maxArgsL]; omega, ?_⟩⟩
    rw [← e4, e1]; rfl
  | .after n, _, τ, h, c, c', hr => by
    simp only [typeOf] at h; cases h
    rw [frag] at hr
    obtain ⟨c1, h1, hr⟩ := seqOps_cons_ok hr
    obtain ⟨c2, h2, hr⟩ := seqOps_cons_ok hr
    cases seqOps_nil_ok hr
    obtain ⟨e1, a1⟩ := pushInt_ok h1
    obtain ⟨e2, a2⟩ := locktime_ok (o := .cltv) (Or.inl rfl) h2
    refine ⟨by rw [a2, a1], (PostN.B rfl).2 ⟨_, 0, by simp only [maxArgs, maxArgsL]; omega, by rw [e2, e1]; rfl, fun hu => ?_⟩⟩
    simp [Ty.time, Corr.time] at hu
  | .older n, _, τ, h, c, c', hr => by
    simp only [typeOf] at h; cases h
    rw [frag] at hr
    obtain ⟨c1, h1, hr⟩ := seqOps_cons_ok hr
    obtain ⟨c2, h2, hr⟩ := seqOps_cons_ok hr
    cases seqOps_nil_ok hr
    obtain ⟨e1, a1⟩ := pushInt_ok h1
    obtain ⟨e2, a2⟩ := locktime_ok (o := .csv) (Or.inr rfl) h2
    refine ⟨by rw [a2, a1], (PostN.B rfl).2 ⟨_, 0, by simp only [maxArgs, maxArgsL]; omega, by rw [e2, e1]; rfl, fun hu => ?_⟩⟩
    simp [Ty.time, Corr.time] at hu
  | .hash kind hh, _, τ, h, c, c', hr => by
    simp only [typeOf] at h; cases h
    rw [frag] at hr
    obtain ⟨c1, h1, hr⟩ := seqOps_cons_ok hr
    obtain ⟨c2, h2, hr⟩ := seqOps_cons_ok hr
    obtain ⟨c3, h3, hr⟩ := seqOps_cons_ok hr
    obtain ⟨c4, h4, hr⟩ := seqOps_cons_ok hr
    obtain ⟨c5, h5, hr⟩ := seqOps_cons_ok hr
    obtain ⟨c6, h6, hr⟩ := seqOps_cons_ok hr
    cases seqOps_nil_ok hr
    obtain ⟨a, r, e1, e1', a1⟩ := size_ok h1
    obtain ⟨e2, a2⟩ := pushInt_ok h2
    obtain ⟨x, y, e3, _, a3⟩ := equalverify_ok h3
    obtain ⟨a4, r4, v4, e4, e4', a4'⟩ := hashop_ok h4
    obtain ⟨e5, a5⟩ := pushData_ok h5
    obtain ⟨x6, y6, r6, v6, e6, e6', a6⟩ := bool2_ok (o := .equal) (by simp) h6
    rw [e2, e1'] at e3
    simp only [List.cons.injEq] at e3
    obtain ⟨_, _, e3⟩ := e3
    rw [← e3] at e4
    simp only [List.cons.injEq] at e4
    obtain ⟨_, rfl⟩ := e4
    rw [e5, e4'] at e6
    simp only [List.cons.injEq] at e6
    obtain ⟨_, _, rfl⟩ := e6
    refine ⟨by rw [a6, a5, a4', a3, a2, a1], (PostN.B rfl).2 ⟨boolBytes v6, 1, by simp only [maxArgs, maxArgsL]; omega, ?_, fun _ hv => boolBytes_unit _ hv⟩⟩
    rw [e6', e1]; rfl
  | .multi k ks, hw, τ, h, c, c', hr => by
    simp only [typeOf] at h; cases h
    rw [frag] at hr
    simp only [wf, decide_eq_true_eq] at hw
    obtain ⟨ha, b, m, hm, hs⟩ := multi_shape ke k ks hw hr
    exact ⟨ha, (PostN.B rfl).2 ⟨_, m, by simp only [maxArgs, maxArgsL]; omega, hs, fun _ hv => boolBytes_unit _ hv⟩⟩
  | .sortedMulti k ks, hw, τ, h, c, c', hr => by
    simp only [typeOf] at h; cases h
    rw [frag] at hr
    simp only [wf, decide_eq_true_eq] at hw
    rw [← sortKeys_length ke ks] at hr hw
    obtain ⟨ha, b, m, hm, hs⟩ := multi_shape ke k (sortKeys ke ks) hw hr
    exact ⟨ha, (PostN.B rfl).2 ⟨_, m, by simp only [maxArgs, maxArgsL]; omega, hs, fun _ hv => boolBytes_unit _ hv⟩⟩
  | .multiA k ks, _, τ, h, c, c', hr => by
    simp only [typeOf] at h; cases h
    rw [frag] at hr
    obtain ⟨ha, b, m, hm, hs⟩ := multiA_shape ke k ks hr
    exact ⟨ha, (PostN.B rfl).2 ⟨_, m, by simp only [maxArgs, maxArgsL]; omega, hs, fun _ hv => boolBytes_unit _ hv⟩⟩
  | .sortedMultiA k ks, _, τ, h, c, c', hr => by
    simp only [typeOf] at h; cases h
    rw [frag] at hr
    obtain ⟨ha, b, m, hm, hs⟩ := multiA_shape ke k (sortKeys ke ks) hr
    rw [sortKeys_length] at hm
    exact ⟨ha, (PostN.B rfl).2 ⟨_, m, by simp only [maxArgs, maxArgsL]; omega, hs, fun _ hv => boolBytes_unit _ hv⟩⟩
  | .alt x, hw, τ, h, c, c', hr => by
    simp only [typeOf] at h
    obtain ⟨a, hx, h⟩ := typeOf_un h
    obtain ⟨hab, hy⟩ := castAlt_inv (lift1_corr h)
    rw [frag_alt] at hr
    obtain ⟨c1, h1, hr⟩ := bind_ok hr
    obtain ⟨c2, h2, h3⟩ := bind_ok hr
    obtain ⟨e, e1, a1⟩ := toalt_ok h1
    obtain ⟨ih1, ih2⟩ := shapeN hlim ke ctx x (by simpa [wf] using hw) a hx c1 c2 h2
    obtain ⟨v, n, hbd, e2, hu⟩ := (PostN.B hab).1 ih2
    obtain ⟨e', a3, e3⟩ := fromalt_ok h3
    rw [ih1, a1] at a3
    simp only [List.cons.injEq] at a3
    obtain ⟨rfl, a3⟩ := a3
    refine ⟨a3.symm, ?_⟩
    rw [hy]
    refine (PostN.W rfl).2 ⟨e, c1.stack, v, n, by simp only [maxArgs, maxArgsL]; omega, e1, Or.inl (by rw [e3, e2]), hu⟩
  | .swap x, hw, τ, h, c, c', hr => by
    simp only [typeOf] at h
    obtain ⟨a, hx, h⟩ := typeOf_un h
    obtain ⟨hab, hai, hy⟩ := castSwap_inv (lift1_corr h)
    rw [frag_swap] at hr
    obtain ⟨c1, h1, h2⟩ := bind_ok hr
    obtain ⟨p, q, r, e1, e1', a1⟩ := swap_ok h1
    have hwx : wf x = true := by simpa [wf] using hw
    obtain ⟨ih1, ih2⟩ := shapeN hlim ke ctx x hwx a hx c1 c' h2
    obtain ⟨v, n, hbd, e2, hu⟩ := (PostN.B hab).1 ih2
    -- `X` is one-arg: it consumes exactly `q` and leaves exactly one element
    have hna : nargs a.corr.input = some 1 := by rcases hai with h1 | h1 <;> rw [h1] <;> rfl
    have hc := args_cons hlim ke ctx x hwx a 1 hx hna
    rw [hab] at hc
    obtain ⟨out, ho, hs⟩ := (hc.at c1 [q] (p :: r) (by rw [e1']; rfl) rfl).2 c' h2
    obtain ⟨w, rfl⟩ := len1 ho
    rw [hs] at e2
    simp only [List.cons_append, List.nil_append, List.cons.injEq] at e2
    obtain ⟨rfl, _⟩ := e2
    refine ⟨ih1.trans a1, ?_⟩
    rw [hy]
    exact (PostN.W rfl).2 ⟨p, q :: r, w, 1, by simp only [maxArgs, maxArgsL]; omega, e1, Or.inr (by rw [hs]; rfl), hu⟩
  | .check x, hw, τ, h, c, c', hr => by
    simp only [typeOf] at h
    obtain ⟨a, hx, h⟩ := typeOf_un h
    obtain ⟨hab, hy⟩ := castCheck_inv (lift1_corr h)
    rw [frag_check] at hr
    obtain ⟨c1, h1, h2⟩ := bind_ok hr
    obtain ⟨ih1, ih2⟩ := shapeN hlim ke ctx x (by simpa [wf] using hw) a hx c c1 h1
    obtain ⟨k, n, hbd, e1⟩ := (PostN.K hab).1 ih2
    obtain ⟨p, q, r, v, e2, e2', a2⟩ := bool2_ok (o := .checksig) (by simp) h2
    rw [e1] at e2
    simp only [List.cons.injEq] at e2
    obtain ⟨_, e2⟩ := e2
    refine ⟨a2.trans ih1, ?_⟩
    rw [hy]
    exact (PostN.B rfl).2 ⟨boolBytes v, n + 1, by simp only [maxArgs, maxArgsL]; omega, by rw [e2', drop_succ_of_drop_cons e2],
      fun _ hv => boolBytes_unit _ hv⟩
  | .dupIf x, hw, τ, h, c, c', hr => by
    simp only [typeOf] at h
    obtain ⟨a, hx, h⟩ := typeOf_un h
    obtain ⟨hab, hai, hy⟩ := castDupIf_inv (lift1_corr h)
    rw [frag_dupIf] at hr
    obtain ⟨c1, h1, h2⟩ := bind_ok hr
    obtain ⟨p, r, e1, e1', a1⟩ := dup_ok h1
    obtain ⟨a0, c2, e2, a2, hcase⟩ := ifThen_ok h2
    rw [e1'] at e2
    simp only [List.cons.injEq] at e2
    obtain ⟨_, e2⟩ := e2
    have hwx : wf x = true := by simpa [wf] using hw
    rw [hy]
    rcases hcase with ⟨_, c3, h3, e3, a3⟩ | ⟨_, e3, a3⟩
    · obtain ⟨ih1, _⟩ := shapeN hlim ke ctx x hwx a hx c2 c3 h3
      have hc := args_cons hlim ke ctx x hwx a 0 hx (by rw [hai]; rfl)
      rw [hab] at hc
      obtain ⟨out, ho, hs⟩ := (hc.at c2 [] c2.stack rfl rfl).2 c3 h3
      have : out = [] := List.eq_nil_of_length_eq_zero ho
      subst this
      refine ⟨by rw [a3, ih1, a2, a1], (PostN.B rfl).2 ⟨p, 1, by simp only [maxArgs, maxArgsL]; omega, ?_, fun hu => by simp at hu⟩⟩
      rw [e3, hs, ← e2, e1]; rfl
    · refine ⟨by rw [a3, a2, a1], (PostN.B rfl).2 ⟨p, 1, by simp only [maxArgs, maxArgsL]; omega, ?_, fun hu => by simp at hu⟩⟩
      rw [e3, ← e2, e1]; rfl
  | .verify x, hw, τ, h, c, c', hr => by
    simp only [typeOf] at h
    obtain ⟨a, hx, h⟩ := typeOf_un h
    obtain ⟨hab, hy⟩ := castVerify_inv (lift1_corr h)
    rw [frag_verify] at hr
    obtain ⟨c1, h1, h2⟩ := bind_ok hr
    obtain ⟨ih1, ih2⟩ := shapeN hlim ke ctx x (by simpa [wf] using hw) a hx c c1 h1
    obtain ⟨v, n, hbd, e1, _⟩ := (PostN.B hab).1 ih2
    obtain ⟨a0, e2, _, a2⟩ := verifyTail_ok h2
    rw [e1] at e2
    simp only [List.cons.injEq] at e2
    refine ⟨a2.trans ih1, ?_⟩
    rw [hy]
    exact (PostN.V rfl).2 ⟨n, by simp only [maxArgs, maxArgsL]; omega, e2.2.symm⟩
  | .nonZero x, hw, τ, h, c, c', hr => by
    simp only [typeOf] at h
    obtain ⟨a, hx, h⟩ := typeOf_un h
    obtain ⟨hab, hai, hy⟩ := castNonZero_inv (lift1_corr h)
    rw [frag_nonZero] at hr
    obtain ⟨c1, h1, hr⟩ := bind_ok hr
    obtain ⟨c2, h2, h3⟩ := bind_ok hr
    obtain ⟨p, r, b, e1, e2, a2, hb⟩ := size_zne_ok h1 h2
    obtain ⟨a0, c3, e3, a3, hcase⟩ := ifThen_ok h3
    rw [e2] at e3
    simp only [List.cons.injEq] at e3
    obtain ⟨rfl, e3⟩ := e3
    rw [hy]
    rcases hcase with ⟨_, c4, h4, e4, a4⟩ | ⟨hf, e4, a4⟩
    · obtain ⟨ih1, ih2⟩ := shapeN hlim ke ctx x (by simpa [wf] using hw) a hx c3 c4 h4
      obtain ⟨v, n, hbd, e5, hu⟩ := (PostN.B hab).1 ih2
      refine ⟨by rw [a4, ih1, a3, a2], (PostN.B rfl).2 ⟨v, n, by simp only [maxArgs, maxArgsL]; omega, ?_, hu⟩⟩
      rw [e4, e5, ← e3, e1]
    · have hbf : b = false := by
        cases b
        · rfl
        · simp [condFlag, boolBytes, castToBool] at hf
      have hp := hb hbf
      subst hp
      refine ⟨by rw [a4, a3, a2], (PostN.B rfl).2 ⟨[], 1, by simp only [maxArgs, maxArgsL]; omega, ?_, fun _ hv => by simp [castToBool] at hv⟩⟩
      rw [e4, ← e3, e1]; rfl
  | .zeroNotEqual x, hw, τ, h, c, c', hr => by
    simp only [typeOf] at h
    obtain ⟨a, hx, h⟩ := typeOf_un h
    obtain ⟨hab, hy⟩ := castZeroNotEqual_inv (lift1_corr h)
    rw [frag_zeroNotEqual] at hr
    obtain ⟨c1, h1, h2⟩ := bind_ok hr
    obtain ⟨ih1, ih2⟩ := shapeN hlim ke ctx x (by simpa [wf] using hw) a hx c c1 h1
    obtain ⟨v, n, hbd, e1, _⟩ := (PostN.B hab).1 ih2
    obtain ⟨a0, r0, b, e2, e2', a2⟩ := zeronotequal_ok h2
    rw [e1] at e2
    simp only [List.cons.injEq] at e2
    refine ⟨a2.trans ih1, ?_⟩
    rw [hy]
    exact (PostN.B rfl).2 ⟨boolBytes b, n, by simp only [maxArgs, maxArgsL]; omega, by rw [e2', e2.2], fun _ hv => boolBytes_unit _ hv⟩
  | .andV l r, hw, τ, h, c, c', hr => by
    simp only [typeOf] at h
    obtain ⟨a, b, hl, hrr, h⟩ := typeOf_bin h
    obtain ⟨hab, hbb, hy⟩ := andV_inv (lift2_corr h)
    simp only [wf, Bool.and_eq_true] at hw
    rw [frag_andV] at hr
    obtain ⟨c1, h1, h2⟩ := bind_ok hr
    obtain ⟨ih1, ih2⟩ := shapeN hlim ke ctx l hw.1 a hl c c1 h1
    obtain ⟨jh1, jh2⟩ := shapeN hlim ke ctx r hw.2 b hrr c1 c' h2
    obtain ⟨n, hbd, e1⟩ := (PostN.V hab).1 ih2
    rw [e1] at jh2
    refine ⟨jh1.trans ih1, ?_⟩
    rw [hy]
    refine PostN.shift n jh2 rfl (fun hu => hu) ?_ (by simp only [maxArgs, maxArgsL]; omega)
    rcases hbb with hb | hb | hb <;> rw [hb] <;> simp
  | .andB l r, hw, τ, h, c, c', hr => by
    simp only [typeOf] at h
    obtain ⟨a, b, hl, hrr, h⟩ := typeOf_bin h
    obtain ⟨hab, hbb, hy⟩ := andB_inv (lift2_corr h)
    simp only [wf, Bool.and_eq_true] at hw
    rw [frag_andB] at hr
    obtain ⟨c1, h1, hr⟩ := bind_ok hr
    obtain ⟨c2, h2, h3⟩ := bind_ok hr
    obtain ⟨ih1, ih2⟩ := shapeN hlim ke ctx l hw.1 a hl c c1 h1
    obtain ⟨jh1, jh2⟩ := shapeN hlim ke ctx r hw.2 b hrr c1 c2 h2
    obtain ⟨v, n, hbd, e1, _⟩ := (PostN.B hab).1 ih2
    obtain ⟨x, tl, w, m, hbd, e2, e3, _⟩ := (PostN.W hbb).1 jh2
    obtain ⟨p, q, r', bv, e4, e4', a4⟩ := bool2_ok (o := .booland) (by simp) h3
    rw [e1] at e2
    simp only [List.cons.injEq] at e2
    obtain ⟨_, rfl⟩ := e2
    have hr' : r' = (c.stack.drop n).drop m := by
      rcases e3 with e3 | e3 <;> rw [e3] at e4 <;> simp only [List.cons.injEq] at e4 <;> exact e4.2.2.symm
    refine ⟨by rw [a4, jh1, ih1], ?_⟩
    rw [hy]
    exact (PostN.B rfl).2 ⟨boolBytes bv, n + m, by simp only [maxArgs, maxArgsL]; omega, by rw [e4', hr', drop_drop'], fun _ hv => boolBytes_unit _ hv⟩
  | .orB l r, hw, τ, h, c, c', hr => by
    simp only [typeOf] at h
    obtain ⟨a, b, hl, hrr, h⟩ := typeOf_bin h
    obtain ⟨hab, hbb, hy⟩ := orB_inv (lift2_corr h)
    simp only [wf, Bool.and_eq_true] at hw
    rw [frag_orB] at hr
    obtain ⟨c1, h1, hr⟩ := bind_ok hr
    obtain ⟨c2, h2, h3⟩ := bind_ok hr
    obtain ⟨ih1, ih2⟩ := shapeN hlim ke ctx l hw.1 a hl c c1 h1
    obtain ⟨jh1, jh2⟩ := shapeN hlim ke ctx r hw.2 b hrr c1 c2 h2
    obtain ⟨v, n, hbd, e1, _⟩ := (PostN.B hab).1 ih2
    obtain ⟨x, tl, w, m, hbd, e2, e3, _⟩ := (PostN.W hbb).1 jh2
    obtain ⟨p, q, r', bv, e4, e4', a4⟩ := bool2_ok (o := .boolor) (by simp) h3
    rw [e1] at e2
    simp only [List.cons.injEq] at e2
    obtain ⟨_, rfl⟩ := e2
    have hr' : r' = (c.stack.drop n).drop m := by
      rcases e3 with e3 | e3 <;> rw [e3] at e4 <;> simp only [List.cons.injEq] at e4 <;> exact e4.2.2.symm
    refine ⟨by rw [a4, jh1, ih1], ?_⟩
    rw [hy]
    exact (PostN.B rfl).2 ⟨boolBytes bv, n + m, by simp only [maxArgs, maxArgsL]; omega, by rw [e4', hr', drop_drop'], fun _ hv => boolBytes_unit _ hv⟩
  | .andOr x y z, hw, τ, h, c, c', hr => by
    obtain ⟨a, b, cc, hx, hy', hz, h⟩ := typeOf_andOr h
    obtain ⟨hab, _, _, hbc, hbb, hy⟩ := andOr_inv (andOr_corr h)
    simp only [wf, Bool.and_eq_true] at hw
    rw [frag_andOr] at hr
    obtain ⟨c1, h1, h2⟩ := bind_ok hr
    obtain ⟨ih1, ih2⟩ := shapeN hlim ke ctx x hw.1.1 a hx c c1 h1
    obtain ⟨v, n, hbd, e1, _⟩ := (PostN.B hab).1 ih2
    obtain ⟨a0, c2, c4, e2, a2, e4, a4, hcase⟩ := ifElse_ok h2
    rw [e1] at e2
    simp only [List.cons.injEq] at e2
    obtain ⟨_, e2⟩ := e2
    have hnw : b.corr.base ≠ .W := by rcases hbb with hb | hb | hb <;> rw [hb] <;> simp
    rw [hy]
    rcases hcase with ⟨_, h3⟩ | ⟨_, c2', e2', a2', h3⟩
    · obtain ⟨jh1, jh2⟩ := shapeN hlim ke ctx z hw.2 cc hz c2 c4 h3
      rw [← e2, ← e4] at jh2
      refine ⟨by rw [a4, jh1, a2, ih1], PostN.shift n jh2 hbc (fun hu => ?_) (by rw [← hbc]; exact hnw) (by simp only [maxArgs, maxArgsL]; omega)⟩
      simp only [Bool.and_eq_true] at hu
      exact hu.2
    · obtain ⟨jh1, jh2⟩ := shapeN hlim ke ctx y hw.1.2 b hy' c2' c4 h3
      rw [e2', ← e2, ← e4] at jh2
      refine ⟨by rw [a4, jh1, a2', a2, ih1], PostN.shift n jh2 rfl (fun hu => ?_) hnw (by simp only [maxArgs, maxArgsL]; omega)⟩
      simp only [Bool.and_eq_true] at hu
      exact hu.1
  | .orD l r, hw, τ, h, c, c', hr => by
    simp only [typeOf] at h
    obtain ⟨a, b, hl, hrr, h⟩ := typeOf_bin h
    obtain ⟨hab, hbb, hau, _, hy⟩ := orD_inv (lift2_corr h)
    simp only [wf, Bool.and_eq_true] at hw
    rw [frag_orD] at hr
    obtain ⟨c1, h1, hr⟩ := bind_ok hr
    obtain ⟨c2, h2, h3⟩ := bind_ok hr
    obtain ⟨ih1, ih2⟩ := shapeN hlim ke ctx l hw.1 a hl c c1 h1
    obtain ⟨v, n, hbd, e1, hu⟩ := (PostN.B hab).1 ih2
    obtain ⟨a0, r0, e2, a2, e2'⟩ := ifdup_ok h2
    rw [e1] at e2
    simp only [List.cons.injEq] at e2
    obtain ⟨rfl, rfl⟩ := e2
    obtain ⟨a1, c3, e3, a3, hcase⟩ := ifThen_ok h3
    rw [hy]
    by_cases hv : castToBool v = true
    · simp only [hv, if_true] at e2'
      rw [e2'] at e3
      simp only [List.cons.injEq] at e3
      obtain ⟨rfl, e3⟩ := e3
      rcases hcase with ⟨hf, _⟩ | ⟨_, e4, a4⟩
      · simp [condFlag, hv] at hf
      · refine ⟨by rw [a4, a3, a2, ih1], (PostN.B rfl).2 ⟨v, n, by simp only [maxArgs, maxArgsL]; omega, by rw [e4, ← e3], fun _ _ => hu hau hv⟩⟩
    · simp only [hv, Bool.false_eq_true, if_false] at e2'
      rw [e2'] at e3
      simp only [List.cons.injEq] at e3
      obtain ⟨rfl, e3⟩ := e3
      rcases hcase with ⟨_, c4, h4, e4, a4⟩ | ⟨hf, _⟩
      · obtain ⟨jh1, jh2⟩ := shapeN hlim ke ctx r hw.2 b hrr c3 c4 h4
        rw [← e3, ← e4] at jh2
        refine ⟨by rw [a4, jh1, a3, a2, ih1], PostN.shift n jh2 hbb.symm (fun hu' => hu') (by rw [hbb]; simp) (by simp only [maxArgs, maxArgsL]; omega)⟩
      · simp [condFlag, hv] at hf
  | .orC l r, hw, τ, h, c, c', hr => by
    simp only [typeOf] at h
    obtain ⟨a, b, hl, hrr, h⟩ := typeOf_bin h
    obtain ⟨hab, hbb, _, _, hy⟩ := orC_inv (lift2_corr h)
    simp only [wf, Bool.and_eq_true] at hw
    rw [frag_orC] at hr
    obtain ⟨c1, h1, h2⟩ := bind_ok hr
    obtain ⟨ih1, ih2⟩ := shapeN hlim ke ctx l hw.1 a hl c c1 h1
    obtain ⟨v, n, hbd, e1, _⟩ := (PostN.B hab).1 ih2
    obtain ⟨a1, c3, e3, a3, hcase⟩ := ifThen_ok h2
    rw [e1] at e3
    simp only [List.cons.injEq] at e3
    obtain ⟨_, e3⟩ := e3
    rw [hy]
    rcases hcase with ⟨_, c4, h4, e4, a4⟩ | ⟨_, e4, a4⟩
    · obtain ⟨jh1, jh2⟩ := shapeN hlim ke ctx r hw.2 b hrr c3 c4 h4
      rw [← e3, ← e4] at jh2
      exact ⟨by rw [a4, jh1, a3, ih1], PostN.shift n jh2 hbb.symm (fun hu' => by simp at hu') (by rw [hbb]; simp) (by simp only [maxArgs, maxArgsL]; omega)⟩
    · exact ⟨by rw [a4, a3, ih1], (PostN.V rfl).2 ⟨n, by simp only [maxArgs, maxArgsL]; omega, by rw [e4, ← e3]⟩⟩
  | .orI l r, hw, τ, h, c, c', hr => by
    simp only [typeOf] at h
    obtain ⟨a, b, hl, hrr, h⟩ := typeOf_bin h
    obtain ⟨hab, hbb, hy⟩ := orI_inv (lift2_corr h)
    simp only [wf, Bool.and_eq_true] at hw
    rw [frag_orI] at hr
    obtain ⟨a0, c2, c4, e2, a2, e4, a4, hcase⟩ := ifElse_ok hr
    have hnw : a.corr.base ≠ .W := by rcases hbb with hb | hb | hb <;> rw [hb] <;> simp
    have hd : c2.stack = c.stack.drop 1 := by rw [e2]; rfl
    rw [hy]
    rcases hcase with ⟨_, h3⟩ | ⟨_, c2', e2', a2', h3⟩
    · obtain ⟨jh1, jh2⟩ := shapeN hlim ke ctx l hw.1 a hl c2 c4 h3
      rw [hd, ← e4] at jh2
      refine ⟨by rw [a4, jh1, a2], PostN.shift 1 jh2 rfl (fun hu => ?_) hnw (by simp only [maxArgs, maxArgsL]; omega)⟩
      simp only [Bool.and_eq_true] at hu
      exact hu.1
    · obtain ⟨jh1, jh2⟩ := shapeN hlim ke ctx r hw.2 b hrr c2' c4 h3
      rw [e2', hd, ← e4] at jh2
      refine ⟨by rw [a4, jh1, a2', a2], PostN.shift 1 jh2 hab (fun hu => ?_) (by rw [← hab]; exact hnw) (by simp only [maxArgs, maxArgsL]; omega)⟩
      simp only [Bool.and_eq_true] at hu
      exact hu.2
  | .thresh k xs, hw, τ, h, c, c', hr => by
    obtain ⟨ts, hts, h⟩ := typeOf_thresh h
    obtain ⟨n, hloop, hy⟩ := threshold_inv (threshold_corr h)
    simp only [wf, Bool.and_eq_true, decide_eq_true_eq] at hw
    rw [frag_thresh] at hr
    obtain ⟨c1, h1, h2⟩ := bind_ok hr
    obtain ⟨ih1, ih2⟩ := shapeThreshN hlim ke ctx xs hw.2 ts hts true 0 0 n (by simp) hloop c c1 h1
    obtain ⟨c2, h3, h4⟩ := seqOps_cons_ok h2
    obtain ⟨c3, h5, h6⟩ := seqOps_cons_ok h4
    cases seqOps_nil_ok h6
    obtain ⟨e3, a3⟩ := pushInt_ok h3
    obtain ⟨p, q, r', bv, e5, e5', a5⟩ := bool2_ok (o := .equal) (by simp) h5
    rcases ih2 with ⟨hnil, _⟩ | ih2
    · rw [hnil] at hw; simp [MsList.length] at hw
    · simp only [ThreshPost, if_true] at ih2
      obtain ⟨v, m, hm, e1⟩ := ih2
      rw [e3, e1] at e5
      simp only [List.cons.injEq] at e5
      refine ⟨by rw [a5, a3, ih1], ?_⟩
      rw [hy]
      exact (PostN.B rfl).2 ⟨boolBytes bv, m, by simp only [maxArgs, maxArgsL]; omega, by rw [e5', ← e5.2.2], fun _ hv => boolBytes_unit _ hv⟩
theorem shapeThreshN {env : Env} (hlim : env.flags.stackLimits = false) (ke : KeyEnv) (ctx : Ctx) :
    (xs : MsList) → wfL xs = true → ∀ (ts : List Ty), typesOf xs = some ts →
      ∀ (first : Bool) (i acc n : Nat), (first = true ↔ i = 0) →
        Corr.threshLoop i acc (ts.map (·.corr)) = some n → ∀ (c c' : Core),
          fragThresh env ke ctx first xs c = .ok c' →
            c'.alt = c.alt ∧ ((xs = .nil ∧ c'.stack = c.stack) ∨ ThreshPost first (maxArgsL xs) c.stack c'.stack)
  | .nil, _, ts, _, first, i, acc, n, _, _, c, c', hr => by
    rw [fragThresh] at hr
    cases hr
    exact ⟨rfl, Or.inl ⟨rfl, rfl⟩⟩
  | .cons x xs, hw, ts, hts, first, i, acc, n, hfi, hloop, c, c', hr => by
    obtain ⟨t, ts', hx, hxs, rfl⟩ := typesOf_cons hts
    simp only [List.map_cons] at hloop
    obtain ⟨hB, hW, _, _, htail⟩ := threshLoop_cons hloop
    simp only [wfL, Bool.and_eq_true] at hw
    rw [fragThresh_cons] at hr
    obtain ⟨c1, h1, hr⟩ := bind_ok hr
    obtain ⟨c2, h2, h3⟩ := bind_ok hr
    obtain ⟨ih1, ih2⟩ := shapeN hlim ke ctx x hw.1 t hx c c1 h1
    obtain ⟨jh1, jh2⟩ := shapeThreshN hlim ke ctx xs hw.2 ts' hxs false (i + 1) _ n (by simp) htail c2 c' h3
    -- after the head (and its ADD): one accumulator on top of a suffix of the input
    have key : c2.alt = c.alt ∧ ThreshPost first (maxArgs x) c.stack c2.stack := by
      cases first with
      | true =>
        have hi0 : i = 0 := hfi.1 rfl
        cases h2
        obtain ⟨v, m, hbd, e1, _⟩ := (PostN.B (hB hi0)).1 ih2
        exact ⟨ih1, by simp only [ThreshPost, if_true]; exact ⟨v, m, hbd, e1⟩⟩
      | false =>
        have hi0 : i ≠ 0 := fun h0 => by simpa using hfi.2 h0
        obtain ⟨a0, tl, w, m, hbd, e1, e2, _⟩ := (PostN.W (hW hi0)).1 ih2
        obtain ⟨p, q, r', v', e3, e3', a3⟩ := add_ok h2
        have hr' : r' = tl.drop m := by
          rcases e2 with e2 | e2 <;> rw [e2] at e3 <;> simp only [List.cons.injEq] at e3 <;> exact e3.2.2.symm
        refine ⟨a3.trans ih1, ?_⟩
        simp only [ThreshPost, Bool.false_eq_true, if_false]
        exact ⟨a0, tl, v', m, hbd, e1, by rw [e3', hr']⟩
    refine ⟨jh1.trans key.1, Or.inr ?_⟩
    rcases jh2 with ⟨hnil, e4⟩ | jh2
    · rw [e4, hnil]
      have hk := key.2
      cases first with
      | true =>
        simp only [ThreshPost, if_true] at hk ⊢
        obtain ⟨v, m, hm, e1⟩ := hk
        exact ⟨v, m, by simp only [maxArgsL]; omega, e1⟩
      | false =>
        simp only [ThreshPost, Bool.false_eq_true, if_false] at hk ⊢
        obtain ⟨a0, tl, v, m, hm, e0, e1⟩ := hk
        exact ⟨a0, tl, v, m, by simp only [maxArgsL]; omega, e0, e1⟩
    · simp only [ThreshPost, Bool.false_eq_true, if_false] at jh2
      obtain ⟨a2, tl2, v2, m2, hm2, e5, e6⟩ := jh2
      cases first with
      | true =>
        simp only [ThreshPost, if_true] at key ⊢
        obtain ⟨v, m, hm, e1⟩ := key.2
        rw [e1] at e5
        simp only [List.cons.injEq] at e5
        exact ⟨v2, m + m2, by simp only [maxArgsL]; omega, by rw [e6, ← e5.2, drop_drop']⟩
      | false =>
        simp only [ThreshPost, Bool.false_eq_true, if_false] at key ⊢
        obtain ⟨a0, tl, v, m, hm, e0, e1⟩ := key.2
        rw [e1] at e5
        simp only [List.cons.injEq] at e5
        exact ⟨a0, tl, v2, m + m2, by simp only [maxArgsL]; omega, e0, by rw [e6, ← e5.2, drop_drop']⟩
end

theorem drop_min (s : List Bytes) (n : Nat) : s.drop n = s.drop (min n s.length) := by
  by_cases h : n ≤ s.length
  · rw [Nat.min_eq_left h]
  · rw [Nat.min_eq_right (by omega), List.drop_eq_nil_of_le (by omega), List.drop_eq_nil_of_le (Nat.le_refl _)]

/-- the shape theorem without the bound (what the other C06 lemma files use) -/
theorem shape {env : Env} (hlim : env.flags.stackLimits = false) (ke : KeyEnv) (ctx : Ctx)
    (ms : Ms) (hwf : wf ms = true) (τ : Ty) (hty : typeOf ms = some τ) (c c' : Core)
    (hrun : frag env ke ctx ms c = .ok c') : c'.alt = c.alt ∧ Post τ.corr c.stack c'.stack :=
  ⟨(shapeN hlim ke ctx ms hwf τ hty c c' hrun).1, (shapeN hlim ke ctx ms hwf τ hty c c' hrun).2.toPost⟩

end MsVerif.TypeSound

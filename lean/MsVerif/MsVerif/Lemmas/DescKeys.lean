/-
Lemmas for C16/T3–T5: key-level derivation against the key-expression semantics, the generic
`translate`, the range loop of `find_derivation_index_for_spk`, and the two key orders.
-/
import MsVerif.Model.Descriptor
import MsVerif.Spec.KeyExpr

namespace MsVerif.Desc
open MsVerif MsVerif.Keys MsVerif.Bip32 MsVerif.KeyExpr

variable {X P κ κ' ε : Type}

/-! ### BIP32 paths -/

theorem normalIndices_none_iff (p : List Child) :
    normalIndices p = none ↔ p.any Child.isHardened = true := by
  induction p with
  | nil => simp [normalIndices]
  | cons c cs ih =>
    cases c with
    | normal i => simp [normalIndices, Child.isHardened, ih]
    | hardened i => simp [normalIndices, Child.isHardened]

theorem derivePub_eq_derivePath (ckd : X → Nat → X) (x : X) (p : List Child) :
    derivePub ckd x p = derivePath ckd x p := by
  induction p generalizing x with
  | nil => simp [derivePub, derivePath, normalIndices]
  | cons c cs ih =>
    cases c with
    | normal i =>
      simp only [derivePub, ih, derivePath, normalIndices, Option.map_map]
      cases normalIndices cs <;> simp
    | hardened i => simp [derivePub, derivePath, normalIndices]

theorem derivePath_isSome_iff (ckd : X → Nat → X) (x : X) (p : List Child) :
    (derivePath ckd x p).isSome = !p.any Child.isHardened := by
  unfold derivePath
  cases h : normalIndices p with
  | none => simp [(normalIndices_none_iff p).mp h]
  | some l =>
    have : ¬ p.any Child.isHardened = true := fun hh => by
      rw [(normalIndices_none_iff p).mpr hh] at h; cases h
    simp [Bool.not_eq_true _ ▸ this]

/-! ### one key -/

/-- the error `at_derivation_index` reports for a key that has no public derivation at `i` -/
def keyErrAt (k : DPK X P) : KeyErr := if k.isMultipath then .multipath else .hardenedStep

/-- `at_derivation_index` followed by `derive_public_key` is the key-expression semantics:
it succeeds exactly when `keyAt` is defined, never reaches an `unreachable!()`, and yields that
key; otherwise the error is `Multipath` for a multipath key and `HardenedStep` for the rest. -/
theorem atDerivationIndex_spec (ckd : X → Nat → X) (k : DPK X P) (i : Nat) :
    match k.atDerivationIndex i with
    | .ok k' => k'.IsDefinite ∧ keyAt ckd k i = some (derivePublicKey ckd k') ∧
        derivePublicKey ckd k' ≠ .panic
    | .error e => keyAt ckd k i = none ∧ e = keyErrAt k := by
  cases k with
  | single o key =>
    simp [DPK.atDerivationIndex, definiteNew, DPK.hasWildcard, DPK.hasHardenedStep, DPK.isMultipath,
      DPK.IsDefinite, keyAt, derivePublicKey]
  | multi o x paths wc =>
    simp [DPK.atDerivationIndex, keyAt, keyErrAt, DPK.isMultipath]
  | xpub o x path wc =>
    have key : ∀ p : List Child,
        match definiteNew (DPK.xpub (P := P) o x p .none) with
        | .ok k' => k'.IsDefinite ∧ (derivePath ckd x p).map Derived.ofXpub = some (derivePublicKey ckd k') ∧
            derivePublicKey ckd k' ≠ .panic
        | .error e => (derivePath ckd x p).map (Derived.ofXpub (P := P)) = none ∧ e = KeyErr.hardenedStep := by
      intro p
      by_cases hh : p.any Child.isHardened = true
      · have hn : derivePath ckd x p = none := by
          simp [derivePath, (normalIndices_none_iff p).mpr hh]
        simp [definiteNew, DPK.hasWildcard, DPK.hasHardenedStep, hh, hn]
      · have hs := derivePath_isSome_iff ckd x p
        simp only [hh, Bool.not_false] at hs
        obtain ⟨y, hy⟩ := Option.isSome_iff_exists.mp hs
        simp [definiteNew, DPK.hasWildcard, DPK.hasHardenedStep, DPK.isMultipath, hh, DPK.IsDefinite,
          derivePublicKey, derivePub_eq_derivePath, hy]
    cases wc with
    | none =>
      simpa [DPK.atDerivationIndex, keyAt, keyErrAt, DPK.isMultipath] using key path
    | unhardened =>
      by_cases hi : i < indexLimit
      · simpa [DPK.atDerivationIndex, childFromIdx, hi, keyAt, keyErrAt, DPK.isMultipath]
          using key (path ++ [.normal i])
      · simp [DPK.atDerivationIndex, childFromIdx, hi, keyAt, keyErrAt, DPK.isMultipath]
    | hardened =>
      by_cases hi : i < indexLimit
      · simp [DPK.atDerivationIndex, childFromIdx, hi, keyAt, keyErrAt, DPK.isMultipath, definiteNew,
          DPK.hasWildcard, DPK.hasHardenedStep, Child.isHardened]
      · simp [DPK.atDerivationIndex, childFromIdx, hi, keyAt, keyErrAt, DPK.isMultipath]


/-- the guards of public derivation at index `i`, spelled out: not a multipath key, no hardened
step in the path, no hardened wildcard, and — if there is a wildcard — `i < 2³¹` -/
def PubliclyDerivableAt (k : DPK X P) (i : Nat) : Prop :=
  k.isMultipath = false ∧ k.hasHardenedStep = false ∧
    (∀ o x p, k ≠ .xpub o x p .hardened) ∧ (k.hasWildcard = true → i < indexLimit)

theorem keyAt_isSome_iff (ckd : X → Nat → X) (k : DPK X P) (i : Nat) :
    (keyAt ckd k i).isSome ↔ PubliclyDerivableAt k i := by
  unfold PubliclyDerivableAt
  cases k with
  | single o key => simp [keyAt, DPK.isMultipath, DPK.hasHardenedStep, DPK.hasWildcard]
  | multi o x paths wc => simp [keyAt, DPK.isMultipath]
  | xpub o x path wc =>
    have hp : ∀ p : List Child, (derivePath ckd x p).isSome = !p.any Child.isHardened :=
      derivePath_isSome_iff ckd x
    cases wc with
    | none => simp [keyAt, DPK.isMultipath, DPK.hasHardenedStep, DPK.hasWildcard, hp]
    | hardened => simp [keyAt, DPK.isMultipath, DPK.hasHardenedStep, DPK.hasWildcard]
    | unhardened =>
      by_cases hi : i < indexLimit
      · simp [keyAt, DPK.isMultipath, DPK.hasHardenedStep, DPK.hasWildcard, hp, hi, Child.isHardened]
      · simp [keyAt, DPK.isMultipath, DPK.hasHardenedStep, DPK.hasWildcard, hi]

/-- a wildcard xpub `[origin]xpub/path/*` (any origin) at index `i`: `CKDpub` folded over the
indices of `path` followed by `i` -/
theorem keyAt_wildcard_xpub (ckd : X → Nat → X) (o : Option Origin) (x : X) (path : List Child)
    (idx : List Nat) (hidx : normalIndices path = some idx) (i : Nat) (hi : i < indexLimit) :
    keyAt ckd (DPK.xpub (P := P) o x path .unhardened) i =
      some (.ofXpub ((idx ++ [i]).foldl ckd x)) := by
  have : normalIndices (path ++ [Child.normal i]) = some (idx ++ [i]) := by
    clear hi
    induction path generalizing idx with
    | nil => simp [normalIndices] at hidx ⊢; exact hidx.symm ▸ rfl
    | cons c cs ih =>
      cases c with
      | hardened j => simp [normalIndices] at hidx
      | normal j =>
        simp only [normalIndices, Option.map_eq_some_iff] at hidx
        obtain ⟨idx', h', rfl⟩ := hidx
        simp [normalIndices, ih idx' h']
  simp [keyAt, hi, derivePath, this]

/-! ### `translate` -/

theorem firstError_none_iff (f : κ → Except ε κ') (l : List κ) :
    firstError f l = none ↔ ∀ k ∈ l, ∃ r, f k = .ok r := by
  induction l with
  | nil => simp [firstError]
  | cons k ks ih =>
    simp only [firstError]
    cases h : f k with
    | error e => simp [h]
    | ok r => simp [h, ih]

theorem firstError_some_iff (f : κ → Except ε κ') (l : List κ) (e : ε) :
    firstError f l = some e ↔
      ∃ pre k post, l = pre ++ k :: post ∧ (∀ k' ∈ pre, ∃ r, f k' = .ok r) ∧ f k = .error e := by
  induction l with
  | nil => simp [firstError]
  | cons k ks ih =>
    simp only [firstError]
    cases h : f k with
    | error e' =>
      constructor
      · intro he
        cases he
        exact ⟨[], k, ks, rfl, by simp, h⟩
      · rintro ⟨pre, k', post, hl, hpre, hk⟩
        cases pre with
        | nil =>
          simp only [List.nil_append, List.cons.injEq] at hl
          obtain ⟨rfl, -⟩ := hl
          rw [h] at hk; cases hk; rfl
        | cons p ps =>
          simp only [List.cons_append, List.cons.injEq] at hl
          obtain ⟨rfl, -⟩ := hl
          obtain ⟨r, hr⟩ := hpre k (by simp)
          rw [h] at hr; cases hr
    | ok r =>
      simp only
      rw [ih]
      constructor
      · rintro ⟨pre, k', post, hl, hpre, hk⟩
        refine ⟨k :: pre, k', post, by simp [hl], ?_, hk⟩
        intro k'' hk''
        rcases List.mem_cons.mp hk'' with rfl | hm
        · exact ⟨r, h⟩
        · exact hpre k'' hm
      · rintro ⟨pre, k', post, hl, hpre, hk⟩
        cases pre with
        | nil =>
          simp only [List.nil_append, List.cons.injEq] at hl
          obtain ⟨rfl, -⟩ := hl
          rw [h] at hk; cases hk
        | cons p ps =>
          simp only [List.cons_append, List.cons.injEq] at hl
          obtain ⟨rfl, rfl⟩ := hl
          exact ⟨ps, k', post, rfl, fun k'' hk'' => hpre k'' (by simp [hk'']), hk⟩

/-- a fallible key map `f` that agrees with a partial function `g` (`f k = ok r → g k = some r`,
`f k = error → g k = none`) translates to the table of `g` -/
theorem translate_eq_of_agree (f : κ → Except ε κ') (g : κ → Option κ')
    (hfg : ∀ k, (f k).toOption = g k) (d : KDesc κ) :
    d.translate f =
      match firstError f d.keysTranslate with
      | some e => .error e
      | none => .ok ⟨d.shape, fun a => (d.key a).bind g⟩ := by
  unfold KDesc.translate
  cases firstError f d.keysTranslate with
  | some e => rfl
  | none =>
    simp only
    congr 2
    funext a
    cases d.key a with
    | none => rfl
    | some k => simp [hfg k]

/-! ### derivation of a whole descriptor -/

theorem atDerivationIndex_toOption (ckd : X → Nat → X) (k : DPK X P) (i : Nat) :
    ((k.atDerivationIndex i).map (derivePublicKey ckd)).toOption = keyAt ckd k i := by
  have h := atDerivationIndex_spec ckd k i
  cases hk : k.atDerivationIndex i with
  | ok k' => simp only [hk] at h; simp [Except.map, Except.toOption, h.2.1]
  | error e => simp only [hk] at h; simp [Except.map, Except.toOption, h.1]

theorem atDerivationIndex_ok_iff (ckd : X → Nat → X) (k : DPK X P) (i : Nat) :
    (∃ r, k.atDerivationIndex i = .ok r) ↔ (keyAt ckd k i).isSome := by
  have h := atDerivationIndex_spec ckd k i
  cases hk : k.atDerivationIndex i with
  | ok k' => simp only [hk] at h; simp [h.2.1]
  | error e => simp only [hk] at h; simp [h.1]

theorem atDerivationIndex_error_iff (ckd : X → Nat → X) (k : DPK X P) (i : Nat) (e : KeyErr) :
    k.atDerivationIndex i = .error e ↔ keyAt ckd k i = none ∧ e = keyErrAt k := by
  have h := atDerivationIndex_spec ckd k i
  cases hk : k.atDerivationIndex i with
  | ok k' => simp only [hk] at h; simp [h.2.1]
  | error e' =>
    simp only [hk] at h
    simp only [Except.error.injEq, h.1, true_and]
    rw [h.2]
    exact eq_comm

/-- `derived_descriptor(index)` = check every key in translate order, then the table of `keyAt` -/
theorem derivedDescriptor_eq (ckd : X → Nat → X) (d : KDesc (DPK X P)) (i : Nat) :
    d.derivedDescriptor ckd i =
      match firstError (fun k => k.atDerivationIndex i) d.keysTranslate with
      | some e => .error e
      | none => .ok ⟨d.shape, fun a => (d.key a).bind (keyAt ckd · i)⟩ := by
  unfold KDesc.derivedDescriptor KDesc.atDerivationIndex KDesc.translate
  cases firstError (fun k => k.atDerivationIndex i) d.keysTranslate with
  | some e => rfl
  | none =>
    simp only [Except.map, KDesc.derivedDefinite, KDesc.mapKeys]
    congr 2
    funext a
    cases d.key a with
    | none => rfl
    | some k =>
      have h := atDerivationIndex_toOption ckd k i
      cases hk : k.atDerivationIndex i with
      | ok k' => simp [hk, Except.map, Except.toOption] at h ⊢; exact h
      | error e => simp [hk, Except.map, Except.toOption] at h ⊢; exact h

/-! ### the range loop -/

theorem findLoop_ok_some {β : Type} (step : Nat → Except KeyErr (Option β)) (r : β) :
    ∀ n lo, findLoop step n lo = .ok (some r) ↔
      ∃ j, j < n ∧ step (lo + j) = .ok (some r) ∧ ∀ j', j' < j → step (lo + j') = .ok none := by
  intro n
  induction n with
  | zero => intro lo; simp [findLoop]
  | succ n ih =>
    intro lo
    simp only [findLoop]
    cases h : step lo with
    | error e =>
      simp only [reduceCtorEq, false_iff]
      rintro ⟨j, _, hj, hall⟩
      cases j with
      | zero => simp [h] at hj
      | succ j => have := hall 0 (by omega); simp [h] at this
    | ok o =>
      cases o with
      | some r' =>
        simp only [Except.ok.injEq, Option.some.injEq]
        constructor
        · rintro rfl; exact ⟨0, by omega, by simpa using h, by intro j' hj'; omega⟩
        · rintro ⟨j, _, hj, hall⟩
          cases j with
          | zero => simp [h] at hj; exact hj
          | succ j => have := hall 0 (by omega); simp [h] at this
      | none =>
        simp only
        rw [ih (lo + 1)]
        constructor
        · rintro ⟨j, hjn, hj, hall⟩
          refine ⟨j + 1, by omega, by rw [← hj]; congr 1; omega, ?_⟩
          intro j' hj'
          cases j' with
          | zero => simpa using h
          | succ j' => rw [← hall j' (by omega)]; congr 1; omega
        · rintro ⟨j, hjn, hj, hall⟩
          cases j with
          | zero => simp [h] at hj
          | succ j =>
            refine ⟨j, by omega, by rw [← hj]; congr 1; omega, ?_⟩
            intro j' hj'
            rw [← hall (j' + 1) (by omega)]; congr 1; omega

theorem findLoop_ok_none {β : Type} (step : Nat → Except KeyErr (Option β)) :
    ∀ n lo, findLoop step n lo = .ok none ↔ ∀ j, j < n → step (lo + j) = .ok none := by
  intro n
  induction n with
  | zero => intro lo; simp [findLoop]
  | succ n ih =>
    intro lo
    simp only [findLoop]
    cases h : step lo with
    | error e =>
      simp only [reduceCtorEq, false_iff]
      intro hall
      have := hall 0 (by omega); simp [h] at this
    | ok o =>
      cases o with
      | some r' =>
        simp only [Except.ok.injEq, reduceCtorEq, false_iff]
        intro hall
        have := hall 0 (by omega); simp [h] at this
      | none =>
        simp only
        rw [ih (lo + 1)]
        constructor
        · intro hall j hj
          cases j with
          | zero => simpa using h
          | succ j => rw [← hall j (by omega)]; congr 1; omega
        · intro hall j hj
          rw [← hall (j + 1) (by omega)]; congr 1; omega

theorem findLoop_error {β : Type} (step : Nat → Except KeyErr (Option β)) (e : KeyErr) :
    ∀ n lo, findLoop step n lo = .error e ↔
      ∃ j, j < n ∧ step (lo + j) = .error e ∧ ∀ j', j' < j → step (lo + j') = .ok none := by
  intro n
  induction n with
  | zero => intro lo; simp [findLoop]
  | succ n ih =>
    intro lo
    simp only [findLoop]
    cases h : step lo with
    | error e' =>
      simp only [Except.error.injEq]
      constructor
      · rintro rfl; exact ⟨0, by omega, by simpa using h, by intro j' hj'; omega⟩
      · rintro ⟨j, _, hj, hall⟩
        cases j with
        | zero => simp [h] at hj; exact hj
        | succ j => have := hall 0 (by omega); simp [h] at this
    | ok o =>
      cases o with
      | some r' =>
        simp only [reduceCtorEq, false_iff]
        rintro ⟨j, _, hj, hall⟩
        cases j with
        | zero => simp [h] at hj
        | succ j => have := hall 0 (by omega); simp [h] at this
      | none =>
        simp only
        rw [ih (lo + 1)]
        constructor
        · rintro ⟨j, hjn, hj, hall⟩
          refine ⟨j + 1, by omega, by rw [← hj]; congr 1; omega, ?_⟩
          intro j' hj'
          cases j' with
          | zero => simpa using h
          | succ j' => rw [← hall j' (by omega)]; congr 1; omega
        · rintro ⟨j, hjn, hj, hall⟩
          cases j with
          | zero => simp [h] at hj
          | succ j =>
            refine ⟨j, by omega, by rw [← hj]; congr 1; omega, ?_⟩
            intro j' hj'
            rw [← hall (j' + 1) (by omega)]; congr 1; omega


/-! ### the two key orders list the same keys -/

mutual
theorem msKeysRtl_perm : ∀ m : Ms, (msKeysRtl m).Perm (msKeysPre m)
  | .tru | .fls | .rawPkH _ | .after _ | .older _ | .hash _ _ => by simp [msKeysRtl, msKeysPre]
  | .pkK _ | .pkH _ => by simp [msKeysRtl, msKeysPre]
  | .multi _ _ | .sortedMulti _ _ | .multiA _ _ | .sortedMultiA _ _ => by simp [msKeysRtl, msKeysPre]
  | .alt x | .swap x | .check x | .dupIf x | .verify x | .nonZero x | .zeroNotEqual x => by
    simpa [msKeysRtl, msKeysPre] using msKeysRtl_perm x
  | .andV l r | .andB l r | .orB l r | .orD l r | .orC l r | .orI l r => by
    simp only [msKeysRtl, msKeysPre]
    exact List.perm_append_comm.trans ((msKeysRtl_perm l).append (msKeysRtl_perm r))
  | .andOr a b c => by
    simp only [msKeysRtl, msKeysPre]
    refine List.perm_append_comm.trans ?_
    rw [List.append_assoc]
    refine (msKeysRtl_perm a).append ?_
    exact List.perm_append_comm.trans ((msKeysRtl_perm b).append (msKeysRtl_perm c))
  | .thresh _ xs => by simpa [msKeysRtl, msKeysPre] using msListKeysRtl_perm xs
theorem msListKeysRtl_perm : ∀ xs : MsList, (msListKeysRtl xs).Perm (msListKeysPre xs)
  | .nil => by simp [msListKeysRtl, msListKeysPre]
  | .cons x xs => by
    simp only [msListKeysRtl, msListKeysPre]
    exact List.perm_append_comm.trans ((msKeysRtl_perm x).append (msListKeysRtl_perm xs))
end

theorem leaves_keys_perm : ∀ leaves : List (Nat × Ms),
    (leaves.flatMap (fun l => msKeysRtl l.2)).Perm (leaves.flatMap (fun l => msKeysPre l.2))
  | [] => by simp
  | l :: ls => by
    simp only [List.flatMap_cons]
    exact (msKeysRtl_perm l.2).append (leaves_keys_perm ls)

theorem Desc.keysTranslate_perm (d : Desc) : d.keysTranslate.Perm d.keysPre := by
  cases d with
  | bare ms => exact msKeysRtl_perm ms
  | pkh pk => exact List.Perm.refl _
  | wpkh pk => exact List.Perm.refl _
  | wsh ms => exact msKeysRtl_perm ms
  | sh inner =>
    cases inner with
    | wsh ms => exact msKeysRtl_perm ms
    | wpkh pk => exact List.Perm.refl _
    | ms ms => exact msKeysRtl_perm ms
  | tr ik leaves => exact (leaves_keys_perm leaves).append (List.Perm.refl _)

theorem KDesc.keysTranslate_perm (d : KDesc κ) : d.keysTranslate.Perm d.keysPre :=
  (Desc.keysTranslate_perm d.shape).filterMap d.key

theorem KDesc.mem_keysTranslate_iff (d : KDesc κ) (k : κ) : k ∈ d.keysTranslate ↔ k ∈ d.keysPre :=
  (KDesc.keysTranslate_perm d).mem_iff

/-! ### multipath split -/

theorem indexChoser_toOption (j : Nat) (k : DPK X P) :
    (indexChoser j k).toOption = selectPath j k := by
  cases k with
  | single o key => simp [indexChoser, selectPath, Except.toOption]
  | xpub o x p wc => simp [indexChoser, selectPath, Except.toOption]
  | multi o x paths wc =>
    simp only [indexChoser, DPK.intoSingleKeys, selectPath, List.getElem?_map]
    cases paths[j]? <;> simp [Except.toOption]

theorem indexChoser_ok_iff (j : Nat) (k : DPK X P) :
    (∃ r, indexChoser j k = .ok r) ↔ ∀ m, arity k = some m → j < m := by
  cases k with
  | single o key => simp [indexChoser, arity]
  | xpub o x p wc => simp [indexChoser, arity]
  | multi o x paths wc =>
    simp only [indexChoser, DPK.intoSingleKeys, List.getElem?_map, arity, Option.some.injEq,
      forall_eq']
    by_cases h : j < paths.length
    · simp [h]
    · simp [h]

theorem indexChoser_error (j : Nat) (k : DPK X P) (e : SplitErr) :
    indexChoser j k = .error e → e = .lenMismatch := by
  cases k with
  | single o key => simp [indexChoser]
  | xpub o x p wc => simp [indexChoser]
  | multi o x paths wc =>
    simp only [indexChoser]
    split <;> simp
    exact fun h => h.symm

theorem arityNe_iff (n : Nat) (k : DPK X P) :
    arityNe n k = true ↔ ∃ m, arity k = some m ∧ m ≠ n := by
  cases k with
  | single o key => simp [arityNe, arity]
  | xpub o x p wc => simp [arityNe, arity]
  | multi o x paths wc => simp [arityNe, arity]

/-- the `j`-th selection of a descriptor -/
def KDesc.select (d : KDesc (DPK X P)) (j : Nat) : KDesc (DPK X P) :=
  ⟨d.shape, fun a => (d.key a).bind (selectPath j)⟩

theorem translate_indexChoser (d : KDesc (DPK X P)) (j : Nat) :
    d.translate (indexChoser j) =
      match firstError (indexChoser j) d.keysTranslate with
      | some e => .error e
      | none => .ok (d.select j) := by
  rw [translate_eq_of_agree (indexChoser j) (selectPath j) (indexChoser_toOption j) d]
  cases firstError (indexChoser j) d.keysTranslate <;> rfl

theorem splitLoop_ok (d : KDesc (DPK X P)) : ∀ js : List Nat,
    (∀ j ∈ js, ∀ k ∈ d.keysPre, ∀ m, arity k = some m → j < m) →
    splitLoop d js = .ok (js.map d.select)
  | [], _ => rfl
  | j :: js, h => by
    have hj : firstError (indexChoser j) d.keysTranslate = none := by
      rw [firstError_none_iff]
      intro k hk
      exact (indexChoser_ok_iff j k).mpr (h j (by simp) k ((d.mem_keysTranslate_iff k).mp hk))
    simp only [splitLoop, translate_indexChoser, hj,
      splitLoop_ok d js (fun j' hj' => h j' (by simp [hj'])), List.map_cons]

theorem splitLoop_error (d : KDesc (DPK X P)) : ∀ js : List Nat,
    (∃ j ∈ js, ∃ k ∈ d.keysPre, ∃ m, arity k = some m ∧ ¬ j < m) →
    splitLoop d js = .error .lenMismatch
  | [], h => by simp at h
  | j :: js, h => by
    simp only [splitLoop, translate_indexChoser]
    cases hf : firstError (indexChoser j) d.keysTranslate with
    | some e =>
      obtain ⟨pre, k, post, _, _, hk⟩ := (firstError_some_iff _ _ _).mp hf
      simp [indexChoser_error j k e hk]
    | none =>
      simp only
      have hrest : ∃ j' ∈ js, ∃ k ∈ d.keysPre, ∃ m, arity k = some m ∧ ¬ j' < m := by
        obtain ⟨j', hj', k, hk, m, hm, hlt⟩ := h
        rcases List.mem_cons.mp hj' with rfl | hj'
        · exfalso
          obtain ⟨r, hr⟩ := (firstError_none_iff _ _).mp hf k ((d.mem_keysTranslate_iff k).mpr hk)
          exact hlt ((indexChoser_ok_iff j' k).mp ⟨r, hr⟩ m hm)
        · exact ⟨j', hj', k, hk, m, hm, hlt⟩
      simp [splitLoop_error d js hrest]


/-! ### `find_derivation_index_for_spk` -/

/-- one iteration of the loop, as a function of `derived_descriptor(i)` -/
def findStep (ckd : X → Nat → X) (spk : KDesc (Derived X P) → Bytes) (d : KDesc (DPK X P))
    (target : Bytes) (i : Nat) : Except KeyErr (Option (Nat × KDesc (Derived X P))) :=
  match d.derivedDescriptor ckd i with
  | .error e => .error e
  | .ok c => if spk c = target then .ok (some (i, c)) else .ok none

theorem find_wildcard_eq (ckd : X → Nat → X) (spk : KDesc (Derived X P) → Bytes)
    (d : KDesc (DPK X P)) (hw : d.hasWildcard = true) (target : Bytes) (lo hi : Nat) :
    d.findDerivationIndexForSpk ckd spk target lo hi =
      findLoop (findStep ckd spk d target) (hi - lo) lo := by
  unfold KDesc.findDerivationIndexForSpk
  simp only [hw, Bool.not_true, Bool.false_eq_true, if_false]
  congr 1
  funext i
  simp only [findStep, KDesc.derivedDescriptor, KDesc.deriveAtIndex, hw, Bool.not_true,
    Bool.false_eq_true, if_false]
  cases d.atDerivationIndex i <;> simp [DerivationResult.intoResult, Except.map]

theorem findStep_some_iff (ckd : X → Nat → X) (spk : KDesc (Derived X P) → Bytes)
    (d : KDesc (DPK X P)) (target : Bytes) (j i : Nat) (c : KDesc (Derived X P)) :
    findStep ckd spk d target j = .ok (some (i, c)) ↔
      j = i ∧ d.derivedDescriptor ckd i = .ok c ∧ spk c = target := by
  unfold findStep
  cases h : d.derivedDescriptor ckd j with
  | error e =>
    simp only [reduceCtorEq, false_iff]
    rintro ⟨rfl, h', _⟩
    rw [h] at h'; cases h'
  | ok c' =>
    by_cases hs : spk c' = target
    · simp only [hs, if_true, Except.ok.injEq, Option.some.injEq, Prod.mk.injEq]
      constructor
      · rintro ⟨rfl, rfl⟩; exact ⟨rfl, h, hs⟩
      · rintro ⟨rfl, h', _⟩; rw [h] at h'; cases h'; exact ⟨rfl, rfl⟩
    · simp only [hs, if_false, Except.ok.injEq, reduceCtorEq, false_iff]
      rintro ⟨rfl, h', hs'⟩
      rw [h] at h'; cases h'
      exact hs hs'

theorem findStep_none_iff (ckd : X → Nat → X) (spk : KDesc (Derived X P) → Bytes)
    (d : KDesc (DPK X P)) (target : Bytes) (j : Nat) :
    findStep ckd spk d target j = .ok none ↔
      ∃ cj, d.derivedDescriptor ckd j = .ok cj ∧ spk cj ≠ target := by
  unfold findStep
  cases h : d.derivedDescriptor ckd j with
  | error e => simp
  | ok c' =>
    by_cases hs : spk c' = target
    · simp [hs]
    · simp [hs]

theorem findStep_error_iff (ckd : X → Nat → X) (spk : KDesc (Derived X P) → Bytes)
    (d : KDesc (DPK X P)) (target : Bytes) (j : Nat) (e : KeyErr) :
    findStep ckd spk d target j = .error e ↔ d.derivedDescriptor ckd j = .error e := by
  unfold findStep
  cases h : d.derivedDescriptor ckd j with
  | error e' => simp
  | ok c' => by_cases hs : spk c' = target <;> simp [hs]

end MsVerif.Desc

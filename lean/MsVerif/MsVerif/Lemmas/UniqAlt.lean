/-
C03 (uniqueness), part 2: the invariant `AltInv` that ties ONE alternative of the satisfier
(a `Sat`) to the list `A` of table (dis)satisfactions it stands for, relative to an adversary
`adv` and the keys `K` the alternative may use — and its preservation by `concatenate_rev`,
`minimum`, pushes and folds.

  i1  the model says IMPOSSIBLE                        ⇒ the adversary's table list is empty
  i2  the model flags `has_sig`, adversary has no
      signature for any key of `K`                     ⇒ empty
  i3  the model returns the stack `w`, every adversary
      signature for a key of `K` is visible in `w`     ⇒ every table entry equals `w`
  kin every signature item of `w` names a key of `K`
  nos an unflagged stack contains no signature item
-/
import MsVerif.Lemmas.UniqKeys

set_option linter.unusedSimpArgs false
set_option linter.unusedVariables false

namespace MsVerif.Uniq
open MsVerif Sat SatTable SatAll MalleLattice Complete

structure AltInv (adv : Avail) (K : List Key) (A : List (List Item)) (s : Sat) : Prop where
  i1 : s.stack = .impossible → A = []
  i2 : s.hasSig = true → (∀ k ∈ K, adv.sig k = false) → A = []
  i3 : ∀ w, s.stack = .stack w → (∀ k ∈ K, adv.sig k = true → Item.sig k ∈ items w) →
         ∀ t ∈ A, t = items w
  kin : ∀ w, s.stack = .stack w → ∀ k, Item.sig k ∈ items w → k ∈ K
  nos : s.hasSig = false → ∀ w, s.stack = .stack w → ∀ k, Item.sig k ∉ items w

variable {adv : Avail}

theorem AltInv.congr {K K' : List Key} {A A' : List (List Item)} {s : Sat} (h : AltInv adv K A s)
    (hK : ∀ k, k ∈ K ↔ k ∈ K') (hA : ∀ t, t ∈ A' → t ∈ A) (hA0 : A = [] → A' = []) :
    AltInv adv K' A' s :=
  ⟨fun hi => hA0 (h.i1 hi),
   fun hs hn => hA0 (h.i2 hs (fun k hk => hn k ((hK k).mp hk))),
   fun w hw hv t ht => h.i3 w hw (fun k hk => hv k ((hK k).mp hk)) t (hA t ht),
   fun w hw k hk => (hK k).mp (h.kin w hw k hk),
   h.nos⟩

theorem eq_nil_of_forall_not_mem {α : Type} {l : List α} (h : ∀ x, x ∉ l) : l = [] := by
  cases l with
  | nil => rfl
  | cons a t => exact absurd (List.mem_cons_self) (h a)

/-- same membership ⇒ same invariant -/
theorem AltInv.congrA {K : List Key} {A A' : List (List Item)} {s : Sat} (h : AltInv adv K A s)
    (hA : ∀ t, t ∈ A' ↔ t ∈ A) : AltInv adv K A' s :=
  h.congr (fun _ => Iff.rfl) (fun t ht => (hA t).mp ht)
    (fun h0 => eq_nil_of_forall_not_mem (fun x hx => by have := (hA x).mp hx; rw [h0] at this; cases this))

/-- the impossible alternative -/
theorem altInv_imp (K : List Key) {s : Sat} (hs : s.stack = .impossible) (hf : s.hasSig = false) :
    AltInv adv K [] s := by
  refine ⟨fun _ => rfl, fun _ _ => rfl, ?_, ?_, ?_⟩
  · intro _ _ _ t ht; cases ht
  · intro w hw; rw [hs] at hw; cases hw
  · intro _ w hw; rw [hs] at hw; cases hw

/-- a literal signature-free stack with its single table row -/
theorem altInv_lit (K : List Key) (w : List Ph) (hw : ∀ k, Item.sig k ∉ items w) (a r : Option Nat) :
    AltInv adv K [items w] ⟨.stack w, false, a, r⟩ := by
  refine ⟨?_, ?_, ?_, ?_, ?_⟩
  · intro h; cases h
  · intro h; cases h
  · intro w' hw' _ t ht; cases hw'; simpa using ht
  · intro w' hw' k hk; cases hw'; exact absurd hk (hw k)
  · intro _ w' hw' k; cases hw'; exact hw k

/-- a literal stack that the table does not offer to this adversary -/
theorem altInv_lit_nil (K : List Key) (w : List Ph) (hw : ∀ k, Item.sig k ∉ items w) (a r : Option Nat) :
    AltInv adv K [] ⟨.stack w, false, a, r⟩ := by
  refine ⟨?_, ?_, ?_, ?_, ?_⟩
  · intro h; cases h
  · intro h; cases h
  · intro _ _ _ t ht; cases ht
  · intro w' hw' k hk; cases hw'; exact absurd hk (hw k)
  · intro _ w' hw' k; cases hw'; exact hw k

def Disj (K1 K2 : List Key) : Prop := ∀ k, k ∈ K1 → k ∈ K2 → False

theorem disj_of_nodup {K1 K2 : List Key} (h : (K1 ++ K2).Nodup) : Disj K1 K2 :=
  fun k h1 h2 => (List.nodup_append.mp h).2.2 k h1 k h2 rfl

theorem disj_nil_left (K : List Key) : Disj [] K := fun _ h _ => by cases h
theorem disj_nil_right (K : List Key) : Disj K [] := fun _ _ h => by cases h

/-! ### `concatenate_rev` -/

theorem altInv_concat {ua ur : Bool} {K1 K2 : List Key} {A1 A2 : List (List Item)} {s1 s2 : Sat}
    (h1 : AltInv adv K1 A1 s1) (h2 : AltInv adv K2 A2 s2)
    (l1 : LockOK ua ur s1) (l2 : LockOK ua ur s2) (hd : Disj K1 K2) :
    AltInv adv (K1 ++ K2) (cat A2 A1) (s1.concatenateRev s2) := by
  have hst := concat_stack l1 l2
  have himp : (s1.concatenateRev s2).stack = .impossible → cat A2 A1 = [] := by
    intro hi
    rw [hst] at hi
    by_cases e1 : s1.stack = .impossible
    · rw [h1.i1 e1]; exact cat_nil_right _
    · by_cases e2 : s2.stack = .impossible
      · rw [h2.i1 e2]; rfl
      · cases hs1 : s1.stack <;> cases hs2 : s2.stack <;> simp_all [Wit.combine]
  refine ⟨himp, ?_, ?_, ?_, ?_⟩
  · intro hsig hno
    by_cases hi : (s1.concatenateRev s2).stack = .impossible
    · exact himp hi
    · rw [concat_hasSig l1 l2 hi] at hsig
      rcases (Bool.or_eq_true _ _).mp hsig with h | h
      · rw [h1.i2 h (fun k hk => hno k (by simp [hk]))]; exact cat_nil_right _
      · rw [h2.i2 h (fun k hk => hno k (by simp [hk]))]; rfl
  · intro w hw hv t ht
    rw [hst] at hw
    obtain ⟨w2, w1, e2, e1, rfl⟩ := combine_stack hw
    obtain ⟨t2, ht2, t1, ht1, rfl⟩ := mem_cat.mp ht
    have hv1 : ∀ k ∈ K1, adv.sig k = true → Item.sig k ∈ items w1 := by
      intro k hk hs
      have := hv k (by simp [hk]) hs
      rw [items_append, List.mem_append] at this
      rcases this with h | h
      · exact absurd (h2.kin w2 e2 k h) (fun hk2 => hd k hk hk2)
      · exact h
    have hv2 : ∀ k ∈ K2, adv.sig k = true → Item.sig k ∈ items w2 := by
      intro k hk hs
      have := hv k (by simp [hk]) hs
      rw [items_append, List.mem_append] at this
      rcases this with h | h
      · exact h
      · exact absurd (h1.kin w1 e1 k h) (fun hk1 => hd k hk1 hk)
    rw [h1.i3 w1 e1 hv1 t1 ht1, h2.i3 w2 e2 hv2 t2 ht2, items_append]
  · intro w hw k hk
    rw [hst] at hw
    obtain ⟨w2, w1, e2, e1, rfl⟩ := combine_stack hw
    rw [items_append, List.mem_append] at hk
    rcases hk with h | h
    · simp [h2.kin w2 e2 k h]
    · simp [h1.kin w1 e1 k h]
  · intro hf w hw k hk
    have hi : (s1.concatenateRev s2).stack ≠ .impossible := by rw [hw]; simp
    rw [concat_hasSig l1 l2 hi, Bool.or_eq_false_iff] at hf
    rw [hst] at hw
    obtain ⟨w2, w1, e2, e1, rfl⟩ := combine_stack hw
    rw [items_append, List.mem_append] at hk
    rcases hk with h | h
    · exact h2.nos hf.2 w2 e2 k h
    · exact h1.nos hf.1 w1 e1 k h

/-! ### `minimum` -/

theorem altInv_min {K1 K2 : List Key} {A1 A2 : List (List Item)} {s1 s2 : Sat}
    (h1 : AltInv adv K1 A1 s1) (h2 : AltInv adv K2 A2 s2) (hd : Disj K1 K2) :
    AltInv adv (K1 ++ K2) (A1 ++ A2) (minimum s1 s2) := by
  have inj1 : ∀ k ∈ K1, k ∈ K1 ++ K2 := fun k hk => by simp [hk]
  have inj2 : ∀ k ∈ K2, k ∈ K1 ++ K2 := fun k hk => by simp [hk]
  rcases min_cases s1 s2 with ⟨e1, em⟩ | ⟨n1, e2, em⟩ | ⟨n1, n2, h⟩
  · rw [em, h1.i1 e1, List.nil_append]
    exact ⟨h2.i1, fun hs hn => h2.i2 hs (fun k hk => hn k (inj2 k hk)),
      fun w hw hv => h2.i3 w hw (fun k hk => hv k (inj2 k hk)),
      fun w hw k hk => inj2 k (h2.kin w hw k hk), h2.nos⟩
  · rw [em, h2.i1 e2, List.append_nil]
    exact ⟨h1.i1, fun hs hn => h1.i2 hs (fun k hk => hn k (inj1 k hk)),
      fun w hw hv => h1.i3 w hw (fun k hk => hv k (inj1 k hk)),
      fun w hw k hk => inj1 k (h1.kin w hw k hk), h1.nos⟩
  · rcases h with ⟨f1, f2, em⟩ | ⟨f1, f2, em⟩ | ⟨f1, f2, em⟩ | ⟨f1, f2, em | em⟩ <;> rw [em]
    · refine ⟨?_, ?_, ?_, ?_, ?_⟩
      · intro h; cases h
      · intro h; cases h
      · intro w hw; cases hw
      · intro w hw; cases hw
      · intro _ w hw; cases hw
    · -- the unflagged first alternative is kept
      refine ⟨fun h => absurd h n1, (fun h => by cases h), ?_, ?_, ?_⟩
      · intro w hw hv t ht
        simp only at hw
        have hno : ∀ k ∈ K1 ++ K2, adv.sig k = false := by
          intro k hk
          cases hs : adv.sig k with
          | false => rfl
          | true => exact absurd (hv k hk hs) (h1.nos f1 w hw k)
        rw [h2.i2 f2 (fun k hk => hno k (inj2 k hk)), List.append_nil] at ht
        exact h1.i3 w hw (fun k hk hs => by rw [hno k (inj1 k hk)] at hs; cases hs) t ht
      · intro w hw k hk; exact inj1 k (h1.kin w hw k hk)
      · intro _ w hw; exact h1.nos f1 w hw
    · refine ⟨fun h => absurd h n2, (fun h => by cases h), ?_, ?_, ?_⟩
      · intro w hw hv t ht
        simp only at hw
        have hno : ∀ k ∈ K1 ++ K2, adv.sig k = false := by
          intro k hk
          cases hs : adv.sig k with
          | false => rfl
          | true => exact absurd (hv k hk hs) (h2.nos f2 w hw k)
        rw [h1.i2 f1 (fun k hk => hno k (inj1 k hk)), List.nil_append] at ht
        exact h2.i3 w hw (fun k hk hs => by rw [hno k (inj2 k hk)] at hs; cases hs) t ht
      · intro w hw k hk; exact inj2 k (h2.kin w hw k hk)
      · intro _ w hw; exact h2.nos f2 w hw
    · refine ⟨fun h => absurd h n1, ?_, ?_, ?_, (fun h => by cases h)⟩
      · intro _ hn
        rw [h1.i2 f1 (fun k hk => hn k (inj1 k hk)), h2.i2 f2 (fun k hk => hn k (inj2 k hk))]; rfl
      · intro w hw hv t ht
        simp only at hw
        have hno2 : ∀ k ∈ K2, adv.sig k = false := by
          intro k hk
          cases hs : adv.sig k with
          | false => rfl
          | true => exact absurd (h1.kin w hw k (hv k (inj2 k hk) hs)) (fun hk1 => hd k hk1 hk)
        rw [h2.i2 f2 hno2, List.append_nil] at ht
        exact h1.i3 w hw (fun k hk => hv k (inj1 k hk)) t ht
      · intro w hw k hk; exact inj1 k (h1.kin w hw k hk)
    · refine ⟨fun h => absurd h n2, ?_, ?_, ?_, (fun h => by cases h)⟩
      · intro _ hn
        rw [h1.i2 f1 (fun k hk => hn k (inj1 k hk)), h2.i2 f2 (fun k hk => hn k (inj2 k hk))]; rfl
      · intro w hw hv t ht
        simp only at hw
        have hno1 : ∀ k ∈ K1, adv.sig k = false := by
          intro k hk
          cases hs : adv.sig k with
          | false => rfl
          | true => exact absurd (h2.kin w hw k (hv k (inj1 k hk) hs)) (fun hk2 => hd k hk hk2)
        rw [h1.i2 f1 hno1, List.nil_append] at ht
        exact h2.i3 w hw (fun k hk => hv k (inj2 k hk)) t ht
      · intro w hw k hk; exact inj2 k (h2.kin w hw k hk)

/-! ### pushing a constant on top -/

theorem altInv_push {K : List Key} {A : List (List Item)} {s : Sat} (h : AltInv adv K A s)
    (p : Ph) (hp : ∀ k, phItem p ≠ .sig k) :
    AltInv adv K (cat A [[phItem p]]) { s with stack := Wit.combine s.stack (.stack [p]) } := by
  have hcat0 : A = [] → cat A [[phItem p]] = [] := fun h0 => by rw [h0]; rfl
  refine ⟨?_, fun hs hn => hcat0 (h.i2 hs hn), ?_, ?_, ?_⟩
  · intro hi
    simp only at hi
    apply hcat0; apply h.i1
    cases hs : s.stack <;> simp_all [Wit.combine]
  · intro w hw hv t ht
    simp only at hw
    obtain ⟨w1, w2, e1, e2, rfl⟩ := combine_stack hw
    cases e2
    obtain ⟨t1, ht1, t2, ht2, rfl⟩ := mem_cat.mp ht
    simp only [List.mem_singleton] at ht2
    subst ht2
    have hv1 : ∀ k ∈ K, adv.sig k = true → Item.sig k ∈ items w1 := by
      intro k hk hs
      have := hv k hk hs
      simp only [items_append, items_cons, items_nil, List.mem_append, List.mem_singleton] at this
      rcases this with h' | h'
      · exact h'
      · exact absurd h'.symm (hp k)
    rw [h.i3 w1 e1 hv1 t1 ht1]; simp
  · intro w hw k hk
    simp only at hw
    obtain ⟨w1, w2, e1, e2, rfl⟩ := combine_stack hw
    cases e2
    simp only [items_append, items_cons, items_nil, List.mem_append, List.mem_singleton] at hk
    rcases hk with h' | h'
    · exact h.kin w1 e1 k h'
    · exact absurd h'.symm (hp k)
  · intro hf w hw k hk
    simp only at hf hw
    obtain ⟨w1, w2, e1, e2, rfl⟩ := combine_stack hw
    cases e2
    simp only [items_append, items_cons, items_nil, List.mem_append, List.mem_singleton] at hk
    rcases hk with h' | h'
    · exact h.nos hf w1 e1 k h'
    · exact absurd h'.symm (hp k)

end MsVerif.Uniq

/-
C09 helper lemmas, part 3: the satisfier's side of `thresh` (which children are satisfied), the
leaves `multi` / `multi_a`, and the assembly of the threshold bound.
-/
import MsVerif.Lemmas.BoundsThresh

namespace MsVerif.C09
open MsVerif ExtData

/-! ### stacks of a list of satisfactions -/

def StacksOf : List Sat → List (List Ph) → Prop
  | [], [] => True
  | s :: l, w :: ws => s.stack = .stack w ∧ StacksOf l ws
  | _, _ => False

theorem foldl_concat_stacks (l : List Sat) : ∀ (acc : Sat) (w : List Ph),
    (l.foldl Sat.concatenateRev acc).stack = .stack w →
    ∃ wacc, acc.stack = .stack wacc ∧ ∃ ws : List (List Ph), StacksOf l ws
      ∧ w.length = wacc.length + (ws.map List.length).sum
      ∧ wsz w = wsz wacc + (ws.map wsz).sum ∧ wss w = wss wacc + (ws.map wss).sum := by
  induction l with
  | nil => intro acc w h; exact ⟨w, h, [], trivial, by simp, by simp, by simp⟩
  | cons x xs ih =>
    intro acc w h
    simp only [List.foldl_cons] at h
    obtain ⟨w1, h1, ws, hall, e1, e2, e3⟩ := ih _ _ h
    obtain ⟨wa, wx, hacc, hx, rfl⟩ := concatenateRev_stack h1
    refine ⟨wa, hacc, wx :: ws, ⟨hx, hall⟩, ?_, ?_, ?_⟩
    · simp only [List.length_append] at e1; simp only [List.map_cons, List.sum_cons]; omega
    · simp only [wsz_append] at e2; simp only [List.map_cons, List.sum_cons]; omega
    · simp only [wss_append] at e3; simp only [List.map_cons, List.sum_cons]; omega

theorem foldConcat_stacks {l : List Sat} {w : List Ph} (h : (foldConcat l).stack = .stack w) :
    ∃ ws : List (List Ph), StacksOf l ws ∧ w.length = (ws.map List.length).sum
      ∧ wsz w = (ws.map wsz).sum ∧ wss w = (ws.map wss).sum := by
  obtain ⟨wacc, hacc, ws, hs, e1, e2, e3⟩ := foldl_concat_stacks l Sat.empty w h
  simp only [Sat.empty] at hacc
  cases hacc
  exact ⟨ws, hs, by simpa using e1, by simpa using e2, by simpa using e3⟩

/-! ### children: satisfier results versus figures -/

def AllSB (e : Bool) : List SatDissat → List ExtData → Prop
  | [], [] => True
  | sd :: sds, x :: xs => (SB e sd.sat x.satData ∧ SB e sd.dissat x.dissatData) ∧ AllSB e sds xs
  | _, _ => False

def choose (b : Bool) (sd : SatDissat) : Sat := if b then sd.sat else sd.dissat

def tv0 (exts : List ExtData) : List SD := exts.map (fun s => (s.satData, s.dissatData))
def tv1 (exts : List ExtData) : List SD := sortSD (·.wCount) (tv0 exts)
def tv2 (exts : List ExtData) : List SD := sortSD (·.wSize) (tv1 exts)
def tv3 (exts : List ExtData) : List SD := sortSD (·.ssSize) (tv2 exts)

theorem chosen_bound (e : Bool) : ∀ (sds : List SatDissat) (exts : List ExtData) (ch : List Bool)
    (ws : List (List Ph)), AllSB e sds exts → ch.length = sds.length →
    StacksOf (List.zipWith choose ch sds) ws →
    (List.zip (tv0 exts) ch).map Prod.fst = tv0 exts
    ∧ (List.zip (tv0 exts) ch).countP (fun x => x.2) = ch.countP id
    ∧ (∀ x ∈ List.zip (tv0 exts) ch, Valid x)
    ∧ (ws.map List.length).sum ≤ ((List.zip (tv0 exts) ch).map (val (·.wCount))).sum
    ∧ (ws.map wsz).sum ≤ ((List.zip (tv0 exts) ch).map (val (·.wSize))).sum
    ∧ (e = true → (ws.map wss).sum ≤ ((List.zip (tv0 exts) ch).map (val (·.ssSize))).sum) := by
  intro sds
  induction sds with
  | nil =>
    intro exts ch ws hall hlen hst
    cases exts with
    | nil =>
      cases ch with
      | nil => cases ws with
        | nil => simp [tv0]
        | cons _ _ => simp [StacksOf] at hst
      | cons _ _ => simp at hlen
    | cons _ _ => simp [AllSB] at hall
  | cons sd sds ih =>
    intro exts ch ws hall hlen hst
    cases exts with
    | nil => simp [AllSB] at hall
    | cons x xs =>
      cases ch with
      | nil => simp at hlen
      | cons b bs =>
        cases ws with
        | nil => simp [StacksOf] at hst
        | cons w ws =>
          simp only [AllSB] at hall
          simp only [List.zipWith_cons_cons, StacksOf] at hst
          obtain ⟨⟨hsat, hdis⟩, hrest⟩ := hall
          obtain ⟨i1, i2, i3, i4, i5, i6⟩ := ih xs bs ws hrest (by simpa using hlen) hst.2
          simp only [tv0, List.map_cons, List.zip_cons_cons, List.countP_cons, List.sum_cons,
            List.mem_cons] at i1 i2 i3 i4 i5 i6 ⊢
          cases b with
          | true =>
            obtain ⟨d, hd, c1, c2, c3⟩ := hsat w (by simpa [choose] using hst.1)
            refine ⟨by rw [i1], by simp [i2], ?_, ?_, ?_, ?_⟩
            · rintro y (rfl | hy)
              · simp [Valid, hd]
              · exact i3 y hy
            · simp only [val, satV, hd, Option.getD_some, if_true]; omega
            · simp only [val, satV, hd, Option.getD_some, if_true]; omega
            · intro he; have := c3 he; have := i6 he
              simp only [val, satV, hd, Option.getD_some, if_true]; omega
          | false =>
            obtain ⟨d, hd, c1, c2, c3⟩ := hdis w (by simpa [choose] using hst.1)
            refine ⟨by rw [i1], by simp [i2], ?_, ?_, ?_, ?_⟩
            · rintro y (rfl | hy)
              · simp [Valid, hd]
              · exact i3 y hy
            · simp only [val, disV, hd, Option.getD_some, Bool.false_eq_true, if_false]; omega
            · simp only [val, disV, hd, Option.getD_some, Bool.false_eq_true, if_false]; omega
            · intro he; have := c3 he; have := i6 he
              simp only [val, disV, hd, Option.getD_some, Bool.false_eq_true, if_false]; omega

/-! ### the library's threshold figure -/

/-- none of the first `k+1` differences (children having both figures) is negative -/
def cutOk (k : Nat) (proj : SatData → Nat) (v : List SD) : Prop :=
  ∀ x ∈ v.reverse.take (k + 1), x.1.isSome = true → x.2.isSome = true → disV proj x ≤ satV proj x

def cutOkB (k : Nat) (proj : SatData → Nat) (v : List SD) : Bool :=
  (v.reverse.take (k + 1)).all fun x => !(x.1.isSome && x.2.isSome) || decide (disV proj x ≤ satV proj x)

theorem cutOk_of_B {k : Nat} {proj : SatData → Nat} {v : List SD} (h : cutOkB k proj v = true) :
    cutOk k proj v := by
  intro x hx h1 h2
  have := List.all_eq_true.1 h x hx
  simpa [h1, h2] using this

def CutOk (k : Nat) (exts : List ExtData) : Prop :=
  cutOk k (·.wCount) (tv1 exts) ∧ cutOk k (·.wSize) (tv2 exts) ∧ cutOk k (·.ssSize) (tv3 exts)

theorem threshold_satData {k : Nat} {exts : List ExtData} {d : SatData}
    (h : (threshold k exts).satData = some d) :
    threshFold k (·.wCount) (fun a b => a + b) 0 0 (tv1 exts).reverse = some d.wCount
    ∧ threshFold k (·.wSize) (fun a b => a + b) 0 0 (tv2 exts).reverse = some d.wSize
    ∧ threshFold k (·.ssSize) (fun a b => a + b) 0 0 (tv3 exts).reverse = some d.ssSize := by
  simp only [threshold] at h
  split at h
  · rename_i c s ss st o h1 h2 h3 _ _
    cases h
    exact ⟨h1, h2, h3⟩
  · cases h

/-- the satisfier chose at most `k` children: the produced stack fits the library's figure -/
theorem threshold_sat_bound (k : Nat) (exts : List ExtData) (z0 : List ZE)
    (hz : z0.map Prod.fst = tv0 exts) (hvalid : ∀ x ∈ z0, Valid x)
    (hcount : z0.countP (fun x => x.2) ≤ k) (d : SatData)
    (hd : (threshold k exts).satData = some d) (hcut : CutOk k exts) :
    (z0.map (val (·.wCount))).sum ≤ d.wCount ∧ (z0.map (val (·.wSize))).sum ≤ d.wSize
    ∧ (z0.map (val (·.ssSize))).sum ≤ d.ssSize := by
  obtain ⟨f1, f2, f3⟩ := threshold_satData hd
  obtain ⟨c1, c2, c3⟩ := hcut
  -- the vector is re-sorted in place: carry the choices along
  let z1 := sortZ (·.wCount) z0
  let z2 := sortZ (·.wSize) z1
  have p1 : z1.Perm z0 := sortZ_perm _ z0
  have p2 : z2.Perm z0 := (sortZ_perm _ z1).trans p1
  have m1 : z1.map Prod.fst = tv1 exts := by simp only [z1, sortZ_map_fst, hz, tv1]
  have m2 : z2.map Prod.fst = tv2 exts := by simp only [z2, sortZ_map_fst, m1, tv2]
  refine ⟨?_, ?_, ?_⟩
  · apply thresh_field_bound (·.wCount) k z0 _ _ hvalid hcount
    · rw [hz]; exact c1
    · rw [hz]; exact f1
  · rw [← (p1.map (val (·.wSize))).sum_nat]
    apply thresh_field_bound (·.wSize) k z1 _ _ (fun x hx => hvalid x (p1.mem_iff.1 hx))
      (by rw [p1.countP_eq]; exact hcount)
    · rw [m1]; exact c2
    · rw [m1]; exact f2
  · rw [← (p2.map (val (·.ssSize))).sum_nat]
    apply thresh_field_bound (·.ssSize) k z2 _ _ (fun x hx => hvalid x (p2.mem_iff.1 hx))
      (by rw [p2.countP_eq]; exact hcount)
    · rw [m2]; exact c3
    · rw [m2]; exact f3

/-! ### which children the satisfier satisfies -/

theorem countP_or_le {α : Type} (p q : α → Bool) (l : List α) :
    l.countP (fun x => p x || q x) ≤ l.countP p + l.countP q := by
  induction l with
  | nil => simp
  | cons a as ih =>
    simp only [List.countP_cons]
    cases p a <;> cases q a <;> simp <;> omega

theorem countP_eq_le_one : ∀ (l : List Nat), l.Nodup → ∀ a : Nat,
    l.countP (fun i => decide (i = a)) ≤ 1 := by
  intro l
  induction l with
  | nil => intro _ _; simp
  | cons x xs ih =>
    intro hl a
    obtain ⟨hx, hxs⟩ := List.nodup_cons.1 hl
    simp only [List.countP_cons]
    by_cases h : x = a
    · subst h
      have : xs.countP (fun i => decide (i = x)) = 0 := by
        apply List.countP_eq_zero.2
        intro y hy; simp; rintro rfl; exact hx hy
      simp [this]
    · have := ih hxs a
      simp [h]; exact this

theorem ite_ite_stack {c1 c2 : Prop} [Decidable c1] [Decidable c2] {x : Sat} {w : List Ph}
    (h : (if c1 then Sat.IMPOSSIBLE else if c2 then Sat.UNAVAILABLE else x).stack = .stack w) :
    x.stack = .stack w := by
  by_cases h1 : c1 <;> by_cases h2 : c2 <;> simp_all [Sat.IMPOSSIBLE, Sat.UNAVAILABLE]

theorem countP_contains_le (l : List Nat) (hl : l.Nodup) : ∀ m : List Nat,
    l.countP (fun i => m.contains i) ≤ m.length := by
  intro m
  induction m with
  | nil => simp
  | cons a as ih =>
    have h1 := countP_or_le (fun i => decide (i = a)) (fun i => as.contains i) l
    have h2 : l.countP (fun i => decide (i = a)) ≤ 1 := countP_eq_le_one l hl a
    have e : (fun i => (a :: as).contains i) = (fun i => decide (i = a) || as.contains i) := by
      funext i; simp
    rw [e]; simp only [List.length_cons]; omega

theorem ret_eq_zipWith (chosen : List Nat) (sds : List SatDissat) :
    (List.range (sds.map (·.dissat)).length).map
        (fun i => if chosen.contains i then (sds.map (·.sat))[i]! else (sds.map (·.dissat))[i]!)
      = List.zipWith choose ((List.range sds.length).map (fun i => chosen.contains i)) sds := by
  apply List.ext_getElem
  · simp
  · intro i h1 h2
    have hi : i < sds.length := by simpa using h1
    simp only [List.getElem_map, List.getElem_range, List.getElem_zipWith, choose, List.length_map]
    simp [hi]

/-- whenever `thresh`'s satisfaction is a stack, it is the concatenation of one alternative per
child, with at most `k` children satisfied -/
theorem thresh_sat_choice (c : SatCfg) (k : Nat) (sds : List SatDissat) (w : List Ph)
    (h : (if k = sds.length then foldConcat (sds.map (·.sat))
          else if c.mall then threshMall k (sds.map (·.dissat)) (sds.map (·.sat))
          else threshNonMall k (sds.map (·.dissat)) (sds.map (·.sat))).stack = .stack w) :
    ∃ ch : List Bool, ch.length = sds.length ∧ ch.countP id ≤ k
      ∧ (foldConcat (List.zipWith choose ch sds)).stack = .stack w := by
  have hchosen : ∀ idx : List Nat,
      ((List.range sds.length).map (fun i => (idx.take k).contains i)).countP id ≤ k := by
    intro idx
    rw [List.countP_map]
    have := countP_contains_le (List.range sds.length) List.nodup_range (idx.take k)
    have h2 : (idx.take k).length ≤ k := by simp [List.length_take]; omega
    exact Nat.le_trans this h2
  split at h
  · rename_i hk
    refine ⟨List.replicate sds.length true, by simp, ?_, ?_⟩
    · simp [List.countP_replicate, hk]
    · have : List.zipWith choose (List.replicate sds.length true) sds = sds.map (·.sat) := by
        apply List.ext_getElem
        · simp
        · intro i h1 h2; simp [choose]
      rw [this]; exact h
  · split at h
    · simp only [threshMall, swapped] at h
      rw [ret_eq_zipWith] at h
      exact ⟨_, by simp, hchosen _, h⟩
    · simp only [threshNonMall, swapped] at h
      have h := ite_ite_stack h
      rw [ret_eq_zipWith] at h
      exact ⟨_, by simp, hchosen _, h⟩

/-! ### dissatisfaction of `thresh`: every child dissatisfied -/

def addD (a s : SatData) : SatData :=
  ⟨a.wSize + s.wSize, a.wCount + s.wCount, a.ssSize + s.ssSize, max a.execStack s.execStack,
   a.execOps + s.execOps⟩

theorem thresh_dissat_fold (e : Bool) : ∀ (sds : List SatDissat) (exts : List ExtData)
    (ws : List (List Ph)) (acc : SatData), AllSB e sds exts → StacksOf (sds.map (·.dissat)) ws →
    ∃ d, exts.foldl (fun (a : Option SatData) sub => zipMap addD a sub.dissatData) (some acc) = some d
      ∧ acc.wCount + (ws.map List.length).sum ≤ d.wCount ∧ acc.wSize + (ws.map wsz).sum ≤ d.wSize
      ∧ (e = true → acc.ssSize + (ws.map wss).sum ≤ d.ssSize) := by
  intro sds
  induction sds with
  | nil =>
    intro exts ws acc hall hst
    cases exts with
    | nil => cases ws with
      | nil => exact ⟨acc, rfl, by simp, by simp, by simp⟩
      | cons _ _ => simp [StacksOf] at hst
    | cons _ _ => simp [AllSB] at hall
  | cons sd sds ih =>
    intro exts ws acc hall hst
    cases exts with
    | nil => simp [AllSB] at hall
    | cons x xs =>
      cases ws with
      | nil => simp [StacksOf] at hst
      | cons w ws =>
        simp only [AllSB] at hall
        simp only [List.map_cons, StacksOf] at hst
        obtain ⟨dx, hdx, c1, c2, c3⟩ := hall.1.2 w hst.1
        obtain ⟨d, hd, i1, i2, i3⟩ := ih xs ws (addD acc dx) hall.2 hst.2
        refine ⟨d, ?_, ?_, ?_, ?_⟩
        · simp only [List.foldl_cons, hdx, zipMap]; exact hd
        · simp only [List.map_cons, List.sum_cons]; simp only [addD] at i1; omega
        · simp only [List.map_cons, List.sum_cons]; simp only [addD] at i2; omega
        · intro he; have := c3 he; have := i3 he
          simp only [List.map_cons, List.sum_cons]; simp only [addD] at this; omega

end MsVerif.C09

/-
C09 helper lemmas, part 3: the satisfier's side of `thresh` (which children are satisfied), the
leaves `multi` / `multi_a`, and the assembly of the threshold bound.
-/
import MsVerif.Lemmas.BoundsThresh

namespace MsVerif.C09
open MsVerif ExtData

/-! ### stacks of a list of satisfactions -/

def StacksOf : List Sat → List (List Ph) → Prop
  | [], [] => True
  | s :: l, w :: ws => s.stack = .stack w ∧ StacksOf l ws
  | _, _ => False

theorem foldl_concat_stacks (l : List Sat) : ∀ (acc : Sat) (w : List Ph),
    (l.foldl Sat.concatenateRev acc).stack = .stack w →
    ∃ wacc, acc.stack = .stack wacc ∧ ∃ ws : List (List Ph), StacksOf l ws
      ∧ w.length = wacc.length + (ws.map List.length).sum
      ∧ wsz w = wsz wacc + (ws.map wsz).sum ∧ wss w = wss wacc + (ws.map wss).sum := by
  induction l with
  | nil => intro acc w h; exact ⟨w, h, [], trivial, by simp, by simp, by simp⟩
  | cons x xs ih =>
    intro acc w h
    simp only [List.foldl_cons] at h
    obtain ⟨w1, h1, ws, hall, e1, e2, e3⟩ := ih _ _ h
    obtain ⟨wa, wx, hacc, hx, rfl⟩ := concatenateRev_stack h1
    refine ⟨wa, hacc, wx :: ws, ⟨hx, hall⟩, ?_, ?_, ?_⟩
    · simp only [List.length_append] at e1; simp only [List.map_cons, List.sum_cons]; omega
    · simp only [wsz_append] at e2; simp only [List.map_cons, List.sum_cons]; omega
    · simp only [wss_append] at e3; simp only [List.map_cons, List.sum_cons]; omega

theorem foldConcat_stacks {l : List Sat} {w : List Ph} (h : (foldConcat l).stack = .stack w) :
    ∃ ws : List (List Ph), StacksOf l ws ∧ w.length = (ws.map List.length).sum
      ∧ wsz w = (ws.map wsz).sum ∧ wss w = (ws.map wss).sum := by
  obtain ⟨wacc, hacc, ws, hs, e1, e2, e3⟩ := foldl_concat_stacks l Sat.empty w h
  simp only [Sat.empty] at hacc
  cases hacc
  exact ⟨ws, hs, by simpa using e1, by simpa using e2, by simpa using e3⟩

/-! ### children: satisfier results versus figures -/

def AllSB (e : Bool) : List SatDissat → List ExtData → Prop
  | [], [] => True
  | sd :: sds, x :: xs => (SB e sd.sat x.satData ∧ SB e sd.dissat x.dissatData) ∧ AllSB e sds xs
  | _, _ => False

def choose (b : Bool) (sd : SatDissat) : Sat := if b then sd.sat else sd.dissat

def tv0 (exts : List ExtData) : List SD := exts.map (fun s => (s.satData, s.dissatData))
def tv1 (exts : List ExtData) : List SD := sortSD (·.wCount) (tv0 exts)
def tv2 (exts : List ExtData) : List SD := sortSD (·.wSize) (tv1 exts)
def tv3 (exts : List ExtData) : List SD := sortSD (·.ssSize) (tv2 exts)
def tv4 (exts : List ExtData) : List SD := sortSD (·.execStack) (tv3 exts)
def tv5 (exts : List ExtData) : List SD := sortSD (·.execOps) (tv4 exts)

theorem chosen_bound (e : Bool) : ∀ (sds : List SatDissat) (exts : List ExtData) (ch : List Bool)
    (ws : List (List Ph)), AllSB e sds exts → ch.length = sds.length →
    StacksOf (List.zipWith choose ch sds) ws →
    (List.zip (tv0 exts) ch).map Prod.fst = tv0 exts
    ∧ (List.zip (tv0 exts) ch).length = sds.length
    ∧ (List.zip (tv0 exts) ch).countP (fun x => x.2) = ch.countP id
    ∧ (∀ x ∈ List.zip (tv0 exts) ch, Valid x)
    ∧ (ws.map List.length).sum ≤ ((List.zip (tv0 exts) ch).map (val (·.wCount))).sum
    ∧ (ws.map wsz).sum ≤ ((List.zip (tv0 exts) ch).map (val (·.wSize))).sum
    ∧ (e = true → (ws.map wss).sum ≤ ((List.zip (tv0 exts) ch).map (val (·.ssSize))).sum) := by
  intro sds
  induction sds with
  | nil =>
    intro exts ch ws hall hlen hst
    cases exts with
    | nil =>
      cases ch with
      | nil => cases ws with
        | nil => simp [tv0]
        | cons _ _ => simp [StacksOf] at hst
      | cons _ _ => simp at hlen
    | cons _ _ => simp [AllSB] at hall
  | cons sd sds ih =>
    intro exts ch ws hall hlen hst
    cases exts with
    | nil => simp [AllSB] at hall
    | cons x xs =>
      cases ch with
      | nil => simp at hlen
      | cons b bs =>
        cases ws with
        | nil => simp [StacksOf] at hst
        | cons w ws =>
          simp only [AllSB] at hall
          simp only [List.zipWith_cons_cons, StacksOf] at hst
          obtain ⟨⟨hsat, hdis⟩, hrest⟩ := hall
          obtain ⟨i1, i0, i2, i3, i4, i5, i6⟩ := ih xs bs ws hrest (by simpa using hlen) hst.2
          simp only [tv0, List.map_cons, List.zip_cons_cons, List.countP_cons, List.sum_cons,
            List.mem_cons, List.length_cons] at i1 i0 i2 i3 i4 i5 i6 ⊢
          cases b with
          | true =>
            obtain ⟨d, hd, c1, c2, c3⟩ := hsat w (by simpa [choose] using hst.1)
            refine ⟨by rw [i1], by rw [i0], by simp [i2], ?_, ?_, ?_, ?_⟩
            · rintro y (rfl | hy)
              · simp [Valid, hd]
              · exact i3 y hy
            · simp only [val, satV, hd, Option.getD_some, if_true]; omega
            · simp only [val, satV, hd, Option.getD_some, if_true]; omega
            · intro he; have := c3 he; have := i6 he
              simp only [val, satV, hd, Option.getD_some, if_true]; omega
          | false =>
            obtain ⟨d, hd, c1, c2, c3⟩ := hdis w (by simpa [choose] using hst.1)
            refine ⟨by rw [i1], by rw [i0], by simp [i2], ?_, ?_, ?_, ?_⟩
            · rintro y (rfl | hy)
              · simp [Valid, hd]
              · exact i3 y hy
            · simp only [val, disV, hd, Option.getD_some, Bool.false_eq_true, if_false]; omega
            · simp only [val, disV, hd, Option.getD_some, Bool.false_eq_true, if_false]; omega
            · intro he; have := c3 he; have := i6 he
              simp only [val, disV, hd, Option.getD_some, Bool.false_eq_true, if_false]; omega

/-! ### the library's threshold figure -/

theorem threshold_satData_eq (k : Nat) (exts : List ExtData) :
    (threshold k exts).satData =
      (match threshFold k (·.wCount) (fun a b => a + b) 0 0 (tv1 exts).reverse,
             threshFold k (·.wSize) (fun a b => a + b) 0 0 (tv2 exts).reverse,
             threshFold k (·.ssSize) (fun a b => a + b) 0 0 (tv3 exts).reverse,
             threshFold k (·.execStack) execCmb 0 0 (tv4 exts).reverse,
             threshFold k (·.execOps) (fun a b => a + b) 0 0 (tv5 exts).reverse with
       | some c, some s, some ss, some st, some o => some (⟨s, c, ss, st, o⟩ : SatData)
       | _, _, _, _, _ => none) := rfl

/-- The satisfier chose exactly `min k n` children and every child has a dissatisfaction figure:
the library's figure EXISTS and bounds the sum of the chosen figures. -/
theorem threshold_sat_bound (k : Nat) (exts : List ExtData) (z0 : List ZE)
    (hz : z0.map Prod.fst = tv0 exts) (hvalid : ∀ x ∈ z0, Valid x)
    (hcount : z0.countP (fun x => x.2) = min k z0.length)
    (hdis : ∀ x ∈ z0, x.1.2.isSome = true) :
    ∃ d, (threshold k exts).satData = some d
      ∧ (z0.map (val (·.wCount))).sum ≤ d.wCount ∧ (z0.map (val (·.wSize))).sum ≤ d.wSize
      ∧ (z0.map (val (·.ssSize))).sum ≤ d.ssSize := by
  -- the vector is re-sorted in place for each field: carry the choices along
  let z1 := sortZ (·.wCount) z0
  let z2 := sortZ (·.wSize) z1
  let z3 := sortZ (·.ssSize) z2
  let z4 := sortZ (·.execStack) z3
  have p1 : z1.Perm z0 := sortZ_perm _ z0
  have p2 : z2.Perm z0 := (sortZ_perm _ z1).trans p1
  have p3 : z3.Perm z0 := (sortZ_perm _ z2).trans p2
  have p4 : z4.Perm z0 := (sortZ_perm _ z3).trans p3
  have m1 : z1.map Prod.fst = tv1 exts := by simp only [z1, sortZ_map_fst, hz, tv1]
  have m2 : z2.map Prod.fst = tv2 exts := by simp only [z2, sortZ_map_fst, m1, tv2]
  have m3 : z3.map Prod.fst = tv3 exts := by simp only [z3, sortZ_map_fst, m2, tv3]
  have m4 : z4.map Prod.fst = tv4 exts := by simp only [z4, sortZ_map_fst, m3, tv4]
  have tr : ∀ {z : List ZE}, z.Perm z0 → (∀ x ∈ z, Valid x) ∧
      z.countP (fun x => x.2) = min k z.length ∧ (∀ x ∈ z, x.1.2.isSome = true) := by
    intro z p
    exact ⟨fun x hx => hvalid x (p.mem_iff.1 hx), by rw [p.countP_eq, p.length_eq]; exact hcount,
      fun x hx => hdis x (p.mem_iff.1 hx)⟩
  obtain ⟨v1, c1, d1⟩ := tr p1
  obtain ⟨v2, c2, d2⟩ := tr p2
  obtain ⟨v3, c3, d3⟩ := tr p3
  obtain ⟨v4, c4, d4⟩ := tr p4
  have s1 := thresh_fold_defined (·.wCount) (fun a b => a + b) k z0 hvalid hcount hdis
  have s2 := thresh_fold_defined (·.wSize) (fun a b => a + b) k z1 v1 c1 d1
  have s3 := thresh_fold_defined (·.ssSize) (fun a b => a + b) k z2 v2 c2 d2
  have s4 := thresh_fold_defined (·.execStack) execCmb k z3 v3 c3 d3
  have s5 := thresh_fold_defined (·.execOps) (fun a b => a + b) k z4 v4 c4 d4
  rw [hz] at s1; rw [m1] at s2; rw [m2] at s3; rw [m3] at s4; rw [m4] at s5
  obtain ⟨c, hc⟩ := Option.isSome_iff_exists.1 s1
  obtain ⟨s, hs⟩ := Option.isSome_iff_exists.1 s2
  obtain ⟨ss, hss⟩ := Option.isSome_iff_exists.1 s3
  obtain ⟨st, hst⟩ := Option.isSome_iff_exists.1 s4
  obtain ⟨o, ho⟩ := Option.isSome_iff_exists.1 s5
  refine ⟨⟨s, c, ss, st, o⟩, ?_, ?_, ?_, ?_⟩
  · rw [threshold_satData_eq]
    simp only [tv1, tv2, tv3, tv4, tv5] at hc hs hss hst ho ⊢
    rw [hc, hs, hss, hst, ho]
  · apply thresh_field_bound (·.wCount) k z0 _ _ hvalid hcount
    rw [hz]; exact hc
  · rw [← (p1.map (val (·.wSize))).sum_nat]
    apply thresh_field_bound (·.wSize) k z1 _ _ v1 c1
    rw [m1]; exact hs
  · rw [← (p2.map (val (·.ssSize))).sum_nat]
    apply thresh_field_bound (·.ssSize) k z2 _ _ v2 c2
    rw [m2]; exact hss

/-! ### which children the satisfier satisfies -/

theorem countP_or_le {α : Type} (p q : α → Bool) (l : List α) :
    l.countP (fun x => p x || q x) ≤ l.countP p + l.countP q := by
  induction l with
  | nil => simp
  | cons a as ih =>
    simp only [List.countP_cons]
    cases p a <;> cases q a <;> simp <;> omega

theorem countP_eq_le_one : ∀ (l : List Nat), l.Nodup → ∀ a : Nat,
    l.countP (fun i => decide (i = a)) ≤ 1 := by
  intro l
  induction l with
  | nil => intro _ _; simp
  | cons x xs ih =>
    intro hl a
    obtain ⟨hx, hxs⟩ := List.nodup_cons.1 hl
    simp only [List.countP_cons]
    by_cases h : x = a
    · subst h
      have : xs.countP (fun i => decide (i = x)) = 0 := by
        apply List.countP_eq_zero.2
        intro y hy; simp; rintro rfl; exact hx hy
      simp [this]
    · have := ih hxs a
      simp [h]; exact this

theorem ite_ite_stack {c1 c2 : Prop} [Decidable c1] [Decidable c2] {x : Sat} {w : List Ph}
    (h : (if c1 then Sat.IMPOSSIBLE else if c2 then Sat.UNAVAILABLE else x).stack = .stack w) :
    x.stack = .stack w := by
  by_cases h1 : c1 <;> by_cases h2 : c2 <;> simp_all [Sat.IMPOSSIBLE, Sat.UNAVAILABLE]

theorem countP_eq_one : ∀ (l : List Nat), l.Nodup → ∀ a : Nat, a ∈ l →
    l.countP (fun i => decide (i = a)) = 1 := by
  intro l
  induction l with
  | nil => intro _ a h; simp at h
  | cons x xs ih =>
    intro hl a ha
    obtain ⟨hx, hxs⟩ := List.nodup_cons.1 hl
    simp only [List.countP_cons]
    by_cases h : x = a
    · subst h
      have : xs.countP (fun i => decide (i = x)) = 0 := by
        apply List.countP_eq_zero.2
        intro y hy; simp; rintro rfl; exact hx hy
      simp [this]
    · have ha' : a ∈ xs := by
        rcases List.mem_cons.1 ha with h' | h'
        · exact absurd h'.symm h
        · exact h'
      have := ih hxs a ha'
      simp [h, this]

theorem countP_or_disjoint {α : Type} (p q : α → Bool) (l : List α)
    (h : ∀ x ∈ l, ¬ (p x = true ∧ q x = true)) :
    l.countP (fun x => p x || q x) = l.countP p + l.countP q := by
  induction l with
  | nil => simp
  | cons a as ih =>
    have ih' := ih (fun x hx => h x (List.mem_cons_of_mem _ hx))
    have ha := h a (List.mem_cons_self ..)
    simp only [List.countP_cons, ih']
    cases hp : p a <;> cases hq : q a <;> simp_all <;> omega

/-- distinct indices, all in range: as many range elements are "chosen" as there are indices -/
theorem countP_contains_eq (l : List Nat) (hl : l.Nodup) : ∀ m : List Nat, m.Nodup → (∀ a ∈ m, a ∈ l) →
    l.countP (fun i => m.contains i) = m.length := by
  intro m
  induction m with
  | nil => intro _ _; simp
  | cons a as ih =>
    intro hm hsub
    obtain ⟨ha, has⟩ := List.nodup_cons.1 hm
    have e : (fun i => (a :: as).contains i) = (fun i => decide (i = a) || as.contains i) := by
      funext i; simp
    rw [e, countP_or_disjoint]
    · rw [countP_eq_one l hl a (hsub a (List.mem_cons_self ..)),
        ih has (fun x hx => hsub x (List.mem_cons_of_mem _ hx))]
      simp only [List.length_cons]; omega
    · intro x _ ⟨h1, h2⟩
      simp only [decide_eq_true_eq] at h1
      subst h1
      exact ha (by simpa using h2)

theorem insertIdx_perm (key : Nat → SortKey) (i : Nat) (l : List Nat) :
    (insertIdx key i l).Perm (i :: l) := by
  induction l with
  | nil => exact List.Perm.refl _
  | cons y ys ih =>
    simp only [insertIdx]
    split
    · exact ((List.perm_cons y).2 ih).trans (List.Perm.swap i y ys)
    · exact List.Perm.refl _

theorem sortIdx_perm (key : Nat → SortKey) (n : Nat) : (sortIdx key n).Perm (List.range n) := by
  have : ∀ (v acc : List Nat), (v.foldl (fun acc i => insertIdx key i acc) acc).Perm (v ++ acc) := by
    intro v
    induction v with
    | nil => intro acc; exact List.Perm.refl _
    | cons x xs ih =>
      intro acc
      simp only [List.foldl_cons]
      refine (ih _).trans ?_
      refine (List.Perm.append_left xs (insertIdx_perm key x acc)).trans ?_
      simpa using (List.perm_middle (a := x) (l₁ := xs) (l₂ := acc))
  simpa [sortIdx] using this (List.range n) []

/-- the first `k` sorted indices pick exactly `min k n` of the `n` children -/
theorem chosen_count (key : Nat → SortKey) (k n : Nat) :
    ((List.range n).map (fun i => ((sortIdx key n).take k).contains i)).countP id = min k n := by
  have hp := sortIdx_perm key n
  have hnd : (sortIdx key n).Nodup := hp.nodup_iff.2 List.nodup_range
  rw [List.countP_map]
  have h1 := countP_contains_eq (List.range n) List.nodup_range ((sortIdx key n).take k)
    (hnd.sublist (List.take_sublist _ _))
    (fun a ha => hp.mem_iff.1 (List.mem_of_mem_take ha))
  have h2 : ((sortIdx key n).take k).length = min k n := by
    rw [List.length_take, hp.length_eq, List.length_range]
  rw [← h2, ← h1]
  rfl

theorem ret_eq_zipWith (chosen : List Nat) (sds : List SatDissat) :
    (List.range (sds.map (·.dissat)).length).map
        (fun i => if chosen.contains i then (sds.map (·.sat))[i]! else (sds.map (·.dissat))[i]!)
      = List.zipWith choose ((List.range sds.length).map (fun i => chosen.contains i)) sds := by
  apply List.ext_getElem
  · simp
  · intro i h1 h2
    have hi : i < sds.length := by simpa using h1
    simp only [List.getElem_map, List.getElem_range, List.getElem_zipWith, choose, List.length_map]
    simp [hi]

/-- whenever `thresh`'s satisfaction is a stack, it is the concatenation of one alternative per
child, with exactly `min k n` children satisfied -/
theorem thresh_sat_choice (c : SatCfg) (k : Nat) (sds : List SatDissat) (w : List Ph)
    (h : (if k = sds.length then foldConcat (sds.map (·.sat))
          else if c.mall then threshMall k (sds.map (·.dissat)) (sds.map (·.sat))
          else threshNonMall k (sds.map (·.dissat)) (sds.map (·.sat))).stack = .stack w) :
    ∃ ch : List Bool, ch.length = sds.length ∧ ch.countP id = min k sds.length
      ∧ (foldConcat (List.zipWith choose ch sds)).stack = .stack w := by
  split at h
  · rename_i hk
    refine ⟨List.replicate sds.length true, by simp, ?_, ?_⟩
    · simp [List.countP_replicate, hk]
    · have : List.zipWith choose (List.replicate sds.length true) sds = sds.map (·.sat) := by
        apply List.ext_getElem
        · simp
        · intro i h1 h2; simp [choose]
      rw [this]; exact h
  · split at h
    · simp only [threshMall, swapped] at h
      rw [ret_eq_zipWith] at h
      refine ⟨_, by simp, ?_, h⟩
      simp only [List.length_map]
      exact chosen_count _ k sds.length
    · simp only [threshNonMall, swapped] at h
      have h := ite_ite_stack h
      rw [ret_eq_zipWith] at h
      refine ⟨_, by simp, ?_, h⟩
      simp only [List.length_map]
      exact chosen_count _ k sds.length

/-! ### dissatisfaction of `thresh`: every child dissatisfied -/

def addD (a s : SatData) : SatData :=
  ⟨a.wSize + s.wSize, a.wCount + s.wCount, a.ssSize + s.ssSize, max a.execStack s.execStack,
   a.execOps + s.execOps⟩

theorem thresh_dissat_fold (e : Bool) : ∀ (sds : List SatDissat) (exts : List ExtData)
    (ws : List (List Ph)) (acc : SatData), AllSB e sds exts → StacksOf (sds.map (·.dissat)) ws →
    ∃ d, exts.foldl (fun (a : Option SatData) sub => zipMap addD a sub.dissatData) (some acc) = some d
      ∧ acc.wCount + (ws.map List.length).sum ≤ d.wCount ∧ acc.wSize + (ws.map wsz).sum ≤ d.wSize
      ∧ (e = true → acc.ssSize + (ws.map wss).sum ≤ d.ssSize) := by
  intro sds
  induction sds with
  | nil =>
    intro exts ws acc hall hst
    cases exts with
    | nil => cases ws with
      | nil => exact ⟨acc, rfl, by simp, by simp, by simp⟩
      | cons _ _ => simp [StacksOf] at hst
    | cons _ _ => simp [AllSB] at hall
  | cons sd sds ih =>
    intro exts ws acc hall hst
    cases exts with
    | nil => simp [AllSB] at hall
    | cons x xs =>
      cases ws with
      | nil => simp [StacksOf] at hst
      | cons w ws =>
        simp only [AllSB] at hall
        simp only [List.map_cons, StacksOf] at hst
        obtain ⟨dx, hdx, c1, c2, c3⟩ := hall.1.2 w hst.1
        obtain ⟨d, hd, i1, i2, i3⟩ := ih xs ws (addD acc dx) hall.2 hst.2
        refine ⟨d, ?_, ?_, ?_, ?_⟩
        · simp only [List.foldl_cons, hdx, zipMap]; exact hd
        · simp only [List.map_cons, List.sum_cons]; simp only [addD] at i1; omega
        · simp only [List.map_cons, List.sum_cons]; simp only [addD] at i2; omega
        · intro he; have := c3 he; have := i3 he
          simp only [List.map_cons, List.sum_cons]; simp only [addD] at this; omega

end MsVerif.C09

/-
Helper lemmas for C12/T2 (model level): switching one `allow_X` off, or lowering one limit,
removes from the accepted set exactly the scripts with the model-level defect `D_X`.
-/
import MsVerif.Lemmas.ValidateMono

namespace MsVerif
open ValidationParams

variable (env : KeyEnv) (K : KeyInfo) (ctx : Ctx) (p : ValidationParams) (ms : Ms)

/-! ### model-level defects -/

def D_malleable (ms : Ms) : Bool := match typeOf ms with | some ty => !ty.mall.nonMall | none => false
def D_nonB (ms : Ms) : Bool := match typeOf ms with | some ty => ty.corr.base != .B | none => false
def D_sigless (ms : Ms) : Bool := match typeOf ms with | some ty => !ty.mall.signed | none => false
def D_unsat (env : KeyEnv) (ctx : Ctx) (ms : Ms) : Bool := (extOf env ctx ms).satData.isNone
def isDupIf : Ms → Bool | .dupIf _ => true | _ => false
def isOrI : Ms → Bool | .orI _ _ => true | _ => false
def isMulti : Ms → Bool | .multi _ _ | .sortedMulti _ _ => true | _ => false
def isMultiA : Ms → Bool | .multiA _ _ | .sortedMultiA _ _ => true | _ => false
def isRawPkh : Ms → Bool | .rawPkH _ => true | _ => false
def D_kind (K : KeyInfo) (kind : KeyKind) (ms : Ms) : Bool := ms.iterPk.any fun k => K.kind k == kind
def D_multipath (K : KeyInfo) (ms : Ms) : Bool := (mpRun none (ms.iterPk.map K.nPaths)).isNone

/-- `x.all (fun a => f a && g a)` splits -/
theorem all_and {α} (l : List α) (f g : α → Bool) :
    l.all (fun a => f a && g a) = (l.all f && l.all g) := by
  induction l with
  | nil => rfl
  | cons a l ih => simp only [List.all_cons, ih]; cases f a <;> cases g a <;> simp

theorem all_not_eq_not_any {α} (l : List α) (f : α → Bool) :
    l.all (fun a => !f a) = !l.any f := by
  induction l with
  | nil => rfl
  | cons a l ih => simp only [List.all_cons, List.any_cons, ih]; cases f a <;> simp

theorem all_or_const {α} (l : List α) (c : Bool) (f : α → Bool) :
    l.all (fun a => c || f a) = (c || l.all f) := by
  cases c <;> simp

/-! ### top-level switches -/

theorem switch_malleability :
    validOK env K ctx { p with allowMalleability := false } ms
      = (validOK env K ctx p ms && !D_malleable ms) := by
  have hf : flagOK { p with allowMalleability := false } = flagOK p := by funext m; cases m <;> rfl
  have hk : pkOK { p with allowMalleability := false } = pkOK p := by funext k; rfl
  cases h : typeOf ms with
  | none => simp [validOK, h]
  | some ty =>
    simp only [validOK, h, D_malleable, nonTopOK, topOK, nodesOK, resourceOK, hf, hk]
    cases ty.mall.nonMall <;> cases p.allowMalleability <;> simp

theorem switch_nonB :
    validOK env K ctx { p with allowNonB := false } ms = (validOK env K ctx p ms && !D_nonB ms) := by
  have hf : flagOK { p with allowNonB := false } = flagOK p := by funext m; cases m <;> rfl
  have hk : pkOK { p with allowNonB := false } = pkOK p := by funext k; rfl
  cases h : typeOf ms with
  | none => simp [validOK, h]
  | some ty =>
    have hb : (ty.corr.base == Base.B) = !(ty.corr.base != Base.B) := by
      cases ty.corr.base <;> rfl
    simp only [validOK, h, D_nonB, nonTopOK, topOK, nodesOK, resourceOK, hf, hk, hb]
    cases (ty.corr.base != Base.B) <;> cases p.allowNonB <;> simp

theorem switch_sigless :
    validOK env K ctx { p with allowSiglessBranch := false } ms
      = (validOK env K ctx p ms && !D_sigless ms) := by
  have hf : flagOK { p with allowSiglessBranch := false } = flagOK p := by funext m; cases m <;> rfl
  have hk : pkOK { p with allowSiglessBranch := false } = pkOK p := by funext k; rfl
  cases h : typeOf ms with
  | none => simp [validOK, h]
  | some ty =>
    simp only [validOK, h, D_sigless, nonTopOK, topOK, nodesOK, resourceOK, hf, hk]
    cases ty.mall.signed <;> cases p.allowSiglessBranch <;> simp

theorem switch_unsatisfiable :
    validOK env K ctx { p with allowUnsatisfiable := false } ms
      = (validOK env K ctx p ms && !D_unsat env ctx ms) := by
  have hf : flagOK { p with allowUnsatisfiable := false } = flagOK p := by funext m; cases m <;> rfl
  have hk : pkOK { p with allowUnsatisfiable := false } = pkOK p := by funext k; rfl
  cases h : typeOf ms with
  | none => simp [validOK, h]
  | some ty =>
    simp only [validOK, h, D_unsat, nonTopOK, topOK, nodesOK, resourceOK, hf, hk]
    cases (extOf env ctx ms).satData <;> cases p.allowUnsatisfiable <;> simp

/-! ### whole-script switches of `validate_non_top_level` -/

theorem switch_duplicateKeys :
    validOK env K ctx { p with allowDuplicateKeys := false } ms
      = (validOK env K ctx p ms && !hasRepeatedKeys ms) := by
  have hf : flagOK { p with allowDuplicateKeys := false } = flagOK p := by funext m; cases m <;> rfl
  have hk : pkOK { p with allowDuplicateKeys := false } = pkOK p := by funext k; rfl
  cases h : typeOf ms with
  | none => simp [validOK, h]
  | some ty =>
    simp only [validOK, h, nonTopOK, topOK, nodesOK, resourceOK, hf, hk]
    cases hasRepeatedKeys ms <;> cases p.allowDuplicateKeys <;> simp

theorem switch_mixedTimeLocks :
    validOK env K ctx { p with allowMixedTimeLocks := false } ms
      = (validOK env K ctx p ms && !hasMixedTimelocks (extOf env ctx ms)) := by
  have hf : flagOK { p with allowMixedTimeLocks := false } = flagOK p := by funext m; cases m <;> rfl
  have hk : pkOK { p with allowMixedTimeLocks := false } = pkOK p := by funext k; rfl
  cases h : typeOf ms with
  | none => simp [validOK, h]
  | some ty =>
    simp only [validOK, h, nonTopOK, topOK, nodesOK, resourceOK, hf, hk]
    cases hasMixedTimelocks (extOf env ctx ms) <;> cases p.allowMixedTimeLocks <;> simp

theorem switch_multipath :
    validOK env K ctx { p with allowInconsistentMultipathKeys := false } ms
      = (validOK env K ctx p ms && !D_multipath K ms) := by
  have hf : flagOK { p with allowInconsistentMultipathKeys := false } = flagOK p := by
    funext m; cases m <;> rfl
  have hk : pkOK { p with allowInconsistentMultipathKeys := false } = pkOK p := by funext k; rfl
  cases h : typeOf ms with
  | none => simp [validOK, h]
  | some ty =>
    simp only [validOK, h, nonTopOK, topOK, nodesOK, resourceOK, hf, hk, D_multipath]
    cases (mpRun none (List.map K.nPaths ms.iterPk)) <;>
      cases p.allowInconsistentMultipathKeys <;> simp

/-! ### fragment switches -/

/-- the generic step: `flagOK` of the tightened parameters is `flagOK p` and "not that fragment" -/
theorem switch_flag (p' : ValidationParams) (is : Ms → Bool)
    (hf : ∀ m, flagOK p' m = (flagOK p m && !is m)) (hk : pkOK p' = pkOK p)
    (hrest : ∀ ty, (decide ((extOf env ctx ms).treeHeight ≤ p'.maxRecursiveDepth)
        && (p'.allowDuplicateKeys || !hasRepeatedKeys ms)
        && (p'.allowMixedTimeLocks || !hasMixedTimelocks (extOf env ctx ms)),
        p'.allowInconsistentMultipathKeys,
        resourceOK p' (scriptSize env ctx ms) (extOf env ctx ms), topOK p' ty (extOf env ctx ms))
      = (decide ((extOf env ctx ms).treeHeight ≤ p.maxRecursiveDepth)
        && (p.allowDuplicateKeys || !hasRepeatedKeys ms)
        && (p.allowMixedTimeLocks || !hasMixedTimelocks (extOf env ctx ms)),
        p.allowInconsistentMultipathKeys,
        resourceOK p (scriptSize env ctx ms) (extOf env ctx ms), topOK p ty (extOf env ctx ms))) :
    validOK env K ctx p' ms = (validOK env K ctx p ms && !ms.preorder.any is) := by
  cases h : typeOf ms with
  | none => simp [validOK, h]
  | some ty =>
    have hr := hrest ty
    simp only [Prod.mk.injEq] at hr
    obtain ⟨h1, h2, h3, h4⟩ := hr
    have hf' : flagOK p' = fun m => flagOK p m && !is m := funext hf
    simp only [validOK, h, nonTopOK, nodesOK, h1, h2, h3, h4, hk, hf', all_and, all_not_eq_not_any]
    cases ms.preorder.any is <;> simp

theorem switch_dupIf :
    validOK env K ctx { p with allowDupIf := false } ms
      = (validOK env K ctx p ms && !ms.preorder.any isDupIf) :=
  switch_flag env K ctx p ms _ isDupIf
    (by intro m; cases m <;> simp [flagOK, isDupIf]) (by funext k; rfl) (fun _ => rfl)

theorem switch_orI :
    validOK env K ctx { p with allowOrI := false } ms
      = (validOK env K ctx p ms && !ms.preorder.any isOrI) :=
  switch_flag env K ctx p ms _ isOrI
    (by intro m; cases m <;> simp [flagOK, isOrI]) (by funext k; rfl) (fun _ => rfl)

theorem switch_multi :
    validOK env K ctx { p with allowMulti := false } ms
      = (validOK env K ctx p ms && !ms.preorder.any isMulti) :=
  switch_flag env K ctx p ms _ isMulti
    (by intro m; cases m <;> simp [flagOK, isMulti]) (by funext k; rfl) (fun _ => rfl)

theorem switch_multiA :
    validOK env K ctx { p with allowMultiA := false } ms
      = (validOK env K ctx p ms && !ms.preorder.any isMultiA) :=
  switch_flag env K ctx p ms _ isMultiA
    (by intro m; cases m <;> simp [flagOK, isMultiA]) (by funext k; rfl) (fun _ => rfl)

theorem switch_rawPkh :
    validOK env K ctx { p with allowRawPkh := false } ms
      = (validOK env K ctx p ms && !ms.preorder.any isRawPkh) :=
  switch_flag env K ctx p ms _ isRawPkh
    (by intro m; cases m <;> simp [flagOK, isRawPkh]) (by funext k; rfl) (fun _ => rfl)

/-! ### key-kind switches -/

/-- generic step for a change that only touches `pkOK` -/
theorem switch_keys (p' : ValidationParams) (extra : KeyKind → Bool)
    (hf : flagOK p' = flagOK p) (hk : ∀ k, pkOK p' k = (pkOK p k && extra k))
    (hrest : ∀ ty, (decide ((extOf env ctx ms).treeHeight ≤ p'.maxRecursiveDepth)
        && (p'.allowDuplicateKeys || !hasRepeatedKeys ms)
        && (p'.allowMixedTimeLocks || !hasMixedTimelocks (extOf env ctx ms)),
        p'.allowInconsistentMultipathKeys,
        resourceOK p' (scriptSize env ctx ms) (extOf env ctx ms), topOK p' ty (extOf env ctx ms))
      = (decide ((extOf env ctx ms).treeHeight ≤ p.maxRecursiveDepth)
        && (p.allowDuplicateKeys || !hasRepeatedKeys ms)
        && (p.allowMixedTimeLocks || !hasMixedTimelocks (extOf env ctx ms)),
        p.allowInconsistentMultipathKeys,
        resourceOK p (scriptSize env ctx ms) (extOf env ctx ms), topOK p ty (extOf env ctx ms))) :
    validOK env K ctx p' ms
      = (validOK env K ctx p ms && ms.iterPk.all fun k => extra (K.kind k)) := by
  cases h : typeOf ms with
  | none => simp [validOK, h]
  | some ty =>
    have hr := hrest ty
    simp only [Prod.mk.injEq] at hr
    obtain ⟨h1, h2, h3, h4⟩ := hr
    have hk' : (fun k => pkOK p' (K.kind k)) = fun k => pkOK p (K.kind k) && extra (K.kind k) :=
      funext fun k => hk _
    simp only [validOK, h, nonTopOK, nodesOK, h1, h2, h3, h4, hk', hf, all_and]
    generalize (ms.iterPk.all fun k => extra (K.kind k)) = e
    cases e <;> simp

theorem D_kind_not (kind : KeyKind) :
    (!D_kind K kind ms) = ms.iterPk.all fun k => K.kind k != kind := by
  unfold D_kind; rw [← all_not_eq_not_any]; rfl

theorem switch_uncompressedKeys :
    validOK env K ctx { p with allowUncompressedKeys := false } ms
      = (validOK env K ctx p ms && !D_kind K .uncompressed ms) := by
  rw [D_kind_not]
  exact switch_keys env K ctx p ms _ (fun k => k != .uncompressed)
    (by funext m; cases m <;> rfl)
    (by intro k; unfold pkOK; dsimp only; cases k <;> cases p.allowCompressedKeys <;>
          cases p.allowXOnlyKeys <;> cases p.allowUncompressedKeys <;> rfl) (fun _ => rfl)

/-- switching x-only keys off also removes the "compressed key stands for its x-only key"
escape of `validate_pk` -/
theorem switch_xOnlyKeys :
    validOK env K ctx { p with allowXOnlyKeys := false } ms
      = (validOK env K ctx p ms && (!D_kind K .xonly ms
          && (p.allowCompressedKeys || !D_kind K .compressed ms))) := by
  rw [D_kind_not, D_kind_not, ← all_or_const, ← all_and]
  exact switch_keys env K ctx p ms _
    (fun k => k != .xonly && (p.allowCompressedKeys || k != .compressed))
    (by funext m; cases m <;> rfl)
    (by intro k; unfold pkOK; dsimp only; cases k <;> cases p.allowCompressedKeys <;>
          cases p.allowXOnlyKeys <;> cases p.allowUncompressedKeys <;> rfl) (fun _ => rfl)

theorem switch_compressedKeys :
    validOK env K ctx { p with allowCompressedKeys := false } ms
      = (validOK env K ctx p ms && (p.allowXOnlyKeys || !D_kind K .compressed ms)) := by
  rw [D_kind_not, ← all_or_const]
  exact switch_keys env K ctx p ms _ (fun k => p.allowXOnlyKeys || k != .compressed)
    (by funext m; cases m <;> rfl)
    (by intro k; unfold pkOK; dsimp only; cases k <;> cases p.allowCompressedKeys <;>
          cases p.allowXOnlyKeys <;> cases p.allowUncompressedKeys <;> rfl) (fun _ => rfl)

/-! ### numeric limits -/

theorem limit_depth (L : Nat) (hL : L ≤ p.maxRecursiveDepth) :
    validOK env K ctx { p with maxRecursiveDepth := L } ms
      = (validOK env K ctx p ms && decide ((extOf env ctx ms).treeHeight ≤ L)) := by
  have hf : flagOK { p with maxRecursiveDepth := L } = flagOK p := by funext m; cases m <;> rfl
  have hk : pkOK { p with maxRecursiveDepth := L } = pkOK p := by funext k; rfl
  cases h : typeOf ms with
  | none => simp [validOK, h]
  | some ty =>
    simp only [validOK, h, nonTopOK, topOK, nodesOK, resourceOK, hf, hk]
    by_cases h1 : (extOf env ctx ms).treeHeight ≤ L
    · have : (extOf env ctx ms).treeHeight ≤ p.maxRecursiveDepth := by omega
      simp [h1, this]
    · simp [h1]

theorem limit_scriptSize (L : Nat) (hL : L ≤ p.maxScriptSize) (hfin : L < USIZE_MAX) :
    validOK env K ctx { p with maxScriptSize := L } ms
      = (validOK env K ctx p ms && decide (scriptSize env ctx ms ≤ L)) := by
  have hf : flagOK { p with maxScriptSize := L } = flagOK p := by funext m; cases m <;> rfl
  have hk : pkOK { p with maxScriptSize := L } = pkOK p := by funext k; rfl
  cases h : typeOf ms with
  | none => simp [validOK, h]
  | some ty =>
    simp only [validOK, h, nonTopOK, topOK, nodesOK, resourceOK, hf, hk]
    have h0 : decide (USIZE_MAX ≤ L) = false := by simp; omega
    by_cases h1 : scriptSize env ctx ms ≤ L
    · have : scriptSize env ctx ms ≤ p.maxScriptSize := by omega
      simp [h1, this, h0]
    · simp [h1, h0]

/-- the three limits that are only looked at when a satisfaction exists -/
theorem limit_witnessItems (L : Nat) (hL : L ≤ p.maxWitnessItems) :
    validOK env K ctx { p with maxWitnessItems := L } ms
      = (validOK env K ctx p ms &&
          (match (extOf env ctx ms).satData with
           | none => true | some d => decide (witnessItems d ≤ L))) := by
  have hf : flagOK { p with maxWitnessItems := L } = flagOK p := by funext m; cases m <;> rfl
  have hk : pkOK { p with maxWitnessItems := L } = pkOK p := by funext k; rfl
  cases h : typeOf ms with
  | none => simp [validOK, h]
  | some ty =>
    simp only [validOK, h, nonTopOK, topOK, nodesOK, resourceOK, hf, hk]
    cases hs : (extOf env ctx ms).satData with
    | none => simp
    | some d =>
      simp only
      by_cases h1 : witnessItems d ≤ L
      · have : witnessItems d ≤ p.maxWitnessItems := by omega
        simp [h1, this]
      · simp [h1]

theorem limit_opcodeCount (L : Nat) (hL : L ≤ p.maxOpcodeCount) :
    validOK env K ctx { p with maxOpcodeCount := L } ms
      = (validOK env K ctx p ms &&
          (match (extOf env ctx ms).satData with
           | none => true | some d => decide (opCount (extOf env ctx ms) d ≤ L))) := by
  have hf : flagOK { p with maxOpcodeCount := L } = flagOK p := by funext m; cases m <;> rfl
  have hk : pkOK { p with maxOpcodeCount := L } = pkOK p := by funext k; rfl
  cases h : typeOf ms with
  | none => simp [validOK, h]
  | some ty =>
    simp only [validOK, h, nonTopOK, topOK, nodesOK, resourceOK, hf, hk]
    cases hs : (extOf env ctx ms).satData with
    | none => simp
    | some d =>
      simp only
      by_cases h1 : opCount (extOf env ctx ms) d ≤ L
      · have : opCount (extOf env ctx ms) d ≤ p.maxOpcodeCount := by omega
        simp [h1, this]
      · simp [h1]

theorem limit_execStack (L : Nat) (hL : L ≤ p.maxExecStackSize) :
    validOK env K ctx { p with maxExecStackSize := L } ms
      = (validOK env K ctx p ms &&
          (match (extOf env ctx ms).satData with
           | none => true | some d => decide (execStack d ≤ L))) := by
  have hf : flagOK { p with maxExecStackSize := L } = flagOK p := by funext m; cases m <;> rfl
  have hk : pkOK { p with maxExecStackSize := L } = pkOK p := by funext k; rfl
  cases h : typeOf ms with
  | none => simp [validOK, h]
  | some ty =>
    simp only [validOK, h, nonTopOK, topOK, nodesOK, resourceOK, hf, hk]
    cases hs : (extOf env ctx ms).satData with
    | none => simp
    | some d =>
      simp only
      by_cases h1 : execStack d ≤ L
      · have : execStack d ≤ p.maxExecStackSize := by omega
        simp [h1, this]
      · simp [h1]

end MsVerif

/-
Inversion of the library's type rules (`Model/TypeCheck.typeOf`), restricted to what the
soundness proof of the interpreter needs: base types and the unit (`u`) property.
-/
import MsVerif.Model.TypeCheck

namespace MsVerif.InterpSound
open MsVerif

theorem typeOf_alt {x : Ms} {ty : Ty} (h : typeOf (.alt x) = some ty) :
    ∃ tx, typeOf x = some tx ∧ tx.corr.base = .B ∧ ty.corr.base = .W ∧ ty.corr.unit = tx.corr.unit := by
  simp only [typeOf] at h
  cases hx : typeOf x with
  | none => simp [hx] at h
  | some tx =>
    refine ⟨tx, rfl, ?_⟩
    simp only [hx, Option.bind_some, Ty.castAlt, Ty.lift1, Corr.castAlt] at h
    split at h
    · rename_i c hc
      split at hc
      · simp at hc h; subst hc; subst h; simp_all
      · simp at hc
    · simp at h

theorem typeOf_swap {x : Ms} {ty : Ty} (h : typeOf (.swap x) = some ty) :
    ∃ tx, typeOf x = some tx ∧ tx.corr.base = .B ∧ (tx.corr.input = .one ∨ tx.corr.input = .oneNonZero)
      ∧ ty.corr.base = .W ∧ ty.corr.unit = tx.corr.unit := by
  simp only [typeOf] at h
  cases hx : typeOf x with
  | none => simp [hx] at h
  | some tx =>
    refine ⟨tx, rfl, ?_⟩
    simp only [hx, Option.bind_some, Ty.castSwap, Ty.lift1, Corr.castSwap] at h
    split at h
    · rename_i c hc
      split at hc
      · split at hc
        · simp at hc h; subst hc; subst h; simp_all
        · simp at hc h; subst hc; subst h; simp_all
        · simp at hc
      · simp at hc
    · simp at h

theorem typeOf_check {x : Ms} {ty : Ty} (h : typeOf (.check x) = some ty) :
    ∃ tx, typeOf x = some tx ∧ tx.corr.base = .K ∧ ty.corr.base = .B ∧ ty.corr.unit = true := by
  simp only [typeOf] at h
  cases hx : typeOf x with
  | none => simp [hx] at h
  | some tx =>
    refine ⟨tx, rfl, ?_⟩
    simp only [hx, Option.bind_some, Ty.castCheck, Ty.lift1, Corr.castCheck] at h
    split at h
    · rename_i c hc
      split at hc
      · simp at hc h; subst hc; subst h; simp_all
      · simp at hc
    · simp at h

theorem typeOf_verify {x : Ms} {ty : Ty} (h : typeOf (.verify x) = some ty) :
    ∃ tx, typeOf x = some tx ∧ tx.corr.base = .B ∧ ty.corr.base = .V := by
  simp only [typeOf] at h
  cases hx : typeOf x with
  | none => simp [hx] at h
  | some tx =>
    refine ⟨tx, rfl, ?_⟩
    simp only [hx, Option.bind_some, Ty.castVerify, Ty.lift1, Corr.castVerify] at h
    split at h
    · rename_i c hc
      split at hc
      · simp at hc h; subst hc; subst h; simp_all
      · simp at hc
    · simp at h

theorem typeOf_zeroNotEqual {x : Ms} {ty : Ty} (h : typeOf (.zeroNotEqual x) = some ty) :
    ∃ tx, typeOf x = some tx ∧ tx.corr.base = .B ∧ ty.corr.base = .B ∧ ty.corr.unit = true := by
  simp only [typeOf] at h
  cases hx : typeOf x with
  | none => simp [hx] at h
  | some tx =>
    refine ⟨tx, rfl, ?_⟩
    simp only [hx, Option.bind_some, Ty.castZeroNotEqual, Ty.lift1, Corr.castZeroNotEqual] at h
    split at h
    · rename_i c hc
      split at hc
      · simp at hc h; subst hc; subst h; simp_all
      · simp at hc
    · simp at h

theorem typeOf_nonZero {x : Ms} {ty : Ty} (h : typeOf (.nonZero x) = some ty) :
    ∃ tx, typeOf x = some tx ∧ tx.corr.base = .B ∧ ty.corr.base = .B ∧ ty.corr.unit = tx.corr.unit := by
  simp only [typeOf] at h
  cases hx : typeOf x with
  | none => simp [hx] at h
  | some tx =>
    refine ⟨tx, rfl, ?_⟩
    simp only [hx, Option.bind_some, Ty.castNonZero, Ty.lift1, Corr.castNonZero] at h
    split at h
    · rename_i c hc
      split at hc
      · simp at hc
      · split at hc
        · simp at hc h; subst hc; subst h; simp_all
        · simp at hc
    · simp at h

theorem typeOf_dupIf {x : Ms} {ty : Ty} (h : typeOf (.dupIf x) = some ty) :
    ∃ tx, typeOf x = some tx ∧ tx.corr.base = .V ∧ tx.corr.input = .zero ∧ ty.corr.base = .B
      ∧ ty.corr.unit = false := by
  simp only [typeOf] at h
  cases hx : typeOf x with
  | none => simp [hx] at h
  | some tx =>
    refine ⟨tx, rfl, ?_⟩
    simp only [hx, Option.bind_some, Ty.castDupIf, Ty.lift1, Corr.castDupIf] at h
    split at h
    · rename_i c hc
      split at hc
      · split at hc
        · simp at hc h; subst hc; subst h; simp_all
        · simp at hc
      · simp at hc
    · simp at h

/-- binary rules: the result is `some` only on the listed base combinations -/
theorem typeOf_andB {l r : Ms} {ty : Ty} (h : typeOf (.andB l r) = some ty) :
    ∃ tl tr, typeOf l = some tl ∧ typeOf r = some tr ∧ tl.corr.base = .B ∧ tr.corr.base = .W
      ∧ ty.corr.base = .B ∧ ty.corr.unit = true := by
  simp only [typeOf] at h
  cases hl : typeOf l with
  | none => simp [hl] at h
  | some tl =>
    cases hr : typeOf r with
    | none => simp [hl, hr] at h
    | some tr =>
      refine ⟨tl, tr, rfl, rfl, ?_⟩
      simp only [hl, hr, Ty.andB, Ty.lift2, Corr.andB] at h
      split at h
      · rename_i c hc
        split at hc
        · simp at hc h; subst hc; subst h; simp_all
        · simp at hc
      · simp at h

theorem typeOf_orB {l r : Ms} {ty : Ty} (h : typeOf (.orB l r) = some ty) :
    ∃ tl tr, typeOf l = some tl ∧ typeOf r = some tr ∧ tl.corr.base = .B ∧ tr.corr.base = .W
      ∧ ty.corr.base = .B ∧ ty.corr.unit = true := by
  simp only [typeOf] at h
  cases hl : typeOf l with
  | none => simp [hl] at h
  | some tl =>
    cases hr : typeOf r with
    | none => simp [hl, hr] at h
    | some tr =>
      refine ⟨tl, tr, rfl, rfl, ?_⟩
      simp only [hl, hr, Ty.orB, Ty.lift2, Corr.orB] at h
      split at h
      · rename_i c hc
        split at hc
        · simp at hc
        · split at hc
          · simp at hc
          · split at hc
            · simp at hc h; subst hc; subst h; simp_all
            · simp at hc
      · simp at h

theorem typeOf_andV {l r : Ms} {ty : Ty} (h : typeOf (.andV l r) = some ty) :
    ∃ tl tr, typeOf l = some tl ∧ typeOf r = some tr ∧ tl.corr.base = .V
      ∧ ty.corr.base = tr.corr.base ∧ tr.corr.base ≠ .W ∧ ty.corr.unit = tr.corr.unit := by
  simp only [typeOf] at h
  cases hl : typeOf l with
  | none => simp [hl] at h
  | some tl =>
    cases hr : typeOf r with
    | none => simp [hl, hr] at h
    | some tr =>
      refine ⟨tl, tr, rfl, rfl, ?_⟩
      simp only [hl, hr, Ty.andV, Ty.lift2, Corr.andV] at h
      split at h
      · rename_i c hc
        split at hc <;> first | (simp at hc h; subst hc; subst h; simp_all) | simp at hc
      · simp at h

theorem typeOf_orD {l r : Ms} {ty : Ty} (h : typeOf (.orD l r) = some ty) :
    ∃ tl tr, typeOf l = some tl ∧ typeOf r = some tr ∧ tl.corr.base = .B ∧ tl.corr.unit = true
      ∧ tr.corr.base = .B ∧ ty.corr.base = .B ∧ ty.corr.unit = tr.corr.unit := by
  simp only [typeOf] at h
  cases hl : typeOf l with
  | none => simp [hl] at h
  | some tl =>
    cases hr : typeOf r with
    | none => simp [hl, hr] at h
    | some tr =>
      refine ⟨tl, tr, rfl, rfl, ?_⟩
      simp only [hl, hr, Ty.orD, Ty.lift2, Corr.orD] at h
      split at h
      · rename_i c hc
        split at hc
        · simp at hc
        · split at hc
          · simp at hc
          · split at hc
            · simp at hc h; subst hc; subst h; simp_all
            · simp at hc
      · simp at h

theorem typeOf_orC {l r : Ms} {ty : Ty} (h : typeOf (.orC l r) = some ty) :
    ∃ tl tr, typeOf l = some tl ∧ typeOf r = some tr ∧ tl.corr.base = .B ∧ tl.corr.unit = true
      ∧ tr.corr.base = .V ∧ ty.corr.base = .V := by
  simp only [typeOf] at h
  cases hl : typeOf l with
  | none => simp [hl] at h
  | some tl =>
    cases hr : typeOf r with
    | none => simp [hl, hr] at h
    | some tr =>
      refine ⟨tl, tr, rfl, rfl, ?_⟩
      simp only [hl, hr, Ty.orC, Ty.lift2, Corr.orC] at h
      split at h
      · rename_i c hc
        split at hc
        · simp at hc
        · split at hc
          · simp at hc
          · split at hc
            · simp at hc h; subst hc; subst h; simp_all
            · simp at hc
      · simp at h

theorem typeOf_orI {l r : Ms} {ty : Ty} (h : typeOf (.orI l r) = some ty) :
    ∃ tl tr, typeOf l = some tl ∧ typeOf r = some tr ∧ tl.corr.base = ty.corr.base
      ∧ tr.corr.base = ty.corr.base ∧ ty.corr.base ≠ .W
      ∧ (ty.corr.unit = true → tl.corr.unit = true ∧ tr.corr.unit = true) := by
  simp only [typeOf] at h
  cases hl : typeOf l with
  | none => simp [hl] at h
  | some tl =>
    cases hr : typeOf r with
    | none => simp [hl, hr] at h
    | some tr =>
      refine ⟨tl, tr, rfl, rfl, ?_⟩
      simp only [hl, hr, Ty.orI, Ty.lift2, Corr.orI] at h
      split at h
      · rename_i c hc
        split at hc <;> first | (simp at hc h; subst hc; subst h; simp_all) | simp at hc
      · simp at h

theorem typeOf_andOr {a b c : Ms} {ty : Ty} (h : typeOf (.andOr a b c) = some ty) :
    ∃ ta tb tc, typeOf a = some ta ∧ typeOf b = some tb ∧ typeOf c = some tc
      ∧ ta.corr.base = .B ∧ ta.corr.unit = true
      ∧ tb.corr.base = ty.corr.base ∧ tc.corr.base = ty.corr.base ∧ ty.corr.base ≠ .W
      ∧ (ty.corr.unit = true → tb.corr.unit = true ∧ tc.corr.unit = true) := by
  simp only [typeOf] at h
  cases ha : typeOf a with
  | none => simp [ha] at h
  | some ta =>
    cases hb : typeOf b with
    | none => simp [ha, hb] at h
    | some tb =>
      cases hc' : typeOf c with
      | none => simp [ha, hb, hc'] at h
      | some tc =>
        refine ⟨ta, tb, tc, rfl, rfl, rfl, ?_⟩
        simp only [ha, hb, hc', Ty.andOr, Corr.andOr] at h
        split at h
        · rename_i x hx
          split at hx
          · simp at hx
          · split at hx
            · simp at hx
            · split at hx <;> first | (simp at hx h; subst hx; subst h; simp_all) | simp at hx
        · simp at h

theorem typeOf_tru {ty : Ty} (h : typeOf .tru = some ty) : ty.corr.base = .B ∧ ty.corr.unit = true := by
  simp [typeOf] at h; subst h; exact ⟨rfl, rfl⟩
theorem typeOf_fls {ty : Ty} (h : typeOf .fls = some ty) : ty.corr.base = .B ∧ ty.corr.unit = true := by
  simp [typeOf] at h; subst h; exact ⟨rfl, rfl⟩
theorem typeOf_pkK {k : Key} {ty : Ty} (h : typeOf (.pkK k) = some ty) : ty.corr.base = .K := by
  simp [typeOf] at h; subst h; rfl
theorem typeOf_pkH {k : Key} {ty : Ty} (h : typeOf (.pkH k) = some ty) : ty.corr.base = .K := by
  simp [typeOf] at h; subst h; rfl
theorem typeOf_rawPkH {k : Nat} {ty : Ty} (h : typeOf (.rawPkH k) = some ty) : ty.corr.base = .K := by
  simp [typeOf] at h; subst h; rfl
theorem typeOf_after {n : Nat} {ty : Ty} (h : typeOf (.after n) = some ty) :
    ty.corr.base = .B ∧ ty.corr.unit = false := by
  simp [typeOf] at h; subst h; exact ⟨rfl, rfl⟩
theorem typeOf_older {n : Nat} {ty : Ty} (h : typeOf (.older n) = some ty) :
    ty.corr.base = .B ∧ ty.corr.unit = false := by
  simp [typeOf] at h; subst h; exact ⟨rfl, rfl⟩
theorem typeOf_hash {k : HashKind} {n : Nat} {ty : Ty} (h : typeOf (.hash k n) = some ty) :
    ty.corr.base = .B ∧ ty.corr.unit = true := by
  simp [typeOf] at h; subst h; exact ⟨rfl, rfl⟩
theorem typeOf_multi {k : Nat} {ks : List Key} {ty : Ty} (h : typeOf (.multi k ks) = some ty) :
    ty.corr.base = .B ∧ ty.corr.unit = true := by
  simp [typeOf] at h; subst h; exact ⟨rfl, rfl⟩

theorem typesOf_cons {x : Ms} {xs : MsList} {ts : List Ty} (h : typesOf (.cons x xs) = some ts) :
    ∃ t ts', typeOf x = some t ∧ typesOf xs = some ts' ∧ ts = t :: ts' := by
  simp only [typesOf] at h
  cases hx : typeOf x with
  | none => simp [hx] at h
  | some t =>
    cases hxs : typesOf xs with
    | none => simp [hx, hxs] at h
    | some ts' => simp [hx, hxs] at h; exact ⟨t, ts', rfl, rfl, h.symm⟩

theorem typesOf_nil {ts : List Ty} (h : typesOf .nil = some ts) : ts = [] := by
  simp [typesOf] at h; exact h

theorem threshLoop_cons {i acc : Nat} {s : Corr} {rest : List Corr} {n : Nat}
    (h : Corr.threshLoop i acc (s :: rest) = some n) :
    (i = 0 → s.base = .B) ∧ (i ≠ 0 → s.base = .W) ∧ s.unit = true
      ∧ Corr.threshLoop (i + 1) (acc + Corr.numArgs s.input) rest = some n := by
  simp only [Corr.threshLoop] at h
  split at h
  · simp at h
  · rename_i h1
    split at h
    · simp at h
    · rename_i h2
      split at h
      · simp at h
      · rename_i h3
        split at h
        · simp at h
        · refine ⟨fun hi => ?_, fun hi => ?_, by simpa using h3, h⟩
          · exact Classical.byContradiction fun hb => h1 ⟨hi, hb⟩
          · exact Classical.byContradiction fun hb => h2 ⟨hi, hb⟩

theorem typeOf_thresh {k : Nat} {xs : MsList} {ty : Ty} (h : typeOf (.thresh k xs) = some ty) :
    ∃ ts n, typesOf xs = some ts ∧ Corr.threshLoop 0 0 (ts.map (·.corr)) = some n
      ∧ ty.corr.base = .B ∧ ty.corr.unit = true := by
  simp only [typeOf] at h
  cases hx : typesOf xs with
  | none => simp [hx] at h
  | some ts =>
    simp only [hx, Option.bind_some, Ty.threshold, Corr.threshold] at h
    cases hl : Corr.threshLoop 0 0 (ts.map (·.corr)) with
    | none => simp [hl] at h
    | some n =>
      simp [hl] at h
      subst h
      exact ⟨ts, n, rfl, hl, rfl, rfl⟩

theorem typeOf_multiA {k : Nat} {ks : List Key} {ty : Ty} (h : typeOf (.multiA k ks) = some ty) :
    ty.corr.base = .B ∧ ty.corr.unit = true := by
  simp [typeOf] at h; subst h; exact ⟨rfl, rfl⟩

end MsVerif.InterpSound

/-
Helper lemmas for C12/T3: every clause of the acceptance condition is monotone in the
parameters (tightening never admits more).
-/
import MsVerif.Lemmas.ValidateLattice

namespace MsVerif
open ValidationParams

variable {a b : ValidationParams}

theorem pkOK_mono (h : a.le b = true) (k : KeyKind) (hk : pkOK a k = true) : pkOK b k = true := by
  obtain ⟨⟨h1, _, _, _, _, _, _, _, _, _, _, h12, _, h14, _⟩, _⟩ := (le_iff a b).1 h
  cases k <;> simp only [pkOK, Bool.and_eq_true, Bool.or_eq_true] at hk ⊢ <;> simp_all
  · rcases hk with h | h
    · exact Or.inl (h1 h)
    · exact Or.inr (h14 h)

theorem flagOK_mono (h : a.le b = true) (m : Ms) (hm : flagOK a m = true) : flagOK b m = true := by
  obtain ⟨⟨_, _, h3, _, _, h6, h7, h8, h9, _⟩, _⟩ := (le_iff a b).1 h
  cases m <;> simp only [flagOK] at hm ⊢ <;> first | rfl | simp_all

theorem nodesOK_mono (h : a.le b = true) (K : KeyInfo) (ms : Ms) (hm : nodesOK a K ms = true) :
    nodesOK b K ms = true := by
  have h15 := ((le_iff a b).1 h).1.2.2.2.2.2.2.2.2.2.2.2.2.2.2
  simp only [nodesOK, Bool.and_eq_true, List.all_eq_true, Bool.or_eq_true] at hm ⊢
  obtain ⟨⟨hf, hk⟩, hp⟩ := hm
  refine ⟨⟨fun m hm => flagOK_mono h m (hf m hm), fun k hk' => pkOK_mono h _ (hk k hk')⟩, ?_⟩
  rcases hp with hp | hp
  · exact Or.inl (h15 hp)
  · exact Or.inr hp

theorem resourceOK_mono (h : a.le b = true) (size : Nat) (e : ExtData)
    (hr : resourceOK a size e = true) : resourceOK b size e = true := by
  obtain ⟨_, h16, h17, h18, h19, _⟩ := (le_iff a b).1 h
  unfold resourceOK at hr ⊢
  cases hs : e.satData with
  | none =>
    simp only [hs, Bool.and_true, Bool.or_eq_true, decide_eq_true_eq] at hr ⊢
    omega
  | some d =>
    simp only [hs, Bool.and_eq_true, Bool.or_eq_true, decide_eq_true_eq] at hr ⊢
    omega

theorem topOK_mono (h : a.le b = true) (ty : Ty) (e : ExtData) (ht : topOK a ty e = true) :
    topOK b ty e = true := by
  obtain ⟨⟨_, _, _, h4, _, _, _, _, _, h10, h11, _, h13, _, _⟩, _⟩ := (le_iff a b).1 h
  simp only [topOK, Bool.and_eq_true, Bool.or_eq_true] at ht ⊢
  obtain ⟨⟨⟨t1, t2⟩, t3⟩, t4⟩ := ht
  exact ⟨⟨⟨t1.imp h4 id, t2.imp h11 id⟩, t3.imp h10 id⟩, t4.imp h13 id⟩

theorem nonTopOK_mono (h : a.le b = true) (env : KeyEnv) (K : KeyInfo) (ctx : Ctx) (ms : Ms)
    (hn : nonTopOK env K ctx a ms = true) : nonTopOK env K ctx b ms = true := by
  obtain ⟨⟨_, h2, _, _, h5, _⟩, _, _, _, _, h20⟩ := (le_iff a b).1 h
  simp only [nonTopOK, Bool.and_eq_true, Bool.or_eq_true, decide_eq_true_eq] at hn ⊢
  obtain ⟨⟨⟨⟨n1, n2⟩, n3⟩, n4⟩, n5⟩ := hn
  exact ⟨⟨⟨⟨by omega, n2.imp h2 id⟩, n3.imp h5 id⟩, nodesOK_mono h K ms n4⟩,
    resourceOK_mono h _ _ n5⟩

theorem validOK_mono (h : a.le b = true) (env : KeyEnv) (K : KeyInfo) (ctx : Ctx) (ms : Ms)
    (hv : validOK env K ctx a ms = true) : validOK env K ctx b ms = true := by
  unfold validOK at hv ⊢
  cases hty : typeOf ms with
  | none => simp [hty] at hv
  | some ty =>
    simp only [hty, Bool.and_eq_true] at hv ⊢
    exact ⟨nonTopOK_mono h env K ctx ms hv.1, topOK_mono h ty _ hv.2⟩

end MsVerif

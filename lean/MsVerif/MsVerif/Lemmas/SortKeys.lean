/-
Lemmas for C16/T2: the byte order used by BIP67 sorting is a total order, the stable insertion
sort of Model/Encode.lean (`sortKeys`) returns a sorted permutation, and therefore its result
does not depend on the order of the input list (up to ties between equal sort keys).
-/
import MsVerif.Model.Encode
import MsVerif.Model.Satisfy
import MsVerif.Model.Keys

namespace MsVerif.Sorted

/-! ### `bytesLe` is a total order on byte strings -/

theorem bytesLe_refl : ∀ a : Bytes, bytesLe a a = true
  | [] => rfl
  | x :: xs => by simp [bytesLe, bytesLe_refl xs]

theorem bytesLe_total : ∀ a b : Bytes, bytesLe a b = true ∨ bytesLe b a = true
  | [], _ => .inl rfl
  | _ :: _, [] => .inr rfl
  | x :: xs, y :: ys => by
    simp only [bytesLe, Bool.or_eq_true, Bool.and_eq_true, decide_eq_true_eq, beq_iff_eq]
    rcases Nat.lt_trichotomy x.toNat y.toNat with h | h | h
    · exact .inl (.inl (UInt8.lt_iff_toNat_lt.mpr h))
    · have hxy : x = y := UInt8.toNat_inj.mp h
      subst hxy
      rcases bytesLe_total xs ys with h' | h'
      · exact .inl (.inr ⟨rfl, h'⟩)
      · exact .inr (.inr ⟨rfl, h'⟩)
    · exact .inr (.inl (UInt8.lt_iff_toNat_lt.mpr h))

theorem bytesLe_trans : ∀ a b c : Bytes, bytesLe a b = true → bytesLe b c = true → bytesLe a c = true
  | [], _, _, _, _ => rfl
  | _ :: _, [], _, h, _ => by simp [bytesLe] at h
  | _ :: _, _ :: _, [], _, h => by simp [bytesLe] at h
  | x :: xs, y :: ys, z :: zs, h₁, h₂ => by
    simp only [bytesLe, Bool.or_eq_true, Bool.and_eq_true, decide_eq_true_eq, beq_iff_eq] at h₁ h₂ ⊢
    rcases h₁ with h₁ | ⟨rfl, h₁⟩
    · rcases h₂ with h₂ | ⟨rfl, _⟩
      · exact .inl (UInt8.lt_trans h₁ h₂)
      · exact .inl h₁
    · rcases h₂ with h₂ | ⟨rfl, h₂⟩
      · exact .inl h₂
      · exact .inr ⟨rfl, bytesLe_trans xs ys zs h₁ h₂⟩

theorem bytesLe_antisymm : ∀ a b : Bytes, bytesLe a b = true → bytesLe b a = true → a = b
  | [], [], _, _ => rfl
  | [], _ :: _, _, h => by simp [bytesLe] at h
  | _ :: _, [], h, _ => by simp [bytesLe] at h
  | x :: xs, y :: ys, h₁, h₂ => by
    simp only [bytesLe, Bool.or_eq_true, Bool.and_eq_true, decide_eq_true_eq, beq_iff_eq] at h₁ h₂
    rcases h₁ with h₁ | ⟨rfl, h₁⟩
    · rcases h₂ with h₂ | ⟨rfl, _⟩
      · exact absurd (UInt8.lt_trans h₁ h₂) (UInt8.lt_irrefl _)
      · exact absurd h₁ (UInt8.lt_irrefl _)
    · rcases h₂ with h₂ | ⟨_, h₂⟩
      · exact absurd h₂ (UInt8.lt_irrefl _)
      · rw [bytesLe_antisymm xs ys h₁ h₂]

/-! ### insertion sort -/

/-- the order `sortKeys` sorts by -/
def sortLe (env : KeyEnv) (a b : Key) : Bool := bytesLe (env.sortKey a) (env.sortKey b)

theorem mem_insertByKey (env : KeyEnv) (k x : Key) : ∀ l, x ∈ insertByKey env k l ↔ x = k ∨ x ∈ l
  | [] => by simp [insertByKey]
  | y :: ys => by
    simp only [insertByKey]
    split
    · simp only [List.mem_cons, mem_insertByKey env k x ys]
      exact or_left_comm
    · simp only [List.mem_cons]

theorem insertByKey_perm (env : KeyEnv) (k : Key) : ∀ l, (insertByKey env k l).Perm (k :: l)
  | [] => by simp [insertByKey]
  | y :: ys => by
    simp only [insertByKey]
    split
    · exact ((insertByKey_perm env k ys).cons y).trans (List.Perm.swap k y ys)
    · exact List.Perm.refl _

theorem insertByKey_sorted (env : KeyEnv) (k : Key) :
    ∀ l, l.Pairwise (fun a b => sortLe env a b = true) →
      (insertByKey env k l).Pairwise (fun a b => sortLe env a b = true)
  | [], _ => by simp [insertByKey]
  | y :: ys, h => by
    have hy : ∀ z ∈ ys, sortLe env y z = true := (List.pairwise_cons.mp h).1
    have ht := (List.pairwise_cons.mp h).2
    simp only [insertByKey]
    split
    · rename_i hle
      refine List.pairwise_cons.mpr ⟨?_, insertByKey_sorted env k ys ht⟩
      intro z hz
      rcases (mem_insertByKey env k z ys).mp hz with rfl | hz
      · exact hle
      · exact hy z hz
    · rename_i hle
      have hk : sortLe env k y = true := by
        rcases bytesLe_total (env.sortKey y) (env.sortKey k) with h' | h'
        · exact absurd h' hle
        · exact h'
      refine List.pairwise_cons.mpr ⟨?_, h⟩
      intro z hz
      rcases List.mem_cons.mp hz with rfl | hz
      · exact hk
      · exact bytesLe_trans _ _ _ hk (hy z hz)

theorem foldl_insert_perm (env : KeyEnv) : ∀ (ks acc : List Key),
    (ks.foldl (fun acc k => insertByKey env k acc) acc).Perm (ks.reverse ++ acc)
  | [], acc => by simp
  | k :: ks, acc => by
    simp only [List.foldl_cons, List.reverse_cons, List.append_assoc, List.singleton_append]
    exact (foldl_insert_perm env ks _).trans
      (List.Perm.append_left _ (insertByKey_perm env k acc))

theorem foldl_insert_sorted (env : KeyEnv) : ∀ (ks acc : List Key),
    acc.Pairwise (fun a b => sortLe env a b = true) →
    (ks.foldl (fun acc k => insertByKey env k acc) acc).Pairwise (fun a b => sortLe env a b = true)
  | [], _, h => h
  | k :: ks, acc, h => foldl_insert_sorted env ks _ (insertByKey_sorted env k acc h)

/-- `sortKeys` returns a permutation of its input … -/
theorem sortKeys_perm (env : KeyEnv) (ks : List Key) : (sortKeys env ks).Perm ks := by
  have := foldl_insert_perm env ks []
  simp only [List.append_nil] at this
  exact this.trans (List.reverse_perm ks)

/-- … that is sorted by the BIP67 sort key -/
theorem sortKeys_sorted (env : KeyEnv) (ks : List Key) :
    (sortKeys env ks).Pairwise (fun a b => sortLe env a b = true) :=
  foldl_insert_sorted env ks [] List.Pairwise.nil

theorem sortKeys_length (env : KeyEnv) (ks : List Key) : (sortKeys env ks).length = ks.length :=
  (sortKeys_perm env ks).length_eq

/-- Uniqueness up to ties: if keys with equal sort keys have equal images under `f`, the image
of the sorted list does not depend on the order of the input. -/
theorem sortKeys_map_perm_invariant {β : Type} (env : KeyEnv) (f : Key → β) (ks ks' : List Key)
    (hp : ks.Perm ks')
    (htie : ∀ x ∈ ks, ∀ y ∈ ks, env.sortKey x = env.sortKey y → f x = f y) :
    (sortKeys env ks).map f = (sortKeys env ks').map f := by
  -- compare the lists of pairs (sort key, image): sorted by the first component, permutations
  -- of each other, and the order is antisymmetric on their elements
  let g : Key → Bytes × β := fun k => (env.sortKey k, f k)
  let le : Bytes × β → Bytes × β → Prop := fun p q => bytesLe p.1 q.1 = true
  have h1 : ((sortKeys env ks).map g).Pairwise le :=
    List.pairwise_map.mpr (sortKeys_sorted env ks)
  have h2 : ((sortKeys env ks').map g).Pairwise le :=
    List.pairwise_map.mpr (sortKeys_sorted env ks')
  have hperm : ((sortKeys env ks).map g).Perm ((sortKeys env ks').map g) :=
    (((sortKeys_perm env ks).trans hp).trans (sortKeys_perm env ks').symm).map g
  have hanti : ∀ a b, a ∈ (sortKeys env ks).map g → b ∈ (sortKeys env ks').map g →
      le a b → le b a → a = b := by
    intro a b ha hb hab hba
    obtain ⟨x, hx, rfl⟩ := List.mem_map.mp ha
    obtain ⟨y, hy, rfl⟩ := List.mem_map.mp hb
    have hx' : x ∈ ks := (sortKeys_perm env ks).subset hx
    have hy' : y ∈ ks := hp.symm.subset ((sortKeys_perm env ks').subset hy)
    have hk : env.sortKey x = env.sortKey y := bytesLe_antisymm _ _ hab hba
    simp only [g, hk, htie x hx' y hy' hk]
  have := List.Perm.eq_of_pairwise hanti h1 h2 hperm
  have h3 := congrArg (List.map Prod.snd) this
  simpa [List.map_map, g, Function.comp_def] using h3

/-- with pairwise distinct sort keys the sorted list itself is order-independent -/
theorem sortKeys_perm_invariant (env : KeyEnv) (ks ks' : List Key) (hp : ks.Perm ks')
    (hinj : ∀ x ∈ ks, ∀ y ∈ ks, env.sortKey x = env.sortKey y → x = y) :
    sortKeys env ks = sortKeys env ks' := by
  have := sortKeys_map_perm_invariant env id ks ks' hp hinj
  simpa using this

/-! ### key environments whose sort key determines the pushed serialisation -/

/-- Equal sort keys are pushed identically.  True of the real code: the ECDSA sort key
`(compressed encoding, !compressed)` determines the point and the form that is pushed, the
x-only sort key IS the pushed serialisation (`faithful_of_bip67`, `faithful_of_xonly`). -/
def SortKeyFaithful (env : KeyEnv) : Prop :=
  ∀ x y, env.sortKey x = env.sortKey y → env.ser x = env.ser y

/-- a key environment built like `Terminal::encode` + `bip67_sort_key` see keys: every key is a
curve point in compressed or uncompressed form; the compressed encoding identifies the point -/
theorem faithful_of_bip67 (env : KeyEnv) (point : Key → Nat) (compressed : Key → Bool)
    (serC serU : Nat → Bytes) (hinj : ∀ p q, serC p = serC q → p = q)
    (hser : ∀ k, env.ser k = if compressed k then serC (point k) else serU (point k))
    (hsort : ∀ k, env.sortKey k = Keys.bip67SortKey (serC (point k)) (compressed k)) :
    SortKeyFaithful env := by
  intro x y h
  rw [hsort x, hsort y] at h
  simp only [Keys.bip67SortKey] at h
  have h' := List.append_inj' h rfl
  have hp : point x = point y := hinj _ _ h'.1
  have hc : compressed x = compressed y := by
    have := h'.2
    cases hx : compressed x <;> cases hy : compressed y <;> simp [hx, hy] at this ⊢
  rw [hser x, hser y, hp, hc]

theorem faithful_of_xonly (env : KeyEnv) (hsort : ∀ k, env.sortKey k = env.ser k) :
    SortKeyFaithful env := by
  intro x y h
  rw [hsort x, hsort y] at h
  exact h

/-- the byte-string encoding of the Rust tuple `([u8; 33], bool)` has the tuple's order:
first components of equal length are compared first, the flag (`false < true`, i.e.
compressed first) only on a tie -/
theorem bip67SortKey_le_iff : ∀ (a b : Bytes) (ca cb : Bool), a.length = b.length →
    (bytesLe (Keys.bip67SortKey a ca) (Keys.bip67SortKey b cb) = true ↔
      (a ≠ b ∧ bytesLe a b = true) ∨ (a = b ∧ (ca = true ∨ cb = false)))
  | [], [], ca, cb, _ => by
    cases ca <;> cases cb <;> simp [Keys.bip67SortKey, bytesLe]
  | [], _ :: _, _, _, h => by simp at h
  | _ :: _, [], _, _, h => by simp at h
  | x :: xs, y :: ys, ca, cb, h => by
    have ih := bip67SortKey_le_iff xs ys ca cb (by simpa using h)
    simp only [Keys.bip67SortKey] at ih
    simp only [Keys.bip67SortKey, List.cons_append, bytesLe, Bool.or_eq_true, Bool.and_eq_true,
      decide_eq_true_eq, beq_iff_eq, ih, List.cons.injEq, ne_eq, not_and]
    by_cases hxy : x = y
    · subst hxy
      simp [UInt8.lt_irrefl]
    · simp [hxy]

/-- the satisfier's copy of the sort is the same function -/
theorem bytesLe'_eq : ∀ a b, bytesLe' a b = bytesLe a b
  | [], _ => rfl
  | _ :: _, [] => rfl
  | x :: xs, y :: ys => by simp [bytesLe', bytesLe, bytesLe'_eq xs ys]

theorem insertKey'_eq (env : KeyEnv) (k : Key) : ∀ l, insertKey' env k l = insertByKey env k l
  | [] => rfl
  | x :: xs => by simp [insertKey', insertByKey, bytesLe'_eq, insertKey'_eq env k xs]

theorem sortKeys'_eq (env : KeyEnv) (ks : List Key) : sortKeys' env ks = sortKeys env ks := by
  unfold sortKeys' sortKeys
  congr 1
  funext acc k
  exact insertKey'_eq env k acc

end MsVerif.Sorted

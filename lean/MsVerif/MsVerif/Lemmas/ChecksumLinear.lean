import MsVerif.Model.Checksum
namespace MsVerif.Checksum

def G (xn : W) : W :=
  sel (xn.getLsbD 0) GEN0 ^^^ sel (xn.getLsbD 1) GEN1 ^^^ sel (xn.getLsbD 2) GEN2
    ^^^ sel (xn.getLsbD 3) GEN3 ^^^ sel (xn.getLsbD 4) GEN4
def shiftPart (r : W) : W := (r &&& ~~~(0x1f#40 <<< 35)) <<< 5
def L (c : W) : W := shiftPart c ^^^ G (c >>> 35)

theorem mask_eq : ~~~(0x1f#40 <<< 35) = 0x7ffffffff#40 := by decide

theorem shiftPart_getLsbD (r : W) (i : Nat) :
    (shiftPart r).getLsbD i = (decide (5 ≤ i) && decide (i < 40) && r.getLsbD (i - 5)) := by
  unfold shiftPart
  rw [mask_eq]
  simp only [BitVec.getLsbD_shiftLeft, BitVec.getLsbD_and]
  by_cases h5 : i < 5
  · simp [h5]; omega
  · by_cases h40 : i < 40
    · have : (0x7ffffffff#40).getLsbD (i - 5) = true := by
        have : i - 5 < 35 := by omega
        generalize i - 5 = j at this
        revert j; decide
      simp [h5, h40, this]; omega
    · simp [h40]

theorem or_ofNat (r : W) (e : Nat) (he : e < 32) :
    shiftPart r ||| BitVec.ofNat 40 e = shiftPart r ^^^ BitVec.ofNat 40 e := by
  ext i hi
  simp only [BitVec.getElem_or, BitVec.getElem_xor]
  have h1 := shiftPart_getLsbD r i
  rw [BitVec.getLsbD_eq_getElem hi] at h1
  by_cases h5 : i < 5
  · have : (shiftPart r)[i] = false := by rw [h1]; simp; omega
    simp [this]
  · have : (BitVec.ofNat 40 e)[i] = false := by
      rw [← BitVec.getLsbD_eq_getElem, BitVec.getLsbD_ofNat]; simp only [hi, decide_true, Bool.true_and]
      apply Nat.testBit_lt_two_pow
      calc e < 32 := he
        _ = 2^5 := rfl
        _ ≤ 2^i := Nat.pow_le_pow_right (by decide) (by omega)
    simp [this]

theorem inputFe_eq (r : W) (e : Nat) (he : e < 32) :
    inputFe r e = L r ^^^ BitVec.ofNat 40 e := by
  have h := or_ofNat r e he
  unfold shiftPart at h
  unfold inputFe L G shiftPart
  simp only [h]
  ac_rfl

theorem sel_xor (a b : Bool) (g : W) : sel (a ^^ b) g = sel a g ^^^ sel b g := by
  cases a <;> cases b <;> simp [sel]

theorem G_xor (a b : W) : G (a ^^^ b) = G a ^^^ G b := by
  simp only [G, BitVec.getLsbD_xor, sel_xor]
  ac_rfl

theorem shiftPart_xor (a b : W) : shiftPart (a ^^^ b) = shiftPart a ^^^ shiftPart b := by
  unfold shiftPart
  rw [← BitVec.shiftLeft_xor_distrib]
  congr 1
  ext i; simp [Bool.and_xor_distrib_right]

theorem L_xor (a b : W) : L (a ^^^ b) = L a ^^^ L b := by
  simp only [L, G_xor, BitVec.ushiftRight_xor_distrib, shiftPart_xor]
  ac_rfl

theorem L_zero : L 0 = 0 := by decide

/-- the low symbol of the feedback word determines the top symbol -/
theorem G_low_inj : ∀ b0 b1 b2 b3 b4 : Bool,
    (sel b0 GEN0 ^^^ sel b1 GEN1 ^^^ sel b2 GEN2 ^^^ sel b3 GEN3 ^^^ sel b4 GEN4) &&& 31#40 = 0#40 →
    b0 = false ∧ b1 = false ∧ b2 = false ∧ b3 = false ∧ b4 = false := by decide

theorem L_eq_zero (a : W) (h : L a = 0) : a = 0 := by
  -- low 5 bits of `shiftPart a` vanish, hence those of `G (a >>> 35)`
  have hlow : G (a >>> 35) &&& 31#40 = 0#40 := by
    have : (L a) &&& 31#40 = 0#40 := by rw [h]; simp
    rw [L] at this
    have hs : shiftPart a &&& 31#40 = 0#40 := by
      ext i hi
      simp only [BitVec.getElem_and]
      have h1 := shiftPart_getLsbD a i
      rw [BitVec.getLsbD_eq_getElem hi] at h1
      by_cases h5 : i < 5
      · rw [h1]; simp; omega
      · have : (31#40)[i] = false := by
          have : 5 ≤ i := by omega
          clear h1
          rw [← BitVec.getLsbD_eq_getElem]
          have hh : ∀ j, j < 35 → (31#40).getLsbD (j + 5) = false := by decide
          have := hh (i - 5) (by omega)
          rwa [show i - 5 + 5 = i by omega] at this
        simp [this]
    have e : (shiftPart a ^^^ G (a >>> 35)) &&& 31#40 = (shiftPart a &&& 31#40) ^^^ (G (a >>> 35) &&& 31#40) := by
      ext i; simp [Bool.and_xor_distrib_right]
    rw [e, hs] at this
    simpa using this
  obtain ⟨t0, t1, t2, t3, t4⟩ := G_low_inj _ _ _ _ _ hlow
  have hG : G (a >>> 35) = 0 := by unfold G; rw [t0, t1, t2, t3, t4]; decide
  have hS : shiftPart a = 0 := by rw [L, hG] at h; simpa using h
  ext i hi
  have hz : (0 : W)[i] = false := by simp
  rw [hz]
  by_cases h35 : i < 35
  · have h1 := shiftPart_getLsbD a (i + 5)
    rw [hS] at h1
    simp at h1
    have := h1 (by omega)
    rw [← BitVec.getLsbD_eq_getElem]; exact this
  · -- bits 35..39 are the bits 0..4 of a >>> 35
    have hb : ∀ j, j < 5 → (a >>> 35).getLsbD j = false := by
      intro j hj
      have : j = 0 ∨ j = 1 ∨ j = 2 ∨ j = 3 ∨ j = 4 := by omega
      rcases this with rfl | rfl | rfl | rfl | rfl <;> assumption
    have := hb (i - 35) (by omega)
    rw [BitVec.getLsbD_ushiftRight] at this
    rw [← BitVec.getLsbD_eq_getElem]
    rwa [show 35 + (i - 35) = i by omega] at this

theorem L_inj (a b : W) (h : L a = L b) : a = b := by
  have : L (a ^^^ b) = 0 := by rw [L_xor, h]; simp
  have := L_eq_zero _ this
  exact BitVec.xor_eq_zero_iff.mp this

/-- below 2^35 the step is a pure shift -/
theorem L_small (a : W) (h : a.toNat < 2 ^ 35) : (L a).toNat = a.toNat * 32 := by
  have ht : a >>> 35 = 0 := by
    apply BitVec.eq_of_toNat_eq
    simp [BitVec.toNat_ushiftRight, Nat.shiftRight_eq_div_pow]
    omega
  have hs : shiftPart a = a <<< 5 := by
    unfold shiftPart; rw [mask_eq]
    congr 1
    apply BitVec.eq_of_toNat_eq
    rw [BitVec.toNat_and]
    have : (0x7ffffffff#40).toNat = 2 ^ 35 - 1 := by decide
    rw [this, Nat.and_two_pow_sub_one_eq_mod]
    exact Nat.mod_eq_of_lt h
  rw [L, ht, hs]
  have : G 0 = 0#40 := by decide
  rw [this, BitVec.xor_zero, BitVec.toNat_shiftLeft, Nat.shiftLeft_eq]
  have : a.toNat * 2 ^ 5 < 2 ^ 40 := by omega
  rw [Nat.mod_eq_of_lt this]

end MsVerif.Checksum

/-
C09 helper lemmas, part 4: the leaves with loops — `multi` (drop the most expensive signatures)
and `multi_a` (fill signatures from the back until `k` are found).
-/
import MsVerif.Lemmas.BoundsSat

namespace MsVerif.C09
open MsVerif ExtData

/-- what the caller can hand in stays within the sizes the library assumes: Schnorr signatures
of 64/65 bytes.  (Nothing is asked about keys revealed for raw `pk_h` hashes: see
`pkLen_le_rawKeySig`.) -/
structure AssetsOk (ke : KeyEnv) (ctx : Ctx) (a : Assets) : Prop where
  schnorr : ∀ k sz, a.schnorrSig k = some sz → sz ≤ 65
  rawSchnorr : ∀ h pk sz, a.rawPkhSchnorr h = some (pk, sz) → sz ≤ 65

/-- the key-size figure of a raw key hash: the largest key the context allows (the hash does not
    tell which encoding the revealed key has) -/
def rawUnc (ctx : Ctx) : Bool := ctx == .bare || ctx == .legacy

/-- ANY key revealed for a raw key hash fits that figure - no hypothesis on the caller's assets
    is needed (before the library fix the figure was the compressed size, and the hypothesis
    "the revealed key is compressed" was needed in Bare / Legacy) -/
theorem pkLen_le_rawKeySig (ke : KeyEnv) (ctx : Ctx) (pk : Key) :
    pkLen ke ctx pk ≤ (keySig ctx (rawUnc ctx)).1 := by
  cases ctx <;> simp [pkLen, keySig, rawUnc, Ctx.sigType] <;> split <;> omega

/-- one signature element -/
def IsSig (ctx : Ctx) (s : List Ph) : Prop :=
  ∃ p, s = [p] ∧ 1 ≤ p.size ∧ p.size ≤ (keySig ctx false).2 ∧ phSs p ≤ (keySig ctx false).2

theorem keySig_snd (ctx : Ctx) (u : Bool) : (keySig ctx u).2 = (keySig ctx false).2 := by
  cases ctx <;> cases u <;> rfl

theorem keySig_snd_le (ctx : Ctx) : (keySig ctx false).2 ≤ 73 := by cases ctx <;> decide
theorem keySig_snd_tap : (keySig .tap false).2 = 66 := rfl

theorem sigWit_stack {ke : KeyEnv} {ctx : Ctx} {a : Assets} (ha : AssetsOk ke ctx a) {k : Key}
    {s : List Ph} (h : sigWit ctx a k = .stack s) : IsSig ctx s := by
  unfold sigWit at h
  cases hc : ctx.sigType with
  | schnorr =>
    rw [hc] at h
    simp only at h
    cases hs : a.schnorrSig k with
    | none => rw [hs] at h; cases h
    | some sz =>
      rw [hs] at h
      cases h
      have := ha.schnorr k sz hs
      have hk : (keySig ctx false).2 = 66 := by simp [keySig, hc]
      exact ⟨_, rfl, by simp [Ph.size], by simp only [Ph.size, hk]; omega, by simp only [phSs, hk]; omega⟩
  | ecdsa =>
    rw [hc] at h
    simp only at h
    split at h
    · cases h
      have hk : (keySig ctx false).2 = 73 := by simp [keySig, hc]
      exact ⟨_, rfl, by simp [Ph.size], by simp [Ph.size, hk], by simp [phSs, hk]⟩
    · cases h

/-! ### `multi` -/

def tot (l : List (List Ph)) : Nat := (l.map List.length).sum

def stepMax (best : Nat × Nat) (p : List Ph × Nat) : Nat × Nat :=
  if p.1.length ≥ best.2 then (p.2, p.1.length) else best

theorem maxIdxLast_eq (l : List (List Ph)) : maxIdxLast l = (l.zipIdx.foldl stepMax (0, 0)).1 := rfl

theorem maxIdx_inv : ∀ (l pre : List (List Ph)) (best : Nat × Nat) (n : Nat), n = pre.length →
    (∀ x ∈ pre, x.length ≤ best.2) → (pre = [] → best.2 = 0) →
    (pre ≠ [] → (pre[best.1]?).map List.length = some best.2) →
    (∀ x ∈ pre ++ l, x.length ≤ ((l.zipIdx n).foldl stepMax best).2) ∧
    (pre ++ l ≠ [] →
      ((pre ++ l)[((l.zipIdx n).foldl stepMax best).1]?).map List.length
        = some ((l.zipIdx n).foldl stepMax best).2) := by
  intro l
  induction l with
  | nil =>
    intro pre best n _ h1 _ h3
    simp only [List.zipIdx_nil, List.foldl_nil, List.append_nil]
    exact ⟨h1, h3⟩
  | cons x xs ih =>
    intro pre best n hn h1 h2 h3
    simp only [List.zipIdx_cons, List.foldl_cons]
    have key := ih (pre ++ [x]) (stepMax best (x, n)) (n + 1) (by simp [hn]) ?_ (by simp) ?_
    · simpa [List.append_assoc] using key
    · intro y hy
      simp only [stepMax]
      rcases List.mem_append.1 hy with hy | hy
      · have := h1 y hy
        split <;> (try dsimp only) <;> omega
      · simp only [List.mem_singleton] at hy; subst hy
        split <;> (try dsimp only) <;> omega
    · intro _
      simp only [stepMax]
      by_cases hge : x.length ≥ best.2
      · simp only [hge, if_true, hn]
        simp
      · simp only [hge, if_false]
        have hne : pre ≠ [] := by
          intro hp; have := h2 hp; omega
        have h3' := h3 hne
        have hb : best.1 < pre.length := by
          cases hq : pre[best.1]? with
          | none => rw [hq] at h3'; simp at h3'
          | some v => exact (List.getElem?_eq_some_iff.1 hq).1
        rw [List.getElem?_append_left hb]; exact h3'

theorem tot_set_nil : ∀ (l : List (List Ph)) (i : Nat) (s : List Ph), l[i]? = some s →
    tot (l.set i []) + s.length = tot l := by
  intro l
  induction l with
  | nil => intro i s h; simp at h
  | cons x xs ih =>
    intro i s h
    cases i with
    | zero => simp at h; subst h; simp [tot]; omega
    | succ j =>
      have := ih j s (by simpa using h)
      simp only [tot, List.set_cons_succ, List.map_cons, List.sum_cons] at this ⊢
      omega

theorem tot_pos_exists : ∀ l : List (List Ph), 0 < tot l → ∃ x ∈ l, 0 < x.length := by
  intro l
  induction l with
  | nil => intro h; simp [tot] at h
  | cons x xs ih =>
    intro h
    by_cases hx : 0 < x.length
    · exact ⟨x, List.mem_cons_self .., hx⟩
    · have : 0 < tot xs := by simp only [tot, List.map_cons, List.sum_cons] at h ⊢; omega
      obtain ⟨y, hy, hy2⟩ := ih this
      exact ⟨y, List.mem_cons_of_mem _ hy, hy2⟩

theorem tot_drop_one (l : List (List Ph)) : tot (l.set (maxIdxLast l) []) ≤ tot l - 1 := by
  by_cases hpos : 0 < tot l
  · have hne : l ≠ [] := by intro h; subst h; simp [tot] at hpos
    obtain ⟨hmax, hidx⟩ := maxIdx_inv l [] (0, 0) 0 rfl (by simp) (by simp) (by simp)
    simp only [List.nil_append] at hmax hidx
    have hv := hidx hne
    obtain ⟨y, hy, hy2⟩ := tot_pos_exists l hpos
    have := hmax y hy
    rw [maxIdxLast_eq]
    cases hq : l[(l.zipIdx.foldl stepMax (0, 0)).1]? with
    | none => rw [hq] at hv; simp at hv
    | some s =>
      rw [hq] at hv; simp only [Option.map_some, Option.some.injEq] at hv
      have := tot_set_nil l _ s hq
      omega
  · have h0 : tot l = 0 := by omega
    cases hq : l[maxIdxLast l]? with
    | none =>
      have : l.length ≤ maxIdxLast l := by
        rcases Nat.lt_or_ge (maxIdxLast l) l.length with h | h
        · rw [List.getElem?_eq_getElem h] at hq; cases hq
        · exact h
      rw [List.set_eq_of_length_le this]; omega
    | some s => have := tot_set_nil l _ s hq; omega

theorem tot_dropMost : ∀ (j : Nat) (l : List (List Ph)), tot (dropMostExpensive j l) ≤ tot l - j := by
  intro j
  induction j with
  | zero => intro l; simp [dropMostExpensive]
  | succ j ih =>
    intro l
    simp only [dropMostExpensive]
    have := ih (l.set (maxIdxLast l) [])
    have := tot_drop_one l
    omega

theorem mem_dropMost : ∀ (j : Nat) (l : List (List Ph)) (s : List Ph),
    s ∈ dropMostExpensive j l → s = [] ∨ s ∈ l := by
  intro j
  induction j with
  | zero => intro l s h; exact .inr h
  | succ j ih =>
    intro l s h
    simp only [dropMostExpensive] at h
    rcases ih _ s h with h | h
    · exact .inl h
    · rcases List.mem_or_eq_of_mem_set h with h | h
      · exact .inr h
      · exact .inl h

theorem foldl_combine_stack : ∀ (l : List (List Ph)) (acc : List Ph),
    l.foldl (fun acc s => Wit.combine acc (.stack s)) (.stack acc) = .stack (acc ++ l.flatten) := by
  intro l
  induction l with
  | nil => intro acc; simp
  | cons x xs ih =>
    intro acc
    have h : Wit.combine (.stack acc) (.stack x) = .stack (acc ++ x) := rfl
    simp only [List.foldl_cons, h, ih, List.flatten_cons, List.append_assoc]

theorem flatten_length (l : List (List Ph)) : l.flatten.length = tot l := by
  induction l with
  | nil => rfl
  | cons x xs ih => simp only [List.flatten_cons, List.length_append, ih, tot, List.map_cons, List.sum_cons]

theorem bounded_sum (b : Nat) : ∀ w : List Ph, (∀ p ∈ w, p.size ≤ b ∧ phSs p ≤ b) →
    wsz w ≤ b * w.length ∧ wss w ≤ b * w.length := by
  intro w
  induction w with
  | nil => intro _; simp
  | cons p ps ih =>
    intro h
    obtain ⟨h1, h2⟩ := h p (List.mem_cons_self ..)
    obtain ⟨i1, i2⟩ := ih (fun q hq => h q (List.mem_cons_of_mem _ hq))
    simp only [wsz_cons, wss_cons, List.length_cons, Nat.mul_add, Nat.mul_one]
    omega

theorem multi_SB {ke : KeyEnv} {ctx : Ctx} {a : Assets} (ha : AssetsOk ke ctx a) (e : Bool)
    (k : Nat) (ks : List Key) (uncs : List Bool) :
    SB e (multiSD ctx a k ks).sat (ExtData.multi k uncs).satData
    ∧ SB e (multiSD ctx a k ks).dissat (ExtData.multi k uncs).dissatData := by
  constructor
  · intro w hw
    refine ⟨_, rfl, ?_⟩
    simp only [multiSD] at hw
    split at hw
    · simp [Sat.IMPOSSIBLE] at hw
    · rename_i hlen
      simp only [foldl_combine_stack] at hw
      cases hw
      -- the list of available signatures
      generalize hsg : (ks.filterMap fun pk => match sigWit ctx a pk with | .stack s => some s | _ => none) = sigs at hlen
      have hsigs : ∀ s ∈ sigs, IsSig ctx s := by
        intro s hs
        rw [← hsg] at hs
        obtain ⟨pk, _, hpk⟩ := List.mem_filterMap.1 hs
        cases hw : sigWit ctx a pk with
        | stack s' => rw [hw] at hpk; simp only [Option.some.injEq] at hpk; subst hpk; exact sigWit_stack ha hw
        | unavailable => rw [hw] at hpk; cases hpk
        | impossible => rw [hw] at hpk; cases hpk
      have htot : tot sigs ≤ sigs.length := by
        clear hsg hlen
        induction sigs with
        | nil => simp [tot]
        | cons s ss ih =>
          obtain ⟨p, hp, _⟩ := hsigs s (List.mem_cons_self ..)
          have := ih (fun t ht => hsigs t (List.mem_cons_of_mem _ ht))
          subst hp
          simp only [tot, List.map_cons, List.sum_cons, List.length_cons, List.length_nil] at this ⊢
          omega
      have hdrop := tot_dropMost (sigs.length - k) sigs
      have hk : tot (dropMostExpensive (sigs.length - k) sigs) ≤ k := by omega
      have hb := bounded_sum 73 (dropMostExpensive (sigs.length - k) sigs).flatten (by
        intro p hp
        obtain ⟨s, hs, hps⟩ := List.mem_flatten.1 hp
        rcases mem_dropMost _ _ _ hs with h | h
        · subst h; simp at hps
        · obtain ⟨q, hq, _, q2, q3⟩ := hsigs s h
          subst hq; simp only [List.mem_singleton] at hps; subst hps
          have := keySig_snd_le ctx
          exact ⟨by omega, by omega⟩)
      rw [flatten_length] at hb
      refine ⟨?_, ?_, ?_⟩
      · simp only [List.length_append, List.length_singleton, flatten_length, ExtData.multi]; omega
      · simp only [wsz_append, wsz_cons, wsz_nil, Ph.size, ExtData.multi]; omega
      · intro _; simp only [wss_append, wss_cons, wss_nil, phSs, ExtData.multi]; omega
  · intro w hw
    refine ⟨_, rfl, ?_⟩
    have : (multiSD ctx a k ks).dissat.stack = .stack (List.replicate (k + 1) .pushZero) := by
      simp only [multiSD]; split <;> rfl
    rw [this] at hw; cases hw
    have h1 : ∀ n : Nat, wsz (List.replicate n Ph.pushZero) = n := by
      intro n; induction n with
      | zero => rfl
      | succ n ih => simp [List.replicate_succ, Ph.size, ih]; omega
    have h2 : ∀ n : Nat, wss (List.replicate n Ph.pushZero) = n := by
      intro n; induction n with
      | zero => rfl
      | succ n ih => simp [List.replicate_succ, phSs, ih]; omega
    refine ⟨by simp [ExtData.multi], by simp [ExtData.multi, h1]; omega, fun _ => by simp [ExtData.multi, h2]; omega⟩

/-! ### `multi_a` -/

def wtot (l : List (List Ph)) : Nat := (l.map wsz).sum

theorem wsz_flatten (l : List (List Ph)) : wsz l.flatten = wtot l := by
  induction l with
  | nil => rfl
  | cons x xs ih => simp only [List.flatten_cons, wsz_append, ih, wtot, List.map_cons, List.sum_cons]

theorem wtot_set_le : ∀ (l : List (List Ph)) (i : Nat) (s : List Ph), (∀ x ∈ l, 1 ≤ wsz x) →
    1 ≤ wsz s → wtot (l.set i s) + 1 ≤ wtot l + wsz s := by
  intro l
  induction l with
  | nil => intro i s _ hs; simp [wtot]; omega
  | cons x xs ih =>
    intro i s hl hs
    cases i with
    | zero =>
      have := hl x (List.mem_cons_self ..)
      simp only [wtot, List.set_cons_zero, List.map_cons, List.sum_cons]; omega
    | succ j =>
      have := ih j s (fun y hy => hl y (List.mem_cons_of_mem _ hy)) hs
      simp only [wtot, List.set_cons_succ, List.map_cons, List.sum_cons] at this ⊢; omega

def InvA (n cnt : Nat) (sigs : List (List Ph)) : Prop :=
  sigs.length = n ∧ (∀ s ∈ sigs, s.length = 1 ∧ 1 ≤ wsz s) ∧ wtot sigs ≤ n + 65 * cnt

theorem multiALoop_inv {ke : KeyEnv} {a : Assets} (ha : AssetsOk ke .tap a) (k n : Nat) :
    ∀ (keys : List Key) (i cnt : Nat) (sigs : List (List Ph)), cnt < k → InvA n cnt sigs →
    (multiALoop .tap a k keys i cnt sigs).1 ≤ k
      ∧ InvA n (multiALoop .tap a k keys i cnt sigs).1 (multiALoop .tap a k keys i cnt sigs).2 := by
  intro keys
  induction keys with
  | nil => intro i cnt sigs hc hinv; simp only [multiALoop]; exact ⟨by omega, hinv⟩
  | cons pk rest ih =>
    intro i cnt sigs hc hinv
    simp only [multiALoop]
    cases hw : sigWit .tap a pk with
    | stack s =>
      simp only
      obtain ⟨p, hp, p1, p2, _⟩ := sigWit_stack ha hw
      rw [keySig_snd_tap] at p2
      have hs1 : wsz s = p.size := by subst hp; simp
      obtain ⟨l1, l2, l3⟩ := hinv
      have hinv' : InvA n (cnt + 1) (sigs.set i s) := by
        refine ⟨by simp [l1], ?_, ?_⟩
        · intro t ht
          rcases List.mem_or_eq_of_mem_set ht with h | h
          · exact l2 t h
          · subst h; subst hp; exact ⟨rfl, by simp; omega⟩
        · have := wtot_set_le sigs i s (fun x hx => (l2 x hx).2) (by omega)
          omega
      split
      · exact ⟨by omega, hinv'⟩
      · exact ih _ _ _ (by omega) hinv'
    | unavailable => simp only; exact ih _ _ _ hc hinv
    | impossible => simp only; exact ih _ _ _ hc hinv

theorem tot_eq_length_of_singletons : ∀ l : List (List Ph), (∀ s ∈ l, s.length = 1) → tot l = l.length := by
  intro l
  induction l with
  | nil => intro _; rfl
  | cons x xs ih =>
    intro h
    have := ih (fun s hs => h s (List.mem_cons_of_mem _ hs))
    have := h x (List.mem_cons_self ..)
    simp only [tot, List.map_cons, List.sum_cons, List.length_cons] at *; omega

theorem wsz_replicate_zero (n : Nat) : wsz (List.replicate n Ph.pushZero) = n := by
  induction n with
  | zero => rfl
  | succ n ih => simp [List.replicate_succ, Ph.size, ih]; omega

theorem multiA_SB {ke : KeyEnv} {a : Assets} (ha : AssetsOk ke .tap a) (k : Nat) (hk : 1 ≤ k)
    (ks : List Key) :
    SB false (multiASD .tap a k ks).sat (ExtData.multiA k ks.length).satData
    ∧ SB false (multiASD .tap a k ks).dissat (ExtData.multiA k ks.length).dissatData := by
  have hinit : InvA ks.length 0 (List.replicate ks.length [Ph.pushZero]) := by
    refine ⟨by simp, ?_, ?_⟩
    · intro s hs; rw [List.eq_of_mem_replicate hs]; exact ⟨rfl, by simp [Ph.size]⟩
    · have : ∀ n : Nat, wtot (List.replicate n [Ph.pushZero]) = n := by
        intro n; induction n with
        | zero => rfl
        | succ n ih => simp only [wtot] at ih; simp [wtot, List.replicate_succ, Ph.size, ih]; omega
      rw [this]; omega
  obtain ⟨i1, i2, i3, i4⟩ := multiALoop_inv ha k ks.length ks.reverse 0 0 _ (by omega) hinit
  constructor
  · intro w hw
    refine ⟨_, rfl, ?_⟩
    simp only [multiASD] at hw
    generalize hr : multiALoop Ctx.tap a k ks.reverse 0 0 (List.replicate ks.length [Ph.pushZero]) = r at hw i1 i2 i3 i4
    obtain ⟨cnt, sigs⟩ := r
    simp only at hw i1 i2 i3 i4
    split at hw
    · simp [Sat.IMPOSSIBLE] at hw
    · simp only [foldl_combine_stack] at hw
      cases hw
      have h1 := tot_eq_length_of_singletons sigs (fun s hs => (i3 s hs).1)
      refine ⟨?_, ?_, fun h => by cases h⟩
      · simp only [List.nil_append, flatten_length, h1, i2, ExtData.multiA]; omega
      · simp only [List.nil_append, wsz_flatten, ExtData.multiA]
        have : 65 * cnt ≤ 65 * k := Nat.mul_le_mul_left 65 i1
        omega
  · intro w hw
    refine ⟨_, rfl, ?_⟩
    have : (multiASD .tap a k ks).dissat.stack = .stack (List.replicate ks.length .pushZero) := by
      simp only [multiASD]; split <;> rfl
    rw [this] at hw; cases hw
    exact ⟨by simp [ExtData.multiA], by simp [ExtData.multiA, wsz_replicate_zero], fun h => by cases h⟩

end MsVerif.C09

/-
The decoder normal form (`norm`, `desugar` in Model/Tokens.lean) keeps the token list, hence
the script bytes: re-association / floating of `and_v`, `pk_h` ↦ `expr_raw_pkh`,
`sortedmulti(_a)` ↦ `multi(_a)` with sorted keys.
-/
import MsVerif.Model.Tokens

namespace MsVerif
namespace TokL

variable (env : KeyEnv) (ctx : Ctx)

theorem tokens_foldl_andV (rs : List Ms) : ∀ a : Ms,
    tokens env ctx (rs.foldl Ms.andV a) = tokens env ctx a ++ rs.flatMap (tokens env ctx) := by
  induction rs with
  | nil => intro a; simp
  | cons r rs ih => intro a; simp [ih, tokens]

theorem tokens_mkAndV (ps : List Ms) (l : Ms) :
    tokens env ctx (mkAndV ps l) = ps.flatMap (tokens env ctx) ++ tokens env ctx l := by
  cases ps with
  | nil => simp [mkAndV]
  | cons p ps => simp [mkAndV, tokens_foldl_andV, tokens]

mutual
theorem tokens_normSeq : (ms : Ms) →
    (normSeq ms).1.flatMap (tokens env ctx) ++ tokens env ctx (normSeq ms).2 = tokens env ctx ms
  | .andV l r => by
    have hl := tokens_normSeq l
    have hr := tokens_normSeq r
    simp only [normSeq, tokens, List.flatMap_append, List.flatMap_cons, List.flatMap_nil,
      List.append_nil, List.append_assoc]
    rw [← hl, ← hr]; simp
  | .check x => by
    have h := tokens_normSeq x
    simp only [normSeq, tokens]; rw [← h]; simp
  | .verify x => by
    have h := tokens_normSeq x
    simp only [normSeq, tokens]; rw [← h]; simp
  | .zeroNotEqual x => by
    have h := tokens_normSeq x
    simp only [normSeq, tokens]; rw [← h]; simp
  | .andB l r => by
    have hl := tokens_normSeq l
    have hr := tokens_normSeq r
    simp only [normSeq, tokens, tokens_mkAndV]; rw [hr, ← hl]; simp
  | .orB l r => by
    have hl := tokens_normSeq l
    have hr := tokens_normSeq r
    simp only [normSeq, tokens, tokens_mkAndV]; rw [hr, ← hl]; simp
  | .orD l r => by
    have hl := tokens_normSeq l
    have hr := tokens_normSeq r
    simp only [normSeq, tokens, tokens_mkAndV]; rw [hr, ← hl]; simp
  | .orC l r => by
    have hl := tokens_normSeq l
    have hr := tokens_normSeq r
    simp only [normSeq, tokens, tokens_mkAndV]; rw [hr, ← hl]; simp
  | .andOr a b c => by
    have ha := tokens_normSeq a
    have hb := tokens_normSeq b
    have hc := tokens_normSeq c
    simp only [normSeq, tokens, tokens_mkAndV]; rw [hb, hc, ← ha]; simp
  | .thresh k .nil => by simp [normSeq]
  | .thresh k (.cons x xs) => by
    have hx := tokens_normSeq x
    have hxs := tokens_normList false xs
    simp only [normSeq, tokens, threshTokens, hxs]; rw [← hx]; simp
  | .alt x => by
    have h := tokens_normSeq x
    simp only [normSeq, tokens, tokens_mkAndV, h]; simp
  | .swap x => by
    have h := tokens_normSeq x
    simp only [normSeq, tokens, tokens_mkAndV, h]; simp
  | .dupIf x => by
    have h := tokens_normSeq x
    simp only [normSeq, tokens, tokens_mkAndV, h]; simp
  | .nonZero x => by
    have h := tokens_normSeq x
    simp only [normSeq, tokens, tokens_mkAndV, h]; simp
  | .orI l r => by
    have hl := tokens_normSeq l
    have hr := tokens_normSeq r
    simp only [normSeq, tokens, tokens_mkAndV, hl, hr]; simp
  | .tru | .fls | .pkK _ | .pkH _ | .rawPkH _ | .after _ | .older _ | .hash _ _
  | .multi _ _ | .sortedMulti _ _ | .multiA _ _ | .sortedMultiA _ _ => by simp [normSeq]
theorem tokens_normList (first : Bool) : (xs : MsList) →
    threshTokens env ctx first (normList xs) = threshTokens env ctx first xs
  | .nil => by simp [normList]
  | .cons x xs => by
    have hx := tokens_normSeq x
    have hxs := tokens_normList false xs
    simp only [normList, threshTokens, tokens_mkAndV, hx, hxs]
end

/-- `norm` keeps the token list -/
theorem tokens_norm (ms : Ms) : tokens env ctx (norm ms) = tokens env ctx ms := by
  simp only [norm, tokens_mkAndV]; exact tokens_normSeq env ctx ms

mutual
theorem tokens_desugar (rp : Key → Nat) (h : ∀ k, env.rawPkh (rp k) = env.pkh k) : (ms : Ms) →
    tokens env ctx (desugar env rp ms) = tokens env ctx ms
  | .pkH k => by simp [desugar, tokens, h]
  | .sortedMulti k ks => by
    have : (sortKeys env ks).length = ks.length := by
      unfold sortKeys
      suffices ∀ acc : List Key, (ks.foldl (fun acc k => insertByKey env k acc) acc).length = acc.length + ks.length by
        simpa using this []
      induction ks with
      | nil => intro acc; simp
      | cons k ks ih =>
        intro acc
        simp only [List.foldl_cons, ih, List.length_cons]
        have : ∀ l : List Key, (insertByKey env k l).length = l.length + 1 := by
          intro l
          induction l with
          | nil => simp [insertByKey]
          | cons y l ih2 => simp only [insertByKey]; split <;> simp [ih2]
        rw [this]; omega
    simp [desugar, tokens, this]
  | .sortedMultiA k ks => by simp [desugar, tokens]
  | .alt x => by simp [desugar, tokens, tokens_desugar rp h x]
  | .swap x => by simp [desugar, tokens, tokens_desugar rp h x]
  | .check x => by simp [desugar, tokens, tokens_desugar rp h x]
  | .dupIf x => by simp [desugar, tokens, tokens_desugar rp h x]
  | .verify x => by simp [desugar, tokens, tokens_desugar rp h x]
  | .nonZero x => by simp [desugar, tokens, tokens_desugar rp h x]
  | .zeroNotEqual x => by simp [desugar, tokens, tokens_desugar rp h x]
  | .andV l r => by simp [desugar, tokens, tokens_desugar rp h l, tokens_desugar rp h r]
  | .andB l r => by simp [desugar, tokens, tokens_desugar rp h l, tokens_desugar rp h r]
  | .orB l r => by simp [desugar, tokens, tokens_desugar rp h l, tokens_desugar rp h r]
  | .orD l r => by simp [desugar, tokens, tokens_desugar rp h l, tokens_desugar rp h r]
  | .orC l r => by simp [desugar, tokens, tokens_desugar rp h l, tokens_desugar rp h r]
  | .orI l r => by simp [desugar, tokens, tokens_desugar rp h l, tokens_desugar rp h r]
  | .andOr a b c => by
    simp [desugar, tokens, tokens_desugar rp h a, tokens_desugar rp h b, tokens_desugar rp h c]
  | .thresh k xs => by simp [desugar, tokens, tokens_desugarList rp h true xs]
  | .tru | .fls | .pkK _ | .rawPkH _ | .after _ | .older _ | .hash _ _ | .multi _ _ | .multiA _ _ => by
    simp [desugar]
theorem tokens_desugarList (rp : Key → Nat) (h : ∀ k, env.rawPkh (rp k) = env.pkh k) (first : Bool) :
    (xs : MsList) → threshTokens env ctx first (desugarList env rp xs) = threshTokens env ctx first xs
  | .nil => by simp [desugarList]
  | .cons x xs => by
    simp [desugarList, threshTokens, tokens_desugar rp h x, tokens_desugarList rp h false xs]
end

/-! ### renaming keys (`to_x_only_pubkey` on a Taproot miniscript over full keys) -/

/-- the key environment seen through a renaming `f` -/
def envRe (env : KeyEnv) (f : Key → Key) : KeyEnv where
  ser k := env.ser (f k)
  sortKey k := env.sortKey (f k)
  pkh k := env.pkh (f k)
  rawPkh := env.rawPkh
  hashVal := env.hashVal

theorem insertByKey_map (f : Key → Key) (k : Key) (l : List Key) :
    insertByKey env (f k) (l.map f) = (insertByKey (envRe env f) k l).map f := by
  induction l with
  | nil => rfl
  | cons x l ih =>
    have hs : (envRe env f).sortKey x = env.sortKey (f x) := rfl
    have hk : (envRe env f).sortKey k = env.sortKey (f k) := rfl
    simp only [List.map_cons, insertByKey, hs, hk]
    by_cases hb : bytesLe (env.sortKey (f x)) (env.sortKey (f k)) = true
    · simp only [hb, if_true, List.map_cons, ih]
    · simp only [hb, if_false, List.map_cons, Bool.false_eq_true]

theorem sortKeys_map (f : Key → Key) (ks : List Key) :
    sortKeys env (ks.map f) = (sortKeys (envRe env f) ks).map f := by
  unfold sortKeys
  suffices ∀ acc : List Key, (ks.map f).foldl (fun acc k => insertByKey env k acc) (acc.map f)
      = (ks.foldl (fun acc k => insertByKey (envRe env f) k acc) acc).map f by simpa using this []
  induction ks with
  | nil => intro acc; rfl
  | cons k ks ih =>
    intro acc
    simp only [List.map_cons, List.foldl_cons, insertByKey_map]
    exact ih _

theorem encodeMultiA_map (f : Key → Key) (ks : List Key) :
    encodeMultiA env (ks.map f) = encodeMultiA (envRe env f) ks := by
  cases ks with
  | nil => rfl
  | cons k ks => simp [encodeMultiA, envRe, List.flatMap_map]

mutual
/-- encoding the renamed miniscript = encoding the original with every key serialised through
the renaming: a Taproot miniscript over full keys encodes to the script of its x-only translation -/
theorem encode_reKey (f : Key → Key) : (ms : Ms) →
    encode env ctx (reKey f ms) = encode (envRe env f) ctx ms
  | .pkK k => by simp [reKey, encode, envRe]
  | .pkH k => by simp [reKey, encode, envRe]
  | .multi k ks => by simp [reKey, encode, envRe, List.map_map, Function.comp_def]
  | .sortedMulti k ks => by
    simp only [reKey, encode, sortKeys_map, List.map_map, List.length_map]
    simp [envRe, Function.comp_def]
  | .multiA k ks => by simp [reKey, encode, encodeMultiA_map]
  | .sortedMultiA k ks => by simp [reKey, encode, sortKeys_map, encodeMultiA_map]
  | .alt x => by simp [reKey, encode, encode_reKey f x]
  | .swap x => by simp [reKey, encode, encode_reKey f x]
  | .check x => by simp [reKey, encode, encode_reKey f x]
  | .dupIf x => by simp [reKey, encode, encode_reKey f x]
  | .verify x => by simp [reKey, encode, encode_reKey f x]
  | .nonZero x => by simp [reKey, encode, encode_reKey f x]
  | .zeroNotEqual x => by simp [reKey, encode, encode_reKey f x]
  | .andV l r => by simp [reKey, encode, encode_reKey f l, encode_reKey f r]
  | .andB l r => by simp [reKey, encode, encode_reKey f l, encode_reKey f r]
  | .orB l r => by simp [reKey, encode, encode_reKey f l, encode_reKey f r]
  | .orD l r => by simp [reKey, encode, encode_reKey f l, encode_reKey f r]
  | .orC l r => by simp [reKey, encode, encode_reKey f l, encode_reKey f r]
  | .orI l r => by simp [reKey, encode, encode_reKey f l, encode_reKey f r]
  | .andOr a b c => by simp [reKey, encode, encode_reKey f a, encode_reKey f b, encode_reKey f c]
  | .thresh k xs => by simp [reKey, encode, encodeThresh_reKey f true xs]
  | .tru | .fls | .rawPkH _ | .after _ | .older _ | .hash _ _ => by simp [reKey, encode, envRe]
theorem encodeThresh_reKey (f : Key → Key) (first : Bool) : (xs : MsList) →
    encodeThresh env ctx first (reKeyList f xs) = encodeThresh (envRe env f) ctx first xs
  | .nil => by simp [reKeyList, encodeThresh]
  | .cons x xs => by simp [reKeyList, encodeThresh, encode_reKey f x, encodeThresh_reKey f false xs]
end

end TokL
end MsVerif

/-
The decoder normal form (`norm`, `desugar` in Model/Tokens.lean) keeps the token list, hence
the script bytes: re-association / floating of `and_v`, `pk_h` ↦ `expr_raw_pkh`,
`sortedmulti(_a)` ↦ `multi(_a)` with sorted keys.
-/
import MsVerif.Model.Tokens

namespace MsVerif
namespace TokL

variable (env : KeyEnv) (ctx : Ctx)

theorem tokens_foldl_andV (rs : List Ms) : ∀ a : Ms,
    tokens env ctx (rs.foldl Ms.andV a) = tokens env ctx a ++ rs.flatMap (tokens env ctx) := by
  induction rs with
  | nil => intro a; simp
  | cons r rs ih => intro a; simp [ih, tokens]

theorem tokens_mkAndV (ps : List Ms) (l : Ms) :
    tokens env ctx (mkAndV ps l) = ps.flatMap (tokens env ctx) ++ tokens env ctx l := by
  cases ps with
  | nil => simp [mkAndV]
  | cons p ps => simp [mkAndV, tokens_foldl_andV, tokens]

mutual
theorem tokens_normSeq : (ms : Ms) →
    (normSeq ms).1.flatMap (tokens env ctx) ++ tokens env ctx (normSeq ms).2 = tokens env ctx ms
  | .andV l r => by
    have hl := tokens_normSeq l
    have hr := tokens_normSeq r
    simp only [normSeq, tokens, List.flatMap_append, List.flatMap_cons, List.flatMap_nil,
      List.append_nil, List.append_assoc]
    rw [← hl, ← hr]; simp
  | .check x => by
    have h := tokens_normSeq x
    simp only [normSeq, tokens]; rw [← h]; simp
  | .verify x => by
    have h := tokens_normSeq x
    simp only [normSeq, tokens]; rw [← h]; simp
  | .zeroNotEqual x => by
    have h := tokens_normSeq x
    simp only [normSeq, tokens]; rw [← h]; simp
  | .andB l r => by
    have hl := tokens_normSeq l
    have hr := tokens_normSeq r
    simp only [normSeq, tokens, tokens_mkAndV]; rw [hr, ← hl]; simp
  | .orB l r => by
    have hl := tokens_normSeq l
    have hr := tokens_normSeq r
    simp only [normSeq, tokens, tokens_mkAndV]; rw [hr, ← hl]; simp
  | .orD l r => by
    have hl := tokens_normSeq l
    have hr := tokens_normSeq r
    simp only [normSeq, tokens, tokens_mkAndV]; rw [hr, ← hl]; simp
  | .orC l r => by
    have hl := tokens_normSeq l
    have hr := tokens_normSeq r
    simp only [normSeq, tokens, tokens_mkAndV]; rw [hr, ← hl]; simp
  | .andOr a b c => by
    have ha := tokens_normSeq a
    have hb := tokens_normSeq b
    have hc := tokens_normSeq c
    simp only [normSeq, tokens, tokens_mkAndV]; rw [hb, hc, ← ha]; simp
  | .thresh k .nil => by simp [normSeq]
  | .thresh k (.cons x xs) => by
    have hx := tokens_normSeq x
    have hxs := tokens_normList false xs
    simp only [normSeq, tokens, threshTokens, hxs]; rw [← hx]; simp
  | .alt x => by
    have h := tokens_normSeq x
    simp only [normSeq, tokens, tokens_mkAndV, h]; simp
  | .swap x => by
    have h := tokens_normSeq x
    simp only [normSeq, tokens, tokens_mkAndV, h]; simp
  | .dupIf x => by
    have h := tokens_normSeq x
    simp only [normSeq, tokens, tokens_mkAndV, h]; simp
  | .nonZero x => by
    have h := tokens_normSeq x
    simp only [normSeq, tokens, tokens_mkAndV, h]; simp
  | .orI l r => by
    have hl := tokens_normSeq l
    have hr := tokens_normSeq r
    simp only [normSeq, tokens, tokens_mkAndV, hl, hr]; simp
  | .tru | .fls | .pkK _ | .pkH _ | .rawPkH _ | .after _ | .older _ | .hash _ _
  | .multi _ _ | .sortedMulti _ _ | .multiA _ _ | .sortedMultiA _ _ => by simp [normSeq]
theorem tokens_normList (first : Bool) : (xs : MsList) →
    threshTokens env ctx first (normList xs) = threshTokens env ctx first xs
  | .nil => by simp [normList]
  | .cons x xs => by
    have hx := tokens_normSeq x
    have hxs := tokens_normList false xs
    simp only [normList, threshTokens, tokens_mkAndV, hx, hxs]
end

/-- `norm` keeps the token list -/
theorem tokens_norm (ms : Ms) : tokens env ctx (norm ms) = tokens env ctx ms := by
  simp only [norm, tokens_mkAndV]; exact tokens_normSeq env ctx ms

mutual
theorem tokens_desugar (rp : Key → Nat) (h : ∀ k, env.rawPkh (rp k) = env.pkh k) : (ms : Ms) →
    tokens env ctx (desugar env rp ms) = tokens env ctx ms
  | .pkH k => by simp [desugar, tokens, h]
  | .sortedMulti k ks => by
    have : (sortKeys env ks).length = ks.length := by
      unfold sortKeys
      suffices ∀ acc : List Key, (ks.foldl (fun acc k => insertByKey env k acc) acc).length = acc.length + ks.length by
        simpa using this []
      induction ks with
      | nil => intro acc; simp
      | cons k ks ih =>
        intro acc
        simp only [List.foldl_cons, ih, List.length_cons]
        have : ∀ l : List Key, (insertByKey env k l).length = l.length + 1 := by
          intro l
          induction l with
          | nil => simp [insertByKey]
          | cons y l ih2 => simp only [insertByKey]; split <;> simp [ih2]
        rw [this]; omega
    simp [desugar, tokens, this]
  | .sortedMultiA k ks => by simp [desugar, tokens]
  | .alt x => by simp [desugar, tokens, tokens_desugar rp h x]
  | .swap x => by simp [desugar, tokens, tokens_desugar rp h x]
  | .check x => by simp [desugar, tokens, tokens_desugar rp h x]
  | .dupIf x => by simp [desugar, tokens, tokens_desugar rp h x]
  | .verify x => by simp [desugar, tokens, tokens_desugar rp h x]
  | .nonZero x => by simp [desugar, tokens, tokens_desugar rp h x]
  | .zeroNotEqual x => by simp [desugar, tokens, tokens_desugar rp h x]
  | .andV l r => by simp [desugar, tokens, tokens_desugar rp h l, tokens_desugar rp h r]
  | .andB l r => by simp [desugar, tokens, tokens_desugar rp h l, tokens_desugar rp h r]
  | .orB l r => by simp [desugar, tokens, tokens_desugar rp h l, tokens_desugar rp h r]
  | .orD l r => by simp [desugar, tokens, tokens_desugar rp h l, tokens_desugar rp h r]
  | .orC l r => by simp [desugar, tokens, tokens_desugar rp h l, tokens_desugar rp h r]
  | .orI l r => by simp [desugar, tokens, tokens_desugar rp h l, tokens_desugar rp h r]
  | .andOr a b c => by
    simp [desugar, tokens, tokens_desugar rp h a, tokens_desugar rp h b, tokens_desugar rp h c]
  | .thresh k xs => by simp [desugar, tokens, tokens_desugarList rp h true xs]
  | .tru | .fls | .pkK _ | .rawPkH _ | .after _ | .older _ | .hash _ _ | .multi _ _ | .multiA _ _ => by
    simp [desugar]
theorem tokens_desugarList (rp : Key → Nat) (h : ∀ k, env.rawPkh (rp k) = env.pkh k) (first : Bool) :
    (xs : MsList) → threshTokens env ctx first (desugarList env rp xs) = threshTokens env ctx first xs
  | .nil => by simp [desugarList]
  | .cons x xs => by
    simp [desugarList, threshTokens, tokens_desugar rp h x, tokens_desugarList rp h false xs]
end

end TokL
end MsVerif

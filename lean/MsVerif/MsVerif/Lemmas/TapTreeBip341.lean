/-
Helper lemmas for C15: the byte-level BIP341 hash algebra (`Spec/Bip341.lean`) has a
commutative branch hash (it sorts the children), so every abstract theorem with the `H.Comm`
hypothesis applies to real tagged SHA-256 hashes; and the one-pass (root, sibling paths)
function used by the driver's judge is the specification's `root` / `siblingPaths`.
-/
import MsVerif.Spec.Bip341
import MsVerif.Lemmas.TapTreeSpec

set_option linter.unusedSimpArgs false

namespace MsVerif.Bip341
open MsVerif.Hash MsVerif.Spec MsVerif.Spec.Tree

theorem bytesLt_asymm : ∀ (a b : Bytes), bytesLt a b = true → bytesLt b a = false := by
  intro a
  induction a with
  | nil => intro b h; cases b <;> simp_all [bytesLt]
  | cons x xs ih =>
    intro b h
    cases b with
    | nil => simp [bytesLt] at h
    | cons y ys =>
      simp only [bytesLt] at h ⊢
      by_cases c1 : x < y
      · have c2 : ¬ y < x := by
          rw [UInt8.lt_iff_toNat_lt] at c1 ⊢; omega
        simp [c1, c2]
      · by_cases c2 : y < x
        · simp [c1, c2] at h
        · simp only [c1, c2, if_false] at h ⊢
          exact ih ys h

theorem bytesLt_connected : ∀ (a b : Bytes), bytesLt a b = false → bytesLt b a = false → a = b := by
  intro a
  induction a with
  | nil => intro b h1 h2; cases b <;> simp_all [bytesLt]
  | cons x xs ih =>
    intro b h1 h2
    cases b with
    | nil => simp [bytesLt] at h2
    | cons y ys =>
      simp only [bytesLt] at h1 h2
      by_cases c1 : x < y
      · simp [c1] at h1
      · by_cases c2 : y < x
        · simp [c2] at h2
        · simp only [c1, c2, if_false] at h1 h2
          have : x = y := by
            rw [UInt8.lt_iff_toNat_lt] at c1 c2
            exact UInt8.toNat_inj.mp (by omega)
          rw [this, ih ys h1 h2]

/-- TapBranch sorts its arguments: the branch hash is commutative -/
theorem tapBranchHash_comm (a b : Bytes) : tapBranchHash a b = tapBranchHash b a := by
  simp only [tapBranchHash]
  cases h1 : bytesLt b a with
  | true => simp [bytesLt_asymm b a h1]
  | false =>
    cases h2 : bytesLt a b with
    | true => simp
    | false => simp [bytesLt_connected a b h2 h1]

theorem alg_comm : alg.Comm := fun a b => tapBranchHash_comm a b

end MsVerif.Bip341

namespace MsVerif.Spec.Tree
variable {α ν : Type}

/-- root and sibling paths in one pass (each subtree hashed once) -/
def rootAndPaths (H : HashAlg α ν) : Tree α → ν × List (α × List ν)
  | leaf s => (H.leafHash s, [(s, [])])
  | node l r =>
    let a := rootAndPaths H l
    let b := rootAndPaths H r
    (H.branch a.1 b.1,
     a.2.map (fun p => (p.1, p.2 ++ [b.1])) ++ b.2.map (fun p => (p.1, p.2 ++ [a.1])))

theorem rootAndPaths_eq (H : HashAlg α ν) (t : Tree α) :
    rootAndPaths H t = (root H t, siblingPaths H t) := by
  induction t with
  | leaf s => rfl
  | node l r ihl ihr => simp [rootAndPaths, ihl, ihr, root, siblingPaths]

end MsVerif.Spec.Tree

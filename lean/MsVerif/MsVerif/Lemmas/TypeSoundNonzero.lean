/-
C06 helper lemmas, part 10: the `n` letter — a fragment typed `oneNonZero` / `anyNonZero` is
never satisfied when the top input element is the empty vector (this is what lets `j:` use the
empty vector to skip `X`).  Limits off.  Core Lean only.
-/
import MsVerif.Lemmas.TypeSoundKey

namespace MsVerif.TypeSound
open MsVerif MsVerif.Script

/-! ### more precise opcode facts -/

theorem num4_ok {env : Env} {bs : Bytes} {x : Int} (h : num4 env bs = .ok x) :
    numDecode env.flags.minimalNum 4 bs = some x := by
  unfold num4 at h
  split at h
  · rename_i v hv; cases h; exact hv
  · cases h

theorem zeronotequal_ok' {env : Env} {c c' : Core} (h : opc env .zeronotequal c = .ok c') :
    ∃ a r x, c.stack = a :: r ∧ num4 env a = .ok x ∧ c'.stack = boolBytes (x != 0) :: r ∧ c'.alt = c.alt := by
  obtain ⟨c1, hs, ha, h⟩ := opc_ok h
  obtain ⟨s, al, ops⟩ := c1
  match s, h with
  | [], h => simp [execOpc] at h
  | a :: r, h =>
    simp only [execOpc] at h
    obtain ⟨x, hx, h⟩ := bind_ok h
    have := pushElem_ok h
    exact ⟨a, r, x, hs.symm, hx, this.1, this.2.trans ha⟩

theorem booland_ok' {env : Env} {c c' : Core} (h : opc env .booland c = .ok c') :
    ∃ a b r x y, c.stack = a :: b :: r ∧ num4 env a = .ok x ∧ num4 env b = .ok y ∧
      c'.stack = boolBytes (x != 0 && y != 0) :: r ∧ c'.alt = c.alt := by
  obtain ⟨c1, hs, ha, h⟩ := opc_ok h
  obtain ⟨s, al, ops⟩ := c1
  match s, h with
  | [], h => simp [execOpc] at h
  | [_], h => simp [execOpc] at h
  | a :: b :: r, h =>
    simp only [execOpc] at h
    obtain ⟨x, hx, h⟩ := bind_ok h
    obtain ⟨y, hy, h⟩ := bind_ok h
    have := pushElem_ok h
    exact ⟨a, b, r, x, y, hs.symm, hx, hy, this.1, this.2.trans ha⟩

theorem checksig_ok' {env : Env} {c c' : Core} (h : opc env .checksig c = .ok c') :
    ∃ pk sg r b, c.stack = pk :: sg :: r ∧ checkSig env sg pk = .ok b ∧ c'.stack = boolBytes b :: r := by
  obtain ⟨c1, hs, ha, h⟩ := opc_ok h
  obtain ⟨s, al, ops⟩ := c1
  match s, h with
  | [], h => simp [execOpc] at h
  | [_], h => simp [execOpc] at h
  | a :: b :: r, h =>
    simp only [execOpc] at h
    obtain ⟨x, hx, h⟩ := bind_ok h
    have := pushElem_ok h
    exact ⟨a, b, r, x, hs.symm, hx, this.1⟩

/-- an empty signature never verifies -/
theorem checkSig_empty {env : Env} {pk : Bytes} {b : Bool} (h : checkSig env [] pk = .ok b) : b = false := by
  unfold checkSig at h
  split at h
  · cases h
  · simp only [List.isEmpty_nil, if_true] at h
    cases h; rfl

/-- the empty vector is not a public key in any context -/
theorem checkSig_nil_key {env : Env} {sg : Bytes} {b : Bool} (h : checkSig env sg [] = .ok b) : False := by
  unfold checkSig at h
  have : pubkeyOk env [] = false := by
    unfold pubkeyOk
    cases env.flags.tapscript <;> simp
  simp only [this, Bool.not_false, if_true] at h
  cases h

/-- CHECKMULTISIG's matching loop fails when the first signature it looks at is empty -/
theorem multisigLoop_nil_head (env : Env) (sigs : List Bytes) :
    ∀ (keys : List Bytes) {b : Bool}, multisigLoop env ([] :: sigs) keys = .ok b → b = false
  | [], b, h => by
    unfold multisigLoop at h
    cases h; rfl
  | key :: keys, b, h => by
    unfold multisigLoop at h
    split at h
    · cases h; rfl
    · split at h
      · cases h
      · simp only [List.isEmpty_nil, Bool.not_true, Bool.false_and, Bool.false_eq_true, if_false] at h
        exact multisigLoop_nil_head env sigs keys h

/-- successful CHECKMULTISIG, exposing the matching loop -/
theorem multisig_ok' {env : Env} {c c' : Core} (h : multisig env c false = .ok c') :
    ∃ (nB : Bytes) (r : List Bytes) (nI : Int) (mB : Bytes) (r1 : List Bytes) (mI : Int) (r2 : List Bytes) (b : Bool),
      c.stack = nB :: r ∧ numDecode env.flags.minimalNum 4 nB = some nI ∧
      0 ≤ nI ∧ r.drop nI.toNat = mB :: r1 ∧ numDecode env.flags.minimalNum 4 mB = some mI ∧ 0 ≤ mI ∧
      multisigLoop env (r1.take mI.toNat) (r.take nI.toNat) = .ok b ∧ c'.stack = boolBytes b :: r2 ∧
      mI.toNat < r1.length := by
  unfold multisig at h
  dsimp only at h
  split at h
  · cases h
  · split at h
    · rename_i nB r hstk
      split at h
      · cases h
      · rename_i nI hnd
        split at h
        · cases h
        · rename_i hrange
          split at h
          · cases h
          · split at h
            · cases h
            · split at h
              · rename_i mB r1 hr1
                split at h
                · cases h
                · rename_i mI hmd
                  split at h
                  · cases h
                  · rename_i hmr
                    split at h
                    · cases h
                    · split at h
                      · rename_i dummy r2 hr2
                        split at h
                        · cases h
                        · rename_i ok hok
                          split at h
                          · cases h
                          · split at h
                            · cases h
                            · simp only [Bool.false_eq_true, if_false] at h
                              rename_i hlen2 _ _
                              exact ⟨nB, r, nI, mB, r1, mI, r2, ok, hstk, hnd, by omega, hr1, hmd, by omega, hok,
                                (pushElem_ok h).1, by omega⟩
                      · cases h
              · cases h
    · cases h

/-- the number `pushInt k` pushes never decodes to 0 unless `k = 0` -/
theorem decode_intBytes_ne_zero {flag : Bool} {k : Nat} (hk : k ≠ 0)
    (h : numDecode flag 4 (intBytes k) = some 0) : False := by
  unfold intBytes at h
  split at h
  · rename_i h16
    have := decode_intBytes flag ⟨k, by omega⟩
    unfold intBytes at this
    simp only [h16, if_true, hk, if_false] at this
    rw [this] at h
    simp only [Option.some.injEq] at h
    exact hk (Int.ofNat.inj h)
  · exact hk (decode_size_ne_zero h)

/-! ### the extra well-formedness: thresholds of `multi` are at least 1 (`Threshold::new`) -/

mutual
def wfK : Ms → Bool
  | .multi k _ | .sortedMulti k _ | .multiA k _ | .sortedMultiA k _ => decide (1 ≤ k)
  | .thresh _ xs => wfKL xs
  | .alt x | .swap x | .check x | .dupIf x | .verify x | .nonZero x | .zeroNotEqual x => wfK x
  | .andV l r | .andB l r | .orB l r | .orD l r | .orC l r | .orI l r => wfK l && wfK r
  | .andOr a b c => wfK a && wfK b && wfK c
  | _ => true
def wfKL : MsList → Bool
  | .nil => true
  | .cons x xs => wfK x && wfKL xs
end

/-- `multi` / `sortedmulti` with an empty vector where the last signature should be -/
theorem multi_nonzero {env : Env} (ke : KeyEnv) (k : Nat) (hk : 1 ≤ k) (kl : List Key) (hkl : kl.length ≤ 20)
    {stk alt : List Bytes} {ops : Nat} {c' : Core}
    (h : seqOps env ([pushInt k] ++ kl.map (fun pk => Op.push (ke.ser pk)) ++ [pushInt kl.length, .code .checkmultisig])
      ⟨[] :: stk, alt, ops⟩ = .ok c') :
    ∃ r, c'.stack = [] :: r := by
  obtain ⟨c2, h12, h3⟩ := seqOps_append_ok h
  obtain ⟨c1, h1, h2⟩ := seqOps_cons_ok (show seqOps env (pushInt k :: kl.map (fun pk => Op.push (ke.ser pk)))
    ⟨[] :: stk, alt, ops⟩ = .ok c2 from h12)
  obtain ⟨hs1, _⟩ := pushInt_ok h1
  have hmm : kl.map (fun pk => Op.push (ke.ser pk)) = (kl.map ke.ser).map Op.push := by
    rw [List.map_map]; rfl
  rw [hmm] at h2
  obtain ⟨hs2, _⟩ := seqOps_pushes_ok _ h2
  obtain ⟨c3, h4, h5⟩ := seqOps_cons_ok h3
  obtain ⟨hs3, _⟩ := pushInt_ok h4
  obtain ⟨c4, h6, h7⟩ := seqOps_cons_ok h5
  cases seqOps_nil_ok h7
  obtain ⟨c3', hs, _, h6⟩ := opc_ok (show opc env .checkmultisig c3 = .ok c' from h6)
  rw [execOpc_cms] at h6
  obtain ⟨nB, r, nI, mB, r1, mI, r2, b, e1, e2, _, e4, e5, e6, e7, e8, _⟩ := multisig_ok' h6
  rw [hs, hs3, hs2, hs1] at e1
  simp only [List.cons.injEq] at e1
  obtain ⟨rfl, rfl⟩ := e1
  have hdec := decode_intBytes env.flags.minimalNum ⟨kl.length, by omega⟩
  simp only at hdec
  rw [hdec] at e2
  cases e2
  have hlen : ((kl.map ke.ser).reverse).length = kl.length := by simp
  rw [show (Int.ofNat kl.length).toNat = ((kl.map ke.ser).reverse).length from by rw [hlen]; rfl,
    List.drop_left] at e4
  simp only [List.cons.injEq] at e4
  obtain ⟨rfl, rfl⟩ := e4
  have hm0 : mI ≠ 0 := fun h0 => decode_intBytes_ne_zero (by omega) (h0 ▸ e5)
  have hm1 : mI.toNat = (mI.toNat - 1) + 1 := by omega
  rw [hm1, List.take_succ_cons] at e7
  have := multisigLoop_nil_head env _ _ e7
  subst this
  exact ⟨r2, e8⟩


/-! ### the induction -/

/-- "not satisfied", per base type, for a run that completed with core `c'` -/
def Unsat (env : Env) (base : Base) (c' : Core) : Prop :=
  match base with
  | .B => ∀ v r, c'.stack = v :: r → castToBool v = false
  | .V => False
  | .K => ∀ c'', opc env .checksig c' = .ok c'' → ∀ v r, c''.stack = v :: r → castToBool v = false
  | .W => True

def isN (i : Input) : Prop := i = .oneNonZero ∨ i = .anyNonZero

theorem andInput_isN {a b : Input} (h : isN (Corr.andInput a b)) : isN a ∨ (a = .zero ∧ isN b) := by
  cases a <;> cases b <;> simp [Corr.andInput, isN] at h ⊢
theorem orBInput_not_isN (a b : Input) : ¬ isN (Corr.orBInput a b) := by
  cases a <;> cases b <;> simp [Corr.orBInput, isN]
theorem orDInput_not_isN (a b : Input) : ¬ isN (Corr.orDInput a b) := by
  cases a <;> cases b <;> simp [Corr.orDInput, isN]
theorem orIInput_not_isN (a b : Input) : ¬ isN (Corr.orIInput a b) := by
  cases a <;> cases b <;> simp [Corr.orIInput, isN]
theorem andOrInput_not_isN (a b c : Input) : ¬ isN (Corr.andOrInput a b c) := by
  cases a <;> cases b <;> cases c <;> simp [Corr.andOrInput, isN]


/-- `OP_SIZE OP_0NOTEQUAL` on the empty vector pushes false -/
theorem size_zne_nil {env : Env} {r alt : List Bytes} {ops : Nat} {c1 c2 : Core}
    (h1 : opc env .size ⟨[] :: r, alt, ops⟩ = .ok c1) (h2 : opc env .zeronotequal c1 = .ok c2) :
    c2.stack = [] :: [] :: r := by
  obtain ⟨p, r', e1, e1', _⟩ := size_ok h1
  simp only [List.cons.injEq] at e1
  obtain ⟨rfl, rfl⟩ := e1
  obtain ⟨a, r'', x, e2, hx, e2', _⟩ := zeronotequal_ok' h2
  rw [e1'] at e2
  simp only [List.cons.injEq] at e2
  obtain ⟨rfl, rfl⟩ := e2
  have hx0 : x = 0 := by
    have := num4_ok hx
    simp only [List.length_nil] at this
    rw [numEncode_zero] at this
    exact falsy_decodes_zero (by rfl) this
  subst hx0
  rw [e2']; rfl

theorem nonzero {env : Env} (hlim : env.flags.stackLimits = false) (ke : KeyEnv) (ctx : Ctx) :
    (ms : Ms) → wf ms = true → wfK ms = true → ∀ (τ : Ty), typeOf ms = some τ → isN τ.corr.input →
      ∀ (stk alt : List Bytes) (ops : Nat) (c' : Core),
        frag env ke ctx ms ⟨[] :: stk, alt, ops⟩ = .ok c' → Unsat env τ.corr.base c'
  | .tru, _, _, τ, h, hn, _, _, _, _, _ | .fls, _, _, τ, h, hn, _, _, _, _, _
  | .after _, _, _, τ, h, hn, _, _, _, _, _ | .older _, _, _, τ, h, hn, _, _, _, _, _
  | .multiA _ _, _, _, τ, h, hn, _, _, _, _, _ | .sortedMultiA _ _, _, _, τ, h, hn, _, _, _, _, _ => by
    simp only [typeOf] at h; cases h
    simp [isN, Ty.TRUE, Ty.FALSE, Ty.time, Ty.multiA, Ty.sortedmultiA, Corr.TRUE, Corr.FALSE, Corr.time,
      Corr.multiA, Corr.sortedmultiA] at hn
  | .pkK k, _, _, τ, h, _, stk, alt, ops, c', hr => by
    simp only [typeOf] at h; cases h
    rw [frag] at hr
    obtain ⟨hs, _⟩ := psh_ok hr
    intro c'' hc v r hv
    obtain ⟨pk, sg, r', b, e1, e2, e3⟩ := checksig_ok' hc
    rw [hs] at e1
    simp only [List.cons.injEq] at e1
    obtain ⟨rfl, rfl, rfl⟩ := e1
    have := checkSig_empty e2
    subst this
    rw [e3] at hv
    simp only [List.cons.injEq] at hv
    rw [← hv.1]; rfl
  | .pkH k, _, _, τ, h, _, stk, alt, ops, c', hr | .rawPkH k, _, _, τ, h, _, stk, alt, ops, c', hr => by
    simp only [typeOf] at h; cases h
    rw [frag] at hr
    obtain ⟨a, r, e0, e, _⟩ := pkh_top hr
    simp only [List.cons.injEq] at e0
    obtain ⟨rfl, rfl⟩ := e0
    intro c'' hc v r' hv
    obtain ⟨pk, sg, r'', b, e1, e2, _⟩ := checksig_ok' hc
    rw [e] at e1
    simp only [List.cons.injEq] at e1
    obtain ⟨rfl, _⟩ := e1
    exact (checkSig_nil_key e2).elim
  | .hash kind hh, _, _, τ, h, _, stk, alt, ops, c', hr => by
    simp only [typeOf] at h; cases h
    rw [frag] at hr
    obtain ⟨c1, h1, hr⟩ := seqOps_cons_ok hr
    obtain ⟨c2, h2, hr⟩ := seqOps_cons_ok hr
    obtain ⟨c3, h3, hr⟩ := seqOps_cons_ok hr
    obtain ⟨a, r, e1, e1', _⟩ := size_ok h1
    obtain ⟨e2, _⟩ := pushInt_ok h2
    obtain ⟨x, y, e3, hxy, _⟩ := equalverify_ok h3
    simp only [List.cons.injEq] at e1
    obtain ⟨rfl, rfl⟩ := e1
    rw [e2, e1'] at e3
    simp only [List.cons.injEq] at e3
    obtain ⟨rfl, rfl, _⟩ := e3
    exact absurd hxy (by decide)
  | .multi k ks, hw, hk, τ, h, _, stk, alt, ops, c', hr => by
    simp only [typeOf] at h; cases h
    rw [frag] at hr
    simp only [wf, decide_eq_true_eq] at hw
    simp only [wfK, decide_eq_true_eq] at hk
    obtain ⟨r, e⟩ := multi_nonzero ke k hk ks hw hr
    intro v r' hv
    rw [e] at hv
    simp only [List.cons.injEq] at hv
    rw [← hv.1]; rfl
  | .sortedMulti k ks, hw, hk, τ, h, _, stk, alt, ops, c', hr => by
    simp only [typeOf] at h; cases h
    rw [frag] at hr
    simp only [wf, decide_eq_true_eq] at hw
    simp only [wfK, decide_eq_true_eq] at hk
    rw [← sortKeys_length ke ks] at hr hw
    obtain ⟨r, e⟩ := multi_nonzero ke k hk (sortKeys ke ks) hw hr
    intro v r' hv
    rw [e] at hv
    simp only [List.cons.injEq] at hv
    rw [← hv.1]; rfl
  | .alt x, _, _, τ, h, hn, _, _, _, _, _ => by
    simp only [typeOf] at h
    obtain ⟨a, _, h⟩ := typeOf_un h
    rw [(castAlt_inv (lift1_corr h)).2] at hn
    simp [isN] at hn
  | .swap x, _, _, τ, h, hn, _, _, _, _, _ => by
    simp only [typeOf] at h
    obtain ⟨a, _, h⟩ := typeOf_un h
    rw [(castSwap_inv (lift1_corr h)).2.2] at hn
    simp [isN] at hn
  | .check x, hw, hk, τ, h, hn, stk, alt, ops, c', hr => by
    simp only [typeOf] at h
    obtain ⟨a, hx, h⟩ := typeOf_un h
    obtain ⟨hab, hy⟩ := castCheck_inv (lift1_corr h)
    rw [hy] at hn ⊢
    rw [frag_check] at hr
    obtain ⟨c1, h1, h2⟩ := bind_ok hr
    have ih := nonzero hlim ke ctx x (by simpa [wf] using hw) (by simpa [wfK] using hk) a hx hn stk alt ops c1 h1
    rw [hab] at ih
    exact ih c' h2
  | .dupIf x, _, _, τ, h, _, stk, alt, ops, c', hr => by
    simp only [typeOf] at h
    obtain ⟨a, _, h⟩ := typeOf_un h
    obtain ⟨_, _, hy⟩ := castDupIf_inv (lift1_corr h)
    rw [hy]
    rw [frag_dupIf] at hr
    obtain ⟨c1, h1, h2⟩ := bind_ok hr
    obtain ⟨p, r, e1, e1', _⟩ := dup_ok h1
    simp only [List.cons.injEq] at e1
    obtain ⟨rfl, rfl⟩ := e1
    obtain ⟨a0, c2, e2, _, hcase⟩ := ifThen_ok h2
    rw [e1'] at e2
    simp only [List.cons.injEq] at e2
    obtain ⟨rfl, e2⟩ := e2
    rcases hcase with ⟨hf, _⟩ | ⟨_, e3, _⟩
    · simp [condFlag, castToBool] at hf
    · intro v r' hv
      rw [e3, ← e2] at hv
      simp only [List.cons.injEq] at hv
      rw [← hv.1]; rfl
  | .verify x, hw, hk, τ, h, hn, stk, alt, ops, c', hr => by
    simp only [typeOf] at h
    obtain ⟨a, hx, h⟩ := typeOf_un h
    obtain ⟨hab, hy⟩ := castVerify_inv (lift1_corr h)
    rw [hy] at hn ⊢
    rw [frag_verify] at hr
    obtain ⟨c1, h1, h2⟩ := bind_ok hr
    have ih := nonzero hlim ke ctx x (by simpa [wf] using hw) (by simpa [wfK] using hk) a hx hn stk alt ops c1 h1
    rw [hab] at ih
    obtain ⟨a0, e2, hv, _⟩ := verifyTail_ok h2
    have := ih a0 _ e2
    rw [this] at hv
    cases hv
  | .nonZero x, _, _, τ, h, _, stk, alt, ops, c', hr => by
    simp only [typeOf] at h
    obtain ⟨a, _, h⟩ := typeOf_un h
    obtain ⟨_, _, hy⟩ := castNonZero_inv (lift1_corr h)
    rw [hy]
    rw [frag_nonZero] at hr
    obtain ⟨c1, h1, hr⟩ := bind_ok hr
    obtain ⟨c2, h2, h3⟩ := bind_ok hr
    have e2 := size_zne_nil h1 h2
    obtain ⟨a0, c3, e3, _, hcase⟩ := ifThen_ok h3
    rw [e2] at e3
    simp only [List.cons.injEq] at e3
    obtain ⟨rfl, e3⟩ := e3
    rcases hcase with ⟨hf, _⟩ | ⟨_, e4, _⟩
    · simp [condFlag, castToBool] at hf
    · intro v r' hv
      rw [e4, ← e3] at hv
      simp only [List.cons.injEq] at hv
      rw [← hv.1]; rfl
  | .zeroNotEqual x, hw, hk, τ, h, hn, stk, alt, ops, c', hr => by
    simp only [typeOf] at h
    obtain ⟨a, hx, h⟩ := typeOf_un h
    obtain ⟨hab, hy⟩ := castZeroNotEqual_inv (lift1_corr h)
    rw [hy] at hn ⊢
    rw [frag_zeroNotEqual] at hr
    obtain ⟨c1, h1, h2⟩ := bind_ok hr
    have ih := nonzero hlim ke ctx x (by simpa [wf] using hw) (by simpa [wfK] using hk) a hx hn stk alt ops c1 h1
    rw [hab] at ih
    obtain ⟨a0, r0, x0, e2, hx0, e2', _⟩ := zeronotequal_ok' h2
    have hz : x0 = 0 := falsy_decodes_zero (ih a0 r0 e2) (num4_ok hx0)
    subst hz
    intro v r' hv
    rw [e2'] at hv
    simp only [List.cons.injEq] at hv
    rw [← hv.1]; rfl
  | .andV l r, hw, hk, τ, h, hn, stk, alt, ops, c', hr => by
    simp only [typeOf] at h
    obtain ⟨a, b, hl, hrr, h⟩ := typeOf_bin h
    obtain ⟨hab, _, hy⟩ := andV_inv (lift2_corr h)
    rw [hy] at hn ⊢
    simp only [wf, Bool.and_eq_true] at hw
    simp only [wfK, Bool.and_eq_true] at hk
    rw [frag_andV] at hr
    obtain ⟨c1, h1, h2⟩ := bind_ok hr
    rcases andInput_isN hn with hna | ⟨haz, hnb⟩
    · have ih := nonzero hlim ke ctx l hw.1 hk.1 a hl hna stk alt ops c1 h1
      rw [hab] at ih
      exact ih.elim
    · -- `l` is zero-arg: it leaves the stack as it is
      have hc := args_cons hlim ke ctx l hw.1 a 0 hl (by rw [haz]; rfl)
      rw [hab] at hc
      obtain ⟨out, ho, hs⟩ := (hc [] ([] :: stk) alt ops rfl).2 c1 h1
      have : out = [] := List.eq_nil_of_length_eq_zero ho
      subst this
      obtain ⟨s1, a1, o1⟩ := c1
      simp only [List.nil_append] at hs
      subst hs
      exact nonzero hlim ke ctx r hw.2 hk.2 b hrr hnb stk a1 o1 c' h2
  | .andB l r, hw, hk, τ, h, hn, stk, alt, ops, c', hr => by
    simp only [typeOf] at h
    obtain ⟨a, b, hl, hrr, h⟩ := typeOf_bin h
    obtain ⟨hab, hbb, hy⟩ := andB_inv (lift2_corr h)
    rw [hy] at hn ⊢
    simp only [wf, Bool.and_eq_true] at hw
    simp only [wfK, Bool.and_eq_true] at hk
    have hna : isN a.corr.input := by
      rw [W_any hrr hbb] at hn
      rcases andInput_isN hn with h1 | ⟨_, h2⟩
      · exact h1
      · simp [isN] at h2
    rw [frag_andB] at hr
    obtain ⟨c1, h1, hr⟩ := bind_ok hr
    obtain ⟨c2, h2, h3⟩ := bind_ok hr
    have ih := nonzero hlim ke ctx l hw.1 hk.1 a hl hna stk alt ops c1 h1
    rw [hab] at ih
    obtain ⟨_, jh2⟩ := shape hlim ke ctx r hw.2 b hrr c1 c2 h2
    obtain ⟨x, tl, w, m, e2, e3, _⟩ := (Post.W hbb).1 jh2
    have hxf := ih x tl e2
    obtain ⟨p, q, r', xp, xq, e4, hp, hq, e4', _⟩ := booland_ok' h3
    have hfalse : (xp != 0 && xq != 0) = false := by
      rcases e3 with e3 | e3 <;> rw [e3] at e4 <;> simp only [List.cons.injEq] at e4
      · obtain ⟨rfl, _, _⟩ := e4
        have := falsy_decodes_zero hxf (num4_ok hp)
        subst this; rfl
      · obtain ⟨_, rfl, _⟩ := e4
        have := falsy_decodes_zero hxf (num4_ok hq)
        subst this; simp
    intro v r'' hv
    rw [e4', hfalse] at hv
    simp only [List.cons.injEq] at hv
    rw [← hv.1]; rfl
  | .orB l r, _, _, τ, h, hn, _, _, _, _, _ => by
    simp only [typeOf] at h
    obtain ⟨a, b, _, _, h⟩ := typeOf_bin h
    rw [(orB_inv (lift2_corr h)).2.2] at hn
    exact (orBInput_not_isN _ _ hn).elim
  | .orD l r, _, _, τ, h, hn, _, _, _, _, _ => by
    simp only [typeOf] at h
    obtain ⟨a, b, _, _, h⟩ := typeOf_bin h
    rw [(orD_inv (lift2_corr h)).2.2.2.2] at hn
    exact (orDInput_not_isN _ _ hn).elim
  | .orC l r, _, _, τ, h, hn, _, _, _, _, _ => by
    simp only [typeOf] at h
    obtain ⟨a, b, _, _, h⟩ := typeOf_bin h
    rw [(orC_inv (lift2_corr h)).2.2.2.2] at hn
    exact (orDInput_not_isN _ _ hn).elim
  | .orI l r, _, _, τ, h, hn, _, _, _, _, _ => by
    simp only [typeOf] at h
    obtain ⟨a, b, _, _, h⟩ := typeOf_bin h
    rw [(orI_inv (lift2_corr h)).2.2] at hn
    exact (orIInput_not_isN _ _ hn).elim
  | .andOr x y z, _, _, τ, h, hn, _, _, _, _, _ => by
    obtain ⟨a, b, c, _, _, _, h⟩ := typeOf_andOr h
    rw [(andOr_inv (andOr_corr h)).2.2.2.2.2] at hn
    exact (andOrInput_not_isN _ _ _ hn).elim
  | .thresh k xs, _, _, τ, h, hn, _, _, _, _, _ => by
    obtain ⟨ts, _, h⟩ := typeOf_thresh h
    obtain ⟨n, _, hy⟩ := threshold_inv (threshold_corr h)
    rw [hy] at hn
    match n, hn with
    | 0, hn => simp [isN] at hn
    | 1, hn => simp [isN] at hn
    | _ + 2, hn => simp [isN] at hn

end MsVerif.TypeSound

/- Name splitting, the fragment-name table and the wrapper loop of `FromTree for Miniscript`. -/
import MsVerif.Lemmas.DisplayNum

namespace MsVerif.Display
open MsVerif.Expr

/-! ### fragment names -/

/-- every name `fragment_name` returns is one the parser knows -/
theorem ofName_name (f : Frag) : Frag.ofName f.name = some f := by
  cases f <;> decide

theorem name_no_colon (f : Frag) : f.name.contains ':' = false := by
  cases f <;> decide

theorem nameSeparated_name (f : Frag) : nameSeparated f.name = some (none, f.name) := by
  cases f <;> decide

theorem splitFirst_append (pre rest : List Char) (h : ∀ x ∈ pre, x ≠ ':') :
    splitFirst ':' (pre ++ ':' :: rest) = (pre, some rest) := by
  induction pre with
  | nil => simp [splitFirst]
  | cons x xs ih =>
    have hx : x ≠ ':' := h x (by simp)
    have ih' := ih (fun y hy => h y (by simp [hy]))
    simp [splitFirst, hx, ih']

theorem nameSeparated_join (pre : List Char) (f : Frag) (h : ∀ x ∈ pre, x ≠ ':') (hne : pre ≠ []) :
    nameSeparated (joinName pre f.name) = some (some pre, f.name) := by
  have he : pre.isEmpty = false := by cases pre <;> simp_all
  have hc : ¬ ':' ∈ f.name := by
    have := name_no_colon f
    simpa using this
  simp [joinName, he, nameSeparated, splitFirst_append pre f.name h, hc]

/-! ### wrappers -/

inductive W | a | s | c | d | v | j | n | t | u | l
deriving DecidableEq, Repr

def W.char : W → Char
  | .a => 'a' | .s => 's' | .c => 'c' | .d => 'd' | .v => 'v' | .j => 'j' | .n => 'n'
  | .t => 't' | .u => 'u' | .l => 'l'

def W.apply : W → Ms → Ms
  | .a, x => .alt x | .s, x => .swap x | .c, x => .check x | .d, x => .dupIf x
  | .v, x => .verify x | .j, x => .nonZero x | .n, x => .zeroNotEqual x
  | .t, x => .andV x .tru | .u, x => .orI x .fls | .l, x => .orI .fls x

theorem wrapTerm_char (w : W) (x : Ms) : wrapTerm w.char x = some (w.apply x) := by
  cases w <;> simp [wrapTerm, W.char, W.apply]

theorem W.char_ne_colon (w : W) : w.char ≠ ':' := by cases w <;> decide

theorem chars_no_colon (ws : List W) : ∀ x ∈ ws.map W.char, x ≠ ':' := by
  intro x hx
  simp only [List.mem_map] at hx
  obtain ⟨w, _, rfl⟩ := hx
  exact W.char_ne_colon w

/-- what the wrapper loop computes for the prefix `ws` (leftmost wrapper outermost) -/
def wrapAll (c : Codec) (ws : List W) (r : R Ms) : R Ms :=
  ws.foldr (fun w acc => match acc with | .ok x => mk c (w.apply x) | .error e => .error e) r

theorem wrapAll_error (c : Codec) (ws : List W) (e : DErr) : wrapAll c ws (.error e) = .error e := by
  induction ws with
  | nil => rfl
  | cons w ws ih => simp [wrapAll] at ih ⊢; rw [ih]

theorem wrapAll_snoc (c : Codec) (ws : List W) (w : W) (r : R Ms) :
    wrapAll c (ws ++ [w]) r =
      wrapAll c ws (match r with | .ok x => mk c (w.apply x) | .error e => .error e) := by
  simp [wrapAll, List.foldr_append]

theorem applyWrappers_eq (c : Codec) (rs : List W) (m : Ms) :
    applyWrappers c (rs.map W.char) m = wrapAll c rs.reverse (.ok m) := by
  induction rs generalizing m with
  | nil => rfl
  | cons w rs ih =>
    simp only [List.map_cons, applyWrappers, wrapTerm_char, List.reverse_cons, wrapAll_snoc]
    cases hmk : mk c (w.apply m) with
    | error e => simp [wrapAll_error]
    | ok m' => simp [ih]

/-- a non-wrapper node whose fragment parses to `m` -/
theorem fromTreeI_core (c : Codec) (ws : List W) (f : Frag) (cs : List Tree) (m : Ms)
    (hcore : parseCore c f cs (fromTreeL c cs) = .ok m) :
    fromTreeI c (core (ws.map W.char) f cs) = wrapAll c ws (.ok m) := by
  unfold core
  rw [fromTreeI]
  unfold parseNode
  cases ws with
  | nil =>
    simp only [List.map_nil, joinName, List.isEmpty_nil, if_true, nameSeparated_name, ofName_name f, hcore]
    rfl
  | cons w ws =>
    have hne : (w :: ws).map W.char ≠ [] := by simp
    rw [nameSeparated_join _ f (chars_no_colon _) hne]
    simp only [ofName_name f, hcore]
    have he : ((w :: ws).map W.char).isEmpty = false := by simp
    simp only [he, Bool.false_eq_true, if_false]
    rw [← List.map_reverse, applyWrappers_eq, List.reverse_reverse]

end MsVerif.Display

/-
Table lemma for C10/T3: for every distance 1 ≤ d ≤ 1024 and every non-zero 5-bit value `e`,
`L^d e` is not a 5-bit value — a single-symbol difference cannot be cancelled by a second
single-symbol difference up to 1024 symbols later.  Checked by the kernel in 8 chunks of 128
steps × 31 values (`decide +kernel`); `tab k` are the 31 values `L^(128k) e`.
-/
import MsVerif.Lemmas.ChecksumLinear

namespace MsVerif.Checksum

/-- `L` iterated -/
def Lpow : Nat → W → W
  | 0, x => x
  | n + 1, x => L (Lpow n x)

theorem Lpow_succ' (n : Nat) (x : W) : Lpow (n + 1) x = Lpow n (L x) := by
  induction n with
  | zero => rfl
  | succ k ih => show L (Lpow (k + 1) x) = L (Lpow k (L x)); rw [ih]

theorem Lpow_add (m n : Nat) (x : W) : Lpow (m + n) x = Lpow m (Lpow n x) := by
  induction m with
  | zero => simp [Lpow]
  | succ k ih => rw [Nat.succ_add]; show L _ = L _; rw [ih]

/-- run `n` steps on all values, checking that every intermediate value is ≥ 32 -/
def runChunk : List W → Nat → Option (List W)
  | vs, 0 => some vs
  | vs, n + 1 =>
    let vs' := vs.map L
    if vs'.all (fun v => decide (32 ≤ v.toNat)) then runChunk vs' n else none

theorem runChunk_sound {vs ws : List W} {n : Nat} (h : runChunk vs n = some ws) :
    ws = vs.map (Lpow n) ∧ ∀ d, 1 ≤ d → d ≤ n → ∀ v ∈ vs, 32 ≤ (Lpow d v).toNat := by
  induction n generalizing vs with
  | zero =>
    simp only [runChunk, Option.some.injEq] at h
    refine ⟨by rw [← h]; simp [Lpow], ?_⟩
    intro d h1 h2; omega
  | succ k ih =>
    simp only [runChunk] at h
    split at h
    · rename_i hall
      obtain ⟨e, hk⟩ := ih h
      refine ⟨?_, ?_⟩
      · rw [e, List.map_map]; congr 1; funext x; exact (Lpow_succ' k x).symm
      · intro d h1 h2 v hv
        by_cases hd : d = 1
        · subst hd
          have := List.all_eq_true.mp hall (L v) (List.mem_map_of_mem hv)
          simpa [Lpow] using this
        · have := hk (d - 1) (by omega) (by omega) (L v) (List.mem_map_of_mem hv)
          rw [← Lpow_succ', show d - 1 + 1 = d by omega] at this
          exact this
    · cases h

def tab0 : List W := [0x1#40, 0x2#40, 0x3#40, 0x4#40, 0x5#40, 0x6#40, 0x7#40, 0x8#40, 0x9#40, 0xa#40, 0xb#40, 0xc#40, 0xd#40, 0xe#40, 0xf#40, 0x10#40, 0x11#40, 0x12#40, 0x13#40, 0x14#40, 0x15#40, 0x16#40, 0x17#40, 0x18#40, 0x19#40, 0x1a#40, 0x1b#40, 0x1c#40, 0x1d#40, 0x1e#40, 0x1f#40]
def tab1 : List W := [0x37538ee6ba#40, 0x64e599ec7d#40, 0x53b6170ac7#40, 0xc3dbb7fcd3#40, 0xf488391a69#40, 0xa73e2e10ae#40, 0x906da0f614#40, 0xcfb5ff5d8f#40, 0xf8e671bb35#40, 0xab5066b1f2#40, 0x9c03e85748#40, 0xc6e48a15c#40, 0x3b3dc647e6#40, 0x688bd14d21#40, 0x5fd85fab9b#40, 0xdd7b7a9f1e#40, 0xea28f479a4#40, 0xb99ee37363#40, 0x8ecd6d95d9#40, 0x1ea0cd63cd#40, 0x29f3438577#40, 0x7a45548fb0#40, 0x4d16da690a#40, 0x12ce85c291#40, 0x259d0b242b#40, 0x762b1c2eec#40, 0x417892c856#40, 0xd115323e42#40, 0xe646bcd8f8#40, 0xb5f0abd23f#40, 0x82a3253485#40]
def tab2 : List W := [0x2aaaa1d2e#40, 0x50740ba5c#40, 0x7adeaa772#40, 0x4c1171b1#40, 0x2e6bb6c9f#40, 0x54b51cbed#40, 0x7e1fbd6c3#40, 0x9822474b#40, 0x232885a65#40, 0x59f62fd17#40, 0x735c8e039#40, 0xd43336fa#40, 0x27e992bd4#40, 0x5d3738ca6#40, 0x779d99188#40, 0x130442fb6#40, 0x39aee3298#40, 0x4370495ea#40, 0x69dae88c4#40, 0x17c555e07#40, 0x3d6ff4329#40, 0x47b15e45b#40, 0x6d1bff975#40, 0x1a86668fd#40, 0x302cc75d3#40, 0x4af26d2a1#40, 0x6058ccf8f#40, 0x1e477194c#40, 0x34edd0462#40, 0x4e337a310#40, 0x6499dbe3e#40]
def tab3 : List W := [0x997b21ecc6#40, 0x7aa6d37d8c#40, 0xe3ddf2914a#40, 0xf51fa65f18#40, 0x6c6487b3de#40, 0x8fb9752294#40, 0x16c254ce52#40, 0xa87ddc1f39#40, 0x3106fdf3ff#40, 0xd2db0f62b5#40, 0x4ba02e8e73#40, 0x5d627a4021#40, 0xc4195bace7#40, 0x27c4a93dad#40, 0xbebf88d16b#40, 0x18ab3cbb7b#40, 0x81d01d57bd#40, 0x620defc6f7#40, 0xfb76ce2a31#40, 0xedb49ae463#40, 0x74cfbb08a5#40, 0x97124999ef#40, 0xe69687529#40, 0xb0d6e0a442#40, 0x29adc14884#40, 0xca7033d9ce#40, 0x530b123508#40, 0x45c946fb5a#40, 0xdcb267179c#40, 0x3f6f9586d6#40, 0xa614b46a10#40]
def tab4 : List W := [0x9d4c6a8432#40, 0x78d8c1884d#40, 0xe594ab0c7f#40, 0xf1b183109a#40, 0x6cfde994a8#40, 0x89694298d7#40, 0x1425281ce5#40, 0xab3396211d#40, 0x367ffca52f#40, 0xd3eb57a950#40, 0x4ea73d2d62#40, 0x5a82153187#40, 0xc7ce7fb5b5#40, 0x225ad4b9ca#40, 0xbf16be3df8#40, 0x1e37bc4213#40, 0x837bd6c621#40, 0x66ef7dca5e#40, 0xfba3174e6c#40, 0xef863f5289#40, 0x72ca55d6bb#40, 0x975efedac4#40, 0xa12945ef6#40, 0xb5042a630e#40, 0x284840e73c#40, 0xcddcebeb43#40, 0x5090816f71#40, 0x44b5a97394#40, 0xd9f9c3f7a6#40, 0x3c6d68fbd9#40, 0xa121027feb#40]
def tab5 : List W := [0x14318cfc34#40, 0x22739ddc41#40, 0x3642112075#40, 0x44b7bf9c82#40, 0x50863360b6#40, 0x66c42240c3#40, 0x72f5aebcf7#40, 0x837ffbb904#40, 0x974e774530#40, 0xa10c666545#40, 0xb53dea9971#40, 0xc7c8442586#40, 0xd3f9c8d9b2#40, 0xe5bbd9f9c7#40, 0xf18a5505f3#40, 0x4eaf73f208#40, 0x5a9eff0e3c#40, 0x6cdcee2e49#40, 0x78ed62d27d#40, 0xa18cc6e8a#40, 0x1e294092be#40, 0x286b51b2cb#40, 0x3c5add4eff#40, 0xcdd0884b0c#40, 0xd9e104b738#40, 0xefa315974d#40, 0xfb92996b79#40, 0x896737d78e#40, 0x9d56bb2bba#40, 0xab14aa0bcf#40, 0xbf2526f7fb#40]
def tab6 : List W := [0xd0fb2b0463#40, 0xe9a6d288c6#40, 0x395df98ca5#40, 0x9b1fa5118c#40, 0x4be48e15ef#40, 0x72b977994a#40, 0xa2425c9d29#40, 0x7e3dda2318#40, 0xaec6f1277b#40, 0x979b08abde#40, 0x476023afbd#40, 0xe5227f3294#40, 0x35d95436f7#40, 0xc84adba52#40, 0xdc7f86be31#40, 0xf66b30c339#40, 0x26901bc75a#40, 0x1fcde24bff#40, 0xcf36c94f9c#40, 0x6d7495d2b5#40, 0xbd8fbed6d6#40, 0x84d2475a73#40, 0x54296c5e10#40, 0x8856eae021#40, 0x58adc1e442#40, 0x61f03868e7#40, 0xb10b136c84#40, 0x13494ff1ad#40, 0xc3b264f5ce#40, 0xfaef9d796b#40, 0x2a14b67d08#40]
def tab7 : List W := [0x4c08774b7c#40, 0x9250ee37f1#40, 0xde58997c8d#40, 0x6ca1c8eaeb#40, 0x20a9bfa197#40, 0xfef126dd1a#40, 0xb2f9519666#40, 0xd35315f4f6#40, 0x9f5b62bf8a#40, 0x4103fbc307#40, 0xd0b8c887b#40, 0xbff2dd1e1d#40, 0xf3faaa5561#40, 0x2da23329ec#40, 0x61aa446290#40, 0xeea4bb4dc5#40, 0xa2accc06b9#40, 0x7cf4557a34#40, 0x30fc223148#40, 0x820573a72e#40, 0xce0d04ec52#40, 0x10559d90df#40, 0x5c5deadba3#40, 0x3df7aeb933#40, 0x71ffd9f24f#40, 0xafa7408ec2#40, 0xe3af37c5be#40, 0x51566653d8#40, 0x1d5e1118a4#40, 0xc306886429#40, 0x8f0eff2f55#40]
def tab8 : List W := [0x8f9af1d85b#40, 0x5d75e3149f#40, 0xd2ef12ccc4#40, 0xb0fb562917#40, 0x3f61a7f14c#40, 0xed8eb53d88#40, 0x621444e5d3#40, 0x29a63c5207#40, 0xa63ccd8a5c#40, 0x74d3df4698#40, 0xfb492e9ec3#40, 0x995d6a7b10#40, 0x16c79ba34b#40, 0xc428896f8f#40, 0x4bb278b7d4#40, 0x531e6c852e#40, 0xdc849d5d75#40, 0xe6b8f91b1#40, 0x81f17e49ea#40, 0xe3e53aac39#40, 0x6c7fcb7462#40, 0xbe90d9b8a6#40, 0x310a2860fd#40, 0x7ab850d729#40, 0xf522a10f72#40, 0x27cdb3c3b6#40, 0xa857421bed#40, 0xca4306fe3e#40, 0x45d9f72665#40, 0x9736e5eaa1#40, 0x18ac1432fa#40]

set_option maxRecDepth 100000 in
theorem chunk0 : runChunk tab0 128 = some tab1 := by decide +kernel
set_option maxRecDepth 100000 in
theorem chunk1 : runChunk tab1 128 = some tab2 := by decide +kernel
set_option maxRecDepth 100000 in
theorem chunk2 : runChunk tab2 128 = some tab3 := by decide +kernel
set_option maxRecDepth 100000 in
theorem chunk3 : runChunk tab3 128 = some tab4 := by decide +kernel
set_option maxRecDepth 100000 in
theorem chunk4 : runChunk tab4 128 = some tab5 := by decide +kernel
set_option maxRecDepth 100000 in
theorem chunk5 : runChunk tab5 128 = some tab6 := by decide +kernel
set_option maxRecDepth 100000 in
theorem chunk6 : runChunk tab6 128 = some tab7 := by decide +kernel
set_option maxRecDepth 100000 in
theorem chunk7 : runChunk tab7 128 = some tab8 := by decide +kernel

end MsVerif.Checksum

/-
T2a, structural part: the op-by-op token stream of `encode env ctx ms` is the structural
token list `tokens env ctx ms`, and every op of an encoding is a direct minimal push or an
opcode (`Lexable`), provided atoms have the right lengths and numbers are below 2^31.
-/
import MsVerif.Lemmas.LexSerialize
import MsVerif.Model.Tokens

namespace MsVerif
namespace LexL
open Script

/-! ### `lexOps` algebra -/

theorem getLast?_or_append (a b : List Token) (p : Option Token) :
    (a ++ b).getLast?.or p = b.getLast?.or (a.getLast?.or p) := by
  cases hb : b.getLast? with
  | none =>
    have : b = [] := by simpa using hb
    subst this; simp
  | some x =>
    have : b ≠ [] := by intro h; subst h; simp at hb
    simp [List.getLast?_append, hb]

theorem lexOps_append_ok (s : Bool) : ∀ (a b : List Op) (prev : Option Token) (ta tb : List Token),
    lexOps s prev a = .ok ta → lexOps s (ta.getLast?.or prev) b = .ok tb →
    lexOps s prev (a ++ b) = .ok (ta ++ tb) := by
  intro a
  induction a with
  | nil => intro b prev ta tb h1 h2; simp [lexOps] at h1; subst h1; simpa using h2
  | cons op a ih =>
    intro b prev ta tb h1 h2
    simp only [lexOps, List.cons_append] at h1 ⊢
    cases ho : opLex s prev op with
    | error e => simp [ho] at h1
    | ok toks =>
      simp only [ho] at h1 ⊢
      cases hr : lexOps s (toks.getLast?.or prev) a with
      | error e => simp [hr] at h1
      | ok ts =>
        simp only [hr, Except.ok.injEq] at h1
        subst h1
        rw [getLast?_or_append] at h2
        rw [ih b _ ts tb hr h2]
        simp

theorem lexOps_snoc_inv (s : Bool) : ∀ (a : List Op) (op : Op) (prev : Option Token) (ts : List Token),
    lexOps s prev (a ++ [op]) = .ok ts →
    ∃ ta to, lexOps s prev a = .ok ta ∧ opLex s (ta.getLast?.or prev) op = .ok to ∧ ts = ta ++ to := by
  intro a
  induction a with
  | nil =>
    intro op prev ts h
    simp only [List.nil_append, lexOps] at h
    cases ho : opLex s prev op with
    | error e => simp [ho] at h
    | ok to =>
      simp only [ho, List.append_nil, Except.ok.injEq] at h
      exact ⟨[], to, rfl, by simpa using ho, by simp [h]⟩
  | cons x a ih =>
    intro op prev ts h
    simp only [List.cons_append, lexOps] at h
    cases hx : opLex s prev x with
    | error e => simp [hx] at h
    | ok tx =>
      simp only [hx] at h
      cases hr : lexOps s (tx.getLast?.or prev) (a ++ [op]) with
      | error e => simp [hr] at h
      | ok tr =>
        simp only [hr, Except.ok.injEq] at h
        obtain ⟨ta, to, h1, h2, h3⟩ := ih op _ tr hr
        refine ⟨tx ++ ta, to, ?_, ?_, ?_⟩
        · simp [lexOps, hx, h1]
        · rw [getLast?_or_append]; exact h2
        · rw [← h, h3]; simp

/-! ### single ops -/

theorem opLex_code (s : Bool) (prev : Option Token) (c : Opc) :
    opLex s prev (.code c) = opTokens s prev c.byte := rfl

theorem opLex_small {n : Nat} (h : n ≤ 16) (s : Bool) (prev : Option Token) :
    opLex s prev (.small n) = .ok [.num n] := by
  have : n = 0 ∨ n = 1 ∨ n = 2 ∨ n = 3 ∨ n = 4 ∨ n = 5 ∨ n = 6 ∨ n = 7 ∨ n = 8 ∨ n = 9 ∨ n = 10 ∨
      n = 11 ∨ n = 12 ∨ n = 13 ∨ n = 14 ∨ n = 15 ∨ n = 16 := by omega
  rcases this with rfl | rfl | rfl | rfl | rfl | rfl | rfl | rfl | rfl | rfl | rfl | rfl | rfl | rfl | rfl | rfl | rfl <;> rfl

theorem opLex_push (s : Bool) (prev : Option Token) (bs : Bytes) :
    opLex s prev (.push bs) = (pushToken bs).map ([·]) := rfl

theorem numDecodeRaw_single (c : UInt8) :
    numDecodeRaw [c] = if c.toNat ≥ 0x80 then - Int.ofNat (leValue [c &&& 0x7f]) else Int.ofNat c.toNat := by
  simp [numDecodeRaw, leValue]

theorem pushNum_single : ∀ n, n < 256 → hasPushNum (UInt8.ofNat n) = true →
    (n = 0x81 ∨ (1 ≤ n ∧ n ≤ 16)) := by decide +kernel

/-- `Builder::push_int` -/
theorem pushInt_lex {n : Nat} (h : n < 2147483648) (s : Bool) (prev : Option Token) :
    opLex s prev (pushInt n) = .ok [.num n] ∧ Lexable (pushInt n) := by
  unfold pushInt
  split
  · rename_i h16; exact ⟨opLex_small h16 s prev, h16⟩
  · rename_i h16
    have hp := pushToken_numEncode h
    obtain ⟨h1, h2, _, h4⟩ := numEncode_pos (by omega : 0 < n) h
    refine ⟨by rw [opLex_push, hp]; rfl, h2, by omega, ?_⟩
    intro c hc
    rw [hc, numDecodeRaw_single] at h4
    cases hpn : hasPushNum c with
    | false => rfl
    | true =>
      exfalso
      have hlt := u8_toNat_lt c
      have := pushNum_single c.toNat hlt (by rw [← u8_eq_ofNat]; exact hpn)
      split at h4
      · have : (0 : Int) ≤ Int.ofNat n := Int.natCast_nonneg n
        have h5 : - Int.ofNat (leValue [c &&& 0x7f]) ≤ 0 := by
          have : (0 : Int) ≤ Int.ofNat (leValue [c &&& 0x7f]) := Int.natCast_nonneg _
          omega
        simp only [Int.ofNat_eq_natCast] at h4 h5 this
        omega
      · simp only [Int.ofNat_eq_natCast] at h4
        omega

theorem push_lexable {bs : Bytes} (h : 20 ≤ bs.length) (h2 : bs.length ≤ 75) : Lexable (.push bs) := by
  refine ⟨by omega, h2, ?_⟩
  intro c hc; rw [hc] at h; simp at h

theorem key_lex {bs : Bytes} (h : bs.length = 32 ∨ bs.length = 33 ∨ bs.length = 65) (s : Bool)
    (prev : Option Token) : opLex s prev (.push bs) = .ok [keyTok bs] ∧ Lexable (.push bs) := by
  refine ⟨?_, push_lexable (by omega) (by omega)⟩
  rw [opLex_push]
  rcases h with h | h | h <;> simp [pushToken, keyTok, h] <;> rfl

theorem h20_lex {bs : Bytes} (h : bs.length = 20) (s : Bool) (prev : Option Token) :
    opLex s prev (.push bs) = .ok [.hash20 bs] ∧ Lexable (.push bs) := by
  refine ⟨?_, push_lexable (by omega) (by omega)⟩
  rw [opLex_push]; simp [pushToken, h]; rfl

theorem h32_lex {bs : Bytes} (h : bs.length = 32) (s : Bool) (prev : Option Token) :
    opLex s prev (.push bs) = .ok [.bytes32 bs] ∧ Lexable (.push bs) := by
  refine ⟨?_, push_lexable (by omega) (by omega)⟩
  rw [opLex_push]; simp [pushToken, h]; rfl

end LexL
end MsVerif

namespace MsVerif
namespace LexL
open Script

/-! ### prev-independent pieces -/

/-- `a` lexes to `ta` whatever came before -/
def PI (s : Bool) (a : List Op) (ta : List Token) : Prop := ∀ prev, lexOps s prev a = .ok ta

theorem PI.nil (s : Bool) : PI s [] [] := fun _ => rfl

theorem PI.append {s : Bool} {a b : List Op} {ta tb : List Token} (h1 : PI s a ta) (h2 : PI s b tb) :
    PI s (a ++ b) (ta ++ tb) := fun prev => lexOps_append_ok s a b prev ta tb (h1 prev) (h2 _)

theorem PI.single {s : Bool} {op : Op} {t : List Token} (h : ∀ prev, opLex s prev op = .ok t) :
    PI s [op] t := by
  intro prev; simp [lexOps, h prev]

theorem PI.cons {s : Bool} {op : Op} {t : List Token} {a : List Op} {ta : List Token}
    (h : ∀ prev, opLex s prev op = .ok t) (h2 : PI s a ta) : PI s (op :: a) (t ++ ta) :=
  (PI.single h).append h2

/-- tokens of every opcode except `OP_VERIFY` (whose lexing looks at the previous token) -/
def codeToks : Opc → List Token
  | .dup => [.dup] | .ifdup => [.ifDup] | .swap => [.swap] | .size => [.size] | .toalt => [.toAlt]
  | .fromalt => [.fromAlt] | .drop => [.drop] | .if_ => [.if_] | .notif => [.notIf]
  | .else_ => [.else_] | .endif => [.endIf] | .verify => [.verify]
  | .equal => [.equal] | .equalverify => [.equal, .verify] | .numequal => [.numEqual]
  | .numequalverify => [.numEqual, .verify] | .add => [.add] | .booland => [.boolAnd]
  | .boolor => [.boolOr] | .zeronotequal => [.zeroNotEqual] | .sha256 => [.sha256]
  | .hash256 => [.hash256] | .ripemd160 => [.ripemd160] | .hash160 => [.hash160]
  | .checksig => [.checkSig] | .checksigverify => [.checkSig, .verify]
  | .checksigadd => [.checkSigAdd] | .checkmultisig => [.checkMultiSig]
  | .checkmultisigverify => [.checkMultiSig, .verify] | .cltv => [.cltv] | .csv => [.csv]

theorem opLex_code_ne {c : Opc} (h : c ≠ .verify) (s : Bool) (prev : Option Token) :
    opLex s prev (.code c) = .ok (codeToks c) := by
  cases c <;> first | rfl | exact absurd rfl h

theorem opLex_verify (s : Bool) (prev : Option Token) :
    opLex s prev (.code .verify) =
      match prev with
      | some t => if fusesVerify s t then .error .nonMinimalVerify else .ok [.verify]
      | none => .ok [.verify] := rfl

theorem PI.code {c : Opc} (h : c ≠ .verify) (s : Bool) : PI s [.code c] (codeToks c) :=
  PI.single (opLex_code_ne h s)

/-! ### atoms of the right size -/

def keyLenOk (env : KeyEnv) (k : Key) : Prop :=
  (env.ser k).length = 32 ∨ (env.ser k).length = 33 ∨ (env.ser k).length = 65

def hashLen : HashKind → Nat
  | .sha256 | .hash256 => 32
  | .ripemd160 | .hash160 => 20

mutual
/-- atoms serialise with the lengths of real keys / hashes, numbers fit a 4-byte script number -/
def AtomsOk (env : KeyEnv) : Ms → Prop
  | .pkK k => keyLenOk env k
  | .pkH k => (env.pkh k).length = 20
  | .rawPkH h => (env.rawPkh h).length = 20
  | .after n | .older n => n < 2147483648
  | .hash kind h => (env.hashVal kind h).length = hashLen kind
  | .tru | .fls => True
  | .alt x | .swap x | .check x | .dupIf x | .verify x | .nonZero x | .zeroNotEqual x => AtomsOk env x
  | .andV l r | .andB l r | .orB l r | .orD l r | .orC l r | .orI l r => AtomsOk env l ∧ AtomsOk env r
  | .andOr a b c => AtomsOk env a ∧ AtomsOk env b ∧ AtomsOk env c
  | .thresh k xs => k < 2147483648 ∧ AtomsOkL env xs
  | .multi k ks | .sortedMulti k ks =>
    k < 2147483648 ∧ ks.length < 2147483648 ∧ ∀ x ∈ ks, keyLenOk env x
  | .multiA k ks | .sortedMultiA k ks => k < 2147483648 ∧ ∀ x ∈ ks, keyLenOk env x
def AtomsOkL (env : KeyEnv) : MsList → Prop
  | .nil => True
  | .cons x xs => AtomsOk env x ∧ AtomsOkL env xs
end

theorem mem_insertByKey (env : KeyEnv) (k x : Key) (l : List Key) :
    x ∈ insertByKey env k l → x = k ∨ x ∈ l := by
  induction l with
  | nil => simp [insertByKey]
  | cons y l ih =>
    simp only [insertByKey]
    split
    · intro h
      rcases List.mem_cons.mp h with h | h
      · exact .inr (by simp [h])
      · rcases ih h with h | h
        · exact .inl h
        · exact .inr (by simp [h])
    · intro h
      rcases List.mem_cons.mp h with h | h
      · exact .inl h
      · exact .inr h

theorem mem_sortKeys (env : KeyEnv) (ks : List Key) (x : Key) : x ∈ sortKeys env ks → x ∈ ks := by
  unfold sortKeys
  suffices ∀ acc, x ∈ ks.foldl (fun acc k => insertByKey env k acc) acc → x ∈ acc ∨ x ∈ ks by
    intro h; simpa using this [] h
  induction ks with
  | nil => intro acc h; exact .inl h
  | cons k ks ih =>
    intro acc h
    simp only [List.foldl_cons] at h
    rcases ih _ h with h | h
    · rcases mem_insertByKey env k x acc h with h | h
      · exact .inr (by simp [h])
      · exact .inl h
    · exact .inr (by simp [h])

end LexL
end MsVerif

namespace MsVerif
namespace LexL
open Script

/-! ### every op of an encoding is lexable -/

theorem pushVerify_mem (E : List Op) (op : Op) (h : op ∈ pushVerify E) : op ∈ E ∨ ∃ c, op = .code c := by
  unfold pushVerify at h
  split at h
  all_goals
    rcases List.mem_append.mp h with h | h
    · first
        | exact .inl (List.dropLast_subset _ h)
        | exact .inl h
    · simp at h; exact .inr ⟨_, h⟩

theorem lexable_pushInt {n : Nat} (h : n < 2147483648) : Lexable (pushInt n) := (pushInt_lex h false none).2

theorem lexable_key {env : KeyEnv} {k : Key} (h : keyLenOk env k) : Lexable (.push (env.ser k)) :=
  (key_lex h false none).2

theorem lexable_multiA (env : KeyEnv) : ∀ (ks : List Key), (∀ x ∈ ks, keyLenOk env x) →
    ∀ op ∈ encodeMultiA env ks, Lexable op := by
  intro ks h op hop
  cases ks with
  | nil => simp [encodeMultiA] at hop
  | cons k ks =>
    simp only [encodeMultiA, List.mem_append, List.mem_cons, List.mem_flatMap] at hop
    rcases hop with (rfl | rfl | h0) | ⟨x, hx, rfl | rfl | h0⟩
    · exact lexable_key (h k (by simp))
    · trivial
    · simp at h0
    · exact lexable_key (h x (by simp [hx]))
    · trivial
    · simp at h0

mutual
theorem lexable_encode (env : KeyEnv) (ctx : Ctx) : (ms : Ms) → AtomsOk env ms →
    ∀ op ∈ encode env ctx ms, Lexable op
  | .pkK k, h, op, hop => by
    simp only [encode, List.mem_singleton] at hop; subst hop; exact lexable_key h
  | .pkH k, h, op, hop => by
    simp only [encode, List.mem_cons] at hop
    rcases hop with rfl | rfl | rfl | rfl | h0
    · trivial
    · trivial
    · exact (h20_lex h false none).2
    · trivial
    · simp at h0
  | .rawPkH k, h, op, hop => by
    simp only [encode, List.mem_cons] at hop
    rcases hop with rfl | rfl | rfl | rfl | h0
    · trivial
    · trivial
    · exact (h20_lex h false none).2
    · trivial
    · simp at h0
  | .after n, h, op, hop => by
    simp only [encode, List.mem_cons] at hop
    rcases hop with rfl | rfl | h0
    · exact lexable_pushInt h
    · trivial
    · simp at h0
  | .older n, h, op, hop => by
    simp only [encode, List.mem_cons] at hop
    rcases hop with rfl | rfl | h0
    · exact lexable_pushInt h
    · trivial
    · simp at h0
  | .hash kind hh, h, op, hop => by
    simp only [encode, List.mem_cons] at hop
    rcases hop with rfl | rfl | rfl | rfl | rfl | rfl | h0
    · trivial
    · exact lexable_pushInt (by omega)
    · trivial
    · trivial
    · simp only [AtomsOk] at h
      cases kind <;> simp only [hashLen] at h
      · exact (h32_lex h false none).2
      · exact (h32_lex h false none).2
      · exact (h20_lex h false none).2
      · exact (h20_lex h false none).2
    · trivial
    · simp at h0
  | .tru, _, op, hop => by
    simp only [encode, List.mem_singleton] at hop; subst hop; show (1 : Nat) ≤ 16; omega
  | .fls, _, op, hop => by
    simp only [encode, List.mem_singleton] at hop; subst hop; show (0 : Nat) ≤ 16; omega
  | .alt x, h, op, hop => by
    simp only [encode, List.mem_append, List.mem_singleton] at hop
    rcases hop with (rfl | h1) | rfl
    · trivial
    · exact lexable_encode env ctx x h op h1
    · trivial
  | .swap x, h, op, hop => by
    simp only [encode, List.mem_append, List.mem_singleton] at hop
    rcases hop with rfl | h1
    · trivial
    · exact lexable_encode env ctx x h op h1
  | .check x, h, op, hop => by
    simp only [encode, List.mem_append, List.mem_singleton] at hop
    rcases hop with h1 | rfl
    · exact lexable_encode env ctx x h op h1
    · trivial
  | .dupIf x, h, op, hop => by
    simp only [encode, List.mem_append, List.mem_cons, List.mem_singleton] at hop
    rcases hop with ((rfl | rfl | h0) | h1) | rfl | h0
    · trivial
    · trivial
    · simp at h0
    · exact lexable_encode env ctx x h op h1
    · trivial
    · simp at h0
  | .verify x, h, op, hop => by
    simp only [encode] at hop
    rcases pushVerify_mem _ _ hop with h1 | ⟨c, rfl⟩
    · exact lexable_encode env ctx x h op h1
    · trivial
  | .nonZero x, h, op, hop => by
    simp only [encode, List.mem_append, List.mem_cons, List.mem_singleton] at hop
    rcases hop with ((rfl | rfl | rfl | h0) | h1) | rfl | h0
    · trivial
    · trivial
    · trivial
    · simp at h0
    · exact lexable_encode env ctx x h op h1
    · trivial
    · simp at h0
  | .zeroNotEqual x, h, op, hop => by
    simp only [encode, List.mem_append, List.mem_singleton] at hop
    rcases hop with h1 | rfl
    · exact lexable_encode env ctx x h op h1
    · trivial
  | .andV l r, h, op, hop => by
    simp only [encode, List.mem_append] at hop
    rcases hop with h1 | h1
    · exact lexable_encode env ctx l h.1 op h1
    · exact lexable_encode env ctx r h.2 op h1
  | .andB l r, h, op, hop => by
    simp only [encode, List.mem_append, List.mem_singleton] at hop
    rcases hop with (h1 | h1) | rfl
    · exact lexable_encode env ctx l h.1 op h1
    · exact lexable_encode env ctx r h.2 op h1
    · trivial
  | .orB l r, h, op, hop => by
    simp only [encode, List.mem_append, List.mem_singleton] at hop
    rcases hop with (h1 | h1) | rfl
    · exact lexable_encode env ctx l h.1 op h1
    · exact lexable_encode env ctx r h.2 op h1
    · trivial
  | .andOr a b c, h, op, hop => by
    simp only [encode, List.mem_append, List.mem_singleton] at hop
    rcases hop with ((((h1 | rfl) | h1) | rfl) | h1) | rfl
    · exact lexable_encode env ctx a h.1 op h1
    · trivial
    · exact lexable_encode env ctx c h.2.2 op h1
    · trivial
    · exact lexable_encode env ctx b h.2.1 op h1
    · trivial
  | .orD l r, h, op, hop => by
    simp only [encode, List.mem_append, List.mem_cons, List.mem_singleton] at hop
    rcases hop with ((h1 | (rfl | rfl | h0)) | h1) | rfl | h0
    · exact lexable_encode env ctx l h.1 op h1
    · trivial
    · trivial
    · simp at h0
    · exact lexable_encode env ctx r h.2 op h1
    · trivial
    · simp at h0
  | .orC l r, h, op, hop => by
    simp only [encode, List.mem_append, List.mem_singleton] at hop
    rcases hop with ((h1 | rfl) | h1) | rfl
    · exact lexable_encode env ctx l h.1 op h1
    · trivial
    · exact lexable_encode env ctx r h.2 op h1
    · trivial
  | .orI l r, h, op, hop => by
    simp only [encode, List.mem_append, List.mem_singleton] at hop
    rcases hop with (((rfl | h1) | rfl) | h1) | rfl
    · trivial
    · exact lexable_encode env ctx l h.1 op h1
    · trivial
    · exact lexable_encode env ctx r h.2 op h1
    · trivial
  | .thresh k xs, h, op, hop => by
    simp only [encode, List.mem_append, List.mem_cons] at hop
    rcases hop with h1 | rfl | rfl | h0
    · exact lexable_encodeThresh env ctx true xs h.2 op h1
    · exact lexable_pushInt h.1
    · trivial
    · simp at h0
  | .multi k ks, h, op, hop => by
    simp only [encode, List.mem_append, List.mem_cons, List.mem_map] at hop
    rcases hop with ((rfl | h0) | ⟨x, hx, rfl⟩) | rfl | rfl | h0
    · exact lexable_pushInt h.1
    · simp at h0
    · exact lexable_key (h.2.2 x hx)
    · exact lexable_pushInt h.2.1
    · trivial
    · simp at h0
  | .sortedMulti k ks, h, op, hop => by
    simp only [encode, List.mem_append, List.mem_cons, List.mem_map] at hop
    rcases hop with ((rfl | h0) | ⟨x, hx, rfl⟩) | rfl | rfl | h0
    · exact lexable_pushInt h.1
    · simp at h0
    · exact lexable_key (h.2.2 x (mem_sortKeys env ks x hx))
    · exact lexable_pushInt h.2.1
    · trivial
    · simp at h0
  | .multiA k ks, h, op, hop => by
    simp only [encode, List.mem_append, List.mem_cons] at hop
    rcases hop with h1 | rfl | rfl | h0
    · exact lexable_multiA env ks h.2 op h1
    · exact lexable_pushInt h.1
    · trivial
    · simp at h0
  | .sortedMultiA k ks, h, op, hop => by
    simp only [encode, List.mem_append, List.mem_cons] at hop
    rcases hop with h1 | rfl | rfl | h0
    · exact lexable_multiA env _ (fun x hx => h.2 x (mem_sortKeys env ks x hx)) op h1
    · exact lexable_pushInt h.1
    · trivial
    · simp at h0
theorem lexable_encodeThresh (env : KeyEnv) (ctx : Ctx) (first : Bool) : (xs : MsList) →
    AtomsOkL env xs → ∀ op ∈ encodeThresh env ctx first xs, Lexable op
  | .nil, _, op, hop => by simp [encodeThresh] at hop
  | .cons x xs, h, op, hop => by
    simp only [encodeThresh, List.mem_append] at hop
    rcases hop with (h1 | h1) | h1
    · exact lexable_encode env ctx x h.1 op h1
    · cases first <;> simp at h1
      subst h1; trivial
    · exact lexable_encodeThresh env ctx false xs h.2 op h1
end

end LexL
end MsVerif

namespace MsVerif
namespace LexL
open Script

/-! ### the token stream of an encoding -/

theorem pushVerify_ne_nil (E : List Op) : pushVerify E ≠ [] := by
  unfold pushVerify; split <;> simp

theorem encode_ne_nil (env : KeyEnv) (ctx : Ctx) : (ms : Ms) → encode env ctx ms ≠ []
  | .verify x => by simp only [encode]; exact pushVerify_ne_nil _
  | .andV l r => by simp only [encode]; simp [encode_ne_nil env ctx l]
  | .swap x => by simp [encode]
  | .check x => by simp [encode]
  | .zeroNotEqual x => by simp [encode]
  | .alt _ | .dupIf _ | .nonZero _ | .andB _ _ | .andOr _ _ _ | .orB _ _ | .orD _ _ | .orC _ _
  | .orI _ _ | .thresh _ _ | .multi _ _ | .sortedMulti _ _ | .multiA _ _ | .sortedMultiA _ _
  | .pkK _ | .pkH _ | .rawPkH _ | .after _ | .older _ | .hash _ _ | .tru | .fls => by simp [encode]

theorem pushToken_not_fuse {bs : Bytes} {t : Token} (h : pushToken bs = .ok t) (s : Bool) :
    fusesVerify s t = false := by
  unfold pushToken at h
  repeat' (first | split at h | (dsimp only at h))
  all_goals first
    | (cases h; done)
    | (cases h; rfl)

/-- the last token of a lexable op other than the four fusable opcodes never blocks `OP_VERIFY` -/
theorem last_not_fuse {s : Bool} {p : Option Token} {op : Op} {to : List Token} (hl : Lexable op)
    (h : opLex s p op = .ok to)
    (hne : op ≠ .code .equal ∧ op ≠ .code .numequal ∧ op ≠ .code .checksig ∧ op ≠ .code .checkmultisig) :
    ∃ t, to.getLast? = some t ∧ fusesVerify s t = false := by
  cases op with
  | small n =>
    rw [opLex_small hl] at h; cases h; exact ⟨_, rfl, rfl⟩
  | push bs =>
    rw [opLex_push] at h
    cases hp : pushToken bs with
    | error e => rw [hp] at h; cases h
    | ok t => rw [hp] at h; cases h; exact ⟨t, rfl, pushToken_not_fuse hp s⟩
  | bad b => exact absurd hl (by simp [Lexable])
  | code c =>
    by_cases hv : c = .verify
    · subst hv
      rw [opLex_verify] at h
      split at h
      · split at h
        · cases h
        · cases h; exact ⟨_, rfl, rfl⟩
      · cases h; exact ⟨_, rfl, rfl⟩
    · rw [opLex_code_ne hv] at h
      cases h
      obtain ⟨h1, h2, h3, h4⟩ := hne
      cases c <;> first
        | exact ⟨_, rfl, rfl⟩
        | exact absurd rfl h1
        | exact absurd rfl h2
        | exact absurd rfl h3
        | exact absurd rfl h4

theorem PI.pushInt {n : Nat} (h : n < 2147483648) (s : Bool) : PI s [pushInt n] [.num n] :=
  PI.single (fun prev => (pushInt_lex h s prev).1)

theorem PI.keys (env : KeyEnv) (s : Bool) : ∀ (ks : List Key), (∀ x ∈ ks, keyLenOk env x) →
    PI s (ks.map (fun pk => Op.push (env.ser pk))) (ks.map (fun pk => keyTok (env.ser pk))) := by
  intro ks
  induction ks with
  | nil => intro _; exact PI.nil s
  | cons k ks ih =>
    intro h
    exact PI.cons (fun prev => (key_lex (h k (by simp)) s prev).1) (ih (fun x hx => h x (by simp [hx])))

theorem PI.csa (env : KeyEnv) (s : Bool) : ∀ (ks : List Key), (∀ x ∈ ks, keyLenOk env x) →
    PI s (ks.flatMap (fun pk => [Op.push (env.ser pk), .code .checksigadd]))
      (ks.flatMap (fun pk => [keyTok (env.ser pk), .checkSigAdd])) := by
  intro ks
  induction ks with
  | nil => intro _; exact PI.nil s
  | cons k ks ih =>
    intro h
    simp only [List.flatMap_cons]
    exact (PI.cons (fun prev => (key_lex (h k (by simp)) s prev).1)
      (PI.code (c := .checksigadd) (by decide) s)).append (ih (fun x hx => h x (by simp [hx])))

theorem PI.multiA (env : KeyEnv) (s : Bool) (ks : List Key) (h : ∀ x ∈ ks, keyLenOk env x) :
    PI s (encodeMultiA env ks) (multiATokens env ks) := by
  cases ks with
  | nil => exact PI.nil s
  | cons k ks =>
    simp only [encodeMultiA, multiATokens]
    exact (PI.cons (fun prev => (key_lex (h k (by simp)) s prev).1)
      (PI.code (c := .checksig) (by decide) s)).append (PI.csa env s ks (fun x hx => h x (by simp [hx])))

theorem hashOp_PI (s : Bool) (kind : HashKind) : PI s [.code (hashOpc kind)] [hashOpTok kind] := by
  cases kind <;> exact PI.code (by decide) s

theorem hashVal_PI {env : KeyEnv} {kind : HashKind} {h : Nat}
    (hl : (env.hashVal kind h).length = hashLen kind) (s : Bool) :
    PI s [.push (env.hashVal kind h)] [hashValTok kind (env.hashVal kind h)] := by
  cases kind <;> simp only [hashLen] at hl
  · exact PI.single (fun prev => (h32_lex hl s prev).1)
  · exact PI.single (fun prev => (h32_lex hl s prev).1)
  · exact PI.single (fun prev => (h20_lex hl s prev).1)
  · exact PI.single (fun prev => (h20_lex hl s prev).1)

theorem eq_dropLast_append {α} (l : List α) (a : α) (h : l.getLast? = some a) :
    l = l.dropLast ++ [a] := by
  induction l with
  | nil => cases h
  | cons x xs ih =>
    cases xs with
    | nil => simp at h; simp [h]
    | cons y ys =>
      rw [List.getLast?_cons_cons] at h
      rw [List.dropLast_cons_cons, List.cons_append, ← ih h]

/-- `push_verify` on a piece that lexes independently of what precedes it -/
theorem PI_pushVerify {s : Bool} {E : List Op} {tE : List Token} (hE : PI s E tE) (hne : E ≠ [])
    (hlex : ∀ op ∈ E, Lexable op) : PI s (pushVerify E) (tE ++ [.verify]) := by
  intro prev
  cases hg : E.getLast? with
  | none => exact absurd (by simpa using hg) hne
  | some op =>
    have hs : E = E.dropLast ++ [op] := eq_dropLast_append E op hg
    have hE' := hE prev
    rw [hs] at hE'
    obtain ⟨ta, to, h1, h2, h3⟩ := lexOps_snoc_inv s _ _ _ _ hE'
    have hop : Lexable op := hlex op (by rw [hs]; simp)
    have fused : ∀ (c cv : Opc), c ≠ .verify → cv ≠ .verify → op = .code c →
        codeToks cv = codeToks c ++ [.verify] → pushVerify E = E.dropLast ++ [.code cv] →
        lexOps s prev (pushVerify E) = .ok (tE ++ [.verify]) := by
      intro c cv hc hcv hopc htk hpv
      subst hopc
      rw [opLex_code_ne hc] at h2
      cases h2
      rw [hpv, h3, List.append_assoc, ← htk]
      exact lexOps_append_ok s _ _ prev ta _ h1 ((PI.code hcv s) _)
    by_cases e1 : op = .code .equal
    · exact fused .equal .equalverify (by decide) (by decide) e1 rfl (by simp [pushVerify, hg, e1])
    by_cases e2 : op = .code .numequal
    · exact fused .numequal .numequalverify (by decide) (by decide) e2 rfl (by simp [pushVerify, hg, e2])
    by_cases e3 : op = .code .checksig
    · exact fused .checksig .checksigverify (by decide) (by decide) e3 rfl (by simp [pushVerify, hg, e3])
    by_cases e4 : op = .code .checkmultisig
    · exact fused .checkmultisig .checkmultisigverify (by decide) (by decide) e4 rfl
        (by simp [pushVerify, hg, e4])
    -- plain `OP_VERIFY` appended
    have hpv : pushVerify E = E ++ [.code .verify] := by
      unfold pushVerify
      rw [hg]
      split <;> first
        | rfl
        | (rename_i heq; cases heq; first | exact absurd rfl e1 | exact absurd rfl e2 | exact absurd rfl e3 | exact absurd rfl e4)
    obtain ⟨t, ht, hf⟩ := last_not_fuse hop h2 ⟨e1, e2, e3, e4⟩
    rw [hpv]
    refine lexOps_append_ok s _ _ prev tE _ (hE prev) ?_
    have hlast : tE.getLast? = some t := by
      rw [h3]
      cases to with
      | nil => simp at ht
      | cons a to => rw [List.getLast?_append]; simp [ht]
    simp [lexOps, opLex_verify, hlast, hf]

end LexL
end MsVerif

namespace MsVerif
namespace LexL
open Script

theorem PI.code1 {c : Opc} {t : Token} (s : Bool) (h : c ≠ .verify) (ht : codeToks c = [t]) :
    PI s [.code c] [t] := ht ▸ PI.code h s

mutual
theorem lex_encode (env : KeyEnv) (ctx : Ctx) (s : Bool) : (ms : Ms) → AtomsOk env ms →
    PI s (encode env ctx ms) (tokens env ctx ms)
  | .pkK k, h => by
    simp only [encode, tokens]
    exact PI.single (fun prev => (key_lex h s prev).1)
  | .pkH k, h => by
    simp only [encode, tokens]
    exact PI.cons (opLex_code_ne (c := .dup) (by decide) s)
      (PI.cons (opLex_code_ne (c := .hash160) (by decide) s)
      (PI.cons (fun prev => (h20_lex h s prev).1) (PI.code (c := .equalverify) (by decide) s)))
  | .rawPkH k, h => by
    simp only [encode, tokens]
    exact PI.cons (opLex_code_ne (c := .dup) (by decide) s)
      (PI.cons (opLex_code_ne (c := .hash160) (by decide) s)
      (PI.cons (fun prev => (h20_lex h s prev).1) (PI.code (c := .equalverify) (by decide) s)))
  | .after n, h => by
    simp only [encode, tokens]
    exact PI.cons (fun prev => (pushInt_lex h s prev).1) (PI.code (c := .cltv) (by decide) s)
  | .older n, h => by
    simp only [encode, tokens]
    exact PI.cons (fun prev => (pushInt_lex h s prev).1) (PI.code (c := .csv) (by decide) s)
  | .hash kind hh, h => by
    simp only [encode, tokens]
    exact PI.cons (opLex_code_ne (c := .size) (by decide) s)
      (PI.cons (fun prev => (pushInt_lex (n := 32) (by omega) s prev).1)
      ((PI.code (c := .equalverify) (by decide) s).append
      ((hashOp_PI s kind).append ((hashVal_PI h s).append (PI.code (c := .equal) (by decide) s)))))
  | .tru, _ => by
    simp only [encode, tokens]; exact PI.single (opLex_small (by omega) s)
  | .fls, _ => by
    simp only [encode, tokens]; exact PI.single (opLex_small (by omega) s)
  | .alt x, h => by
    simp only [encode, tokens]
    exact ((PI.code (c := .toalt) (by decide) s).append (lex_encode env ctx s x h)).append
      (PI.code (c := .fromalt) (by decide) s)
  | .swap x, h => by
    simp only [encode, tokens]
    exact (PI.code (c := .swap) (by decide) s).append (lex_encode env ctx s x h)
  | .check x, h => by
    simp only [encode, tokens]
    exact (lex_encode env ctx s x h).append (PI.code (c := .checksig) (by decide) s)
  | .dupIf x, h => by
    simp only [encode, tokens]
    exact ((PI.cons (opLex_code_ne (c := .dup) (by decide) s) (PI.code (c := .if_) (by decide) s)).append
      (lex_encode env ctx s x h)).append (PI.code (c := .endif) (by decide) s)
  | .verify x, h => by
    simp only [encode, tokens]
    exact PI_pushVerify (lex_encode env ctx s x h) (encode_ne_nil env ctx x) (lexable_encode env ctx x h)
  | .nonZero x, h => by
    simp only [encode, tokens]
    exact ((PI.cons (opLex_code_ne (c := .size) (by decide) s)
      (PI.cons (opLex_code_ne (c := .zeronotequal) (by decide) s) (PI.code (c := .if_) (by decide) s))).append
      (lex_encode env ctx s x h)).append (PI.code (c := .endif) (by decide) s)
  | .zeroNotEqual x, h => by
    simp only [encode, tokens]
    exact (lex_encode env ctx s x h).append (PI.code (c := .zeronotequal) (by decide) s)
  | .andV l r, h => by
    simp only [encode, tokens]
    exact (lex_encode env ctx s l h.1).append (lex_encode env ctx s r h.2)
  | .andB l r, h => by
    simp only [encode, tokens]
    exact ((lex_encode env ctx s l h.1).append (lex_encode env ctx s r h.2)).append
      (PI.code (c := .booland) (by decide) s)
  | .orB l r, h => by
    simp only [encode, tokens]
    exact ((lex_encode env ctx s l h.1).append (lex_encode env ctx s r h.2)).append
      (PI.code (c := .boolor) (by decide) s)
  | .andOr a b c, h => by
    simp only [encode, tokens]
    exact (((((lex_encode env ctx s a h.1).append (PI.code (c := .notif) (by decide) s)).append
      (lex_encode env ctx s c h.2.2)).append (PI.code (c := .else_) (by decide) s)).append
      (lex_encode env ctx s b h.2.1)).append (PI.code (c := .endif) (by decide) s)
  | .orD l r, h => by
    simp only [encode, tokens]
    exact (((lex_encode env ctx s l h.1).append
      (PI.cons (opLex_code_ne (c := .ifdup) (by decide) s) (PI.code (c := .notif) (by decide) s))).append
      (lex_encode env ctx s r h.2)).append (PI.code (c := .endif) (by decide) s)
  | .orC l r, h => by
    simp only [encode, tokens]
    exact (((lex_encode env ctx s l h.1).append (PI.code (c := .notif) (by decide) s)).append
      (lex_encode env ctx s r h.2)).append (PI.code (c := .endif) (by decide) s)
  | .orI l r, h => by
    simp only [encode, tokens]
    exact ((((PI.code (c := .if_) (by decide) s).append (lex_encode env ctx s l h.1)).append
      (PI.code (c := .else_) (by decide) s)).append (lex_encode env ctx s r h.2)).append
      (PI.code (c := .endif) (by decide) s)
  | .thresh k xs, h => by
    simp only [encode, tokens]
    exact (lex_encodeThresh env ctx s true xs h.2).append
      (PI.cons (fun prev => (pushInt_lex h.1 s prev).1) (PI.code (c := .equal) (by decide) s))
  | .multi k ks, h => by
    simp only [encode, tokens]
    exact ((PI.pushInt h.1 s).append (PI.keys env s ks h.2.2)).append
      (PI.cons (fun prev => (pushInt_lex h.2.1 s prev).1) (PI.code (c := .checkmultisig) (by decide) s))
  | .sortedMulti k ks, h => by
    simp only [encode, tokens]
    exact ((PI.pushInt h.1 s).append
      (PI.keys env s _ (fun x hx => h.2.2 x (mem_sortKeys env ks x hx)))).append
      (PI.cons (fun prev => (pushInt_lex h.2.1 s prev).1) (PI.code (c := .checkmultisig) (by decide) s))
  | .multiA k ks, h => by
    simp only [encode, tokens]
    exact (PI.multiA env s ks h.2).append
      (PI.cons (fun prev => (pushInt_lex h.1 s prev).1) (PI.code (c := .numequal) (by decide) s))
  | .sortedMultiA k ks, h => by
    simp only [encode, tokens]
    exact (PI.multiA env s _ (fun x hx => h.2 x (mem_sortKeys env ks x hx))).append
      (PI.cons (fun prev => (pushInt_lex h.1 s prev).1) (PI.code (c := .numequal) (by decide) s))
theorem lex_encodeThresh (env : KeyEnv) (ctx : Ctx) (s : Bool) (first : Bool) : (xs : MsList) →
    AtomsOkL env xs → PI s (encodeThresh env ctx first xs) (threshTokens env ctx first xs)
  | .nil, _ => by simp only [encodeThresh, threshTokens]; exact PI.nil s
  | .cons x xs, h => by
    simp only [encodeThresh, threshTokens]
    refine ((lex_encode env ctx s x h.1).append ?_).append (lex_encodeThresh env ctx s false xs h.2)
    cases first
    · exact PI.code (c := .add) (by decide) s
    · exact PI.nil s
end

/-- T2a for either lexer: bytes of an encoding lex to the structural token list -/
theorem lexG_encode (env : KeyEnv) (ctx : Ctx) (s : Bool) (ms : Ms) (h : AtomsOk env ms) :
    lexG s (serialize (encode env ctx ms)) = .ok (tokens env ctx ms) := by
  rw [lexG_eq, lexB_serialize s _ (lexable_encode env ctx ms h)]
  exact lex_encode env ctx s ms h none

end LexL
end MsVerif

/-
Execution lemmas for the n-ary fragments: `thresh` (ADD chain), `multi` (CHECKMULTISIG) and
`multi_a` (CHECKSIG / CHECKSIGADD chain).  Limits disabled.
-/
import MsVerif.Lemmas.SatExec

namespace MsVerif.SatSpec
open MsVerif Script

variable {env : Env} {ke : KeyEnv} {ctx : Ctx}

theorem numOk_le_20 : ∀ n, n ≤ 20 → NumOk n := by unfold NumOk; decide

/-! ### thresh -/

theorem fragThresh_nil (first : Bool) (s : List Bytes) :
    Runs (fragThresh env ke ctx first .nil) s s := by
  intro alt ops
  simp [fragThresh]

theorem fragThresh_cons_first {x : Ms} {xs : MsList} {s s1 s2 : List Bytes}
    (hx : Runs (frag env ke ctx x) s s1) (hxs : Runs (fragThresh env ke ctx false xs) s1 s2) :
    Runs (fragThresh env ke ctx true (.cons x xs)) s s2 := by
  obtain ⟨g1, e1⟩ := hx.sk
  obtain ⟨g2, e2⟩ := hxs.sk
  intro alt ops
  simp [fragThresh, e1, e2, bind, Except.bind]

theorem fragThresh_cons_add (h : EnvOk env ctx) {x : Ms} {xs : MsList} {a b : Bytes} {m n : Int}
    {s s1 s2 : List Bytes}
    (hx : Runs (frag env ke ctx x) s (a :: b :: s1))
    (ha : num4 env a = .ok m) (hb : num4 env b = .ok n)
    (hxs : Runs (fragThresh env ke ctx false xs) (numEncode (n + m) :: s1) s2) :
    Runs (fragThresh env ke ctx false (.cons x xs)) s s2 := by
  obtain ⟨g1, e1⟩ := hx.sk
  obtain ⟨g2, e2⟩ := hxs.sk
  intro alt ops
  simp [fragThresh, e1, e2, opc_eq h, execOpc, ha, hb, pushElem_ok h, bind, Except.bind]

theorem frag_thresh (h : EnvOk env ctx) {k : Nat} {xs : MsList} {v : Bytes} {s s' : List Bytes}
    (hxs : Runs (fragThresh env ke ctx true xs) s (v :: s')) :
    Runs (frag env ke ctx (.thresh k xs)) s (boolBytes (numEncode (k : Int) == v) :: s') := by
  obtain ⟨g1, e1⟩ := hxs.sk
  intro alt ops
  simp only [frag, e1, seqOps, List.foldlM, pshOp_pushInt h, bind, Except.bind]
  simp [pshOp, opc_eq h, execOpc, pushElem_ok h, pure, Except.pure]

/-! ### straight-line helpers -/

theorem seqOps_append (a b : List Op) (c : Core) :
    seqOps env (a ++ b) c = seqOps env a c >>= seqOps env b := by
  unfold seqOps
  rw [List.foldlM_append]

theorem except_match_id {ε α : Type} (m : Except ε α) :
    (match m with | .error e => .error e | .ok v => .ok v) = m := by cases m <;> rfl

theorem seqOps_cons (o : Op) (os : List Op) (c : Core) :
    seqOps env (o :: os) c = pshOp env o c >>= seqOps env os := by
  unfold seqOps
  rw [List.foldlM_cons]

theorem seqOps_pushes (h : EnvOk env ctx) (l : List Bytes) (c : Core) :
    seqOps env (l.map Op.push) c = .ok { c with stack := l.reverse ++ c.stack } := by
  induction l generalizing c with
  | nil => simp [seqOps, pure, Except.pure]
  | cons x xs ih =>
    have := ih { c with stack := x :: c.stack }
    rw [List.map_cons, seqOps_cons]
    have e : pshOp env (Op.push x) c = .ok { c with stack := x :: c.stack } := by
      simp [pshOp, psh_ok h]
    rw [e]
    show seqOps env _ _ = _
    rw [this]
    simp

/-! ### multi -/

/-- the opcode sequence of `multi(k, ks…)` up to and including CHECKMULTISIG -/
theorem multi_seq (h : EnvOk env ctx) (k : Nat) (keys : List Bytes) (n : Nat) (c : Core) :
    seqOps env ([pushInt k] ++ keys.map Op.push ++ [pushInt n, .code .checkmultisig]) c =
      multisig env { c with
        stack := numEncode (n : Int) :: (keys.reverse ++ numEncode (k : Int) :: c.stack),
        ops := c.ops + 1 } false := by
  rw [seqOps_append, seqOps_append]
  simp only [seqOps, List.foldlM, pshOp_pushInt h, bind, Except.bind, pure, Except.pure]
  have := seqOps_pushes h keys { c with stack := numEncode (k : Int) :: c.stack }
  simp only [seqOps] at this
  rw [this]
  simp only [pshOp, opc_eq h, execOpc]
  generalize multisig env _ false = m
  cases m <;> rfl

theorem multisig_eval (h : EnvOk env ctx) (htap : env.flags.tapscript = false)
    {n k : Nat} (hn : n ≤ 20) (hk : k ≤ n)
    (keys sigs : List Bytes) (hkl : keys.length = n) (hsl : sigs.length = k)
    (rest alt : List Bytes) (ops : Nat) {b : Bool}
    (hloop : multisigLoop env sigs keys = .ok b)
    (hnf : b = true ∨ sigs.all (·.isEmpty) = true) :
    multisig env ⟨numEncode (n : Int) :: (keys ++ numEncode (k : Int) :: (sigs ++ [] :: rest)), alt, ops⟩ false
      = .ok ⟨boolBytes b :: rest, alt, ops + n⟩ := by
  have hnok := (numOk_le_20 n hn).1 env.flags.minimalNum
  have hkok := (numOk_le_20 k (by omega)).1 env.flags.minimalNum
  have h1 : ¬ ((n : Int) < 0 ∨ (n : Int) > 20) := by omega
  have h2 : ¬ ((k : Int) < 0 ∨ (k : Int) > (n : Int)) := by omega
  have h3 : ¬ (keys ++ numEncode (k : Int) :: (sigs ++ [] :: rest)).length < n + 1 := by
    simp [hkl]
  have h4 : ¬ (sigs ++ [] :: rest).length < k + 1 := by simp [hsl]
  have hany : (!b && env.flags.nullFail && sigs.any (fun x => !x.isEmpty)) = false := by
    rcases hnf with hb | hall
    · simp [hb]
    · have : sigs.any (fun x => !x.isEmpty) = false := by
        rw [List.any_eq_false]
        intro x hx
        have := List.all_eq_true.mp hall x hx
        simp [this]
      simp [this]
  unfold multisig
  simp only [htap, Bool.false_eq_true, if_false, hnok, h1, countOp_ok h, Int.toNat_natCast, h3,
    List.take_left' hkl, List.drop_left' hkl, hkok, h2, h4, List.take_left' hsl, List.drop_left' hsl,
    hloop, hany, List.isEmpty_nil, Bool.not_true, Bool.and_false, pushElem_ok h]

theorem frag_multi_aux (h : EnvOk env ctx) (htap : env.flags.tapscript = false)
    (k : Nat) (ks : List Key) (n : Nat) (hnl : ks.length = n) (hn : n ≤ 20) (hk : k ≤ n)
    (sigs : List Bytes) (hsl : sigs.length = k) (rest : List Bytes) {b : Bool}
    (hloop : multisigLoop env sigs (ks.map ke.ser).reverse = .ok b)
    (hnf : b = true ∨ sigs.all (·.isEmpty) = true) :
    Runs (seqOps env ([pushInt k] ++ ks.map (fun pk => Op.push (ke.ser pk)) ++
      [pushInt n, .code .checkmultisig])) (sigs ++ [] :: rest) (boolBytes b :: rest) := by
  intro alt ops
  have e : ks.map (fun pk => Op.push (ke.ser pk)) = (ks.map ke.ser).map Op.push := by
    simp [List.map_map]
  rw [e, multi_seq h]
  have := multisig_eval h htap hn hk (ks.map ke.ser).reverse sigs (by simp [hnl]) hsl rest alt
    (ops + 1) hloop hnf
  simp only [this]
  simp

theorem frag_multi (h : EnvOk env ctx) (htap : env.flags.tapscript = false)
    (k : Nat) (ks : List Key) (hn : ks.length ≤ 20) (hk : k ≤ ks.length)
    (sigs : List Bytes) (hsl : sigs.length = k) (rest : List Bytes) {b : Bool}
    (hloop : multisigLoop env sigs (ks.map ke.ser).reverse = .ok b)
    (hnf : b = true ∨ sigs.all (·.isEmpty) = true) :
    Runs (frag env ke ctx (.multi k ks)) (sigs ++ [] :: rest) (boolBytes b :: rest) := by
  have := frag_multi_aux (ke := ke) h htap k ks ks.length rfl hn hk sigs hsl rest hloop hnf
  intro alt ops
  simpa [frag] using this alt ops

theorem insertByKey_length (k : Key) (l : List Key) :
    (insertByKey ke k l).length = l.length + 1 := by
  induction l with
  | nil => simp [insertByKey]
  | cons x xs ih =>
    simp only [insertByKey]
    split <;> simp [ih]

theorem sortKeys_length (ks : List Key) : (sortKeys ke ks).length = ks.length := by
  unfold sortKeys
  have : ∀ (acc : List Key), (ks.foldl (fun acc k => insertByKey ke k acc) acc).length
      = acc.length + ks.length := by
    induction ks with
    | nil => simp
    | cons x xs ih => intro acc; simp [List.foldl_cons, ih, insertByKey_length]; omega
  simpa using this []

theorem frag_sortedMulti (h : EnvOk env ctx) (htap : env.flags.tapscript = false)
    (k : Nat) (ks : List Key) (hn : ks.length ≤ 20) (hk : k ≤ ks.length)
    (sigs : List Bytes) (hsl : sigs.length = k) (rest : List Bytes) {b : Bool}
    (hloop : multisigLoop env sigs ((sortKeys ke ks).map ke.ser).reverse = .ok b)
    (hnf : b = true ∨ sigs.all (·.isEmpty) = true) :
    Runs (frag env ke ctx (.sortedMulti k ks)) (sigs ++ [] :: rest) (boolBytes b :: rest) := by
  have := frag_multi_aux (ke := ke) h htap k (sortKeys ke ks) ks.length (sortKeys_length ks) hn hk
    sigs hsl rest hloop hnf
  intro alt ops
  simpa [frag] using this alt ops

/-- all-empty signatures never match: the dissatisfaction of `multi` -/
theorem multisigLoop_empty (m : Nat) (keys : List Bytes)
    (hk : ∀ key ∈ keys, pubkeyOk env key = true) :
    multisigLoop env (List.replicate (m + 1) []) keys = .ok false := by
  induction keys with
  | nil => simp [List.replicate_succ, multisigLoop]
  | cons key keys ih =>
    rw [List.replicate_succ, multisigLoop]
    split
    · rfl
    · have hp := hk key (by simp)
      have ih' := ih (fun k' hk' => hk k' (by simp [hk']))
      rw [List.replicate_succ] at ih'
      simp [hp, ih']

/-- signatures for a sub-sequence of the keys, each valid for its key, all match -/
theorem multisigLoop_sublist (ser sigOf : Key → Bytes)
    (hok : ∀ k, pubkeyOk env (ser k) = true)
    (ks : List Key) : ∀ ss : List Key, ss.Sublist ks →
    (∀ k ∈ ss, sigOf k ≠ [] ∧ env.sigOk (ser k) (sigOf k) = true) →
    multisigLoop env (ss.map sigOf) (ks.map ser) = .ok true := by
  induction ks with
  | nil =>
    intro ss hss _
    have : ss = [] := by simpa using hss
    subst this
    simp [multisigLoop]
  | cons a ks ih =>
    intro ss hss hs
    cases ss with
    | nil => simp [multisigLoop]
    | cons s ss' =>
      have hlen := hss.length_le
      simp only [List.map_cons]
      rw [multisigLoop]
      have h1 : ¬ (ss'.map sigOf).length + 1 > (ks.map ser).length + 1 := by
        simp at hlen ⊢; omega
      simp only [h1, if_false, hok a, Bool.not_true, Bool.false_eq_true]
      have hs' : ∀ k ∈ ss', sigOf k ≠ [] ∧ env.sigOk (ser k) (sigOf k) = true :=
        fun k hk => hs k (by simp [hk])
      split
      · -- matched: continue with the remaining signatures
        have : ss'.Sublist ks := by
          cases hss with
          | cons _ h => exact (List.sublist_cons_self s ss').trans h
          | cons_cons _ h => exact h
        exact ih ss' this hs'
      · rename_i hno
        -- not matched: then `s` was not `a`, so all of `s :: ss'` is still to come
        have : (s :: ss').Sublist ks := by
          cases hss with
          | cons _ h => exact h
          | cons_cons _ h =>
            exfalso
            have := hs a (by simp)
            apply hno
            simp [this.2, List.isEmpty_iff, this.1]
        have r := ih (s :: ss') this hs
        simpa using r

/-! ### multi_a -/

theorem boolBytes_enc (b : Bool) : boolBytes b = numEncode (((if b then 1 else 0 : Nat)) : Int) := by
  cases b <;> decide

theorem filter_len_cons {α : Type} (f : α → Bool) (p : α) (ps : List α) :
    ((p :: ps).filter f).length = (if f p = true then 1 else 0) + (ps.filter f).length := by
  simp only [List.filter_cons]
  split <;> simp <;> omega

theorem seq_pushInt_numequal (h : EnvOk env ctx) {k : Nat} (hk : NumOk k) {b : Bytes} {y : Int}
    (hb : num4 env b = .ok y) (r alt : List Bytes) (ops : Nat) :
    seqOps env [pushInt k, .code .numequal] ⟨b :: r, alt, ops⟩ =
      .ok ⟨boolBytes ((k : Int) == y) :: r, alt, ops + 1⟩ := by
  simp only [seqOps, List.foldlM, pshOp_pushInt h, bind, Except.bind]
  simp [pshOp, opc_eq h, execOpc, hk.num4 env, hb, pushElem_ok h, pure, Except.pure, bind, Except.bind]

/-- the CHECKSIGADD chain: `ps` = (key, signature on the stack, outcome of the check) -/
theorem csa_chain (h : EnvOk env ctx) (htap : env.flags.tapscript = true)
    (ps : List (Key × Bytes × Bool))
    (hps : ∀ p ∈ ps, checkSig env p.2.1 (ke.ser p.1) = .ok p.2.2) :
    ∀ (acc : Nat) (_hnum : ∀ j, j ≤ acc + ps.length → NumOk j) (rest alt : List Bytes) (ops : Nat),
    seqOps env ((ps.map (·.1)).flatMap (fun pk => [Op.push (ke.ser pk), .code .checksigadd]))
      ⟨numEncode (acc : Int) :: (ps.map (·.2.1) ++ rest), alt, ops⟩ =
    .ok ⟨numEncode ((acc + (ps.filter (·.2.2)).length : Nat) : Int) :: rest, alt, ops + ps.length⟩ := by
  induction ps with
  | nil => intro acc _ rest alt ops; simp [seqOps, pure, Except.pure]
  | cons p ps ih =>
    intro acc hnum rest alt ops
    have hp := hps p (by simp)
    have hacc := (hnum acc (by omega)).num4 env
    simp only [List.map_cons, List.flatMap_cons, List.cons_append, List.nil_append, seqOps_cons,
      pshOp, psh_ok h, opc_eq h, execOpc, htap, hacc, hp, pushElem_ok h, bind, Except.bind,
      Bool.not_true, Bool.false_eq_true, if_false]
    have ih' := ih (fun q hq => hps q (by simp [hq])) (acc + (if p.2.2 then 1 else 0))
      (fun j hj => hnum j (by simp at hj ⊢; split at hj <;> omega)) rest alt (ops + 1)
    have e : ((acc : Int) + (if p.2.2 = true then 1 else 0)) =
        ((acc + (if p.2.2 = true then 1 else 0) : Nat) : Int) := by
      split <;> simp
    rw [e, ih']
    congr 2
    · rw [filter_len_cons]; congr 2; omega
    · simp; omega

theorem frag_multiA_aux (h : EnvOk env ctx) (htap : env.flags.tapscript = true) (k : Nat)
    (ps : List (Key × Bytes × Bool)) (hne : ps ≠ [])
    (hps : ∀ p ∈ ps, checkSig env p.2.1 (ke.ser p.1) = .ok p.2.2)
    (hnum : ∀ j, j ≤ ps.length → NumOk j) (hk : k ≤ ps.length) (rest : List Bytes) :
    Runs (seqOps env (encodeMultiA ke (ps.map (·.1)) ++ [pushInt k, .code .numequal]))
      (ps.map (·.2.1) ++ rest)
      (boolBytes ((k : Int) == (((ps.filter (·.2.2)).length : Nat) : Int)) :: rest) := by
  apply Runs.of_eq
  intro alt ops
  cases ps with
  | nil => exact absurd rfl hne
  | cons p ps =>
    refine ⟨ops + 1 + ps.length + 1, ?_⟩
    have hp := hps p (by simp)
    have chain := csa_chain (ke := ke) h htap ps (fun q hq => hps q (by simp [hq]))
      (if p.2.2 then 1 else 0)
      (fun j hj => hnum j (by simp at hj ⊢; split at hj <;> omega)) rest alt (ops + 1)
    have hcnt : NumOk ((if p.2.2 = true then 1 else 0) + (ps.filter (·.2.2)).length) := by
      apply hnum
      have := List.length_filter_le (fun q : Key × Bytes × Bool => q.2.2) ps
      simp; split <;> omega
    have hkk : NumOk k := hnum k hk
    have first : seqOps env (encodeMultiA ke ((p :: ps).map (·.1)))
        ⟨(p :: ps).map (·.2.1) ++ rest, alt, ops⟩ =
        .ok ⟨numEncode (((if p.2.2 = true then 1 else 0) + (ps.filter (·.2.2)).length : Nat) : Int) :: rest,
          alt, ops + 1 + ps.length⟩ := by
      simp only [List.map_cons, encodeMultiA, List.cons_append, List.nil_append, seqOps_cons, pshOp,
        psh_ok h, opc_eq h, execOpc, hp, pushElem_ok h, bind, Except.bind, boolBytes_enc, chain]
    rw [seqOps_append, first]
    show seqOps env _ _ = _
    rw [seq_pushInt_numequal h hkk (hcnt.num4 env), filter_len_cons]

theorem frag_multiA (h : EnvOk env ctx) (htap : env.flags.tapscript = true) (k : Nat)
    (ps : List (Key × Bytes × Bool)) (hne : ps ≠ [])
    (hps : ∀ p ∈ ps, checkSig env p.2.1 (ke.ser p.1) = .ok p.2.2)
    (hnum : ∀ j, j ≤ ps.length → NumOk j) (hk : k ≤ ps.length) (rest : List Bytes) :
    Runs (frag env ke ctx (.multiA k (ps.map (·.1)))) (ps.map (·.2.1) ++ rest)
      (boolBytes ((k : Int) == (((ps.filter (·.2.2)).length : Nat) : Int)) :: rest) := by
  have := frag_multiA_aux (ke := ke) h htap k ps hne hps hnum hk rest
  intro alt ops
  simpa [frag] using this alt ops

theorem frag_sortedMultiA (h : EnvOk env ctx) (htap : env.flags.tapscript = true) (k : Nat)
    (ks : List Key) (ps : List (Key × Bytes × Bool)) (hks : sortKeys ke ks = ps.map (·.1))
    (hne : ps ≠ [])
    (hps : ∀ p ∈ ps, checkSig env p.2.1 (ke.ser p.1) = .ok p.2.2)
    (hnum : ∀ j, j ≤ ps.length → NumOk j) (hk : k ≤ ps.length) (rest : List Bytes) :
    Runs (frag env ke ctx (.sortedMultiA k ks)) (ps.map (·.2.1) ++ rest)
      (boolBytes ((k : Int) == (((ps.filter (·.2.2)).length : Nat) : Int)) :: rest) := by
  have := frag_multiA_aux (ke := ke) h htap k ps hne hps hnum hk rest
  intro alt ops
  simpa [frag, hks] using this alt ops

end MsVerif.SatSpec

/-
C03 (uniqueness), part 2b: the adversary, the node invariant `UInv`, and the leaf fragments.
-/
import MsVerif.Lemmas.UniqAlt

set_option linter.unusedSimpArgs false
set_option linter.unusedVariables false

namespace MsVerif.Uniq
open MsVerif Sat SatTable SatAll MalleLattice Complete

/-- the third party relative to the caller's availability `av`: no signature the caller does
not have, the same transaction (lock checks); preimages and raw keys are unconstrained -/
structure AdvOK (adv av : Avail) : Prop where
  sig_le : ∀ k, adv.sig k = true → av.sig k = true
  after_eq : ∀ n, adv.after n = av.after n
  older_eq : ∀ n, adv.older n = av.older n

/-- invariant of a node: satisfaction w.r.t. the keys of the node; dissatisfaction (types
`unique` / `none`) w.r.t. no key at all (canonical dissatisfactions never contain signatures) -/
structure UInv (adv : Avail) (sortK : List Key → List Key) (x : Ms) (M : Mall) (r : SatDissat) : Prop where
  sat : AltInv adv (keysOf x) (allSat adv sortK x) r.sat
  du : M.dissat = .unique → AltInv adv [] (allDsat adv sortK x) r.dissat
  dn : M.dissat = .none → allDsat adv sortK x = []

/-- node predicate: multisig thresholds are ≥ 1 and the fragment belongs to the context
(`multi` outside tapscript, `multi_a` inside) — both enforced by the library -/
def uP (ctx : Ctx) : Ms → Bool
  | .multi k _ | .sortedMulti k _ => decide (1 ≤ k) && (ctx != .tap)
  | .multiA k _ | .sortedMultiA k _ => decide (1 ≤ k) && (ctx == .tap)
  | _ => true

variable {adv : Avail} {sortK : List Key → List Key}

theorem altInv_stackEq {K : List Key} {A : List (List Item)} {s s' : Sat} (h : AltInv adv K A s)
    (hs : s'.stack = s.stack) (hf : s'.hasSig = s.hasSig) : AltInv adv K A s' :=
  ⟨fun hi => h.i1 (hs ▸ hi), fun hh => h.i2 (hf ▸ hh), fun w hw => h.i3 w (hs ▸ hw),
   fun w hw => h.kin w (hs ▸ hw), fun hh w hw => h.nos (hf ▸ hh) w (hs ▸ hw)⟩

/-- the unique signature-free alternative survives `minimum` against an alternative that is
impossible or needs a signature -/
theorem min_left_stack {s1 s2 : Sat} (hs : isStk s1.stack = true) (hn : s1.hasSig = false)
    (h2 : SigOrImp s2) :
    (minimum s1 s2).stack = s1.stack ∧ (minimum s1 s2).hasSig = s1.hasSig := by
  unfold SigOrImp at h2
  have hi := isStk_ne_imp hs
  rcases min_cases s1 s2 with ⟨a, _⟩ | ⟨_, _, h⟩ | ⟨a, b, ⟨c, d, h⟩ | ⟨c, _, h⟩ | ⟨c, d, h⟩ | ⟨c, _, h | h⟩⟩
  · exact absurd a hi
  · rw [h]; exact ⟨rfl, rfl⟩
  · simp [h2 b] at d
  · rw [h]; exact ⟨rfl, hn.symm⟩
  · simp [hn] at c
  · simp [hn] at c
  · simp [hn] at c

theorem min_right_stack {s1 s2 : Sat} (hs : isStk s2.stack = true) (hn : s2.hasSig = false)
    (h1 : SigOrImp s1) :
    (minimum s1 s2).stack = s2.stack ∧ (minimum s1 s2).hasSig = s2.hasSig := by
  unfold SigOrImp at h1
  have hi := isStk_ne_imp hs
  rcases min_cases s1 s2 with ⟨a, h⟩ | ⟨_, b, h⟩ | ⟨a, b, ⟨c, d, h⟩ | ⟨c, d, h⟩ | ⟨c, d, h⟩ | ⟨c, d, h | h⟩⟩
  · rw [h]; exact ⟨rfl, rfl⟩
  · exact absurd b hi
  · simp [h1 a] at c
  · simp [hn] at d
  · rw [h]; exact ⟨rfl, hn.symm⟩
  · simp [hn] at d
  · simp [hn] at d

section
variable (c : SatCfg)

theorem uinv_fls : UInv adv sortK .fls Ty.FALSE.mall (satDissat c .fls) := by
  refine ⟨?_, fun _ => ?_, fun h => by simp [Ty.FALSE, Mall.FALSE] at h⟩
  · simp only [satDissat, allSat, keysOf]; exact altInv_imp _ rfl rfl
  · simp only [satDissat, allDsat]
    exact altInv_lit [] [] (fun k h => by simp [items] at h) none none

theorem uinv_tru : UInv adv sortK .tru Ty.TRUE.mall (satDissat c .tru) := by
  refine ⟨?_, fun h => by simp [Ty.TRUE, Mall.TRUE] at h, fun _ => by simp only [allDsat]⟩
  simp only [satDissat, allSat, keysOf]
  exact altInv_lit [] [] (fun k h => by simp [items] at h) none none

theorem sat_nos (hm : c.mall = false) (x : Ms) :
    (satDissat c x).sat.hasSig = false → ∀ w, (satDissat c x).sat.stack = .stack w →
      ∀ k, Item.sig k ∉ items w :=
  fun hf w hw k => no_sig_item ((noSigInv_satDissat c hm x).1 hf w hw) k

theorem dissat_nos (hm : c.mall = false) (x : Ms) :
    (satDissat c x).dissat.hasSig = false → ∀ w, (satDissat c x).dissat.stack = .stack w →
      ∀ k, Item.sig k ∉ items w :=
  fun hf w hw k => no_sig_item ((noSigInv_satDissat c hm x).2 hf w hw) k

/-- `AltInv` of the satisfaction of a node from its three specific clauses -/
theorem altInv_sat (hm : c.mall = false) (x : Ms) (A : List (List Item))
    (h1 : (satDissat c x).sat.stack = .impossible → A = [])
    (h2 : (satDissat c x).sat.hasSig = true → (∀ k ∈ keysOf x, adv.sig k = false) → A = [])
    (h3 : ∀ w, (satDissat c x).sat.stack = .stack w →
      (∀ k ∈ keysOf x, adv.sig k = true → Item.sig k ∈ items w) → ∀ t ∈ A, t = items w) :
    AltInv adv (keysOf x) A (satDissat c x).sat :=
  ⟨h1, h2, h3, (sig_in_keys c hm x).1, sat_nos c hm x⟩

theorem sigWit_avail (ctx : Ctx) (a : Assets) (k : Key) :
    (sigAvail ctx a k = false ∧ sigWit ctx a k = .impossible) ∨
    (sigAvail ctx a k = true ∧ ∃ p, phItem p = .sig k ∧ sigWit ctx a k = .stack [p]) := by
  rcases Complete.sigWit_cases ctx a k with ⟨h1, h2⟩ | ⟨h1, p, h2, _⟩
  · exact .inl ⟨h1, h2⟩
  · refine .inr ⟨h1, ?_⟩
    rcases sigWit_item ctx a k with h | ⟨q, hq, h⟩
    · rw [h] at h2; cases h2
    · exact ⟨q, hq, h⟩

theorem uinv_pkK (hm : c.mall = false) (hadv : AdvOK adv (availOf c.assets c.ctx)) (k : Key) :
    UInv adv sortK (.pkK k) Ty.pkK.mall (satDissat c (.pkK k)) := by
  refine ⟨?_, fun _ => ?_, fun h => by simp [Ty.pkK, Mall.pkK] at h⟩
  · apply altInv_sat c hm
    · intro hi
      simp only [satDissat] at hi
      simp only [allSat]
      rcases sigWit_avail c.ctx c.assets k with ⟨h1, _⟩ | ⟨_, p, _, h2⟩
      · cases hs : adv.sig k with
        | false => simp
        | true => have := hadv.sig_le k hs; simp [availOf, h1] at this
      · rw [h2] at hi; cases hi
    · intro _ hn
      simp only [allSat, hn k (by simp [keysOf])]; simp
    · intro w hw _ t ht
      simp only [satDissat] at hw
      simp only [allSat] at ht
      rcases sigWit_avail c.ctx c.assets k with ⟨_, h2⟩ | ⟨_, p, hp, h2⟩
      · rw [h2] at hw; cases hw
      · rw [h2] at hw; cases hw
        split at ht
        · simp only [List.mem_singleton] at ht; rw [ht]; simp [items, hp]
        · cases ht
  · simp only [satDissat, allDsat]
    exact altInv_lit [] [.pushZero] (fun k h => by simp [items, phItem] at h) none none

theorem uinv_pkH (hm : c.mall = false) (hadv : AdvOK adv (availOf c.assets c.ctx)) (k : Key) :
    UInv adv sortK (.pkH k) Ty.pkH.mall (satDissat c (.pkH k)) := by
  refine ⟨?_, fun _ => ?_, fun h => by simp [Ty.pkH, Mall.pkH] at h⟩
  · apply altInv_sat c hm
    · intro hi
      simp only [satDissat] at hi
      simp only [allSat]
      rcases sigWit_avail c.ctx c.assets k with ⟨h1, _⟩ | ⟨_, p, _, h2⟩
      · cases hs : adv.sig k with
        | false => simp
        | true => have := hadv.sig_le k hs; simp [availOf, h1] at this
      · rw [h2] at hi; simp [Wit.combine] at hi
    · intro _ hn
      simp only [allSat, hn k (by simp [keysOf])]; simp
    · intro w hw _ t ht
      simp only [satDissat] at hw
      simp only [allSat] at ht
      rcases sigWit_avail c.ctx c.assets k with ⟨_, h2⟩ | ⟨_, p, hp, h2⟩
      · rw [h2] at hw; simp [Wit.combine] at hw
      · rw [h2] at hw
        simp only [Wit.combine, List.cons_append, List.nil_append, Wit.stack.injEq] at hw
        subst hw
        split at ht
        · simp only [List.mem_singleton] at ht; rw [ht]
          show [Item.sig k, Item.key k] = [phItem p, phItem (.pubkey k (pkLen c.env c.ctx k))]
          rw [hp]; rfl
        · cases ht
  · simp only [satDissat, allDsat]
    show AltInv adv [] [items [.pushZero, .pubkey k (pkLen c.env c.ctx k)]]
      ⟨.stack [.pushZero, .pubkey k (pkLen c.env c.ctx k)], false, none, none⟩
    exact altInv_lit [] _ (fun k' h => by
      simp only [items, List.map_cons, List.map_nil, phItem, List.mem_cons, List.not_mem_nil, or_false] at h
      rcases h with h | h <;> cases h) none none

theorem uinv_after (hm : c.mall = false) (hr : c.rootHasSig = true)
    (hadv : AdvOK adv (availOf c.assets c.ctx)) (n : Nat) :
    UInv adv sortK (.after n) Ty.time.mall (satDissat c (.after n)) := by
  refine ⟨?_, fun h => by simp [Ty.time, Mall.time] at h, fun _ => by simp only [allDsat]⟩
  have hav : adv.after n = c.assets.checkAfter n := by rw [hadv.after_eq]; rfl
  simp only [satDissat, allSat, keysOf, hav]
  cases hc : c.assets.checkAfter n with
  | true =>
    simp only [if_true]
    exact altInv_lit [] [] (fun k h => by simp [items] at h) _ _
  | false =>
    simp only [hr, if_true]
    exact altInv_imp _ rfl rfl

theorem uinv_older (hm : c.mall = false) (hr : c.rootHasSig = true)
    (hadv : AdvOK adv (availOf c.assets c.ctx)) (n : Nat) :
    UInv adv sortK (.older n) Ty.time.mall (satDissat c (.older n)) := by
  refine ⟨?_, fun h => by simp [Ty.time, Mall.time] at h, fun _ => by simp only [allDsat]⟩
  have hav : adv.older n = c.assets.checkOlder (relCanon n) := by rw [hadv.older_eq]; rfl
  simp only [satDissat, allSat, keysOf, hav]
  cases hc : c.assets.checkOlder (relCanon n) with
  | true =>
    simp only [if_true]
    exact altInv_lit [] [] (fun k h => by simp [items] at h) _ _
  | false =>
    simp only [hr, if_true]
    exact altInv_imp _ rfl rfl

theorem uinv_hash (hm : c.mall = false) (kind : HashKind) (h : Nat)
    (hpre : c.assets.preimage kind h = true) :
    UInv adv sortK (.hash kind h) Ty.hash.mall (satDissat c (.hash kind h)) := by
  refine ⟨?_, fun h => by simp [Ty.hash, Mall.hash] at h, fun h => by simp [Ty.hash, Mall.hash] at h⟩
  simp only [satDissat, allSat, keysOf, hpre, if_true]
  cases adv.preimage kind h with
  | true =>
    simp only [if_true]
    exact altInv_lit [] [.preimage kind h] (fun k h => by simp [items, phItem] at h) none none
  | false =>
    exact altInv_lit_nil [] [.preimage kind h] (fun k h => by simp [items, phItem] at h) none none

end

end MsVerif.Uniq

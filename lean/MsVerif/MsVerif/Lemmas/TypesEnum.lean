/-
Helper lemmas for C05: completeness of the finite enumerations and the map from the Rust
type representation to the specification's letter sets.
-/
import MsVerif.Model.Types
import MsVerif.Spec.MsSpecTypes

namespace MsVerif
open Spec

theorem Corr.mem_all (c : Corr) : c ∈ Corr.all := by
  obtain ⟨b, i, d, u⟩ := c
  cases b <;> cases i <;> cases d <;> cases u <;> decide

theorem Mall.mem_all (m : Mall) : m ∈ Mall.all := by
  obtain ⟨d, s, n⟩ := m
  cases d <;> cases s <;> cases n <;> decide

theorem Input.mem_all (i : Input) : i ∈ Input.all := by cases i <;> decide

theorem forall_corr {P : Corr → Bool} (h : Corr.all.all P = true) (c : Corr) : P c = true :=
  List.all_eq_true.mp h c (Corr.mem_all c)

theorem forall_corr2 {P : Corr → Corr → Bool}
    (h : Corr.all.all (fun a => Corr.all.all (P a)) = true) (a b : Corr) : P a b = true :=
  List.all_eq_true.mp (List.all_eq_true.mp h a (Corr.mem_all a)) b (Corr.mem_all b)

theorem forall_mall {P : Mall → Bool} (h : Mall.all.all P = true) (c : Mall) : P c = true :=
  List.all_eq_true.mp h c (Mall.mem_all c)

theorem forall_mall2 {P : Mall → Mall → Bool}
    (h : Mall.all.all (fun a => Mall.all.all (P a)) = true) (a b : Mall) : P a b = true :=
  List.all_eq_true.mp (List.all_eq_true.mp h a (Mall.mem_all a)) b (Mall.mem_all b)

theorem forall_mall3 {P : Mall → Mall → Mall → Bool}
    (h : Mall.all.all (fun a => Mall.all.all (fun b => Mall.all.all (P a b))) = true)
    (a b c : Mall) : P a b c = true :=
  List.all_eq_true.mp (List.all_eq_true.mp (List.all_eq_true.mp h a (Mall.mem_all a)) b
    (Mall.mem_all b)) c (Mall.mem_all c)

theorem forall_input3 {P : Input → Input → Input → Bool}
    (h : Input.all.all (fun a => Input.all.all (fun b => Input.all.all (P a b))) = true)
    (a b c : Input) : P a b c = true :=
  List.all_eq_true.mp (List.all_eq_true.mp (List.all_eq_true.mp h a (Input.mem_all a)) b
    (Input.mem_all b)) c (Input.mem_all c)

theorem forall_mall_eq {α} [DecidableEq α] {f g : Mall → α}
    (h : Mall.all.all (fun x => decide (f x = g x)) = true) (x : Mall) : f x = g x :=
  of_decide_eq_true (forall_mall h x)
theorem forall_mall2_eq {α} [DecidableEq α] {f g : Mall → Mall → α}
    (h : Mall.all.all (fun x => Mall.all.all (fun y => decide (f x y = g x y))) = true)
    (x y : Mall) : f x y = g x y :=
  of_decide_eq_true (forall_mall2 (P := fun x y => decide (f x y = g x y)) h x y)
theorem forall_mall3_eq {α} [DecidableEq α] {f g : Mall → Mall → Mall → α}
    (h : Mall.all.all (fun x => Mall.all.all (fun y => Mall.all.all
      (fun z => decide (f x y z = g x y z)))) = true)
    (x y z : Mall) : f x y z = g x y z :=
  of_decide_eq_true (forall_mall3 (P := fun x y z => decide (f x y z = g x y z)) h x y z)

/-! ### Rust representation ↦ specification letters -/

def Base.toSpec : Base → SBase | .B => .B | .K => .K | .V => .V | .W => .W

def Input.z : Input → Bool | .zero => true | _ => false
def Input.o : Input → Bool | .one | .oneNonZero => true | _ => false
def Input.n : Input → Bool | .oneNonZero | .anyNonZero => true | _ => false

def Corr.toSpec (c : Corr) : SCorr :=
  ⟨c.base.toSpec, c.input.z, c.input.o, c.input.n, c.dissat, c.unit⟩

def Mall.toSpec (m : Mall) : SMall :=
  ⟨m.signed, m.dissat == .none, m.dissat == .unique, m.nonMall⟩

def Ty.toSpec (t : Ty) : STy := ⟨t.corr.toSpec, t.mall.toSpec⟩

/-- model result vs specification result: both reject, or both accept with the model's
letters a subset of the specification's -/
def leC : Option Corr → Option SCorr → Bool
  | none, none => true
  | some a, some b => a.toSpec.le b
  | _, _ => false

/-- both reject, or both accept with exactly the specification's letters -/
def eqC : Option Corr → Option SCorr → Bool
  | none, none => true
  | some a, some b => a.toSpec == b
  | _, _ => false

theorem eqC_imp_leC {a b} (h : eqC a b = true) : leC a b = true := by
  cases a <;> cases b <;> simp_all [eqC, leC]
  subst h
  simp [SCorr.le]

end MsVerif

namespace MsVerif
/-- Correctness types reachable from the leaf constants through the rules. -/
inductive Reach : Corr → Prop
  | tru : Reach Corr.TRUE
  | fls : Reach Corr.FALSE
  | pkK : Reach Corr.pkK
  | pkH : Reach Corr.pkH
  | multi : Reach Corr.multi
  | multiA : Reach Corr.multiA
  | hash : Reach Corr.hash
  | time : Reach Corr.time
  | alt {x y} : Reach x → Corr.castAlt x = some y → Reach y
  | swap {x y} : Reach x → Corr.castSwap x = some y → Reach y
  | check {x y} : Reach x → Corr.castCheck x = some y → Reach y
  | dupIf {x y} : Reach x → Corr.castDupIf x = some y → Reach y
  | verify {x y} : Reach x → Corr.castVerify x = some y → Reach y
  | nonZero {x y} : Reach x → Corr.castNonZero x = some y → Reach y
  | zeroNotEqual {x y} : Reach x → Corr.castZeroNotEqual x = some y → Reach y
  | tr {x y} : Reach x → Corr.castTrue x = some y → Reach y
  | orIFalse {x y} : Reach x → Corr.castOrIFalse x = some y → Reach y
  | andB {a b y} : Reach a → Reach b → Corr.andB a b = some y → Reach y
  | andV {a b y} : Reach a → Reach b → Corr.andV a b = some y → Reach y
  | orB {a b y} : Reach a → Reach b → Corr.orB a b = some y → Reach y
  | orC {a b y} : Reach a → Reach b → Corr.orC a b = some y → Reach y
  | orD {a b y} : Reach a → Reach b → Corr.orD a b = some y → Reach y
  | orI {a b y} : Reach a → Reach b → Corr.orI a b = some y → Reach y
  | andOr {a b c y} : Reach a → Reach b → Reach c → Corr.andOr a b c = some y → Reach y
  | thresh {k xs y} : (∀ x ∈ xs, Reach x) → Corr.threshold k xs = some y → Reach y

def Corr.kz (c : Corr) : Bool := c.base == .K && c.input == .zero

/-- a unary rule never produces "K and zero-arg" -/
def un1 (f : Corr → Option Corr) : Bool :=
  Corr.all.all fun x => match f x with | some y => !y.kz | none => true
/-- a binary rule never produces "K and zero-arg" from children that are not -/
def bin1 (f : Corr → Corr → Option Corr) : Bool :=
  Corr.all.all fun a => Corr.all.all fun b =>
    match f a b with | some y => a.kz || b.kz || !y.kz | none => true

theorem un1_sound {f} (h : un1 f = true) {x y} (e : f x = some y) : y.kz = false := by
  have := forall_corr (P := fun x => match f x with | some y => !y.kz | none => true) h x
  simp only [e] at this; simpa using this

theorem bin1_sound {f} (h : bin1 f = true) {a b y} (e : f a b = some y)
    (ha : a.kz = false) (hb : b.kz = false) : y.kz = false := by
  have := forall_corr2
    (P := fun a b => match f a b with | some y => a.kz || b.kz || !y.kz | none => true) h a b
  simp only [e, ha, hb] at this; simpa using this

theorem Reach.K_not_zero {c : Corr} (h : Reach c) : c.kz = false := by
  induction h with
  | tru | fls | pkK | pkH | multi | multiA | hash | time => decide
  | alt _ e _ => exact un1_sound (by decide +kernel) e
  | swap _ e _ => exact un1_sound (by decide +kernel) e
  | check _ e _ => exact un1_sound (by decide +kernel) e
  | dupIf _ e _ => exact un1_sound (by decide +kernel) e
  | verify _ e _ => exact un1_sound (by decide +kernel) e
  | nonZero _ e _ => exact un1_sound (by decide +kernel) e
  | zeroNotEqual _ e _ => exact un1_sound (by decide +kernel) e
  | tr _ e _ => exact un1_sound (by decide +kernel) e
  | orIFalse _ e _ => exact un1_sound (by decide +kernel) e
  | andB _ _ e iha ihb => exact bin1_sound (by decide +kernel) e iha ihb
  | andV _ _ e iha ihb => exact bin1_sound (by decide +kernel) e iha ihb
  | orB _ _ e iha ihb => exact bin1_sound (by decide +kernel) e iha ihb
  | orC _ _ e iha ihb => exact bin1_sound (by decide +kernel) e iha ihb
  | orD _ _ e iha ihb => exact bin1_sound (by decide +kernel) e iha ihb
  | orI _ _ e iha ihb => exact bin1_sound (by decide +kernel) e iha ihb
  | @andOr a b c y _ _ _ e iha ihb ihc =>
    obtain ⟨ab, ai, ad, au⟩ := a
    obtain ⟨bb, bi, bd, bu⟩ := b
    obtain ⟨cb, ci, cd, cu⟩ := c
    simp only [Corr.andOr] at e
    cases ad <;> cases au <;> cases ab <;> cases bb <;> cases cb <;> simp at e
    all_goals subst e
    all_goals simp [Corr.kz] at *
    all_goals (cases ai <;> cases bi <;> cases ci <;> simp_all [Corr.andOrInput])
  | @thresh k xs y _ e _ =>
    unfold Corr.threshold at e
    cases h : Corr.threshLoop 0 0 xs <;> simp [h] at e
    subst e; rfl
end MsVerif

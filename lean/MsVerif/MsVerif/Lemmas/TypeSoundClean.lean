/-
C06 helper lemmas, part 14: executions that never see a valid signature.

`Clean env v`: `v` verifies under no key.  `OracleSane env ke`: no value the script can put on
the stack BY ITSELF (numbers, booleans, its key / hash constants, hash outputs) is a valid
signature.  Under a sane oracle, a run that starts from a state whose stacks hold only clean
elements stays among clean elements, and is — step by step, errors included — the run under the
oracle that accepts nothing (`noSigEnv`).  Hence everything proved for `NoSig` oracles holds for
ALL sane oracles on signature-free stacks.  Limits off.  Core Lean only.
-/
import MsVerif.Lemmas.TypeSoundForced

namespace MsVerif.TypeSound
open MsVerif MsVerif.Script

/-- `v` is not a valid signature for any key -/
def Clean (env : Env) (v : Bytes) : Prop := ∀ pk, env.sigOk pk v = false

/-- the values a Miniscript script generates by itself -/
inductive Gen (env : Env) (ke : KeyEnv) : Bytes → Prop
  | num (n : Int) : Gen env ke (numEncode n)
  | small (n : Nat) : Gen env ke (if n = 0 then [] else [UInt8.ofNat n])
  | bool (b : Bool) : Gen env ke (boolBytes b)
  | ser (k : Key) : Gen env ke (ke.ser k)
  | pkh (k : Key) : Gen env ke (ke.pkh k)
  | rawPkh (h : Nat) : Gen env ke (ke.rawPkh h)
  | hashVal (kind : HashKind) (h : Nat) : Gen env ke (ke.hashVal kind h)
  | hash (op : HashOp) (a : Bytes) : Gen env ke (env.hash op a)

/-- no script-generated value is a valid signature -/
def OracleSane (env : Env) (ke : KeyEnv) : Prop := ∀ v, Gen env ke v → Clean env v

/-- both stacks hold only elements that are not valid signatures -/
def AllClean (env : Env) (c : Core) : Prop := (∀ e ∈ c.stack, Clean env e) ∧ (∀ e ∈ c.alt, Clean env e)

/-- the same environment with the oracle that accepts nothing -/
def noSigEnv (env : Env) : Env := { env with sigOk := fun _ _ => false }

theorem noSigEnv_noSig (env : Env) : NoSig (noSigEnv env) := fun _ _ => rfl

/-- `f` (under `env`) and `f'` (under the empty oracle) agree on clean states, errors included,
and `f` keeps the state clean -/
def Same (env : Env) (f f' : Core → Except Err Core) : Prop :=
  ∀ c, AllClean env c → f c = f' c ∧ ∀ c', f c = .ok c' → AllClean env c'

def SameP (env : Env) (f f' : Core → Except Err (Bool × Core)) : Prop :=
  ∀ c, AllClean env c → f c = f' c ∧ ∀ p, f c = .ok p → AllClean env p.2

theorem same_bind {env : Env} {f f' g g' : Core → Except Err Core} (hf : Same env f f') (hg : Same env g g') :
    Same env (fun c => f c >>= g) (fun c => f' c >>= g') := by
  intro c hc
  obtain ⟨h1, h2⟩ := hf c hc
  show (f c >>= g) = (f' c >>= g') ∧ ∀ c', (f c >>= g) = .ok c' → AllClean env c'
  rw [← h1]
  cases hfc : f c with
  | error e => exact ⟨rfl, fun c' h => by cases h⟩
  | ok c1 =>
    obtain ⟨h3, h4⟩ := hg c1 (h2 c1 hfc)
    exact ⟨h3, fun c' h => h4 c' h⟩

theorem sameP_bind {env : Env} {f f' : Core → Except Err (Bool × Core)} {g g' : Bool → Core → Except Err Core}
    (hf : SameP env f f') (hg : ∀ v, Same env (g v) (g' v)) :
    Same env (fun c => f c >>= fun p => g p.1 p.2) (fun c => f' c >>= fun p => g' p.1 p.2) := by
  intro c hc
  obtain ⟨h1, h2⟩ := hf c hc
  show (f c >>= fun p => g p.1 p.2) = (f' c >>= fun p => g' p.1 p.2) ∧
    ∀ c', (f c >>= fun p => g p.1 p.2) = .ok c' → AllClean env c'
  rw [← h1]
  cases hfc : f c with
  | error e => exact ⟨rfl, fun c' h => by cases h⟩
  | ok p =>
    obtain ⟨h3, h4⟩ := hg p.1 p.2 (h2 p hfc)
    exact ⟨h3, fun c' h => h4 c' h⟩

theorem same_congr {env : Env} {f f' g g' : Core → Except Err Core} (h : ∀ c, f c = g c) (h' : ∀ c, f' c = g' c)
    (hg : Same env g g') : Same env f f' := by
  intro c hc
  rw [h, h']
  exact hg c hc

/-- a step that does not consult the oracle and only rearranges / drops elements or adds
generated ones -/
theorem same_of_eq {env : Env} {f f' : Core → Except Err Core} (heq : ∀ c, f c = f' c)
    (hcl : ∀ c c', AllClean env c → f c = .ok c' → AllClean env c') : Same env f f' :=
  fun c hc => ⟨heq c, fun c' h => hcl c c' hc h⟩

theorem allClean_cons {env : Env} {v : Bytes} {s alt : List Bytes} {ops ops' : Nat}
    (hv : Clean env v) (h : AllClean env ⟨s, alt, ops⟩) : AllClean env ⟨v :: s, alt, ops'⟩ :=
  ⟨fun e he => by
      rcases List.mem_cons.mp he with rfl | he
      · exact hv
      · exact h.1 e he, h.2⟩

theorem allClean_of_stack {env : Env} {c c' : Core} (h : AllClean env c)
    (hs : ∀ e ∈ c'.stack, e ∈ c.stack ∨ Clean env e) (ha : ∀ e ∈ c'.alt, e ∈ c.alt ∨ e ∈ c.stack) :
    AllClean env c' :=
  ⟨fun e he => (hs e he).elim (h.1 e) id, fun e he => (ha e he).elim (h.2 e) (h.1 e)⟩

/-! ### primitives -/

theorem countOp_noSig (env : Env) (c : Core) (n : Nat) : countOp (noSigEnv env) c n = countOp env c n := rfl
theorem pushElem_noSig (env : Env) (c : Core) (b : Bytes) : pushElem (noSigEnv env) c b = pushElem env c b := rfl
theorem skipCount_noSig (env : Env) (s : List Op) (c : Core) : skipCount (noSigEnv env) s c = skipCount env s c := rfl
theorem condPop_noSig (env : Env) (nf : Bool) (c : Core) : condPop (noSigEnv env) nf c = condPop env nf c := rfl
theorem cnd_noSig (env : Env) (nf : Bool) (c : Core) : cnd (noSigEnv env) nf c = cnd env nf c := rfl
theorem num4_noSig (env : Env) (b : Bytes) : num4 (noSigEnv env) b = num4 env b := rfl

theorem same_countOp (env : Env) (n : Nat) : Same env (fun c => countOp env c n) (fun c => countOp (noSigEnv env) c n) :=
  same_of_eq (fun _ => rfl) (fun c c' hc h => by
    obtain ⟨h1, h2⟩ := countOp_ok h
    exact ⟨fun e he => hc.1 e (h1 ▸ he), fun e he => hc.2 e (h2 ▸ he)⟩)

theorem same_skipCount (env : Env) (s : List Op) : Same env (skipCount env s) (skipCount (noSigEnv env) s) :=
  same_of_eq (fun _ => rfl) (fun c c' hc h => by
    obtain ⟨h1, h2⟩ := skipCount_ok h
    exact ⟨fun e he => hc.1 e (h1 ▸ he), fun e he => hc.2 e (h2 ▸ he)⟩)

theorem sameP_cnd (env : Env) (nf : Bool) : SameP env (cnd env nf) (cnd (noSigEnv env) nf) := by
  intro c hc
  refine ⟨rfl, ?_⟩
  intro p h
  obtain ⟨v, c'⟩ := p
  obtain ⟨a, hs, ha, _⟩ := cnd_ok h
  exact ⟨fun e he => hc.1 e (by rw [hs]; exact List.mem_cons_of_mem _ he), fun e he => hc.2 e (ha ▸ he)⟩

theorem same_pushGen {env : Env} {ke : KeyEnv} (hs : OracleSane env ke) {b : Bytes} (hb : Gen env ke b) :
    Same env (fun c => pushElem env c b) (fun c => pushElem (noSigEnv env) c b) :=
  same_of_eq (fun _ => rfl) (fun c c' hc h => by
    obtain ⟨h1, h2⟩ := pushElem_ok h
    refine ⟨fun e he => ?_, fun e he => hc.2 e (h2 ▸ he)⟩
    rw [h1] at he
    rcases List.mem_cons.mp he with rfl | he
    · exact hs _ hb
    · exact hc.1 e he)

theorem same_pshGen {env : Env} {ke : KeyEnv} (hs : OracleSane env ke) {b : Bytes} (hb : Gen env ke b) :
    Same env (psh env b) (psh (noSigEnv env) b) := by
  intro c hc
  by_cases h : (env.flags.stackLimits && decide (b.length > 520)) = true
  · have e1 : psh env b c = .error .pushSize := by unfold psh; rw [if_pos h]
    have e2 : psh (noSigEnv env) b c = .error .pushSize := by
      unfold psh; exact if_pos h
    rw [e1, e2]
    exact ⟨rfl, fun c' h' => by cases h'⟩
  · have e1 : psh env b c = pushElem env c b := by unfold psh; rw [if_neg h]
    have e2 : psh (noSigEnv env) b c = pushElem (noSigEnv env) c b := by
      unfold psh; exact if_neg h
    rw [e1, e2]
    exact same_pushGen hs hb c hc

/-! ### signature checks on clean operands -/

theorem checkSig_clean {env : Env} {sg : Bytes} (h : Clean env sg) (pk : Bytes) :
    checkSig (noSigEnv env) sg pk = checkSig env sg pk := by
  unfold checkSig
  have hp : pubkeyOk (noSigEnv env) pk = pubkeyOk env pk := rfl
  rw [hp]
  simp only [h pk, noSigEnv]
  rfl

theorem multisigLoop_clean {env : Env} : ∀ (sigs keys : List Bytes), (∀ s ∈ sigs, Clean env s) →
    multisigLoop (noSigEnv env) sigs keys = multisigLoop env sigs keys
  | [], keys, _ => by unfold multisigLoop; rfl
  | _ :: _, [], _ => by unfold multisigLoop; rfl
  | sg :: sigs, key :: keys, h => by
    unfold multisigLoop
    have hp : pubkeyOk (noSigEnv env) key = pubkeyOk env key := rfl
    have hsg : env.sigOk key sg = false := h sg (List.mem_cons_self) key
    have hsg' : (noSigEnv env).sigOk key sg = false := rfl
    rw [hp]
    simp only [hsg, hsg', Bool.and_false, Bool.false_eq_true, if_false]
    rw [multisigLoop_clean (sg :: sigs) keys h]
termination_by s k => s.length + k.length

/-- where the elements of the state after a successful non-multisig opcode come from -/
def FromOld (env : Env) (ke : KeyEnv) (c c' : Core) : Prop :=
  (∀ e ∈ c'.stack, e ∈ c.stack ∨ e ∈ c.alt ∨ Gen env ke e) ∧ (∀ e ∈ c'.alt, e ∈ c.alt ∨ e ∈ c.stack)

theorem fromOld_push {env : Env} {ke : KeyEnv} {c c0 c' : Core} {v : Bytes}
    (h : pushElem env c0 v = .ok c') (hv : v ∈ c.stack ∨ v ∈ c.alt ∨ Gen env ke v)
    (hs : ∀ e ∈ c0.stack, e ∈ c.stack ∨ e ∈ c.alt ∨ Gen env ke e) (ha : ∀ e ∈ c0.alt, e ∈ c.alt ∨ e ∈ c.stack) :
    FromOld env ke c c' := by
  obtain ⟨h1, h2⟩ := pushElem_ok h
  refine ⟨fun e he => ?_, fun e he => ha e (h2 ▸ he)⟩
  rw [h1] at he
  rcases List.mem_cons.mp he with rfl | he
  · exact hv
  · exact hs e he

set_option linter.unusedSimpArgs false in
theorem fromOld_execOpc {env : Env} (ke : KeyEnv) (o : Opc) (ho : o ≠ .checkmultisig ∧ o ≠ .checkmultisigverify)
    (c c' : Core) (h : execOpc env o c = .ok c') : FromOld env ke c c' := by
  obtain ⟨st, al, ops⟩ := c
  rcases st with _ | ⟨a, _ | ⟨b, _ | ⟨d, r⟩⟩⟩ <;> cases o <;>
    first
    | exact absurd rfl ho.1
    | exact absurd rfl ho.2
    | (simp only [execOpc] at h; cases h; done)
    | skip
  all_goals simp only [execOpc] at h
  all_goals (try simp only [bind, Except.bind] at h)
  all_goals (repeat' split at h)
  all_goals first
    | (cases h; done)
    | (cases h
       refine ⟨fun e he => ?_, fun e he => ?_⟩ <;> simp only [List.mem_cons, List.not_mem_nil, or_false, false_or] at he ⊢ <;> grind)
    | (refine fromOld_push h ?_ ?_ ?_
       · first
         | exact Or.inr (Or.inr (Gen.num _))
         | exact Or.inr (Or.inr (Gen.bool _))
         | exact Or.inr (Or.inr (Gen.hash _ _))
         | (simp; done)
       · intro e he
         simp only [List.mem_cons, List.not_mem_nil, or_false, false_or] at he ⊢ <;> grind
       · intro e he
         simp only [List.mem_cons] at he ⊢ <;> grind)

theorem mem_of_drop_eq_cons {l r : List Bytes} {n : Nat} {d e : Bytes} (h : l.drop n = d :: r) (he : e ∈ r) : e ∈ l :=
  List.mem_of_mem_drop (h ▸ List.mem_cons_of_mem d he)

theorem fromOld_multisig {env : Env} (ke : KeyEnv) {c c' : Core} {v : Bool} (h : multisig env c v = .ok c') :
    FromOld env ke c c' := by
  obtain ⟨nB, r, nI, mB, r1, mI, dummy, r2, h1, _, _, h4, _, h6, h7, h8⟩ := multisig_ok h
  have hsub : ∀ e ∈ r2, e ∈ c.stack := by
    intro e he
    rw [h1]
    exact List.mem_cons_of_mem _ (mem_of_drop_eq_cons h4 (mem_of_drop_eq_cons h6 he))
  refine ⟨fun e he => ?_, fun e he => Or.inl (h7 ▸ he)⟩
  cases v with
  | true =>
    simp only [if_true] at h8
    rw [h8] at he
    exact Or.inl (hsub e he)
  | false =>
    simp only [Bool.false_eq_true, if_false] at h8
    obtain ⟨b, hb⟩ := h8
    rw [hb] at he
    rcases List.mem_cons.mp he with rfl | he
    · exact Or.inr (Or.inr (Gen.bool b))
    · exact Or.inl (hsub e he)

theorem fromOld_execOpc' {env : Env} (ke : KeyEnv) (o : Opc) (c c' : Core) (h : execOpc env o c = .ok c') :
    FromOld env ke c c' := by
  by_cases h1 : o = .checkmultisig
  · subst h1; rw [execOpc_cms] at h; exact fromOld_multisig ke h
  · by_cases h2 : o = .checkmultisigverify
    · subst h2; rw [execOpc_cmsv] at h; exact fromOld_multisig ke h
    · exact fromOld_execOpc ke o ⟨h1, h2⟩ c c' h

theorem allClean_fromOld {env : Env} {ke : KeyEnv} (hs : OracleSane env ke) {c c' : Core} (hc : AllClean env c)
    (h : FromOld env ke c c') : AllClean env c' :=
  ⟨fun e he => by
      rcases h.1 e he with h1 | h1 | h1
      · exact hc.1 e h1
      · exact hc.2 e h1
      · exact hs e h1,
   fun e he => (h.2 e he).elim (hc.2 e) (hc.1 e)⟩

/-! ### the oracle is only consulted on stack elements -/

theorem flags_noSig (env : Env) : (noSigEnv env).flags = env.flags := rfl

set_option linter.unusedSimpArgs false in
theorem multisig_eq_noSig {env : Env} {c : Core} (hc : ∀ e ∈ c.stack, Clean env e) (v : Bool) :
    multisig (noSigEnv env) c v = multisig env c v := by
  obtain ⟨st, al, ops⟩ := c
  unfold multisig
  dsimp only [noSigEnv]
  have hco := countOp_noSig env
  have hpu := pushElem_noSig env
  unfold noSigEnv at hco hpu
  simp only [hco, hpu]
  by_cases ht : env.flags.tapscript = true
  · simp only [ht, if_true]
  · simp only [ht]
    cases st with
    | nil => rfl
    | cons nB r =>
      dsimp only
      cases hnd : numDecode env.flags.minimalNum 4 nB with
      | none => rfl
      | some nI =>
        dsimp only
        by_cases hrange : nI < 0 ∨ nI > 20
        · simp only [hrange, if_true]
        · simp only [hrange, if_false]
          cases hcnt : countOp env ⟨nB :: r, al, ops⟩ nI.toNat with
          | error e => rfl
          | ok c1 =>
            dsimp only
            by_cases hl : r.length < nI.toNat + 1
            · simp only [hl, if_true]
            · simp only [hl, if_false]
              cases hd : List.drop nI.toNat r with
              | nil => rfl
              | cons mB r1 =>
                dsimp only
                cases hmd : numDecode env.flags.minimalNum 4 mB with
                | none => rfl
                | some mI =>
                  dsimp only
                  by_cases hmr : mI < 0 ∨ mI > nI
                  · simp only [hmr, if_true]
                  · simp only [hmr, if_false]
                    by_cases hl2 : r1.length < mI.toNat + 1
                    · simp only [hl2, if_true]
                    · simp only [hl2, if_false]
                      cases hd2 : List.drop mI.toNat r1 with
                      | nil => rfl
                      | cons dummy r2 =>
                        dsimp only
                        have hsig : ∀ s ∈ List.take mI.toNat r1, Clean env s := by
                          intro s hs
                          have h1 : s ∈ r1 := List.mem_of_mem_take hs
                          have h2 : s ∈ r := List.mem_of_mem_drop (hd ▸ List.mem_cons_of_mem _ h1)
                          exact hc s (List.mem_cons_of_mem _ h2)
                        have hloop := multisigLoop_clean (List.take mI.toNat r1) (List.take nI.toNat r) hsig
                        unfold noSigEnv at hloop
                        rw [hloop]

theorem execOpc_eq_noSig {env : Env} (o : Opc) {c : Core} (hc : ∀ e ∈ c.stack, Clean env e) :
    execOpc (noSigEnv env) o c = execOpc env o c := by
  by_cases h1 : o = .checkmultisig
  · subst h1; rw [execOpc_cms, execOpc_cms]; exact multisig_eq_noSig hc false
  · by_cases h2 : o = .checkmultisigverify
    · subst h2; rw [execOpc_cmsv, execOpc_cmsv]; exact multisig_eq_noSig hc true
    · obtain ⟨st, al, ops⟩ := c
      rcases st with _ | ⟨a, _ | ⟨b, _ | ⟨d, r⟩⟩⟩ <;> cases o <;>
        first
        | exact absurd rfl h1
        | exact absurd rfl h2
        | rfl
        | (simp only [execOpc]
           rw [checkSig_clean (hc _ (by simp))]
           try rfl)

theorem same_execOpc {env : Env} {ke : KeyEnv} (hs : OracleSane env ke) (o : Opc) :
    Same env (execOpc env o) (execOpc (noSigEnv env) o) :=
  fun c hc => ⟨(execOpc_eq_noSig o hc.1).symm, fun c' h => allClean_fromOld hs hc (fromOld_execOpc' ke o c c' h)⟩

theorem same_opc {env : Env} {ke : KeyEnv} (hs : OracleSane env ke) (o : Opc) :
    Same env (opc env o) (opc (noSigEnv env) o) := by
  refine same_congr (g := fun c => countOp env c 1 >>= execOpc env o)
    (g' := fun c => countOp (noSigEnv env) c 1 >>= execOpc (noSigEnv env) o) ?_ ?_
    (same_bind (same_countOp env 1) (same_execOpc hs o))
  · intro c; unfold opc; cases countOp env c 1 <;> rfl
  · intro c; unfold opc; cases countOp (noSigEnv env) c 1 <;> rfl


/-! ### straight-line lists, conditionals, fragments -/

/-- every data push of the list pushes a script-generated value -/
def GenPushes (env : Env) (ke : KeyEnv) (ops : List Op) : Prop := ∀ bs, Op.push bs ∈ ops → Gen env ke bs

theorem same_pshOp {env : Env} {ke : KeyEnv} (hs : OracleSane env ke) (op : Op)
    (hg : ∀ bs, op = .push bs → Gen env ke bs) : Same env (pshOp env op) (pshOp (noSigEnv env) op) := by
  cases op with
  | small n => exact same_pushGen hs (Gen.small n)
  | push bs => exact same_pshGen hs (hg bs rfl)
  | code o => exact same_opc hs o
  | bad b => exact fun c _ => ⟨rfl, fun c' h => by cases h⟩

theorem same_seqOps {env : Env} {ke : KeyEnv} (hs : OracleSane env ke) :
    (ops : List Op) → GenPushes env ke ops → Same env (seqOps env ops) (seqOps (noSigEnv env) ops)
  | [], _ => fun c hc => ⟨rfl, fun c' h => by cases seqOps_nil_ok h; exact hc⟩
  | op :: ops, hg => by
    refine same_congr (g := fun c => pshOp env op c >>= seqOps env ops)
      (g' := fun c => pshOp (noSigEnv env) op c >>= seqOps (noSigEnv env) ops) ?_ ?_
      (same_bind (same_pshOp hs op (fun bs h => hg bs (h ▸ List.mem_cons_self)))
        (same_seqOps hs ops (fun bs h => hg bs (List.mem_cons_of_mem _ h))))
    · intro c; simp only [seqOps, List.foldlM_cons]; rfl
    · intro c; simp only [seqOps, List.foldlM_cons]; rfl

theorem genPushes_pushInt (env : Env) (ke : KeyEnv) (n : Nat) : ∀ bs, pushInt n = .push bs → Gen env ke bs := by
  intro bs h
  unfold pushInt at h
  split at h
  · cases h
  · cases h; exact Gen.num _

theorem same_ifThen {env : Env} (nf : Bool) (X : List Op) {f f' : Core → Except Err Core} (hf : Same env f f') :
    Same env (ifThen env nf X f) (ifThen (noSigEnv env) nf X f') := by
  refine same_congr (ifThen_eq env nf X f) (ifThen_eq (noSigEnv env) nf X f')
    (sameP_bind (g := fun (v : Bool) (c : Core) => (if v then f c else skipCount env X c) >>= fun c => countOp env c 1)
      (g' := fun (v : Bool) (c : Core) => (if v then f' c else skipCount (noSigEnv env) X c) >>= fun c => countOp (noSigEnv env) c 1)
      (sameP_cnd env nf) ?_)
  intro v
  cases v
  · exact same_bind (same_skipCount env X) (same_countOp env 1)
  · exact same_bind hf (same_countOp env 1)

theorem same_ifElse {env : Env} (nf : Bool) (X Y : List Op) {f f' g g' : Core → Except Err Core}
    (hf : Same env f f') (hg : Same env g g') :
    Same env (ifElse env nf X Y f g) (ifElse (noSigEnv env) nf X Y f' g') := by
  refine same_congr (ifElse_eq env nf X Y f g) (ifElse_eq (noSigEnv env) nf X Y f' g')
    (sameP_bind (g := fun (v : Bool) (c : Core) => (if v then f c else skipCount env X c) >>= fun c =>
        countOp env c 1 >>= fun c => (if v then skipCount env Y c else g c) >>= fun c => countOp env c 1)
      (g' := fun (v : Bool) (c : Core) => (if v then f' c else skipCount (noSigEnv env) X c) >>= fun c =>
        countOp (noSigEnv env) c 1 >>= fun c => (if v then skipCount (noSigEnv env) Y c else g' c) >>= fun c =>
          countOp (noSigEnv env) c 1)
      (sameP_cnd env nf) ?_)
  intro v
  cases v
  · exact same_bind (same_skipCount env X)
      (same_bind (same_countOp env 1) (same_bind hg (same_countOp env 1)))
  · exact same_bind hf
      (same_bind (same_countOp env 1) (same_bind (same_skipCount env Y) (same_countOp env 1)))

theorem same_verifyTail {env : Env} {ke : KeyEnv} (hs : OracleSane env ke) (fused : Bool) :
    Same env (verifyTail env fused) (verifyTail (noSigEnv env) fused) := by
  cases fused
  · exact same_opc hs .verify
  · refine same_of_eq (fun _ => rfl) ?_
    intro c c' hc h
    obtain ⟨a, e, _, ha⟩ := verifyTail_ok h
    exact ⟨fun x hx => hc.1 x (by rw [e]; exact List.mem_cons_of_mem _ hx), fun x hx => hc.2 x (ha ▸ hx)⟩

theorem genPushes_encodeMultiA (env : Env) (ke : KeyEnv) : (ks : List Key) → GenPushes env ke (encodeMultiA ke ks)
  | [] => fun bs h => by simp [encodeMultiA] at h
  | k :: ks => fun bs h => by
    simp only [encodeMultiA, List.cons_append, List.nil_append, List.mem_cons, Op.push.injEq, reduceCtorEq, false_or,
      List.mem_flatMap] at h
    rcases h with rfl | ⟨pk, _, h⟩
    · exact Gen.ser k
    · simp only [List.mem_cons, Op.push.injEq, reduceCtorEq, or_false, List.not_mem_nil] at h
      rw [h]; exact Gen.ser pk

theorem genPushes_multi (env : Env) (ke : KeyEnv) (k : Nat) (ks : List Key) :
    GenPushes env ke ([pushInt k] ++ ks.map (fun pk => Op.push (ke.ser pk)) ++ [pushInt ks.length, .code .checkmultisig]) := by
  intro bs h
  simp only [List.mem_append, List.mem_cons, List.mem_map, List.not_mem_nil, or_false, reduceCtorEq] at h
  rcases h with (h | ⟨pk, _, h⟩) | h
  · exact genPushes_pushInt env ke k bs h.symm
  · cases h; exact Gen.ser pk
  · exact genPushes_pushInt env ke ks.length bs h.symm

theorem genPushes_multiA (env : Env) (ke : KeyEnv) (k : Nat) (ks : List Key) :
    GenPushes env ke (encodeMultiA ke ks ++ [pushInt k, .code .numequal]) := by
  intro bs h
  simp only [List.mem_append, List.mem_cons, List.not_mem_nil, or_false, reduceCtorEq] at h
  rcases h with h | h
  · exact genPushes_encodeMultiA env ke ks bs h
  · exact genPushes_pushInt env ke k bs h.symm

mutual
theorem same_frag {env : Env} {ke : KeyEnv} (hs : OracleSane env ke) (ctx : Ctx) :
    (ms : Ms) → Same env (frag env ke ctx ms) (frag (noSigEnv env) ke ctx ms)
  | .pkK k => same_congr (fun c => by rw [frag]) (fun c => by rw [frag]) (same_pshGen hs (Gen.ser k))
  | .pkH k => same_congr (fun c => by rw [frag]) (fun c => by rw [frag]) (same_seqOps hs _ (fun bs h => by
      simp only [List.mem_cons, Op.push.injEq, reduceCtorEq, false_or, or_false, List.not_mem_nil] at h
      rw [h]; exact Gen.pkh k))
  | .rawPkH k => same_congr (fun c => by rw [frag]) (fun c => by rw [frag]) (same_seqOps hs _ (fun bs h => by
      simp only [List.mem_cons, Op.push.injEq, reduceCtorEq, false_or, or_false, List.not_mem_nil] at h
      rw [h]; exact Gen.rawPkh k))
  | .after n => same_congr (fun c => by rw [frag]) (fun c => by rw [frag]) (same_seqOps hs _ (fun bs h => by
      simp only [List.mem_cons, reduceCtorEq, or_false, List.not_mem_nil] at h
      exact genPushes_pushInt env ke n bs h.symm))
  | .older n => same_congr (fun c => by rw [frag]) (fun c => by rw [frag]) (same_seqOps hs _ (fun bs h => by
      simp only [List.mem_cons, reduceCtorEq, or_false, List.not_mem_nil] at h
      exact genPushes_pushInt env ke n bs h.symm))
  | .hash kind hh => same_congr (fun c => by rw [frag]) (fun c => by rw [frag]) (same_seqOps hs _ (fun bs h => by
      simp only [List.mem_cons, Op.push.injEq, reduceCtorEq, false_or, or_false, List.not_mem_nil] at h
      rcases h with h | h
      · exact genPushes_pushInt env ke 32 bs h.symm
      · rw [h]; exact Gen.hashVal kind hh))
  | .tru => same_congr (fun c => by rw [frag]) (fun c => by rw [frag]) (same_pshOp hs _ (fun _ h => by cases h))
  | .fls => same_congr (fun c => by rw [frag]) (fun c => by rw [frag]) (same_pshOp hs _ (fun _ h => by cases h))
  | .multi k ks => same_congr (fun c => by rw [frag]) (fun c => by rw [frag]) (same_seqOps hs _ (genPushes_multi env ke k ks))
  | .sortedMulti k ks => same_congr (fun c => by rw [frag]) (fun c => by rw [frag])
      (same_seqOps hs _ (by
        have := genPushes_multi env ke k (sortKeys ke ks)
        rw [sortKeys_length] at this
        exact this))
  | .multiA k ks => same_congr (fun c => by rw [frag]) (fun c => by rw [frag]) (same_seqOps hs _ (genPushes_multiA env ke k ks))
  | .sortedMultiA k ks => same_congr (fun c => by rw [frag]) (fun c => by rw [frag])
      (same_seqOps hs _ (genPushes_multiA env ke k (sortKeys ke ks)))
  | .alt x => same_congr (frag_alt env ke ctx x) (frag_alt (noSigEnv env) ke ctx x)
      (same_bind (same_opc hs _) (same_bind (same_frag hs ctx x) (same_opc hs _)))
  | .swap x => same_congr (frag_swap env ke ctx x) (frag_swap (noSigEnv env) ke ctx x)
      (same_bind (same_opc hs _) (same_frag hs ctx x))
  | .check x => same_congr (frag_check env ke ctx x) (frag_check (noSigEnv env) ke ctx x)
      (same_bind (same_frag hs ctx x) (same_opc hs _))
  | .dupIf x => same_congr (frag_dupIf env ke ctx x) (frag_dupIf (noSigEnv env) ke ctx x)
      (same_bind (same_opc hs _) (same_ifThen _ _ (same_frag hs ctx x)))
  | .verify x => same_congr (frag_verify env ke ctx x) (frag_verify (noSigEnv env) ke ctx x)
      (same_bind (same_frag hs ctx x) (same_verifyTail hs _))
  | .nonZero x => same_congr (frag_nonZero env ke ctx x) (frag_nonZero (noSigEnv env) ke ctx x)
      (same_bind (same_opc hs _) (same_bind (same_opc hs _) (same_ifThen _ _ (same_frag hs ctx x))))
  | .zeroNotEqual x => same_congr (frag_zeroNotEqual env ke ctx x) (frag_zeroNotEqual (noSigEnv env) ke ctx x)
      (same_bind (same_frag hs ctx x) (same_opc hs _))
  | .andV l r => same_congr (frag_andV env ke ctx l r) (frag_andV (noSigEnv env) ke ctx l r)
      (same_bind (same_frag hs ctx l) (same_frag hs ctx r))
  | .andB l r => same_congr (frag_andB env ke ctx l r) (frag_andB (noSigEnv env) ke ctx l r)
      (same_bind (same_frag hs ctx l) (same_bind (same_frag hs ctx r) (same_opc hs _)))
  | .orB l r => same_congr (frag_orB env ke ctx l r) (frag_orB (noSigEnv env) ke ctx l r)
      (same_bind (same_frag hs ctx l) (same_bind (same_frag hs ctx r) (same_opc hs _)))
  | .andOr a b z => same_congr (frag_andOr env ke ctx a b z) (frag_andOr (noSigEnv env) ke ctx a b z)
      (same_bind (same_frag hs ctx a) (same_ifElse _ _ _ (same_frag hs ctx z) (same_frag hs ctx b)))
  | .orD l r => same_congr (frag_orD env ke ctx l r) (frag_orD (noSigEnv env) ke ctx l r)
      (same_bind (same_frag hs ctx l) (same_bind (same_opc hs _) (same_ifThen _ _ (same_frag hs ctx r))))
  | .orC l r => same_congr (frag_orC env ke ctx l r) (frag_orC (noSigEnv env) ke ctx l r)
      (same_bind (same_frag hs ctx l) (same_ifThen _ _ (same_frag hs ctx r)))
  | .orI l r => same_congr (frag_orI env ke ctx l r) (frag_orI (noSigEnv env) ke ctx l r)
      (same_ifElse _ _ _ (same_frag hs ctx l) (same_frag hs ctx r))
  | .thresh k xs => same_congr (frag_thresh env ke ctx k xs) (frag_thresh (noSigEnv env) ke ctx k xs)
      (same_bind (same_fragThresh hs ctx true xs) (same_seqOps hs _ (fun bs h => by
        simp only [List.mem_cons, reduceCtorEq, or_false, List.not_mem_nil] at h
        exact genPushes_pushInt env ke k bs h.symm)))
theorem same_fragThresh {env : Env} {ke : KeyEnv} (hs : OracleSane env ke) (ctx : Ctx) (first : Bool) :
    (xs : MsList) → Same env (fragThresh env ke ctx first xs) (fragThresh (noSigEnv env) ke ctx first xs)
  | .nil => fun c hc => by
    rw [fragThresh, fragThresh]
    exact ⟨rfl, fun c' h => by cases h; exact hc⟩
  | .cons x xs => same_congr (fragThresh_cons env ke ctx first x xs) (fragThresh_cons (noSigEnv env) ke ctx first x xs)
      (same_bind (same_frag hs ctx x)
        (same_bind (by
            cases first
            · exact same_opc hs .add
            · exact fun c hc => ⟨rfl, fun c' h => by cases h; exact hc⟩)
          (same_fragThresh hs ctx false xs)))
end

/-! ### `s` and `f` for every sane oracle, on signature-free states -/

theorem unsatS_of_noSig {env : Env} {ke : KeyEnv} (hs : OracleSane env ke) {b : Base} {s : List Bytes} {c' : Core}
    (hc : AllClean env c') (h : UnsatS (noSigEnv env) b s c') : UnsatS env b s c' := by
  cases b with
  | B => exact h
  | V => exact h
  | W => exact h
  | K =>
    intro c'' hsig v r hv
    have := (same_opc hs .checksig c' hc).1
    rw [this] at hsig
    exact h c'' hsig v r hv

/-- `s`, stack-wise: under a sane oracle, from a state whose stacks hold no valid signature -/
theorem signed_clean {env : Env} (hlim : env.flags.stackLimits = false) {ke : KeyEnv} (hs : OracleSane env ke)
    (ctx : Ctx) (ms : Ms) (hwf : wf ms = true) (hws : wfS ms = true) (τ : Ty) (hty : typeOf ms = some τ)
    (hsg : τ.mall.signed = true) (c c' : Core) (hc : AllClean env c) (hrun : frag env ke ctx ms c = .ok c') :
    UnsatS env τ.corr.base c.stack c' := by
  obtain ⟨heq, hcl⟩ := same_frag hs ctx ms c hc
  rw [heq] at hrun
  have := signed (env := noSigEnv env) hlim (noSigEnv_noSig env) ke ctx ms hwf hws τ hty hsg c c' hrun
  exact unsatS_of_noSig hs (hcl c' (heq ▸ hrun)) this

theorem forced_clean {env : Env} (hlim : env.flags.stackLimits = false) {ke : KeyEnv} (hs : OracleSane env ke)
    (ctx : Ctx) (ms : Ms) (hwf : wf ms = true) (hws : wfS ms = true) (hwt : wfT ms = true) (τ : Ty)
    (hty : typeOf ms = some τ) (hd : τ.mall.dissat = .none) (c c' : Core) (hc : AllClean env c)
    (hrun : frag env ke ctx ms c = .ok c') : ForcedS τ.corr.base c.stack c' := by
  obtain ⟨heq, _⟩ := same_frag hs ctx ms c hc
  rw [heq] at hrun
  exact forced (env := noSigEnv env) hlim (noSigEnv_noSig env) ke ctx ms hwf hws hwt τ hty hd c c' hrun
end MsVerif.TypeSound

/-
Analysis of the satisfier model for `multi` (`multiSD`: collect available signatures, blank
the most expensive surplus ones) and `multi_a` (`multiASD`: first `k` available keys from the
back, empty vectors elsewhere): the shape of the returned witness.
-/
import MsVerif.Lemmas.SatModel

namespace MsVerif.SatSpec
open MsVerif Script

/-! ### generic list facts -/

theorem foldl_combine_stack (l : List (List Ph)) : ∀ acc : List Ph,
    l.foldl (fun acc s => Wit.combine acc (.stack s)) (.stack acc) = .stack (acc ++ l.flatten) := by
  induction l with
  | nil => intro acc; simp
  | cons x xs ih =>
    intro acc
    have : Wit.combine (.stack acc) (.stack x) = .stack (acc ++ x) := rfl
    rw [List.foldl_cons, this, ih]; simp

theorem flatten_set_nil {α : Type} (L : List (List α)) : ∀ i, (h : i < L.length) →
    (L.set i []).flatten.Sublist L.flatten ∧
    (L.set i []).flatten.length + L[i].length = L.flatten.length := by
  induction L with
  | nil => intro i h; simp at h
  | cons e es ih =>
    intro i h
    cases i with
    | zero => simp; omega
    | succ j =>
      have := ih j (by simpa using h)
      simp only [List.set_cons_succ, List.flatten_cons, List.getElem_cons_succ, List.length_append]
      exact ⟨List.Sublist.append (List.Sublist.refl _) this.1, by omega⟩

/-! ### `max_by_key(|v| v.len())` -/

def maxStep (best : Nat × Nat) (p : List Ph × Nat) : Nat × Nat :=
  if p.1.length ≥ best.2 then (p.2, p.1.length) else best

theorem maxIdxLast_eq (l : List (List Ph)) : maxIdxLast l = (l.zipIdx.foldl maxStep (0, 0)).1 := rfl

theorem maxfold (L : List (List Ph)) : ∀ (k bi bl : Nat),
    bl ≤ ((L.zipIdx k).foldl maxStep (bi, bl)).2 ∧
    (∀ e ∈ L, e.length ≤ ((L.zipIdx k).foldl maxStep (bi, bl)).2) ∧
    (((L.zipIdx k).foldl maxStep (bi, bl) = (bi, bl) ∧ ∀ e ∈ L, e.length < bl) ∨
     (∃ j, ∃ h : j < L.length, ((L.zipIdx k).foldl maxStep (bi, bl)).1 = k + j ∧
        L[j].length = ((L.zipIdx k).foldl maxStep (bi, bl)).2)) := by
  induction L with
  | nil => intro k bi bl; simp
  | cons e es ih =>
    intro k bi bl
    simp only [List.zipIdx_cons, List.foldl_cons]
    by_cases hge : e.length ≥ bl
    · have hs : maxStep (bi, bl) (e, k) = (k, e.length) := by simp [maxStep, hge]
      rw [hs]
      obtain ⟨h1, h2, h3⟩ := ih (k + 1) k e.length
      refine ⟨by omega, ?_, .inr ?_⟩
      · intro e' he'
        rcases List.mem_cons.mp he' with rfl | he'
        · exact h1
        · exact h2 e' he'
      · rcases h3 with ⟨heq, _⟩ | ⟨j, hj, hj1, hj2⟩
        · exact ⟨0, by simp, by simp [heq], by simp [heq]⟩
        · exact ⟨j + 1, by simpa using hj, by omega, by simpa using hj2⟩
    · have hs : maxStep (bi, bl) (e, k) = (bi, bl) := by simp [maxStep, hge]
      rw [hs]
      obtain ⟨h1, h2, h3⟩ := ih (k + 1) bi bl
      refine ⟨h1, ?_, ?_⟩
      · intro e' he'
        rcases List.mem_cons.mp he' with rfl | he'
        · omega
        · exact h2 e' he'
      · rcases h3 with ⟨heq, hlt⟩ | ⟨j, hj, hj1, hj2⟩
        · refine .inl ⟨heq, ?_⟩
          intro e' he'
          rcases List.mem_cons.mp he' with rfl | he'
          · omega
          · exact hlt e' he'
        · exact .inr ⟨j + 1, by simpa using hj, by omega, by simpa using hj2⟩

theorem maxIdxLast_spec (L : List (List Ph)) (hle : ∀ e ∈ L, e.length ≤ 1)
    (hex : ∃ e ∈ L, e.length = 1) :
    ∃ h : maxIdxLast L < L.length, L[maxIdxLast L].length = 1 := by
  obtain ⟨h1, h2, h3⟩ := maxfold L 0 0 0
  obtain ⟨e, he, hel⟩ := hex
  rw [maxIdxLast_eq]
  rcases h3 with ⟨_, hlt⟩ | ⟨j, hj, hj1, hj2⟩
  · exact absurd (hlt e he) (by omega)
  · have hj1' : (L.zipIdx.foldl maxStep (0, 0)).1 = j := by simpa using hj1
    rw [hj1']
    refine ⟨hj, ?_⟩
    have := h2 e he
    have := hle L[j] (List.getElem_mem hj)
    omega

theorem dropMostExpensive_spec : ∀ (m : Nat) (L : List (List Ph)),
    (∀ e ∈ L, e.length ≤ 1) → m ≤ L.flatten.length →
    (dropMostExpensive m L).flatten.Sublist L.flatten ∧
    (dropMostExpensive m L).flatten.length = L.flatten.length - m := by
  intro m
  induction m with
  | zero => intro L _ _; simp [dropMostExpensive]
  | succ m ih =>
    intro L hle hm
    have hex : ∃ e ∈ L, e.length = 1 := by
      by_cases hall : ∀ e ∈ L, e = []
      · have : L.flatten = [] := by simpa [List.flatten_eq_nil_iff] using hall
        simp [this] at hm
      · obtain ⟨e, hne⟩ := Classical.not_forall.mp hall
        obtain ⟨he, hne⟩ := Classical.not_imp.mp hne
        refine ⟨e, he, ?_⟩
        have := hle e he
        have : e.length ≠ 0 := by simpa using hne
        omega
    obtain ⟨hi, hil⟩ := maxIdxLast_spec L hle hex
    obtain ⟨hsub, hlen⟩ := flatten_set_nil L _ hi
    have hle' : ∀ e ∈ L.set (maxIdxLast L) [], e.length ≤ 1 := by
      intro e he
      rcases List.mem_or_eq_of_mem_set he with he | rfl
      · exact hle e he
      · simp
    obtain ⟨ihs, ihl⟩ := ih (L.set (maxIdxLast L) []) hle' (by omega)
    simp only [dropMostExpensive]
    exact ⟨ihs.trans hsub, by omega⟩

/-! ### `multi` -/

theorem sigWit_ecdsa {ctx : Ctx} (hctx : ctx ≠ .tap) (a : Assets) (k : Key) :
    sigWit ctx a k = if a.ecdsaSig k then .stack [.ecdsaSig k] else .impossible := by
  unfold sigWit
  cases ctx <;> simp_all [Ctx.sigType]

theorem sigWit_schnorr (a : Assets) (k : Key) :
    sigWit .tap a k = match a.schnorrSig k with
      | some sz => .stack [.schnorrSig k sz] | none => .impossible := by
  cases h : a.schnorrSig k <;> simp [sigWit, Ctx.sigType, h]

theorem multi_sigs_eq {ctx : Ctx} (hctx : ctx ≠ .tap) (a : Assets) (ks : List Key) :
    (ks.filterMap fun pk => multiSD.match_1 (fun _ => Option (List Ph)) (sigWit ctx a pk)
        (fun s => some s) (fun _ => none)) =
      (ks.filter a.ecdsaSig).map (fun pk => [Ph.ecdsaSig pk]) := by
  induction ks with
  | nil => rfl
  | cons x xs ih =>
    simp only [List.filterMap_cons, List.filter_cons]
    rw [sigWit_ecdsa hctx a x]
    by_cases hx : a.ecdsaSig x = true <;> simp [hx, ih]

/-- the satisfaction of `multi(k, ks)`: the dummy followed by signatures for a length-`k`
sub-sequence of the keys, all of them available -/
theorem multiSD_sat {ctx : Ctx} (hctx : ctx ≠ .tap) (a : Assets) (k : Nat) (ks : List Key)
    {w : List Ph} (hw : (multiSD ctx a k ks).sat.stack = .stack w) :
    ∃ ss : List Key, ss.Sublist ks ∧ ss.length = k ∧ (∀ x ∈ ss, a.ecdsaSig x = true) ∧
      w = .pushZero :: ss.map Ph.ecdsaSig := by
  simp only [multiSD] at hw
  rw [multi_sigs_eq hctx] at hw
  split at hw
  · simp [Sat.IMPOSSIBLE] at hw
  · rename_i hlen
    simp only [List.length_map] at hlen
    simp only [foldl_combine_stack, Wit.stack.injEq] at hw
    have hfl : ((ks.filter a.ecdsaSig).map (fun pk => [Ph.ecdsaSig pk])).flatten =
        (ks.filter a.ecdsaSig).map Ph.ecdsaSig := by
      induction (ks.filter a.ecdsaSig) with
      | nil => rfl
      | cons x xs ih => simp [ih]
    obtain ⟨hsub, hl⟩ := dropMostExpensive_spec
      (((ks.filter a.ecdsaSig).map (fun pk => [Ph.ecdsaSig pk])).length - k)
      ((ks.filter a.ecdsaSig).map (fun pk => [Ph.ecdsaSig pk]))
      (by intro e he; simp only [List.mem_map] at he; obtain ⟨_, _, rfl⟩ := he; simp)
      (by rw [hfl]; simp)
    rw [hfl] at hsub hl
    obtain ⟨ss, hss, hssm⟩ := List.sublist_map_iff.mp hsub
    refine ⟨ss, hss.trans List.filter_sublist, ?_, ?_, ?_⟩
    · have : (ss.map Ph.ecdsaSig).length = (ks.filter a.ecdsaSig).length - ((ks.filter a.ecdsaSig).length - k) := by
        rw [← hssm, hl]; simp
      simp at this; omega
    · intro x hx
      have := hss.subset hx
      simpa using (List.mem_filter.mp this).2
    · rw [← hw, hssm]; rfl

theorem multiSD_dis (ctx : Ctx) (a : Assets) (k : Nat) (ks : List Key) :
    (multiSD ctx a k ks).dissat = ⟨.stack (List.replicate (k + 1) .pushZero), false, none, none⟩ := by
  unfold multiSD
  simp only
  split <;> rfl

/-! ### `multi_a` -/

/-- what the satisfier puts at the position of key `pk`: the empty vector, or an available
Schnorr signature for that key -/
def SlotOk (a : Assets) (pk : Key) (s : List Ph) : Prop :=
  s = [.pushZero] ∨ ∃ sz, a.schnorrSig pk = some sz ∧ s = [.schnorrSig pk sz]

def isSigSlot (s : List Ph) : Bool := s != [.pushZero]

def sigSlots (l : List (List Ph)) : Nat := (l.filter isSigSlot).length

theorem isSigSlot_sig (pk : Key) (sz : Nat) : isSigSlot [.schnorrSig pk sz] = true := by
  simp [isSigSlot, bne_iff_ne]

theorem isSigSlot_zero : isSigSlot [.pushZero] = false := by
  simp [isSigSlot]

theorem sigSlots_cons_sig (pk : Key) (sz : Nat) (l : List (List Ph)) :
    sigSlots ([.schnorrSig pk sz] :: l) = sigSlots l + 1 := by
  simp [sigSlots, List.filter_cons, isSigSlot_sig]

theorem sigSlots_cons_zero (l : List (List Ph)) : sigSlots ([.pushZero] :: l) = sigSlots l := by
  simp [sigSlots, List.filter_cons, isSigSlot_zero]

theorem sigSlots_nil : sigSlots [] = 0 := rfl

theorem All2.append {α β : Type} {R : α → β → Prop} {l1 l2 : List α} {m1 m2 : List β}
    (h1 : All2 R l1 m1) (h2 : All2 R l2 m2) : All2 R (l1 ++ l2) (m1 ++ m2) := by
  induction h1 with
  | nil => exact h2
  | cons hr _ ih => exact .cons hr ih

theorem All2.reverse {α β : Type} {R : α → β → Prop} {l : List α} {m : List β}
    (h : All2 R l m) : All2 R l.reverse m.reverse := by
  induction h with
  | nil => exact .nil
  | cons hr _ ih => simp only [List.reverse_cons]; exact ih.append (.cons hr .nil)

theorem All2.length_eq {α β : Type} {R : α → β → Prop} {l : List α} {m : List β}
    (h : All2 R l m) : l.length = m.length := by
  induction h with
  | nil => rfl
  | cons _ _ ih => simp [ih]

theorem all2_slot_replicate (a : Assets) (ks : List Key) :
    All2 (SlotOk a) ks (List.replicate ks.length [.pushZero]) := by
  induction ks with
  | nil => exact .nil
  | cons x xs ih => exact .cons (.inl rfl) ih

theorem sigSlots_replicate (n : Nat) : sigSlots (List.replicate n [.pushZero]) = 0 := by
  induction n with
  | zero => rfl
  | succ n ih => rw [List.replicate_succ, sigSlots_cons_zero, ih]

theorem sigSlots_append (l m : List (List Ph)) : sigSlots (l ++ m) = sigSlots l + sigSlots m := by
  simp [sigSlots]

theorem set_length_append {α : Type} (l : List α) (x y : α) (m : List α) :
    (l ++ x :: m).set l.length y = l ++ y :: m := by
  induction l with
  | nil => rfl
  | cons a l ih => simp [ih]

theorem multiALoop_spec (a : Assets) (k : Nat) : ∀ (keys dkeys : List Key) (dsigs : List (List Ph)),
    All2 (SlotOk a) dkeys dsigs → sigSlots dsigs < k →
    ∃ sigs', multiALoop .tap a k keys dsigs.length (sigSlots dsigs)
        (dsigs ++ List.replicate keys.length [.pushZero]) = (sigSlots sigs', sigs') ∧
      All2 (SlotOk a) (dkeys ++ keys) sigs' ∧ sigSlots sigs' ≤ k := by
  intro keys
  induction keys with
  | nil =>
    intro dkeys dsigs hd hlt
    exact ⟨dsigs, by simp [multiALoop], by simpa using hd, by omega⟩
  | cons pk rest ih =>
    intro dkeys dsigs hd hlt
    simp only [multiALoop, sigWit_schnorr, List.length_cons, List.replicate_succ]
    cases hs : a.schnorrSig pk with
    | none =>
      simp only
      have hd' : All2 (SlotOk a) (dkeys ++ [pk]) (dsigs ++ [[.pushZero]]) :=
        hd.append (.cons (.inl rfl) .nil)
      have hcnt : sigSlots (dsigs ++ [[.pushZero]]) = sigSlots dsigs := by
        simp [sigSlots_append, sigSlots_cons_zero, sigSlots_nil]
      obtain ⟨sigs', he, ha, hk⟩ := ih (dkeys ++ [pk]) (dsigs ++ [[.pushZero]]) hd' (by omega)
      refine ⟨sigs', ?_, by simpa using ha, hk⟩
      simpa [hcnt] using he
    | some sz =>
      simp only [set_length_append]
      have hd' : All2 (SlotOk a) (dkeys ++ [pk]) (dsigs ++ [[.schnorrSig pk sz]]) :=
        hd.append (.cons (.inr ⟨sz, hs, rfl⟩) .nil)
      have hcnt : sigSlots (dsigs ++ [[.schnorrSig pk sz]]) = sigSlots dsigs + 1 := by
        simp [sigSlots_append, sigSlots_cons_sig, sigSlots_nil]
      have hcnt2 : sigSlots (dsigs ++ [.schnorrSig pk sz] :: List.replicate rest.length [.pushZero]) =
          sigSlots dsigs + 1 := by
        simp [sigSlots_append, sigSlots_cons_sig, sigSlots_replicate]
      split
      · rename_i hk1
        refine ⟨dsigs ++ [.schnorrSig pk sz] :: List.replicate rest.length [.pushZero], ?_, ?_, ?_⟩
        · rw [hcnt2]
        · exact hd.append (.cons (.inr ⟨sz, hs, rfl⟩) (all2_slot_replicate a rest))
        · omega
      · rename_i hk1
        obtain ⟨sigs', he, ha, hk⟩ := ih (dkeys ++ [pk]) (dsigs ++ [[.schnorrSig pk sz]]) hd' (by omega)
        refine ⟨sigs', ?_, by simpa using ha, hk⟩
        simpa [hcnt] using he

/-- the satisfaction of `multi_a(k, ks)`: one slot per key (last key first = bottom of the
stack), each the empty vector or an available signature for that key, exactly `k` signatures -/
theorem multiASD_sat (a : Assets) (k : Nat) (ks : List Key) (hk : 1 ≤ k)
    {w : List Ph} (hw : (multiASD .tap a k ks).sat.stack = .stack w) :
    ∃ sigs', All2 (SlotOk a) ks.reverse sigs' ∧ sigSlots sigs' = k ∧ w = sigs'.flatten := by
  obtain ⟨sigs', he, ha, hle⟩ := multiALoop_spec a k ks.reverse [] [] .nil (by simp [sigSlots_nil]; omega)
  simp only [List.length_nil, sigSlots_nil, List.nil_append, List.length_reverse] at he ha
  simp only [multiASD, he] at hw
  split at hw
  · simp [Sat.IMPOSSIBLE] at hw
  · rename_i hnlt
    have := foldl_combine_stack sigs' []
    simp only [List.nil_append] at this
    simp only [this, Wit.stack.injEq] at hw
    exact ⟨sigs', ha, by omega, hw.symm⟩

theorem multiASD_dis (ctx : Ctx) (a : Assets) (k : Nat) (ks : List Key) :
    (multiASD ctx a k ks).dissat = ⟨.stack (List.replicate ks.length .pushZero), false, none, none⟩ := by
  simp only [multiASD]
  split <;> rfl

/-! ### the BIP67 sort of the satisfier is the sort of the encoder -/

theorem bytesLe'_eq : ∀ a b : Bytes, bytesLe' a b = bytesLe a b
  | [], _ => by simp [bytesLe', bytesLe]
  | _ :: _, [] => by simp [bytesLe', bytesLe]
  | a :: as, b :: bs => by simp [bytesLe', bytesLe, bytesLe'_eq as bs]

theorem insertKey'_eq (ke : KeyEnv) (k : Key) (l : List Key) :
    insertKey' ke k l = insertByKey ke k l := by
  induction l with
  | nil => rfl
  | cons x xs ih => simp [insertKey', insertByKey, bytesLe'_eq, ih]

theorem sortKeys'_eq (ke : KeyEnv) (ks : List Key) : sortKeys' ke ks = sortKeys ke ks := by
  unfold sortKeys' sortKeys
  congr 1
  funext acc k
  exact insertKey'_eq ke k acc

end MsVerif.SatSpec

/-
T2a, byte level: lexing the serialisation of an opcode list is lexing the list op by op
(`lexOps`), provided every push is a direct minimal push (`Lexable`).
-/
import MsVerif.Lemmas.LexNum

namespace MsVerif
namespace LexL
open Script

/-! ### fuel is irrelevant -/

theorem takeSlice_len {n : Nat} {rest rest' : Bytes} {ins : Instr}
    (h : takeSlice n rest = .ok (ins, rest')) : rest'.length ≤ rest.length := by
  unfold takeSlice at h
  split at h
  · cases h; simp
  · cases h

theorem pushDataLen_len {a b : Nat} {rest rest' : Bytes} {ins : Instr}
    (h : pushDataLen a b rest = .ok (ins, rest')) : rest'.length ≤ rest.length := by
  unfold pushDataLen at h
  repeat' (first | split at h | (dsimp only at h))
  · cases h
  · cases h
  · have := takeSlice_len h; simp at this; omega

theorem nextInstr_len {b : UInt8} {rest rest' : Bytes} {ins : Instr}
    (h : nextInstr b rest = .ok (ins, rest')) : rest'.length ≤ rest.length := by
  unfold nextInstr at h
  dsimp only at h
  repeat' split at h
  all_goals first
    | (cases h; done)
    | exact takeSlice_len h
    | exact pushDataLen_len h
    | (cases h; exact Nat.le_refl _)

theorem lexGo_fuel (strict : Bool) : ∀ (fuel : Nat) (prev : Option Token) (bs : Bytes),
    bs.length ≤ fuel → lexGo strict fuel prev bs = lexGo strict bs.length prev bs := by
  intro fuel
  induction fuel using Nat.strongRecOn with
  | _ fuel ih =>
    intro prev bs hle
    cases bs with
    | nil => cases fuel <;> simp [lexGo]
    | cons b rest =>
      cases fuel with
      | zero => simp at hle
      | succ f =>
        simp only [List.length_cons, lexGo]
        split
        · rfl
        · rename_i ins rest' hn
          have hl := nextInstr_len hn
          split
          · rfl
          · rename_i toks _
            have h1 := ih f (by omega) (toks.getLast?.or prev) rest' (by simp at hle; omega)
            have h2 := ih rest.length (by simp at hle; omega) (toks.getLast?.or prev) rest' hl
            rw [h1, h2]

/-- the lexer loop with exactly the fuel it needs -/
def lexB (strict : Bool) (prev : Option Token) (bs : Bytes) : Except LexErr (List Token) :=
  lexGo strict bs.length prev bs

theorem lexB_nil (strict : Bool) (prev : Option Token) : lexB strict prev [] = .ok [] := rfl

theorem lexB_cons (strict : Bool) (prev : Option Token) (b : UInt8) (rest : Bytes) :
    lexB strict prev (b :: rest) =
      match nextInstr b rest with
      | .error e => .error e
      | .ok (ins, rest') =>
        match instrTokens strict prev ins with
        | .error e => .error e
        | .ok toks =>
          match lexB strict (toks.getLast?.or prev) rest' with
          | .error e => .error e
          | .ok ts => .ok (toks ++ ts) := by
  simp only [lexB, List.length_cons, lexGo]
  cases hn : nextInstr b rest with
  | error e => rfl
  | ok p =>
    obtain ⟨ins, rest'⟩ := p
    simp only
    cases ht : instrTokens strict prev ins with
    | error e => rfl
    | ok toks =>
      simp only
      rw [lexGo_fuel strict rest.length _ rest' (nextInstr_len hn)]
      rfl

theorem lexG_eq (strict : Bool) (bs : Bytes) : lexG strict bs = lexB strict none bs := rfl

/-! ### one op at a time -/

/-- the instruction rust-bitcoin's iterator yields for an op of the encoder -/
def instrOf : Op → Instr
  | .small 0 => .push []
  | .small n => .op (UInt8.ofNat (0x50 + n))
  | .push bs => .push bs
  | .code c => .op c.byte
  | .bad b => .op b

/-- ops whose serialisation the minimal-push iterator accepts as ONE instruction -/
def Lexable : Op → Prop
  | .small n => n ≤ 16
  | .push bs => 1 ≤ bs.length ∧ bs.length ≤ 75 ∧ (∀ c, bs = [c] → hasPushNum c = false)
  | .code _ => True
  | .bad _ => False

def opLex (strict : Bool) (prev : Option Token) (op : Op) : Except LexErr (List Token) :=
  instrTokens strict prev (instrOf op)

theorem nextInstr_op {op : Op} (h : Lexable op) (rest : Bytes) :
    ∃ b tl, op.bytes ++ rest = b :: tl ∧ nextInstr b tl = .ok (instrOf op, rest) := by
  cases op with
  | small n =>
    simp only [Lexable] at h
    have : n = 0 ∨ n = 1 ∨ n = 2 ∨ n = 3 ∨ n = 4 ∨ n = 5 ∨ n = 6 ∨ n = 7 ∨ n = 8 ∨ n = 9 ∨ n = 10 ∨
        n = 11 ∨ n = 12 ∨ n = 13 ∨ n = 14 ∨ n = 15 ∨ n = 16 := by omega
    rcases this with rfl | rfl | rfl | rfl | rfl | rfl | rfl | rfl | rfl | rfl | rfl | rfl | rfl | rfl | rfl | rfl | rfl
    · refine ⟨0x00, rest, rfl, ?_⟩
      simp [nextInstr, takeSlice, instrOf]
    all_goals exact ⟨_, rest, rfl, rfl⟩
  | push bs =>
    obtain ⟨h1, h2, h3⟩ := h
    refine ⟨UInt8.ofNat bs.length, bs ++ rest, ?_, ?_⟩
    · simp only [Op.bytes, pushPrefix]
      have : bs.length < 0x4c := by omega
      simp [this]
    · have hlen : (UInt8.ofNat bs.length).toNat = bs.length := by
        rw [u8_ofNat_toNat]; omega
      simp only [nextInstr, hlen, instrOf]
      have h75 : bs.length ≤ 75 := h2
      simp only [h75, if_true]
      have hguard : (decide (bs.length = 1) && (match bs ++ rest with | c :: _ => hasPushNum c | [] => false)) = false := by
        by_cases h1' : bs.length = 1
        · match bs, h1' with
          | [c], _ => simp [h3 c rfl]
        · simp [h1']
      simp only [takeSlice, List.length_append]
      have : bs.length ≤ bs.length + rest.length := by omega
      simp [this]
      intro h1'
      match bs, h1', h3 with
      | [c], _, h3 => simp [h3 c rfl]
  | code c =>
    refine ⟨c.byte, rest, rfl, ?_⟩
    cases c <;> rfl
  | bad b => exact absurd h (by simp [Lexable])

theorem lexB_op (strict : Bool) (prev : Option Token) {op : Op} (h : Lexable op) (rest : Bytes) :
    lexB strict prev (op.bytes ++ rest) =
      match opLex strict prev op with
      | .error e => .error e
      | .ok toks =>
        match lexB strict (toks.getLast?.or prev) rest with
        | .error e => .error e
        | .ok ts => .ok (toks ++ ts) := by
  obtain ⟨b, tl, e, hn⟩ := nextInstr_op h rest
  rw [e, lexB_cons, hn]
  rfl

/-- the token stream of an op list (what `lex` does, instruction by instruction) -/
def lexOps (strict : Bool) : Option Token → List Op → Except LexErr (List Token)
  | _, [] => .ok []
  | prev, op :: ops =>
    match opLex strict prev op with
    | .error e => .error e
    | .ok toks =>
      match lexOps strict (toks.getLast?.or prev) ops with
      | .error e => .error e
      | .ok ts => .ok (toks ++ ts)

theorem lexB_serialize (strict : Bool) (ops : List Op) (h : ∀ op ∈ ops, Lexable op) :
    ∀ prev, lexB strict prev (serialize ops) = lexOps strict prev ops := by
  induction ops with
  | nil => intro prev; rfl
  | cons op ops ih =>
    intro prev
    have : serialize (op :: ops) = op.bytes ++ serialize ops := by simp [serialize]
    rw [this, lexB_op strict prev (h op (by simp))]
    simp only [lexOps]
    split
    · rfl
    · rw [ih (fun o ho => h o (by simp [ho]))]

end LexL
end MsVerif

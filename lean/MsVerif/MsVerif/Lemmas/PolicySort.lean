/-
`Ord for Policy` (model `Sem.cmp`) is a lawful total order — `Equal` only on identical policies,
antisymmetric, transitive — hence `sorted` is a normal form of the children's order: permuting
the children of any threshold, at any depth, does not change the result.
-/
import MsVerif.Lemmas.PolicyBasic

set_option linter.unusedSimpArgs false
namespace MsVerif.Pol
open Sem

/-! ## three-way comparisons -/

theorem then_eq_eq (a b : Ordering) : a.then b = .eq ↔ a = .eq ∧ b = .eq := by
  cases a <;> cases b <;> simp [Ordering.then]

theorem then_eq_lt (a b : Ordering) : a.then b = .lt ↔ a = .lt ∨ (a = .eq ∧ b = .lt) := by
  cases a <;> cases b <;> simp [Ordering.then]

theorem then_swap (a b : Ordering) : (a.then b).swap = a.swap.then b.swap := by
  cases a <;> cases b <;> rfl

theorem match_eq_then (o x : Ordering) : (match o with | .eq => x | o' => o') = o.then x := by
  cases o <;> rfl

/-- what is compared after the variant names -/
def subCmp : Policy → Policy → Ordering
  | .thresh k1 s1, .thresh k2 s2 => (compare k1 k2).then (cmpList s1 s2)
  | a, b => compare (leafPayload a) (leafPayload b)

def isThresh : Policy → Bool
  | .thresh _ _ => true
  | _ => false

theorem cmp_eq (a b : Policy) :
    cmp a b = (compare (variantRank a) (variantRank b)).then (subCmp a b) := by
  cases a <;> cases b <;> simp only [cmp, subCmp]
  · simp [variantRank, Ordering.then]

theorem rank_thresh (p : Policy) : variantRank p = 7 ↔ isThresh p = true := by
  cases p with
  | atom a => cases a with
    | hash k h => cases k <;> simp [variantRank, isThresh]
    | _ => simp [variantRank, isThresh]
  | _ => simp [variantRank, isThresh]

/-- two leaves with the same variant and the same payload are the same leaf -/
theorem leaf_inj (a b : Policy) (ha : isThresh a = false) (hb : isThresh b = false)
    (hr : variantRank a = variantRank b) (hp : leafPayload a = leafPayload b) : a = b := by
  cases a with
  | thresh _ _ => simp [isThresh] at ha
  | unsat => cases b with
    | atom y => cases y with
      | hash k h => cases k <;> simp [variantRank] at hr
      | _ => simp [variantRank] at hr
    | thresh _ _ => simp [isThresh] at hb
    | _ => simp_all [variantRank]
  | trivial => cases b with
    | atom y => cases y with
      | hash k h => cases k <;> simp [variantRank] at hr
      | _ => simp [variantRank] at hr
    | thresh _ _ => simp [isThresh] at hb
    | _ => simp_all [variantRank]
  | atom x => cases b with
    | thresh _ _ => simp [isThresh] at hb
    | unsat => cases x with
      | hash k h => cases k <;> simp [variantRank] at hr
      | _ => simp [variantRank] at hr
    | trivial => cases x with
      | hash k h => cases k <;> simp [variantRank] at hr
      | _ => simp [variantRank] at hr
    | atom y =>
      cases x with
      | hash k1 h1 => cases y with
        | hash k2 h2 =>
          cases k1 <;> cases k2 <;> simp [variantRank] at hr <;> simp_all [leafPayload]
        | _ => cases k1 <;> simp [variantRank] at hr
      | key i => cases y with
        | hash k2 h2 => cases k2 <;> simp [variantRank] at hr
        | key j => simp_all [leafPayload]
        | _ => simp [variantRank] at hr
      | after i => cases y with
        | hash k2 h2 => cases k2 <;> simp [variantRank] at hr
        | after j => simp_all [leafPayload]
        | _ => simp [variantRank] at hr
      | older i => cases y with
        | hash k2 h2 => cases k2 <;> simp [variantRank] at hr
        | older j => simp_all [leafPayload]
        | _ => simp [variantRank] at hr

theorem subCmp_leaf (a b : Policy) (h : isThresh a = false ∨ isThresh b = false) :
    subCmp a b = compare (leafPayload a) (leafPayload b) := by
  cases a <;> cases b <;> simp [isThresh] at h <;> rfl

/-! ## `Equal` only on identical policies -/

theorem cmpList_eq_iff_of (l1 : List Policy)
    (ih : ∀ p ∈ l1, ∀ b, cmp p b = .eq ↔ p = b) : ∀ l2, cmpList l1 l2 = .eq ↔ l1 = l2 := by
  induction l1 with
  | nil => intro l2; cases l2 <;> simp [cmpList]
  | cons a as iha =>
    intro l2
    cases l2 with
    | nil => simp [cmpList]
    | cons b bs =>
      simp only [cmpList, then_eq_eq, ih a (by simp) b,
        iha (fun p hp => ih p (by simp [hp])) bs, List.cons.injEq]

theorem isThresh_of_rank_eq (a b : Policy) (h : variantRank a = variantRank b) :
    isThresh a = isThresh b := by
  cases ha : isThresh a
  · cases hb : isThresh b
    · rfl
    · have := (rank_thresh b).mpr hb
      rw [← h] at this
      rw [(rank_thresh a).mp this] at ha; simp at ha
  · have := (rank_thresh a).mpr ha
    rw [h] at this
    rw [(rank_thresh b).mp this]

/-- leaves (and a leaf against a threshold): `Equal` iff identical -/
theorem cmp_eq_iff_leaf (a b : Policy) (ha : isThresh a = false) : cmp a b = .eq ↔ a = b := by
  rw [cmp_eq, then_eq_eq, Nat.compare_eq_eq]
  constructor
  · rintro ⟨hr, hs⟩
    have hb : isThresh b = false := by rw [← isThresh_of_rank_eq a b hr]; exact ha
    rw [subCmp_leaf _ _ (Or.inl ha), Nat.compare_eq_eq] at hs
    exact leaf_inj _ _ ha hb hr hs
  · rintro rfl
    rw [subCmp_leaf _ _ (Or.inl ha)]
    exact ⟨rfl, Nat.compare_eq_eq.mpr rfl⟩

theorem cmp_eq_iff : ∀ a b, cmp a b = .eq ↔ a = b := by
  intro a
  induction a using Policy.induct' with
  | thresh k subs ih =>
    intro b
    cases b with
    | thresh k2 s2 =>
      simp only [cmp, then_eq_eq, Nat.compare_eq_eq, cmpList_eq_iff_of subs ih s2,
        Policy.thresh.injEq]
    | unsat =>
      constructor
      · intro h
        rw [cmp_eq, then_eq_eq, Nat.compare_eq_eq] at h
        have := isThresh_of_rank_eq _ _ h.1; simp [isThresh] at this
      · intro h; cases h
    | trivial =>
      constructor
      · intro h
        rw [cmp_eq, then_eq_eq, Nat.compare_eq_eq] at h
        have := isThresh_of_rank_eq _ _ h.1; simp [isThresh] at this
      · intro h; cases h
    | atom y =>
      constructor
      · intro h
        rw [cmp_eq, then_eq_eq, Nat.compare_eq_eq] at h
        have := isThresh_of_rank_eq _ _ h.1; simp [isThresh] at this
      · intro h; cases h
  | unsat => intro b; exact cmp_eq_iff_leaf _ b rfl
  | trivial => intro b; exact cmp_eq_iff_leaf _ b rfl
  | atom x => intro b; exact cmp_eq_iff_leaf _ b rfl

theorem cmp_refl (a : Policy) : cmp a a = .eq := (cmp_eq_iff a a).mpr rfl

/-! ## antisymmetry -/

theorem cmpList_swap_of (l1 : List Policy)
    (ih : ∀ p ∈ l1, ∀ b, cmp b p = (cmp p b).swap) : ∀ l2, cmpList l2 l1 = (cmpList l1 l2).swap := by
  induction l1 with
  | nil => intro l2; cases l2 <;> simp [cmpList]
  | cons a as iha =>
    intro l2
    cases l2 with
    | nil => simp [cmpList]
    | cons b bs =>
      simp only [cmpList, then_swap, ih a (by simp) b,
        iha (fun p hp => ih p (by simp [hp])) bs]

theorem cmp_swap_leaf (a b : Policy) (h : isThresh a = false ∨ isThresh b = false) :
    cmp b a = (cmp a b).swap := by
  rw [cmp_eq b a, cmp_eq a b, then_swap, Nat.compare_swap, subCmp_leaf a b h,
    subCmp_leaf b a h.symm, Nat.compare_swap]

theorem cmp_swap : ∀ a b, cmp b a = (cmp a b).swap := by
  intro a
  induction a using Policy.induct' with
  | thresh k subs ih =>
    intro b
    cases b with
    | thresh k2 s2 =>
      simp only [cmp, then_swap, Nat.compare_swap, cmpList_swap_of subs ih s2]
    | _ => exact cmp_swap_leaf _ _ (Or.inr rfl)
  | unsat => intro b; exact cmp_swap_leaf _ _ (Or.inl rfl)
  | trivial => intro b; exact cmp_swap_leaf _ _ (Or.inl rfl)
  | atom x => intro b; exact cmp_swap_leaf _ _ (Or.inl rfl)

/-! ## transitivity -/

theorem cmp_lt_iff (a b : Policy) :
    cmp a b = .lt ↔ variantRank a < variantRank b
      ∨ (variantRank a = variantRank b ∧ subCmp a b = .lt) := by
  rw [cmp_eq, then_eq_lt, Nat.compare_eq_lt, Nat.compare_eq_eq]

theorem cmpList_lt_cons (a b : Policy) (as bs : List Policy) :
    cmpList (a :: as) (b :: bs) = .lt ↔ cmp a b = .lt ∨ (cmp a b = .eq ∧ cmpList as bs = .lt) := by
  rw [cmpList, then_eq_lt]

theorem cmpList_trans_of (l1 : List Policy)
    (ih : ∀ p ∈ l1, ∀ b c, cmp p b = .lt → cmp b c = .lt → cmp p c = .lt) :
    ∀ l2 l3, cmpList l1 l2 = .lt → cmpList l2 l3 = .lt → cmpList l1 l3 = .lt := by
  induction l1 with
  | nil =>
    intro l2 l3 h1 h2
    cases l2 with
    | nil => simp [cmpList] at h1
    | cons b bs => cases l3 with
      | nil => simp [cmpList] at h2
      | cons c cs => simp [cmpList]
  | cons a as iha =>
    intro l2 l3 h1 h2
    cases l2 with
    | nil => simp [cmpList] at h1
    | cons b bs =>
      cases l3 with
      | nil => simp [cmpList] at h2
      | cons c cs =>
        rw [cmpList_lt_cons] at h1 h2 ⊢
        rcases h1 with h1 | ⟨e1, t1⟩
        · rcases h2 with h2 | ⟨e2, _⟩
          · exact Or.inl (ih a (by simp) b c h1 h2)
          · rw [(cmp_eq_iff b c).mp e2] at h1; exact Or.inl h1
        · rw [(cmp_eq_iff a b).mp e1]
          rcases h2 with h2 | ⟨e2, t2⟩
          · exact Or.inl h2
          · exact Or.inr ⟨e2, iha (fun p hp => ih p (by simp [hp])) bs cs t1 t2⟩

theorem cmp_trans_leaf (a b c : Policy) (ha : isThresh a = false)
    (h1 : cmp a b = .lt) (h2 : cmp b c = .lt) : cmp a c = .lt := by
  rw [cmp_lt_iff] at h1 h2 ⊢
  rcases h1 with h1 | ⟨e1, s1⟩
  · rcases h2 with h2 | ⟨e2, _⟩
    · exact Or.inl (by omega)
    · exact Or.inl (by omega)
  · rcases h2 with h2 | ⟨e2, s2⟩
    · exact Or.inl (by omega)
    · right
      have hb : isThresh b = false := by rw [← isThresh_of_rank_eq a b e1]; exact ha
      rw [subCmp_leaf _ _ (Or.inl ha), Nat.compare_eq_lt] at s1 ⊢
      rw [subCmp_leaf _ _ (Or.inl hb), Nat.compare_eq_lt] at s2
      exact ⟨by omega, by omega⟩

theorem cmp_trans : ∀ a b c, cmp a b = .lt → cmp b c = .lt → cmp a c = .lt := by
  intro a
  induction a using Policy.induct' with
  | unsat => intro b c; exact cmp_trans_leaf _ b c rfl
  | trivial => intro b c; exact cmp_trans_leaf _ b c rfl
  | atom x => intro b c; exact cmp_trans_leaf _ b c rfl
  | thresh k subs ih =>
    intro b c h1 h2
    rw [cmp_lt_iff] at h1 h2 ⊢
    rcases h1 with h1 | ⟨e1, s1⟩
    · rcases h2 with h2 | ⟨e2, _⟩
      · exact Or.inl (by omega)
      · exact Or.inl (by omega)
    · rcases h2 with h2 | ⟨e2, s2⟩
      · exact Or.inl (by omega)
      · right
        refine ⟨by omega, ?_⟩
        have hb := isThresh_of_rank_eq _ _ e1
        have hc := isThresh_of_rank_eq _ _ e2
        cases b with
        | thresh k2 s2' =>
          cases c with
          | thresh k3 s3 =>
            simp only [subCmp, then_eq_lt, Nat.compare_eq_lt, Nat.compare_eq_eq] at s1 s2 ⊢
            rcases s1 with s1 | ⟨k12, l12⟩
            · rcases s2 with s2 | ⟨k23, _⟩
              · exact Or.inl (by omega)
              · exact Or.inl (by omega)
            · rcases s2 with s2 | ⟨k23, l23⟩
              · exact Or.inl (by omega)
              · exact Or.inr ⟨by omega, cmpList_trans_of subs ih _ _ l12 l23⟩
          | _ => simp [isThresh] at hc
        | _ => simp [isThresh] at hb

/-! ## the order used by `sorted` -/

theorem le_total (a b : Policy) : (le a b || le b a) = true := by
  unfold le
  rw [cmp_swap a b]
  cases cmp a b <;> rfl

theorem le_trans (a b c : Policy) (h1 : le a b = true) (h2 : le b c = true) : le a c = true := by
  unfold le at *
  cases hab : cmp a b with
  | gt => rw [hab] at h1; simp at h1
  | eq => rw [(cmp_eq_iff a b).mp hab]; exact h2
  | lt =>
    cases hbc : cmp b c with
    | gt => rw [hbc] at h2; simp at h2
    | eq => rw [← (cmp_eq_iff b c).mp hbc, hab]; rfl
    | lt => rw [cmp_trans a b c hab hbc]; rfl

theorem le_antisymm (a b : Policy) (h1 : le a b = true) (h2 : le b a = true) : a = b := by
  unfold le at *
  rw [cmp_swap a b] at h2
  cases hab : cmp a b with
  | eq => exact (cmp_eq_iff a b).mp hab
  | lt => rw [hab] at h2; simp [Ordering.swap] at h2
  | gt => rw [hab] at h1; simp at h1

/-- sorting is insensitive to the order of the input -/
theorem mergeSort_perm_eq {l1 l2 : List Policy} (h : l1.Perm l2) :
    l1.mergeSort le = l2.mergeSort le := by
  apply List.Perm.eq_of_pairwise (le := fun a b => le a b = true)
  · intro a b _ _ h1 h2; exact le_antisymm a b h1 h2
  · exact List.pairwise_mergeSort le_trans le_total l1
  · exact List.pairwise_mergeSort le_trans le_total l2
  · exact (List.mergeSort_perm l1 le).trans (h.trans (List.mergeSort_perm l2 le).symm)

/-! ## `sorted` is a normal form of the children's order -/

mutual
theorem sorted_childPerm : ∀ {p q : Policy}, ChildPerm p q → sorted p = sorted q
  | _, _, .refl _ => rfl
  | _, _, .trans h1 h2 => (sorted_childPerm h1).trans (sorted_childPerm h2)
  | _, _, .symm h => (sorted_childPerm h).symm
  | _, _, .perm k h => by
    rw [sorted, sorted, sortedList_eq, sortedList_eq]
    exact congrArg _ (mergeSort_perm_eq (h.map sorted))
  | _, _, .congr k h => by
    rw [sorted, sorted, sortedList_eq, sortedList_eq, sortedList_childPerm h]
theorem sortedList_childPerm : ∀ {l1 l2 : List Policy}, ChildPermList l1 l2 →
    l1.map sorted = l2.map sorted
  | _, _, .nil => rfl
  | _, _, .cons h t => by
    rw [List.map_cons, List.map_cons, sorted_childPerm h, sortedList_childPerm t]
end

theorem childPermList_map_sorted (l : List Policy) (ih : ∀ p ∈ l, ChildPerm p (sorted p)) :
    ChildPermList l (l.map sorted) := by
  induction l with
  | nil => exact .nil
  | cons x xs ihx => exact .cons (ih x (by simp)) (ihx (fun p hp => ih p (by simp [hp])))

/-- `sorted p` is `p` with children permuted -/
theorem childPerm_sorted : ∀ p, ChildPerm p (sorted p) := by
  intro p
  induction p using Policy.induct' with
  | unsat => exact .refl _
  | trivial => exact .refl _
  | atom a => exact .refl _
  | thresh k subs ih =>
    rw [sorted, sortedList_eq]
    exact .trans (.congr k (childPermList_map_sorted subs ih))
      (.perm k (List.mergeSort_perm _ _).symm)

end MsVerif.Pol

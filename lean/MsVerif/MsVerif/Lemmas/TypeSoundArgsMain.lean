/-
C06 helper lemmas, part 5: conditionals consume exactly what their branches consume, and the
main induction: a fragment typed zero- or one-argument consumes exactly 0 / 1 elements and
leaves exactly as many as its base type promises (`args_cons`).  Limits off.  Core Lean only.
-/
import MsVerif.Lemmas.TypeSoundArgs
import MsVerif.Lemmas.TypeSoundTyping

namespace MsVerif.TypeSound
open MsVerif MsVerif.Script

/-- the branch flag IF (`nf = false`) / NOTIF (`nf = true`) computes from the popped element -/
def condFlag (nf : Bool) (a : Bytes) : Bool := if nf then !castToBool a else castToBool a

theorem NoUF_error_cast {α β} {e : Err} (h : NoUF (Except.error e : Except Err α)) :
    NoUF (Except.error e : Except Err β) :=
  ⟨fun h' => h.1 (by cases h'; rfl), fun h' => h.2 (by cases h'; rfl)⟩

theorem res_countOp {env : Env} {c : Core} {n : Nat} {out rest : List Bytes} {o : Nat}
    (hs : c.stack = out ++ rest) (ho : out.length = o) : Res (countOp env c n) rest o := by
  refine ⟨?_, ?_⟩
  · cases h : countOp env c n with
    | ok c => exact NoUF_ok _
    | error e => rw [countOp_err h]; exact NoUF_error (by simp) (by simp)
  · intro c' hc
    exact ⟨out, ho, by rw [(countOp_ok hc).1, hs]⟩

theorem res_skipCount {env : Env} {sc : List Op} {c : Core} {out rest : List Bytes} {o : Nat}
    (hs : c.stack = out ++ rest) (ho : out.length = o) : Res (skipCount env sc c) rest o := by
  unfold skipCount
  split
  · exact ⟨NoUF_error (by simp) (by simp), fun c' hc => by cases hc⟩
  · exact res_countOp hs ho

theorem cnd_res (env : Env) (nf : Bool) (a : Bytes) (r alt : List Bytes) (ops : Nat) :
    NoUF (cnd env nf ⟨a :: r, alt, ops⟩) ∧
      ∀ v c', cnd env nf ⟨a :: r, alt, ops⟩ = .ok (v, c') → v = condFlag nf a ∧ c'.stack = r := by
  refine ⟨?_, ?_⟩
  · unfold cnd
    cases h : countOp env ⟨a :: r, alt, ops⟩ 1 with
    | error e => rw [countOp_err h]; exact NoUF_error (by simp) (by simp)
    | ok c1 =>
      have h1 := (countOp_ok h).1
      obtain ⟨s1, a1, o1⟩ := c1
      simp only at h1
      subst h1
      simp only [condPop]
      split
      · exact NoUF_error (by simp) (by simp)
      · exact NoUF_ok _
  · intro v c' h
    obtain ⟨a', hs, _, hv⟩ := cnd_ok h
    simp only [List.cons.injEq] at hs
    obtain ⟨rfl, rfl⟩ := hs
    exact ⟨hv, rfl⟩

/-- `IF/NOTIF X ENDIF` on a stack `a :: r`, pointwise -/
theorem ifThen_res {env : Env} {nf : Bool} {X : List Op} {f : Core → Except Err Core}
    {a : Bytes} {r alt : List Bytes} {ops : Nat} {rest : List Bytes} {o : Nat}
    (hskip : condFlag nf a = false → ∃ out, out.length = o ∧ r = out ++ rest)
    (htake : condFlag nf a = true → ∀ alt' ops', Res (f ⟨r, alt', ops'⟩) rest o) :
    Res (ifThen env nf X f ⟨a :: r, alt, ops⟩) rest o := by
  rw [ifThen_eq]
  obtain ⟨hn, hv⟩ := cnd_res env nf a r alt ops
  cases hc : cnd env nf ⟨a :: r, alt, ops⟩ with
  | error e => rw [hc] at hn; exact ⟨NoUF_error_cast hn, fun c' h => by cases h⟩
  | ok p =>
    obtain ⟨v, c2⟩ := p
    obtain ⟨hvf, hs2⟩ := hv v c2 hc
    obtain ⟨s2, a2, o2⟩ := c2
    simp only at hs2
    subst hs2
    show Res ((if v = true then f ⟨s2, a2, o2⟩ else skipCount env X ⟨s2, a2, o2⟩) >>= fun c => countOp env c 1) rest o
    cases v with
    | true =>
      refine res_bind (htake hvf.symm a2 o2) ?_
      intro c1 out _ ho hs
      exact res_countOp hs ho
    | false =>
      obtain ⟨out, ho, hr⟩ := hskip hvf.symm
      refine res_bind (res_skipCount (out := out) hr ho) ?_
      intro c1 out' _ ho' hs
      exact res_countOp hs ho'

/-- `IF/NOTIF X ELSE Y ENDIF` on a stack `a :: r`, pointwise -/
theorem ifElse_res {env : Env} {nf : Bool} {X Y : List Op} {f g : Core → Except Err Core}
    {a : Bytes} {r alt : List Bytes} {ops : Nat} {rest : List Bytes} {o : Nat}
    (h1 : condFlag nf a = true → ∀ alt' ops', Res (f ⟨r, alt', ops'⟩) rest o)
    (h2 : condFlag nf a = false → ∀ alt' ops', Res (g ⟨r, alt', ops'⟩) rest o) :
    Res (ifElse env nf X Y f g ⟨a :: r, alt, ops⟩) rest o := by
  rw [ifElse_eq]
  obtain ⟨hn, hv⟩ := cnd_res env nf a r alt ops
  cases hc : cnd env nf ⟨a :: r, alt, ops⟩ with
  | error e => rw [hc] at hn; exact ⟨NoUF_error_cast hn, fun c' h => by cases h⟩
  | ok p =>
    obtain ⟨v, c2⟩ := p
    obtain ⟨hvf, hs2⟩ := hv v c2 hc
    obtain ⟨s2, a2, o2⟩ := c2
    simp only at hs2
    subst hs2
    cases v with
    | true =>
      show Res (f ⟨s2, a2, o2⟩ >>= fun c => countOp env c 1 >>= fun c => skipCount env Y c >>= fun c => countOp env c 1) rest o
      refine res_bind (h1 hvf.symm a2 o2) ?_
      intro c1 out _ ho hs
      refine res_bind (res_countOp hs ho) ?_
      intro c3 out3 _ ho3 hs3
      refine res_bind (res_skipCount hs3 ho3) ?_
      intro c4 out4 _ ho4 hs4
      exact res_countOp hs4 ho4
    | false =>
      show Res (skipCount env X ⟨s2, a2, o2⟩ >>= fun c => countOp env c 1 >>= fun c => g c >>= fun c => countOp env c 1) rest o
      refine res_bind (res_skipCount (out := []) (rest := s2) rfl rfl) ?_
      intro c1 out _ ho hs
      have : out = [] := List.eq_nil_of_length_eq_zero ho
      subst this
      refine res_bind (res_countOp (out := []) (rest := s2) hs rfl) ?_
      intro c3 out3 _ ho3 hs3
      have : out3 = [] := List.eq_nil_of_length_eq_zero ho3
      subst this
      have hc3 : c3 = ⟨s2, c3.alt, c3.ops⟩ := by
        obtain ⟨s3, a3, o3⟩ := c3
        simp only [List.nil_append] at hs3
        subst hs3
        rfl
      rw [hc3]
      refine res_bind (h2 hvf.symm c3.alt c3.ops) ?_
      intro c4 out4 _ ho4 hs4
      exact res_countOp hs4 ho4


/-! ### conditionals as `Cons` facts -/

theorem cons_ifThen {env : Env} {nf : Bool} {X : List Op} {f : Core → Except Err Core} {i : Nat}
    (hf : Cons f i i) : Cons (ifThen env nf X f) (1 + i) i := by
  intro pre rest alt ops hl
  match pre, hl with
  | [], hl => simp only [List.length_nil] at hl; omega
  | a :: pre', hl =>
    have hl' : pre'.length = i := by simp only [List.length_cons] at hl; omega
    show Res (ifThen env nf X f ⟨a :: (pre' ++ rest), alt, ops⟩) rest i
    exact ifThen_res (fun _ => ⟨pre', hl', rfl⟩) (fun _ alt' ops' => hf pre' rest alt' ops' hl')

theorem cons_ifElse {env : Env} {nf : Bool} {X Y : List Op} {f g : Core → Except Err Core} {i o : Nat}
    (hf : Cons f i o) (hg : Cons g i o) : Cons (ifElse env nf X Y f g) (1 + i) o := by
  intro pre rest alt ops hl
  match pre, hl with
  | [], hl => simp only [List.length_nil] at hl; omega
  | a :: pre', hl =>
    have hl' : pre'.length = i := by simp only [List.length_cons] at hl; omega
    show Res (ifElse env nf X Y f g ⟨a :: (pre' ++ rest), alt, ops⟩) rest o
    exact ifElse_res (fun _ alt' ops' => hf pre' rest alt' ops' hl')
      (fun _ alt' ops' => hg pre' rest alt' ops' hl')

theorem noUF_ifdup {env : Env} (hlim : env.flags.stackLimits = false) (v : Bytes) (r alt : List Bytes) (ops : Nat) :
    NoUF (opc env .ifdup ⟨v :: r, alt, ops⟩) := by
  unfold opc
  cases h : countOp env ⟨v :: r, alt, ops⟩ 1 with
  | error e => rw [countOp_err h]; exact NoUF_error (by simp) (by simp)
  | ok c1 =>
    have h1 := (countOp_ok h).1
    obtain ⟨s1, a1, o1⟩ := c1
    simp only at h1
    subst h1
    simp only [execOpc, pushElem_nolim hlim]
    split <;> exact NoUF_ok _

/-- `IFDUP NOTIF Z ENDIF` (the tail of `or_d`): consumes the result of `X`, leaves one element -/
theorem cons_orDTail {env : Env} (hlim : env.flags.stackLimits = false) {X : List Op}
    {f : Core → Except Err Core} (hf : Cons f 0 1) :
    Cons (fun c => opc env .ifdup c >>= ifThen env true X f) 1 1 := by
  intro pre rest alt ops hl
  obtain ⟨v, rfl⟩ := len1 hl
  show Res (opc env .ifdup ⟨v :: rest, alt, ops⟩ >>= ifThen env true X f) rest 1
  have key : ∀ c1 : Core, c1.stack = (if castToBool v then v :: v :: rest else v :: rest) →
      Res (ifThen env true X f c1) rest 1 := by
    intro c1 hs
    obtain ⟨s1, a1, o1⟩ := c1
    simp only at hs
    subst hs
    by_cases hv : castToBool v = true
    · simp only [hv, if_true]
      exact ifThen_res (fun _ => ⟨[v], rfl, rfl⟩) (fun hf' => by simp [condFlag, hv] at hf')
    · simp only [hv]
      exact ifThen_res (fun hf' => by simp [condFlag, hv] at hf') (fun _ alt' ops' => hf [] rest alt' ops' rfl)
  refine ⟨NoUF_bind_intro (noUF_ifdup hlim v rest alt ops) ?_, ?_⟩
  · intro c1 h1
    obtain ⟨a, r, hs, _, hs'⟩ := ifdup_ok h1
    simp only [List.cons.injEq] at hs
    obtain ⟨rfl, rfl⟩ := hs
    exact (key c1 hs').1
  · intro c' h
    obtain ⟨c1, h1, h2⟩ := bind_ok h
    obtain ⟨a, r, hs, _, hs'⟩ := ifdup_ok h1
    simp only [List.cons.injEq] at hs
    obtain ⟨rfl, rfl⟩ := hs
    exact (key c1 hs').2 c' h2

theorem cons_verifyTail {env : Env} (hlim : env.flags.stackLimits = false) (fused : Bool) :
    Cons (verifyTail env fused) 1 0 := by
  cases fused
  · exact cons_opc hlim (o := .verify) rfl
  · intro pre rest alt ops hl
    obtain ⟨a, rfl⟩ := len1 hl
    simp only [verifyTail, List.cons_append, List.nil_append, if_true]
    split
    · exact ⟨NoUF_ok _, fun c' hc => by cases hc; exact ⟨[], rfl, rfl⟩⟩
    · exact ⟨NoUF_error (by simp) (by simp), fun c' hc => by cases hc⟩

/-! ### arguments -/

/-- the static number of arguments, when the type fixes it -/
def nargs : Input → Option Nat
  | .zero => some 0
  | .one | .oneNonZero => some 1
  | _ => none

/-- what a fragment of this base leaves in place of its `i` arguments: B one value, V nothing,
K the key on top of the signature it did not consume -/
def resLen (b : Base) (i : Nat) : Nat :=
  match b with
  | .B => 1 | .V => 0 | .K => 1 + i | .W => 0

theorem andInput_nargs {a b : Input} {i : Nat} (h : nargs (Corr.andInput a b) = some i) :
    ∃ ia ib, nargs a = some ia ∧ nargs b = some ib ∧ ia + ib = i := by
  cases a <;> cases b <;> simp [Corr.andInput, nargs] at h ⊢ <;> omega

theorem orDInput_nargs {a b : Input} {i : Nat} (h : nargs (Corr.orDInput a b) = some i) :
    nargs a = some i ∧ b = .zero := by
  cases a <;> cases b <;> simp [Corr.orDInput, nargs] at h ⊢ <;> omega

theorem orIInput_nargs {a b : Input} {i : Nat} (h : nargs (Corr.orIInput a b) = some i) :
    a = .zero ∧ b = .zero ∧ i = 1 := by
  cases a <;> cases b <;> simp [Corr.orIInput, nargs] at h ⊢ <;> omega

theorem andOrInput_nargs {a b c : Input} {i : Nat} (h : nargs (Corr.andOrInput a b c) = some i) :
    ∃ ia ib, nargs a = some ia ∧ nargs b = some ib ∧ nargs c = some ib ∧ ia + ib = i := by
  cases a <;> cases b <;> cases c <;> simp [Corr.andOrInput, nargs] at h ⊢ <;> omega

theorem andInput_any (a : Input) : nargs (Corr.andInput a .any) = none := by
  cases a <;> rfl
theorem orBInput_any (a : Input) : nargs (Corr.orBInput a .any) = none := by
  cases a <;> rfl

end MsVerif.TypeSound

/- The UNSUGARED spelling (`c:pk_k(K)`, `and_v(X,1)`, `or_i(0,X)`, `or_i(X,0)`, `andor(X,Y,0)`,
`c:expr_raw_pkh(H)`) and its round trip: every spelling the parser accepts
for an AST denotes that AST. -/
import MsVerif.Lemmas.DisplayMain

namespace MsVerif.Display
open MsVerif.Expr

mutual
/-- the tree of the spelling without any syntactic sugar -/
def plainTreeW (c : Codec) (pre : List Char) : Ms → Tree
  | .tru => core pre .tru []
  | .fls => core pre .fls []
  | .pkK k => core pre .pk_k [leaf (c.showKey k)]
  | .pkH k => core pre .pk_h [leaf (c.showKey k)]
  | .rawPkH h => core pre .rawPkh [leaf (c.showRaw h)]
  | .after n => core pre .after [leaf (showNat n)]
  | .older n => core pre .older [leaf (showNat n)]
  | .hash kind h => core pre (hashFrag kind) [leaf (c.showHash kind h)]
  | .alt x => plainTreeW c (pre ++ ['a']) x
  | .swap x => plainTreeW c (pre ++ ['s']) x
  | .check x => plainTreeW c (pre ++ ['c']) x
  | .dupIf x => plainTreeW c (pre ++ ['d']) x
  | .verify x => plainTreeW c (pre ++ ['v']) x
  | .nonZero x => plainTreeW c (pre ++ ['j']) x
  | .zeroNotEqual x => plainTreeW c (pre ++ ['n']) x
  | .andV l r => core pre .and_v [plainTreeW c [] l, plainTreeW c [] r]
  | .andB l r => core pre .and_b [plainTreeW c [] l, plainTreeW c [] r]
  | .andOr a b z => core pre .andor [plainTreeW c [] a, plainTreeW c [] b, plainTreeW c [] z]
  | .orB l r => core pre .or_b [plainTreeW c [] l, plainTreeW c [] r]
  | .orD l r => core pre .or_d [plainTreeW c [] l, plainTreeW c [] r]
  | .orC l r => core pre .or_c [plainTreeW c [] l, plainTreeW c [] r]
  | .orI l r => core pre .or_i [plainTreeW c [] l, plainTreeW c [] r]
  | .thresh k xs => core pre .thresh (leaf (showNat k) :: plainTreeList c xs)
  | .multi k ks => core pre .multi (leaf (showNat k) :: ks.map (fun k => leaf (c.showKey k)))
  | .sortedMulti k ks => core pre .sortedmulti (leaf (showNat k) :: ks.map (fun k => leaf (c.showKey k)))
  | .multiA k ks => core pre .multi_a (leaf (showNat k) :: ks.map (fun k => leaf (c.showKey k)))
  | .sortedMultiA k ks => core pre .sortedmulti_a (leaf (showNat k) :: ks.map (fun k => leaf (c.showKey k)))
def plainTreeList (c : Codec) : MsList → List Tree
  | .nil => []
  | .cons x xs => plainTreeW c [] x :: plainTreeList c xs
end

def plainTree (c : Codec) (m : Ms) : Tree := plainTreeW c [] m

theorem wrap_stepX (c : Codec) (ws : List W) (w : W) (x : Ms)
    (hmk : nodeOk c (w.apply x) = true)
    (ih : fromTreeI c (plainTreeW c ((ws ++ [w]).map W.char) x) = wrapAll c (ws ++ [w]) (.ok x)) :
    fromTreeI c (plainTreeW c (ws.map W.char ++ [w.char]) x) = wrapAll c ws (.ok (w.apply x)) := by
  have e : (ws ++ [w]).map W.char = ws.map W.char ++ [w.char] := by simp
  rw [e, wrapAll_snoc] at ih
  rw [ih]
  simp only [mk_ok c _ hmk]

theorem plainTreeList_length (c : Codec) : ∀ xs : MsList, (plainTreeList c xs).length = xs.length
  | .nil => rfl
  | .cons _ xs => by simp [plainTreeList, MsList.length, plainTreeList_length c xs]

mutual
theorem rtXW (c : Codec) :
    ∀ (m : Ms) (ws : List W), Ms.all (nodeOk c) m = true →
      fromTreeI c (plainTreeW c (ws.map W.char) m) = wrapAll c ws (.ok m)
  | .tru, ws, _ => by
    rw [plainTreeW]; exact fromTreeI_core c ws .tru [] .tru rfl
  | .fls, ws, _ => by
    rw [plainTreeW]; exact fromTreeI_core c ws .fls [] .fls rfl
  | .pkK k, ws, hall => by
    have ha := ((nodeOk_iff c _).1 (by simpa [Ms.all] using hall)).2.2.2.2
    simp only [atomsOk, beq_iff_eq] at ha
    rw [plainTreeW]
    exact fromTreeI_core c ws .pk_k _ _ (termParent_leaf _ _ _ k ha)
  | .pkH k, ws, hall => by
    have ha := ((nodeOk_iff c _).1 (by simpa [Ms.all] using hall)).2.2.2.2
    simp only [atomsOk, beq_iff_eq] at ha
    rw [plainTreeW]
    exact fromTreeI_core c ws .pk_h _ _ (termParent_leaf _ _ _ k ha)
  | .rawPkH h, ws, hall => by
    have ha := ((nodeOk_iff c _).1 (by simpa [Ms.all] using hall)).2.2.2.2
    simp only [atomsOk, beq_iff_eq] at ha
    rw [plainTreeW]
    exact fromTreeI_core c ws .rawPkh _ _ (termParent_leaf _ _ _ h ha)
  | .after n, ws, hall => by
    rw [plainTreeW]
    have hn : 1 ≤ n ∧ n ≤ 2147483647 := by
      have := ((nodeOk_iff c _).1 (by simpa [Ms.all] using hall)).2.2.2.1
      simpa [localOk] using this
    exact fromTreeI_core c ws .after _ _ (lockParent_leaf n _ hn)
  | .older n, ws, hall => by
    rw [plainTreeW]
    have hn : 1 ≤ n ∧ n ≤ 2147483647 := by
      have := ((nodeOk_iff c _).1 (by simpa [Ms.all] using hall)).2.2.2.1
      simpa [localOk] using this
    exact fromTreeI_core c ws .older _ _ (lockParent_leaf n _ hn)
  | .hash kind h, ws, hall => by
    have ha := ((nodeOk_iff c _).1 (by simpa [Ms.all] using hall)).2.2.2.2
    simp only [atomsOk, beq_iff_eq] at ha
    rw [plainTreeW]
    cases kind <;>
      exact fromTreeI_core c ws _ _ _ (termParent_leaf _ _ _ h ha)
  | .alt x, ws, hall => by
    simp only [Ms.all, Bool.and_eq_true] at hall
    rw [plainTreeW]; exact wrap_stepX c ws .a x hall.1 (rtXW c x (ws ++ [.a]) hall.2)
  | .swap x, ws, hall => by
    simp only [Ms.all, Bool.and_eq_true] at hall
    rw [plainTreeW]; exact wrap_stepX c ws .s x hall.1 (rtXW c x (ws ++ [.s]) hall.2)
  | .check x, ws, hall => by
    simp only [Ms.all, Bool.and_eq_true] at hall
    rw [plainTreeW]; exact wrap_stepX c ws .c x hall.1 (rtXW c x (ws ++ [.c]) hall.2)
  | .dupIf x, ws, hall => by
    simp only [Ms.all, Bool.and_eq_true] at hall
    rw [plainTreeW]; exact wrap_stepX c ws .d x hall.1 (rtXW c x (ws ++ [.d]) hall.2)
  | .verify x, ws, hall => by
    simp only [Ms.all, Bool.and_eq_true] at hall
    rw [plainTreeW]; exact wrap_stepX c ws .v x hall.1 (rtXW c x (ws ++ [.v]) hall.2)
  | .nonZero x, ws, hall => by
    simp only [Ms.all, Bool.and_eq_true] at hall
    rw [plainTreeW]; exact wrap_stepX c ws .j x hall.1 (rtXW c x (ws ++ [.j]) hall.2)
  | .zeroNotEqual x, ws, hall => by
    simp only [Ms.all, Bool.and_eq_true] at hall
    rw [plainTreeW]; exact wrap_stepX c ws .n x hall.1 (rtXW c x (ws ++ [.n]) hall.2)
  | .andV l r, ws, hall => by
    simp only [Ms.all, Bool.and_eq_true] at hall
    have ihl := rtXW c l [] hall.1.2
    have ihr := rtXW c r [] hall.2
    rw [plainTreeW]
    refine fromTreeI_core c ws .and_v _ _ ?_
    simp only [parseCore, fromTreeL_two]
    rw [show ([] : List Char) = ([] : List W).map W.char from rfl, ihl, ihr]
    exact binary_ok c l r .andV (mk_ok c _ hall.1.1)
  | .andB l r, ws, hall => by
    simp only [Ms.all, Bool.and_eq_true] at hall
    have ihl := rtXW c l [] hall.1.2
    have ihr := rtXW c r [] hall.2
    rw [plainTreeW]
    refine fromTreeI_core c ws .and_b _ _ ?_
    simp only [parseCore, fromTreeL_two]
    rw [show ([] : List Char) = ([] : List W).map W.char from rfl, ihl, ihr]
    exact binary_ok c l r .andB (mk_ok c _ hall.1.1)
  | .orB l r, ws, hall => by
    simp only [Ms.all, Bool.and_eq_true] at hall
    have ihl := rtXW c l [] hall.1.2
    have ihr := rtXW c r [] hall.2
    rw [plainTreeW]
    refine fromTreeI_core c ws .or_b _ _ ?_
    simp only [parseCore, fromTreeL_two]
    rw [show ([] : List Char) = ([] : List W).map W.char from rfl, ihl, ihr]
    exact binary_ok c l r .orB (mk_ok c _ hall.1.1)
  | .orD l r, ws, hall => by
    simp only [Ms.all, Bool.and_eq_true] at hall
    have ihl := rtXW c l [] hall.1.2
    have ihr := rtXW c r [] hall.2
    rw [plainTreeW]
    refine fromTreeI_core c ws .or_d _ _ ?_
    simp only [parseCore, fromTreeL_two]
    rw [show ([] : List Char) = ([] : List W).map W.char from rfl, ihl, ihr]
    exact binary_ok c l r .orD (mk_ok c _ hall.1.1)
  | .orC l r, ws, hall => by
    simp only [Ms.all, Bool.and_eq_true] at hall
    have ihl := rtXW c l [] hall.1.2
    have ihr := rtXW c r [] hall.2
    rw [plainTreeW]
    refine fromTreeI_core c ws .or_c _ _ ?_
    simp only [parseCore, fromTreeL_two]
    rw [show ([] : List Char) = ([] : List W).map W.char from rfl, ihl, ihr]
    exact binary_ok c l r .orC (mk_ok c _ hall.1.1)
  | .orI l r, ws, hall => by
    simp only [Ms.all, Bool.and_eq_true] at hall
    have ihl := rtXW c l [] hall.1.2
    have ihr := rtXW c r [] hall.2
    rw [plainTreeW]
    refine fromTreeI_core c ws .or_i _ _ ?_
    simp only [parseCore, fromTreeL_two]
    rw [show ([] : List Char) = ([] : List W).map W.char from rfl, ihl, ihr]
    exact binary_ok c l r .orI (mk_ok c _ hall.1.1)
  | .andOr a b z, ws, hall => by
    simp only [Ms.all, Bool.and_eq_true] at hall
    have iha := rtXW c a [] hall.1.1.2
    have ihb := rtXW c b [] hall.1.2
    have ihz := rtXW c z [] hall.2
    rw [plainTreeW]
    refine fromTreeI_core c ws .andor _ _ ?_
    simp only [parseCore, fromTreeL_three]
    rw [show ([] : List Char) = ([] : List W).map W.char from rfl, iha, ihb, ihz]
    simp [wrapAll, mk_ok c _ hall.1.1.1]
  | .thresh k xs, ws, hall => by
    simp only [Ms.all, Bool.and_eq_true] at hall
    have ihxs := rtXL c xs hall.2
    have hloc := ((nodeOk_iff c _).1 hall.1).2.2.2.1
    simp only [localOk, decide_eq_true_eq] at hloc
    rw [plainTreeW]
    refine fromTreeI_core c ws .thresh _ _ ?_
    simp only [parseCore]
    rw [threshK_ok 0 k _ hloc.1 (by rw [plainTreeList_length]; exact hloc.2.1) hloc.2.2 (Or.inl rfl)]
    simp only [fromTreeL, List.tail_cons, ihxs, collect_map_ok, ofList_toList]
    exact mk_ok c _ hall.1
  | .multi k ks, ws, hall => by
    have hn : nodeOk c (.multi k ks) = true := by simpa [Ms.all] using hall
    have hloc := ((nodeOk_iff c _).1 hn).2.2.2.1
    have hat := ((nodeOk_iff c _).1 hn).2.2.2.2
    simp only [atomsOk] at hat
    simp only [localOk, decide_eq_true_eq] at hloc
    rw [plainTreeW]
    refine fromTreeI_core c ws .multi _ _ ?_
    simp only [parseCore]
    exact keysThresh_ok c 20 k ks .multi hloc.1 hloc.2.1 hloc.2.2 (by omega) hat (mk_ok c _ hn)
  | .sortedMulti k ks, ws, hall => by
    have hn : nodeOk c (.sortedMulti k ks) = true := by simpa [Ms.all] using hall
    have hloc := ((nodeOk_iff c _).1 hn).2.2.2.1
    have hat := ((nodeOk_iff c _).1 hn).2.2.2.2
    simp only [atomsOk] at hat
    simp only [localOk, decide_eq_true_eq] at hloc
    rw [plainTreeW]
    refine fromTreeI_core c ws .sortedmulti _ _ ?_
    simp only [parseCore]
    exact keysThresh_ok c 20 k ks .sortedMulti hloc.1 hloc.2.1 hloc.2.2 (by omega) hat (mk_ok c _ hn)
  | .multiA k ks, ws, hall => by
    have hn : nodeOk c (.multiA k ks) = true := by simpa [Ms.all] using hall
    have hloc := ((nodeOk_iff c _).1 hn).2.2.2.1
    have hat := ((nodeOk_iff c _).1 hn).2.2.2.2
    simp only [atomsOk] at hat
    simp only [localOk, decide_eq_true_eq] at hloc
    rw [plainTreeW]
    refine fromTreeI_core c ws .multi_a _ _ ?_
    simp only [parseCore]
    exact keysThresh_ok c 999 k ks .multiA hloc.1 hloc.2.1 hloc.2.2 (by omega) hat (mk_ok c _ hn)
  | .sortedMultiA k ks, ws, hall => by
    have hn : nodeOk c (.sortedMultiA k ks) = true := by simpa [Ms.all] using hall
    have hloc := ((nodeOk_iff c _).1 hn).2.2.2.1
    have hat := ((nodeOk_iff c _).1 hn).2.2.2.2
    simp only [atomsOk] at hat
    simp only [localOk, decide_eq_true_eq] at hloc
    rw [plainTreeW]
    refine fromTreeI_core c ws .sortedmulti_a _ _ ?_
    simp only [parseCore]
    exact keysThresh_ok c 999 k ks .sortedMultiA hloc.1 hloc.2.1 hloc.2.2 (by omega) hat (mk_ok c _ hn)
theorem rtXL (c : Codec) :
    ∀ (xs : MsList), MsList.all (nodeOk c) xs = true →
      fromTreeL c (plainTreeList c xs) = xs.toList.map Except.ok
  | .nil, _ => by simp [plainTreeList, fromTreeL, MsList.toList]
  | .cons x xs, hall => by
    simp only [MsList.all, Bool.and_eq_true] at hall
    have ihx := rtXW c x [] hall.1
    have ihxs := rtXL c xs hall.2
    simp only [plainTreeList, fromTreeL, MsList.toList, List.map_cons]
    rw [show ([] : List Char) = ([] : List W).map W.char from rfl, ihx, ihxs]
    rfl
end

/-! ### no curly braces, monotonicity of `Ms.all` -/

theorem hasCurly_core (pre : List Char) (f : Frag) (cs : List Tree) (h : hasCurlyL cs = false) :
    hasCurly (core pre f cs) = false := by
  unfold core
  cases cs <;> simp_all [hasCurly]

theorem hasCurlyL_leaves (k : List Char) (l : List (List Char)) :
    hasCurlyL (leaf k :: l.map leaf) = false := by
  induction l generalizing k with
  | nil => simp [hasCurlyL, hasCurly, leaf]
  | cons x xs ih => simp [hasCurlyL, hasCurly, leaf] at ih ⊢; exact ih

theorem hasCurlyL_keys (c : Codec) (k : List Char) (ks : List Nat) :
    hasCurlyL (leaf k :: ks.map (fun k => leaf (c.showKey k))) = false := by
  have := hasCurlyL_leaves k (ks.map c.showKey)
  simpa [List.map_map, Function.comp_def] using this

mutual
theorem toTreeW_noCurly (c : Codec) : ∀ (m : Ms) (pre : List Char), hasCurly (toTreeW c pre m) = false
  | .tru, pre | .fls, pre => by rw [toTreeW]; exact hasCurly_core _ _ _ rfl
  | .pkK _, pre | .pkH _, pre | .rawPkH _, pre | .after _, pre | .older _, pre | .hash _ _, pre => by
    rw [toTreeW]; exact hasCurly_core _ _ _ (by simp [hasCurlyL, hasCurly, leaf])
  | .alt x, pre | .swap x, pre | .dupIf x, pre | .verify x, pre | .nonZero x, pre
  | .zeroNotEqual x, pre => by rw [toTreeW]; exact toTreeW_noCurly c x _
  | .check x, pre => by
    rw [toTreeW]
    cases hs : sugarCheck c x with
    | none => exact toTreeW_noCurly c x _
    | some p => exact hasCurly_core _ _ _ (by simp [hasCurlyL, hasCurly, leaf])
  | .andV l r, pre => by
    rw [toTreeW]
    split
    · exact toTreeW_noCurly c l _
    · exact hasCurly_core _ _ _ (by simp [hasCurlyL, toTreeW_noCurly c l, toTreeW_noCurly c r])
  | .andB l r, pre | .orB l r, pre | .orD l r, pre | .orC l r, pre => by
    rw [toTreeW]
    exact hasCurly_core _ _ _ (by simp [hasCurlyL, toTreeW_noCurly c l, toTreeW_noCurly c r])
  | .orI l r, pre => by
    rw [toTreeW]
    split
    · split
      · exact toTreeW_noCurly c r _
      · exact toTreeW_noCurly c l _
    · split
      · exact toTreeW_noCurly c r _
      · exact hasCurly_core _ _ _ (by simp [hasCurlyL, toTreeW_noCurly c l, toTreeW_noCurly c r])
  | .andOr a b z, pre => by
    rw [toTreeW]
    split
    · exact hasCurly_core _ _ _ (by simp [hasCurlyL, toTreeW_noCurly c a, toTreeW_noCurly c b])
    · exact hasCurly_core _ _ _ (by
        simp [hasCurlyL, toTreeW_noCurly c a, toTreeW_noCurly c b, toTreeW_noCurly c z])
  | .thresh k xs, pre => by
    rw [toTreeW]
    exact hasCurly_core _ _ _ (by simp [hasCurlyL, hasCurly, leaf, toTreeList_noCurly c xs])
  | .multi _ ks, pre | .sortedMulti _ ks, pre | .multiA _ ks, pre | .sortedMultiA _ ks, pre => by
    rw [toTreeW]; exact hasCurly_core _ _ _ (hasCurlyL_keys c _ ks)
theorem toTreeList_noCurly (c : Codec) : ∀ (xs : MsList), hasCurlyL (toTreeList c xs) = false
  | .nil => rfl
  | .cons x xs => by simp [toTreeList, hasCurlyL, toTreeW_noCurly c x, toTreeList_noCurly c xs]
end

mutual
theorem plainTreeW_noCurly (c : Codec) : ∀ (m : Ms) (pre : List Char), hasCurly (plainTreeW c pre m) = false
  | .tru, pre | .fls, pre => by rw [plainTreeW]; exact hasCurly_core _ _ _ rfl
  | .pkK _, pre | .pkH _, pre | .rawPkH _, pre | .after _, pre | .older _, pre | .hash _ _, pre => by
    rw [plainTreeW]; exact hasCurly_core _ _ _ (by simp [hasCurlyL, hasCurly, leaf])
  | .alt x, pre | .swap x, pre | .check x, pre | .dupIf x, pre | .verify x, pre | .nonZero x, pre
  | .zeroNotEqual x, pre => by rw [plainTreeW]; exact plainTreeW_noCurly c x _
  | .andV l r, pre | .andB l r, pre | .orB l r, pre | .orD l r, pre | .orC l r, pre | .orI l r, pre => by
    rw [plainTreeW]
    exact hasCurly_core _ _ _ (by simp [hasCurlyL, plainTreeW_noCurly c l, plainTreeW_noCurly c r])
  | .andOr a b z, pre => by
    rw [plainTreeW]
    exact hasCurly_core _ _ _ (by
      simp [hasCurlyL, plainTreeW_noCurly c a, plainTreeW_noCurly c b, plainTreeW_noCurly c z])
  | .thresh k xs, pre => by
    rw [plainTreeW]
    exact hasCurly_core _ _ _ (by simp [hasCurlyL, hasCurly, leaf, plainTreeList_noCurly c xs])
  | .multi _ ks, pre | .sortedMulti _ ks, pre | .multiA _ ks, pre | .sortedMultiA _ ks, pre => by
    rw [plainTreeW]; exact hasCurly_core _ _ _ (hasCurlyL_keys c _ ks)
theorem plainTreeList_noCurly (c : Codec) : ∀ (xs : MsList), hasCurlyL (plainTreeList c xs) = false
  | .nil => rfl
  | .cons x xs => by simp [plainTreeList, hasCurlyL, plainTreeW_noCurly c x, plainTreeList_noCurly c xs]
end

mutual
theorem all_mono (p q : Ms → Bool) (hpq : ∀ m, p m = true → q m = true) :
    ∀ m : Ms, Ms.all p m = true → Ms.all q m = true
  | .alt x | .swap x | .check x | .dupIf x | .verify x | .nonZero x | .zeroNotEqual x => by
    simp only [Ms.all, Bool.and_eq_true]; intro h; exact ⟨hpq _ h.1, all_mono p q hpq x h.2⟩
  | .andV l r | .andB l r | .orB l r | .orD l r | .orC l r | .orI l r => by
    simp only [Ms.all, Bool.and_eq_true]; intro h
    exact ⟨⟨hpq _ h.1.1, all_mono p q hpq l h.1.2⟩, all_mono p q hpq r h.2⟩
  | .andOr a b z => by
    simp only [Ms.all, Bool.and_eq_true]; intro h
    exact ⟨⟨⟨hpq _ h.1.1.1, all_mono p q hpq a h.1.1.2⟩, all_mono p q hpq b h.1.2⟩, all_mono p q hpq z h.2⟩
  | .thresh k xs => by
    simp only [Ms.all, Bool.and_eq_true]; intro h; exact ⟨hpq _ h.1, allList_mono p q hpq xs h.2⟩
  | .tru | .fls | .pkK _ | .pkH _ | .rawPkH _ | .after _ | .older _ | .hash _ _
  | .multi _ _ | .sortedMulti _ _ | .multiA _ _ | .sortedMultiA _ _ => by
    simp only [Ms.all]; exact hpq _
theorem allList_mono (p q : Ms → Bool) (hpq : ∀ m, p m = true → q m = true) :
    ∀ xs : MsList, MsList.all p xs = true → MsList.all q xs = true
  | .nil => fun _ => rfl
  | .cons x xs => by
    simp only [MsList.all, Bool.and_eq_true]; intro h
    exact ⟨all_mono p q hpq x h.1, allList_mono p q hpq xs h.2⟩
end

end MsVerif.Display

/-
C02 helper lemmas, part 4: signatures and the `multi` / `multi_a` leaves.
-/
import MsVerif.Lemmas.CompleteBasic

namespace MsVerif.Complete
open MsVerif Sat

/-- a signature for key `k` is available in context `ctx` (`Witness::signature` is a stack) -/
def sigAvail (ctx : Ctx) (a : Assets) (k : Key) : Bool :=
  match ctx.sigType with
  | .schnorr => (a.schnorrSig k).isSome
  | .ecdsa => a.ecdsaSig k

/-- announced Schnorr signature sizes are real ones (64, or 65 with a sighash byte) -/
def SigSizesOK (a : Assets) : Prop :=
  (∀ k sz, a.schnorrSig k = some sz → sz ≤ 65) ∧
  (∀ h p, a.rawPkhSchnorr h = some p → p.2 ≤ 65)

/-- assets without Schnorr signatures trivially announce sane sizes -/
theorem sizesOK_of_noSchnorr (a : Assets) (h1 : ∀ k, a.schnorrSig k = none)
    (h2 : ∀ h, a.rawPkhSchnorr h = none) : SigSizesOK a :=
  ⟨fun k sz h => (by rw [h1] at h; cases h), fun h p hp => (by rw [h2] at hp; cases hp)⟩

theorem sigWit_cases (ctx : Ctx) (a : Assets) (k : Key) :
    (sigAvail ctx a k = false ∧ sigWit ctx a k = .impossible) ∨
    (sigAvail ctx a k = true ∧ ∃ p, sigWit ctx a k = .stack [p] ∧
      (SigSizesOK a → p.size ≤ 73)) := by
  unfold sigAvail sigWit
  cases ctx.sigType with
  | schnorr =>
    cases h : a.schnorrSig k with
    | none => left; simp
    | some sz =>
      right; refine ⟨by simp, _, rfl, ?_⟩
      intro hs; have := hs.1 k sz h; simp [Ph.size]; omega
  | ecdsa =>
    cases h : a.ecdsaSig k with
    | false => left; simp
    | true => right; exact ⟨rfl, .ecdsaSig k, by simp, fun _ => by simp [Ph.size]⟩

theorem sigWit_isStk (ctx : Ctx) (a : Assets) (k : Key) :
    isStk (sigWit ctx a k) = sigAvail ctx a k := by
  rcases sigWit_cases ctx a k with ⟨h1, h2⟩ | ⟨h1, p, h2, _⟩ <;> rw [h1, h2] <;> rfl

theorem sigWit_ne_unav (ctx : Ctx) (a : Assets) (k : Key) : sigWit ctx a k ≠ .unavailable := by
  rcases sigWit_cases ctx a k with ⟨_, h2⟩ | ⟨_, p, h2, _⟩ <;> rw [h2] <;> simp

theorem sigWit_wsz (ctx : Ctx) (a : Assets) (k : Key) (hs : SigSizesOK a) :
    wsz (sigWit ctx a k) ≤ 73 := by
  rcases sigWit_cases ctx a k with ⟨_, h2⟩ | ⟨_, p, h2, h3⟩ <;> rw [h2]
  · simp [wsz]
  · have := h3 hs; simp [wsz]; omega

theorem pkLen_le (env : KeyEnv) (ctx : Ctx) (k : Key) : pkLen env ctx k ≤ 66 := by
  unfold pkLen; cases ctx <;> simp <;> split <;> omega

/-! ### folding stacks together -/

theorem foldl_combine_stack (l : List (List Ph)) (w : List Ph) :
    l.foldl (fun acc s => Wit.combine acc (.stack s)) (.stack w) = .stack (w ++ l.flatten) := by
  induction l generalizing w with
  | nil => simp
  | cons s t ih =>
    rw [List.foldl_cons]
    show List.foldl _ (Wit.stack (w ++ s)) t = _
    rw [ih]; simp

theorem sumSize_flatten_le (l : List (List Ph)) (B : Nat) (h : ∀ s ∈ l, sumSize s ≤ B) :
    sumSize l.flatten ≤ B * l.length := by
  induction l with
  | nil => simp
  | cons s t ih =>
    have h1 := h s (by simp)
    have h2 := ih (fun x hx => h x (by simp [hx]))
    simp only [List.flatten_cons, sumSize_append, List.length_cons]
    rw [Nat.mul_succ]; omega

theorem sumSize_flatten_set_nil (l : List (List Ph)) (i : Nat) :
    sumSize (l.set i []).flatten ≤ sumSize l.flatten := by
  induction l generalizing i with
  | nil => simp
  | cons s t ih =>
    cases i with
    | zero => simp
    | succ i => have := ih i; simp only [List.set_cons_succ, List.flatten_cons, sumSize_append]; omega

theorem dropMostExpensive_sumSize (n : Nat) (l : List (List Ph)) :
    sumSize (dropMostExpensive n l).flatten ≤ sumSize l.flatten := by
  induction n generalizing l with
  | zero => simp [dropMostExpensive]
  | succ n ih =>
    simp only [dropMostExpensive]
    exact Nat.le_trans (ih _) (sumSize_flatten_set_nil _ _)

/-! ### `multi` -/

def availSigs (ctx : Ctx) (a : Assets) (ks : List Key) : List (List Ph) :=
  ks.filterMap fun pk => match sigWit ctx a pk with | .stack s => some s | _ => none

theorem availSigs_length (ctx : Ctx) (a : Assets) (ks : List Key) :
    (availSigs ctx a ks).length = (ks.filter (sigAvail ctx a)).length := by
  induction ks with
  | nil => rfl
  | cons k t ih =>
    unfold availSigs at *
    rcases sigWit_cases ctx a k with ⟨h1, h2⟩ | ⟨h1, p, h2, _⟩
    · simp [h2, h1, ih]
    · simp [h2, h1, ih]

theorem availSigs_small (ctx : Ctx) (a : Assets) (ks : List Key) (hs : SigSizesOK a) :
    ∀ s ∈ availSigs ctx a ks, sumSize s ≤ 73 := by
  intro s hmem
  unfold availSigs at hmem
  rw [List.mem_filterMap] at hmem
  obtain ⟨k, _, hk⟩ := hmem
  rcases sigWit_cases ctx a k with ⟨_, h2⟩ | ⟨_, p, h2, h3⟩
  · simp [h2] at hk
  · rw [h2] at hk
    simp only [Option.some.injEq] at hk
    subst hk
    have := h3 hs
    simp; omega

theorem multiSD_eq (ctx : Ctx) (a : Assets) (k : Nat) (ks : List Key) :
    multiSD ctx a k ks =
      let dissat : Sat := ⟨.stack (List.replicate (k + 1) .pushZero), false, none, none⟩
      if (availSigs ctx a ks).length < k then ⟨dissat, Sat.IMPOSSIBLE⟩
      else ⟨dissat, ⟨.stack ([.pushZero] ++
        (dropMostExpensive ((availSigs ctx a ks).length - k) (availSigs ctx a ks)).flatten),
        true, none, none⟩⟩ := by
  unfold multiSD availSigs
  simp only [foldl_combine_stack]
  rfl

theorem sumSize_replicate_zero (n : Nat) : sumSize (List.replicate n Ph.pushZero) = n := by
  induction n with
  | zero => rfl
  | succ n ih => simp [List.replicate_succ, ih, Ph.size]; omega

/-- everything the inductions need about a `multi` leaf -/
structure LeafFacts (a : Assets) (B : Nat) (can : Bool) (r : SatDissat) : Prop where
  dStk : isStk r.dissat.stack = true
  dNoSig : r.dissat.hasSig = false
  dAbs : r.dissat.abs = none
  dRel : r.dissat.rel = none
  sAbs : r.sat.abs = none
  sRel : r.sat.rel = none
  sStk : isStk r.sat.stack = can
  sNU : r.sat.stack ≠ .unavailable
  sSig : r.sat.stack ≠ .impossible → r.sat.hasSig = true
  dSz : SigSizesOK a → wsz r.dissat.stack ≤ 73 * B
  sSz : SigSizesOK a → wsz r.sat.stack ≤ 73 * B

theorem multiSD_facts (ctx : Ctx) (a : Assets) (k : Nat) (ks : List Key) :
    LeafFacts a (ks.length + k + 1) (decide ((ks.filter (sigAvail ctx a)).length ≥ k))
      (multiSD ctx a k ks) := by
  rw [multiSD_eq]
  simp only
  have hlen := availSigs_length ctx a ks
  have hle : (availSigs ctx a ks).length ≤ ks.length := by
    rw [hlen]; exact List.length_filter_le _ _
  split
  next h =>
    refine ⟨rfl, rfl, rfl, rfl, rfl, rfl, ?_, by simp [IMPOSSIBLE], by simp [IMPOSSIBLE], ?_, ?_⟩
    · simp [IMPOSSIBLE, isStk]; omega
    · intro _; simp only [wsz, sumSize_replicate_zero]; omega
    · intro _; simp [IMPOSSIBLE, wsz]
  next h =>
    refine ⟨rfl, rfl, rfl, rfl, rfl, rfl, ?_, by simp, fun _ => rfl, ?_, ?_⟩
    · simp [isStk]; omega
    · intro _; simp only [wsz, sumSize_replicate_zero]; omega
    · intro hs
      have h1 := dropMostExpensive_sumSize ((availSigs ctx a ks).length - k) (availSigs ctx a ks)
      have h2 := sumSize_flatten_le _ 73 (availSigs_small ctx a ks hs)
      simp only [wsz, sumSize_append, sumSize_cons, sumSize_nil, Ph.size]
      have : 73 * (availSigs ctx a ks).length ≤ 73 * ks.length := Nat.mul_le_mul_left _ hle
      omega

/-! ### `multi_a` -/

theorem multiALoop_count (ctx : Ctx) (a : Assets) (k : Nat) (rest : List Key) (i cnt : Nat)
    (sigs : List (List Ph)) :
    (cnt + (rest.filter (sigAvail ctx a)).length ≥ k ↔ (multiALoop ctx a k rest i cnt sigs).1 ≥ k) := by
  induction rest generalizing i cnt sigs with
  | nil => simp [multiALoop]
  | cons pk t ih =>
    unfold multiALoop
    rcases sigWit_cases ctx a pk with ⟨h1, h2⟩ | ⟨h1, p, h2, _⟩
    · rw [h2]; simp only [List.filter_cons, h1]; exact ih _ _ _
    · rw [h2]; simp only [List.filter_cons, h1, if_true, List.length_cons]
      split
      · simp only; omega
      · rw [← ih]; omega

theorem multiALoop_small (ctx : Ctx) (a : Assets) (k : Nat) (rest : List Key) (i cnt : Nat)
    (sigs : List (List Ph)) (hs : SigSizesOK a) (h : ∀ s ∈ sigs, sumSize s ≤ 73) :
    (∀ s ∈ (multiALoop ctx a k rest i cnt sigs).2, sumSize s ≤ 73) ∧
    (multiALoop ctx a k rest i cnt sigs).2.length = sigs.length := by
  induction rest generalizing i cnt sigs with
  | nil => simp [multiALoop]; exact h
  | cons pk t ih =>
    unfold multiALoop
    rcases sigWit_cases ctx a pk with ⟨h1, h2⟩ | ⟨h1, p, h2, h3⟩
    · rw [h2]; exact ih _ _ _ h
    · rw [h2]
      have hset : ∀ s ∈ sigs.set i [p], sumSize s ≤ 73 := by
        intro s hmem
        rcases List.mem_or_eq_of_mem_set hmem with hm | rfl
        · exact h s hm
        · have := h3 hs; simp; omega
      simp only
      split
      · exact ⟨hset, by simp⟩
      · have := ih (i + 1) (cnt + 1) _ hset
        simpa using this

theorem multiASD_eq (ctx : Ctx) (a : Assets) (k : Nat) (ks : List Key) :
    multiASD ctx a k ks =
      let dissat : Sat := ⟨.stack (List.replicate ks.length .pushZero), false, none, none⟩
      let r := multiALoop ctx a k ks.reverse 0 0 (List.replicate ks.length [.pushZero])
      if r.1 < k then ⟨dissat, Sat.IMPOSSIBLE⟩
      else ⟨dissat, ⟨.stack r.2.flatten, true, none, none⟩⟩ := by
  unfold multiASD
  simp only [foldl_combine_stack, List.nil_append]

theorem multiASD_facts (ctx : Ctx) (a : Assets) (k : Nat) (ks : List Key) :
    LeafFacts a ks.length (decide ((ks.filter (sigAvail ctx a)).length ≥ k))
      (multiASD ctx a k ks) := by
  rw [multiASD_eq]
  simp only
  have hcnt := multiALoop_count ctx a k ks.reverse 0 0 (List.replicate ks.length [.pushZero])
  rw [List.filter_reverse, List.length_reverse, Nat.zero_add] at hcnt
  split
  next h =>
    refine ⟨rfl, rfl, rfl, rfl, rfl, rfl, ?_, by simp [IMPOSSIBLE], by simp [IMPOSSIBLE], ?_, ?_⟩
    · simp only [IMPOSSIBLE, isStk]
      symm; rw [decide_eq_false_iff_not, hcnt]; omega
    · intro _; simp only [wsz, sumSize_replicate_zero]; omega
    · intro _; simp [IMPOSSIBLE, wsz]
  next h =>
    refine ⟨rfl, rfl, rfl, rfl, rfl, rfl, ?_, by simp, fun _ => rfl, ?_, ?_⟩
    · simp only [isStk]
      symm; rw [decide_eq_true_eq, hcnt]; omega
    · intro _; simp only [wsz, sumSize_replicate_zero]; omega
    · intro hs
      have hsm := multiALoop_small ctx a k ks.reverse 0 0 (List.replicate ks.length [.pushZero]) hs
        (by intro s hmem; rw [List.mem_replicate] at hmem; rw [hmem.2]; simp [Ph.size])
      have := sumSize_flatten_le _ 73 hsm.1
      rw [hsm.2, List.length_replicate] at this
      simpa [wsz] using this

/-! ### BIP67 sorting permutes the keys -/

theorem insertKey'_perm (env : KeyEnv) (k : Key) (l : List Key) :
    (insertKey' env k l).Perm (k :: l) := by
  induction l with
  | nil => exact List.Perm.refl _
  | cons x xs ih =>
    unfold insertKey'
    split
    · exact (List.Perm.cons x ih).trans (List.Perm.swap k x xs)
    · exact List.Perm.refl _

theorem foldl_insertKey'_perm (env : KeyEnv) (l acc : List Key) :
    (l.foldl (fun acc k => insertKey' env k acc) acc).Perm (l ++ acc) := by
  induction l generalizing acc with
  | nil => exact List.Perm.refl _
  | cons x t ih =>
    simp only [List.foldl_cons, List.cons_append]
    refine (ih _).trans ?_
    exact (List.Perm.append_left t (insertKey'_perm env x acc)).trans List.perm_middle

theorem sortKeys'_perm (env : KeyEnv) (ks : List Key) : (sortKeys' env ks).Perm ks := by
  unfold sortKeys'
  simpa using foldl_insertKey'_perm env ks []

theorem sortKeys'_length (env : KeyEnv) (ks : List Key) : (sortKeys' env ks).length = ks.length :=
  (sortKeys'_perm env ks).length_eq

theorem sortKeys'_filter (env : KeyEnv) (ks : List Key) (p : Key → Bool) :
    ((sortKeys' env ks).filter p).length = (ks.filter p).length :=
  ((sortKeys'_perm env ks).filter p).length_eq

end MsVerif.Complete

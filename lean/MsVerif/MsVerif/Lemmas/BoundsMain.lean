/-
C09 helper lemmas, part 5: the induction over the AST.  `good` collects the hypotheses under
which the library's figures are proved to be upper bounds; every conjunct that can fail is a
documented defect or a documented modelling assumption (see `Thm/C09.lean`).
-/
import MsVerif.Lemmas.BoundsLeaf

namespace MsVerif.C09
open MsVerif ExtData

/-- the scriptSig figure is only claimed outside tapscript -/
def ess (ctx : Ctx) : Bool := decide (ctx ≠ .tap)

/-! ### fragments whose dissatisfaction is never a stack -/

mutual
def noDis : Ms → Bool
  | .tru | .after _ | .older _ | .verify _ | .orC _ _ => true
  | .alt x | .swap x | .check x | .zeroNotEqual x => noDis x
  | .andB l r | .orB l r | .orD l r => noDis l || noDis r
  | .andV _ r => noDis r
  | .andOr a _ z => noDis a || noDis z
  | .orI l r => noDis l && noDis r
  | .thresh _ xs => anyNoDis xs
  | _ => false
def anyNoDis : MsList → Bool
  | .nil => false
  | .cons x xs => noDis x || anyNoDis xs
end

theorem concat_not_stack_left {a b : Sat} (h : ∀ w, a.stack ≠ .stack w) :
    ∀ w, (a.concatenateRev b).stack ≠ .stack w := by
  intro w hw
  obtain ⟨wa, _, ha, _, _⟩ := concatenateRev_stack hw
  exact h wa ha

theorem concat_not_stack_right {a b : Sat} (h : ∀ w, b.stack ≠ .stack w) :
    ∀ w, (a.concatenateRev b).stack ≠ .stack w := by
  intro w hw
  obtain ⟨_, wb, _, hb, _⟩ := concatenateRev_stack hw
  exact h wb hb

theorem minFn_stack (c : SatCfg) {a b : Sat} {w : List Ph} (h : (c.minFn a b).stack = .stack w) :
    a.stack = .stack w ∨ b.stack = .stack w := by
  unfold SatCfg.minFn at h
  split at h
  · exact minimumMall_stack h
  · exact minimum_stack h

theorem foldl_concat_not_stack (l : List Sat) : ∀ acc : Sat,
    ((∀ w, acc.stack ≠ .stack w) ∨ ∃ s ∈ l, ∀ w, s.stack ≠ .stack w) →
    ∀ w, (l.foldl Sat.concatenateRev acc).stack ≠ .stack w := by
  induction l with
  | nil =>
    intro acc h w
    rcases h with h | ⟨s, hs, _⟩
    · exact h w
    · simp at hs
  | cons x xs ih =>
    intro acc h
    simp only [List.foldl_cons]
    apply ih
    rcases h with h | ⟨s, hs, hns⟩
    · exact .inl (concat_not_stack_left h)
    · rcases List.mem_cons.1 hs with rfl | hs
      · exact .inl (concat_not_stack_right hns)
      · exact .inr ⟨s, hs, hns⟩

mutual
theorem noDis_sound (c : SatCfg) : (ms : Ms) → noDis ms = true →
    ∀ w, (satDissat c ms).dissat.stack ≠ .stack w
  | .tru, _ => by intro w; simp [satDissat, Sat.IMPOSSIBLE]
  | .after _, _ => by intro w; simp [satDissat, Sat.IMPOSSIBLE]
  | .older _, _ => by intro w; simp [satDissat, Sat.IMPOSSIBLE]
  | .verify _, _ => by intro w; simp [satDissat, Sat.IMPOSSIBLE]
  | .orC _ _, _ => by intro w; simp [satDissat, Sat.IMPOSSIBLE]
  | .alt x, h => by simp only [noDis] at h; simpa [satDissat] using noDis_sound c x h
  | .swap x, h => by simp only [noDis] at h; simpa [satDissat] using noDis_sound c x h
  | .check x, h => by simp only [noDis] at h; simpa [satDissat] using noDis_sound c x h
  | .zeroNotEqual x, h => by simp only [noDis] at h; simpa [satDissat] using noDis_sound c x h
  | .andB l r, h => by
    simp only [noDis, Bool.or_eq_true] at h
    simp only [satDissat]
    rcases h with h | h
    · exact concat_not_stack_left (noDis_sound c l h)
    · exact concat_not_stack_right (noDis_sound c r h)
  | .orB l r, h => by
    simp only [noDis, Bool.or_eq_true] at h
    simp only [satDissat]
    rcases h with h | h
    · exact concat_not_stack_left (noDis_sound c l h)
    · exact concat_not_stack_right (noDis_sound c r h)
  | .orD l r, h => by
    simp only [noDis, Bool.or_eq_true] at h
    simp only [satDissat]
    rcases h with h | h
    · exact concat_not_stack_left (noDis_sound c l h)
    · exact concat_not_stack_right (noDis_sound c r h)
  | .andV l r, h => by
    simp only [noDis] at h
    simp only [satDissat]
    exact concat_not_stack_right (noDis_sound c r h)
  | .andOr a b z, h => by
    simp only [noDis, Bool.or_eq_true] at h
    simp only [satDissat]
    rcases h with h | h
    · exact concat_not_stack_left (noDis_sound c a h)
    · exact concat_not_stack_right (noDis_sound c z h)
  | .orI l r, h => by
    simp only [noDis, Bool.and_eq_true] at h
    simp only [satDissat]
    intro w hw
    rcases minFn_stack c hw with hw | hw
    · obtain ⟨ws, _, hs, _, _⟩ := combine_stack hw
      exact noDis_sound c l h.1 ws hs
    · obtain ⟨ws, _, hs, _, _⟩ := combine_stack hw
      exact noDis_sound c r h.2 ws hs
  | .thresh k xs, h => by
    simp only [noDis] at h
    simp only [satDissat]
    obtain ⟨s, hs, hns⟩ := anyNoDis_sound c xs h
    exact foldl_concat_not_stack _ _ (.inr ⟨s, hs, hns⟩)
  | .fls, h | .pkK _, h | .pkH _, h | .rawPkH _, h | .hash _ _, h | .dupIf _, h | .nonZero _, h
  | .multi _ _, h | .sortedMulti _ _, h | .multiA _ _, h | .sortedMultiA _ _, h => by
    simp [noDis] at h
theorem anyNoDis_sound (c : SatCfg) : (xs : MsList) → anyNoDis xs = true →
    ∃ s ∈ (satDissats c xs).map (·.dissat), ∀ w, s.stack ≠ .stack w
  | .nil, h => by simp [anyNoDis] at h
  | .cons x xs, h => by
    simp only [anyNoDis, Bool.or_eq_true] at h
    simp only [satDissats, List.map_cons]
    rcases h with h | h
    · exact ⟨_, List.mem_cons_self .., noDis_sound c x h⟩
    · obtain ⟨s, hs, hns⟩ := anyNoDis_sound c xs h
      exact ⟨s, List.mem_cons_of_mem _ hs, hns⟩
end

/-! ### the hypotheses -/

mutual
/-- "whenever the satisfier's DISSATISFACTION of this fragment is a stack, the library has a
dissatisfaction figure bounding it".  Fails only below `and_v` (the satisfier builds
`sat(l) ++ dissat(r)` for it while `ExtData::and_v` has `dissat_data: None`) unless the right
child can never be dissatisfied. -/
def disOK : Ms → Bool
  | .andV _ r => noDis r
  | .alt x | .swap x | .check x | .zeroNotEqual x => disOK x
  | .andB l r | .orB l r | .orD l r | .orI l r => disOK l && disOK r
  | .andOr a _ z => disOK a && disOK z
  | .thresh _ xs => disOKs xs
  | _ => true
def disOKs : MsList → Bool
  | .nil => true
  | .cons x xs => disOK x && disOKs xs
end

mutual
/-- Hypotheses of the bound theorem, fragment by fragment:
* `multi_a` only in tapscript (`check_global_consensus_validity` rejects it elsewhere; its
  scriptSig figure is 0) and with `k ≥ 1` (`Threshold` invariant);
* where a parent's SATISFACTION contains a child's dissatisfaction (`andor` first child, `or_b`
  both, `or_d`/`or_c` left, every `thresh` child) that child is `disOK`; typing makes these
  children `d`, which gives `disOK` except below `and_v` (see `disOK`);
* every `thresh` child has a dissatisfaction figure (typing: thresh children are `d`). -/
def good (ke : KeyEnv) (ctx : Ctx) : Ms → Bool
  | .multiA k _ | .sortedMultiA k _ => decide (ctx = .tap) && decide (1 ≤ k)
  | .alt x | .swap x | .check x | .dupIf x | .verify x | .nonZero x | .zeroNotEqual x => good ke ctx x
  | .andV l r | .andB l r | .orI l r => good ke ctx l && good ke ctx r
  | .orB l r => good ke ctx l && good ke ctx r && disOK l && disOK r
  | .orD l r | .orC l r => good ke ctx l && good ke ctx r && disOK l
  | .andOr a b z => good ke ctx a && good ke ctx b && good ke ctx z && disOK a
  | .thresh _ xs => goods ke ctx xs
  | _ => true
def goods (ke : KeyEnv) (ctx : Ctx) : MsList → Bool
  | .nil => true
  | .cons x xs => good ke ctx x && disOK x && (extOf ke ctx x).dissatData.isSome && goods ke ctx xs
end

/-! ### figures of the leaves -/

theorem pkK_sat (ctx : Ctx) (u : Bool) :
    (ExtData.pkK ctx u).satData = some ⟨(keySig ctx false).2, 1, (keySig ctx false).2, 1, 0⟩ := by
  cases ctx <;> cases u <;> rfl
theorem pkK_dis (ctx : Ctx) (u : Bool) : (ExtData.pkK ctx u).dissatData = some ⟨1, 1, 1, 1, 0⟩ := by
  cases ctx <;> cases u <;> rfl
theorem pkH_sat (ctx : Ctx) (u : Bool) :
    (ExtData.pkH ctx u).satData = some ⟨(keySig ctx u).1 + (keySig ctx false).2, 2,
      (keySig ctx u).1 + (keySig ctx false).2, 2, 0⟩ := by
  cases ctx <;> cases u <;> rfl
theorem pkH_dis (ctx : Ctx) (u : Bool) :
    (ExtData.pkH ctx u).dissatData = some ⟨(keySig ctx u).1 + 1, 2, (keySig ctx u).1 + 1, 2, 0⟩ := by
  cases ctx <;> cases u <;> rfl

theorem insertKey'_length (env : KeyEnv) (k : Key) (l : List Key) :
    (insertKey' env k l).length = l.length + 1 := by
  induction l with
  | nil => rfl
  | cons x xs ih => simp only [insertKey']; split <;> simp [ih]

theorem sortKeys'_length (env : KeyEnv) (ks : List Key) : (sortKeys' env ks).length = ks.length := by
  have : ∀ (l acc : List Key), (l.foldl (fun acc k => insertKey' env k acc) acc).length = acc.length + l.length := by
    intro l
    induction l with
    | nil => intro acc; rfl
    | cons x xs ih => intro acc; simp only [List.foldl_cons, ih, insertKey'_length, List.length_cons]; omega
  simpa [sortKeys'] using this ks []

theorem Fits_nil (e : Bool) (d : SatData) : Fits e [] d := ⟨Nat.zero_le _, Nat.zero_le _, fun _ => Nat.zero_le _⟩

theorem SB_const {e : Bool} {s : Sat} {w : List Ph} {d : SatData} (hs : s.stack = .stack w)
    (hf : Fits e w d) : SB e s (some d) := by
  intro w' hw'; rw [hs] at hw'; cases hw'; exact ⟨d, rfl, hf⟩

theorem SB_impossible (e : Bool) (od : Option SatData) : SB e Sat.IMPOSSIBLE od :=
  SB_of_not_stack (by intro w; simp [Sat.IMPOSSIBLE])

/-- AllSB of a list from the per-child statements -/
def PairSB (e : Bool) (sd : SatDissat) (x : ExtData) : Prop :=
  SB e sd.sat x.satData ∧ SB e sd.dissat x.dissatData

theorem zipMap_isSome {f : SatData → SatData → SatData} {a b : Option SatData}
    (h : (zipMap f a b).isSome = true) : a.isSome = true ∧ b.isSome = true := by
  cases a <;> cases b <;> simp_all [zipMap]

theorem pkLen_le_keySig (ke : KeyEnv) (ctx : Ctx) (k : Key) :
    pkLen ke ctx k ≤ (keySig ctx (isUnc ke k)).1 := by
  cases ctx <;> simp only [pkLen, keySig, Ctx.sigType, isUnc, beq_iff_eq] <;> (try split) <;> simp_all

theorem dupIf_push (x : SatData) :
    x.wCount + [Ph.pushOne].length ≤ (⟨x.wSize + 2, x.wCount + 1, x.ssSize + 1, max 1 x.execStack, x.execOps⟩ : SatData).wCount
    ∧ x.wSize + wsz [Ph.pushOne] ≤ (⟨x.wSize + 2, x.wCount + 1, x.ssSize + 1, max 1 x.execStack, x.execOps⟩ : SatData).wSize
    ∧ x.ssSize + wss [Ph.pushOne] ≤ (⟨x.wSize + 2, x.wCount + 1, x.ssSize + 1, max 1 x.execStack, x.execOps⟩ : SatData).ssSize := by
  simp [Ph.size, phSs]

theorem with1_push (x : SatData) : x.wCount + [Ph.pushOne].length ≤ (with1 x).wCount
    ∧ x.wSize + wsz [Ph.pushOne] ≤ (with1 x).wSize ∧ x.ssSize + wss [Ph.pushOne] ≤ (with1 x).ssSize := by
  simp [with1, Ph.size, phSs]; omega
theorem with0_push (x : SatData) : x.wCount + [Ph.pushZero].length ≤ (with0 x).wCount
    ∧ x.wSize + wsz [Ph.pushZero] ≤ (with0 x).wSize ∧ x.ssSize + wss [Ph.pushZero] ≤ (with0 x).ssSize := by
  simp [with0, Ph.size, phSs]; omega

theorem threshold_dissat (k : Nat) (exts : List ExtData) :
    (threshold k exts).dissatData
      = exts.foldl (fun (a : Option SatData) sub => zipMap addD a sub.dissatData) (some ⟨0, 0, 0, 0, 0⟩) := rfl

section main
variable (ke : KeyEnv) (ctx : Ctx) (mall rhs : Bool) (a : Assets) (ha : AssetsOk ke ctx a)

/-- the statement proved for every fragment -/
def P (ms : Ms) : Prop :=
  SB (ess ctx) (satDissat ⟨ke, ctx, mall, rhs, a⟩ ms).sat (extOf ke ctx ms).satData
  ∧ (disOK ms = true →
      SB (ess ctx) (satDissat ⟨ke, ctx, mall, rhs, a⟩ ms).dissat (extOf ke ctx ms).dissatData)

end main

end MsVerif.C09

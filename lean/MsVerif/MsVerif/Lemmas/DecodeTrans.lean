/-
The individual transitions of the decoder, as `Step` lemmas with symbolic remaining tokens
and stacks.  (Used by Lemmas/DecodeEncode.lean to replay the decoder on `tokens ms`.)
-/
import MsVerif.Lemmas.DecodeSteps
import MsVerif.Model.Tokens

namespace MsVerif
namespace DecodeL

variable {dec : AtomDec} {env : KeyEnv} {ctx : Ctx}
variable {ts : List Token} {nt : List NonTerm} {term : List Ms}

/-! ### `Expression` arms -/

theorem e_key {bs : Bytes} {k : Key} (h : parseKey dec ctx bs = .ok k) :
    Step dec env ctx ⟨keyTok bs :: ts, .expression :: nt, term⟩ ⟨ts, nt, .pkK k :: term⟩ := by
  apply step_mk
  unfold keyTok
  split
  · simp [stepNT, stepExpr, h]
  · split <;> simp [stepNT, stepExpr, h]

theorem e_checkSig :
    Step dec env ctx ⟨.checkSig :: ts, .expression :: nt, term⟩ ⟨ts, .expression :: .check :: nt, term⟩ :=
  step_mk rfl

theorem e_zeroNotEqual :
    Step dec env ctx ⟨.zeroNotEqual :: ts, .expression :: nt, term⟩
      ⟨ts, .expression :: .zeroNotEqual :: nt, term⟩ := step_mk rfl

theorem e_endIf :
    Step dec env ctx ⟨.endIf :: ts, .expression :: nt, term⟩
      ⟨ts, .expression :: .maybeAndV :: .endIf :: nt, term⟩ := step_mk rfl

theorem e_boolAnd :
    Step dec env ctx ⟨.boolAnd :: ts, .expression :: nt, term⟩
      ⟨ts, .wExpression :: .expression :: .andB :: nt, term⟩ := step_mk rfl

theorem e_boolOr :
    Step dec env ctx ⟨.boolOr :: ts, .expression :: nt, term⟩
      ⟨ts, .wExpression :: .expression :: .orB :: nt, term⟩ := step_mk rfl

theorem e_verify_un {x : Token} (h : x ≠ .equal) :
    Step dec env ctx ⟨.verify :: x :: ts, .expression :: nt, term⟩
      ⟨x :: ts, .expression :: .verify :: nt, term⟩ := by
  apply step_mk
  cases x <;> first | exact absurd rfl h | rfl

theorem e_tru : Step dec env ctx ⟨.num 1 :: ts, .expression :: nt, term⟩ ⟨ts, nt, .tru :: term⟩ :=
  step_mk rfl

theorem e_fls : Step dec env ctx ⟨.num 0 :: ts, .expression :: nt, term⟩ ⟨ts, nt, .fls :: term⟩ :=
  step_mk rfl

theorem e_older {n : Nat} (h1 : 1 ≤ n) (h2 : n < 2147483648) :
    Step dec env ctx ⟨.csv :: .num n :: ts, .expression :: nt, term⟩ ⟨ts, nt, .older n :: term⟩ := by
  apply step_mk
  have : ¬ (n = 0 ∨ n ≥ 2147483648) := by omega
  simp [stepNT, stepExpr, this]

theorem e_after {n : Nat} (h1 : 1 ≤ n) (h2 : n ≤ 2147483647) :
    Step dec env ctx ⟨.cltv :: .num n :: ts, .expression :: nt, term⟩ ⟨ts, nt, .after n :: term⟩ := by
  apply step_mk
  have : ¬ (n = 0 ∨ n > 2147483647) := by omega
  simp [stepNT, stepExpr, this]

theorem e_hash {kind : HashKind} {bs : Bytes} {h : Nat} (hl : dec.hash kind bs = some h) :
    Step dec env ctx
      ⟨.equal :: hashValTok kind bs :: hashOpTok kind :: .verify :: .equal :: .num 32 :: .size :: ts,
        .expression :: nt, term⟩ ⟨ts, nt, .hash kind h :: term⟩ := by
  apply step_mk
  cases kind <;>
    simp [stepNT, stepExpr, exprAfterEqual, hashValTok, hashOpTok, hashTail, expectSeq, lookupHash, hl]

theorem e_vhash {kind : HashKind} {bs : Bytes} {h : Nat} (hl : dec.hash kind bs = some h) :
    Step dec env ctx
      ⟨.verify :: .equal :: hashValTok kind bs :: hashOpTok kind :: .verify :: .equal :: .num 32 :: .size :: ts,
        .expression :: nt, term⟩ ⟨ts, .verify :: nt, .hash kind h :: term⟩ := by
  apply step_mk
  cases kind <;>
    simp [stepNT, stepExpr, exprAfterEqual, hashValTok, hashOpTok, hashTail, expectSeq, lookupHash, hl]

theorem e_rawPkh {bs : Bytes} {h : Nat} (hl : dec.rawPkh bs = some h) :
    Step dec env ctx ⟨.verify :: .equal :: .hash20 bs :: .hash160 :: .dup :: ts, .expression :: nt, term⟩
      ⟨ts, nt, .rawPkH h :: term⟩ := by
  apply step_mk
  simp [stepNT, stepExpr, exprAfterEqual, lookupRawPkh, hl]

theorem e_thresh {k : Nat} :
    Step dec env ctx ⟨.equal :: .num k :: ts, .expression :: nt, term⟩ ⟨ts, .threshW k 0 :: nt, term⟩ :=
  step_mk rfl

theorem e_vthresh {k : Nat} :
    Step dec env ctx ⟨.verify :: .equal :: .num k :: ts, .expression :: nt, term⟩
      ⟨ts, .threshW k 0 :: .verify :: nt, term⟩ := step_mk rfl

/-! ### the other nonterminals -/

theorem s_maybe_yes (h : isAndV ts = true) :
    Step dec env ctx ⟨ts, .maybeAndV :: nt, term⟩ ⟨ts, .expression :: .andV :: nt, term⟩ := by
  apply step_mk; simp [stepNT, h]

theorem s_maybe_no (h : isAndV ts = false) :
    Step dec env ctx ⟨ts, .maybeAndV :: nt, term⟩ ⟨ts, nt, term⟩ := by
  apply step_mk; simp [stepNT, h]

theorem s_andV_yes (h : isAndV ts = true) :
    Step dec env ctx ⟨ts, .andV :: nt, term⟩ ⟨ts, .maybeAndV :: .andV :: nt, term⟩ := by
  apply step_mk; simp [stepNT, h]

theorem s_andV_no {l r : Ms} (h : isAndV ts = false) (hf : fromAst env ctx (.andV l r) = .ok (.andV l r)) :
    Step dec env ctx ⟨ts, .andV :: nt, l :: r :: term⟩ ⟨ts, nt, .andV l r :: term⟩ := by
  apply step_mk; simp [stepNT, h, reduce2, hf]

theorem s_check {x : Ms} (hf : fromAst env ctx (.check x) = .ok (.check x)) :
    Step dec env ctx ⟨ts, .check :: nt, x :: term⟩ ⟨ts, nt, .check x :: term⟩ := by
  apply step_mk; simp [stepNT, reduce1, hf]

theorem s_dupIf {x : Ms} (hf : fromAst env ctx (.dupIf x) = .ok (.dupIf x)) :
    Step dec env ctx ⟨ts, .dupIf :: nt, x :: term⟩ ⟨ts, nt, .dupIf x :: term⟩ := by
  apply step_mk; simp [stepNT, reduce1, hf]

theorem s_verify {x : Ms} (hf : fromAst env ctx (.verify x) = .ok (.verify x)) :
    Step dec env ctx ⟨ts, .verify :: nt, x :: term⟩ ⟨ts, nt, .verify x :: term⟩ := by
  apply step_mk; simp [stepNT, reduce1, hf]

theorem s_nonZero {x : Ms} (hf : fromAst env ctx (.nonZero x) = .ok (.nonZero x)) :
    Step dec env ctx ⟨ts, .nonZero :: nt, x :: term⟩ ⟨ts, nt, .nonZero x :: term⟩ := by
  apply step_mk; simp [stepNT, reduce1, hf]

theorem s_zeroNotEqual {x : Ms} (hf : fromAst env ctx (.zeroNotEqual x) = .ok (.zeroNotEqual x)) :
    Step dec env ctx ⟨ts, .zeroNotEqual :: nt, x :: term⟩ ⟨ts, nt, .zeroNotEqual x :: term⟩ := by
  apply step_mk; simp [stepNT, reduce1, hf]

theorem s_swap {x : Ms} (hf : fromAst env ctx (.swap x) = .ok (.swap x)) :
    Step dec env ctx ⟨.swap :: ts, .swap :: nt, x :: term⟩ ⟨ts, nt, .swap x :: term⟩ := by
  apply step_mk; simp [stepNT, reduce1, hf]

theorem s_alt {x : Ms} (hf : fromAst env ctx (.alt x) = .ok (.alt x)) :
    Step dec env ctx ⟨.toAlt :: ts, .alt :: nt, x :: term⟩ ⟨ts, nt, .alt x :: term⟩ := by
  apply step_mk; simp [stepNT, reduce1, hf]

theorem s_andB {l r : Ms} (hf : fromAst env ctx (.andB l r) = .ok (.andB l r)) :
    Step dec env ctx ⟨ts, .andB :: nt, l :: r :: term⟩ ⟨ts, nt, .andB l r :: term⟩ := by
  apply step_mk; simp [stepNT, reduce2, hf]

theorem s_orB {l r : Ms} (hf : fromAst env ctx (.orB l r) = .ok (.orB l r)) :
    Step dec env ctx ⟨ts, .orB :: nt, l :: r :: term⟩ ⟨ts, nt, .orB l r :: term⟩ := by
  apply step_mk; simp [stepNT, reduce2, hf]

theorem s_orC {l r : Ms} (hf : fromAst env ctx (.orC l r) = .ok (.orC l r)) :
    Step dec env ctx ⟨ts, .orC :: nt, l :: r :: term⟩ ⟨ts, nt, .orC l r :: term⟩ := by
  apply step_mk; simp [stepNT, reduce2, hf]

theorem s_orD {l r : Ms} (hf : fromAst env ctx (.orD l r) = .ok (.orD l r)) :
    Step dec env ctx ⟨ts, .orD :: nt, l :: r :: term⟩ ⟨ts, nt, .orD l r :: term⟩ := by
  apply step_mk; simp [stepNT, reduce2, hf]

theorem s_tern {a b c : Ms} (hf : fromAst env ctx (.andOr a b c) = .ok (.andOr a b c)) :
    Step dec env ctx ⟨ts, .tern :: nt, a :: c :: b :: term⟩ ⟨ts, nt, .andOr a b c :: term⟩ := by
  apply step_mk; simp [stepNT, hf]

theorem s_threshW_add {k n : Nat} :
    Step dec env ctx ⟨.add :: ts, .threshW k n :: nt, term⟩
      ⟨ts, .wExpression :: .threshW k (n + 1) :: nt, term⟩ := step_mk rfl

theorem s_threshW_un {k n : Nat} {x : Token} (h : x ≠ .add) :
    Step dec env ctx ⟨x :: ts, .threshW k n :: nt, term⟩
      ⟨x :: ts, .expression :: .threshE k (n + 1) :: nt, term⟩ := by
  apply step_mk
  cases x <;> first | exact absurd rfl h | rfl

theorem s_threshE {k n : Nat} {subs t : List Ms} (hp : popN n term = some (subs, t))
    (hk : 1 ≤ k ∧ k ≤ subs.length)
    (hf : fromAst env ctx (.thresh k (MsList.ofList subs)) = .ok (.thresh k (MsList.ofList subs))) :
    Step dec env ctx ⟨ts, .threshE k n :: nt, term⟩ ⟨ts, nt, .thresh k (MsList.ofList subs) :: t⟩ := by
  apply step_mk
  have : ¬ (k = 0 ∨ k > subs.length) := by omega
  simp [stepNT, hp, this, hf]

theorem s_endIf_else :
    Step dec env ctx ⟨.else_ :: ts, .endIf :: nt, term⟩
      ⟨ts, .expression :: .maybeAndV :: .endIfElse :: nt, term⟩ := step_mk rfl

theorem s_endIf_dup :
    Step dec env ctx ⟨.if_ :: .dup :: ts, .endIf :: nt, term⟩ ⟨ts, .dupIf :: nt, term⟩ := step_mk rfl

theorem s_endIf_nz :
    Step dec env ctx ⟨.if_ :: .zeroNotEqual :: .size :: ts, .endIf :: nt, term⟩ ⟨ts, .nonZero :: nt, term⟩ :=
  step_mk rfl

theorem s_endIf_notIf :
    Step dec env ctx ⟨.notIf :: ts, .endIf :: nt, term⟩ ⟨ts, .endIfNotIf :: nt, term⟩ := step_mk rfl

theorem s_endIfNotIf_ifDup :
    Step dec env ctx ⟨.ifDup :: ts, .endIfNotIf :: nt, term⟩ ⟨ts, .expression :: .orD :: nt, term⟩ :=
  step_mk rfl

theorem s_endIfNotIf_un {x : Token} (h : x ≠ .ifDup) :
    Step dec env ctx ⟨x :: ts, .endIfNotIf :: nt, term⟩ ⟨x :: ts, .expression :: .orC :: nt, term⟩ := by
  apply step_mk
  cases x <;> first | exact absurd rfl h | rfl

theorem s_endIfElse_if {l r : Ms} (hf : fromAst env ctx (.orI l r) = .ok (.orI l r)) :
    Step dec env ctx ⟨.if_ :: ts, .endIfElse :: nt, l :: r :: term⟩ ⟨ts, nt, .orI l r :: term⟩ := by
  apply step_mk; simp [stepNT, reduce2, hf]

theorem s_endIfElse_notIf :
    Step dec env ctx ⟨.notIf :: ts, .endIfElse :: nt, term⟩ ⟨ts, .expression :: .tern :: nt, term⟩ :=
  step_mk rfl

theorem s_wexpr_alt :
    Step dec env ctx ⟨.fromAlt :: ts, .wExpression :: nt, term⟩
      ⟨ts, .expression :: .maybeAndV :: .alt :: nt, term⟩ := step_mk rfl

theorem s_wexpr_un {x : Token} (h : x ≠ .fromAlt) :
    Step dec env ctx ⟨x :: ts, .wExpression :: nt, term⟩
      ⟨x :: ts, .expression :: .maybeAndV :: .swap :: nt, term⟩ := by
  apply step_mk
  cases x <;> first | exact absurd rfl h | rfl

/-! ### `multi` / `multi_a` -/

/-- keys whose token is `Bytes33`/`Bytes65` and which parse back to themselves -/
def FullKeyOk (dec : AtomDec) (env : KeyEnv) (ctx : Ctx) (x : Key) : Prop :=
  parseKey dec ctx (env.ser x) = .ok x ∧ ((env.ser x).length = 33 ∨ (env.ser x).length = 65)

/-- keys whose token is `Bytes32` and which parse back to themselves -/
def XKeyOk (dec : AtomDec) (env : KeyEnv) (ctx : Ctx) (x : Key) : Prop :=
  parseKey dec ctx (env.ser x) = .ok x ∧ keyTok (env.ser x) = .bytes32 (env.ser x)

theorem readMultiKeys_rev (rks : List Key) : ∀ (acc : List Key) (rest : List Token),
    (∀ x ∈ rks, FullKeyOk dec env ctx x) →
    readMultiKeys dec ctx rks.length (rks.map (fun pk => keyTok (env.ser pk)) ++ rest) acc
      = .ok (acc ++ rks, rest) := by
  induction rks with
  | nil => intro acc rest _; simp [readMultiKeys]
  | cons k rks ih =>
    intro acc rest h
    obtain ⟨hp, hl⟩ := h k (by simp)
    have ih' := ih (acc ++ [k]) rest (fun x hx => h x (by simp [hx]))
    simp only [List.map_cons, List.cons_append, List.length_cons]
    rcases hl with hl | hl
    · have : keyTok (env.ser k) = .bytes33 (env.ser k) := by simp [keyTok, hl]
      rw [this]; simp only [readMultiKeys, hp]; rw [ih']; simp
    · have : keyTok (env.ser k) = .bytes65 (env.ser k) := by simp [keyTok, hl]
      rw [this]; simp only [readMultiKeys, hp]; rw [ih']; simp

theorem e_multi {k : Nat} {ks : List Key} (hk : 1 ≤ k ∧ k ≤ ks.length ∧ ks.length ≤ 20)
    (hks : ∀ x ∈ ks, FullKeyOk dec env ctx x) :
    Step dec env ctx
      ⟨.checkMultiSig :: .num ks.length :: ((ks.map (fun pk => keyTok (env.ser pk))).reverse ++ .num k :: ts),
        .expression :: nt, term⟩ ⟨ts, nt, .multi k ks :: term⟩ := by
  apply step_mk
  have h1 : ¬ (ks.length = 0 ∨ ks.length > 20) := by omega
  have hr := readMultiKeys_rev (dec := dec) (env := env) (ctx := ctx) ks.reverse [] (.num k :: ts)
    (fun x hx => hks x (by simpa using hx))
  simp only [List.length_reverse, List.map_reverse, List.nil_append] at hr
  have h2 : ¬ (k = 0 ∨ k > ks.length ∨ ks.length > 20) := by omega
  have h1' : ¬ (ks = [] ∨ 20 < ks.length) := by
    intro h; rcases h with h | h
    · subst h; simp at hk; omega
    · omega
  simp [stepNT, stepExpr, exprMulti, h1', hr, h2]

theorem readCsaKeys_rev (rks : List Key) : ∀ (acc : List Key) (rest : List Token),
    (∀ x ∈ rks, XKeyOk dec env ctx x) → (∀ r, rest ≠ .checkSigAdd :: r) →
    readCsaKeys dec ctx (rks.flatMap (fun pk => [.checkSigAdd, keyTok (env.ser pk)]) ++ rest) acc
      = .ok (acc ++ rks, rest) := by
  induction rks with
  | nil =>
    intro acc rest _ hr
    simp only [List.flatMap_nil, List.nil_append, List.append_nil]
    unfold readCsaKeys
    split
    · exact absurd rfl (hr _)
    · exact absurd rfl (hr _)
    · exact absurd rfl (hr _)
    · rfl
  | cons k rks ih =>
    intro acc rest h hr
    obtain ⟨hp, ht⟩ := h k (by simp)
    have ih' := ih (acc ++ [k]) rest (fun x hx => h x (by simp [hx])) hr
    simp only [List.flatMap_cons, List.cons_append, List.nil_append, ht]
    simp only [readCsaKeys, hp]
    rw [ih']; simp

theorem multiATokens_rev (env : KeyEnv) (k : Key) (ks : List Key) :
    (multiATokens env (k :: ks)).reverse =
      ks.reverse.flatMap (fun pk => [.checkSigAdd, keyTok (env.ser pk)]) ++ [.checkSig, keyTok (env.ser k)] := by
  simp only [multiATokens, List.reverse_append, List.reverse_cons, List.reverse_nil, List.nil_append,
    List.singleton_append]
  congr 1
  induction ks with
  | nil => rfl
  | cons x ks ih =>
    simp only [List.flatMap_cons, List.reverse_append, List.reverse_cons, List.reverse_nil,
      List.nil_append, List.flatMap_append, List.flatMap_nil, List.append_nil, ih]
    simp

theorem e_multiA {k : Nat} {k1 : Key} {ks : List Key}
    (hk : 1 ≤ k ∧ k ≤ (k1 :: ks).length ∧ (k1 :: ks).length ≤ 999)
    (hks : ∀ x ∈ k1 :: ks, XKeyOk dec env ctx x) :
    Step dec env ctx
      ⟨.numEqual :: .num k :: ((multiATokens env (k1 :: ks)).reverse ++ ts), .expression :: nt, term⟩
      ⟨ts, nt, .multiA k (k1 :: ks) :: term⟩ := by
  apply step_mk
  have h1 : ¬ (k = 0 ∨ k > 999) := by simp only [List.length_cons] at hk; omega
  obtain ⟨hp1, ht1⟩ := hks k1 (by simp)
  have hr := readCsaKeys_rev (dec := dec) (env := env) (ctx := ctx) ks.reverse []
    (.checkSig :: keyTok (env.ser k1) :: ts) (fun x hx => hks x (by simp at hx; simp [hx]))
    (by intro r h; cases h)
  simp only [List.nil_append] at hr
  rw [ht1] at hr
  rw [multiATokens_rev]
  simp only [List.append_assoc, List.cons_append, List.nil_append]
  have h2 : ¬ (k = 0 ∨ ks.length + 1 < k ∨ 999 < ks.length + 1) := by
    simp only [List.length_cons] at hk
    omega
  simp [stepNT, stepExpr, exprMultiA, h1, hr, ht1, hp1, h2]

end DecodeL
end MsVerif

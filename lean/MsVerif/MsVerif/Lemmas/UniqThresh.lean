/-
C03 (uniqueness), part 2d: the threshold node.

The table offers, for every choice (mask) of `k` children, the product of the chosen children's
satisfactions and the other children's dissatisfactions.  The satisfier's result is the fold of
ONE mask (the first `k` children in its sort order).  A table entry of another mask needs the
satisfaction of a child the satisfier did not choose; such a child has no signature visible in
the result (keys are pairwise distinct), and its satisfaction is impossible or needs a signature
— otherwise `thresh`'s position-`k` test would have answered `Unavailable`.
-/
import MsVerif.Lemmas.UniqLeaf

set_option linter.unusedSimpArgs false
set_option linter.unusedVariables false

namespace MsVerif.Uniq
open MsVerif Sat SatTable SatAll MalleLattice Complete

variable {adv : Avail} {sortK : List Key → List Key}

/-! ### masks and products -/

/-- table of one child under a mask bit -/
def slotA (adv : Avail) (sortK : List Key → List Key) (p : Bool × Ms) : List (List Item) :=
  if p.1 then allSat adv sortK p.2 else allDsat adv sortK p.2

/-- the product of a masked child list; the LAST child's part is at the bottom (front) -/
def prodA (adv : Avail) (sortK : List Key → List Key) : List (Bool × Ms) → List (List Item)
  | [] => [[]]
  | p :: rest => cat (prodA adv sortK rest) (slotA adv sortK p)

theorem threshAll_mask : ∀ (xs : MsList) (need : Nat) (t : List Item),
    t ∈ threshAll adv sortK need xs →
    ∃ bs : List Bool, bs.length = xs.toList.length ∧ bs.count true = need ∧
      t ∈ prodA adv sortK (bs.zip xs.toList)
  | .nil, need, t, h => by
    simp only [threshAll] at h
    split at h
    · rename_i h0
      simp only [List.mem_singleton] at h
      exact ⟨[], by simp [MsList.toList], by simp [h0], by simp [MsList.toList, prodA, h]⟩
    · cases h
  | .cons x xs, need, t, h => by
    simp only [threshAll, List.mem_append] at h
    rcases h with h | h
    · cases need with
      | zero => simp at h
      | succ n =>
        simp only at h
        obtain ⟨t', ht', a, ha, rfl⟩ := mem_cat.mp h
        obtain ⟨bs, hl, hc, hp⟩ := threshAll_mask xs n t' ht'
        refine ⟨true :: bs, by simp [MsList.toList, hl], by simp [hc], ?_⟩
        simp only [MsList.toList, List.zip_cons_cons, prodA, slotA, if_true]
        exact mem_cat.mpr ⟨t', hp, a, ha, rfl⟩
    · obtain ⟨t', ht', a, ha, rfl⟩ := mem_cat.mp h
      obtain ⟨bs, hl, hc, hp⟩ := threshAll_mask xs need t' ht'
      refine ⟨false :: bs, by simp [MsList.toList, hl], by simp [hc], ?_⟩
      simp only [MsList.toList, List.zip_cons_cons, prodA, slotA, Bool.false_eq_true, if_false]
      exact mem_cat.mpr ⟨t', hp, a, ha, rfl⟩

/-- every factor of a non-empty product is non-empty -/
theorem prodA_factor : ∀ (slots : List (Bool × Ms)) (t : List Item), t ∈ prodA adv sortK slots →
    ∀ p ∈ slots, slotA adv sortK p ≠ []
  | [], _, _, p, hp => by cases hp
  | q :: rest, t, ht, p, hp => by
    simp only [prodA] at ht
    obtain ⟨t', ht', a, ha, rfl⟩ := mem_cat.mp ht
    rcases List.mem_cons.mp hp with rfl | hp
    · intro h0; rw [h0] at ha; cases ha
    · exact prodA_factor rest t' ht' p hp

theorem mask_count_le : ∀ (bs cs : List Bool), bs.length = cs.length →
    (∀ p ∈ bs.zip cs, p.1 = true → p.2 = true) → bs.count true ≤ cs.count true
  | [], _, _, _ => by simp
  | _ :: _, [], h, _ => by simp at h
  | b :: bs, c :: cs, hl, hle => by
    have ih := mask_count_le bs cs (by simpa using hl) (fun p hp => hle p (by simp [hp]))
    have hh := hle (b, c) (by simp)
    cases b
    · cases c
      · simpa using ih
      · simp only [List.count_cons_self]
        have : List.count true (false :: bs) = List.count true bs := by simp
        omega
    · have hc : c = true := hh rfl
      subst hc
      simp only [List.count_cons_self]; omega

/-- two masks of the same length and weight, one below the other: equal -/
theorem mask_eq : ∀ (bs cs : List Bool), bs.length = cs.length →
    (∀ p ∈ bs.zip cs, p.1 = true → p.2 = true) → bs.count true = cs.count true → bs = cs
  | [], [], _, _, _ => rfl
  | [], _ :: _, h, _, _ => by simp at h
  | _ :: _, [], h, _, _ => by simp at h
  | b :: bs, c :: cs, hl, hle, hc => by
    have hl' : bs.length = cs.length := by simpa using hl
    have hle' : ∀ p ∈ bs.zip cs, p.1 = true → p.2 = true := fun p hp => hle p (by simp [hp])
    have hhead := hle (b, c) (by simp)
    have hle2 := mask_count_le bs cs hl' hle'
    cases b
    · cases c
      · have hc' : bs.count true = cs.count true := by simpa using hc
        rw [mask_eq bs cs hl' hle' hc']
      · exfalso
        have h1 : List.count true (false :: bs) = List.count true bs := by simp
        have h2 : List.count true (true :: cs) = List.count true cs + 1 := by simp
        omega
    · have hct : c = true := hhead rfl
      subst hct
      have hc' : bs.count true = cs.count true := by
        have h1 : List.count true (true :: bs) = List.count true bs + 1 := by simp
        have h2 : List.count true (true :: cs) = List.count true cs + 1 := by simp
        omega
      rw [mask_eq bs cs hl' hle' hc']

theorem count_le_countP : ∀ (bs : List Bool) {α : Type} (l : List α) (q : α → Bool),
    bs.length = l.length → (∀ p ∈ bs.zip l, p.1 = true → q p.2 = true) →
    bs.count true ≤ l.countP q
  | [], _, _, _, _, _ => by simp
  | _ :: _, _, [], _, h, _ => by simp at h
  | b :: bs, _, a :: l, q, hl, h => by
    have ih := count_le_countP bs l q (by simpa using hl) (fun p hp => h p (by simp [hp]))
    have hh := h (b, a) (by simp)
    simp only [List.countP_cons]
    cases b
    · simp; omega
    · simp only [List.count_cons_self, hh rfl, if_true]; omega

/-! ### the fold of one mask -/

section
variable (c : SatCfg)

/-- the (dis)satisfaction the satisfier uses for a masked child -/
def slotS (p : Bool × Ms) : Sat := if p.1 then (satDissat c p.2).sat else (satDissat c p.2).dissat

/-- the keys a masked child may contribute signatures for -/
def slotK (p : Bool × Ms) : List Key := if p.1 then keysOf p.2 else []

def foldA (adv : Avail) (sortK : List Key → List Key) : List (Bool × Ms) → List (List Item) → List (List Item)
  | [], B => B
  | p :: rest, B => foldA adv sortK rest (cat (slotA adv sortK p) B)

def foldK : List (Bool × Ms) → List Key → List Key
  | [], K => K
  | p :: rest, K => foldK rest (K ++ slotK p)

theorem mem_foldK : ∀ (slots : List (Bool × Ms)) (K : List Key) (k : Key),
    k ∈ foldK slots K ↔ k ∈ K ∨ ∃ p ∈ slots, k ∈ slotK p
  | [], K, k => by simp [foldK]
  | q :: rest, K, k => by
    simp only [foldK, mem_foldK rest, List.mem_append, List.mem_cons]
    constructor
    · rintro ((h | h) | ⟨p, hp, h⟩)
      · exact .inl h
      · exact .inr ⟨q, .inl rfl, h⟩
      · exact .inr ⟨p, .inr hp, h⟩
    · rintro (h | ⟨p, hp | hp, h⟩)
      · exact .inl (.inl h)
      · subst hp; exact .inl (.inr h)
      · exact .inr ⟨p, hp, h⟩

theorem mem_foldA : ∀ (slots : List (Bool × Ms)) (B : List (List Item)) (t : List Item),
    t ∈ foldA adv sortK slots B ↔ ∃ p ∈ prodA adv sortK slots, ∃ b ∈ B, t = p ++ b
  | [], B, t => by simp [foldA, prodA]
  | q :: rest, B, t => by
    simp only [foldA, mem_foldA rest, prodA]
    constructor
    · rintro ⟨p', hp', b', hb', rfl⟩
      obtain ⟨a, ha, b, hb, rfl⟩ := mem_cat.mp hb'
      exact ⟨p' ++ a, mem_cat.mpr ⟨p', hp', a, ha, rfl⟩, b, hb, by simp⟩
    · rintro ⟨p, hp, b, hb, rfl⟩
      obtain ⟨p', hp', a, ha, rfl⟩ := mem_cat.mp hp
      exact ⟨p', hp', a ++ b, mem_cat.mpr ⟨a, ha, b, hb, rfl⟩, by simp⟩

theorem altInv_addKeys {K K' : List Key} {A : List (List Item)} {s : Sat} (h : AltInv adv K A s)
    (hsub : ∀ k ∈ K, k ∈ K') : AltInv adv K' A s :=
  ⟨h.i1, fun hs hn => h.i2 hs (fun k hk => hn k (hsub k hk)),
   fun w hw hv => h.i3 w hw (fun k hk => hv k (hsub k hk)),
   fun w hw k hk => hsub k (h.kin w hw k hk), h.nos⟩

theorem altInv_foldl {ua ur : Bool} : ∀ (slots : List (Bool × Ms)) (acc : Sat) (Kacc Kfull : List Key)
    (Aacc : List (List Item)),
    AltInv adv Kacc Aacc acc → LockOK ua ur acc → (∀ k ∈ Kacc, k ∈ Kfull) →
    (Kfull ++ (slots.map (fun p => keysOf p.2)).flatten).Nodup →
    (∀ p ∈ slots, AltInv adv (slotK p) (slotA adv sortK p) (slotS c p) ∧ LockOK ua ur (slotS c p)) →
    AltInv adv (foldK slots Kacc) (foldA adv sortK slots Aacc)
      ((slots.map (slotS c)).foldl Sat.concatenateRev acc)
  | [], acc, Kacc, Kfull, Aacc, hacc, _, _, _, _ => by simpa [foldK, foldA] using hacc
  | q :: rest, acc, Kacc, Kfull, Aacc, hacc, lacc, hsub, hnd, hslot => by
    obtain ⟨hq, lq⟩ := hslot q (by simp)
    simp only [List.map_cons, List.flatten_cons] at hnd
    have hdisj : Disj Kacc (slotK q) := by
      intro k h1 h2
      have h2' : k ∈ keysOf q.2 := by
        unfold slotK at h2; split at h2
        · exact h2
        · cases h2
      have := (List.nodup_append.mp hnd).2.2 k (hsub k h1) k (by simp [h2']) rfl
      exact this
    have hstep := altInv_concat hacc hq lacc lq hdisj
    simp only [List.map_cons, List.foldl_cons, foldK, foldA]
    refine altInv_foldl rest _ (Kacc ++ slotK q) (Kfull ++ keysOf q.2) _ hstep (concat_lockOK lacc lq)
      ?_ (by simpa [List.append_assoc] using hnd) (fun p hp => hslot p (by simp [hp]))
    intro k hk
    rcases List.mem_append.mp hk with h | h
    · simp [hsub k h]
    · unfold slotK at h; split at h
      · simp [h]
      · cases h

end

/-! ### the satisfier's own mask -/

theorem zip_index {α β : Type} (l1 : List α) (l2 : List β) (p : α × β) (h : p ∈ l1.zip l2) :
    ∃ i, ∃ (h1 : i < l1.length) (h2 : i < l2.length), p = (l1[i], l2[i]) := by
  obtain ⟨i, hi, hp⟩ := List.mem_iff_getElem.mp h
  have hi' : i < l1.length ∧ i < l2.length := by
    have : i < min l1.length l2.length := by simpa [List.length_zip] using hi
    omega
  exact ⟨i, hi'.1, hi'.2, by rw [← hp, List.getElem_zip]⟩

theorem mem_zip_index {α β : Type} (l1 : List α) (l2 : List β) (i : Nat) (h1 : i < l1.length)
    (h2 : i < l2.length) : (l1[i], l2[i]) ∈ l1.zip l2 := by
  rw [List.mem_iff_getElem]
  exact ⟨i, by simp [List.length_zip]; omega, by rw [List.getElem_zip]⟩

/-- the mask of an index predicate -/
def maskOf (ch : Nat → Bool) (n : Nat) : List Bool := (List.range n).map ch

theorem maskOf_length (ch : Nat → Bool) (n : Nat) : (maskOf ch n).length = n := by simp [maskOf]

theorem maskOf_get (ch : Nat → Bool) (n i : Nat) (h : i < (maskOf ch n).length) :
    (maskOf ch n)[i] = ch i := by simp [maskOf]

section
variable (c : SatCfg)

/-- the selection of `thresh` is the masked child list -/
theorem ret_eq (X : List Ms) (ch : Nat → Bool) :
    ((List.range X.length).map fun i =>
      if ch i then ((X.map (satDissat c)).map (·.sat))[i]! else ((X.map (satDissat c)).map (·.dissat))[i]!)
    = ((maskOf ch X.length).zip X).map (slotS c) := by
  apply List.ext_getElem
  · simp [maskOf]
  · intro i h1 h2
    have hi : i < X.length := by simpa using h1
    simp only [List.getElem_map, List.getElem_range, List.getElem_zip, maskOf, slotS]
    rw [getElem!_pos _ i (by simpa using hi), getElem!_pos _ i (by simpa using hi)]
    simp

end

/-- the chosen indices as a predicate -/
def chosen (k : Nat) (sds : List SatDissat) (i : Nat) : Bool := ((nmIdx sds).take k).contains i

theorem chosen_count (k : Nat) (sds : List SatDissat) (hk : k ≤ sds.length) :
    (maskOf (chosen k sds) sds.length).count true = k := by
  have hlen := nmIdx_length sds
  have h1 : (maskOf (chosen k sds) sds.length).count true = (List.range sds.length).countP (chosen k sds) := by
    simp [maskOf, List.count_eq_countP, List.countP_map, Function.comp_def]
  rw [h1, ← (sortIdx_perm (nmKey sds) sds.length).countP_eq]
  show (nmIdx sds).countP (chosen k sds) = k
  conv => lhs; rw [← List.take_append_drop k (nmIdx sds)]
  rw [List.countP_append]
  have ht : ((nmIdx sds).take k).countP (chosen k sds) = k := by
    rw [List.countP_eq_length.mpr]
    · simp [List.length_take]; omega
    · intro x hx; simpa [chosen] using hx
  have hd : ((nmIdx sds).drop k).countP (chosen k sds) = 0 := by
    rw [List.countP_eq_zero]
    intro x hx
    have := not_take_of_mem_drop (nmKey sds) sds.length k x hx
    simpa [chosen, nmIdx] using this
  omega

/-- the class of possible signature-free satisfactions, as the sort sees it -/
def freeIdx (sds : List SatDissat) (i : Nat) : Bool := !(nmKey sds i).imp && !(nmKey sds i).sig

theorem freeIdx_eq (sds : List SatDissat) (i : Nat) (hi : i < sds.length) :
    freeIdx sds i = freeSat sds[i]! := by
  simp only [freeIdx, nmKey_imp _ _ hi, nmKey_sig _ _ hi, freeSat]
  cases h : decide (sds[i]!.sat.stack = .impossible) <;> simp_all

/-- `thresh` did not answer `Unavailable` ⇒ no unchosen child has a possible signature-free
satisfaction -/
theorem unchosen_not_free (k : Nat) (sds : List SatDissat) (hk : k < sds.length)
    (hcond : (!(nmSw k sds).2[(nmIdx sds)[k]!]!.hasSig
      && decide ((nmSw k sds).2[(nmIdx sds)[k]!]!.stack ≠ .impossible)) = false)
    (i : Nat) (hi : i < sds.length) (hni : chosen k sds i = false) : freeSat sds[i]! = false := by
  have hlen := nmIdx_length sds
  have hkl : k < (nmIdx sds).length := by omega
  have hmemd : (nmIdx sds)[k]! ∈ (nmIdx sds).drop k := getElem!_mem_drop _ _ hkl
  have hlt : (nmIdx sds)[k]! < sds.length := (mem_sortIdx _ _ _).mp (List.mem_of_mem_drop hmemd)
  have hnt : (nmIdx sds)[k]! ∉ (nmIdx sds).take k := not_take_of_mem_drop _ _ _ _ hmemd
  -- the head of the unchosen part is not free
  have hhead : freeSat sds[(nmIdx sds)[k]!]! = false := by
    unfold nmSw at hcond
    rw [swapped_snd_get _ _ _ _ _ (by simpa [dissatsOf] using hlt)] at hcond
    rw [if_neg (by simpa using hnt), satsOf_get _ _ hlt] at hcond
    simp only [freeSat]
    cases h1 : sds[(nmIdx sds)[k]!]!.sat.hasSig <;> simp_all
  -- every unchosen index comes at or after it in the sort order
  have hid : i ∈ (nmIdx sds).drop k := mem_drop_of_not_take _ _ _ _ hi (by
    have : i ∉ (nmIdx sds).take k := by simpa [chosen] using hni
    exact this)
  have hdrop : (nmIdx sds).drop k = (nmIdx sds)[k] :: (nmIdx sds).drop (k + 1) :=
    List.drop_eq_getElem_cons hkl
  have hpre : PrefixP (freeIdx sds) ((nmIdx sds).drop k) :=
    List.Pairwise.sublist (List.drop_sublist k _) (sortIdx_prefix (lowerSet_free sds) sds.length)
  rw [hdrop] at hid hpre
  have hk! : (nmIdx sds)[k]! = (nmIdx sds)[k] := getElem!_pos _ k hkl
  rw [hk!] at hhead hlt
  rcases List.mem_cons.mp hid with rfl | hid
  · exact hhead
  · cases hf : freeSat sds[i]! with
    | false => rfl
    | true =>
      have := (List.pairwise_cons.mp hpre).1 i hid (by rw [freeIdx_eq _ _ hi]; exact hf)
      rw [freeIdx_eq _ _ hlt, hhead] at this; cases this

/-! ### keys of the children -/

theorem keysOfL_eq : (xs : MsList) → keysOfL xs = (xs.toList.map keysOf).flatten
  | .nil => rfl
  | .cons x xs => by simp [keysOfL, MsList.toList, keysOfL_eq xs]

theorem mem_flatten_keys (X : List Ms) (j : Nat) (hj : j < X.length) (k : Key) (hk : k ∈ keysOf X[j]) :
    k ∈ (X.map keysOf).flatten :=
  List.mem_flatten.mpr ⟨keysOf X[j], List.mem_map.mpr ⟨X[j], List.getElem_mem hj, rfl⟩, hk⟩

theorem keys_index_disj : ∀ (X : List Ms), (X.map keysOf).flatten.Nodup →
    ∀ (i j : Nat) (hi : i < X.length) (hj : j < X.length), i ≠ j → ∀ k, k ∈ keysOf X[i] → k ∈ keysOf X[j] → False
  | [], _, i, _, hi, _, _, _, _, _ => by simp at hi
  | x :: X, hnd, i, j, hi, hj, hij, k, h1, h2 => by
    simp only [List.map_cons, List.flatten_cons] at hnd
    have hdis := (List.nodup_append.mp hnd).2.2
    have hnd' := (List.nodup_append.mp hnd).2.1
    cases i with
    | zero =>
      cases j with
      | zero => exact hij rfl
      | succ j =>
        simp only [List.getElem_cons_zero] at h1
        simp only [List.getElem_cons_succ] at h2
        exact hdis k h1 k (mem_flatten_keys X j (by simpa using hj) k h2) rfl
    | succ i =>
      cases j with
      | zero =>
        simp only [List.getElem_cons_zero] at h2
        simp only [List.getElem_cons_succ] at h1
        exact hdis k h2 k (mem_flatten_keys X i (by simpa using hi) k h1) rfl
      | succ j =>
        simp only [List.getElem_cons_succ] at h1 h2
        exact keys_index_disj X hnd' i j (by simpa using hi) (by simpa using hj) (by omega) k h1 h2

theorem zip_map_keys (bs : List Bool) (X : List Ms) (h : bs.length = X.length) :
    (bs.zip X).map (fun p => keysOf p.2) = X.map keysOf := by
  have : (bs.zip X).map (fun p => keysOf p.2) = ((bs.zip X).map Prod.snd).map keysOf := by
    rw [List.map_map]; rfl
  rw [this, List.map_snd_zip (by omega)]

section
variable (c : SatCfg)

theorem constMask_sat (X : List Ms) :
    (X.map (satDissat c)).map (·.sat) = ((maskOf (fun _ => true) X.length).zip X).map (slotS c) := by
  apply List.ext_getElem
  · simp [maskOf]
  · intro i h1 h2
    simp [maskOf, slotS]

theorem constMask_dissat (X : List Ms) :
    (X.map (satDissat c)).map (·.dissat) = ((maskOf (fun _ => false) X.length).zip X).map (slotS c) := by
  apply List.ext_getElem
  · simp [maskOf]
  · intro i h1 h2
    simp [maskOf, slotS]

end

/-! ### the threshold node -/

section
variable (c : SatCfg) {ua ur : Bool}

theorem altInv_empty : AltInv adv [] [[]] Sat.empty := by
  have := altInv_lit (adv := adv) [] [] (fun k h => by simp [items] at h) none none
  simpa [Sat.empty, items] using this

/-- the fold of any mask of the children -/
theorem mask_fold (X : List Ms) (ty : Ms → Mall) (bs : List Bool) (hl : bs.length = X.length)
    (h : ∀ x ∈ X, UInv adv sortK x (ty x) (satDissat c x))
    (hn : ∀ x ∈ X, NMInv ua ur (availOf c.assets c.ctx) x (ty x) (satDissat c x))
    (hallU : ∀ x ∈ X, (ty x).dissat = .unique)
    (hnd : (X.map keysOf).flatten.Nodup) :
    AltInv adv (foldK (bs.zip X) []) (foldA adv sortK (bs.zip X) [[]])
      (foldConcat ((bs.zip X).map (slotS c))) := by
  unfold foldConcat
  refine altInv_foldl (sortK := sortK) (ua := ua) (ur := ur) c (bs.zip X) Sat.empty [] [] [[]] altInv_empty
    (lockOK_empty ua ur) (fun k hk => by cases hk) ?_ ?_
  · rw [zip_map_keys bs X hl]; simpa using hnd
  · intro p hp
    have hx : p.2 ∈ X := (List.of_mem_zip hp).2
    unfold slotK slotA slotS
    cases hb : p.1 with
    | true => simp only [if_true]; exact ⟨(h p.2 hx).sat, (hn p.2 hx).lockS⟩
    | false =>
      simp only [Bool.false_eq_true, if_false]
      exact ⟨(h p.2 hx).du (hallU p.2 hx), (hn p.2 hx).lockD⟩

/-- a table entry of the mask lies in the fold's table -/
theorem prodA_foldA (slots : List (Bool × Ms)) (t : List Item) (ht : t ∈ prodA adv sortK slots) :
    t ∈ foldA adv sortK slots [[]] :=
  (mem_foldA slots [[]] t).mpr ⟨t, ht, [], by simp, by simp⟩

theorem foldK_sub (X : List Ms) (bs : List Bool) (k : Key) (hk : k ∈ foldK (bs.zip X) []) :
    ∃ i, ∃ (h1 : i < bs.length) (h2 : i < X.length), bs[i] = true ∧ k ∈ keysOf X[i] := by
  rcases (mem_foldK _ _ _).mp hk with h | ⟨p, hp, h⟩
  · cases h
  · obtain ⟨i, h1, h2, rfl⟩ := zip_index _ _ _ hp
    unfold slotK at h
    simp only at h
    split at h
    · rename_i hb; exact ⟨i, h1, h2, hb, h⟩
    · cases h

end

/-! ### what the result of `thresh` tells about the children -/

section
variable {ua ur : Bool}

/-- enough possible satisfactions ⇒ the non-malleable threshold is not `Impossible` -/
theorem threshNonMall_ne_imp (k : Nat) (sds : List SatDissat) (hk1 : 1 ≤ k) (hk : k < sds.length)
    (hlock : ∀ sd ∈ sds, LockOK ua ur sd.sat ∧ LockOK ua ur sd.dissat)
    (hnu : ∀ sd ∈ sds, sd.sat.stack ≠ .unavailable)
    (hds : ∀ sd ∈ sds, isStk sd.dissat.stack = true)
    (hposs : k ≤ sds.countP (fun sd => decide (sd.sat.stack ≠ .impossible))) :
    (threshNonMall k (sds.map (·.dissat)) (sds.map (·.sat))).stack ≠ .impossible := by
  have hlen := nmIdx_length sds
  rw [threshNonMall_eq]
  have h1 : (nmSw k sds).2[(nmIdx sds)[k - 1]!]!.stack ≠ .impossible := by
    have hmt : (nmIdx sds)[k - 1]! ∈ (nmIdx sds).take k := getElem!_mem_take _ _ hk1 (by omega)
    have hlt : (nmIdx sds)[k - 1]! < sds.length :=
      (mem_sortIdx _ _ _).mp (List.mem_of_mem_take hmt)
    unfold nmSw
    rw [swapped_snd_get _ _ _ _ _ (by simpa [dissatsOf] using hlt)]
    rw [if_pos (by simpa using hmt), dissatsOf_get _ _ hlt]
    exact isStk_ne_imp (hds _ (mem_sds_get sds _ hlt))
  rw [if_neg h1]
  split
  · simp [Sat.UNAVAILABLE]
  · apply isStk_ne_imp
    rw [foldConcat_isStk _ (nmSw_lockOK k sds hlock), List.all_eq_true]
    intro s hs
    obtain ⟨i, hi, h⟩ := nmSw_mem _ _ _ hs
    have hmem := mem_sds_get sds i hi
    rcases h with ⟨hin, rfl⟩ | ⟨_, rfl⟩
    · have hcnt : k ≤ (List.range sds.length).countP (fun i => !(nmKey sds i).imp) := by
        refine Nat.le_trans hposs (Nat.le_of_eq ?_)
        rw [← countP_range_getElem! sds (fun sd => decide (sd.sat.stack ≠ .impossible))]
        apply List.countP_congr
        intro j hj
        have hj := List.mem_range.mp hj
        rw [nmKey_imp _ _ hj]
        simp
      have hP := sortIdx_take_mem (lowerSet_possible sds) sds.length k hcnt i hin
      simp only [nmKey_imp _ _ hi] at hP
      exact isStk_of_ne (by simpa using hP) (hnu _ hmem)
    · exact hds _ hmem

/-- enough possible signature-free satisfactions ⇒ the result carries no `has_sig` flag -/
theorem threshNonMall_unflagged (k : Nat) (sds : List SatDissat) (hk : k < sds.length)
    (hlock : ∀ sd ∈ sds, LockOK ua ur sd.sat ∧ LockOK ua ur sd.dissat)
    (hdn : ∀ sd ∈ sds, sd.dissat.hasSig = false)
    (hfree : k ≤ sds.countP freeSat) :
    (threshNonMall k (sds.map (·.dissat)) (sds.map (·.sat))).hasSig = false := by
  rw [threshNonMall_eq]
  split
  · rfl
  · split
    · rfl
    · unfold foldConcat
      refine foldl_concat_hasSig_false _ _ (lockOK_empty ua ur) (nmSw_lockOK k sds hlock) rfl ?_
      intro s hs
      obtain ⟨i, hi, h⟩ := nmSw_mem _ _ _ hs
      have hmem := mem_sds_get sds i hi
      rcases h with ⟨hin, rfl⟩ | ⟨_, rfl⟩
      · have hcnt : k ≤ (List.range sds.length).countP (freeIdx sds) := by
          refine Nat.le_trans hfree (Nat.le_of_eq ?_)
          rw [← countP_range_getElem! sds freeSat]
          apply List.countP_congr
          intro j hj
          rw [freeIdx_eq _ _ (List.mem_range.mp hj)]
        have hP := sortIdx_take_mem (lowerSet_free sds) sds.length k hcnt i hin
        have : freeSat sds[i]! = true := by rw [← freeIdx_eq _ _ hi]; exact hP
        simp only [freeSat, Bool.and_eq_true, Bool.not_eq_true'] at this
        exact this.2
      · exact hdn _ hmem

end

/-! ### the theorem for the threshold node -/

section
variable (c : SatCfg)

theorem maskOf_const_mem (b : Bool) (n : Nat) : ∀ x ∈ maskOf (fun _ => b) n, x = b := by
  intro x hx
  simp only [maskOf, List.mem_map] at hx
  obtain ⟨_, _, rfl⟩ := hx; rfl

theorem maskOf_true_count (n : Nat) : (maskOf (fun _ => true) n).count true = n := by
  have : maskOf (fun _ => true) n = List.replicate n true := by
    apply List.ext_getElem <;> simp [maskOf]
  rw [this]; simp

theorem maskOf_false_count (n : Nat) : (maskOf (fun _ => false) n).count true = 0 := by
  rw [List.count_eq_zero]
  intro h; have := maskOf_const_mem false n true h; cases this

theorem thresh_uinv (hm : c.mall = false) (k : Nat) (xs : MsList) (ty : Ms → Mall) (M : Mall)
    (ua ur : Bool)
    (h : ∀ x ∈ xs.toList, UInv adv sortK x (ty x) (satDissat c x))
    (hn : ∀ x ∈ xs.toList, NMInv ua ur (availOf c.assets c.ctx) x (ty x) (satDissat c x))
    (hallU : ∀ x ∈ xs.toList, (ty x).dissat = .unique)
    (hk1 : 1 ≤ k) (hkn : k ≤ xs.toList.length) (hnd : (keysOfL xs).Nodup) (hMd : M.dissat ≠ .none) :
    UInv adv sortK (.thresh k xs) M
      ⟨foldConcat ((xs.toList.map (satDissat c)).map (·.dissat)),
       if k = (xs.toList.map (satDissat c)).length then foldConcat ((xs.toList.map (satDissat c)).map (·.sat))
       else threshNonMall k ((xs.toList.map (satDissat c)).map (·.dissat)) ((xs.toList.map (satDissat c)).map (·.sat))⟩ := by
  have hndX : (xs.toList.map keysOf).flatten.Nodup := by rw [← keysOfL_eq]; exact hnd
  have hlenS : (xs.toList.map (satDissat c)).length = xs.toList.length := List.length_map _
  -- facts about the children as list elements
  have hlock : ∀ sd ∈ xs.toList.map (satDissat c), LockOK ua ur sd.sat ∧ LockOK ua ur sd.dissat := by
    intro sd hsd; obtain ⟨x, hx, rfl⟩ := List.mem_map.mp hsd; exact ⟨(hn x hx).lockS, (hn x hx).lockD⟩
  have hnu : ∀ sd ∈ xs.toList.map (satDissat c), sd.sat.stack ≠ .unavailable := by
    intro sd hsd; obtain ⟨x, hx, rfl⟩ := List.mem_map.mp hsd; exact (hn x hx).nu
  have hds : ∀ sd ∈ xs.toList.map (satDissat c), isStk sd.dissat.stack = true := by
    intro sd hsd; obtain ⟨x, hx, rfl⟩ := List.mem_map.mp hsd; exact ((hn x hx).du (hallU x hx)).1
  have hdn : ∀ sd ∈ xs.toList.map (satDissat c), sd.dissat.hasSig = false := by
    intro sd hsd; obtain ⟨x, hx, rfl⟩ := List.mem_map.mp hsd; exact ((hn x hx).du (hallU x hx)).2
  have hkeysL : ∀ (i : Nat) (hi : i < xs.toList.length), ∀ k' ∈ keysOf xs.toList[i], k' ∈ keysOfL xs := by
    intro i hi k' hk'; rw [keysOfL_eq]; exact mem_flatten_keys _ i hi k' hk'
  -- a table entry comes from a mask whose selected children have table satisfactions
  have hmask : ∀ need t, t ∈ threshAll adv sortK need xs →
      ∃ bs : List Bool, bs.length = xs.toList.length ∧ bs.count true = need ∧
        t ∈ prodA adv sortK (bs.zip xs.toList) ∧
        ∀ p ∈ bs.zip xs.toList, p.1 = true → allSat adv sortK p.2 ≠ [] := by
    intro need t ht
    obtain ⟨bs, hl, hc, hp⟩ := threshAll_mask xs need t ht
    refine ⟨bs, hl, hc, hp, fun p hpm hp1 => ?_⟩
    have := prodA_factor _ t hp p hpm
    simpa [slotA, hp1] using this
  have emodel : (satDissat c (.thresh k xs)).sat =
      (if k = (xs.toList.map (satDissat c)).length then foldConcat ((xs.toList.map (satDissat c)).map (·.sat))
       else threshNonMall k ((xs.toList.map (satDissat c)).map (·.dissat)) ((xs.toList.map (satDissat c)).map (·.sat))) := by
    simp only [satDissat, hm, satDissats_eq_map, Bool.false_eq_true, if_false]
  refine ⟨?_, fun _ => ?_, fun h0 => absurd h0 hMd⟩
  · -- the satisfaction
    rw [← emodel]
    show AltInv adv (keysOf (.thresh k xs)) (allSat adv sortK (.thresh k xs)) (satDissat c (.thresh k xs)).sat
    apply altInv_sat c hm
    · -- impossible ⇒ no table entry
      intro hi
      apply eq_nil_of_forall_not_mem
      intro t ht
      simp only [allSat] at ht
      obtain ⟨bs, hl, hc, _, hsel⟩ := hmask k t ht
      have hposs : k ≤ (xs.toList.map (satDissat c)).countP (fun sd => decide (sd.sat.stack ≠ .impossible)) := by
        have := count_le_countP bs xs.toList (fun x => decide ((satDissat c x).sat.stack ≠ .impossible)) hl
          (fun p hp hp1 => by
            have hx : p.2 ∈ xs.toList := (List.of_mem_zip hp).2
            have hne := hsel p hp hp1
            simp only [decide_eq_true_eq]
            intro himp; exact hne ((h p.2 hx).sat.i1 himp))
        rw [hc] at this
        simpa [List.countP_map, Function.comp_def] using this
      rw [emodel] at hi
      by_cases hkeq : k = (xs.toList.map (satDissat c)).length
      · rw [if_pos hkeq] at hi
        have hall : ∀ sd ∈ xs.toList.map (satDissat c), decide (sd.sat.stack ≠ .impossible) = true := by
          apply List.countP_eq_length.mp
          have := @List.countP_le_length _ (fun sd : SatDissat => decide (sd.sat.stack ≠ .impossible))
            (xs.toList.map (satDissat c))
          omega
        have : isStk (foldConcat ((xs.toList.map (satDissat c)).map (·.sat))).stack = true := by
          rw [foldConcat_isStk (ua := ua) (ur := ur) _ (fun s hs => by
            obtain ⟨sd, hsd, rfl⟩ := List.mem_map.mp hs; exact (hlock sd hsd).1), List.all_eq_true]
          intro s hs
          obtain ⟨sd, hsd, rfl⟩ := List.mem_map.mp hs
          exact isStk_of_ne (by simpa using hall sd hsd) (hnu sd hsd)
        rw [hi] at this; cases this
      · rw [if_neg hkeq] at hi
        exact threshNonMall_ne_imp (ua := ua) (ur := ur) k _ hk1 (by omega) hlock hnu hds hposs hi
    · -- flagged, adversary without signatures ⇒ no table entry
      intro hs hno
      apply eq_nil_of_forall_not_mem
      intro t ht
      simp only [allSat] at ht
      obtain ⟨bs, hl, hc, _, hsel⟩ := hmask k t ht
      have hfree : k ≤ (xs.toList.map (satDissat c)).countP freeSat := by
        have := count_le_countP bs xs.toList (fun x => freeSat (satDissat c x)) hl
          (fun p hp hp1 => by
            have hx : p.2 ∈ xs.toList := (List.of_mem_zip hp).2
            have hne := hsel p hp hp1
            have hnox : ∀ k' ∈ keysOf p.2, adv.sig k' = false :=
              fun k' hk' => hno k' (keysOfL_mem xs hx k' hk')
            simp only [freeSat, Bool.and_eq_true, decide_eq_true_eq, Bool.not_eq_true']
            refine ⟨fun himp => hne ((h p.2 hx).sat.i1 himp), ?_⟩
            cases hf : (satDissat c p.2).sat.hasSig with
            | false => rfl
            | true => exact absurd ((h p.2 hx).sat.i2 hf hnox) hne)
        rw [hc] at this
        simpa [List.countP_map, Function.comp_def] using this
      rw [emodel] at hs
      by_cases hkeq : k = (xs.toList.map (satDissat c)).length
      · rw [if_pos hkeq] at hs
        have hall : ∀ sd ∈ xs.toList.map (satDissat c), freeSat sd = true := by
          apply List.countP_eq_length.mp
          have := @List.countP_le_length _ freeSat (xs.toList.map (satDissat c))
          omega
        have : (foldConcat ((xs.toList.map (satDissat c)).map (·.sat))).hasSig = false := by
          unfold foldConcat
          refine foldl_concat_hasSig_false (ua := ua) (ur := ur) _ _ (lockOK_empty ua ur) (fun s hs' => by
            obtain ⟨sd, hsd, rfl⟩ := List.mem_map.mp hs'; exact (hlock sd hsd).1) rfl ?_
          intro s hs'
          obtain ⟨sd, hsd, rfl⟩ := List.mem_map.mp hs'
          have := hall sd hsd
          simp only [freeSat, Bool.and_eq_true, Bool.not_eq_true'] at this
          exact this.2
        rw [this] at hs; cases hs
      · rw [if_neg hkeq] at hs
        rw [threshNonMall_unflagged (ua := ua) (ur := ur) k _ (by omega) hlock hdn hfree] at hs
        cases hs
    · -- the returned stack is the only table entry
      intro w hw hv t ht
      simp only [allSat] at ht
      simp only [keysOf] at hv
      obtain ⟨bs, hl, hc, hp, hsel⟩ := hmask k t ht
      rw [emodel] at hw
      by_cases hkeq : k = (xs.toList.map (satDissat c)).length
      · rw [if_pos hkeq, constMask_sat] at hw
        have F := mask_fold (adv := adv) (sortK := sortK) (ua := ua) (ur := ur) c xs.toList ty
          (maskOf (fun _ => true) xs.toList.length) (maskOf_length _ _) h hn hallU hndX
        have hbs : bs = maskOf (fun _ => true) xs.toList.length :=
          mask_eq bs _ (by rw [hl, maskOf_length])
            (fun p hp _ => maskOf_const_mem true _ p.2 (List.of_mem_zip hp).2)
            (by rw [hc, maskOf_true_count]; omega)
        rw [hbs] at hp
        refine F.i3 w hw (fun k' hk' hs' => ?_) t (prodA_foldA _ t hp)
        obtain ⟨i, _, h2, _, hki⟩ := foldK_sub _ _ k' hk'
        exact hv k' (hkeysL i h2 k' hki) hs'
      · rw [if_neg hkeq, threshNonMall_eq] at hw
        have hklt : k < (xs.toList.map (satDissat c)).length := by omega
        split at hw
        · cases hw
        · rename_i hA
          split at hw
          · cases hw
          · rename_i hB
            have hcond : (!(nmSw k (xs.toList.map (satDissat c))).2[(nmIdx (xs.toList.map (satDissat c)))[k]!]!.hasSig
                && decide ((nmSw k (xs.toList.map (satDissat c))).2[(nmIdx (xs.toList.map (satDissat c)))[k]!]!.stack ≠ .impossible)) = false := by
              cases hb : (!(nmSw k (xs.toList.map (satDissat c))).2[(nmIdx (xs.toList.map (satDissat c)))[k]!]!.hasSig
                && decide ((nmSw k (xs.toList.map (satDissat c))).2[(nmIdx (xs.toList.map (satDissat c)))[k]!]!.stack ≠ .impossible)) with
              | false => rfl
              | true => exact absurd hb hB
            -- the selection is the masked child list
            have hsel1 : (nmSw k (xs.toList.map (satDissat c))).1 =
                ((maskOf (chosen k (xs.toList.map (satDissat c))) xs.toList.length).zip xs.toList).map (slotS c) := by
              unfold nmSw
              rw [swapped_fst]
              simp only [dissatsOf, satsOf, List.length_map]
              exact ret_eq c xs.toList (chosen k (xs.toList.map (satDissat c)))
            rw [hsel1] at hw
            have F := mask_fold (adv := adv) (sortK := sortK) (ua := ua) (ur := ur) c xs.toList ty
              (maskOf (chosen k (xs.toList.map (satDissat c))) xs.toList.length) (maskOf_length _ _) h hn hallU hndX
            have hvF : ∀ k' ∈ foldK ((maskOf (chosen k (xs.toList.map (satDissat c))) xs.toList.length).zip xs.toList) [],
                adv.sig k' = true → Item.sig k' ∈ items w := by
              intro k' hk' hs'
              obtain ⟨i, _, h2, _, hki⟩ := foldK_sub _ _ k' hk'
              exact hv k' (hkeysL i h2 k' hki) hs'
            have hbs : bs = maskOf (chosen k (xs.toList.map (satDissat c))) xs.toList.length := by
              refine mask_eq bs _ (by rw [hl, maskOf_length]) ?_
                (by rw [hc, ← hlenS, chosen_count k _ (by omega)])
              intro p hpz hp1
              obtain ⟨i, h1, h2, rfl⟩ := zip_index _ _ _ hpz
              rw [maskOf_get]
              have hiX : i < xs.toList.length := by rw [← hl]; exact h1
              cases hch : chosen k (xs.toList.map (satDissat c)) i with
              | true => rfl
              | false =>
                exfalso
                -- child `i` is selected by the table entry but not by the satisfier
                have hmemz : (bs[i], xs.toList[i]) ∈ bs.zip xs.toList := mem_zip_index _ _ i h1 hiX
                have hne := hsel _ hmemz hp1
                have hx : xs.toList[i] ∈ xs.toList := List.getElem_mem hiX
                have hnox : ∀ k' ∈ keysOf xs.toList[i], adv.sig k' = false := by
                  intro k' hk'
                  cases hsg : adv.sig k' with
                  | false => rfl
                  | true =>
                    exfalso
                    have hin := F.kin w hw k' (hv k' (hkeysL i hiX k' hk') hsg)
                    obtain ⟨j, hj1, hj2, hjb, hkj⟩ := foldK_sub _ _ k' hin
                    rw [maskOf_get] at hjb
                    have hij : i ≠ j := by
                      intro e; subst e; rw [hch] at hjb; cases hjb
                    exact keys_index_disj xs.toList hndX i j hiX hj2 hij k' hk' hkj
                have hfree : freeSat (satDissat c xs.toList[i]) = true := by
                  simp only [freeSat, Bool.and_eq_true, decide_eq_true_eq, Bool.not_eq_true']
                  refine ⟨fun himp => hne ((h _ hx).sat.i1 himp), ?_⟩
                  cases hf : (satDissat c xs.toList[i]).sat.hasSig with
                  | false => rfl
                  | true => exact absurd ((h _ hx).sat.i2 hf hnox) hne
                have hnf := unchosen_not_free k (xs.toList.map (satDissat c)) hklt hcond i (by rw [hlenS]; exact hiX) hch
                rw [getElem!_pos _ i (by rw [hlenS]; exact hiX), List.getElem_map] at hnf
                rw [hfree] at hnf; cases hnf
            rw [hbs] at hp
            exact F.i3 w hw hvF t (prodA_foldA _ t hp)
  · -- the dissatisfaction
    simp only [allDsat]
    have F := mask_fold (adv := adv) (sortK := sortK) (ua := ua) (ur := ur) c xs.toList ty
      (maskOf (fun _ => false) xs.toList.length) (maskOf_length _ _) h hn hallU hndX
    rw [← constMask_dissat] at F
    refine F.congr (fun k' => ⟨fun hk' => ?_, fun hk' => by cases hk'⟩) (fun t ht => ?_) (fun h0 => ?_)
    · obtain ⟨i, h1, _, hb, _⟩ := foldK_sub _ _ k' hk'
      have := maskOf_const_mem false _ _ (List.getElem_mem h1)
      rw [this] at hb; cases hb
    · obtain ⟨bs, hl, hc, hp, _⟩ := hmask 0 t ht
      have hbs : bs = maskOf (fun _ => false) xs.toList.length :=
        mask_eq bs _ (by rw [hl, maskOf_length])
          (fun p hp hp1 => by
            exfalso
            have : true ∈ bs := by rw [← hp1]; exact (List.of_mem_zip hp).1
            exact (List.count_eq_zero.mp hc) this)
          (by rw [hc, maskOf_false_count])
      rw [hbs] at hp
      exact prodA_foldA _ t hp
    · apply eq_nil_of_forall_not_mem
      intro t ht
      obtain ⟨bs, hl, hc, hp, _⟩ := hmask 0 t ht
      have hbs : bs = maskOf (fun _ => false) xs.toList.length :=
        mask_eq bs _ (by rw [hl, maskOf_length])
          (fun p hp hp1 => by
            exfalso
            have : true ∈ bs := by rw [← hp1]; exact (List.of_mem_zip hp).1
            exact (List.count_eq_zero.mp hc) this)
          (by rw [hc, maskOf_false_count])
      rw [hbs] at hp
      have := prodA_foldA _ t hp
      rw [h0] at this; cases this

end

end MsVerif.Uniq

/-
The decoder normal form keeps the ENCODING (not only the token list): `encode (norm ms) = encode ms`
— `push_verify` only looks at the last opcode, so it commutes with floating `and_v` operands out.
-/
import MsVerif.Lemmas.TokensNorm
import MsVerif.Lemmas.LexEncode

namespace MsVerif
namespace NormL
open Script LexL

variable (env : KeyEnv) (ctx : Ctx)

theorem pushVerify_append (a b : List Op) (hb : b ≠ []) : pushVerify (a ++ b) = a ++ pushVerify b := by
  have h1 : (a ++ b).getLast? = b.getLast? := by
    cases hg : b.getLast? with
    | none => exact absurd (by simpa using hg) hb
    | some x => simp [List.getLast?_append, hg]
  have h2 : (a ++ b).dropLast = a ++ b.dropLast := List.dropLast_append_of_ne_nil hb
  unfold pushVerify
  rw [h1, h2]
  split <;> simp [List.append_assoc]

theorem encode_foldl_andV (rs : List Ms) : ∀ a : Ms,
    encode env ctx (rs.foldl Ms.andV a) = encode env ctx a ++ rs.flatMap (encode env ctx) := by
  induction rs with
  | nil => intro a; simp
  | cons r rs ih => intro a; simp [ih, encode]

theorem encode_mkAndV (ps : List Ms) (l : Ms) :
    encode env ctx (mkAndV ps l) = ps.flatMap (encode env ctx) ++ encode env ctx l := by
  cases ps with
  | nil => simp [mkAndV]
  | cons p ps => simp [mkAndV, encode_foldl_andV, encode]

mutual
theorem encode_normSeq : (ms : Ms) →
    (normSeq ms).1.flatMap (encode env ctx) ++ encode env ctx (normSeq ms).2 = encode env ctx ms
  | .andV l r => by
    have hl := encode_normSeq l
    have hr := encode_normSeq r
    simp only [normSeq, encode, List.flatMap_append, List.flatMap_cons, List.flatMap_nil,
      List.append_nil, List.append_assoc]
    rw [← hl, ← hr]; simp
  | .check x => by
    have h := encode_normSeq x
    simp only [normSeq, encode]; rw [← h]; simp
  | .verify x => by
    have h := encode_normSeq x
    simp only [normSeq, encode]
    rw [← h, pushVerify_append _ _ (encode_ne_nil env ctx _)]
  | .zeroNotEqual x => by
    have h := encode_normSeq x
    simp only [normSeq, encode]; rw [← h]; simp
  | .andB l r => by
    have hl := encode_normSeq l
    have hr := encode_normSeq r
    simp only [normSeq, encode, encode_mkAndV]; rw [hr, ← hl]; simp
  | .orB l r => by
    have hl := encode_normSeq l
    have hr := encode_normSeq r
    simp only [normSeq, encode, encode_mkAndV]; rw [hr, ← hl]; simp
  | .orD l r => by
    have hl := encode_normSeq l
    have hr := encode_normSeq r
    simp only [normSeq, encode, encode_mkAndV]; rw [hr, ← hl]; simp
  | .orC l r => by
    have hl := encode_normSeq l
    have hr := encode_normSeq r
    simp only [normSeq, encode, encode_mkAndV]; rw [hr, ← hl]; simp
  | .andOr a b c => by
    have ha := encode_normSeq a
    have hb := encode_normSeq b
    have hc := encode_normSeq c
    simp only [normSeq, encode, encode_mkAndV]; rw [hb, hc, ← ha]; simp
  | .thresh k .nil => by simp [normSeq]
  | .thresh k (.cons x xs) => by
    have hx := encode_normSeq x
    have hxs := encode_normList false xs
    simp only [normSeq, encode, encodeThresh, hxs]; rw [← hx]; simp
  | .alt x => by
    have h := encode_normSeq x
    simp only [normSeq, encode, encode_mkAndV, h]; simp
  | .swap x => by
    have h := encode_normSeq x
    simp only [normSeq, encode, encode_mkAndV, h]; simp
  | .dupIf x => by
    have h := encode_normSeq x
    simp only [normSeq, encode, encode_mkAndV, h]; simp
  | .nonZero x => by
    have h := encode_normSeq x
    simp only [normSeq, encode, encode_mkAndV, h]; simp
  | .orI l r => by
    have hl := encode_normSeq l
    have hr := encode_normSeq r
    simp only [normSeq, encode, encode_mkAndV, hl, hr]; simp
  | .tru | .fls | .pkK _ | .pkH _ | .rawPkH _ | .after _ | .older _ | .hash _ _
  | .multi _ _ | .sortedMulti _ _ | .multiA _ _ | .sortedMultiA _ _ => by simp [normSeq]
theorem encode_normList (first : Bool) : (xs : MsList) →
    encodeThresh env ctx first (normList xs) = encodeThresh env ctx first xs
  | .nil => by simp [normList]
  | .cons x xs => by
    have hx := encode_normSeq x
    have hxs := encode_normList false xs
    simp only [normList, encodeThresh, encode_mkAndV, hx, hxs]
end

/-- the normal form has the same encoding, opcode for opcode -/
theorem encode_norm (ms : Ms) : encode env ctx (norm ms) = encode env ctx ms := by
  simp only [norm, encode_mkAndV]; exact encode_normSeq env ctx ms

end NormL
end MsVerif

/-
C06 helper lemmas, part 4: exact stack consumption (limits off).

`Cons f i o`: on ANY stack with at least `i` elements `f` does not run out of stack, and when it
succeeds it has replaced the top `i` elements by `o` elements and left everything below
untouched.  Primitive steps have fixed `(i, o)`; sequencing adds them up (`cons_bind`);
conditionals are handled pointwise (`Res`).  Core Lean only.
-/
import MsVerif.Lemmas.TypeSoundFrame

namespace MsVerif.TypeSound
open MsVerif MsVerif.Script

/-- outcome `r` of a run whose stack was `… ++ rest`: no underflow, and on success `o` elements
on top of the untouched `rest` -/
def Res (r : Except Err Core) (rest : List Bytes) (o : Nat) : Prop :=
  NoUF r ∧ ∀ c', r = .ok c' → ∃ out, out.length = o ∧ c'.stack = out ++ rest

/-- "consumes `i`, produces `o`, never looks further down" -/
def Cons (f : Core → Except Err Core) (i o : Nat) : Prop :=
  ∀ (pre rest : List Bytes) (alt : List Bytes) (ops : Nat), pre.length = i →
    Res (f ⟨pre ++ rest, alt, ops⟩) rest o

/-- (consumed, produced) of the opcodes that have a fixed stack effect -/
def arity : Opc → Option (Nat × Nat)
  | .dup => some (1, 2) | .size => some (1, 2) | .swap => some (2, 2) | .drop => some (1, 0)
  | .verify => some (1, 0) | .zeronotequal => some (1, 1)
  | .equal => some (2, 1) | .equalverify => some (2, 0) | .numequal => some (2, 1) | .numequalverify => some (2, 0)
  | .add => some (2, 1) | .booland => some (2, 1) | .boolor => some (2, 1)
  | .sha256 => some (1, 1) | .hash256 => some (1, 1) | .ripemd160 => some (1, 1) | .hash160 => some (1, 1)
  | .checksig => some (2, 1) | .checksigverify => some (2, 0)
  | .cltv => some (1, 1) | .csv => some (1, 1)
  | _ => none

theorem len1 {l : List Bytes} (h : l.length = 1) : ∃ a, l = [a] := by
  match l, h with
  | [a], _ => exact ⟨a, rfl⟩
theorem len2 {l : List Bytes} (h : l.length = 2) : ∃ a b, l = [a, b] := by
  match l, h with
  | [a, b], _ => exact ⟨a, b, rfl⟩

theorem num4_err {env : Env} {a : Bytes} {e : Err} (h : num4 env a = .error e) : e = .scriptNum := by
  unfold num4 at h
  split at h
  · cases h
  · cases h; rfl

theorem checkSig_err {env : Env} {sg pk : Bytes} {e : Err} (h : checkSig env sg pk = .error e) :
    e = .pubkeyType ∨ e = .nullFail := by
  unfold checkSig at h
  split at h
  · cases h; exact Or.inl rfl
  · split at h
    · cases h
    · split at h
      · cases h
      · split at h
        · cases h; exact Or.inr rfl
        · cases h

set_option linter.unusedSimpArgs false in
theorem cons_execOpc {env : Env} (hlim : env.flags.stackLimits = false) {o : Opc} {i n : Nat}
    (h : arity o = some (i, n)) : Cons (execOpc env o) i n := by
  intro pre rest alt ops hlen
  cases o <;> simp only [arity, Option.some.injEq, Prod.mk.injEq, reduceCtorEq] at h <;> obtain ⟨rfl, rfl⟩ := h
  all_goals first
    | (obtain ⟨a, rfl⟩ := len1 hlen)
    | (obtain ⟨a, b, rfl⟩ := len2 hlen)
  all_goals simp only [Res, List.cons_append, List.nil_append, execOpc, pushElem_nolim hlim]
  all_goals (try simp only [bind, Except.bind])
  all_goals (repeat' split)
  all_goals (
    refine ⟨?_, ?_⟩
    · first
      | exact NoUF_ok _
      | (have := num4_err ‹_›; subst this; exact NoUF_error (by simp) (by simp))
      | (rcases checkSig_err ‹_› with rfl | rfl <;> exact NoUF_error (by simp) (by simp))
      | exact NoUF_error (by simp) (by simp)
    · intro c' hc
      first
      | (cases hc; first | exact ⟨[], rfl, rfl⟩ | exact ⟨[_], rfl, rfl⟩ | exact ⟨[_, _], rfl, rfl⟩)
      | cases hc)

theorem NoUF_bind_intro {α β} {x : Except Err α} {f : α → Except Err β}
    (h1 : NoUF x) (h2 : ∀ a, x = .ok a → NoUF (f a)) : NoUF (x >>= f) := by
  cases x with
  | error e => exact ⟨fun h => h1.1 (by cases h; rfl), fun h => h1.2 (by cases h; rfl)⟩
  | ok a => exact h2 a rfl

/-- pointwise sequencing -/
theorem res_bind {x : Except Err Core} {g : Core → Except Err Core} {rest rest' : List Bytes} {o o' : Nat}
    (hx : Res x rest o)
    (hg : ∀ c1 out, x = .ok c1 → out.length = o → c1.stack = out ++ rest → Res (g c1) rest' o') :
    Res (x >>= g) rest' o' := by
  refine ⟨NoUF_bind_intro hx.1 ?_, ?_⟩
  · intro c1 h1
    obtain ⟨out, ho, hs⟩ := hx.2 c1 h1
    exact (hg c1 out h1 ho hs).1
  · intro c' h
    obtain ⟨c1, h1, h2⟩ := bind_ok h
    obtain ⟨out, ho, hs⟩ := hx.2 c1 h1
    exact (hg c1 out h1 ho hs).2 c' h2

theorem Cons.cast {f : Core → Except Err Core} {i o i' o' : Nat} (h : Cons f i o) (hi : i = i') (ho : o = o') :
    Cons f i' o' := by subst hi; subst ho; exact h

theorem cons_congr {f g : Core → Except Err Core} {i o : Nat} (h : ∀ c, f c = g c) (hg : Cons g i o) :
    Cons f i o := by
  intro pre rest alt ops hl
  rw [h]; exact hg pre rest alt ops hl

/-- apply a `Cons` fact to a core whose stack is known to be `pre ++ rest` -/
theorem Cons.at {f : Core → Except Err Core} {i o : Nat} (h : Cons f i o) (c : Core) (pre rest : List Bytes)
    (hs : c.stack = pre ++ rest) (hl : pre.length = i) : Res (f c) rest o := by
  obtain ⟨st, al, ops⟩ := c
  simp only at hs
  subst hs
  exact h pre rest al ops hl

theorem cons_bind {f g : Core → Except Err Core} {i o i' o' : Nat} (hf : Cons f i o) (hg : Cons g i' o') :
    Cons (fun c => f c >>= g) (i + (i' - o)) (o' + (o - i')) := by
  intro pre rest alt ops hlen
  have h1 : (pre.take i).length = i := by rw [List.length_take]; omega
  have h2 : (pre.drop i).length = i' - o := by rw [List.length_drop]; omega
  have hst : pre.take i ++ (pre.drop i ++ rest) = pre ++ rest := by
    rw [← List.append_assoc, List.take_append_drop]
  have hx := hf (pre.take i) (pre.drop i ++ rest) alt ops h1
  rw [hst] at hx
  refine res_bind hx ?_
  intro c1 out _ ho hs
  have hl : ((out ++ pre.drop i).take i').length = i' := by
    rw [List.length_take, List.length_append]; omega
  have hs' : c1.stack = (out ++ pre.drop i).take i' ++ ((out ++ pre.drop i).drop i' ++ rest) := by
    rw [← List.append_assoc, List.take_append_drop, hs, List.append_assoc]
  obtain ⟨hn, hok⟩ := hg.at c1 _ _ hs' hl
  refine ⟨hn, ?_⟩
  intro c' hc
  obtain ⟨out', ho', hs''⟩ := hok c' hc
  refine ⟨out' ++ (out ++ pre.drop i).drop i', ?_, ?_⟩
  · rw [List.length_append, List.length_drop, List.length_append]; omega
  · rw [hs'', List.append_assoc]

/-- a fragment that consumes `i` also "consumes" `i + k` and puts the extra `k` back -/
theorem cons_weaken {f : Core → Except Err Core} {i o : Nat} (k : Nat) (hf : Cons f i o) :
    Cons f (i + k) (o + k) := by
  intro pre rest alt ops hlen
  have h1 : (pre.take i).length = i := by rw [List.length_take]; omega
  have hst : pre.take i ++ (pre.drop i ++ rest) = pre ++ rest := by
    rw [← List.append_assoc, List.take_append_drop]
  have hx := hf (pre.take i) (pre.drop i ++ rest) alt ops h1
  rw [hst] at hx
  refine ⟨hx.1, ?_⟩
  intro c' hc
  obtain ⟨out, ho, hs⟩ := hx.2 c' hc
  refine ⟨out ++ pre.drop i, ?_, ?_⟩
  · rw [List.length_append, List.length_drop]; omega
  · rw [hs, List.append_assoc]

/-! ### primitives -/

theorem countOp_err {env : Env} {c : Core} {n : Nat} {e : Err} (h : countOp env c n = .error e) : e = .opCount := by
  unfold countOp at h
  dsimp only at h
  split at h
  · cases h; rfl
  · cases h

theorem cons_countOp (env : Env) (n : Nat) : Cons (fun c => countOp env c n) 0 0 := by
  intro pre rest alt ops hl
  have : pre = [] := List.eq_nil_of_length_eq_zero hl
  subst this
  refine ⟨?_, ?_⟩
  · show NoUF (countOp env ⟨[] ++ rest, alt, ops⟩ n)
    cases h : countOp env ⟨[] ++ rest, alt, ops⟩ n with
    | ok c => exact NoUF_ok _
    | error e => rw [countOp_err h]; exact NoUF_error (by simp) (by simp)
  · intro c' hc
    exact ⟨[], rfl, (countOp_ok hc).1⟩

theorem cons_skipCount (env : Env) (sc : List Op) : Cons (skipCount env sc) 0 0 := by
  intro pre rest alt ops hl
  have : pre = [] := List.eq_nil_of_length_eq_zero hl
  subst this
  unfold skipCount
  split
  · exact ⟨NoUF_error (by simp) (by simp), fun c' hc => by cases hc⟩
  · exact cons_countOp env _ [] rest alt ops rfl

theorem cons_opc {env : Env} (hlim : env.flags.stackLimits = false) {o : Opc} {i n : Nat}
    (h : arity o = some (i, n)) : Cons (opc env o) i n := by
  refine cons_congr (g := fun c => countOp env c 1 >>= execOpc env o) ?_
    ((cons_bind (cons_countOp env 1) (cons_execOpc hlim h)).cast (by omega) (by omega))
  intro c
  unfold opc
  cases countOp env c 1 <;> rfl

theorem cons_pushElem {env : Env} (hlim : env.flags.stackLimits = false) (b : Bytes) :
    Cons (fun c => pushElem env c b) 0 1 := by
  intro pre rest alt ops hl
  have : pre = [] := List.eq_nil_of_length_eq_zero hl
  subst this
  show Res (pushElem env ⟨[] ++ rest, alt, ops⟩ b) rest 1
  rw [pushElem_nolim hlim]
  exact ⟨NoUF_ok _, fun c' hc => by cases hc; exact ⟨[b], rfl, rfl⟩⟩

theorem cons_psh {env : Env} (hlim : env.flags.stackLimits = false) (b : Bytes) : Cons (psh env b) 0 1 := by
  refine cons_congr ?_ (cons_pushElem hlim b)
  intro c
  unfold psh
  simp [hlim]

theorem cons_pushInt {env : Env} (hlim : env.flags.stackLimits = false) (n : Nat) :
    Cons (pshOp env (pushInt n)) 0 1 := by
  unfold pushInt
  split
  · exact cons_pushElem hlim _
  · exact cons_psh hlim _

theorem cons_pushData {env : Env} (hlim : env.flags.stackLimits = false) (b : Bytes) :
    Cons (pshOp env (.push b)) 0 1 := cons_psh hlim b

theorem cons_code {env : Env} (hlim : env.flags.stackLimits = false) {o : Opc} {i n : Nat}
    (h : arity o = some (i, n)) : Cons (pshOp env (.code o)) i n := cons_opc hlim h

theorem cons_seq_nil (env : Env) : Cons (seqOps env []) 0 0 := by
  intro pre rest alt ops hl
  have : pre = [] := List.eq_nil_of_length_eq_zero hl
  subst this
  exact ⟨NoUF_ok _, fun c' hc => by cases hc; exact ⟨[], rfl, rfl⟩⟩

theorem cons_seq_cons {env : Env} {op : Op} {ops : List Op} {i o i' o' : Nat}
    (h1 : Cons (pshOp env op) i o) (h2 : Cons (seqOps env ops) i' o') :
    Cons (seqOps env (op :: ops)) (i + (i' - o)) (o' + (o - i')) := by
  refine cons_congr ?_ (cons_bind h1 h2)
  intro c
  simp only [seqOps, List.foldlM_cons]
  rfl

theorem cons_seq_one {env : Env} {op : Op} {i o : Nat} (h1 : Cons (pshOp env op) i o) :
    Cons (seqOps env [op]) i o :=
  (cons_seq_cons h1 (cons_seq_nil env)).cast (by omega) (by omega)

end MsVerif.TypeSound

/-
From Miniscript-level acceptance to `Spend.verifySpend`: resource limits (via the transfer
theorem of Lemmas/SatLimits.lean), byte-level parsing of scriptPubKey / scriptSig / witness
script (Lemmas/SatParse.lean) and the per-output-type plumbing of Spec/Spend.lean.
-/
import MsVerif.Spec.SpendSat
import MsVerif.Lemmas.SatLimits
import MsVerif.Lemmas.SatParse

namespace MsVerif.SatSpec
open MsVerif Script MsVerif.Bridge MsVerif.Desc MsVerif.Plan MsVerif.Spend

/-! ### acceptance with the limits on -/

theorem accepts_run {env : Env} {script : List Op} {stack : List Bytes}
    (h : accepts env script stack = true) :
    ∃ c v, run env script (State.init stack) = .ok ⟨c, []⟩ ∧ c.stack = [v] ∧ castToBool v = true := by
  unfold accepts at h
  split at h
  · rename_i s hs
    obtain ⟨c, cs⟩ := s
    simp only [Bool.and_eq_true, List.isEmpty_iff] at h
    obtain ⟨hc, hv⟩ := h
    subst hc
    match hst : c.stack, hv with
    | [v], hv => exact ⟨c, v, hs, hst, by simpa [hst] using hv⟩
  · cases h

/-- **Limits transfer at the level of `accepts`.** -/
theorem accepts_withLimits (env : Env) (hop : env.flags.opLimit = false)
    (hst : env.flags.stackLimits = false) (hhash : ∀ op b, (env.hash op b).length ≤ 520)
    (o t : Bool) (script : List Op) (hbig : bigPush script = false) (stack : List Bytes)
    (hacc : accepts env script stack = true)
    (helem : ∀ x ∈ stack, x.length ≤ 520)
    (hdepth : stack.length + growCount script ≤ 1000)
    (hops : env.flags.tapscript = true ∨ codeCount script + 20 * msCount script ≤ 201) :
    accepts (withLimits env o t) script stack = true := by
  obtain ⟨c, v, hrun, hs, hv⟩ := accepts_run hacc
  have hle := (run_ops_le env script _ _ hrun).2
  have := run_withLimits env o t hop hst hhash script hbig _ _ hrun
    (by simpa [State.init] using helem) (by simpa [State.init] using hdepth)
    (by rcases hops with h | h
        · exact .inl h
        · right; simp only [State.init] at hle; show c.ops ≤ 201; omega)
  unfold accepts
  rw [this]
  simp [hs, hv]

theorem accepts_runOn {env : Env} {script : List Op} {stack : List Bytes}
    (h : accepts env script stack = true) :
    ∃ out, runOn env script stack = .ok out ∧ cleanTrue out = true := by
  obtain ⟨c, v, hrun, hs, hv⟩ := accepts_run h
  refine ⟨[v], ?_, by simpa [cleanTrue] using hv⟩
  simp [runOn, hrun, hs]

/-! ### segwit v0 -/

theorem verifyWitnessV0_wsh (e : SpendEnv) (scriptBytes : Bytes) (script : List Op)
    (its : List Bytes) (hparse : parse scriptBytes = some script)
    (hsize : scriptBytes.length ≤ 10000) (helem : ∀ x ∈ its, x.length ≤ 520)
    (hacc : accepts (mkEnv e segwitFlags DOM_SEGWITV0) script its.reverse = true) :
    verifyWitnessV0 e (.p2wsh (e.hash .sha256 scriptBytes)) (its ++ [scriptBytes]) = .ok := by
  obtain ⟨out, hrun, hclean⟩ := accepts_runOn hacc
  have hany : (its.any fun x => decide (x.length > 520)) = false := by
    rw [List.any_eq_false]; intro x hx; have := helem x hx; simp; omega
  have hs : ¬ scriptBytes.length > 10000 := by omega
  simp [verifyWitnessV0, List.getLast?_append, hs, hany, hparse, hrun, hclean]

theorem verifySpend_native (e : SpendEnv) (v : Nat) (hv : v ≤ 16) (prog : Bytes)
    (hp : 1 ≤ prog.length ∧ prog.length < 76) (witness : List Bytes) (k : SpkKind)
    (hk : classify [.small v, .push prog] = k) :
    verifySpend e (serialize [.small v, .push prog]) [] witness =
      match k with
      | .p2wpkh h => verifyWitnessV0 e (.p2wpkh h) witness
      | .p2wsh h => verifyWitnessV0 e (.p2wsh h) witness
      | .p2tr k => verifyTaproot e k witness
      | _ => verifySpend e (serialize [.small v, .push prog]) [] witness := by
  have hparse : parse (serialize [.small v, .push prog]) = some [.small v, .push prog] :=
    parse_serialize _ (by simp [canonOp, hv, hp.1, hp.2])
  have hpf : parseFlagged ([] : Bytes) = some [] := rfl
  cases k with
  | p2sh _ => rfl
  | other => rfl
  | _ =>
    unfold verifySpend
    rw [hparse, hpf]
    simp [isPushOnly, hk]

theorem verifySpend_p2wsh (e : SpendEnv) (h : Bytes) (hl : h.length = 32) (witness : List Bytes) :
    verifySpend e (serialize [.small 0, .push h]) [] witness = verifyWitnessV0 e (.p2wsh h) witness := by
  rw [verifySpend_native e 0 (by omega) h (by omega) witness (.p2wsh h) (by simp [classify, hl])]

theorem verifySpend_p2wpkh (e : SpendEnv) (h : Bytes) (hl : h.length = 20) (witness : List Bytes) :
    verifySpend e (serialize [.small 0, .push h]) [] witness = verifyWitnessV0 e (.p2wpkh h) witness := by
  rw [verifySpend_native e 0 (by omega) h (by omega) witness (.p2wpkh h) (by simp [classify, hl])]

theorem verifySpend_p2tr (e : SpendEnv) (k : Bytes) (hl : k.length = 32) (witness : List Bytes) :
    verifySpend e (serialize [.small 1, .push k]) [] witness = verifyTaproot e k witness := by
  rw [verifySpend_native e 1 (by omega) k (by omega) witness (.p2tr k) (by simp [classify, hl])]

/-! ### P2SH -/

theorem parse_newP2sh (h : Bytes) (hl : h.length = 20) :
    parse (serialize (newP2sh h)) = some (newP2sh h) :=
  parse_serialize _ (by simp [newP2sh, canonOp, hl])

/-- common part of every P2SH spend whose scriptSig is built by `witness_to_scriptsig`:
after the scriptSig checks the redeem script is on top of the items -/
theorem verifySpend_p2sh_prefix (e : SpendEnv) (h : Bytes) (hl : h.length = 20)
    (its : List Bytes) (redeem : Bytes) (hit : ∀ x ∈ its, ssItemOk x)
    (hred : 4 < redeem.length ∧ redeem.length ≤ 520)
    (hss : (witnessToScriptSig (its ++ [redeem])).length ≤ 1650) :
    ∃ ssF, parseFlagged (witnessToScriptSig (its ++ [redeem])) = some ssF ∧
      isPushOnly (ssF.map (·.1)) = true ∧
      (∀ p ∈ ssF, (∃ n, p.1 = .small n) ∨ (∃ bs, p.1 = .push bs ∧ pushMinimal bs p.2 = true)) ∧
      pushedStack (ssF.map (·.1)) = redeem :: its.reverse := by
  have hall : ∀ x ∈ its ++ [redeem], ssItemOk x := by
    intro x hx
    rcases List.mem_append.mp hx with hx | hx
    · exact hit x hx
    · simp at hx; subst hx; exact .inr (.inr hred)
  obtain ⟨l, h1, h2, _, h4⟩ := parseFlagged_w2ss (its ++ [redeem]) hall
  obtain ⟨l', h1', h3', _⟩ := parseFlagged_w2ss' (its ++ [redeem]) hall
  have : l' = l := by rw [h1] at h1'; exact (Option.some.inj h1').symm
  subst this
  exact ⟨l', h1, h2, h3', by simpa using h4⟩

/-- `sh(<legacy miniscript>)` -/
theorem verifySpend_p2sh_legacy (e : SpendEnv) (its : List Bytes) (redeem : Bytes)
    (script : List Op) (hit : ∀ x ∈ its, ssItemOk x)
    (hred : 4 < redeem.length ∧ redeem.length ≤ 520)
    (hl : (e.hash .hash160 redeem).length = 20)
    (hss : (witnessToScriptSig (its ++ [redeem])).length ≤ 1650)
    (hparse : parse redeem = some script)
    (hnw : ∀ prog, script ≠ [.small 0, .push prog])
    (hacc : accepts (mkEnv e legacyFlags DOM_LEGACY) script its.reverse = true) :
    verifySpend e (serialize (newP2sh (e.hash .hash160 redeem)))
      (witnessToScriptSig (its ++ [redeem])) [] = .ok := by
  obtain ⟨ssF, h1, h2, h3, h4⟩ := verifySpend_p2sh_prefix e _ hl its redeem hit hred hss
  obtain ⟨out, hrun, hclean⟩ := accepts_runOn hacc
  have hsz : ¬ (witnessToScriptSig (its ++ [redeem])).length > 1650 := by omega
  have hrs : ¬ redeem.length > 520 := by omega
  have hcls : (∀ wh, classify script ≠ .p2wpkh wh) ∧ (∀ wh, classify script ≠ .p2wsh wh) := by
    constructor <;> intro wh hc <;> unfold classify at hc <;> split at hc <;>
      first
      | (split at hc <;> simp at hc; done)
      | (simp at hc; done)
      | (rename_i prog; exact hnw prog rfl)
      | (split at hc <;> try (simp at hc; done)
         all_goals first | (rename_i prog _; exact hnw prog rfl) | (split at hc <;> simp at hc <;> rename_i prog _ _; exact hnw prog rfl))
  unfold verifySpend
  rw [parse_newP2sh _ hl, h1]
  simp only [h2, h3, hsz, Bool.not_true, Bool.false_eq_true, if_false]
  have hc : classify (newP2sh (e.hash .hash160 redeem)) = .p2sh (e.hash .hash160 redeem) := by
    simp [classify, newP2sh, hl]
  simp only [hc, h4, bne_self_eq_false, Bool.false_eq_true, if_false, hrs, hparse]
  cases hk : classify script with
  | p2wpkh wh => exact absurd hk (hcls.1 wh)
  | p2wsh wh => exact absurd hk (hcls.2 wh)
  | _ =>
    simp [hrun, hclean]
    intro x
    constructor <;> intro hx <;> rcases h3 _ hx with ⟨n, hn⟩ | ⟨bs, hb, hm⟩ <;> simp_all

theorem witprog_length (prog : Bytes) (hp : prog.length < 76) :
    (serialize [.small 0, .push prog]).length = prog.length + 2 := by
  simp [serialize, Op.bytes, pushPrefix, hp]

/-- `sh(wsh(..))` / `sh(wpkh(..))`: the scriptSig is the single push of the witness program -/
theorem verifySpend_p2sh_segwit (e : SpendEnv) (prog : Bytes) (k : SpkKind)
    (hk : (prog.length = 32 ∧ k = .p2wsh prog) ∨ (prog.length = 20 ∧ k = .p2wpkh prog))
    (hl : (e.hash .hash160 (serialize [.small 0, .push prog])).length = 20)
    (witness : List Bytes) :
    verifySpend e (serialize (newP2sh (e.hash .hash160 (serialize [.small 0, .push prog]))))
      (Plan.pushSlice (serialize [.small 0, .push prog])) witness = verifyWitnessV0 e k witness := by
  have hplen : 1 ≤ prog.length ∧ prog.length < 76 := by rcases hk with h | h <;> omega
  have hilen := witprog_length prog hplen.2
  have hred : 4 < (serialize [.small 0, .push prog]).length ∧
      (serialize [.small 0, .push prog]).length ≤ 520 := by omega
  have hss : Plan.pushSlice (serialize [.small 0, .push prog]) =
      witnessToScriptSig ([] ++ [serialize [.small 0, .push prog]]) := by
    simp [witnessToScriptSig, w2ssItem_long _ hred.1]
  have hsslen : (witnessToScriptSig ([] ++ [serialize [.small 0, .push prog]])).length ≤ 1650 := by
    rw [← hss]
    have : (pushPrefix (serialize [.small 0, .push prog]).length).length ≤ 5 := by
      unfold pushPrefix; split <;> try split <;> try split
      all_goals simp
    simp only [Plan.pushSlice, List.length_append]
    omega
  obtain ⟨ssF, h1, h2, h3, h4⟩ := verifySpend_p2sh_prefix e _ hl [] _ (by simp) hred hsslen
  have hsz : ¬ (witnessToScriptSig ([] ++ [serialize [.small 0, .push prog]])).length > 1650 := by omega
  have hrs : ¬ (serialize [.small 0, .push prog]).length > 520 := by omega
  have hparse : parse (serialize [.small 0, .push prog]) = some [.small 0, .push prog] :=
    parse_serialize _ (by simp [canonOp, hplen.1, hplen.2])
  have hc : classify (newP2sh (e.hash .hash160 (serialize [.small 0, .push prog]))) =
      .p2sh (e.hash .hash160 (serialize [.small 0, .push prog])) := by
    simp [classify, newP2sh, hl]
  have hany : ∀ (x : Op) (b : Bool), (x, b) ∈ ssF →
      (∃ n, x = .small n) ∨ (∃ bs, x = .push bs ∧ pushMinimal bs b = true) :=
    fun x b hx => h3 (x, b) hx
  rw [hss]
  unfold verifySpend
  rw [parse_newP2sh _ hl, h1]
  simp only [h2, Bool.not_true, Bool.false_eq_true, if_false]
  split
  · rename_i hx
    obtain ⟨x, hx, hm⟩ := List.any_eq_true.mp hx
    rcases h3 x hx with ⟨n, hn⟩ | ⟨bs, hb, hm'⟩ <;> simp_all
  · simp only [hsz, if_false, hc, h4, bne_self_eq_false, Bool.false_eq_true, hrs, hparse]
    rcases hk with ⟨h32, rfl⟩ | ⟨h20, rfl⟩
    · simp [classify, h32]
    · simp [classify, h20]

/-! ### P2WPKH -/

theorem verifyWitnessV0_wpkh (e : SpendEnv) (sig pk : Bytes)
    (hpk : pubkeyOk (mkEnv e segwitFlags DOM_SEGWITV0) pk = true) (hsig : sig ≠ [])
    (hok : e.sigOk DOM_SEGWITV0 pk sig = true)
    (hpl : pk.length ≤ 520) (hhl : (e.hash .hash160 pk).length ≤ 520) :
    verifyWitnessV0 e (.p2wpkh (e.hash .hash160 pk)) [sig, pk] = .ok := by
  have h1 : ¬ pk.length > 520 := by omega
  have h2 : ¬ (e.hash .hash160 pk).length > 520 := by omega
  have hcs : checkSig (mkEnv e segwitFlags DOM_SEGWITV0) sig pk = .ok true := by
    have : (mkEnv e segwitFlags DOM_SEGWITV0).sigOk pk sig = true := hok
    simp [checkSig, hpk, hsig, this]
  simp [verifyWitnessV0, runOn, run, p2pkhScript, List.foldlM, step, State.init, State.executing,
    countOp, execOpc, pushElem, mkEnv, segwitFlags, h1, h2, bind, Except.bind, pure, Except.pure,
    cleanTrue, boolBytes, castToBool] 
  simp [mkEnv, segwitFlags] at hcs
  simp [hcs, cleanTrue, boolBytes, castToBool, bind, Except.bind]

/-! ### taproot -/

theorem verifyTaproot_key (e : SpendEnv) (outKey sig : Bytes)
    (hok : e.sigOk DOM_TAPKEY outKey sig = true) : verifyTaproot e outKey [sig] = .ok := by
  simp [verifyTaproot, hok]

theorem verifyTaproot_script (e : SpendEnv) (outKey : Bytes) (its : List Bytes)
    (scriptBytes control : Bytes) (script : List Op)
    (hparse : parse scriptBytes = some script)
    (hc1 : 33 ≤ control.length) (hc2 : (control.length - 33) % 32 = 0)
    (hc3 : control.length ≤ 33 + 32 * 128)
    (hcommit : e.tapCommitOk control scriptBytes outKey = true)
    (hver : control.head?.map (· &&& 0xfe) = some 0xc0)
    (helem : ∀ x ∈ its, x.length ≤ 520)
    (hacc : accepts (mkEnv e tapFlags DOM_TAPSCRIPT) script its.reverse = true) :
    verifyTaproot e outKey (its ++ [scriptBytes, control]) = .ok := by
  obtain ⟨out, hrun, hclean⟩ := accepts_runOn hacc
  have hany : (its.any fun x => decide (x.length > 520)) = false := by
    rw [List.any_eq_false]; intro x hx; have := helem x hx; simp; omega
  have hannex : (control.head? == some 0x50) = false := by
    cases hh : control.head? with
    | none => rfl
    | some b =>
      rw [hh] at hver
      simp only [Option.map_some, Option.some.injEq] at hver
      have : b ≠ 0x50 := by rintro rfl; revert hver; decide
      simpa using this
  have hlast : (its ++ [scriptBytes, control]).getLast? = some control := by
    simp [List.getLast?_append]
  have hdl : (its ++ [scriptBytes, control]).dropLast = its ++ [scriptBytes] := by
    rw [show its ++ [scriptBytes, control] = (its ++ [scriptBytes]) ++ [control] by simp]
    exact List.dropLast_concat
  have hsz : ¬ (control.length < 33 ∨ ¬ (control.length - 33) % 32 = 0 ∨ 33 + 32 * 128 < control.length) := by
    omega
  unfold verifyTaproot
  rw [hlast]
  simp only [hannex, Bool.and_false, Bool.false_eq_true, if_false]
  have hshape : ∀ sig, its ++ [scriptBytes, control] ≠ [sig] := by
    intro sig h; have := congrArg List.length h; simp at this
  split
  · rename_i sig heq; exact absurd heq (hshape sig)
  · rw [hdl]
    simp [List.getLast?_append, hsz, hcommit, hver, hany, hparse, hrun, hclean, List.dropLast_concat]
    omega

end MsVerif.SatSpec

/-
C02 helper lemmas, part 5: the taproot leaf loop (`Model/TapSpend.lean`) returns a leaf iff some
leaf has a stack satisfaction, and the leaf it returns has the smallest witness size.
-/
import MsVerif.Model.TapSpend
import MsVerif.Lemmas.CompleteBasic

namespace MsVerif.Complete
open MsVerif

/-- the leaf's satisfaction in the given mode -/
def leafSat (env : KeyEnv) (a : Assets) (mall : Bool) (l : TapLeaf) : Sat :=
  (satDissat (tapLeafCfg env a mall l.ms) l.ms).sat

theorem tapLoop_isSome (env : KeyEnv) (a : Assets) (mall : Bool) (ls : List TapLeaf) (i : Nat)
    (best : Option (Nat × Nat)) :
    (tapLoop env a mall ls i best).isSome =
      (best.isSome || ls.any (fun l => isStk (leafSat env a mall l).stack)) := by
  induction ls generalizing i best with
  | nil => simp [tapLoop]
  | cons l rest ih =>
    unfold tapLoop
    simp only [List.any_cons, leafSat]
    cases h : (satDissat (tapLeafCfg env a mall l.ms) l.ms).sat.stack with
    | stack s =>
      cases best with
      | none => simp [ih]
      | some b =>
        obtain ⟨j, m⟩ := b
        simp only
        split <;> simp [ih]
    | unavailable => simp [ih, leafSat]
    | impossible => simp [ih, leafSat]

/-- the size kept by the loop is at most the previous minimum and at most the size of every
leaf with a stack satisfaction -/
theorem tapLoop_min (env : KeyEnv) (a : Assets) (mall : Bool) (ls : List TapLeaf) (i : Nat)
    (best : Option (Nat × Nat)) (j m : Nat) (h : tapLoop env a mall ls i best = some (j, m)) :
    (∀ j0 m0, best = some (j0, m0) → m ≤ m0) ∧
    (∀ l ∈ ls, ∀ s, (leafSat env a mall l).stack = .stack s → m ≤ tapLeafWitSize env l s) := by
  induction ls generalizing i best with
  | nil =>
    simp only [tapLoop] at h
    exact ⟨fun j0 m0 hb => by rw [hb] at h; cases h; exact Nat.le_refl _, by simp⟩
  | cons l rest ih =>
    unfold tapLoop at h
    cases hs : (satDissat (tapLeafCfg env a mall l.ms) l.ms).sat.stack with
    | stack s =>
      rw [hs] at h
      have hl : ∀ s', (leafSat env a mall l).stack = .stack s' → s' = s := by
        intro s' h'; unfold leafSat at h'; rw [hs] at h'; cases h'; rfl
      cases best with
      | none =>
        simp only at h
        have := ih _ _ h
        refine ⟨by simp, ?_⟩
        intro l' hl' s' hs'
        rcases List.mem_cons.mp hl' with rfl | hm
        · rw [hl s' hs']; exact this.1 _ _ rfl
        · exact this.2 l' hm s' hs'
      | some b =>
        obtain ⟨j0, m0⟩ := b
        simp only at h
        by_cases hgt : tapLeafWitSize env l s > m0
        · rw [if_pos hgt] at h
          have := ih _ _ h
          have hm := this.1 _ _ rfl
          refine ⟨fun j1 m1 hb => by cases hb; exact hm, ?_⟩
          intro l' hl' s' hs'
          rcases List.mem_cons.mp hl' with rfl | hmem
          · rw [hl s' hs']; omega
          · exact this.2 l' hmem s' hs'
        · rw [if_neg hgt] at h
          have := ih _ _ h
          have hm := this.1 _ _ rfl
          refine ⟨fun j1 m1 hb => by cases hb; omega, ?_⟩
          intro l' hl' s' hs'
          rcases List.mem_cons.mp hl' with rfl | hmem
          · rw [hl s' hs']; exact hm
          · exact this.2 l' hmem s' hs'
    | unavailable =>
      rw [hs] at h
      have := ih _ _ h
      refine ⟨this.1, ?_⟩
      intro l' hl' s' hs'
      rcases List.mem_cons.mp hl' with rfl | hmem
      · unfold leafSat at hs'; rw [hs] at hs'; cases hs'
      · exact this.2 l' hmem s' hs'
    | impossible =>
      rw [hs] at h
      have := ih _ _ h
      refine ⟨this.1, ?_⟩
      intro l' hl' s' hs'
      rcases List.mem_cons.mp hl' with rfl | hmem
      · unfold leafSat at hs'; rw [hs] at hs'; cases hs'
      · exact this.2 l' hmem s' hs'

theorem bestTapSpend_ne_none (env : KeyEnv) (a : Assets) (mall tk : Bool) (ls : List TapLeaf) :
    bestTapSpend env a mall tk ls ≠ .none ↔
      (tk = true ∨ ∃ l ∈ ls, isStk (leafSat env a mall l).stack = true) := by
  unfold bestTapSpend
  cases tk with
  | true => simp
  | false =>
    have h := tapLoop_isSome env a mall ls 0 none
    simp only [Option.isSome_none, Bool.false_or] at h
    cases hl : tapLoop env a mall ls 0 none with
    | none =>
      rw [hl] at h
      simp only [Option.isSome_none] at h
      have : ¬ ∃ l ∈ ls, isStk (leafSat env a mall l).stack = true := by
        intro ⟨l, hm, hs⟩
        have : ls.any (fun l => isStk (leafSat env a mall l).stack) = true :=
          List.any_eq_true.mpr ⟨l, hm, hs⟩
        rw [← h] at this; cases this
      simp [this]
    | some b =>
      rw [hl] at h
      simp only [Option.isSome_some] at h
      obtain ⟨l, hm, hs⟩ := List.any_eq_true.mp h.symm
      obtain ⟨j, m⟩ := b
      exact ⟨fun _ => .inr ⟨l, hm, hs⟩, fun _ => by simp⟩

end MsVerif.Complete

/-
Helper lemmas for C07 (lifting):
  A. the explicit-stack loop over `rtl_post_order_iter` equals the structural fold `liftRaw`;
  B. `holds` of the structural fold is the direct reading `sem`;
  C. typing ⇒ the specification's satisfaction table agrees with `sem` (every `d`-typed
     fragment has a canonical dissatisfaction).
-/
import MsVerif.Model.Lift
import MsVerif.Model.TypeCheck
import MsVerif.Lemmas.PolicyNorm

namespace MsVerif.Lift
open MsVerif MsVerif.Pol MsVerif.MsSem MsVerif.SatTable

/-! ## A. loop = structural fold -/

theorem liftLoop_cons (x : Ms) (rest : List Ms) (st : List Policy) :
    liftLoop (x :: rest) st =
      match liftStep st x with
      | .ok st' => liftLoop rest st'
      | .error e => .error e := rfl

mutual
theorem liftRawList_length : ∀ (xs : MsList) (ps : List Policy),
    liftRawList xs = some ps → ps.length = xs.length
  | .nil, ps, h => by simp [liftRawList] at h; subst h; rfl
  | .cons x xs, ps, h => by
    simp only [liftRawList] at h
    cases hx : liftRaw x with
    | none => simp [hx] at h
    | some p =>
      cases hxs : liftRawList xs with
      | none => simp [hx, hxs] at h
      | some qs =>
        simp [hx, hxs] at h
        subst h
        simp [MsList.length, liftRawList_length xs qs hxs]
end

mutual
theorem liftLoop_rtlPost : ∀ (ms : Ms) (rest : List Ms) (st : List Policy),
    liftLoop (rtlPost ms ++ rest) st =
      match liftRaw ms with
      | some p => liftLoop rest (p :: st)
      | none => .error .rawDescriptorLift
  | .tru, rest, st => by simp [rtlPost, liftRaw, liftLoop_cons, liftStep]
  | .fls, rest, st => by simp [rtlPost, liftRaw, liftLoop_cons, liftStep]
  | .pkK k, rest, st => by simp [rtlPost, liftRaw, liftLoop_cons, liftStep]
  | .pkH k, rest, st => by simp [rtlPost, liftRaw, liftLoop_cons, liftStep]
  | .rawPkH h, rest, st => by simp [rtlPost, liftRaw, liftLoop_cons, liftStep]
  | .after n, rest, st => by simp [rtlPost, liftRaw, liftLoop_cons, liftStep]
  | .older n, rest, st => by simp [rtlPost, liftRaw, liftLoop_cons, liftStep]
  | .hash kind h, rest, st => by simp [rtlPost, liftRaw, liftLoop_cons, liftStep]
  | .multi k ks, rest, st => by simp [rtlPost, liftRaw, liftLoop_cons, liftStep]
  | .sortedMulti k ks, rest, st => by simp [rtlPost, liftRaw, liftLoop_cons, liftStep]
  | .multiA k ks, rest, st => by simp [rtlPost, liftRaw, liftLoop_cons, liftStep]
  | .sortedMultiA k ks, rest, st => by simp [rtlPost, liftRaw, liftLoop_cons, liftStep]
  | .alt x, rest, st => by
    rw [rtlPost, List.append_assoc, liftLoop_rtlPost x, liftRaw]
    cases liftRaw x <;> simp [liftLoop_cons, liftStep]
  | .swap x, rest, st => by
    rw [rtlPost, List.append_assoc, liftLoop_rtlPost x, liftRaw]
    cases liftRaw x <;> simp [liftLoop_cons, liftStep]
  | .check x, rest, st => by
    rw [rtlPost, List.append_assoc, liftLoop_rtlPost x, liftRaw]
    cases liftRaw x <;> simp [liftLoop_cons, liftStep]
  | .dupIf x, rest, st => by
    rw [rtlPost, List.append_assoc, liftLoop_rtlPost x, liftRaw]
    cases liftRaw x <;> simp [liftLoop_cons, liftStep]
  | .verify x, rest, st => by
    rw [rtlPost, List.append_assoc, liftLoop_rtlPost x, liftRaw]
    cases liftRaw x <;> simp [liftLoop_cons, liftStep]
  | .nonZero x, rest, st => by
    rw [rtlPost, List.append_assoc, liftLoop_rtlPost x, liftRaw]
    cases liftRaw x <;> simp [liftLoop_cons, liftStep]
  | .zeroNotEqual x, rest, st => by
    rw [rtlPost, List.append_assoc, liftLoop_rtlPost x, liftRaw]
    cases liftRaw x <;> simp [liftLoop_cons, liftStep]
  | .andV l r, rest, st => by
    rw [rtlPost, List.append_assoc, liftLoop_rtlPost r, liftRaw]
    cases hr : liftRaw r with
    | none => cases liftRaw l <;> simp
    | some b =>
      simp only []
      rw [List.append_assoc, liftLoop_rtlPost l]
      cases hl : liftRaw l <;> simp [liftLoop_cons, liftStep]
  | .andB l r, rest, st => by
    rw [rtlPost, List.append_assoc, liftLoop_rtlPost r, liftRaw]
    cases hr : liftRaw r with
    | none => cases liftRaw l <;> simp
    | some b =>
      simp only []
      rw [List.append_assoc, liftLoop_rtlPost l]
      cases hl : liftRaw l <;> simp [liftLoop_cons, liftStep]
  | .orB l r, rest, st => by
    rw [rtlPost, List.append_assoc, liftLoop_rtlPost r, liftRaw]
    cases hr : liftRaw r with
    | none => cases liftRaw l <;> simp
    | some b =>
      simp only []
      rw [List.append_assoc, liftLoop_rtlPost l]
      cases hl : liftRaw l <;> simp [liftLoop_cons, liftStep]
  | .orD l r, rest, st => by
    rw [rtlPost, List.append_assoc, liftLoop_rtlPost r, liftRaw]
    cases hr : liftRaw r with
    | none => cases liftRaw l <;> simp
    | some b =>
      simp only []
      rw [List.append_assoc, liftLoop_rtlPost l]
      cases hl : liftRaw l <;> simp [liftLoop_cons, liftStep]
  | .orC l r, rest, st => by
    rw [rtlPost, List.append_assoc, liftLoop_rtlPost r, liftRaw]
    cases hr : liftRaw r with
    | none => cases liftRaw l <;> simp
    | some b =>
      simp only []
      rw [List.append_assoc, liftLoop_rtlPost l]
      cases hl : liftRaw l <;> simp [liftLoop_cons, liftStep]
  | .orI l r, rest, st => by
    rw [rtlPost, List.append_assoc, liftLoop_rtlPost r, liftRaw]
    cases hr : liftRaw r with
    | none => cases liftRaw l <;> simp
    | some b =>
      simp only []
      rw [List.append_assoc, liftLoop_rtlPost l]
      cases hl : liftRaw l <;> simp [liftLoop_cons, liftStep]
  | .andOr a b c, rest, st => by
    rw [rtlPost, List.append_assoc, liftLoop_rtlPost c, liftRaw]
    cases hc : liftRaw c with
    | none => cases liftRaw a <;> cases liftRaw b <;> simp
    | some z =>
      simp only []
      rw [List.append_assoc, liftLoop_rtlPost b]
      cases hb : liftRaw b with
      | none => cases liftRaw a <;> simp
      | some y =>
        simp only []
        rw [List.append_assoc, liftLoop_rtlPost a]
        cases ha : liftRaw a <;> simp [liftLoop_cons, liftStep]
  | .thresh k xs, rest, st => by
    rw [rtlPost, List.append_assoc, liftLoop_rtlPostList xs, liftRaw]
    cases hxs : liftRawList xs with
    | none => simp
    | some ps =>
      have hlen := liftRawList_length xs ps hxs
      have hn : ¬ (ps.length + st.length < ps.length) := by omega
      simp [liftLoop_cons, liftStep, ← hlen, hn]
theorem liftLoop_rtlPostList : ∀ (xs : MsList) (rest : List Ms) (st : List Policy),
    liftLoop (rtlPostList xs ++ rest) st =
      match liftRawList xs with
      | some ps => liftLoop rest (ps ++ st)
      | none => .error .rawDescriptorLift
  | .nil, rest, st => by simp [rtlPostList, liftRawList]
  | .cons x xs, rest, st => by
    rw [rtlPostList, List.append_assoc, liftLoop_rtlPostList xs, liftRawList]
    cases hxs : liftRawList xs with
    | none => cases liftRaw x <;> simp
    | some ps =>
      simp only []
      rw [liftLoop_rtlPost x]
      cases hx : liftRaw x <;> simp
end

/-- the whole loop, started on the empty stack -/
theorem liftLoop_eq (ms : Ms) :
    liftLoop (rtlPost ms) [] =
      match liftRaw ms with
      | some p => .ok [p]
      | none => .error .rawDescriptorLift := by
  have := liftLoop_rtlPost ms [] []
  rw [List.append_nil] at this
  rw [this]
  cases liftRaw ms <;> simp [liftLoop]

mutual
theorem liftRaw_isSome : ∀ ms : Ms, (liftRaw ms).isSome = noRaw ms
  | .tru | .fls | .pkK _ | .pkH _ | .rawPkH _ | .after _ | .older _ | .hash _ _
  | .multi _ _ | .sortedMulti _ _ | .multiA _ _ | .sortedMultiA _ _ => by simp [liftRaw, noRaw]
  | .alt x | .swap x | .check x | .dupIf x | .verify x | .nonZero x | .zeroNotEqual x => by
    simp only [liftRaw, noRaw]; exact liftRaw_isSome x
  | .andV l r | .andB l r | .orB l r | .orD l r | .orC l r | .orI l r => by
    have hl := liftRaw_isSome l; have hr := liftRaw_isSome r
    simp only [liftRaw, noRaw, ← hl, ← hr]
    cases liftRaw l <;> cases liftRaw r <;> simp
  | .andOr a b c => by
    have ha := liftRaw_isSome a; have hb := liftRaw_isSome b; have hc := liftRaw_isSome c
    simp only [liftRaw, noRaw, ← ha, ← hb, ← hc]
    cases liftRaw a <;> cases liftRaw b <;> cases liftRaw c <;> simp
  | .thresh k xs => by
    have h := liftRawList_isSome xs
    simp only [liftRaw, noRaw, ← h]
    cases liftRawList xs <;> simp
theorem liftRawList_isSome : ∀ xs : MsList, (liftRawList xs).isSome = noRawList xs
  | .nil => by simp [liftRawList, noRawList]
  | .cons x xs => by
    have hx := liftRaw_isSome x; have hxs := liftRawList_isSome xs
    simp only [liftRawList, noRawList, ← hx, ← hxs]
    cases liftRaw x <;> cases liftRawList xs <;> simp
end

/-! ## B. truth table of the structural fold -/

theorem countA_keys (v : Atom → Bool) (ks : List Key) :
    countA v (ks.map keyPol) = (ks.filter (fun k => v (.key k))).length := by
  induction ks with
  | nil => simp [countA]
  | cons k ks ih =>
    simp only [List.map_cons, countA, ih, keyPol, holdsA, List.filter_cons]
    by_cases hv : v (.key k) = true
    · simp [hv]; omega
    · simp [hv]

mutual
theorem liftRaw_holds (W : World) : ∀ (ms : Ms) (p : Policy),
    liftRaw ms = some p → holds W p = sem W ms
  | .tru, p, h => by simp [liftRaw] at h; subst h; simp [holds, holdsA, sem]
  | .fls, p, h => by simp [liftRaw] at h; subst h; simp [holds, holdsA, sem]
  | .pkK k, p, h => by simp [liftRaw] at h; subst h; simp [holds, holdsA, sem, keyPol, World.val]
  | .pkH k, p, h => by simp [liftRaw] at h; subst h; simp [holds, holdsA, sem, keyPol, World.val]
  | .rawPkH _, p, h => by simp [liftRaw] at h
  | .after n, p, h => by simp [liftRaw] at h; subst h; simp [holds, holdsA, sem, World.val]
  | .older n, p, h => by simp [liftRaw] at h; subst h; simp [holds, holdsA, sem, World.val]
  | .hash kind x, p, h => by simp [liftRaw] at h; subst h; simp [holds, holdsA, sem, World.val]
  | .multi k ks, p, h | .sortedMulti k ks, p, h | .multiA k ks, p, h | .sortedMultiA k ks, p, h => by
    simp [liftRaw] at h; subst h
    simp [holds, holdsA, sem, countA_keys, World.val]
  | .alt x, p, h | .swap x, p, h | .check x, p, h | .dupIf x, p, h | .verify x, p, h
  | .nonZero x, p, h | .zeroNotEqual x, p, h => by
    simp only [liftRaw] at h
    simp only [sem]; exact liftRaw_holds W x p h
  | .andV l r, p, h | .andB l r, p, h => by
    simp only [liftRaw] at h
    cases hl : liftRaw l with
    | none => simp [hl] at h
    | some a =>
      cases hr : liftRaw r with
      | none => simp [hl, hr] at h
      | some b =>
        simp [hl, hr] at h; subst h
        have h1 := liftRaw_holds W l a hl; have h2 := liftRaw_holds W r b hr
        simp only [holds] at h1 h2
        simp only [holds, holdsA, countA, sem, h1, h2]
        cases sem W l <;> cases sem W r <;> simp
  | .orB l r, p, h | .orD l r, p, h | .orC l r, p, h | .orI l r, p, h => by
    simp only [liftRaw] at h
    cases hl : liftRaw l with
    | none => simp [hl] at h
    | some a =>
      cases hr : liftRaw r with
      | none => simp [hl, hr] at h
      | some b =>
        simp [hl, hr] at h; subst h
        have h1 := liftRaw_holds W l a hl; have h2 := liftRaw_holds W r b hr
        simp only [holds] at h1 h2
        simp only [holds, holdsA, countA, sem, h1, h2]
        cases sem W l <;> cases sem W r <;> simp
  | .andOr a b c, p, h => by
    simp only [liftRaw] at h
    cases ha : liftRaw a with
    | none => simp [ha] at h
    | some x =>
      cases hb : liftRaw b with
      | none => simp [ha, hb] at h
      | some y =>
        cases hc : liftRaw c with
        | none => simp [ha, hb, hc] at h
        | some z =>
          simp [ha, hb, hc] at h; subst h
          have h1 := liftRaw_holds W a x ha; have h2 := liftRaw_holds W b y hb
          have h3 := liftRaw_holds W c z hc
          simp only [holds] at h1 h2 h3
          simp only [holds, holdsA, countA, sem, h1, h2, h3]
          cases sem W a <;> cases sem W b <;> cases sem W c <;> simp
  | .thresh k xs, p, h => by
    simp only [liftRaw] at h
    cases hxs : liftRawList xs with
    | none => simp [hxs] at h
    | some ps =>
      simp [hxs] at h; subst h
      simp only [holds, holdsA, sem, liftRawList_count W xs ps hxs]
theorem liftRawList_count (W : World) : ∀ (xs : MsList) (ps : List Policy),
    liftRawList xs = some ps → countA W.val ps = semCount W xs
  | .nil, ps, h => by simp [liftRawList] at h; subst h; simp [countA, semCount]
  | .cons x xs, ps, h => by
    simp only [liftRawList] at h
    cases hx : liftRaw x with
    | none => simp [hx] at h
    | some p =>
      cases hxs : liftRawList xs with
      | none => simp [hx, hxs] at h
      | some qs =>
        simp [hx, hxs] at h; subst h
        have h1 := liftRaw_holds W x p hx
        simp only [holds] at h1
        simp only [countA, semCount, h1, liftRawList_count W xs qs hxs]
end

/-! ## C. typing ⇒ table = direct reading -/

section dissat
variable {a b c τ : Ty}

theorem lift1_some {fc : Corr → Option Corr} {fm : Mall → Mall} {s r : Ty}
    (h : Ty.lift1 fc fm s = some r) : fc s.corr = some r.corr := by
  unfold Ty.lift1 at h
  cases hc : fc s.corr with
  | none => simp [hc] at h
  | some x => simp [hc] at h; subst h; rfl

theorem lift2_some {fc : Corr → Corr → Option Corr} {fm : Mall → Mall → Mall} {l r t : Ty}
    (h : Ty.lift2 fc fm l r = some t) : fc l.corr r.corr = some t.corr := by
  unfold Ty.lift2 at h
  cases hc : fc l.corr r.corr with
  | none => simp [hc] at h
  | some x => simp [hc] at h; subst h; rfl

theorem castAlt_d (h : Ty.castAlt a = some τ) : τ.corr.dissat = a.corr.dissat := by
  have hc := lift1_some h
  unfold Corr.castAlt at hc
  split at hc <;> simp at hc
  rw [← hc]
theorem castSwap_d (h : Ty.castSwap a = some τ) : τ.corr.dissat = a.corr.dissat := by
  have hc := lift1_some h
  unfold Corr.castSwap at hc
  split at hc <;> try (simp at hc)
  split at hc <;> simp at hc
  all_goals rw [← hc]
theorem castCheck_d (h : Ty.castCheck a = some τ) : τ.corr.dissat = a.corr.dissat := by
  have hc := lift1_some h
  unfold Corr.castCheck at hc
  split at hc <;> simp at hc
  rw [← hc]
theorem castZeroNotEqual_d (h : Ty.castZeroNotEqual a = some τ) :
    τ.corr.dissat = a.corr.dissat := by
  have hc := lift1_some h
  unfold Corr.castZeroNotEqual at hc
  split at hc <;> simp at hc
  rw [← hc]
theorem castVerify_d (h : Ty.castVerify a = some τ) : τ.corr.dissat = false := by
  have hc := lift1_some h
  unfold Corr.castVerify at hc
  split at hc <;> simp at hc
  rw [← hc]

theorem andB_d (h : Ty.andB a b = some τ) : τ.corr.dissat = (a.corr.dissat && b.corr.dissat) := by
  have hc := lift2_some h
  unfold Corr.andB at hc
  split at hc <;> simp at hc
  rw [← hc]
theorem andV_d (h : Ty.andV a b = some τ) : τ.corr.dissat = false := by
  have hc := lift2_some h
  unfold Corr.andV at hc
  split at hc <;> simp at hc <;> rw [← hc]
theorem orB_d (h : Ty.orB a b = some τ) :
    a.corr.dissat = true ∧ b.corr.dissat = true ∧ τ.corr.dissat = true := by
  have hc := lift2_some h
  unfold Corr.orB at hc
  cases ha : a.corr.dissat <;> cases hb : b.corr.dissat <;> simp [ha, hb] at hc
  split at hc <;> simp at hc
  simp [← hc]
theorem orD_d (h : Ty.orD a b = some τ) :
    a.corr.dissat = true ∧ τ.corr.dissat = b.corr.dissat := by
  have hc := lift2_some h
  unfold Corr.orD at hc
  cases ha : a.corr.dissat <;> simp [ha] at hc
  split at hc <;> try (simp at hc)
  obtain ⟨_, hc⟩ := hc
  simp [← hc]
theorem orC_d (h : Ty.orC a b = some τ) :
    a.corr.dissat = true ∧ τ.corr.dissat = false := by
  have hc := lift2_some h
  unfold Corr.orC at hc
  cases ha : a.corr.dissat <;> simp [ha] at hc
  split at hc <;> try (simp at hc)
  obtain ⟨_, hc⟩ := hc
  simp [← hc]
theorem orI_d (h : Ty.orI a b = some τ) :
    τ.corr.dissat = (a.corr.dissat || b.corr.dissat) := by
  have hc := lift2_some h
  unfold Corr.orI at hc
  split at hc <;> simp at hc <;> rw [← hc]
theorem andOr_d (h : Ty.andOr a b c = some τ) :
    a.corr.dissat = true ∧ τ.corr.dissat = c.corr.dissat := by
  unfold Ty.andOr at h
  cases hc : Corr.andOr a.corr b.corr c.corr with
  | none => simp [hc] at h
  | some x =>
    simp [hc] at h; subst h
    unfold Corr.andOr at hc
    cases ha : a.corr.dissat <;> simp [ha] at hc
    split at hc <;> try (simp at hc)
    all_goals (obtain ⟨_, hc⟩ := hc; simp [← hc])

theorem threshLoop_d : ∀ (subs : List Corr) (i acc n : Nat),
    Corr.threshLoop i acc subs = some n → ∀ s ∈ subs, s.dissat = true
  | [], _, _, _, _ => by simp
  | s :: rest, i, acc, n, h => by
    unfold Corr.threshLoop at h
    simp only [] at h
    split at h <;> try (simp at h)
    obtain ⟨_, _, hd, h⟩ := h
    intro x hx
    rcases List.mem_cons.mp hx with hx | hx
    · subst hx; exact hd
    · exact threshLoop_d rest _ _ n h x hx

theorem threshold_d {k : Nat} {τs : List Ty} (h : Ty.threshold k τs = some τ) :
    ∀ t ∈ τs, t.corr.dissat = true := by
  unfold Ty.threshold at h
  cases hc : Corr.threshold k (τs.map (·.corr)) with
  | none => simp [hc] at h
  | some x =>
    unfold Corr.threshold at hc
    cases hl : Corr.threshLoop 0 0 (τs.map (·.corr)) with
    | none => simp [hl] at hc
    | some n =>
      intro t ht
      exact threshLoop_d _ 0 0 n hl t.corr (List.mem_map.mpr ⟨t, ht, rfl⟩)
end dissat

theorem threshEx_of_counts (av : Avail) (k : Nat) (xs : MsList)
    (h1 : countOnlySat av xs = 0) (h2 : countDead av xs = 0) :
    threshEx av k xs = decide (k ≤ countCanSat av xs) := by
  simp [threshEx, h1, h2]

mutual
theorem table_ms (W : World) : ∀ (ms : Ms) (τ : Ty), typeOf ms = some τ → noRaw ms = true →
    satEx (availOfWorld W) ms = sem W ms
      ∧ (τ.corr.dissat = true → dsatEx (availOfWorld W) ms = true)
  | .tru, τ, h, _ => by simp [satEx, sem, typeOf] at *; subst h; simp [Ty.TRUE, Corr.TRUE]
  | .fls, τ, h, _ => by simp [satEx, dsatEx, sem]
  | .pkK k, τ, h, _ => by simp [satEx, dsatEx, sem, availOfWorld]
  | .pkH k, τ, h, _ => by simp [satEx, dsatEx, sem, availOfWorld]
  | .rawPkH _, τ, _, hr => by simp [noRaw] at hr
  | .after n, τ, h, _ => by
    simp [typeOf] at h; subst h; simp [satEx, sem, availOfWorld, Ty.time, Corr.time]
  | .older n, τ, h, _ => by
    simp [typeOf] at h; subst h; simp [satEx, sem, availOfWorld, Ty.time, Corr.time]
  | .hash kind x, τ, h, _ => by simp [satEx, dsatEx, sem, availOfWorld]
  | .multi k ks, τ, h, _ | .sortedMulti k ks, τ, h, _ | .multiA k ks, τ, h, _
  | .sortedMultiA k ks, τ, h, _ => by
    simp [satEx, dsatEx, sem, availOfWorld]
  | .alt x, τ, h, hr => by
    simp only [typeOf] at h; simp only [noRaw] at hr
    cases hx : typeOf x with
    | none => simp [hx] at h
    | some t =>
      simp [hx] at h
      have ih := table_ms W x t hx hr
      simp only [satEx, dsatEx, sem, castAlt_d h]; exact ih
  | .swap x, τ, h, hr => by
    simp only [typeOf] at h; simp only [noRaw] at hr
    cases hx : typeOf x with
    | none => simp [hx] at h
    | some t =>
      simp [hx] at h
      have ih := table_ms W x t hx hr
      simp only [satEx, dsatEx, sem, castSwap_d h]; exact ih
  | .check x, τ, h, hr => by
    simp only [typeOf] at h; simp only [noRaw] at hr
    cases hx : typeOf x with
    | none => simp [hx] at h
    | some t =>
      simp [hx] at h
      have ih := table_ms W x t hx hr
      simp only [satEx, dsatEx, sem, castCheck_d h]; exact ih
  | .zeroNotEqual x, τ, h, hr => by
    simp only [typeOf] at h; simp only [noRaw] at hr
    cases hx : typeOf x with
    | none => simp [hx] at h
    | some t =>
      simp [hx] at h
      have ih := table_ms W x t hx hr
      simp only [satEx, dsatEx, sem, castZeroNotEqual_d h]; exact ih
  | .verify x, τ, h, hr => by
    simp only [typeOf] at h; simp only [noRaw] at hr
    cases hx : typeOf x with
    | none => simp [hx] at h
    | some t =>
      simp [hx] at h
      have ih := table_ms W x t hx hr
      simp only [satEx, dsatEx, sem, castVerify_d h]; exact ⟨ih.1, by simp⟩
  | .dupIf x, τ, h, hr => by
    simp only [typeOf] at h; simp only [noRaw] at hr
    cases hx : typeOf x with
    | none => simp [hx] at h
    | some t =>
      have ih := table_ms W x t hx hr
      simp only [satEx, dsatEx, sem]; exact ⟨ih.1, by simp⟩
  | .nonZero x, τ, h, hr => by
    simp only [typeOf] at h; simp only [noRaw] at hr
    cases hx : typeOf x with
    | none => simp [hx] at h
    | some t =>
      have ih := table_ms W x t hx hr
      simp only [satEx, dsatEx, sem]; exact ⟨ih.1, by simp⟩
  | .andV l r, τ, h, hr => by
    simp only [typeOf] at h; simp only [noRaw, Bool.and_eq_true] at hr
    cases hl : typeOf l with
    | none => simp [hl] at h
    | some tl =>
      cases hr' : typeOf r with
      | none => simp [hl, hr'] at h
      | some tr =>
        simp [hl, hr'] at h
        have i1 := table_ms W l tl hl hr.1; have i2 := table_ms W r tr hr' hr.2
        simp only [satEx, dsatEx, sem, i1.1, i2.1, andV_d h]; simp
  | .andB l r, τ, h, hr => by
    simp only [typeOf] at h; simp only [noRaw, Bool.and_eq_true] at hr
    cases hl : typeOf l with
    | none => simp [hl] at h
    | some tl =>
      cases hr' : typeOf r with
      | none => simp [hl, hr'] at h
      | some tr =>
        simp [hl, hr'] at h
        have i1 := table_ms W l tl hl hr.1; have i2 := table_ms W r tr hr' hr.2
        simp only [satEx, dsatEx, sem, i1.1, i2.1, andB_d h, Bool.and_eq_true]
        exact ⟨trivial, fun hd => ⟨i1.2 hd.1, i2.2 hd.2⟩⟩
  | .orB l r, τ, h, hr => by
    simp only [typeOf] at h; simp only [noRaw, Bool.and_eq_true] at hr
    cases hl : typeOf l with
    | none => simp [hl] at h
    | some tl =>
      cases hr' : typeOf r with
      | none => simp [hl, hr'] at h
      | some tr =>
        simp [hl, hr'] at h
        have i1 := table_ms W l tl hl hr.1; have i2 := table_ms W r tr hr' hr.2
        obtain ⟨d1, d2, _⟩ := orB_d h
        simp only [satEx, dsatEx, sem, i1.1, i2.1, i1.2 d1, i2.2 d2]; simp
  | .orD l r, τ, h, hr => by
    simp only [typeOf] at h; simp only [noRaw, Bool.and_eq_true] at hr
    cases hl : typeOf l with
    | none => simp [hl] at h
    | some tl =>
      cases hr' : typeOf r with
      | none => simp [hl, hr'] at h
      | some tr =>
        simp [hl, hr'] at h
        have i1 := table_ms W l tl hl hr.1; have i2 := table_ms W r tr hr' hr.2
        obtain ⟨d1, d2⟩ := orD_d h
        simp only [satEx, dsatEx, sem, i1.1, i2.1, i1.2 d1, d2]
        exact ⟨by simp, fun hd => by simp [i2.2 hd]⟩
  | .orC l r, τ, h, hr => by
    simp only [typeOf] at h; simp only [noRaw, Bool.and_eq_true] at hr
    cases hl : typeOf l with
    | none => simp [hl] at h
    | some tl =>
      cases hr' : typeOf r with
      | none => simp [hl, hr'] at h
      | some tr =>
        simp [hl, hr'] at h
        have i1 := table_ms W l tl hl hr.1; have i2 := table_ms W r tr hr' hr.2
        obtain ⟨d1, d2⟩ := orC_d h
        simp only [satEx, dsatEx, sem, i1.1, i2.1, i1.2 d1, d2]; simp
  | .orI l r, τ, h, hr => by
    simp only [typeOf] at h; simp only [noRaw, Bool.and_eq_true] at hr
    cases hl : typeOf l with
    | none => simp [hl] at h
    | some tl =>
      cases hr' : typeOf r with
      | none => simp [hl, hr'] at h
      | some tr =>
        simp [hl, hr'] at h
        have i1 := table_ms W l tl hl hr.1; have i2 := table_ms W r tr hr' hr.2
        simp only [satEx, dsatEx, sem, i1.1, i2.1, orI_d h, Bool.or_eq_true]
        exact ⟨trivial, fun hd => hd.elim (fun x => Or.inl (i1.2 x)) (fun x => Or.inr (i2.2 x))⟩
  | .andOr x y z, τ, h, hr => by
    simp only [typeOf] at h; simp only [noRaw, Bool.and_eq_true] at hr
    cases hx : typeOf x with
    | none => simp [hx] at h
    | some tx =>
      cases hy : typeOf y with
      | none => simp [hx, hy] at h
      | some ty =>
        cases hz : typeOf z with
        | none => simp [hx, hy, hz] at h
        | some tz =>
          simp [hx, hy, hz] at h
          have i1 := table_ms W x tx hx hr.1.1; have i2 := table_ms W y ty hy hr.1.2
          have i3 := table_ms W z tz hz hr.2
          obtain ⟨d1, d2⟩ := andOr_d h
          simp only [satEx, dsatEx, sem, i1.1, i2.1, i3.1, i1.2 d1, d2]
          exact ⟨by simp, fun hd => by simp [i3.2 hd]⟩
  | .thresh k xs, τ, h, hr => by
    simp only [typeOf] at h; simp only [noRaw] at hr
    cases hxs : typesOf xs with
    | none => simp [hxs] at h
    | some τs =>
      simp [hxs] at h
      obtain ⟨c1, c2, c3, c4⟩ := table_list W xs τs hxs hr (threshold_d h)
      simp only [satEx, dsatEx, sem, threshEx_of_counts _ k xs c3 c4, c1, c2]
      simp
theorem table_list (W : World) : ∀ (xs : MsList) (τs : List Ty), typesOf xs = some τs →
    noRawList xs = true → (∀ t ∈ τs, t.corr.dissat = true) →
    countCanSat (availOfWorld W) xs = semCount W xs ∧ allDsatEx (availOfWorld W) xs = true
      ∧ countOnlySat (availOfWorld W) xs = 0 ∧ countDead (availOfWorld W) xs = 0
  | .nil, _, _, _, _ => by simp [countCanSat, semCount, allDsatEx, countOnlySat, countDead]
  | .cons x xs, τs, h, hr, hd => by
    simp only [typesOf] at h; simp only [noRawList, Bool.and_eq_true] at hr
    cases hx : typeOf x with
    | none => simp [hx] at h
    | some t =>
      cases hxs : typesOf xs with
      | none => simp [hx, hxs] at h
      | some ts =>
        simp [hx, hxs] at h; subst h
        have i1 := table_ms W x t hx hr.1
        obtain ⟨c1, c2, c3, c4⟩ :=
          table_list W xs ts hxs hr.2 (fun t' ht' => hd t' (List.mem_cons_of_mem _ ht'))
        have dx := i1.2 (hd t (by simp))
        simp only [countCanSat, semCount, allDsatEx, countOnlySat, countDead, i1.1, dx, c1, c2, c3,
          c4]
        simp
end

/-! ## D. `lift` as a whole, taproot leaves -/

/-- `lift` = `lift_check`, then the structural fold, then `Sem.normalized` -/
theorem lift_eq' (env : KeyEnv) (ctx : Ctx) (ms : Ms) :
    lift env ctx ms =
      match liftCheck env ctx ms with
      | .error e => .error e
      | .ok () =>
        match liftRaw ms with
        | some p => .ok (Sem.normalized p)
        | none => .error .rawDescriptorLift := by
  unfold lift
  cases liftCheck env ctx ms with
  | error e => rfl
  | ok u =>
    cases u
    simp only [liftLoop_eq]
    cases liftRaw ms <;> rfl

/-- no `unwrap()` of the loop can fail -/
theorem lift_no_panic (env : KeyEnv) (ctx : Ctx) (ms : Ms) :
    lift env ctx ms ≠ .error .panic := by
  rw [lift_eq']
  unfold liftCheck
  cases withinResourceLimits env ctx ms <;> cases hasMixedTimelocks env ctx ms <;>
    cases liftRaw ms <;> simp

theorem lift_ok_raw {env : KeyEnv} {ctx : Ctx} {ms : Ms} {p : Policy}
    (h : lift env ctx ms = .ok p) : ∃ q, liftRaw ms = some q ∧ p = Sem.normalized q := by
  rw [lift_eq'] at h
  cases hc : liftCheck env ctx ms with
  | error e => simp [hc] at h
  | ok u =>
    cases hq : liftRaw ms with
    | none => simp [hc, hq] at h
    | some q => simp [hc, hq] at h; exact ⟨q, rfl, h.symm⟩

/-- T1: in every world the lifted policy holds iff the script's condition does -/
theorem lift_holds (env : KeyEnv) (ctx : Ctx) (ms : Ms) (p : Policy)
    (h : lift env ctx ms = .ok p) (W : World) : holds W p = sem W ms := by
  obtain ⟨q, hq, rfl⟩ := lift_ok_raw h
  rw [holds, normalized_holdsA]
  exact liftRaw_holds W ms q hq

theorem dec_one_idem (n : Nat) :
    decide (1 ≤ if decide (1 ≤ n) = true then 1 else 0) = decide (1 ≤ n) := by
  by_cases h : 1 ≤ n <;> simp [h]

theorem liftLeaves_any (env : KeyEnv) (W : World) : ∀ (ls : List Ms) (ps : List Policy),
    liftLeaves env ls = .ok ps →
      decide (1 ≤ countA W.val ps) = ls.any (sem W) ∧ ps.length = ls.length
  | [], ps, h => by simp [liftLeaves] at h; subst h; simp [countA]
  | l :: ls, ps, h => by
    simp only [liftLeaves] at h
    cases hl : lift env .tap l with
    | error e => simp [hl] at h
    | ok p =>
      cases hls : liftLeaves env ls with
      | error e => simp [hl, hls] at h
      | ok qs =>
        simp [hl, hls] at h; subst h
        have h1 := lift_holds env .tap l p hl W
        have ⟨h2, h3⟩ := liftLeaves_any env W ls qs hls
        simp only [holds] at h1
        simp only [countA, h1, List.any_cons, ← h2, List.length_cons, h3]
        cases sem W l <;> simp <;> omega

theorem liftLeaves_no_panic (env : KeyEnv) : ∀ ls : List Ms, liftLeaves env ls ≠ .error .panic
  | [] => by simp [liftLeaves]
  | l :: ls => by
    simp only [liftLeaves]
    have h1 := lift_no_panic env .tap l
    have h2 := liftLeaves_no_panic env ls
    cases hl : lift env .tap l with
    | error e => intro hh; simp at hh; subst hh; exact h1 hl
    | ok p =>
      cases hls : liftLeaves env ls with
      | error e => intro hh; simp at hh; subst hh; exact h2 hls
      | ok qs => simp


/-! ## E. the specification's "mentions a raw key hash" is the model's `noRaw` -/

mutual
theorem mentionsRaw_eq : ∀ ms : Ms, mentionsRaw ms = !noRaw ms
  | .tru | .fls | .pkK _ | .pkH _ | .rawPkH _ | .after _ | .older _ | .hash _ _
  | .multi _ _ | .sortedMulti _ _ | .multiA _ _ | .sortedMultiA _ _ => by simp [mentionsRaw, noRaw]
  | .alt x | .swap x | .check x | .dupIf x | .verify x | .nonZero x | .zeroNotEqual x => by
    simp only [mentionsRaw, noRaw]; exact mentionsRaw_eq x
  | .andV l r | .andB l r | .orB l r | .orD l r | .orC l r | .orI l r => by
    simp only [mentionsRaw, noRaw, mentionsRaw_eq l, mentionsRaw_eq r]
    cases noRaw l <;> cases noRaw r <;> rfl
  | .andOr a b c => by
    simp only [mentionsRaw, noRaw, mentionsRaw_eq a, mentionsRaw_eq b, mentionsRaw_eq c]
    cases noRaw a <;> cases noRaw b <;> cases noRaw c <;> rfl
  | .thresh k xs => by simp only [mentionsRaw, noRaw]; exact mentionsRawL_eq xs
theorem mentionsRawL_eq : ∀ xs : MsList, mentionsRawL xs = !noRawList xs
  | .nil => by simp [mentionsRawL, noRawList]
  | .cons x xs => by
    simp only [mentionsRawL, noRawList, mentionsRaw_eq x, mentionsRawL_eq xs]
    cases noRaw x <;> cases noRawList xs <;> rfl
end

end MsVerif.Lift

/-
Helper lemmas for C15: `nodes_from_tap_tree` run on the depth list of a tree produces the
pre-order node vector `encWith (root t) t` in which every non-root node carries its sibling's
hash and the root carries the Merkle root.  Induction on the tree; the invariant talks about
the state *before the final climb* of a subtree's last leaf.
-/
import MsVerif.Model.TapTree
import MsVerif.Lemmas.TapTreeSpec

set_option linter.unusedSimpArgs false

namespace MsVerif.Tap
open MsVerif.Spec MsVerif.Spec.Tree

variable {α ν : Type}

/-- leaf data stored at the root node of a subtree -/
def rootData : Tree α → Option α
  | .leaf s => some s
  | .node _ _ => none

/-- the nodes strictly below the root, pre-order, each with its sibling's hash -/
def encTail (H : HashAlg α ν) : Tree α → List (SNode α ν)
  | .leaf _ => []
  | .node l r =>
    (⟨root H r, rootData l⟩ :: encTail H l) ++ (⟨root H l, rootData r⟩ :: encTail H r)

/-- the node vector of a subtree whose root node carries `h` -/
def encWith (H : HashAlg α ν) (h : ν) (t : Tree α) : List (SNode α ν) :=
  ⟨h, rootData t⟩ :: encTail H t

theorem encWith_node (H : HashAlg α ν) (h : ν) (l r : Tree α) :
    encWith H h (.node l r) = ⟨h, none⟩ :: (encWith H (root H r) l ++ encWith H (root H l) r) := rfl

/-- hash of the leftmost leaf: the dummy value stored in freshly pushed parents -/
def firstLeafHash (H : HashAlg α ν) : Tree α → ν
  | .leaf s => H.leafHash s
  | .node l _ => firstLeafHash H l

/-- the parent-stack entries created by `j` iterations of step 1, top first -/
def parents : Nat → Nat → List (Bool × Nat)
  | 0, _ => []
  | j + 1, base => (false, base + j) :: parents j base

@[simp] theorem parents_length (j base : Nat) : (parents j base).length = j := by
  induction j with
  | zero => rfl
  | succ j ih => simp [parents, ih]

theorem parents_succ' (j base : Nat) :
    parents (j + 1) base = parents j (base + 1) ++ [(false, base)] := by
  induction j with
  | zero => simp [parents]
  | succ j ih =>
    rw [parents, ih]
    simp [parents, Nat.add_assoc, Nat.add_comm 1 j]

theorem pushParents_eq (cur : ν) (n : Nat) : ∀ (nodes : List (SNode α ν)) (stack : List (Bool × Nat)),
    pushParents cur n nodes stack =
      (nodes ++ List.replicate n ⟨cur, none⟩, parents n nodes.length ++ stack) := by
  induction n with
  | zero => intro nodes stack; simp [pushParents, parents]
  | succ n ih =>
    intro nodes stack
    rw [pushParents, ih, parents_succ']
    simp [List.replicate_succ, List.append_assoc]

/-- one completed iteration of step 3 on a node vector of the shape
`A ++ parent :: lchild :: B ++ rchild :: C` -/
theorem climb_true (H : HashAlg α ν) (cur : ν) (A B C : List (SNode α ν)) (x y z : SNode α ν)
    (st : List (Bool × Nat)) :
    climb H cur (A.length + 2 + B.length) (A ++ x :: y :: (B ++ z :: C)) ((true, A.length) :: st) =
      climb H (H.branch y.siblingHash cur) A.length
        (A ++ { x with siblingHash := H.branch y.siblingHash cur } ::
              { y with siblingHash := cur } :: (B ++ { z with siblingHash := y.siblingHash } :: C))
        st := by
  have h1 : (A ++ x :: y :: (B ++ z :: C))[A.length + 1]? = some y := by
    rw [List.getElem?_append_right (by omega)]
    simp
  have s1 : setSib (A ++ x :: y :: (B ++ z :: C)) A.length (H.branch y.siblingHash cur) =
      some (A ++ { x with siblingHash := H.branch y.siblingHash cur } :: y :: (B ++ z :: C)) := by
    simp [setSib]
  have s2 : ∀ x' : SNode α ν, setSib (A ++ x' :: y :: (B ++ z :: C)) (A.length + 1) cur =
      some (A ++ x' :: { y with siblingHash := cur } :: (B ++ z :: C)) := by
    intro x'
    have : (A ++ x' :: y :: (B ++ z :: C))[A.length + 1]? = some y := by
      rw [List.getElem?_append_right (by omega)]; simp
    simp only [setSib, this]
    rw [List.set_append_right _ _ (by omega)]
    simp
  have s3 : ∀ x' y' : SNode α ν, setSib (A ++ x' :: y' :: (B ++ z :: C)) (A.length + 2 + B.length)
        y.siblingHash =
      some (A ++ x' :: y' :: (B ++ { z with siblingHash := y.siblingHash } :: C)) := by
    intro x' y'
    have e : A ++ x' :: y' :: (B ++ z :: C) = (A ++ x' :: y' :: B) ++ z :: C := by simp
    have e' : A ++ x' :: y' :: (B ++ { z with siblingHash := y.siblingHash } :: C)
        = (A ++ x' :: y' :: B) ++ { z with siblingHash := y.siblingHash } :: C := by simp
    have hl : (A ++ x' :: y' :: B).length = A.length + 2 + B.length := by simp; omega
    rw [e, e', ← hl]
    simp [setSib]
  rw [climb, h1]
  simp only [s1, s2, s3]

/-- MAIN INVARIANT.  Folding the loop body over the leaves of a subtree `t` whose root is at
depth `stack.length + j` (the `j` missing ancestors are pushed lazily by step 1) reaches the
state in which the subtree's nodes are complete, its root carries its own hash, and step 3 is
about to continue above the subtree's root. -/
theorem fold_subtree (H : HashAlg α ν) (t : Tree α) :
    ∀ (j : Nat) (nodes : List (SNode α ν)) (stack : List (Bool × Nat)),
      (depthsFrom (stack.length + j) t).foldlM (leafStep H) (nodes, stack) =
        climb H (root H t) (nodes.length + j)
          (nodes ++ List.replicate j ⟨firstLeafHash H t, none⟩ ++ encWith H (root H t) t)
          (parents j nodes.length ++ stack) := by
  induction t with
  | leaf s =>
    intro j nodes stack
    simp only [depthsFrom, List.foldlM_cons, List.foldlM_nil, leafStep, pushParents_eq,
      Nat.add_sub_cancel_left, List.length_append, parents_length, Nat.add_comm j stack.length,
      bne_self_eq_false, Bool.false_eq_true, if_false, List.length_replicate, List.length_cons,
      List.length_nil, Nat.add_sub_cancel, root, firstLeafHash, encWith, rootData, encTail]
    cases h : climb H (H.leafHash s) (nodes.length + j)
      (nodes ++ List.replicate j ⟨H.leafHash s, none⟩ ++ [⟨H.leafHash s, some s⟩])
      (parents j nodes.length ++ stack) <;> simp
  | node l r ihl ihr =>
    intro j nodes stack
    simp only [depthsFrom, List.foldlM_append]
    -- left subtree: its leftmost leaf pushes the `j` ancestors and this node
    have hl := ihl (j + 1) nodes stack
    rw [Nat.add_assoc, hl]
    simp only [parents, List.cons_append, climb]
    -- right subtree: entered with an exact stack
    have hr := ihr 0
      (nodes ++ List.replicate (j + 1) ⟨firstLeafHash H l, none⟩ ++ encWith H (root H l) l)
      ((true, nodes.length + j) :: (parents j nodes.length ++ stack))
    simp only [List.length_cons, List.length_append, parents_length, Nat.add_zero,
      List.replicate_zero, List.append_nil, parents, List.nil_append] at hr
    have e : j + stack.length + 1 = stack.length + (j + 1) := by omega
    rw [e] at hr
    simp only [bind, Option.bind]
    rw [hr]
    -- the climb step that completes this node
    have shape : nodes ++ List.replicate (j + 1) ⟨firstLeafHash H l, none⟩ ++ encWith H (root H l) l
          ++ encWith H (root H r) r =
        (nodes ++ List.replicate j ⟨firstLeafHash H l, none⟩) ++
          (⟨firstLeafHash H l, none⟩ : SNode α ν) :: ⟨root H l, rootData l⟩ ::
            (encTail H l ++ ⟨root H r, rootData r⟩ :: encTail H r) := by
      simp [List.replicate_succ', encWith, List.append_assoc]
    have hidx : nodes.length + List.length (List.replicate (j + 1)
          (⟨firstLeafHash H l, none⟩ : SNode α ν)) + (encWith H (root H l) l).length =
        (nodes ++ List.replicate j (⟨firstLeafHash H l, none⟩ : SNode α ν)).length + 2
          + (encTail H l).length := by
      simp [encWith]; omega
    have hp : nodes.length + j =
        (nodes ++ List.replicate j (⟨firstLeafHash H l, none⟩ : SNode α ν)).length := by simp
    rw [shape, hidx, hp, climb_true]
    simp [root, firstLeafHash, encWith, encTail, rootData, List.append_assoc]

/-- T1 core: the node vector computed for the depth list of a tree -/
theorem nodesFromTapTree_depths (H : HashAlg α ν) (t : Tree α) :
    nodesFromTapTree H (depths t) = some (encWith H (root H t) t) := by
  have h := fold_subtree H t 0 [] []
  simp only [List.length_nil, Nat.add_zero, List.replicate_zero, List.append_nil, parents,
    List.nil_append, climb] at h
  simp [nodesFromTapTree, depths, h]

end MsVerif.Tap

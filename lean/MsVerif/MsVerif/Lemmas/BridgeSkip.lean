/-
Bridge theorem, part 3: conditional balance and the skip lemma.

* `bal d ops` : relative IF-depth after `ops` when started at depth `d` (`none` if an
  ELSE / ENDIF occurs at relative depth 0); `balanced ops := bal 0 ops = some 0`.
* `skipRun` : the opcode-by-opcode effect of a non-executed region on the core state (count
  every opcode, reject an oversized push when limits are on).
* `run_dead` : under a `false` on the condition stack a balanced region acts as `skipRun` and
  restores the condition stack (`run_skip`).
* `skipRun_eq_skipCount` : `skipRun` is the closed form `Frag.skipCount`, provided the op-count
  limit and the push-size limit cannot both fire (`SkipHyp`) and the counter is not already
  over the limit.

Core Lean only.
-/
import MsVerif.Lemmas.BridgeBasic

namespace MsVerif.Bridge
open MsVerif MsVerif.Script

/-! ### balance -/

def bal : Nat → List Op → Option Nat
  | d, [] => some d
  | d, .code .if_ :: r => bal (d + 1) r
  | d, .code .notif :: r => bal (d + 1) r
  | d, .code .else_ :: r => if d = 0 then none else bal d r
  | d, .code .endif :: r => if d = 0 then none else bal (d - 1) r
  | d, _ :: r => bal d r

/-- IF/NOTIF … [ELSE] … ENDIF properly nested, nothing open at the end -/
def balanced (ops : List Op) : Bool := bal 0 ops == some 0

theorem bal_plain_cons (d : Nat) (op : Op) (r : List Op) (h : Op.plain op = true) :
    bal d (op :: r) = bal d r := by
  cases op with
  | code o => cases o <;> first | (simp [Op.plain, Opc.plain] at h; done) | rfl
  | _ => rfl

theorem bal_append (d : Nat) (xs ys : List Op) :
    bal d (xs ++ ys) = (bal d xs).bind (fun d' => bal d' ys) := by
  induction xs generalizing d with
  | nil => rfl
  | cons op xs ih =>
    rw [List.cons_append]
    cases op with
    | code o =>
      cases o
      case if_ => simp only [bal]; exact ih _
      case notif => simp only [bal]; exact ih _
      case else_ =>
        simp only [bal]
        split
        · rfl
        · exact ih _
      case endif =>
        simp only [bal]
        split
        · rfl
        · exact ih _
      all_goals (simp only [bal]; exact ih _)
    | small n => simp only [bal]; exact ih _
    | push bs => simp only [bal]; exact ih _
    | bad b => simp only [bal]; exact ih _

theorem bal_shift (d d' k : Nat) (xs : List Op) (h : bal d xs = some d') :
    bal (d + k) xs = some (d' + k) := by
  induction xs generalizing d with
  | nil => simp only [bal] at h ⊢; cases h; rfl
  | cons op xs ih =>
    cases op with
    | code o =>
      cases o
      case if_ =>
        simp only [bal] at h ⊢
        have := ih (d + 1) h
        rw [show d + k + 1 = d + 1 + k by omega]; exact this
      case notif =>
        simp only [bal] at h ⊢
        have := ih (d + 1) h
        rw [show d + k + 1 = d + 1 + k by omega]; exact this
      case else_ =>
        simp only [bal] at h ⊢
        split at h
        · cases h
        · rename_i hd
          rw [if_neg (by omega)]
          exact ih d h
      case endif =>
        simp only [bal] at h ⊢
        split at h
        · cases h
        · rename_i hd
          rw [if_neg (by omega)]
          have := ih (d - 1) h
          rw [show d + k - 1 = d - 1 + k by omega]; exact this
      all_goals (simp only [bal] at h ⊢; exact ih d h)
    | small n => simp only [bal] at h ⊢; exact ih d h
    | push bs => simp only [bal] at h ⊢; exact ih d h
    | bad b => simp only [bal] at h ⊢; exact ih d h

theorem balanced_iff (ops : List Op) : balanced ops = true ↔ bal 0 ops = some 0 := by
  simp [balanced]

theorem bal_of_balanced (d : Nat) (ops : List Op) (h : balanced ops = true) : bal d ops = some d := by
  have := bal_shift 0 0 d ops ((balanced_iff ops).1 h)
  simpa using this

theorem balanced_nil : balanced [] = true := rfl

theorem balanced_append (xs ys : List Op) (hx : balanced xs = true) (hy : balanced ys = true) :
    balanced (xs ++ ys) = true := by
  rw [balanced_iff] at *
  rw [bal_append, hx]; exact hy

theorem balanced_plain_cons (op : Op) (ops : List Op) (h : Op.plain op = true)
    (hy : balanced ops = true) : balanced (op :: ops) = true := by
  rw [balanced_iff] at *
  rw [bal_plain_cons 0 op ops h]; exact hy

theorem balanced_straight (ops : List Op) (h : straight ops = true) : balanced ops = true := by
  induction ops with
  | nil => rfl
  | cons op ops ih =>
    simp only [straight, List.all_cons, Bool.and_eq_true] at h
    exact balanced_plain_cons op ops h.1 (ih h.2)

/-- `OP_NOTIF` (`true`) or `OP_IF` (`false`) -/
def condOpc : Bool → Opc
  | true => .notif
  | false => .if_

theorem bal_append_plain (d : Nat) (pre : List Op) (op : Op) (h : Op.plain op = true) :
    bal d (pre ++ [op]) = bal d pre := by
  rw [bal_append]
  cases bal d pre with
  | none => rfl
  | some d' => simp only [Option.bind_some]; rw [bal_plain_cons d' op [] h]; rfl

/-- `IF X ENDIF` / `NOTIF X ENDIF` -/
theorem balanced_ifThen (nf : Bool) (xs : List Op) (hx : balanced xs = true) :
    balanced (.code (condOpc nf) :: (xs ++ [.code .endif])) = true := by
  rw [balanced_iff]
  have h1 : bal 1 (xs ++ [.code .endif]) = some 0 := by
    rw [bal_append, bal_of_balanced 1 xs hx]; rfl
  cases nf <;> exact h1

/-- `IF X ELSE Y ENDIF` / `NOTIF X ELSE Y ENDIF` -/
theorem balanced_ifElse (nf : Bool) (xs ys : List Op) (hx : balanced xs = true) (hy : balanced ys = true) :
    balanced (.code (condOpc nf) :: (xs ++ .code .else_ :: (ys ++ [.code .endif]))) = true := by
  rw [balanced_iff]
  have h2 : bal 1 (ys ++ [.code .endif]) = some 0 := by
    rw [bal_append, bal_of_balanced 1 ys hy]; rfl
  have h1 : bal 1 (xs ++ .code .else_ :: (ys ++ [.code .endif])) = some 0 := by
    rw [bal_append, bal_of_balanced 1 xs hx]; exact h2
  cases nf <;> exact h1

/-! ### the opcode-by-opcode effect of a dead region -/

def skipStep (env : Env) (c : Core) (op : Op) : Except Err Core :=
  match op with
  | .code _ => countOp env c 1
  | .push bs => if env.flags.stackLimits && bs.length > 520 then .error .pushSize else .ok c
  | _ => .ok c

def skipRun (env : Env) (ops : List Op) (c : Core) : Except Err Core := ops.foldlM (skipStep env) c

theorem skipRun_cons (env : Env) (op : Op) (ops : List Op) (c : Core) :
    skipRun env (op :: ops) c = (skipStep env c op >>= skipRun env ops) := by
  simp only [skipRun, List.foldlM_cons]; rfl

theorem not_exec_of_false (inner outer : List Bool) : (inner ++ false :: outer).all id = false := by
  simp

/-- one element in a non-executing state whose condition stack is `inner ++ false :: outer`
with `inner.length = d` -/
theorem step_dead (env : Env) (op : Op) (rest : List Op) (c : Core) (inner outer : List Bool)
    (d' : Nat) (hb : bal inner.length (op :: rest) = some d') :
    ∃ inner', bal inner'.length rest = some d' ∧
      step env ⟨c, inner ++ false :: outer⟩ op
        = (skipStep env c op).map (fun c' => ⟨c', inner' ++ false :: outer⟩) := by
  have hne : State.executing ⟨c, inner ++ false :: outer⟩ = false := not_exec_of_false inner outer
  cases op with
  | small n => exact ⟨inner, by simpa [bal] using hb, by simp [step, hne, skipStep]⟩
  | bad b => exact ⟨inner, by simpa [bal] using hb, by simp [step, hne, skipStep]⟩
  | push bs =>
    refine ⟨inner, by simpa [bal] using hb, ?_⟩
    simp only [step, hne, skipStep]
    split <;> simp
  | code o =>
    cases o
    case if_ =>
      refine ⟨false :: inner, by simpa [bal] using hb, ?_⟩
      simp only [step, hne, skipStep]
      cases countOp env c 1 <;> simp
    case notif =>
      refine ⟨false :: inner, by simpa [bal] using hb, ?_⟩
      simp only [step, hne, skipStep]
      cases countOp env c 1 <;> simp
    case else_ =>
      simp only [bal] at hb
      split at hb
      · cases hb
      · rename_i hd
        cases inner with
        | nil => exact absurd rfl hd
        | cons b inner0 =>
          refine ⟨(!b) :: inner0, by simpa using hb, ?_⟩
          simp only [step, skipStep, List.cons_append]
          cases countOp env c 1 <;> simp
    case endif =>
      simp only [bal] at hb
      split at hb
      · cases hb
      · rename_i hd
        cases inner with
        | nil => exact absurd rfl hd
        | cons b inner0 =>
          refine ⟨inner0, by simpa using hb, ?_⟩
          simp only [step, skipStep, List.cons_append]
          cases countOp env c 1 <;> simp
    all_goals
      refine ⟨inner, by simpa [bal] using hb, ?_⟩
      simp only [step, hne, skipStep]
      cases countOp env c 1 <;> simp

theorem run_dead (env : Env) (ops : List Op) (c : Core) (inner outer : List Bool) (d' : Nat)
    (hb : bal inner.length ops = some d') :
    ∃ inner', inner'.length = d' ∧
      run env ops ⟨c, inner ++ false :: outer⟩
        = (skipRun env ops c).map (fun c' => ⟨c', inner' ++ false :: outer⟩) := by
  induction ops generalizing c inner with
  | nil =>
    simp only [bal, Option.some.injEq] at hb
    exact ⟨inner, hb, rfl⟩
  | cons op ops ih =>
    obtain ⟨inner1, hb1, hstep⟩ := step_dead env op ops c inner outer d' hb
    rw [run_cons, skipRun_cons, hstep]
    cases hk : skipStep env c op with
    | error e => exact ⟨List.replicate d' true, by simp, rfl⟩
    | ok c1 =>
      obtain ⟨inner', hl, hrun⟩ := ih c1 inner1 hb1
      exact ⟨inner', hl, hrun⟩

/-- a balanced region directly under a `false` -/
theorem run_skip (env : Env) (ops : List Op) (hb : balanced ops = true) (c : Core) (cs : List Bool) :
    run env ops ⟨c, false :: cs⟩ = lift (false :: cs) (skipRun env ops c) := by
  obtain ⟨inner', hl, hrun⟩ := run_dead env ops c [] cs 0 ((balanced_iff ops).1 hb)
  cases inner' with
  | nil => exact hrun
  | cons _ _ => cases hl

/-! ### closed form -/

/-- the op-count limit is effective -/
def cntLim (env : Env) : Bool := env.flags.opLimit && !env.flags.tapscript

/-- some data push exceeds 520 bytes -/
def bigPush (s : List Op) : Bool :=
  s.any (fun o => match o with | .push bs => decide (bs.length > 520) | _ => false)

/-- the closed form `skipCount` reports the errors of a dead region in the same order as the
interpreter: not both limits can fire inside `ops` -/
def SkipHyp (env : Env) (ops : List Op) : Prop :=
  cntLim env = false ∨ env.flags.stackLimits = false ∨ bigPush ops = false

/-- the opcode counter is within the limit (true after every successful `countOp`) -/
def CntOk (env : Env) (c : Core) : Prop := cntLim env = true → c.ops ≤ 201

theorem countOp_eq (env : Env) (c : Core) (n : Nat) :
    countOp env c n = if cntLim env && decide (c.ops + n > 201) then .error .opCount
      else .ok { c with ops := c.ops + n } := rfl

theorem countOp_cntOk (env : Env) (c c' : Core) (n : Nat) (h : countOp env c n = .ok c') : CntOk env c' := by
  rw [countOp_eq] at h
  split at h
  · cases h
  · rename_i hn
    cases h
    intro hl
    simp only [hl, Bool.true_and, decide_eq_true_eq] at hn
    show c.ops + n ≤ 201
    omega

theorem countOp_zero (env : Env) (c : Core) (h : CntOk env c) : countOp env c 0 = .ok c := by
  rw [countOp_eq]
  split
  · rename_i hn
    simp only [Bool.and_eq_true, decide_eq_true_eq] at hn
    have := h hn.1
    omega
  · rfl

theorem countOp_countOp (env : Env) (c : Core) (m n : Nat) :
    (countOp env c m >>= fun c1 => countOp env c1 n) =
      (if cntLim env && decide (c.ops + m > 201) then .error .opCount else countOp env c (m + n)) := by
  simp only [countOp_eq]
  split
  · rfl
  · simp only [bind_ok, Nat.add_assoc]

theorem codeCount_cons_code (o : Opc) (ops : List Op) : codeCount (.code o :: ops) = codeCount ops + 1 := by
  simp [codeCount]

theorem codeCount_cons_plain (op : Op) (ops : List Op) (h : ∀ o, op ≠ .code o) :
    codeCount (op :: ops) = codeCount ops := by
  cases op with
  | code o => exact absurd rfl (h o)
  | _ => simp [codeCount]

theorem skipCount_eq (env : Env) (ops : List Op) (c : Core) :
    skipCount env ops c =
      if env.flags.stackLimits && bigPush ops then .error .pushSize else countOp env c (codeCount ops) := rfl

theorem bigPush_cons (op : Op) (ops : List Op) :
    bigPush (op :: ops) = ((match op with | .push bs => decide (bs.length > 520) | _ => false) || bigPush ops) := by
  simp [bigPush]

theorem bigPush_append (xs ys : List Op) : bigPush (xs ++ ys) = (bigPush xs || bigPush ys) := by
  simp [bigPush]

theorem skipRun_eq_skipCount (env : Env) (ops : List Op) (c : Core) (hk : SkipHyp env ops)
    (hc : CntOk env c) : skipRun env ops c = skipCount env ops c := by
  induction ops generalizing c with
  | nil =>
    rw [skipCount_eq]
    simp only [bigPush, List.any_nil, Bool.and_false, Bool.false_eq_true, if_false]
    show Except.ok c = countOp env c 0
    rw [countOp_zero env c hc]
  | cons op ops ih =>
    have hk' : SkipHyp env ops := by
      rcases hk with h | h | h
      · exact .inl h
      · exact .inr (.inl h)
      · rw [bigPush_cons, Bool.or_eq_false_iff] at h; exact .inr (.inr h.2)
    rw [skipRun_cons]
    cases op with
    | code o =>
      simp only [skipStep]
      have : (countOp env c 1 >>= skipRun env ops) = (countOp env c 1 >>= skipCount env ops) := by
        cases h1 : countOp env c 1 with
        | error e => rfl
        | ok c1 => exact ih c1 hk' (countOp_cntOk env c c1 1 h1)
      rw [this, skipCount_eq, bigPush_cons, codeCount_cons_code]
      simp only [Bool.false_or]
      have hfun : skipCount env ops = fun c1 =>
          if env.flags.stackLimits && bigPush ops then .error .pushSize else countOp env c1 (codeCount ops) := by
        funext c1; exact skipCount_eq env ops c1
      rw [hfun]
      by_cases hbp : (env.flags.stackLimits && bigPush ops) = true
      · -- an oversized push follows: the count limit must be off
        simp only [hbp, if_true]
        have hcl : cntLim env = false := by
          rcases hk' with h | h | h
          · exact h
          · simp [h] at hbp
          · simp [h] at hbp
        rw [countOp_eq, hcl]; rfl
      · simp only [hbp, Bool.false_eq_true, if_false]
        rw [countOp_countOp, Nat.add_comm 1]
        split
        · rename_i h1
          rw [countOp_eq]
          simp only [Bool.and_eq_true, decide_eq_true_eq] at h1
          rw [if_pos]
          simp only [Bool.and_eq_true, decide_eq_true_eq]
          exact ⟨h1.1, by omega⟩
        · rfl
    | push bs =>
      simp only [skipStep]
      rw [skipCount_eq, bigPush_cons, codeCount_cons_plain _ _ (by intro o h; cases h)]
      by_cases hb : (env.flags.stackLimits && decide (bs.length > 520)) = true
      · have : (env.flags.stackLimits && (decide (bs.length > 520) || bigPush ops)) = true := by
          simp only [Bool.and_eq_true] at hb ⊢
          exact ⟨hb.1, by simp [hb.2]⟩
        simp only [hb, this, if_true, bind_error]
      · simp only [hb, Bool.false_eq_true, if_false, bind_ok]
        rw [ih c hk' hc, skipCount_eq]
        have : (env.flags.stackLimits && (decide (bs.length > 520) || bigPush ops))
            = (env.flags.stackLimits && bigPush ops) := by
          cases hs : env.flags.stackLimits
          · rfl
          · simp only [hs, Bool.true_and] at hb ⊢
            simp only [Bool.not_eq_true] at hb
            rw [hb]; rfl
        rw [this]
    | small n =>
      simp only [skipStep, bind_ok]
      rw [ih c hk' hc, skipCount_eq, skipCount_eq, bigPush_cons,
        codeCount_cons_plain _ _ (by intro o h; cases h)]
      simp only [Bool.false_or]
    | bad b =>
      simp only [skipStep, bind_ok]
      rw [ih c hk' hc, skipCount_eq, skipCount_eq, bigPush_cons,
        codeCount_cons_plain _ _ (by intro o h; cases h)]
      simp only [Bool.false_or]

end MsVerif.Bridge

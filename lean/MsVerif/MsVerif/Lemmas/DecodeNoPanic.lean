/-
The decoder never reaches one of its `unwrap()`s / `assert_eq!`s: a stack-height invariant
between the nonterminal stack and the terminal stack.

Every nonterminal needs a minimum height of `term` when it is popped and has a net effect on
it (`Expression`: +1, `Check`: needs 1 / ±0, `AndB`: needs 2 / −1, `Tern`: needs 3 / −2,
`ThreshE{n}`: needs n / −(n−1) …).  `sim h nt` runs these effects over the whole stack;
the invariant is `sim term.len non_term = some 1`.
-/
import MsVerif.Lemmas.DecodeBasic

namespace MsVerif
namespace DecodeL

/-- (required height, height afterwards) -/
def need : NonTerm → Nat
  | .expression | .wExpression => 0
  | .maybeAndV | .swap | .alt | .check | .dupIf | .verify | .nonZero | .zeroNotEqual
  | .endIf | .endIfNotIf => 1
  | .andV | .andB | .orB | .orC | .orD | .endIfElse => 2
  | .tern => 3
  | .threshW _ n | .threshE _ n => n

def after (h : Nat) : NonTerm → Nat
  | .expression | .wExpression => h + 1
  | .maybeAndV | .swap | .alt | .check | .dupIf | .verify | .nonZero | .zeroNotEqual
  | .endIf | .endIfNotIf => h
  | .andV | .andB | .orB | .orC | .orD | .endIfElse => h - 1
  | .tern => h - 2
  | .threshW _ n | .threshE _ n => h - n + 1

def sim : Nat → List NonTerm → Option Nat
  | h, [] => some h
  | h, x :: l => if need x ≤ h then sim (after h x) l else none

theorem sim_append (h : Nat) (a b : List NonTerm) :
    sim h (a ++ b) = (sim h a).bind (fun h' => sim h' b) := by
  induction a generalizing h with
  | nil => simp [sim]
  | cons x a ih =>
    simp only [List.cons_append, sim]
    split
    · exact ih _
    · rfl

def Inv (s : DState) : Prop := sim s.term.length s.nt = some 1

theorem inv_init (toks : List Token) : Inv (initState toks) := by
  simp [Inv, initState, sim, need, after]

/-! ### sub-parsers never return `.panic` -/

theorem parseKey_np {dec : AtomDec} {ctx : Ctx} {bs : Bytes} {e : DecodeErr}
    (h : parseKey dec ctx bs = .error e) : e ≠ .panic := by
  unfold parseKey at h
  dsimp only at h
  split at h <;> cases h <;> decide

theorem lookupHash_np {dec : AtomDec} {k : HashKind} {bs : Bytes} {e : DecodeErr}
    (h : lookupHash dec k bs = .error e) : e ≠ .panic := by
  unfold lookupHash at h; split at h <;> cases h; decide

theorem lookupRawPkh_np {dec : AtomDec} {bs : Bytes} {e : DecodeErr}
    (h : lookupRawPkh dec bs = .error e) : e ≠ .panic := by
  unfold lookupRawPkh at h; split at h <;> cases h; decide

theorem expectSeq_np {es ts : List Token} {e : DecodeErr}
    (h : expectSeq es ts = .error e) : e ≠ .panic := by
  induction es generalizing ts with
  | nil => simp [expectSeq] at h
  | cons x es ih =>
    cases ts with
    | nil => simp [expectSeq] at h; subst h; decide
    | cons t ts =>
      simp only [expectSeq] at h
      split at h
      · exact ih h
      · cases h; decide

theorem fromAst_np {env : KeyEnv} {ctx : Ctx} {ms : Ms} {e : DecodeErr}
    (h : fromAst env ctx ms = .error e) : e ≠ .panic := by
  unfold fromAst at h
  repeat' split at h
  all_goals first
    | (cases h; done)
    | (cases h; decide)

theorem fromAst_ok {env : KeyEnv} {ctx : Ctx} {ms m : Ms}
    (h : fromAst env ctx ms = .ok m) : m = ms := by
  unfold fromAst at h
  repeat' split at h
  all_goals (cases h)
  rfl

theorem readMultiKeys_np {dec : AtomDec} {ctx : Ctx} (n : Nat) (ts : List Token) (acc : List Key) :
    ∀ e, readMultiKeys dec ctx n ts acc = .error e → e ≠ .panic := by
  fun_induction readMultiKeys dec ctx n ts acc <;> intro e h
  · cases h
  · cases h; decide
  · cases h; exact parseKey_np (by assumption)
  · rename_i ih; exact ih e h
  · cases h; exact parseKey_np (by assumption)
  · rename_i ih; exact ih e h
  · cases h; decide

theorem readCsaKeys_np {dec : AtomDec} {ctx : Ctx} (ts : List Token) (acc : List Key) :
    ∀ e, readCsaKeys dec ctx ts acc = .error e → e ≠ .panic := by
  fun_induction readCsaKeys dec ctx ts acc <;> intro e h
  · cases h; exact parseKey_np (by assumption)
  · rename_i ih; exact ih e h
  · cases h; decide
  · cases h; decide
  · cases h

/-- close a goal `e ≠ .panic` after all `split`s: literal error, or propagated from a callee -/
macro "np_close" : tactic => `(tactic| first
  | decide
  | exact parseKey_np (by assumption)
  | exact lookupHash_np (by assumption)
  | exact lookupRawPkh_np (by assumption)
  | exact expectSeq_np (by assumption)
  | exact fromAst_np (by assumption)
  | exact readMultiKeys_np _ _ _ _ (by assumption)
  | exact readCsaKeys_np _ _ _ (by assumption))

theorem exprAfterEqual_np {dec : AtomDec} {v : Bool} {ts : List Token} {e : DecodeErr}
    (h : exprAfterEqual dec v ts = .error e) : e ≠ .panic := by
  unfold exprAfterEqual at h
  repeat' split at h
  all_goals first
    | (cases h; done)
    | (cases h; np_close)

theorem exprMulti_np {dec : AtomDec} {ctx : Ctx} {ts : List Token} {e : DecodeErr}
    (h : exprMulti dec ctx ts = .error e) : e ≠ .panic := by
  unfold exprMulti at h
  repeat' (first | split at h | (dsimp only at h))
  all_goals first
    | (cases h; done)
    | (cases h; np_close)

theorem exprMultiA_np {dec : AtomDec} {ctx : Ctx} {ts : List Token} {e : DecodeErr}
    (h : exprMultiA dec ctx ts = .error e) : e ≠ .panic := by
  unfold exprMultiA at h
  repeat' (first | split at h | (dsimp only at h))
  all_goals first
    | (cases h; done)
    | (cases h; np_close)

theorem stepExpr_np {dec : AtomDec} {ctx : Ctx} {ts : List Token} {e : DecodeErr}
    (h : stepExpr dec ctx ts = .error e) : e ≠ .panic := by
  unfold stepExpr at h
  split at h
  all_goals first
    | exact exprAfterEqual_np h
    | exact exprMulti_np h
    | exact exprMultiA_np h
    | skip
  all_goals (repeat' split at h)
  all_goals first
    | exact exprAfterEqual_np h
    | (cases h; done)
    | (cases h; np_close)

/-! ### the invariant is preserved, and rules out every `.panic` site -/

theorem exprShape_sim {p : List NonTerm} {q : Nat} (hs : exprShapeOk p q = true) (h : Nat) :
    sim (q + h) p = some (h + 1) := by
  unfold exprShapeOk at hs
  split at hs <;> first
    | (cases hs; done)
    | (simp [sim, need, after]; try omega)

/-- outcome of a step: a new state satisfying `P`, or a non-panic error -/
def Good (P : DState → Prop) : Except DecodeErr DState → Prop
  | .ok s' => P s'
  | .error e => e ≠ .panic

theorem reduce1_good {env : KeyEnv} {ctx : Ctx} {f : Ms → Ms} {s : DState} (h : 1 ≤ s.term.length) :
    Good (fun s' => s'.toks = s.toks ∧ s'.nt = s.nt ∧ s'.term.length = s.term.length)
      (reduce1 env ctx f s) := by
  unfold reduce1
  split
  · rename_i hn; rw [hn] at h; simp at h
  · rename_i x t ht
    split
    · exact fromAst_np (by assumption)
    · simp [Good, ht]

theorem reduce2_good {env : KeyEnv} {ctx : Ctx} {f : Ms → Ms → Ms} {s : DState} (h : 2 ≤ s.term.length) :
    Good (fun s' => s'.toks = s.toks ∧ s'.nt = s.nt ∧ s'.term.length + 1 = s.term.length)
      (reduce2 env ctx f s) := by
  unfold reduce2
  split
  · rename_i l r t ht
    split
    · exact fromAst_np (by assumption)
    · simp [Good, ht]
  · rename_i hn
    exfalso
    cases hs : s.term with
    | nil => rw [hs] at h; simp at h
    | cons a t =>
      cases t with
      | nil => rw [hs] at h; simp at h
      | cons b t => exact hn a b t hs

theorem popN_some {n : Nat} {t : List Ms} (h : n ≤ t.length) :
    ∃ a r, popN n t = some (a, r) ∧ a.length = n ∧ r.length + n = t.length := by
  induction n generalizing t with
  | zero => exact ⟨[], t, rfl, rfl, rfl⟩
  | succ n ih =>
    cases t with
    | nil => simp at h
    | cons x t =>
      obtain ⟨a, r, h1, h2, h3⟩ := ih (t := t) (by simpa using h)
      exact ⟨x :: a, r, by simp [popN, h1], by simp [h2], by simp; omega⟩

theorem Good.mono {P Q : DState → Prop} {r : Except DecodeErr DState} (h : Good P r)
    (hpq : ∀ s, P s → Q s) : Good Q r := by
  cases r with
  | ok s => exact hpq s h
  | error e => exact h

macro "gerr" : tactic => `(tactic| (show _ ≠ DecodeErr.panic; decide))

theorem stepNT_inv {dec : AtomDec} {env : KeyEnv} {ctx : Ctx} {top : NonTerm}
    {toks : List Token} {nt : List NonTerm} {term : List Ms}
    (hinv : sim term.length (top :: nt) = some 1) :
    Good Inv (stepNT dec env ctx top ⟨toks, nt, term⟩) := by
  simp only [sim] at hinv
  split at hinv
  case isFalse => cases hinv
  rename_i hneed
  cases top
  case expression =>
    simp only [stepNT]
    split
    · exact stepExpr_np (by assumption)
    · rename_i o ho
      have ⟨h1, _⟩ := stepExpr_shape ho
      simp only [Good, Inv, List.length_append, sim_append, exprShape_sim h1]
      simpa [after] using hinv
  case maybeAndV =>
    simp only [stepNT]
    split
    · simp only [Good, Inv, sim, need, after] at hinv hneed ⊢
      simp only [Nat.zero_le, if_true]
      have : 2 ≤ term.length + 1 := by omega
      simpa [this] using hinv
    · simpa [Good, Inv, after] using hinv
  case andV =>
    simp only [stepNT]
    split
    · simp only [Good, Inv, sim, need, after] at hinv hneed ⊢
      simp [hneed, hinv]
      intro hn; rw [hn] at hneed; simp at hneed
    · refine (reduce2_good (s := ⟨toks, nt, term⟩) (by simpa [need] using hneed)).mono ?_
      rintro s' ⟨_, e2, e3⟩
      simp only at e2 e3
      simp only [Inv, e2]
      have : s'.term.length = term.length - 1 := by omega
      rw [this]; simpa [after] using hinv
  case check | dupIf | verify | nonZero | zeroNotEqual =>
    simp only [stepNT]
    refine (reduce1_good (s := ⟨toks, nt, term⟩) (by simpa [need] using hneed)).mono ?_
    rintro s' ⟨_, e2, e3⟩
    simp only at e2 e3
    simp only [Inv, e2, e3]; simpa [after] using hinv
  case andB | orB | orC | orD =>
    simp only [stepNT]
    refine (reduce2_good (s := ⟨toks, nt, term⟩) (by simpa [need] using hneed)).mono ?_
    rintro s' ⟨_, e2, e3⟩
    simp only at e2 e3
    simp only [Inv, e2]
    have : s'.term.length = term.length - 1 := by omega
    rw [this]; simpa [after] using hinv
  case tern =>
    simp only [stepNT]
    simp only [need] at hneed
    match term, hneed, hinv with
    | a :: b :: c :: t, _, hinv =>
      simp only
      split
      · exact fromAst_np (by assumption)
      · simpa [Good, Inv, after] using hinv
  case threshE k n =>
    simp only [stepNT]
    obtain ⟨a, r, h1, h2, h3⟩ := popN_some (n := n) (t := term) (by simpa [need] using hneed)
    rw [h1]
    simp only
    repeat' split
    · gerr
    · exact fromAst_np (by assumption)
    · simp only [Good, Inv, List.length_cons]
      have : r.length + 1 = term.length - n + 1 := by omega
      rw [this]; simpa [after] using hinv
  case swap | alt =>
    simp only [stepNT]
    split
    · gerr
    · rename_i ts
      refine (reduce1_good (s := ⟨ts, nt, term⟩) (by simpa [need] using hneed)).mono ?_
      rintro s' ⟨_, e2, e3⟩
      simp only at e2 e3
      simp only [Inv, e2, e3]; simpa [after] using hinv
    · gerr
  case threshW k n =>
    simp only [stepNT]
    simp only [need, after] at hneed hinv
    split
    · gerr
    · simp only [Good, Inv, sim, need, after, Nat.zero_le, if_true]
      have : n + 1 ≤ term.length + 1 := by omega
      simp only [this, if_true]
      have : term.length + 1 - (n + 1) + 1 = term.length - n + 1 := by omega
      rw [this]; exact hinv
    · simp only [Good, Inv, sim, need, after, Nat.zero_le, if_true]
      have : n + 1 ≤ term.length + 1 := by omega
      simp only [this, if_true]
      have : term.length + 1 - (n + 1) + 1 = term.length - n + 1 := by omega
      rw [this]; exact hinv
  case endIf =>
    simp only [stepNT]
    simp only [need, after] at hneed hinv
    repeat' split
    all_goals first
      | gerr
      | (simp only [Good, Inv, sim, need, after, Nat.zero_le, if_true]
         have h2 : 2 ≤ term.length + 1 := by omega
         have h1 : 1 ≤ term.length + 1 := by omega
         simp [h1, h2, hneed, hinv])
  case endIfNotIf =>
    simp only [stepNT]
    simp only [need, after] at hneed hinv
    split
    · gerr
    all_goals
      simp only [Good, Inv, sim, need, after, Nat.zero_le, if_true]
      have h2 : 2 ≤ term.length + 1 := by omega
      simp [h2, hinv]
  case endIfElse =>
    simp only [stepNT]
    simp only [need, after] at hneed hinv
    split
    · gerr
    · rename_i ts
      refine (reduce2_good (s := ⟨ts, nt, term⟩) (by simpa using hneed)).mono ?_
      rintro s' ⟨_, e2, e3⟩
      simp only at e2 e3
      simp only [Inv, e2]
      have : s'.term.length = term.length - 1 := by omega
      rw [this]; exact hinv
    · simp only [Good, Inv, sim, need, after, Nat.zero_le, if_true]
      have h3 : 3 ≤ term.length + 1 := by omega
      simp only [h3, if_true]
      have : term.length + 1 - 2 = term.length - 1 := by omega
      rw [this]; exact hinv
    · gerr
  case wExpression =>
    simp only [stepNT]
    simp only [need, after] at hneed hinv
    split
    · gerr
    all_goals
      simp only [Good, Inv, sim, need, after, Nat.zero_le, if_true]
      have h1 : 1 ≤ term.length + 1 := by omega
      simp [h1, hinv]

/-- no reachable `.panic`: from a state satisfying the invariant the loop never answers `.panic` -/
theorem decodeLoop_no_panic {dec : AtomDec} {env : KeyEnv} {ctx : Ctx} :
    ∀ (fuel : Nat) (s : DState), Inv s → decodeLoop dec env ctx fuel s ≠ some (.error .panic) := by
  intro fuel
  induction fuel with
  | zero => intro s _; simp [decodeLoop]
  | succ f ih =>
    intro s hinv
    obtain ⟨toks, nt, term⟩ := s
    cases nt with
    | nil =>
      simp only [Inv, sim] at hinv
      simp only [decodeLoop]
      match term, hinv with
      | [m], _ => simp
    | cons top nt =>
      simp only [decodeLoop]
      have := stepNT_inv (dec := dec) (env := env) (ctx := ctx) (toks := toks) hinv
      split
      · rename_i e he
        rw [he] at this
        simp only [Good] at this
        simpa using this
      · rename_i s' hs
        rw [hs] at this
        exact ih s' this

end DecodeL
end MsVerif

/-
Engine-level lemmas for C10: well-formedness of the class accumulator, the "separated"
invariant between two engines fed the same characters, injectivity of the output mapping.
-/
import MsVerif.Lemmas.ChecksumLinear

namespace MsVerif.Checksum

/-! ## CHAR_MAP -/

theorem charMap_lt : ∀ i, i < 95 → ∃ p, CHAR_MAP[i]? = some p ∧ p < 95 := by decide +kernel

theorem charMap_inj : ∀ i, i < 95 → ∀ j, j < 95 → CHAR_MAP[i]? = CHAR_MAP[j]? → i = j := by
  decide +kernel

def validByte (b : Nat) : Prop := 32 ≤ b ∧ b < 127

theorem validChar_iff (c : Char) : validChar c = true ↔ validByte c.toNat := by
  simp [validChar, validByte]

theorem charMap?_valid (b : Nat) (h : validByte b) : ∃ p, charMap? b = some p ∧ p < 95 := by
  unfold charMap?
  have : ¬ b < 32 := by unfold validByte at h; omega
  simp only [this, if_false]
  exact charMap_lt (b - 32) (by unfold validByte at h; omega)

theorem charMap?_inj (a b : Nat) (ha : validByte a) (hb : validByte b)
    (h : charMap? a = charMap? b) : a = b := by
  unfold charMap? at h
  unfold validByte at ha hb
  have h1 : ¬ a < 32 := by omega
  have h2 : ¬ b < 32 := by omega
  simp only [h1, h2, if_false] at h
  have := charMap_inj (a - 32) (by omega) (b - 32) (by omega) h
  omega

/-! ## one character -/

/-- well-formed engine state: fewer than three pending class digits, `cls` is their base-3 value -/
def WF (en : Engine) : Prop := en.clscount < 3 ∧ en.cls < 3 ^ en.clscount

theorem WF_new : WF Engine.new := by unfold WF Engine.new; decide

/-- the panic-free effect of one character whose CHAR_MAP value is `pos` -/
def next (en : Engine) (pos : Nat) : Engine :=
  let r := inputFe en.residue (pos % 32)
  let cls := en.cls * 3 + pos / 32
  if en.clscount + 1 = 3 then ⟨inputFe r cls, 0, 0⟩ else ⟨r, cls, en.clscount + 1⟩

theorem cls_bound {en : Engine} (h : WF en) {pos : Nat} (hp : pos < 95) :
    en.cls * 3 + pos / 32 < 3 ^ (en.clscount + 1) := by
  obtain ⟨h1, h2⟩ := h
  have : pos / 32 ≤ 2 := by omega
  rw [Nat.pow_succ]; omega

theorem cls_bound27 {en : Engine} (h : WF en) {pos : Nat} (hp : pos < 95) :
    en.cls * 3 + pos / 32 < 27 := by
  have := cls_bound h hp
  obtain ⟨h1, _⟩ := h
  have h3 : en.clscount = 0 ∨ en.clscount = 1 ∨ en.clscount = 2 := by omega
  rcases h3 with h3 | h3 | h3 <;> rw [h3] at this <;> simp at this <;> omega

theorem inputByte_eq {en : Engine} (h : WF en) {b pos : Nat} (hb : charMap? b = some pos)
    (hp : pos < 95) : en.inputByte b = some (next en pos) := by
  unfold Engine.inputByte next
  simp only [hb]
  by_cases h3 : en.clscount + 1 = 3
  · have : en.cls * 3 + pos / 32 < 32 := by have := cls_bound27 h hp; omega
    simp [h3, inputFeChecked, this]
  · simp [h3]

theorem WF_next {en : Engine} (h : WF en) {pos : Nat} (hp : pos < 95) : WF (next en pos) := by
  unfold next
  by_cases h3 : en.clscount + 1 = 3
  · simp only [h3, if_true]; exact ⟨by show 0 < 3; decide, by show 0 < 3 ^ 0; decide⟩
  · simp only [h3, if_false]
    refine ⟨?_, cls_bound h hp⟩
    have := h.1
    show en.clscount + 1 < 3
    omega

/-! ## xor bookkeeping -/

theorem xor4 (a b x y : W) : (a ^^^ x) ^^^ (b ^^^ y) = (a ^^^ b) ^^^ (x ^^^ y) := by
  ext i hi
  simp only [BitVec.getElem_xor]
  generalize a[i] = p; generalize b[i] = q; generalize x[i] = r; generalize y[i] = t
  revert p q r t; decide

theorem xor_swap {a b x y : W} (h : a ^^^ x = b ^^^ y) : a ^^^ b = x ^^^ y := by
  have h0 : (a ^^^ x) ^^^ (b ^^^ y) = 0#40 := by rw [h, BitVec.xor_self]
  rw [xor4] at h0
  exact BitVec.xor_eq_zero_iff.mp h0

/-! ## injectivity of a step in the residue -/

theorem inputFe_inj {a b : W} {e : Nat} (he : e < 32) (h : inputFe a e = inputFe b e) : a = b := by
  rw [inputFe_eq a e he, inputFe_eq b e he] at h
  apply L_inj
  have := xor_swap h
  rw [BitVec.xor_self] at this
  exact BitVec.xor_eq_zero_iff.mp this

theorem ofNat_xor_lt (x y : Nat) (hx : x < 32) (hy : y < 32) :
    (BitVec.ofNat 40 x ^^^ BitVec.ofNat 40 y).toNat < 32 := by
  rw [BitVec.toNat_xor, BitVec.toNat_ofNat, BitVec.toNat_ofNat,
    Nat.mod_eq_of_lt (by omega), Nat.mod_eq_of_lt (by omega)]
  exact Nat.xor_lt_two_pow (n := 5) hx hy

theorem ofNat_ne {x y : Nat} (hx : x < 32) (hy : y < 32) (h : x ≠ y) :
    BitVec.ofNat 40 x ≠ BitVec.ofNat 40 y := by
  intro e
  have := congrArg BitVec.toNat e
  rw [BitVec.toNat_ofNat, BitVec.toNat_ofNat, Nat.mod_eq_of_lt (by omega),
    Nat.mod_eq_of_lt (by omega)] at this
  exact h this

/-- a pending difference below 2^35 cannot be cancelled by two different symbols -/
theorem emit_ne {ra rb : W} {ca cb : Nat} (hd : (ra ^^^ rb).toNat < 2 ^ 35)
    (ha : ca < 32) (hb : cb < 32) (hne : ca ≠ cb) : inputFe ra ca ≠ inputFe rb cb := by
  intro h
  rw [inputFe_eq ra ca ha, inputFe_eq rb cb hb] at h
  -- L (ra ^ rb) = ca ^ cb
  have h2 : L (ra ^^^ rb) = BitVec.ofNat 40 ca ^^^ BitVec.ofNat 40 cb := by
    rw [L_xor]; exact xor_swap h
  have h3 := congrArg BitVec.toNat h2
  rw [L_small _ hd] at h3
  have hlt := ofNat_xor_lt ca cb ha hb
  have hnz : (BitVec.ofNat 40 ca ^^^ BitVec.ofNat 40 cb).toNat ≠ 0 := by
    intro hz
    have : BitVec.ofNat 40 ca ^^^ BitVec.ofNat 40 cb = 0#40 := BitVec.eq_of_toNat_eq (by simpa using hz)
    exact ofNat_ne ha hb hne (BitVec.xor_eq_zero_iff.mp this)
  omega

/-! ## the "separated" invariant -/

/-- two engines that have consumed equally many characters and can no longer reach the same
residue by consuming the same characters -/
def Sep (a b : Engine) : Prop :=
  a.clscount = b.clscount ∧ WF a ∧ WF b ∧
  ((a.cls = b.cls ∧ a.residue ≠ b.residue) ∨
   (a.cls ≠ b.cls ∧ (a.residue ^^^ b.residue).toNat < 2 ^ (5 * a.clscount)))

theorem xor_inputFe (ra rb : W) (e : Nat) (he : e < 32) :
    inputFe ra e ^^^ inputFe rb e = L (ra ^^^ rb) := by
  rw [inputFe_eq ra e he, inputFe_eq rb e he, L_xor, xor4, BitVec.xor_self, BitVec.xor_zero]

theorem pow_le_35 {k : Nat} (hk : k < 3) : 2 ^ (5 * k) ≤ 2 ^ 10 :=
  Nat.pow_le_pow_right (by decide) (by omega)

theorem Sep_next {a b : Engine} (h : Sep a b) {pos : Nat} (hp : pos < 95) :
    Sep (next a pos) (next b pos) := by
  obtain ⟨hc, wa, wb, hd⟩ := h
  have wa' := WF_next wa hp
  have wb' := WF_next wb hp
  have hlo : pos % 32 < 32 := Nat.mod_lt _ (by decide)
  have ca := cls_bound27 wa hp
  have cb := cls_bound27 wb hp
  refine ⟨?_, wa', wb', ?_⟩
  · unfold next; rw [hc]; by_cases h3 : b.clscount + 1 = 3 <;> simp [h3]
  · rcases hd with ⟨hcls, hres⟩ | ⟨hcls, hsmall⟩
    · -- same class digits so far, residues differ: stays so
      left
      have hr : inputFe a.residue (pos % 32) ≠ inputFe b.residue (pos % 32) :=
        fun e => hres (inputFe_inj hlo e)
      unfold next; rw [hc, hcls]
      by_cases h3 : b.clscount + 1 = 3
      · simp only [h3, if_true, true_and]
        exact fun e => hr (inputFe_inj (by omega) e)
      · simp only [h3, if_false, true_and]; exact hr
    · have hx := xor_inputFe a.residue b.residue (pos % 32) hlo
      have h35 : (a.residue ^^^ b.residue).toNat < 2 ^ 35 := by
        have := pow_le_35 wa.1; omega
      have hsm : (inputFe a.residue (pos % 32) ^^^ inputFe b.residue (pos % 32)).toNat
          < 2 ^ (5 * (a.clscount + 1)) := by
        rw [hx, L_small _ h35]
        have : 2 ^ (5 * (a.clscount + 1)) = 2 ^ (5 * a.clscount) * 32 := by
          rw [show 5 * (a.clscount + 1) = 5 * a.clscount + 5 by omega, Nat.pow_add]
        omega
      have hclsne : a.cls * 3 + pos / 32 ≠ b.cls * 3 + pos / 32 := by omega
      unfold next
      by_cases h3 : a.clscount + 1 = 3
      · have h3b : b.clscount + 1 = 3 := by omega
        left
        simp only [h3, h3b, if_true, true_and]
        apply emit_ne _ (by omega) (by omega) hclsne
        have : 2 ^ (5 * (a.clscount + 1)) ≤ 2 ^ 35 := Nat.pow_le_pow_right (by decide) (by omega)
        omega
      · have h3b : ¬ b.clscount + 1 = 3 := by omega
        right
        simp only [h3, h3b, if_false]
        exact ⟨hclsne, hsm⟩

/-- two different characters fed to the same engine separate it -/
theorem Sep_diverge {en : Engine} (w : WF en) {p q : Nat} (hp : p < 95) (hq : q < 95)
    (hne : p ≠ q) : Sep (next en p) (next en q) := by
  have wa' := WF_next w hp
  have wb' := WF_next w hq
  have hlo : p % 32 < 32 := Nat.mod_lt _ (by decide)
  have hlo' : q % 32 < 32 := Nat.mod_lt _ (by decide)
  have ca := cls_bound27 w hp
  have cb := cls_bound27 w hq
  refine ⟨?_, wa', wb', ?_⟩
  · unfold next; by_cases h3 : en.clscount + 1 = 3 <;> simp [h3]
  · have hx : inputFe en.residue (p % 32) ^^^ inputFe en.residue (q % 32)
        = BitVec.ofNat 40 (p % 32) ^^^ BitVec.ofNat 40 (q % 32) := by
      rw [inputFe_eq _ _ hlo, inputFe_eq _ _ hlo', xor4, BitVec.xor_self, BitVec.zero_xor]
    have hsm : (inputFe en.residue (p % 32) ^^^ inputFe en.residue (q % 32)).toNat < 32 := by
      rw [hx]; exact ofNat_xor_lt _ _ hlo hlo'
    by_cases hg : p / 32 = q / 32
    · -- same class: the 5-bit symbols differ
      have hl : p % 32 ≠ q % 32 := by omega
      have hr : inputFe en.residue (p % 32) ≠ inputFe en.residue (q % 32) := by
        intro e
        have : inputFe en.residue (p % 32) ^^^ inputFe en.residue (q % 32) = 0#40 := by
          rw [e, BitVec.xor_self]
        rw [hx] at this
        exact ofNat_ne hlo hlo' hl (BitVec.xor_eq_zero_iff.mp this)
      left
      unfold next; rw [hg]
      by_cases h3 : en.clscount + 1 = 3
      · simp only [h3, if_true, true_and]
        exact fun e => hr (inputFe_inj (by omega) e)
      · simp only [h3, if_false, true_and]; exact hr
    · have hclsne : en.cls * 3 + p / 32 ≠ en.cls * 3 + q / 32 := by omega
      unfold next
      by_cases h3 : en.clscount + 1 = 3
      · left
        simp only [h3, if_true, true_and]
        exact emit_ne (by omega) (by omega) (by omega) hclsne
      · right
        simp only [h3, if_false]
        refine ⟨hclsne, ?_⟩
        have : 32 ≤ 2 ^ (5 * (en.clscount + 1)) := by
          calc 32 = 2 ^ 5 := rfl
            _ ≤ _ := Nat.pow_le_pow_right (by decide) (by omega)
        omega

end MsVerif.Checksum

/-
C09 helper lemmas, part 8: `static_ops` is the number of non-push opcodes of the encoded script
(the part of Core's `nOpCount` that does not depend on the witness).
-/
import MsVerif.Lemmas.BoundsSize

namespace MsVerif.C09
open MsVerif Script

@[simp] theorem codeCount_nil : codeCount [] = 0 := rfl
@[simp] theorem codeCount_append (a b : List Op) : codeCount (a ++ b) = codeCount a + codeCount b := by
  simp [codeCount, List.filter_append]
@[simp] theorem codeCount_code (o : Opc) (s : List Op) : codeCount (.code o :: s) = 1 + codeCount s := by
  simp [codeCount, List.filter_cons]; omega
@[simp] theorem codeCount_push (b : Bytes) (s : List Op) : codeCount (.push b :: s) = codeCount s := by
  simp [codeCount, List.filter_cons]
@[simp] theorem codeCount_small (n : Nat) (s : List Op) : codeCount (.small n :: s) = codeCount s := by
  simp [codeCount, List.filter_cons]

theorem codeCount_pushInt (n : Nat) (s : List Op) : codeCount (pushInt n :: s) = codeCount s := by
  unfold pushInt; split <;> simp

theorem codeCount_keys (ke : KeyEnv) (ks : List Key) :
    codeCount (ks.map (fun pk => Op.push (ke.ser pk))) = 0 := by
  induction ks with
  | nil => rfl
  | cons k ks ih => simp [ih]

theorem codeCount_pushVerify (s : List Op) :
    codeCount (pushVerify s) = codeCount s + (if endsFusable s then 0 else 1) := by
  unfold pushVerify endsFusable
  cases h : s.getLast? with
  | none => simp
  | some op =>
    have hs := dropLast_concat_getLast h
    have hl : codeCount s = codeCount s.dropLast + codeCount [op] :=
      calc codeCount s = codeCount (s.dropLast ++ [op]) := by rw [hs]
        _ = codeCount s.dropLast + codeCount [op] := by simp
    cases op with
    | code o => cases o <;> simp [hl]
    | small n => simp
    | push bs => simp
    | bad b => simp

mutual
/-- no `multi_a` (its `static_ops` is 0: "irrelevant; no ops limit in Taproot"), `thresh` non-empty -/
def opsOk : Ms → Bool
  | .multiA _ _ | .sortedMultiA _ _ => false
  | .alt x | .swap x | .check x | .dupIf x | .verify x | .nonZero x | .zeroNotEqual x => opsOk x
  | .andV l r | .andB l r | .orB l r | .orD l r | .orC l r | .orI l r => opsOk l && opsOk r
  | .andOr a b c => opsOk a && opsOk b && opsOk c
  | .thresh _ xs => decide (0 < xs.length) && opsOks xs
  | _ => true
def opsOks : MsList → Bool
  | .nil => true
  | .cons x xs => opsOk x && opsOks xs
end

mutual
theorem staticOps_eq (ke : KeyEnv) (ctx : Ctx) : (ms : Ms) → opsOk ms = true →
    (extOf ke ctx ms).staticOps = codeCount (encode ke ctx ms)
  | .tru, _ | .fls, _ => rfl
  | .pkK _, _ | .pkH _, _ | .rawPkH _, _ => by cases ctx <;> rfl
  | .after n, _ => by simp [extOf, ExtData.after, encode, codeCount_pushInt]
  | .older n, _ => by simp [extOf, ExtData.older, encode, codeCount_pushInt]
  | .hash kind _, _ => by cases kind <;> simp [extOf, ExtData.hash32, ExtData.hash20, encode, codeCount_pushInt]
  | .alt x, h => by
    simp only [opsOk] at h
    simp only [extOf, ExtData.castAlt, encode, codeCount_append, codeCount_code, codeCount_nil,
      staticOps_eq ke ctx x h]; omega
  | .swap x, h => by
    simp only [opsOk] at h
    simp only [extOf, ExtData.castSwap, encode, codeCount_append, codeCount_code, codeCount_nil,
      staticOps_eq ke ctx x h]
  | .check x, h => by
    simp only [opsOk] at h
    simp only [extOf, ExtData.castCheck, encode, codeCount_append, codeCount_code, codeCount_nil,
      staticOps_eq ke ctx x h]; omega
  | .zeroNotEqual x, h => by
    simp only [opsOk] at h
    simp only [extOf, ExtData.castZeroNotEqual, encode, codeCount_append, codeCount_code, codeCount_nil,
      staticOps_eq ke ctx x h]; omega
  | .dupIf x, h => by
    simp only [opsOk] at h
    simp only [extOf, ExtData.castDupIf, encode, codeCount_append, codeCount_code, codeCount_nil,
      staticOps_eq ke ctx x h]; omega
  | .nonZero x, h => by
    simp only [opsOk] at h
    simp only [extOf, ExtData.castNonZero, encode, codeCount_append, codeCount_code, codeCount_nil,
      staticOps_eq ke ctx x h]; omega
  | .verify x, h => by
    simp only [opsOk] at h
    simp only [extOf, ExtData.castVerify, encode, codeCount_pushVerify, hfv_eq ke ctx x,
      staticOps_eq ke ctx x h]
    split <;> omega
  | .andV l r, h => by
    simp only [opsOk, Bool.and_eq_true] at h
    simp only [extOf, ExtData.andV, encode, codeCount_append, staticOps_eq ke ctx l h.1, staticOps_eq ke ctx r h.2]
  | .andB l r, h => by
    simp only [opsOk, Bool.and_eq_true] at h
    simp only [extOf, ExtData.andB, encode, codeCount_append, codeCount_code, codeCount_nil,
      staticOps_eq ke ctx l h.1, staticOps_eq ke ctx r h.2]; omega
  | .orB l r, h => by
    simp only [opsOk, Bool.and_eq_true] at h
    simp only [extOf, ExtData.orB, encode, codeCount_append, codeCount_code, codeCount_nil,
      staticOps_eq ke ctx l h.1, staticOps_eq ke ctx r h.2]; omega
  | .orD l r, h => by
    simp only [opsOk, Bool.and_eq_true] at h
    simp only [extOf, ExtData.orD, encode, codeCount_append, codeCount_code, codeCount_nil,
      staticOps_eq ke ctx l h.1, staticOps_eq ke ctx r h.2]; omega
  | .orC l r, h => by
    simp only [opsOk, Bool.and_eq_true] at h
    simp only [extOf, ExtData.orC, encode, codeCount_append, codeCount_code, codeCount_nil,
      staticOps_eq ke ctx l h.1, staticOps_eq ke ctx r h.2]; omega
  | .orI l r, h => by
    simp only [opsOk, Bool.and_eq_true] at h
    simp only [extOf, ExtData.orI, encode, codeCount_append, codeCount_code, codeCount_nil,
      staticOps_eq ke ctx l h.1, staticOps_eq ke ctx r h.2]; omega
  | .andOr a b c, h => by
    simp only [opsOk, Bool.and_eq_true] at h
    simp only [extOf, ExtData.andOr, encode, codeCount_append, codeCount_code, codeCount_nil,
      staticOps_eq ke ctx a h.1.1, staticOps_eq ke ctx b h.1.2, staticOps_eq ke ctx c h.2]; omega
  | .thresh k xs, h => by
    simp only [opsOk, Bool.and_eq_true, decide_eq_true_eq] at h
    have := encodeThresh_ops ke ctx xs h.2 true
    simp only [h.1, decide_true, Bool.and_true, if_true] at this
    simp only [extOf, ExtData.threshold, encode, codeCount_append, codeCount_pushInt, codeCount_code,
      codeCount_nil]
    rw [extsOf_length] at *
    omega
  | .multi k ks, _ => by
    simp [extOf, ExtData.multi, encode, codeCount_pushInt, codeCount_keys]
  | .sortedMulti k ks, _ => by
    simp [extOf, ExtData.multi, encode, codeCount_pushInt, codeCount_keys]
  | .multiA _ _, h | .sortedMultiA _ _, h => by simp [opsOk] at h
theorem encodeThresh_ops (ke : KeyEnv) (ctx : Ctx) : (xs : MsList) → opsOks xs = true →
    ∀ first : Bool, codeCount (encodeThresh ke ctx first xs)
        + (if (first && decide (0 < xs.length)) = true then 1 else 0)
      = ((extsOf ke ctx xs).map (·.staticOps)).sum + xs.length
  | .nil, _ => by intro first; cases first <;> simp [encodeThresh, extsOf, MsList.length]
  | .cons x xs, h => by
    intro first
    simp only [opsOks, Bool.and_eq_true] at h
    have ih := encodeThresh_ops ke ctx xs h.2 false
    simp only [Bool.false_and, Bool.false_eq_true, if_false, Nat.add_zero] at ih
    cases first <;>
      simp [encodeThresh, extsOf, MsList.length, ih, staticOps_eq ke ctx x h.1] <;> omega
theorem extsOf_length (ke : KeyEnv) (ctx : Ctx) : (xs : MsList) → (extsOf ke ctx xs).length = xs.length
  | .nil => rfl
  | .cons _ xs => by simp [extsOf, MsList.length, extsOf_length ke ctx xs]
end

/-! ### the executed-opcode counter of the Script semantics -/

theorem pushElem_ops {env : Env} {c c' : Core} {b : Script.Bytes} (h : pushElem env c b = .ok c') :
    c'.ops = c.ops := by
  unfold pushElem at h
  split at h
  · cases h
  · simp only at h
    split at h
    · cases h
    · cases h; rfl

/-- every opcode other than CHECKMULTISIG(VERIFY) leaves the counter alone (it was counted
before being executed) -/
theorem execOpc_ops {env : Env} {o : Opc} {c c' : Core}
    (ho : o ≠ .checkmultisig ∧ o ≠ .checkmultisigverify)
    (h : execOpc env o c = .ok c') : c'.ops = c.ops := by
  unfold execOpc at h
  split at h
  all_goals (try simp only [bind, Except.bind] at h)
  all_goals (repeat' split at h)
  all_goals first
    | (exact absurd rfl ho.1)
    | (exact absurd rfl ho.2)
    | (cases h; done)
    | (have := pushElem_ops h; simpa using this)
    | (cases h; rfl)

def isMultisig : Op → Bool
  | .code .checkmultisig | .code .checkmultisigverify => true
  | _ => false

def isCode : Op → Bool
  | .code _ => true
  | _ => false

theorem countOp_ops {env : Env} {c c' : Core} {n : Nat} (h : countOp env c n = .ok c') :
    c'.ops = c.ops + n ∧ c'.stack = c.stack ∧ c'.alt = c.alt := by
  simp only [countOp] at h
  split at h
  · cases h
  · cases h; exact ⟨rfl, rfl, rfl⟩

theorem step_ops {env : Env} {s s' : State} {op : Op} (hm : isMultisig op = false)
    (h : step env s op = .ok s') : s'.core.ops = s.core.ops + (if isCode op then 1 else 0) := by
  unfold step at h
  cases op with
  | bad b => simp only at h; split at h <;> cases h; simp [isCode]
  | small n =>
    simp only at h
    split at h
    · cases hp : pushElem env s.core (if n = 0 then [] else [UInt8.ofNat n]) with
      | error e => rw [hp] at h; cases h
      | ok c => rw [hp] at h; cases h; simpa [isCode] using pushElem_ops hp
    · cases h; simp [isCode]
  | push bs =>
    simp only at h
    split at h
    · cases h
    · split at h
      · cases hp : pushElem env s.core bs with
        | error e => rw [hp] at h; cases h
        | ok c => rw [hp] at h; cases h; simpa [isCode] using pushElem_ops hp
      · cases h; simp [isCode]
  | code o =>
    simp only at h
    cases hc : countOp env s.core 1 with
    | error e => rw [hc] at h; cases h
    | ok c =>
      rw [hc] at h
      obtain ⟨hc1, _, _⟩ := countOp_ops hc
      simp only [isCode, if_true]
      have ho : o ≠ .checkmultisig ∧ o ≠ .checkmultisigverify := by
        constructor <;> (intro he; subst he; simp [isMultisig] at hm)
      have hcond : ∀ (nf : Bool) (r : Bool × Core), condPop env nf c = .ok r → r.2.ops = c.ops := by
        intro nf r hp
        unfold condPop at hp
        split at hp
        · split at hp
          · cases hp
          · cases hp; rfl
        · cases hp
      simp only at h
      split at h
      · -- IF
        split at h
        · cases hp : condPop env (Opc.if_ == Opc.notif) c with
          | error e => rw [hp] at h; cases h
          | ok r => rw [hp] at h; obtain ⟨v, c2⟩ := r; cases h; rw [← hc1]; exact hcond _ _ hp
        · cases h; exact hc1
      · -- NOTIF
        split at h
        · cases hp : condPop env (Opc.notif == Opc.notif) c with
          | error e => rw [hp] at h; cases h
          | ok r => rw [hp] at h; obtain ⟨v, c2⟩ := r; cases h; rw [← hc1]; exact hcond _ _ hp
        · cases h; exact hc1
      · split at h
        · cases h; exact hc1
        · cases h
      · split at h
        · cases h; exact hc1
        · cases h
      · split at h
        · cases he : execOpc env o c with
          | error e => rw [he] at h; cases h
          | ok c2 => rw [he] at h; cases h; rw [← hc1]; exact execOpc_ops ho he
        · cases h; exact hc1

/-- a script without CHECKMULTISIG: whatever the witness, every successful run ends with
`ops = initial + number of non-push opcodes` (executed or not — Core's counting rule) -/
theorem run_ops {env : Env} : ∀ (script : List Op) (s s' : State),
    script.all (fun op => !isMultisig op) = true → run env script s = .ok s' →
    s'.core.ops = s.core.ops + codeCount script := by
  intro script
  induction script with
  | nil => intro s s' _ h; simp only [run, List.foldlM_nil] at h; cases h; simp
  | cons op rest ih =>
    intro s s' hm h
    simp only [List.all_cons, Bool.and_eq_true, Bool.not_eq_true'] at hm
    simp only [run, List.foldlM_cons] at h
    cases hs : step env s op with
    | error e => rw [hs] at h; cases h
    | ok s1 =>
      rw [hs] at h
      have h1 := step_ops hm.1 hs
      have h2 := ih s1 s' hm.2 h
      rw [h2, h1]
      cases op <;> simp [isCode, codeCount, List.filter_cons] <;> omega

/-! ### scripts without `multi`: no CHECKMULTISIG is emitted -/

mutual
def multiFree : Ms → Bool
  | .multi _ _ | .sortedMulti _ _ => false
  | .alt x | .swap x | .check x | .dupIf x | .verify x | .nonZero x | .zeroNotEqual x => multiFree x
  | .andV l r | .andB l r | .orB l r | .orD l r | .orC l r | .orI l r => multiFree l && multiFree r
  | .andOr a b c => multiFree a && multiFree b && multiFree c
  | .thresh _ xs => multiFrees xs
  | _ => true
def multiFrees : MsList → Bool
  | .nil => true
  | .cons x xs => multiFree x && multiFrees xs
end

def NoMs (s : List Op) : Prop := ∀ op ∈ s, isMultisig op = false

theorem NoMs_append {a b : List Op} (ha : NoMs a) (hb : NoMs b) : NoMs (a ++ b) := by
  intro op h; rcases List.mem_append.1 h with h | h
  · exact ha op h
  · exact hb op h

theorem NoMs_of_forall {s : List Op} (h : ∀ op ∈ s, isMultisig op = false) : NoMs s := h

theorem NoMs_pushVerify {s : List Op} (h : NoMs s) : NoMs (pushVerify s) := by
  have hd : NoMs s.dropLast := fun op hop => h op (List.dropLast_subset s hop)
  unfold pushVerify
  split
  · exact NoMs_append hd (by intro op hop; simp at hop; subst hop; rfl)
  · exact NoMs_append hd (by intro op hop; simp at hop; subst hop; rfl)
  · exact NoMs_append hd (by intro op hop; simp at hop; subst hop; rfl)
  · rename_i hl
    have : Op.code .checkmultisig ∈ s := List.mem_of_getLast? hl
    have := h _ this
    simp [isMultisig] at this
  · exact NoMs_append h (by intro op hop; simp at hop; subst hop; rfl)

theorem NoMs_pushInt (n : Nat) : isMultisig (pushInt n) = false := by
  unfold pushInt; split <;> rfl

theorem NoMs_multiA (ke : KeyEnv) (ks : List Key) : NoMs (encodeMultiA ke ks) := by
  intro op h
  cases ks with
  | nil => simp [encodeMultiA] at h
  | cons k ks =>
    simp only [encodeMultiA, List.mem_append, List.mem_cons, List.mem_flatMap, List.not_mem_nil, or_false] at h
    rcases h with (rfl | rfl) | ⟨_, _, (rfl | rfl)⟩ <;> rfl

mutual
theorem encode_noMs (ke : KeyEnv) (ctx : Ctx) : (ms : Ms) → multiFree ms = true → NoMs (encode ke ctx ms)
  | .tru, _ | .fls, _ | .pkK _, _ => by intro op hop; simp [encode] at hop; subst hop; rfl
  | .pkH _, _ | .rawPkH _, _ => by
    intro op hop; simp [encode] at hop; rcases hop with rfl | rfl | rfl | rfl <;> rfl
  | .after n, _ | .older n, _ => by
    intro op hop; simp [encode] at hop; rcases hop with rfl | rfl
    · exact NoMs_pushInt _
    · rfl
  | .hash kind _, _ => by
    intro op hop; simp [encode] at hop
    rcases hop with rfl | rfl | rfl | rfl | rfl | rfl
    · rfl
    · exact NoMs_pushInt _
    · rfl
    · cases kind <;> rfl
    · rfl
    · rfl
  | .alt x, h => by
    simp only [multiFree] at h; simp only [encode]
    exact NoMs_append (NoMs_append (by intro op hop; simp at hop; subst hop; rfl) (encode_noMs ke ctx x h))
      (by intro op hop; simp at hop; subst hop; rfl)
  | .swap x, h => by
    simp only [multiFree] at h; simp only [encode]
    exact NoMs_append (by intro op hop; simp at hop; subst hop; rfl) (encode_noMs ke ctx x h)
  | .check x, h => by
    simp only [multiFree] at h; simp only [encode]
    exact NoMs_append (encode_noMs ke ctx x h) (by intro op hop; simp at hop; subst hop; rfl)
  | .zeroNotEqual x, h => by
    simp only [multiFree] at h; simp only [encode]
    exact NoMs_append (encode_noMs ke ctx x h) (by intro op hop; simp at hop; subst hop; rfl)
  | .dupIf x, h => by
    simp only [multiFree] at h; simp only [encode]
    exact NoMs_append (NoMs_append (by intro op hop; simp at hop; rcases hop with rfl | rfl <;> rfl)
      (encode_noMs ke ctx x h)) (by intro op hop; simp at hop; subst hop; rfl)
  | .nonZero x, h => by
    simp only [multiFree] at h; simp only [encode]
    exact NoMs_append (NoMs_append (by intro op hop; simp at hop; rcases hop with rfl | rfl | rfl <;> rfl)
      (encode_noMs ke ctx x h)) (by intro op hop; simp at hop; subst hop; rfl)
  | .verify x, h => by
    simp only [multiFree] at h; simp only [encode]
    exact NoMs_pushVerify (encode_noMs ke ctx x h)
  | .andV l r, h => by
    simp only [multiFree, Bool.and_eq_true] at h; simp only [encode]
    exact NoMs_append (encode_noMs ke ctx l h.1) (encode_noMs ke ctx r h.2)
  | .andB l r, h => by
    simp only [multiFree, Bool.and_eq_true] at h; simp only [encode]
    exact NoMs_append (NoMs_append (encode_noMs ke ctx l h.1) (encode_noMs ke ctx r h.2))
      (by intro op hop; simp at hop; subst hop; rfl)
  | .orB l r, h => by
    simp only [multiFree, Bool.and_eq_true] at h; simp only [encode]
    exact NoMs_append (NoMs_append (encode_noMs ke ctx l h.1) (encode_noMs ke ctx r h.2))
      (by intro op hop; simp at hop; subst hop; rfl)
  | .orD l r, h => by
    simp only [multiFree, Bool.and_eq_true] at h; simp only [encode]
    exact NoMs_append (NoMs_append (NoMs_append (encode_noMs ke ctx l h.1)
      (by intro op hop; simp at hop; rcases hop with rfl | rfl <;> rfl)) (encode_noMs ke ctx r h.2))
      (by intro op hop; simp at hop; subst hop; rfl)
  | .orC l r, h => by
    simp only [multiFree, Bool.and_eq_true] at h; simp only [encode]
    exact NoMs_append (NoMs_append (NoMs_append (encode_noMs ke ctx l h.1)
      (by intro op hop; simp at hop; subst hop; rfl)) (encode_noMs ke ctx r h.2))
      (by intro op hop; simp at hop; subst hop; rfl)
  | .orI l r, h => by
    simp only [multiFree, Bool.and_eq_true] at h; simp only [encode]
    exact NoMs_append (NoMs_append (NoMs_append (NoMs_append (by intro op hop; simp at hop; subst hop; rfl)
      (encode_noMs ke ctx l h.1)) (by intro op hop; simp at hop; subst hop; rfl)) (encode_noMs ke ctx r h.2))
      (by intro op hop; simp at hop; subst hop; rfl)
  | .andOr a b c, h => by
    simp only [multiFree, Bool.and_eq_true] at h; simp only [encode]
    exact NoMs_append (NoMs_append (NoMs_append (NoMs_append (NoMs_append (encode_noMs ke ctx a h.1.1)
      (by intro op hop; simp at hop; subst hop; rfl)) (encode_noMs ke ctx c h.2))
      (by intro op hop; simp at hop; subst hop; rfl)) (encode_noMs ke ctx b h.1.2))
      (by intro op hop; simp at hop; subst hop; rfl)
  | .thresh k xs, h => by
    simp only [multiFree] at h; simp only [encode]
    exact NoMs_append (encodeThresh_noMs ke ctx xs h true)
      (by intro op hop; simp at hop; rcases hop with rfl | rfl; exact NoMs_pushInt _; rfl)
  | .multiA k ks, _ => by
    simp only [encode]
    exact NoMs_append (NoMs_multiA ke ks)
      (by intro op hop; simp at hop; rcases hop with rfl | rfl; exact NoMs_pushInt _; rfl)
  | .sortedMultiA k ks, _ => by
    simp only [encode]
    exact NoMs_append (NoMs_multiA ke _)
      (by intro op hop; simp at hop; rcases hop with rfl | rfl; exact NoMs_pushInt _; rfl)
  | .multi _ _, h | .sortedMulti _ _, h => by simp [multiFree] at h
theorem encodeThresh_noMs (ke : KeyEnv) (ctx : Ctx) : (xs : MsList) → multiFrees xs = true →
    ∀ first : Bool, NoMs (encodeThresh ke ctx first xs)
  | .nil, _ => by intro first op hop; simp [encodeThresh] at hop
  | .cons x xs, h => by
    intro first
    simp only [multiFrees, Bool.and_eq_true] at h
    simp only [encodeThresh]
    refine NoMs_append (NoMs_append (encode_noMs ke ctx x h.1) ?_) (encodeThresh_noMs ke ctx xs h.2 false)
    intro op hop
    cases first <;> simp at hop
    subst hop; rfl
end

end MsVerif.C09

/-
A small concrete instantiation of the atom tables (keys = `02 kk…k`, hashes = `hh…h`), used by
the non-vacuity examples and the witnesses of Thm/C04.lean.
-/
import MsVerif.Lemmas.LexEncode
import MsVerif.Lemmas.DecodeEncode
import MsVerif.Lemmas.DecodeCanon

namespace MsVerif
namespace Toy
open LexL DecodeL

def env : KeyEnv where
  ser k := 0x02 :: List.replicate 32 (UInt8.ofNat k)
  sortKey k := 0x02 :: List.replicate 32 (UInt8.ofNat k)
  pkh k := List.replicate 20 (UInt8.ofNat k)
  rawPkh h := List.replicate 20 (UInt8.ofNat h)
  hashVal kind h := List.replicate (hashLen kind) (UInt8.ofNat h)

def second (bs : List UInt8) : Option Nat := match bs with | _ :: b :: _ => some b.toNat | _ => none

def dec : AtomDec where
  full bs := match second bs with | some k => .ok k | none => .unknown
  xonly bs := match bs.head? with | some b => .ok b.toNat | none => .unknown
  rawPkh bs := bs.head?.map (·.toNat)
  hash _ bs := bs.head?.map (·.toNat)

def pk (k : Nat) : Ms := .check (.pkK k)
def vpk (k : Nat) : Ms := .verify (pk k)

/-- `and_v(and_v(v:pk(1),v:pk(2)),or_d(pk(3),and_v(v:sha256(4),older(144))))` — normal form -/
def m1 : Ms :=
  .andV (.andV (vpk 1) (vpk 2)) (.orD (pk 3) (.andV (.verify (.hash .sha256 4)) (.older 144)))

/-- the same script with the outer `and_v` chain associated to the right -/
def m2 : Ms :=
  .andV (vpk 1) (.andV (vpk 2) (.orD (pk 3) (.andV (.verify (.hash .sha256 4)) (.older 144))))

/-- did the decoder return exactly `m` and consume all tokens? -/
def okIs (r : Except DecodeErr (Ms × List Token)) (m : Ms) : Bool :=
  match r with | .ok (x, []) => x == m | _ => false

/-! ### a SOUND reverse lookup for `env` (only byte strings that are serialisations are atoms) -/

def decS : AtomDec where
  full bs := match second bs with
    | some k => if env.ser k = bs then .ok k else .invalid
    | none => .invalid
  xonly _ := .invalid
  rawPkh bs := match bs.head? with
    | some b => if env.rawPkh b.toNat = bs then some b.toNat else none
    | none => none
  hash kind bs := match bs.head? with
    | some b => if env.hashVal kind b.toNat = bs then some b.toNat else none
    | none => none

theorem decS_sound (ctx : Ctx) : DecSound decS env ctx where
  key := by
    intro bs k h
    unfold parseKey at h
    dsimp only at h
    have hfull : ∀ {bs : Bytes} {k : Key}, decS.full bs = .ok k → env.ser k = bs := by
      intro bs k h
      simp only [decS] at h
      split at h
      · split at h
        · rename_i k' _ he; cases h; exact he
        · cases h
      · cases h
    cases ctx <;> simp only at h
    case tap =>
      split at h
      · rename_i hx; split at hx <;> simp [decS] at hx
      · cases h
      · cases h
    all_goals
      split at h
      · rename_i k' hx
        cases h
        repeat' split at hx
        all_goals first
          | exact hfull hx
          | cases hx
      · cases h
      · cases h
  rawPkh := by
    intro bs h hh
    simp only [decS] at hh
    split at hh
    · split at hh
      · rename_i he; cases hh; exact he
      · cases hh
    · cases hh
  hash := by
    intro kind bs h hh
    simp only [decS] at hh
    split at hh
    · split at hh
      · rename_i he; cases hh; exact he
      · cases hh
    · cases hh

/-- `andor(pk(1),thresh(2,pk(2),s:pk(3),a:sha256(4)),or_d(multi(2,5,6,7),and_v(v:hash160(8),older(144))))` -/
def m3 : Ms :=
  .andOr (pk 1)
    (.thresh 2 (.cons (pk 2) (.cons (.swap (pk 3)) (.cons (.alt (.hash .sha256 4)) .nil))))
    (.orD (.multi 2 [5, 6, 7]) (.andV (.verify (.hash .hash160 8)) (.older 144)))

/-- x-only keys for Taproot: `kk…k` (32 bytes) -/
def envX : KeyEnv where
  ser k := List.replicate 32 (UInt8.ofNat k)
  sortKey k := List.replicate 32 (UInt8.ofNat k)
  pkh k := List.replicate 20 (UInt8.ofNat k)
  rawPkh h := List.replicate 20 (UInt8.ofNat h)
  hashVal kind h := List.replicate (hashLen kind) (UInt8.ofNat h)

def decX : AtomDec where
  full _ := .invalid
  xonly bs := match bs.head? with | some b => .ok b.toNat | none => .unknown
  rawPkh bs := bs.head?.map (·.toNat)
  hash _ bs := bs.head?.map (·.toNat)

/-- `and_v(v:multi_a(2,1,2,3),or_i(after(500000),and_v(v:pk(4),ripemd160(9))))` (Taproot) -/
def m4 : Ms :=
  .andV (.verify (.multiA 2 [1, 2, 3]))
    (.orI (.after 500000) (.andV (.verify (.check (.pkK 4))) (.hash .ripemd160 9)))

end Toy
end MsVerif

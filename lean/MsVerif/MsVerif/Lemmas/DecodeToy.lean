/-
A small concrete instantiation of the atom tables (keys = `02 kk…k`, hashes = `hh…h`), used by
the non-vacuity examples and the witnesses of Thm/C04.lean.
-/
import MsVerif.Lemmas.LexEncode
import MsVerif.Lemmas.DecodeEncode

namespace MsVerif
namespace Toy
open LexL DecodeL

def env : KeyEnv where
  ser k := 0x02 :: List.replicate 32 (UInt8.ofNat k)
  sortKey k := 0x02 :: List.replicate 32 (UInt8.ofNat k)
  pkh k := List.replicate 20 (UInt8.ofNat k)
  rawPkh h := List.replicate 20 (UInt8.ofNat h)
  hashVal kind h := List.replicate (hashLen kind) (UInt8.ofNat h)

def second (bs : List UInt8) : Option Nat := match bs with | _ :: b :: _ => some b.toNat | _ => none

def dec : AtomDec where
  full bs := match second bs with | some k => .ok k | none => .unknown
  xonly bs := match bs.head? with | some b => .ok b.toNat | none => .unknown
  rawPkh bs := bs.head?.map (·.toNat)
  hash _ bs := bs.head?.map (·.toNat)

def pk (k : Nat) : Ms := .check (.pkK k)
def vpk (k : Nat) : Ms := .verify (pk k)

/-- `and_v(and_v(v:pk(1),v:pk(2)),or_d(pk(3),and_v(v:sha256(4),older(144))))` — normal form -/
def m1 : Ms :=
  .andV (.andV (vpk 1) (vpk 2)) (.orD (pk 3) (.andV (.verify (.hash .sha256 4)) (.older 144)))

/-- the same script with the outer `and_v` chain associated to the right -/
def m2 : Ms :=
  .andV (vpk 1) (.andV (vpk 2) (.orD (pk 3) (.andV (.verify (.hash .sha256 4)) (.older 144))))

/-- did the decoder return exactly `m` and consume all tokens? -/
def okIs (r : Except DecodeErr (Ms × List Token)) (m : Ms) : Bool :=
  match r with | .ok (x, []) => x == m | _ => false

end Toy
end MsVerif

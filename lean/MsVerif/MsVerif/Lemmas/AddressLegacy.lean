/-
Lemmas for C16 (addresses): the real hash functions have the standard digest sizes; legacy
address strings decode back to network class, kind and hash.
-/
import MsVerif.Lemmas.Base58
import MsVerif.Spec.Address

namespace MsVerif.Address
open MsVerif

theorem sha256_length (m : Hash.Bytes) : (Hash.sha256 m).length = 32 := by
  simp [Hash.sha256, Hash.toBe32]

theorem ripemd160_length (m : Hash.Bytes) : (Hash.ripemd160 m).length = 20 := by
  simp [Hash.ripemd160, Hash.toLe32, Hash.toBe32]

theorem hash256_length (m : Hash.Bytes) : (Hash.hash256 m).length = 32 := sha256_length _
theorem hash160_length (m : Hash.Bytes) : (Hash.hash160 m).length = 20 := ripemd160_length _

theorem decodeCheckStr_encodeCheckStr (payload : List UInt8) :
    Base58.decodeCheckStr (Base58.encodeCheckStr payload) = some payload := by
  unfold Base58.decodeCheckStr Base58.encodeCheckStr
  rw [String.toList_ofList]
  exact Base58.decodeCheck_encodeCheck payload (by rw [hash256_length]; omega)

theorem decodeLegacy_p2pkh (net : Net) (h : List UInt8) (hl : h.length = 20) :
    decodeLegacy (p2pkhString net h) = some (net.cls, .p2pkh, h) := by
  unfold decodeLegacy p2pkhString
  rw [decodeCheckStr_encodeCheckStr]
  cases net <;> simp [hl, Net.cls, p2pkhVersion]

theorem decodeLegacy_p2sh (net : Net) (h : List UInt8) (hl : h.length = 20) :
    decodeLegacy (p2shString net h) = some (net.cls, .p2sh, h) := by
  unfold decodeLegacy p2shString
  rw [decodeCheckStr_encodeCheckStr]
  cases net <;> simp [hl, Net.cls, p2shVersion]

end MsVerif.Address

/-
Helper lemmas for C13: the primitives of the structured Script semantics (`Spec/Frag.lean`) with
the resource limits switched off, and the oracle agreement between the interpreter's environment
and Script's environment.
-/
import MsVerif.Spec.Frag
import MsVerif.Model.Interp
import MsVerif.Model.TypeCheck

namespace MsVerif.InterpSound
open MsVerif Script Interp

/-- resource limits off: op-count and stack-size limits are static properties of a script
(C09 / C12); the interpreter does not model them -/
structure NoLimits (env : Env) : Prop where
  op : env.flags.opLimit = false
  st : env.flags.stackLimits = false

variable {env : Env}

theorem countOp_nl (h : NoLimits env) (c : Core) (n : Nat) :
    countOp env c n = .ok { c with ops := c.ops + n } := by
  simp [countOp, h.op]

theorem pushElem_nl (h : NoLimits env) (c : Core) (b : Bytes) :
    pushElem env c b = .ok { c with stack := b :: c.stack } := by
  simp [pushElem, h.st]

theorem psh_nl (h : NoLimits env) (c : Core) (b : Bytes) :
    psh env b c = .ok { c with stack := b :: c.stack } := by
  simp [psh, h.st, pushElem_nl h]

theorem opc_nl (h : NoLimits env) (o : Opc) (c : Core) :
    opc env o c = execOpc env o { c with ops := c.ops + 1 } := by
  simp [opc, countOp_nl h]

theorem skipCount_nl (h : NoLimits env) (s : List Op) (c : Core) :
    skipCount env s c = .ok { c with ops := c.ops + codeCount s } := by
  simp [skipCount, h.st, countOp_nl h]

theorem cnd_nl (h : NoLimits env) (notif : Bool) (c : Core) :
    cnd env notif c = condPop env notif { c with ops := c.ops + 1 } := by
  simp [cnd, countOp_nl h]

/-! ### the abstraction of a concrete stack -/

/-- the interpreter's view of a concrete stack (`Element::from` on every item) -/
def absS (c : List Bytes) : AStack := c.map Elem.ofBytes

@[simp] theorem absS_nil : absS [] = [] := rfl
@[simp] theorem absS_cons (v : Bytes) (c : List Bytes) : absS (v :: c) = Elem.ofBytes v :: absS c := rfl

theorem ofBytes_sat {v : Bytes} (h : Elem.ofBytes v = .sat) : v = [1] := by
  unfold Elem.ofBytes at h
  split at h
  · assumption
  · split at h <;> simp at h

theorem ofBytes_dissat {v : Bytes} (h : Elem.ofBytes v = .dissat) : v = [] := by
  unfold Elem.ofBytes at h
  split at h
  · simp at h
  · split at h
    · assumption
    · simp at h

theorem ofBytes_push {v b : Bytes} (h : Elem.ofBytes v = .push b) : v = b ∧ b ≠ [] ∧ b ≠ [1] := by
  unfold Elem.ofBytes at h
  split at h
  · simp at h
  · split at h
    · simp at h
    · simp at h; subst h; exact ⟨rfl, by assumption, by assumption⟩

/-- splitting an abstracted stack -/
theorem absS_eq_cons {c : List Bytes} {e : Elem} {st : AStack} (h : absS c = e :: st) :
    ∃ v c', c = v :: c' ∧ Elem.ofBytes v = e ∧ absS c' = st := by
  cases c with
  | nil => simp at h
  | cons v c' => simp at h; exact ⟨v, c', rfl, h.1, h.2⟩

/-! ### results -/

/-- relation between the abstract result of a `B`/`W` fragment and the value Script leaves:
`Dissatisfied ~ []`; `Satisfied ~` a true value that is a non-zero 4-byte script number, and
exactly `[1]` where the type says unit (`u`) -/
structure Res (env : Env) (u : Bool) (r : Elem) (v : Bytes) : Prop where
  bool : r = .sat ∨ r = .dissat
  dis : r = .dissat → v = []
  sat : r = .sat → castToBool v = true ∧ (u = true → v = [1]) ∧
    ∃ z : Int, numDecode env.flags.minimalNum 4 v = some z ∧ z ≠ 0

theorem numDecode_nil (m : Bool) : numDecode m 4 [] = some 0 := by
  cases m <;> decide

theorem numDecode_one (m : Bool) : numDecode m 4 [1] = some 1 := by
  cases m <;> decide

theorem Res.ofBool (env : Env) (u : Bool) (b : Bool) :
    Res env u (if b then .sat else .dissat) (boolBytes b) := by
  cases b
  · exact ⟨Or.inr rfl, fun _ => rfl, fun h => by simp at h⟩
  · refine ⟨Or.inl rfl, fun h => by simp at h, fun _ => ⟨by decide, fun _ => rfl, 1, ?_, by decide⟩⟩
    exact numDecode_one _

theorem Res.weaken {u : Bool} {r : Elem} {v : Bytes} (h : Res env true r v) : Res env u r v :=
  ⟨h.bool, h.dis, fun hs => ⟨(h.sat hs).1, fun _ => (h.sat hs).2.1 rfl, (h.sat hs).2.2⟩⟩

/-- the number Script sees for a result -/
theorem Res.num {u : Bool} {r : Elem} {v : Bytes} (h : Res env u r v) :
    ∃ z : Int, num4 env v = .ok z ∧ (z ≠ 0 ↔ r = .sat) := by
  rcases h.bool with hr | hr
  · obtain ⟨_, _, z, hz, hnz⟩ := h.sat hr
    exact ⟨z, by simp [num4, hz], by simp [hr, hnz]⟩
  · have hv := h.dis hr
    subst hv
    exact ⟨0, by simp [num4, numDecode_nil], by simp [hr]⟩

/-- a unit result is `[]` or `[1]`: acceptable to MINIMALIF -/
theorem Res.minimal {r : Elem} {v : Bytes} (h : Res env true r v) :
    (v = [] ∧ r = .dissat) ∨ (v = [1] ∧ r = .sat) := by
  rcases h.bool with hr | hr
  · exact Or.inr ⟨(h.sat hr).2.1 rfl, hr⟩
  · exact Or.inl ⟨h.dis hr, hr⟩

/-! ### oracle agreement -/

def hkOp : HashKind → HashOp
  | .sha256 => .sha256 | .hash256 => .hash256 | .ripemd160 => .ripemd160 | .hash160 => .hash160

theorem hashOpc_exec (h : NoLimits env) (k : HashKind) (a : Bytes) (r : List Bytes) (alt : List Bytes) (ops : Nat) :
    execOpc env (hashOpc k) ⟨a :: r, alt, ops⟩ = .ok ⟨env.hash (hkOp k) a :: r, alt, ops⟩ := by
  cases k <;> simp [hashOpc, execOpc, hkOp, pushElem_nl h]

/-- the interpreter's oracles agree with Script's environment -/
structure Agree (env : Env) (ie : IEnv) : Prop where
  /-- whatever `verify_sersig` + the caller's verifier accept is a valid signature for Script -/
  sig : ∀ pk sg, ie.verifySig pk sg = true → env.sigOk pk sg = true
  key : ∀ pk, ie.keyParse pk = true → pubkeyOk env pk = true
  h160 : ∀ b, ie.hash160 b = env.hash .hash160 b
  hash : ∀ k b, ie.hash k b = env.hash (hkOp k) b
  lockTime : ie.lockTime = env.nLockTime
  sequence : ie.sequence = env.nSequence
  /-- CSV fails in a version-1 transaction (the interpreter does not check this: finding) -/
  version : env.txVersion ≥ 2

/-- value pushed by `pushInt n` -/
def lockVal (n : Nat) : Bytes :=
  if n ≤ 16 then (if n = 0 then [] else [UInt8.ofNat n]) else numEncode (Int.ofNat n)

/-- the script-number codec round-trips on a lock value of the script (a property of
`Spec/Script.numEncode`/`numDecode`; decidable for every concrete `n`) -/
structure LockOk (env : Env) (n : Nat) : Prop where
  dec5 : numDecode env.flags.minimalNum 5 (lockVal n) = some (Int.ofNat n)
  dec4 : numDecode env.flags.minimalNum 4 (lockVal n) = some (Int.ofNat n)
  pos : 0 < n
  truthy : castToBool (lockVal n) = true
  /-- the value has no BIP112 disable flag (`RelLockTime` guarantees it) -/
  small : n < Script.SEQ_DISABLE

theorem after_ok (ag : Agree env ie) {n : Nat}
    (h0 : (ie.sequence == Interp.SEQ_FINAL) = false)
    (h1 : ((n < Interp.LOCKTIME_THRESHOLD && ie.lockTime < Interp.LOCKTIME_THRESHOLD)
      || (n ≥ Interp.LOCKTIME_THRESHOLD && ie.lockTime ≥ Interp.LOCKTIME_THRESHOLD)) = true)
    (h2 : n ≤ ie.lockTime) : checkLockTime env n = true := by
  have hf : env.nSequence ≠ Script.SEQ_FINAL := by
    rw [ag.sequence] at h0
    have := beq_eq_false_iff_ne.mp h0
    exact this
  rw [ag.lockTime] at h1 h2
  have t1 : Script.LOCKTIME_THRESHOLD = 500000000 := rfl
  have t2 : Interp.LOCKTIME_THRESHOLD = 500000000 := rfl
  simp only [checkLockTime, Bool.and_eq_true, Bool.or_eq_true, decide_eq_true_eq, bne_iff_ne, ne_eq,
    ge_iff_le] at *
  refine ⟨⟨?_, h2⟩, hf⟩
  omega

theorem older_ok (ag : Agree env ie) {n : Nat}
    (h0 : ((ie.sequence / Interp.SEQ_DISABLE) % 2 == 1) = false)
    (h1 : (((ie.sequence / Interp.SEQ_TYPE) % 2 == 1) == ((n / Interp.SEQ_TYPE) % 2 == 1)
      && decide (n % 65536 ≤ ie.sequence % 65536)) = true) : checkSequence env n = true := by
  have hv := ag.version
  rw [ag.sequence] at h0 h1
  have u1 : Interp.SEQ_DISABLE = 2147483648 := rfl
  have u2 : Interp.SEQ_TYPE = 4194304 := rfl
  rw [u1] at h0
  rw [u2] at h1
  have h0' : (env.nSequence / 2147483648) % 2 = 0 := by
    have : (env.nSequence / 2147483648) % 2 ≠ 1 := by simpa using h0
    omega
  simp only [Bool.and_eq_true, decide_eq_true_eq, beq_iff_eq] at h1
  obtain ⟨h1x, h1b⟩ := h1
  have h1a : ((env.nSequence / 4194304) % 2 = 1 ↔ (n / 4194304) % 2 = 1) := by
    constructor
    · intro h; simpa [h] using h1x
    · intro h; simpa [h] using h1x
  have t1 : Script.SEQ_DISABLE = 2147483648 := rfl
  have t2 : Script.SEQ_TYPE = 4194304 := rfl
  have t3 : Script.SEQ_MASK = 65535 := rfl
  unfold checkSequence seqMasked
  simp only [Bool.and_eq_true, Bool.or_eq_true, decide_eq_true_eq, beq_iff_eq, ge_iff_le]
  rw [t1, t2, t3]
  have e1 : (env.nSequence / 4194304) % 2 = 0 ∨ (env.nSequence / 4194304) % 2 = 1 := by omega
  have e2 : (n / 4194304) % 2 = 0 ∨ (n / 4194304) % 2 = 1 := by omega
  refine ⟨⟨hv, h0'⟩, ?_, ?_⟩
  · rcases e1 with a | a <;> rcases e2 with b | b
    · left; omega
    · omega
    · omega
    · right; omega
  · rcases e1 with a | a <;> rcases e2 with b | b <;> omega

/-- `iter_custom` / `iter_assume_sigs`: the same verifier `f` on both sides (the caller's closure
as the interpreter's oracle and as Script's `sigOk`) keeps the agreement, whatever `f` is -/
theorem Agree.withVerifier {env : Env} {ie : IEnv} (ag : Agree env ie) (f : Bytes → Bytes → Bool) :
    Agree { env with sigOk := f } { ie with verifySig := f } where
  sig := fun _ _ h => h
  key := fun pk h => by
    have := ag.key pk h
    simpa [pubkeyOk] using this
  h160 := ag.h160
  hash := ag.hash
  lockTime := ag.lockTime
  sequence := ag.sequence
  version := ag.version

end MsVerif.InterpSound

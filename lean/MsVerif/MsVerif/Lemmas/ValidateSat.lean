/-
Helper lemmas for C12 (switch `allow_unsatisfiable`): the library's size analysis finds a
satisfaction figure (`ExtData.sat_data = Some`) exactly when the specification's table of
canonical satisfactions (Spec/SatTable.lean) has a satisfaction with every asset available —
for scripts whose thresholds are in range and whose `thresh` children are all dissatisfiable
(what the type rule of `thresh` demands).
-/
import MsVerif.Model.Ext
import MsVerif.Spec.CtxRules

namespace MsVerif
open Spec SatTable

/-! ### `Option` plumbing -/

@[simp] theorem zipMap_isSome' (f : SatData → SatData → SatData) (a b : Option SatData) :
    (zipMap f a b).isSome = (a.isSome && b.isSome) := by
  cases a <;> cases b <;> rfl

@[simp] theorem fmaxOpt_isSome (a b : Option SatData) :
    (SatData.fmaxOpt a b).isSome = (a.isSome || b.isSome) := by
  cases a <;> cases b <;> rfl

/-! ### the sorted vector of `threshold` -/

def hasSat (p : ExtData.SD) : Bool := p.1.isSome

/-- every entry has a dissatisfaction figure -/
def AllDis (l : List ExtData.SD) : Prop := ∀ p ∈ l, p.2.isSome = true

/-- entries without a satisfaction figure come first -/
def NF : List ExtData.SD → Prop
  | [] => True
  | p :: ps => (hasSat p = true → ∀ q ∈ ps, hasSat q = true) ∧ NF ps

/-- entries with a satisfaction figure come first -/
def SF : List ExtData.SD → Prop
  | [] => True
  | p :: ps => (hasSat p = false → ∀ q ∈ ps, hasSat q = false) ∧ SF ps

theorem sortKey_none_of_noSat (proj : SatData → Nat) (p : ExtData.SD) (h : hasSat p = false) :
    ExtData.sortKey proj p = none := by
  obtain ⟨s, d⟩ := p
  cases s <;> simp_all [hasSat, ExtData.sortKey]

theorem sortKey_some_of_both (proj : SatData → Nat) (p : ExtData.SD) (h1 : hasSat p = true)
    (h2 : p.2.isSome = true) : ∃ a, ExtData.sortKey proj p = some a := by
  obtain ⟨s, d⟩ := p
  cases s <;> cases d <;> simp_all [hasSat, ExtData.sortKey]

theorem mem_insertSD (proj : SatData → Nat) (x q : ExtData.SD) (l : List ExtData.SD) :
    q ∈ ExtData.insertSD proj x l ↔ q = x ∨ q ∈ l := by
  induction l with
  | nil => simp [ExtData.insertSD]
  | cons y ys ih =>
    simp only [ExtData.insertSD]
    split
    · simp only [List.mem_cons, ih]
      constructor
      · rintro (h | h | h) <;> simp [h]
      · rintro (h | h | h) <;> simp [h]
    · simp [List.mem_cons]

theorem countP_insertSD (proj : SatData → Nat) (x : ExtData.SD) (l : List ExtData.SD) :
    (ExtData.insertSD proj x l).countP hasSat = l.countP hasSat + (if hasSat x then 1 else 0) := by
  induction l with
  | nil => simp [ExtData.insertSD, List.countP_cons]
  | cons y ys ih =>
    simp only [ExtData.insertSD]
    split
    · simp only [List.countP_cons, ih]; omega
    · simp only [List.countP_cons]

theorem length_insertSD (proj : SatData → Nat) (x : ExtData.SD) (l : List ExtData.SD) :
    (ExtData.insertSD proj x l).length = l.length + 1 := by
  induction l with
  | nil => simp [ExtData.insertSD]
  | cons y ys ih =>
    simp only [ExtData.insertSD]
    split <;> simp [ih]

theorem NF_insertSD (proj : SatData → Nat) (x : ExtData.SD) (l : List ExtData.SD)
    (hd : AllDis (x :: l)) (h : NF l) : NF (ExtData.insertSD proj x l) := by
  induction l with
  | nil => simp [ExtData.insertSD, NF]
  | cons y ys ih =>
    have hdy : y.2.isSome = true := hd y (by simp)
    have hd' : AllDis (x :: ys) := fun p hp => hd p (by
      rcases List.mem_cons.mp hp with rfl | hp
      · simp
      · simp [hp])
    simp only [ExtData.insertSD]
    split
    · rename_i hle
      refine ⟨fun hy q hq => ?_, ih hd' h.2⟩
      rcases (mem_insertSD proj x q ys).1 hq with rfl | hq
      · -- y has both figures, so its key is `some`; `keyLe (some _) k` forces `k` to be `some`
        obtain ⟨a, ha⟩ := sortKey_some_of_both proj y hy hdy
        cases hx : hasSat q with
        | true => rfl
        | false =>
          rw [ha, sortKey_none_of_noSat proj q hx] at hle
          simp [ExtData.keyLe] at hle
      · exact h.1 hy q hq
    · rename_i hle
      refine ⟨fun _ q hq => ?_, h⟩
      have hy : hasSat y = true := by
        cases hy : hasSat y with
        | true => rfl
        | false =>
          rw [sortKey_none_of_noSat proj y hy] at hle
          simp [ExtData.keyLe] at hle
      rcases List.mem_cons.mp hq with rfl | hq
      · exact hy
      · exact h.1 hy q hq

theorem foldl_insert_props (proj : SatData → Nat) : ∀ (v acc : List ExtData.SD),
    NF acc → AllDis acc → AllDis v →
      NF (v.foldl (fun acc x => ExtData.insertSD proj x acc) acc)
        ∧ AllDis (v.foldl (fun acc x => ExtData.insertSD proj x acc) acc)
        ∧ (v.foldl (fun acc x => ExtData.insertSD proj x acc) acc).countP hasSat
            = acc.countP hasSat + v.countP hasSat
        ∧ (v.foldl (fun acc x => ExtData.insertSD proj x acc) acc).length = acc.length + v.length
  | [], acc, h1, h2, _ => by simp [h1, h2]
  | x :: xs, acc, h1, h2, h3 => by
    have hx : x.2.isSome = true := h3 x (by simp)
    have hacc : AllDis (x :: acc) := fun p hp => by
      rcases List.mem_cons.mp hp with rfl | hp
      · exact hx
      · exact h2 p hp
    have h2' : AllDis (ExtData.insertSD proj x acc) := fun p hp => by
      rcases (mem_insertSD proj x p acc).1 hp with rfl | hp
      · exact hx
      · exact h2 p hp
    obtain ⟨r1, r2, r3, r4⟩ := foldl_insert_props proj xs (ExtData.insertSD proj x acc)
      (NF_insertSD proj x acc hacc h1) h2' (fun p hp => h3 p (by simp [hp]))
    refine ⟨r1, r2, ?_, ?_⟩
    · simp only [List.foldl_cons, r3, countP_insertSD, List.countP_cons]; omega
    · simp only [List.foldl_cons, r4, length_insertSD, List.length_cons]; omega

theorem sortSD_props (proj : SatData → Nat) (v : List ExtData.SD) (hd : AllDis v) :
    NF (ExtData.sortSD proj v) ∧ AllDis (ExtData.sortSD proj v)
      ∧ (ExtData.sortSD proj v).countP hasSat = v.countP hasSat
      ∧ (ExtData.sortSD proj v).length = v.length := by
  have := foldl_insert_props proj v [] trivial (fun _ h => by cases h) hd
  simpa [ExtData.sortSD] using this

/-! ### the fold over the reversed vector -/

theorem SF_append_single (a : List ExtData.SD) (p : ExtData.SD) (h : SF a)
    (hp : ∀ q ∈ a, hasSat q = false → hasSat p = false) : SF (a ++ [p]) := by
  induction a with
  | nil => simp [SF]
  | cons x xs ih =>
    simp only [List.cons_append, SF]
    refine ⟨fun hx q hq => ?_, ih h.2 (fun q hq => hp q (by simp [hq]))⟩
    rcases List.mem_append.mp hq with hq | hq
    · exact h.1 hx q hq
    · simp only [List.mem_singleton] at hq; subst hq; exact hp x (by simp) hx

theorem SF_reverse (l : List ExtData.SD) (h : NF l) : SF l.reverse := by
  induction l with
  | nil => simp [SF]
  | cons p ps ih =>
    simp only [List.reverse_cons]
    refine SF_append_single _ _ (ih h.2) (fun q hq hqn => ?_)
    cases hp : hasSat p with
    | false => rfl
    | true =>
      have := h.1 hp q (List.mem_reverse.mp hq)
      rw [this] at hqn; cases hqn

theorem countP_zero_of_all_false (l : List ExtData.SD) (h : ∀ q ∈ l, hasSat q = false) :
    l.countP hasSat = 0 := by
  induction l with
  | nil => rfl
  | cons x xs ih =>
    simp only [List.countP_cons, h x (by simp), Bool.false_eq_true, if_false, Nat.add_zero]
    exact ih (fun q hq => h q (by simp [hq]))

theorem threshFold_isSome (k : Nat) (proj : SatData → Nat) (cmb : Nat → Nat → Nat) :
    ∀ (r : List ExtData.SD) (i acc : Nat), SF r → AllDis r →
      (ExtData.threshFold k proj cmb i acc r).isSome
        = decide (min (k - i) r.length ≤ r.countP hasSat)
  | [], i, acc, _, _ => by simp [ExtData.threshFold]
  | (sat, dissat) :: rest, i, acc, hsf, hd => by
    have hd' : AllDis rest := fun p hp => hd p (by simp [hp])
    have hdis : dissat.isSome = true := hd (sat, dissat) (by simp)
    simp only [ExtData.threshFold]
    by_cases hik : i < k
    · simp only [hik, if_true]
      cases sat with
      | none =>
        have hall := hsf.1 rfl
        have hc := countP_zero_of_all_false rest hall
        simp only [Option.isSome_none, List.countP_cons, hc, hasSat, List.length_cons]
        simp; omega
      | some x =>
        simp only []
        rw [threshFold_isSome k proj cmb rest (i + 1) _ hsf.2 hd']
        simp only [List.countP_cons, hasSat, Option.isSome_some, if_true, List.length_cons]
        congr 1
        apply propext
        constructor <;> intro h <;> omega
    · simp only [hik, if_false]
      cases dissat with
      | none => simp at hdis
      | some y =>
        simp only []
        rw [threshFold_isSome k proj cmb rest (i + 1) _ hsf.2 hd']
        have h0 : k - i = 0 := by omega
        have h1 : k - (i + 1) = 0 := by omega
        simp [h0, h1]

/-- each of the five folds of `ExtData::threshold`, on its own re-sorted vector -/
theorem sorted_fold_isSome (k : Nat) (proj proj' : SatData → Nat) (cmb : Nat → Nat → Nat)
    (v : List ExtData.SD) (hd : AllDis v) (hk : k ≤ v.length) :
    (ExtData.threshFold k proj' cmb 0 0 (ExtData.sortSD proj v).reverse).isSome
      = decide (k ≤ v.countP hasSat) := by
  obtain ⟨h1, h2, h3, h4⟩ := sortSD_props proj v hd
  rw [threshFold_isSome k proj' cmb _ 0 0 (SF_reverse _ h1)
    (fun p hp => h2 p (List.mem_reverse.mp hp))]
  simp only [List.length_reverse, List.countP_reverse, h3, h4, Nat.sub_zero]
  congr 1
  apply propext
  constructor <;> intro h <;> omega

theorem match5_isSome (a b c d e : Option Nat) (D : Bool)
    (ha : a.isSome = D) (hb : b.isSome = D) (hc : c.isSome = D) (hd : d.isSome = D)
    (he : e.isSome = D) :
    (match a, b, c, d, e with
      | some c', some s, some ss, some st, some o => some (⟨s, c', ss, st, o⟩ : SatData)
      | _, _, _, _, _ => none).isSome = D := by
  cases D <;> cases a <;> cases b <;> cases c <;> cases d <;> cases e <;> simp_all

/-- `ExtData::threshold`: a satisfaction figure exists iff at least `k` children have one
(all children having a dissatisfaction figure, `k ≤ n`) -/
theorem threshold_sat_isSome (k : Nat) (exts : List ExtData)
    (hd : ∀ e ∈ exts, e.dissatData.isSome = true) (hk : k ≤ exts.length) :
    (ExtData.threshold k exts).satData.isSome
      = decide (k ≤ exts.countP (fun e => e.satData.isSome)) := by
  have a0 : AllDis (exts.map (fun s => (s.satData, s.dissatData))) := by
    intro p hp
    obtain ⟨e, he, rfl⟩ := List.mem_map.mp hp
    exact hd e he
  have c0 : (exts.map (fun s => (s.satData, s.dissatData))).countP hasSat
      = exts.countP (fun e => e.satData.isSome) := by
    rw [List.countP_map]; rfl
  have l0 : (exts.map (fun s => (s.satData, s.dissatData))).length = exts.length := by simp
  obtain ⟨_, a1, c1, l1⟩ := sortSD_props (·.wCount) _ a0
  obtain ⟨_, a2, c2, l2⟩ := sortSD_props (·.wSize) _ a1
  obtain ⟨_, a3, c3, l3⟩ := sortSD_props (·.ssSize) _ a2
  obtain ⟨_, a4, c4, l4⟩ := sortSD_props (·.execStack) _ a3
  have f1 := sorted_fold_isSome k (·.wCount) (·.wCount) (· + ·) _ a0 (by omega)
  have f2 := sorted_fold_isSome k (·.wSize) (·.wSize) (· + ·) _ a1 (by omega)
  have f3 := sorted_fold_isSome k (·.ssSize) (·.ssSize) (· + ·) _ a2 (by omega)
  have f4 := sorted_fold_isSome k (·.execStack) (·.execStack) ExtData.execCmb _ a3 (by omega)
  have f5 := sorted_fold_isSome k (·.execOps) (·.execOps) (· + ·) _ a4 (by omega)
  rw [c1, c0] at f2
  rw [c2, c1, c0] at f3
  rw [c3, c2, c1, c0] at f4
  rw [c4, c3, c2, c1, c0] at f5
  rw [c0] at f1
  unfold ExtData.threshold
  exact match5_isSome _ _ _ _ _ _ f1 f2 f3 f4 f5

theorem threshold_dissat_isSome (k : Nat) (exts : List ExtData) :
    (ExtData.threshold k exts).dissatData.isSome = exts.all (fun e => e.dissatData.isSome) := by
  unfold ExtData.threshold
  simp only []
  suffices H : ∀ (acc : Option SatData), (exts.foldl (fun (acc : Option SatData) sub =>
      zipMap (fun a s => (⟨a.wSize + s.wSize, a.wCount + s.wCount, a.ssSize + s.ssSize,
        max a.execStack s.execStack, a.execOps + s.execOps⟩ : SatData)) acc sub.dissatData) acc).isSome
      = (acc.isSome && exts.all (fun e => e.dissatData.isSome)) by
    simpa using H (some ⟨0, 0, 0, 0, 0⟩)
  induction exts with
  | nil => intro acc; simp
  | cons e es ih => intro acc; simp only [List.foldl_cons, ih, zipMap_isSome', List.all_cons, Bool.and_assoc]

/-! ### the induction over the AST -/

/-- every `thresh` node has only dissatisfiable children (what its type rule demands: `Bdu`
first child, `Wdu` others) -/
def kidsPred : Ms → Bool
  | .thresh _ xs => allDsatEx allAvail xs
  | _ => true
def threshKidsOK (ms : Ms) : Bool := everyNode kidsPred ms

def SatAgree (env : KeyEnv) (ctx : Ctx) (ms : Ms) : Prop :=
  (extOf env ctx ms).satData.isSome = satEx allAvail ms
    ∧ (extOf env ctx ms).dissatData.isSome = dsatEx allAvail ms

theorem allDsatEx_eq_all : (xs : MsList) →
    allDsatEx allAvail xs = (xs.toList.map (dsatEx allAvail)).all id
  | .nil => by simp [allDsatEx, MsList.toList]
  | .cons x xs => by simp [allDsatEx, MsList.toList, allDsatEx_eq_all xs]

theorem counts_of_allDsat : (xs : MsList) → allDsatEx allAvail xs = true →
    countDead allAvail xs = 0 ∧ countOnlySat allAvail xs = 0
      ∧ countCanSat allAvail xs = (xs.toList.map (satEx allAvail)).countP id
  | .nil, _ => by simp [countDead, countOnlySat, countCanSat, MsList.toList]
  | .cons x xs, h => by
    simp only [allDsatEx, Bool.and_eq_true] at h
    obtain ⟨i1, i2, i3⟩ := counts_of_allDsat xs h.2
    simp only [countDead, countOnlySat, countCanSat, MsList.toList, List.map_cons,
      List.countP_cons, h.1, i1, i2, i3, id]
    cases satEx allAvail x <;> simp <;> omega

theorem filter_true (ks : List Key) : ks.filter allAvail.sig = ks := by
  simp [allAvail]

mutual
theorem satAgree_ms (env : KeyEnv) (ctx : Ctx) : (ms : Ms) → ruleRange ms = true →
    threshKidsOK ms = true → SatAgree env ctx ms
  | .tru, _, _ => by simp [SatAgree, extOf, ExtData.TRUE, satEx, dsatEx]
  | .fls, _, _ => by simp [SatAgree, extOf, ExtData.FALSE, satEx, dsatEx]
  | .pkK _, _, _ => by
    simp only [SatAgree, extOf, ExtData.pkK, satEx, dsatEx, allAvail]
    cases ExtData.keySig ctx (isUnc env _) <;> simp
  | .pkH _, _, _ => by
    simp only [SatAgree, extOf, ExtData.pkH, satEx, dsatEx, allAvail]
    cases ExtData.keySig ctx (isUnc env _) <;> simp
  | .rawPkH _, _, _ => by
    simp only [SatAgree, extOf, ExtData.pkH, satEx, dsatEx, allAvail]
    cases ExtData.keySig ctx false <;> simp
  | .after _, _, _ => by simp [SatAgree, extOf, ExtData.after, satEx, dsatEx, allAvail]
  | .older _, _, _ => by simp [SatAgree, extOf, ExtData.older, satEx, dsatEx, allAvail]
  | .hash k _, _, _ => by
    cases k <;> simp [SatAgree, extOf, ExtData.hash32, ExtData.hash20, satEx, dsatEx, allAvail]
  | .multi k ks, hr, _ => by
    simp only [ruleRange, everyNode, rangeOk, Bool.and_eq_true, decide_eq_true_eq] at hr
    refine ⟨?_, rfl⟩
    simp only [extOf, ExtData.multi, Option.isSome_some, satEx, filter_true]
    simp; omega
  | .sortedMulti k ks, hr, _ => by
    simp only [ruleRange, everyNode, rangeOk, Bool.and_eq_true, decide_eq_true_eq] at hr
    refine ⟨?_, rfl⟩
    simp only [extOf, ExtData.multi, Option.isSome_some, satEx, filter_true]
    simp; omega
  | .multiA k ks, hr, _ => by
    simp only [ruleRange, everyNode, rangeOk, Bool.and_eq_true, decide_eq_true_eq] at hr
    refine ⟨?_, rfl⟩
    simp only [extOf, ExtData.multiA, Option.isSome_some, satEx, filter_true]
    simp; omega
  | .sortedMultiA k ks, hr, _ => by
    simp only [ruleRange, everyNode, rangeOk, Bool.and_eq_true, decide_eq_true_eq] at hr
    refine ⟨?_, rfl⟩
    simp only [extOf, ExtData.multiA, Option.isSome_some, satEx, filter_true]
    simp; omega
  | .alt x, hr, hk => by
    simp only [ruleRange, threshKidsOK, everyNode, Bool.and_eq_true] at hr hk
    obtain ⟨h1, h2⟩ := satAgree_ms env ctx x hr.2 hk.2
    exact ⟨by simp only [extOf, ExtData.castAlt, satEx, h1], by simp only [extOf, ExtData.castAlt, dsatEx, h2]⟩
  | .swap x, hr, hk => by
    simp only [ruleRange, threshKidsOK, everyNode, Bool.and_eq_true] at hr hk
    obtain ⟨h1, h2⟩ := satAgree_ms env ctx x hr.2 hk.2
    exact ⟨by simp only [extOf, ExtData.castSwap, satEx, h1], by simp only [extOf, ExtData.castSwap, dsatEx, h2]⟩
  | .check x, hr, hk => by
    simp only [ruleRange, threshKidsOK, everyNode, Bool.and_eq_true] at hr hk
    obtain ⟨h1, h2⟩ := satAgree_ms env ctx x hr.2 hk.2
    exact ⟨by simp only [extOf, ExtData.castCheck, satEx, h1], by simp only [extOf, ExtData.castCheck, dsatEx, h2]⟩
  | .zeroNotEqual x, hr, hk => by
    simp only [ruleRange, threshKidsOK, everyNode, Bool.and_eq_true] at hr hk
    obtain ⟨h1, h2⟩ := satAgree_ms env ctx x hr.2 hk.2
    exact ⟨by simp only [extOf, ExtData.castZeroNotEqual, satEx, h1],
      by simp only [extOf, ExtData.castZeroNotEqual, dsatEx, h2]⟩
  | .dupIf x, hr, hk => by
    simp only [ruleRange, threshKidsOK, everyNode, Bool.and_eq_true] at hr hk
    obtain ⟨h1, _⟩ := satAgree_ms env ctx x hr.2 hk.2
    exact ⟨by simp only [extOf, ExtData.castDupIf, satEx, Option.isSome_map, h1], rfl⟩
  | .verify x, hr, hk => by
    simp only [ruleRange, threshKidsOK, everyNode, Bool.and_eq_true] at hr hk
    obtain ⟨h1, _⟩ := satAgree_ms env ctx x hr.2 hk.2
    exact ⟨by simp only [extOf, ExtData.castVerify, satEx, h1], rfl⟩
  | .nonZero x, hr, hk => by
    simp only [ruleRange, threshKidsOK, everyNode, Bool.and_eq_true] at hr hk
    obtain ⟨h1, _⟩ := satAgree_ms env ctx x hr.2 hk.2
    exact ⟨by simp only [extOf, ExtData.castNonZero, satEx, h1], rfl⟩
  | .andV l r, hr, hk => by
    simp only [ruleRange, threshKidsOK, everyNode, Bool.and_eq_true] at hr hk
    obtain ⟨l1, _⟩ := satAgree_ms env ctx l hr.1.2 hk.1.2
    obtain ⟨r1, _⟩ := satAgree_ms env ctx r hr.2 hk.2
    exact ⟨by simp only [extOf, ExtData.andV, satEx, zipMap_isSome', l1, r1], rfl⟩
  | .andB l r, hr, hk => by
    simp only [ruleRange, threshKidsOK, everyNode, Bool.and_eq_true] at hr hk
    obtain ⟨l1, l2⟩ := satAgree_ms env ctx l hr.1.2 hk.1.2
    obtain ⟨r1, r2⟩ := satAgree_ms env ctx r hr.2 hk.2
    exact ⟨by simp only [extOf, ExtData.andB, satEx, zipMap_isSome', l1, r1],
      by simp only [extOf, ExtData.andB, dsatEx, zipMap_isSome', l2, r2]⟩
  | .orB l r, hr, hk => by
    simp only [ruleRange, threshKidsOK, everyNode, Bool.and_eq_true] at hr hk
    obtain ⟨l1, l2⟩ := satAgree_ms env ctx l hr.1.2 hk.1.2
    obtain ⟨r1, r2⟩ := satAgree_ms env ctx r hr.2 hk.2
    exact ⟨by simp only [extOf, ExtData.orB, satEx, fmaxOpt_isSome, zipMap_isSome', l1, l2, r1, r2],
      by simp only [extOf, ExtData.orB, dsatEx, zipMap_isSome', l2, r2]⟩
  | .orD l r, hr, hk => by
    simp only [ruleRange, threshKidsOK, everyNode, Bool.and_eq_true] at hr hk
    obtain ⟨l1, l2⟩ := satAgree_ms env ctx l hr.1.2 hk.1.2
    obtain ⟨r1, r2⟩ := satAgree_ms env ctx r hr.2 hk.2
    exact ⟨by simp only [extOf, ExtData.orD, satEx, fmaxOpt_isSome, zipMap_isSome', l1, l2, r1],
      by simp only [extOf, ExtData.orD, dsatEx, zipMap_isSome', l2, r2]⟩
  | .orC l r, hr, hk => by
    simp only [ruleRange, threshKidsOK, everyNode, Bool.and_eq_true] at hr hk
    obtain ⟨l1, l2⟩ := satAgree_ms env ctx l hr.1.2 hk.1.2
    obtain ⟨r1, _⟩ := satAgree_ms env ctx r hr.2 hk.2
    exact ⟨by simp only [extOf, ExtData.orC, satEx, fmaxOpt_isSome, zipMap_isSome', l1, l2, r1], rfl⟩
  | .orI l r, hr, hk => by
    simp only [ruleRange, threshKidsOK, everyNode, Bool.and_eq_true] at hr hk
    obtain ⟨l1, l2⟩ := satAgree_ms env ctx l hr.1.2 hk.1.2
    obtain ⟨r1, r2⟩ := satAgree_ms env ctx r hr.2 hk.2
    exact ⟨by simp only [extOf, ExtData.orI, satEx, fmaxOpt_isSome, Option.isSome_map, l1, r1],
      by simp only [extOf, ExtData.orI, dsatEx, fmaxOpt_isSome, Option.isSome_map, l2, r2]⟩
  | .andOr a b c, hr, hk => by
    simp only [ruleRange, threshKidsOK, everyNode, Bool.and_eq_true] at hr hk
    obtain ⟨a1, a2⟩ := satAgree_ms env ctx a hr.1.1.2 hk.1.1.2
    obtain ⟨b1, _⟩ := satAgree_ms env ctx b hr.1.2 hk.1.2
    obtain ⟨c1, c2⟩ := satAgree_ms env ctx c hr.2 hk.2
    exact ⟨by simp only [extOf, ExtData.andOr, satEx, fmaxOpt_isSome, zipMap_isSome', a1, a2, b1, c1],
      by simp only [extOf, ExtData.andOr, dsatEx, zipMap_isSome', a2, c2]⟩
  | .thresh k xs, hr, hk => by
    simp only [ruleRange, threshKidsOK, everyNode, Bool.and_eq_true, rangeOk, kidsPred,
      decide_eq_true_eq] at hr hk
    obtain ⟨⟨hk1, hk2⟩, hrest⟩ := hr
    obtain ⟨hkids, hkrest⟩ := hk
    obtain ⟨hs, hd, hlen⟩ := satAgree_list env ctx xs hrest hkrest
    have hdall : (xs.toList.map (dsatEx allAvail)).all id = true := by
      rw [← allDsatEx_eq_all]; exact hkids
    have hdis : ∀ e ∈ extsOf env ctx xs, e.dissatData.isSome = true := by
      intro e he
      have : e.dissatData.isSome ∈ (extsOf env ctx xs).map (fun e => e.dissatData.isSome) :=
        List.mem_map.mpr ⟨e, he, rfl⟩
      rw [hd] at this
      simpa using List.all_eq_true.mp hdall _ this
    obtain ⟨c1, c2, c3⟩ := counts_of_allDsat xs hkids
    refine ⟨?_, ?_⟩
    · simp only [extOf, satEx, threshEx, c1, c2, c3]
      rw [threshold_sat_isSome k _ hdis (by rw [hlen]; exact hk2)]
      have : (extsOf env ctx xs).countP (fun e => e.satData.isSome)
          = (xs.toList.map (satEx allAvail)).countP id := by
        rw [← hs, List.countP_map]; rfl
      rw [this]; simp
    · simp only [extOf, dsatEx, threshold_dissat_isSome, hkids]
      rw [List.all_eq_true]; exact hdis
theorem satAgree_list (env : KeyEnv) (ctx : Ctx) : (xs : MsList) →
    everyNodeL rangeOk xs = true → everyNodeL kidsPred xs = true →
    (extsOf env ctx xs).map (fun e => e.satData.isSome) = xs.toList.map (satEx allAvail)
      ∧ (extsOf env ctx xs).map (fun e => e.dissatData.isSome) = xs.toList.map (dsatEx allAvail)
      ∧ (extsOf env ctx xs).length = xs.length
  | .nil, _, _ => ⟨rfl, rfl, rfl⟩
  | .cons x xs, hr, hk => by
    simp only [everyNodeL, Bool.and_eq_true] at hr hk
    obtain ⟨h1, h2⟩ := satAgree_ms env ctx x hr.1 hk.1
    obtain ⟨i1, i2, i3⟩ := satAgree_list env ctx xs hr.2 hk.2
    exact ⟨by simp only [extsOf, MsList.toList, List.map_cons, h1, i1],
      by simp only [extsOf, MsList.toList, List.map_cons, h2, i2],
      by simp only [extsOf, MsList.length, List.length_cons, i3]⟩
end

/-- `sat_data = Some` ⇔ the specification's table has a satisfaction with every asset available -/
theorem satData_isSome_eq_satEx (env : KeyEnv) (ctx : Ctx) (ms : Ms) (hr : ruleRange ms = true)
    (hk : threshKidsOK ms = true) :
    (extOf env ctx ms).satData.isSome = !hasDefect_unsatisfiable ms := by
  rw [(satAgree_ms env ctx ms hr hk).1, hasDefect_unsatisfiable, Bool.not_not]

end MsVerif

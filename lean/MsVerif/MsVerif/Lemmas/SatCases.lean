/-
Per-fragment soundness of the satisfier model: for every constructor, if the children are
`Sound` then so is the node.  `Sound c ms sd`: whenever the satisfaction (dissatisfaction) in
the pair `sd` is an available stack whose reported locks are met, running `ms` on it leaves
what correctness type `c` promises (`SatRuns` / `DisRuns`).
-/
import MsVerif.Lemmas.SatExecN
import MsVerif.Lemmas.SatModel

namespace MsVerif.SatSpec
open MsVerif Script

variable {env : Env} {ke : KeyEnv} {ctx : Ctx} {σ : Ph → Bytes} {a : Assets}

structure Sound (env : Env) (ke : KeyEnv) (ctx : Ctx) (σ : Ph → Bytes) (c : Corr) (ms : Ms)
    (sd : SatDissat) : Prop where
  sat : ∀ w, Good env sd.sat w → SatRuns env ke ctx σ c ms w
  dis : ∀ w, Good env sd.dissat w → DisRuns env ke ctx σ c ms w

/-! ### unfolding the statement by base type -/

section unfold
variable {c : Corr} {ms : Ms} {w : List Ph}

theorem satRuns_nonW (hb : c.base ≠ .W) : SatRuns env ke ctx σ c ms w ↔
    ∀ rest, ∃ out, Runs (frag env ke ctx ms) (stk σ w ++ rest) out ∧ SatPost env c rest out := by
  unfold SatRuns
  cases h : c.base <;> simp_all

theorem disRuns_nonW (hb : c.base ≠ .W) : DisRuns env ke ctx σ c ms w ↔
    ∀ rest, ∃ out, Runs (frag env ke ctx ms) (stk σ w ++ rest) out ∧ DisPost env c rest out := by
  unfold DisRuns
  cases h : c.base <;> simp_all

theorem satRuns_B (hb : c.base = .B) : SatRuns env ke ctx σ c ms w ↔
    ∀ rest, ∃ v, Runs (frag env ke ctx ms) (stk σ w ++ rest) (v :: rest) ∧ TrueVal env v ∧
      (c.unit = true → v = [1]) := by
  rw [satRuns_nonW (by simp [hb])]
  simp only [SatPost, hb]
  constructor
  · intro h rest
    obtain ⟨out, hr, v, rfl, hv⟩ := h rest
    exact ⟨v, hr, hv⟩
  · intro h rest
    obtain ⟨v, hr, hv⟩ := h rest
    exact ⟨_, hr, v, rfl, hv⟩

theorem satRuns_V (hb : c.base = .V) : SatRuns env ke ctx σ c ms w ↔
    ∀ rest, Runs (frag env ke ctx ms) (stk σ w ++ rest) rest := by
  rw [satRuns_nonW (by simp [hb])]
  simp only [SatPost, hb]
  constructor
  · intro h rest
    obtain ⟨out, hr, rfl⟩ := h rest
    exact hr
  · intro h rest
    exact ⟨_, h rest, rfl⟩

theorem satRuns_K (hb : c.base = .K) : SatRuns env ke ctx σ c ms w ↔
    ∀ rest, ∃ pk sig, Runs (frag env ke ctx ms) (stk σ w ++ rest) (pk :: sig :: rest) ∧
      checkSig env sig pk = .ok true := by
  rw [satRuns_nonW (by simp [hb])]
  simp only [SatPost, hb]
  constructor
  · intro h rest
    obtain ⟨out, hr, pk, sig, rfl, hv⟩ := h rest
    exact ⟨pk, sig, hr, hv⟩
  · intro h rest
    obtain ⟨pk, sig, hr, hv⟩ := h rest
    exact ⟨_, hr, pk, sig, rfl, hv⟩

theorem satRuns_W (hb : c.base = .W) : SatRuns env ke ctx σ c ms w ↔
    ∀ t rest, ∃ v, TrueVal env v ∧ (c.unit = true → v = [1]) ∧
      (Runs (frag env ke ctx ms) (t :: (stk σ w ++ rest)) (t :: v :: rest) ∨
       Runs (frag env ke ctx ms) (t :: (stk σ w ++ rest)) (v :: t :: rest)) := by
  unfold SatRuns
  simp [hb]

theorem disRuns_B (hb : c.base = .B) : DisRuns env ke ctx σ c ms w ↔
    ∀ rest, Runs (frag env ke ctx ms) (stk σ w ++ rest) ([] :: rest) := by
  rw [disRuns_nonW (by simp [hb])]
  simp only [DisPost, hb]
  constructor
  · intro h rest
    obtain ⟨out, hr, rfl⟩ := h rest
    exact hr
  · intro h rest
    exact ⟨_, h rest, rfl⟩

theorem disRuns_V (hb : c.base = .V) : DisRuns env ke ctx σ c ms w ↔ False := by
  rw [disRuns_nonW (by simp [hb])]
  simp only [DisPost, hb]
  constructor
  · intro h
    obtain ⟨_, _, hf⟩ := h []
    exact hf
  · intro h; exact h.elim

theorem disRuns_K (hb : c.base = .K) : DisRuns env ke ctx σ c ms w ↔
    ∀ rest, ∃ pk, Runs (frag env ke ctx ms) (stk σ w ++ rest) (pk :: [] :: rest) ∧
      pubkeyOk env pk = true := by
  rw [disRuns_nonW (by simp [hb])]
  simp only [DisPost, hb]
  constructor
  · intro h rest
    obtain ⟨out, hr, pk, rfl, hv⟩ := h rest
    exact ⟨pk, hr, hv⟩
  · intro h rest
    obtain ⟨pk, hr, hv⟩ := h rest
    exact ⟨_, hr, pk, rfl, hv⟩

theorem disRuns_W (hb : c.base = .W) : DisRuns env ke ctx σ c ms w ↔
    ∀ t rest,
      (Runs (frag env ke ctx ms) (t :: (stk σ w ++ rest)) (t :: [] :: rest) ∨
       Runs (frag env ke ctx ms) (t :: (stk σ w ++ rest)) ([] :: t :: rest)) := by
  unfold DisRuns
  simp [hb]

end unfold

theorem SatPost.mono {c c' : Corr} {rest out : List Bytes} (hb : c'.base = c.base)
    (hu : c'.unit = true → c.unit = true) (h : SatPost env c rest out) : SatPost env c' rest out := by
  unfold SatPost at *
  rw [hb]
  cases hcb : c.base <;> simp only [hcb] at h ⊢
  · obtain ⟨v, e, t, u⟩ := h; exact ⟨v, e, t, fun h' => u (hu h')⟩
  · exact h
  · exact h
  · obtain ⟨v, e, t, u⟩ := h; exact ⟨v, e, t, fun h' => u (hu h')⟩

theorem DisPost.mono {c c' : Corr} {rest out : List Bytes} (hb : c'.base = c.base)
    (h : DisPost env c rest out) : DisPost env c' rest out := by
  unfold DisPost at *
  rw [hb]
  exact h

theorem trueVal_one : TrueVal env [1] :=
  ⟨by decide, 1, num4_one env, by decide⟩

theorem stk_append (w1 w2 : List Ph) : stk σ (w1 ++ w2) = stk σ w2 ++ stk σ w1 := by
  simp [stk]

theorem stk_nil : stk σ [] = [] := rfl
theorem stk_single (p : Ph) : stk σ [p] = [σ p] := rfl

theorem good_impossible {w : List Ph} : ¬ Good env Sat.IMPOSSIBLE w := by
  simp [Good, Sat.IMPOSSIBLE]

theorem good_stack {ws : Wit} {hs : Bool} {ab rl : Option Nat} {w : List Ph}
    (h : Good env ⟨ws, hs, ab, rl⟩ w) : ws = .stack w := h.1

/-! ### leaves -/

theorem fls_case (h : EnvOk env ctx) :
    Sound env ke ctx σ Corr.FALSE .fls ⟨Sat.TRIVIAL, Sat.IMPOSSIBLE⟩ where
  sat := fun w hw => (good_impossible hw).elim
  dis := fun w hw => by
    have : w = [] := by have := hw.1; simp [Sat.TRIVIAL] at this; first | exact this | exact this.symm
    subst this
    rw [disRuns_B (by rfl)]
    intro rest
    exact frag_fls h rest

theorem tru_case (h : EnvOk env ctx) :
    Sound env ke ctx σ Corr.TRUE .tru ⟨Sat.IMPOSSIBLE, Sat.TRIVIAL⟩ where
  dis := fun w hw => (good_impossible hw).elim
  sat := fun w hw => by
    have : w = [] := by have := hw.1; simp [Sat.TRIVIAL] at this; first | exact this | exact this.symm
    subst this
    rw [satRuns_B (by rfl)]
    intro rest
    exact ⟨[1], frag_tru h rest, trueVal_one, fun _ => rfl⟩

/-- an available signature placeholder is realised by a non-empty valid signature -/
theorem sigWit_stack (hag : Agrees env ke a σ) {k : Key} {w : List Ph}
    (hw : sigWit ctx a k = .stack w) :
    ∃ p, w = [p] ∧ σ p ≠ [] ∧ env.sigOk (ke.ser k) (σ p) = true := by
  unfold sigWit at hw
  split at hw
  · split at hw
    · rename_i sz hsz
      simp only [Wit.stack.injEq] at hw
      exact ⟨_, hw.symm, hag.schnorr k sz hsz⟩
    · simp at hw
  · split at hw
    · rename_i he
      simp only [Wit.stack.injEq] at hw
      exact ⟨_, hw.symm, hag.ecdsa k he⟩
    · simp at hw

theorem checkSig_ok {sig pk : Bytes} (hpk : pubkeyOk env pk = true) (hne : sig ≠ [])
    (hs : env.sigOk pk sig = true) : checkSig env sig pk = .ok true := by
  simp [checkSig, hpk, hs, hne]

theorem checkSig_empty {pk : Bytes} (hpk : pubkeyOk env pk = true) :
    checkSig env [] pk = .ok false := by
  simp [checkSig, hpk]

theorem pkK_case (h : EnvOk env ctx) (hag : Agrees env ke a σ) (k : Key) :
    Sound env ke ctx σ Corr.pkK (.pkK k) ⟨Sat.push0, ⟨sigWit ctx a k, true, none, none⟩⟩ where
  sat := fun w hw => by
    obtain ⟨p, rfl, hne, hok⟩ := sigWit_stack hag (good_stack hw)
    rw [satRuns_K (by rfl)]
    intro rest
    exact ⟨ke.ser k, σ p, frag_pkK h k _, checkSig_ok (hag.keyShape k) hne hok⟩
  dis := fun w hw => by
    have : w = [.pushZero] := by have := hw.1; simp [Sat.push0] at this; first | exact this | exact this.symm
    subst this
    rw [disRuns_K (by rfl)]
    intro rest
    refine ⟨ke.ser k, ?_, hag.keyShape k⟩
    have := frag_pkK (ke := ke) h k (stk σ [.pushZero] ++ rest)
    simpa [stk, hag.pushZero] using this

theorem pkH_case (h : EnvOk env ctx) (hag : Agrees env ke a σ) (k : Key) (sz : Nat) :
    Sound env ke ctx σ Corr.pkH (.pkH k)
      ⟨⟨Wit.combine (.stack [.pushZero]) (.stack [.pubkey k sz]), false, none, none⟩,
       ⟨Wit.combine (sigWit ctx a k) (.stack [.pubkey k sz]), true, none, none⟩⟩ where
  sat := fun w hw => by
    obtain ⟨w1, w2, e1, e2, rfl⟩ := combine_stack (good_stack hw)
    obtain ⟨p, rfl, hne, hok⟩ := sigWit_stack hag e1
    simp only [Wit.stack.injEq] at e2; subst e2
    rw [satRuns_K (by rfl)]
    intro rest
    refine ⟨ke.ser k, σ p, ?_, checkSig_ok (hag.keyShape k) hne hok⟩
    have := frag_pkH (ke := ke) h k (ke.ser k) (σ p :: rest) (hag.pkh k)
    simpa [stk, hag.pubkey] using this
  dis := fun w hw => by
    have : w = [.pushZero, .pubkey k sz] := by
      have := hw.1; simp [Wit.combine] at this; first | exact this | exact this.symm
    subst this
    rw [disRuns_K (by rfl)]
    intro rest
    refine ⟨ke.ser k, ?_, hag.keyShape k⟩
    have := frag_pkH (ke := ke) h k (ke.ser k) ([] :: rest) (hag.pkh k)
    simpa [stk, hag.pubkey, hag.pushZero] using this

variable {cfg : SatCfg}

theorem rawPkH_case (h : EnvOk env cfg.ctx) (hag : Agrees env cfg.env cfg.assets σ) (x : Nat) :
    Sound env cfg.env cfg.ctx σ Corr.pkH (.rawPkH x) (satDissat cfg (.rawPkH x)) where
  sat := fun w hw => by
    simp only [satDissat] at hw
    have hs := good_stack hw
    rw [satRuns_K (by rfl)]
    intro rest
    split at hs
    · split at hs
      · rename_i pk sz hsch
        simp only [Wit.stack.injEq] at hs; subst hs
        have hk := hag.rawPk x (pkLen cfg.env cfg.ctx pk) (.inr (.inr (by simp [hsch])))
        have hsg := hag.rawSchnorr x pk sz (pkLen cfg.env cfg.ctx pk) hsch
        refine ⟨_, _, ?_, checkSig_ok hk.2 hsg.1 hsg.2⟩
        have := frag_rawPkH (ke := cfg.env) h x _ (σ (.schnorrSigPkh x sz) :: rest) hk.1
        simpa [stk] using this
      · simp at hs
    · split at hs
      · rename_i pk hec
        simp only [Wit.stack.injEq] at hs; subst hs
        have hk := hag.rawPk x (pkLen cfg.env cfg.ctx pk) (.inr (.inl (by simp [hec])))
        have hsg := hag.rawEcdsa x pk (pkLen cfg.env cfg.ctx pk) hec
        refine ⟨_, _, ?_, checkSig_ok hk.2 hsg.1 hsg.2⟩
        have := frag_rawPkH (ke := cfg.env) h x _ (σ (.ecdsaSigPkh x) :: rest) hk.1
        simpa [stk] using this
      · simp at hs
  dis := fun w hw => by
    simp only [satDissat] at hw
    have hs := good_stack hw
    rw [disRuns_K (by rfl)]
    intro rest
    split at hs
    · rename_i pk hpk
      simp only [Wit.combine, Wit.stack.injEq] at hs; subst hs
      have hk := hag.rawPk x (pkLen cfg.env cfg.ctx pk) (.inl (by simp [hpk]))
      refine ⟨_, ?_, hk.2⟩
      have := frag_rawPkH (ke := cfg.env) h x _ ([] :: rest) hk.1
      simpa [stk, hag.pushZero] using this
    · simp [Wit.combine] at hs

theorem trueVal_num {n : Nat} (hn : NumOk n) (h1 : 1 ≤ n) : TrueVal env (numEncode (n : Int)) :=
  ⟨hn.2 (by omega), n, hn.num4 env, by omega⟩

theorem after_case (h : EnvOk env cfg.ctx) (n : Nat) (hwf : WF cfg.ctx (.after n)) :
    Sound env cfg.env cfg.ctx σ Corr.time (.after n) (satDissat cfg (.after n)) where
  dis := fun w hw => by simp only [satDissat] at hw; exact (good_impossible hw).elim
  sat := fun w hw => by
    simp only [satDissat] at hw
    simp only [WF] at hwf
    rw [satRuns_B (by rfl)]
    intro rest
    split at hw
    · have hl := hw.2.1 n rfl
      have : w = [] := by have := hw.1; simp at this; first | exact this | exact this.symm
      subst this
      exact ⟨_, frag_after h (numOk_of_lt n hwf.2) hl rest, trueVal_num (numOk_of_lt n hwf.2) hwf.1,
        by simp [Corr.time]⟩
    · have := hw.1
      split at this <;> simp at this

theorem older_case (h : EnvOk env cfg.ctx) (n : Nat) (hwf : WF cfg.ctx (.older n)) :
    Sound env cfg.env cfg.ctx σ Corr.time (.older n) (satDissat cfg (.older n)) where
  dis := fun w hw => by simp only [satDissat] at hw; exact (good_impossible hw).elim
  sat := fun w hw => by
    simp only [satDissat] at hw
    simp only [WF] at hwf
    rw [satRuns_B (by rfl)]
    intro rest
    split at hw
    · have hl := hw.2.2 n rfl
      have : w = [] := by have := hw.1; simp at this; first | exact this | exact this.symm
      subst this
      exact ⟨_, frag_older h (numOk_of_lt n hwf.2) hl rest, trueVal_num (numOk_of_lt n hwf.2) hwf.1,
        by simp [Corr.time]⟩
    · have := hw.1
      split at this <;> simp at this

theorem hash_case (h : EnvOk env cfg.ctx) (hag : Agrees env cfg.env cfg.assets σ)
    (kind : HashKind) (x : Nat) :
    Sound env cfg.env cfg.ctx σ Corr.hash (.hash kind x) (satDissat cfg (.hash kind x)) where
  sat := fun w hw => by
    simp only [satDissat] at hw
    have hs := good_stack hw
    rw [satRuns_B (by rfl)]
    intro rest
    split at hs
    · rename_i hp
      simp only [Wit.stack.injEq] at hs; subst hs
      have := hag.preimage kind x hp
      exact ⟨[1], frag_hash_sat h kind x _ rest this.1 this.2, trueVal_one, fun _ => rfl⟩
    · simp at hs
  dis := fun w hw => by
    simp only [satDissat] at hw
    have hs := good_stack hw
    simp only [Wit.stack.injEq] at hs; subst hs
    rw [disRuns_B (by rfl)]
    intro rest
    have := frag_hash_dis (ke := cfg.env) h kind x (List.replicate 32 0) rest (by simp)
      (hag.zeroNoPreimage kind x)
    simpa [stk, hag.hashDissat] using this

/-! ### wrappers -/

section wrappers
variable {x : Ms} {cx c : Corr}

theorem alt_case (h : EnvOk env cfg.ctx) (hc : Corr.castAlt cx = some c)
    (ih : Sound env cfg.env cfg.ctx σ cx x (satDissat cfg x)) :
    Sound env cfg.env cfg.ctx σ c (.alt x) (satDissat cfg (.alt x)) := by
  have hb : cx.base = .B ∧ c.base = .W ∧ c.unit = cx.unit := by
    unfold Corr.castAlt at hc; split at hc <;> simp at hc; subst hc; simp [*]
  constructor
  · intro w hw
    simp only [satDissat] at hw
    have := (satRuns_B hb.1).mp (ih.sat w hw)
    rw [satRuns_W hb.2.1]
    intro t rest
    obtain ⟨v, hr, hv, hu⟩ := this rest
    exact ⟨v, hv, fun h' => hu (hb.2.2 ▸ h'), .inl (frag_alt h hr)⟩
  · intro w hw
    simp only [satDissat] at hw
    have := (disRuns_B hb.1).mp (ih.dis w hw)
    rw [disRuns_W hb.2.1]
    intro t rest
    exact .inl (frag_alt h (this rest))

theorem swap_case (h : EnvOk env cfg.ctx) (hc : Corr.castSwap cx = some c)
    (ih : Sound env cfg.env cfg.ctx σ cx x (satDissat cfg x))
    (sh : Shape σ cx (satDissat cfg x)) :
    Sound env cfg.env cfg.ctx σ c (.swap x) (satDissat cfg (.swap x)) := by
  have hb : cx.base = .B ∧ c.base = .W ∧ c.unit = cx.unit ∧
      (cx.input = .one ∨ cx.input = .oneNonZero) := by
    unfold Corr.castSwap at hc; split at hc <;> try simp at hc
    split at hc <;> simp at hc <;> subst hc <;> simp [*]
  constructor
  · intro w hw
    simp only [satDissat] at hw
    have hlen := sh.one hb.2.2.2 w (.inl hw.1)
    obtain ⟨p, rfl⟩ : ∃ p, w = [p] := by
      match w, hlen with
      | [p], _ => exact ⟨p, rfl⟩
    have := (satRuns_B hb.1).mp (ih.sat _ hw)
    rw [satRuns_W hb.2.1]
    intro t rest
    obtain ⟨v, hr, hv, hu⟩ := this (t :: rest)
    refine ⟨v, hv, fun h' => hu (hb.2.2.1 ▸ h'), .inr ?_⟩
    exact frag_swap h (by simpa [stk] using hr)
  · intro w hw
    simp only [satDissat] at hw
    have hlen := sh.one hb.2.2.2 w (.inr hw.1)
    obtain ⟨p, rfl⟩ : ∃ p, w = [p] := by
      match w, hlen with
      | [p], _ => exact ⟨p, rfl⟩
    have := (disRuns_B hb.1).mp (ih.dis _ hw)
    rw [disRuns_W hb.2.1]
    intro t rest
    exact .inr (frag_swap h (by simpa [stk] using this (t :: rest)))

theorem boolBytes_true : boolBytes true = [1] := rfl
theorem boolBytes_false : boolBytes false = [] := rfl

theorem check_case (h : EnvOk env cfg.ctx) (hc : Corr.castCheck cx = some c)
    (ih : Sound env cfg.env cfg.ctx σ cx x (satDissat cfg x)) :
    Sound env cfg.env cfg.ctx σ c (.check x) (satDissat cfg (.check x)) := by
  have hb : cx.base = .K ∧ c.base = .B := by
    unfold Corr.castCheck at hc; split at hc <;> simp at hc; subst hc; simp [*]
  constructor
  · intro w hw
    simp only [satDissat] at hw
    have := (satRuns_K hb.1).mp (ih.sat w hw)
    rw [satRuns_B hb.2]
    intro rest
    obtain ⟨pk, sig, hr, hs⟩ := this rest
    exact ⟨[1], frag_check h hr hs, trueVal_one, fun _ => rfl⟩
  · intro w hw
    simp only [satDissat] at hw
    have := (disRuns_K hb.1).mp (ih.dis w hw)
    rw [disRuns_B hb.2]
    intro rest
    obtain ⟨pk, hr, hpk⟩ := this rest
    exact frag_check h hr (checkSig_empty hpk)

theorem dupIf_case (h : EnvOk env cfg.ctx) (hag : Agrees env cfg.env cfg.assets σ)
    (hc : Corr.castDupIf cx = some c)
    (ih : Sound env cfg.env cfg.ctx σ cx x (satDissat cfg x))
    (sh : Shape σ cx (satDissat cfg x)) :
    Sound env cfg.env cfg.ctx σ c (.dupIf x) (satDissat cfg (.dupIf x)) := by
  have hb : cx.base = .V ∧ cx.input = .zero ∧ c.base = .B := by
    unfold Corr.castDupIf at hc; split at hc <;> try simp at hc
    split at hc <;> simp at hc <;> subst hc <;> simp [*]
  constructor
  · intro w hw
    simp only [satDissat] at hw
    obtain ⟨w0, hw0, rfl⟩ := withPush_good hw
    have : w0 = [] := sh.zero hb.2.1 w0 (.inl hw0.1)
    subst this
    have := (satRuns_V hb.1).mp (ih.sat _ hw0)
    rw [satRuns_B hb.2.2]
    intro rest
    refine ⟨[1], ?_, trueVal_one, fun _ => rfl⟩
    have hr := this ([1] :: rest)
    have := frag_dupIf_true h (by simpa [stk] using hr)
    simpa [stk, hag.pushOne] using this
  · intro w hw
    simp only [satDissat] at hw
    have : w = [.pushZero] := by
      have := hw.1; simp [Sat.push0] at this; first | exact this | exact this.symm
    subst this
    rw [disRuns_B hb.2.2]
    intro rest
    have := frag_dupIf_false (ke := cfg.env) h x rest
    simpa [stk, hag.pushZero] using this

theorem verify_case (h : EnvOk env cfg.ctx) (hc : Corr.castVerify cx = some c)
    (ih : Sound env cfg.env cfg.ctx σ cx x (satDissat cfg x)) :
    Sound env cfg.env cfg.ctx σ c (.verify x) (satDissat cfg (.verify x)) := by
  have hb : cx.base = .B ∧ c.base = .V := by
    unfold Corr.castVerify at hc; split at hc <;> simp at hc; subst hc; simp [*]
  constructor
  · intro w hw
    simp only [satDissat] at hw
    have := (satRuns_B hb.1).mp (ih.sat w hw)
    rw [satRuns_V hb.2]
    intro rest
    obtain ⟨v, hr, hv, _⟩ := this rest
    exact frag_verify h hr hv.1
  · intro w hw
    simp only [satDissat] at hw
    exact (good_impossible hw).elim

theorem nonZero_case (h : EnvOk env cfg.ctx) (hag : Agrees env cfg.env cfg.assets σ)
    (hc : Corr.castNonZero cx = some c)
    (ih : Sound env cfg.env cfg.ctx σ cx x (satDissat cfg x))
    (sh : Shape σ cx (satDissat cfg x)) :
    Sound env cfg.env cfg.ctx σ c (.nonZero x) (satDissat cfg (.nonZero x)) := by
  have hb : cx.base = .B ∧ c.base = .B ∧ c.unit = cx.unit ∧
      (cx.input = .oneNonZero ∨ cx.input = .anyNonZero) := by
    unfold Corr.castNonZero at hc; split at hc <;> try simp at hc
    rename_i hin
    split at hc <;> simp at hc; subst hc
    refine ⟨by assumption, rfl, rfl, ?_⟩
    cases hi : cx.input <;> simp_all
  constructor
  · intro w hw
    simp only [satDissat] at hw
    obtain ⟨w', p, rfl, hp⟩ := sh.nonzero hb.2.2.2 w hw.1
    have := (satRuns_B hb.1).mp (ih.sat _ hw)
    rw [satRuns_B hb.2.1]
    intro rest
    obtain ⟨v, hr, hv, hu⟩ := this rest
    refine ⟨v, ?_, hv, fun h' => hu (hb.2.2.1 ▸ h')⟩
    have hr' : Runs (frag env cfg.env cfg.ctx x) (σ p :: (stk σ w' ++ rest)) (v :: rest) := by
      simpa [stk] using hr
    have := frag_nonZero_sat h hp (numOk_of_lt _ (hag.sizeOk p)) hr'
    simpa [stk] using this
  · intro w hw
    simp only [satDissat] at hw
    have : w = [.pushZero] := by
      have := hw.1; simp [Sat.push0] at this; first | exact this | exact this.symm
    subst this
    rw [disRuns_B hb.2.1]
    intro rest
    have := frag_nonZero_dis (ke := cfg.env) h x rest
    simpa [stk, hag.pushZero] using this

theorem zeroNotEqual_case (h : EnvOk env cfg.ctx) (hc : Corr.castZeroNotEqual cx = some c)
    (ih : Sound env cfg.env cfg.ctx σ cx x (satDissat cfg x)) :
    Sound env cfg.env cfg.ctx σ c (.zeroNotEqual x) (satDissat cfg (.zeroNotEqual x)) := by
  have hb : cx.base = .B ∧ c.base = .B := by
    unfold Corr.castZeroNotEqual at hc; split at hc <;> simp at hc; subst hc; simp [*]
  constructor
  · intro w hw
    simp only [satDissat] at hw
    have := (satRuns_B hb.1).mp (ih.sat w hw)
    rw [satRuns_B hb.2]
    intro rest
    obtain ⟨v, hr, ⟨_, n, hn, hn0⟩, _⟩ := this rest
    refine ⟨[1], ?_, trueVal_one, fun _ => rfl⟩
    have := frag_zeroNotEqual h hr hn
    simpa [hn0, boolBytes] using this
  · intro w hw
    simp only [satDissat] at hw
    have := (disRuns_B hb.1).mp (ih.dis w hw)
    rw [disRuns_B hb.2]
    intro rest
    have := frag_zeroNotEqual h (this rest) (num4_nil env)
    simpa [boolBytes] using this

end wrappers

/-! ### binary and ternary fragments -/

section binary
variable {l r z : Ms} {cl cr cz c : Corr}

theorem andV_case (h : EnvOk env cfg.ctx) (hc : Corr.andV cl cr = some c)
    (ihl : Sound env cfg.env cfg.ctx σ cl l (satDissat cfg l))
    (ihr : Sound env cfg.env cfg.ctx σ cr r (satDissat cfg r)) :
    Sound env cfg.env cfg.ctx σ c (.andV l r) (satDissat cfg (.andV l r)) := by
  have hb : cl.base = .V ∧ cr.base ≠ .W ∧ c.base = cr.base ∧ c.unit = cr.unit := by
    unfold Corr.andV at hc; split at hc <;> simp at hc <;> subst hc <;> simp [*]
  have hcW : c.base ≠ .W := hb.2.2.1 ▸ hb.2.1
  constructor
  · intro w hw
    simp only [satDissat] at hw
    obtain ⟨wl, wr, hl, hr, rfl⟩ := concat_good hw
    have Hl := (satRuns_V hb.1).mp (ihl.sat _ hl)
    have Hr := (satRuns_nonW hb.2.1).mp (ihr.sat _ hr)
    rw [satRuns_nonW hcW]
    intro rest
    obtain ⟨out, hro, hpo⟩ := Hr rest
    refine ⟨out, ?_, hpo.mono hb.2.2.1 (fun h' => hb.2.2.2 ▸ h')⟩
    rw [stk_append, List.append_assoc]
    exact frag_andV h (Hl _) hro
  · intro w hw
    simp only [satDissat] at hw
    obtain ⟨wl, wr, hl, hr, rfl⟩ := concat_good hw
    have Hl := (satRuns_V hb.1).mp (ihl.sat _ hl)
    have Hr := (disRuns_nonW hb.2.1).mp (ihr.dis _ hr)
    rw [disRuns_nonW hcW]
    intro rest
    obtain ⟨out, hro, hpo⟩ := Hr rest
    refine ⟨out, ?_, hpo.mono hb.2.2.1⟩
    rw [stk_append, List.append_assoc]
    exact frag_andV h (Hl _) hro

theorem trueVal_num4 {v : Bytes} (hv : TrueVal env v) : ∃ n, num4 env v = .ok n ∧ (n != 0) = true := by
  obtain ⟨_, n, hn, hn0⟩ := hv
  exact ⟨n, hn, by simpa using hn0⟩

theorem andB_case (h : EnvOk env cfg.ctx) (hc : Corr.andB cl cr = some c)
    (ihl : Sound env cfg.env cfg.ctx σ cl l (satDissat cfg l))
    (ihr : Sound env cfg.env cfg.ctx σ cr r (satDissat cfg r)) :
    Sound env cfg.env cfg.ctx σ c (.andB l r) (satDissat cfg (.andB l r)) := by
  have hb : cl.base = .B ∧ cr.base = .W ∧ c.base = .B := by
    unfold Corr.andB at hc; split at hc <;> simp at hc; subst hc; simp [*]
  constructor
  · intro w hw
    simp only [satDissat] at hw
    obtain ⟨wl, wr, hl, hr, rfl⟩ := concat_good hw
    have Hl := (satRuns_B hb.1).mp (ihl.sat _ hl)
    have Hr := (satRuns_W hb.2.1).mp (ihr.sat _ hr)
    rw [satRuns_B hb.2.2]
    intro rest
    obtain ⟨vl, hrl, hvl, _⟩ := Hl (stk σ wr ++ rest)
    obtain ⟨vr, hvr, _, hrr⟩ := Hr vl rest
    obtain ⟨nl, hnl, hnl0⟩ := trueVal_num4 hvl
    obtain ⟨nr, hnr, hnr0⟩ := trueVal_num4 hvr
    refine ⟨[1], ?_, trueVal_one, fun _ => rfl⟩
    rw [stk_append, List.append_assoc]
    rcases hrr with hrr | hrr
    · have := frag_andB h hrl hrr hnl hnr
      simpa [hnl0, hnr0, boolBytes] using this
    · have := frag_andB h hrl hrr hnr hnl
      simpa [hnl0, hnr0, boolBytes] using this
  · intro w hw
    simp only [satDissat] at hw
    obtain ⟨wl, wr, hl, hr, rfl⟩ := concat_good hw
    have Hl := (disRuns_B hb.1).mp (ihl.dis _ hl)
    have Hr := (disRuns_W hb.2.1).mp (ihr.dis _ hr)
    rw [disRuns_B hb.2.2]
    intro rest
    rw [stk_append, List.append_assoc]
    have hrr := Hr [] rest
    have := frag_andB h (Hl _) (by rcases hrr with hrr | hrr <;> exact hrr) (num4_nil env) (num4_nil env)
    simpa [boolBytes] using this

theorem orB_case (h : EnvOk env cfg.ctx) (hc : Corr.orB cl cr = some c)
    (ihl : Sound env cfg.env cfg.ctx σ cl l (satDissat cfg l))
    (ihr : Sound env cfg.env cfg.ctx σ cr r (satDissat cfg r)) :
    Sound env cfg.env cfg.ctx σ c (.orB l r) (satDissat cfg (.orB l r)) := by
  have hb : cl.base = .B ∧ cr.base = .W ∧ c.base = .B := by
    unfold Corr.orB at hc
    split at hc <;> try (simp at hc; done)
    split at hc <;> try (simp at hc; done)
    split at hc <;> simp at hc; subst hc; simp [*]
  constructor
  · intro w hw
    simp only [satDissat] at hw
    rw [satRuns_B hb.2.2]
    intro rest
    refine ⟨[1], ?_, trueVal_one, fun _ => rfl⟩
    rcases minFn_good hw with hw | hw
    · -- left dissatisfied, right satisfied
      obtain ⟨wl, wr, hl, hr, rfl⟩ := concat_good hw
      have Hl := (disRuns_B hb.1).mp (ihl.dis _ hl)
      have Hr := (satRuns_W hb.2.1).mp (ihr.sat _ hr)
      obtain ⟨vr, hvr, _, hrr⟩ := Hr [] rest
      obtain ⟨nr, hnr, hnr0⟩ := trueVal_num4 hvr
      rw [stk_append, List.append_assoc]
      rcases hrr with hrr | hrr
      · have := frag_orB h (Hl _) hrr (num4_nil env) hnr
        simpa [hnr0, boolBytes] using this
      · have := frag_orB h (Hl _) hrr hnr (num4_nil env)
        simpa [hnr0, boolBytes] using this
    · obtain ⟨wl, wr, hl, hr, rfl⟩ := concat_good hw
      have Hl := (satRuns_B hb.1).mp (ihl.sat _ hl)
      have Hr := (disRuns_W hb.2.1).mp (ihr.dis _ hr)
      obtain ⟨vl, hrl, hvl, _⟩ := Hl (stk σ wr ++ rest)
      obtain ⟨nl, hnl, hnl0⟩ := trueVal_num4 hvl
      rw [stk_append, List.append_assoc]
      rcases Hr vl rest with hrr | hrr
      · have := frag_orB h hrl hrr hnl (num4_nil env)
        simpa [hnl0, boolBytes] using this
      · have := frag_orB h hrl hrr (num4_nil env) hnl
        simpa [hnl0, boolBytes] using this
  · intro w hw
    simp only [satDissat] at hw
    obtain ⟨wl, wr, hl, hr, rfl⟩ := concat_good hw
    have Hl := (disRuns_B hb.1).mp (ihl.dis _ hl)
    have Hr := (disRuns_W hb.2.1).mp (ihr.dis _ hr)
    rw [disRuns_B hb.2.2]
    intro rest
    rw [stk_append, List.append_assoc]
    have hrr := Hr [] rest
    have := frag_orB h (Hl _) (by rcases hrr with hrr | hrr <;> exact hrr) (num4_nil env) (num4_nil env)
    simpa [boolBytes] using this

theorem andOr_case (h : EnvOk env cfg.ctx) (hc : Corr.andOr cl cr cz = some c)
    (ihl : Sound env cfg.env cfg.ctx σ cl l (satDissat cfg l))
    (ihr : Sound env cfg.env cfg.ctx σ cr r (satDissat cfg r))
    (ihz : Sound env cfg.env cfg.ctx σ cz z (satDissat cfg z)) :
    Sound env cfg.env cfg.ctx σ c (.andOr l r z) (satDissat cfg (.andOr l r z)) := by
  have hb : cl.base = .B ∧ cl.unit = true ∧ cr.base ≠ .W ∧ cz.base = cr.base ∧ c.base = cr.base ∧
      (c.unit = true → cr.unit = true ∧ cz.unit = true) := by
    unfold Corr.andOr at hc
    split at hc <;> try (simp at hc; done)
    split at hc <;> try (simp at hc; done)
    split at hc <;> simp at hc <;> subst hc <;> simp_all
  obtain ⟨hlB, hlu, hrW, hzr, hcr, hcu⟩ := hb
  have hcW : c.base ≠ .W := hcr ▸ hrW
  have hzW : cz.base ≠ .W := hzr ▸ hrW
  constructor
  · intro w hw
    simp only [satDissat] at hw
    rw [satRuns_nonW hcW]
    intro rest
    rcases minFn_good hw with hw | hw
    · obtain ⟨wl, wr, hl, hr, rfl⟩ := concat_good hw
      have Hl := (satRuns_B hlB).mp (ihl.sat _ hl)
      have Hr := (satRuns_nonW hrW).mp (ihr.sat _ hr)
      obtain ⟨vl, hrl, _, hu⟩ := Hl (stk σ wr ++ rest)
      have := hu hlu; subst this
      obtain ⟨out, hro, hpo⟩ := Hr rest
      refine ⟨out, ?_, hpo.mono hcr (fun h' => (hcu h').1)⟩
      rw [stk_append, List.append_assoc]
      exact frag_andOr_true h hrl hro
    · obtain ⟨wl, wz, hl, hz, rfl⟩ := concat_good hw
      have Hl := (disRuns_B hlB).mp (ihl.dis _ hl)
      have Hz := (satRuns_nonW hzW).mp (ihz.sat _ hz)
      obtain ⟨out, hzo, hpo⟩ := Hz rest
      refine ⟨out, ?_, hpo.mono (hcr.trans hzr.symm) (fun h' => (hcu h').2)⟩
      rw [stk_append, List.append_assoc]
      exact frag_andOr_false h (Hl _) hzo
  · intro w hw
    simp only [satDissat] at hw
    rw [disRuns_nonW hcW]
    intro rest
    obtain ⟨wl, wz, hl, hz, rfl⟩ := concat_good hw
    have Hl := (disRuns_B hlB).mp (ihl.dis _ hl)
    have Hz := (disRuns_nonW hzW).mp (ihz.dis _ hz)
    obtain ⟨out, hzo, hpo⟩ := Hz rest
    refine ⟨out, ?_, hpo.mono (hcr.trans hzr.symm)⟩
    rw [stk_append, List.append_assoc]
    exact frag_andOr_false h (Hl _) hzo

theorem orD_case (h : EnvOk env cfg.ctx) (hc : Corr.orD cl cr = some c)
    (ihl : Sound env cfg.env cfg.ctx σ cl l (satDissat cfg l))
    (ihr : Sound env cfg.env cfg.ctx σ cr r (satDissat cfg r)) :
    Sound env cfg.env cfg.ctx σ c (.orD l r) (satDissat cfg (.orD l r)) := by
  have hb : cl.base = .B ∧ cl.unit = true ∧ cr.base = .B ∧ c.base = .B ∧ c.unit = cr.unit := by
    unfold Corr.orD at hc
    split at hc <;> try (simp at hc; done)
    split at hc <;> try (simp at hc; done)
    split at hc <;> simp at hc <;> subst hc <;> simp_all
  obtain ⟨hlB, hlu, hrB, hcB, hcu⟩ := hb
  constructor
  · intro w hw
    simp only [satDissat] at hw
    rw [satRuns_B hcB]
    intro rest
    rcases minFn_good hw with hw | hw
    · have Hl := (satRuns_B hlB).mp (ihl.sat _ hw)
      obtain ⟨vl, hrl, _, hu⟩ := Hl rest
      have := hu hlu; subst this
      exact ⟨[1], frag_orD_left h hrl, trueVal_one, fun _ => rfl⟩
    · obtain ⟨wl, wr, hl, hr, rfl⟩ := concat_good hw
      have Hl := (disRuns_B hlB).mp (ihl.dis _ hl)
      have Hr := (satRuns_B hrB).mp (ihr.sat _ hr)
      obtain ⟨v, hro, hv, hu⟩ := Hr rest
      refine ⟨v, ?_, hv, fun h' => hu (hcu ▸ h')⟩
      rw [stk_append, List.append_assoc]
      exact frag_orD_right h (Hl _) hro
  · intro w hw
    simp only [satDissat] at hw
    rw [disRuns_B hcB]
    intro rest
    obtain ⟨wl, wr, hl, hr, rfl⟩ := concat_good hw
    have Hl := (disRuns_B hlB).mp (ihl.dis _ hl)
    have Hr := (disRuns_B hrB).mp (ihr.dis _ hr)
    rw [stk_append, List.append_assoc]
    exact frag_orD_right h (Hl _) (Hr rest)

theorem orC_case (h : EnvOk env cfg.ctx) (hc : Corr.orC cl cr = some c)
    (ihl : Sound env cfg.env cfg.ctx σ cl l (satDissat cfg l))
    (ihr : Sound env cfg.env cfg.ctx σ cr r (satDissat cfg r)) :
    Sound env cfg.env cfg.ctx σ c (.orC l r) (satDissat cfg (.orC l r)) := by
  have hb : cl.base = .B ∧ cl.unit = true ∧ cr.base = .V ∧ c.base = .V := by
    unfold Corr.orC at hc
    split at hc <;> try (simp at hc; done)
    split at hc <;> try (simp at hc; done)
    split at hc <;> simp at hc <;> subst hc <;> simp_all
  obtain ⟨hlB, hlu, hrV, hcV⟩ := hb
  constructor
  · intro w hw
    simp only [satDissat] at hw
    rw [satRuns_V hcV]
    intro rest
    rcases minFn_good hw with hw | hw
    · have Hl := (satRuns_B hlB).mp (ihl.sat _ hw)
      obtain ⟨vl, hrl, _, hu⟩ := Hl rest
      have := hu hlu; subst this
      exact frag_orC_left h hrl
    · obtain ⟨wl, wr, hl, hr, rfl⟩ := concat_good hw
      have Hl := (disRuns_B hlB).mp (ihl.dis _ hl)
      have Hr := (satRuns_V hrV).mp (ihr.sat _ hr)
      rw [stk_append, List.append_assoc]
      exact frag_orC_right h (Hl _) (Hr rest)
  · intro w hw
    simp only [satDissat] at hw
    exact (good_impossible hw).elim

theorem orI_case (h : EnvOk env cfg.ctx) (hag : Agrees env cfg.env cfg.assets σ)
    (hc : Corr.orI cl cr = some c)
    (ihl : Sound env cfg.env cfg.ctx σ cl l (satDissat cfg l))
    (ihr : Sound env cfg.env cfg.ctx σ cr r (satDissat cfg r)) :
    Sound env cfg.env cfg.ctx σ c (.orI l r) (satDissat cfg (.orI l r)) := by
  have hb : cl.base ≠ .W ∧ cr.base = cl.base ∧ c.base = cl.base ∧
      (c.unit = true → cl.unit = true ∧ cr.unit = true) := by
    unfold Corr.orI at hc
    split at hc <;> simp at hc <;> subst hc <;> simp_all
  obtain ⟨hlW, hrl, hcl, hcu⟩ := hb
  have hrW : cr.base ≠ .W := hrl ▸ hlW
  have hcW : c.base ≠ .W := hcl ▸ hlW
  constructor
  · intro w hw
    simp only [satDissat] at hw
    rw [satRuns_nonW hcW]
    intro rest
    rcases minFn_good hw with hw | hw
    · obtain ⟨w0, hw0, rfl⟩ := withPush_good hw
      obtain ⟨out, hro, hpo⟩ := (satRuns_nonW hlW).mp (ihl.sat _ hw0) rest
      refine ⟨out, ?_, hpo.mono hcl (fun h' => (hcu h').1)⟩
      have := frag_orI_left (r := r) h hro
      simpa [stk, hag.pushOne] using this
    · obtain ⟨w0, hw0, rfl⟩ := withPush_good hw
      obtain ⟨out, hro, hpo⟩ := (satRuns_nonW hrW).mp (ihr.sat _ hw0) rest
      refine ⟨out, ?_, hpo.mono (hcl.trans hrl.symm) (fun h' => (hcu h').2)⟩
      have := frag_orI_right (l := l) h hro
      simpa [stk, hag.pushZero] using this
  · intro w hw
    simp only [satDissat] at hw
    rw [disRuns_nonW hcW]
    intro rest
    rcases minFn_good hw with hw | hw
    · obtain ⟨w0, hw0, rfl⟩ := withPush_good hw
      obtain ⟨out, hro, hpo⟩ := (disRuns_nonW hlW).mp (ihl.dis _ hw0) rest
      refine ⟨out, ?_, hpo.mono hcl⟩
      have := frag_orI_left (r := r) h hro
      simpa [stk, hag.pushOne] using this
    · obtain ⟨w0, hw0, rfl⟩ := withPush_good hw
      obtain ⟨out, hro, hpo⟩ := (disRuns_nonW hrW).mp (ihr.dis _ hw0) rest
      refine ⟨out, ?_, hpo.mono (hcl.trans hrl.symm)⟩
      have := frag_orI_right (l := l) h hro
      simpa [stk, hag.pushZero] using this

end binary

end MsVerif.SatSpec

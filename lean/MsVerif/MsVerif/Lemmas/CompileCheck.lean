/-
Helper lemmas for C08 (translation validation of the policy compiler):

* both sides of the semantic check depend on the world only through the truth values of the
  atoms that occur (`holdsC_congr`, `satEx_congr`);
* every world agrees, on any given finite list of atoms, with one of the representative worlds
  the checker enumerates (`reps_adequate`): subsets of the key / hash atoms, one nLockTime and
  one nSequence per gap between the occurring lock values.
-/
import MsVerif.Model.CompileCheck
import MsVerif.Lemmas.PolicyBasic

namespace MsVerif.CC
open MsVerif MsVerif.SatTable

/-! ## The policy side depends only on the occurring atoms -/

theorem mem_atomsOfCList {a : Atom} : ∀ {l : List CPolicy} {p : CPolicy}, p ∈ l → a ∈ Pol.atomsOfC p →
    a ∈ Pol.atomsOfCList l
  | q :: qs, p, hp, ha => by
    rw [Pol.atomsOfCList]
    rcases List.mem_cons.mp hp with h | h
    · subst h; exact List.mem_append_left _ ha
    · exact List.mem_append_right _ (mem_atomsOfCList h ha)

theorem countC_congr (v w : Atom → Bool) (subs : List CPolicy)
    (ih : ∀ p ∈ subs, Pol.holdsC v p = Pol.holdsC w p) : Pol.countC v subs = Pol.countC w subs := by
  induction subs with
  | nil => rfl
  | cons q qs ihq =>
    simp only [Pol.countC]
    rw [ih q (List.mem_cons_self), ihq (fun p hp => ih p (List.mem_cons_of_mem _ hp))]

/-- `holdsC` looks at the assignment only on the atoms of the policy -/
theorem holdsC_congr (v w : Atom → Bool) :
    ∀ P : CPolicy, (∀ a ∈ Pol.atomsOfC P, v a = w a) → Pol.holdsC v P = Pol.holdsC w P := by
  intro P
  induction P using Pol.CPolicy.induct' with
  | unsat => intro _; rfl
  | trivial => intro _; rfl
  | atom a => intro h; simp only [Pol.holdsC]; exact h a (by simp [Pol.atomsOfC])
  | and subs ih =>
    intro h
    simp only [Pol.holdsC]
    rw [countC_congr v w subs (fun p hp => ih p hp (fun a ha => h a (by
      rw [Pol.atomsOfC]; exact mem_atomsOfCList hp ha)))]
  | or subs ih =>
    intro h
    simp only [Pol.holdsC]
    rw [countC_congr v w subs (fun p hp => ih p hp (fun a ha => h a (by
      rw [Pol.atomsOfC]; exact mem_atomsOfCList hp ha)))]
  | thresh k subs ih =>
    intro h
    simp only [Pol.holdsC]
    rw [countC_congr v w subs (fun p hp => ih p hp (fun a ha => h a (by
      rw [Pol.atomsOfC]; exact mem_atomsOfCList hp ha)))]

/-! ## The miniscript side depends only on the occurring atoms -/

theorem multi_congr (v w : Atom → Bool) (ks : List Key)
    (h : ∀ a ∈ ks.map Pol.Atom.key, v a = w a) :
    ks.filter (availOfVal v).sig = ks.filter (availOfVal w).sig := by
  apply List.filter_congr
  intro k hk
  exact h (.key k) (List.mem_map.mpr ⟨k, hk, rfl⟩)

mutual
theorem satEx_dsatEx_congr (v w : Atom → Bool) : (m : Ms) → (∀ a ∈ msAtoms m, v a = w a) →
    satEx (availOfVal v) m = satEx (availOfVal w) m ∧ dsatEx (availOfVal v) m = dsatEx (availOfVal w) m
  | .tru, _ | .fls, _ => by simp [satEx, dsatEx]
  | .pkK k, h | .pkH k, h => by
    have := h (.key k) (by simp [msAtoms])
    simp [satEx, dsatEx, availOfVal, this]
  | .rawPkH _, _ => by simp [satEx, dsatEx, availOfVal]
  | .after n, h => by
    have := h (.after n) (by simp [msAtoms])
    simp [satEx, dsatEx, availOfVal, this]
  | .older n, h => by
    have := h (.older n) (by simp [msAtoms])
    simp [satEx, dsatEx, availOfVal, this]
  | .hash kind x, h => by
    have := h (.hash (hkToPol kind) x) (by simp [msAtoms])
    simp [satEx, dsatEx, availOfVal, this]
  | .alt x, h | .swap x, h | .check x, h | .zeroNotEqual x, h | .dupIf x, h | .verify x, h
  | .nonZero x, h => by
    have ih := satEx_dsatEx_congr v w x (by simpa [msAtoms] using h)
    simp [satEx, dsatEx, ih.1, ih.2]
  | .andV x y, h | .andB x y, h | .orB x y, h | .orC x y, h | .orD x y, h | .orI x y, h => by
    have ihx := satEx_dsatEx_congr v w x (fun a ha => h a (by simp [msAtoms, ha]))
    have ihy := satEx_dsatEx_congr v w y (fun a ha => h a (by simp [msAtoms, ha]))
    simp [satEx, dsatEx, ihx.1, ihx.2, ihy.1, ihy.2]
  | .andOr x y z, h => by
    have ihx := satEx_dsatEx_congr v w x (fun a ha => h a (by simp [msAtoms, ha]))
    have ihy := satEx_dsatEx_congr v w y (fun a ha => h a (by simp [msAtoms, ha]))
    have ihz := satEx_dsatEx_congr v w z (fun a ha => h a (by simp [msAtoms, ha]))
    simp [satEx, dsatEx, ihx.1, ihx.2, ihy.1, ihz.1, ihz.2]
  | .thresh k xs, h => by
    have ih := list_congr v w xs (by simpa [msAtoms] using h)
    simp [satEx, dsatEx, threshEx, ih.1, ih.2.1, ih.2.2.1, ih.2.2.2]
  | .multi k ks, h | .sortedMulti k ks, h | .multiA k ks, h | .sortedMultiA k ks, h => by
    have := multi_congr v w ks (by simpa [msAtoms] using h)
    simp [satEx, dsatEx, this]
theorem list_congr (v w : Atom → Bool) : (xs : MsList) → (∀ a ∈ msAtomsL xs, v a = w a) →
    allDsatEx (availOfVal v) xs = allDsatEx (availOfVal w) xs
    ∧ countOnlySat (availOfVal v) xs = countOnlySat (availOfVal w) xs
    ∧ countCanSat (availOfVal v) xs = countCanSat (availOfVal w) xs
    ∧ countDead (availOfVal v) xs = countDead (availOfVal w) xs
  | .nil, _ => by simp [allDsatEx, countOnlySat, countCanSat, countDead]
  | .cons x xs, h => by
    have ihx := satEx_dsatEx_congr v w x (fun a ha => h a (by simp [msAtomsL, ha]))
    have ihl := list_congr v w xs (fun a ha => h a (by simp [msAtomsL, ha]))
    simp [allDsatEx, countOnlySat, countCanSat, countDead, ihx.1, ihx.2, ihl.1, ihl.2.1, ihl.2.2.1,
      ihl.2.2.2]
end

/-- `satEx` looks at the assets only on the atoms of the miniscript -/
theorem satEx_congr (v w : Atom → Bool) (m : Ms) (h : ∀ a ∈ msAtoms m, v a = w a) :
    satEx (availOfVal v) m = satEx (availOfVal w) m := (satEx_dsatEx_congr v w m h).1

/-! ## Subsets -/

theorem filter_mem_subsets (p : Atom → Bool) : ∀ l : List Atom, l.filter p ∈ Pol.subsets l
  | [] => by simp [Pol.subsets]
  | a :: as => by
    have ih := filter_mem_subsets p as
    rw [Pol.subsets, List.filter_cons]
    split
    · exact List.mem_append_right _ (List.mem_map.mpr ⟨_, ih, rfl⟩)
    · exact List.mem_append_left _ ih

/-! ## Maximum of a list above a base value -/

def maxOf (b : Nat) : List Nat → Nat
  | [] => b
  | x :: r => max x (maxOf b r)

theorem maxOf_mem (b : Nat) : ∀ l : List Nat, maxOf b l = b ∨ maxOf b l ∈ l
  | [] => Or.inl rfl
  | x :: r => by
    rw [maxOf]
    rcases maxOf_mem b r with h | h
    · rcases Nat.le_total x (maxOf b r) with hle | hle
      · rw [Nat.max_eq_right hle]; exact Or.inl h
      · rw [Nat.max_eq_left hle]; exact Or.inr (List.mem_cons_self)
    · rcases Nat.le_total x (maxOf b r) with hle | hle
      · rw [Nat.max_eq_right hle]; exact Or.inr (List.mem_cons_of_mem _ h)
      · rw [Nat.max_eq_left hle]; exact Or.inr (List.mem_cons_self)

theorem base_le_maxOf (b : Nat) : ∀ l : List Nat, b ≤ maxOf b l
  | [] => Nat.le_refl _
  | x :: r => by rw [maxOf]; exact Nat.le_trans (base_le_maxOf b r) (Nat.le_max_right _ _)

theorem le_maxOf (b : Nat) : ∀ (l : List Nat) (x : Nat), x ∈ l → x ≤ maxOf b l
  | y :: r, x, hx => by
    rw [maxOf]
    rcases List.mem_cons.mp hx with h | h
    · subst h; exact Nat.le_max_left _ _
    · exact Nat.le_trans (le_maxOf b r x h) (Nat.le_max_right _ _)

theorem maxOf_le (b : Nat) (u : Nat) (hb : b ≤ u) : ∀ l : List Nat, (∀ x ∈ l, x ≤ u) → maxOf b l ≤ u
  | [], _ => hb
  | x :: r, h => by
    rw [maxOf]
    exact Nat.max_le.mpr ⟨h x List.mem_cons_self, maxOf_le b u hb r (fun y hy => h y (List.mem_cons_of_mem _ hy))⟩

/-! ## Absolute locks: one representative nLockTime per gap -/

/-- representative of `lt` w.r.t. the given `after` values: the largest satisfied value, or
the smallest lock time of the same unit -/
def repAbs (lt : Nat) (afters : List Nat) : Nat :=
  maxOf (if Pol.absIsHeight lt then 0 else 500000000) (afters.filter (Pol.cltvOk lt))

theorem repAbs_mem (lt : Nat) (afters : List Nat) : repAbs lt afters ∈ absCands afters := by
  unfold repAbs absCands
  rcases maxOf_mem (if Pol.absIsHeight lt then 0 else 500000000) (afters.filter (Pol.cltvOk lt)) with h | h
  · rw [h]; split <;> simp
  · exact List.mem_cons_of_mem _ (List.mem_cons_of_mem _ (List.mem_filter.mp h).1)

theorem repAbs_spec (lt : Nat) (afters : List Nat) (t : Nat) (ht : t ∈ afters) :
    Pol.cltvOk (repAbs lt afters) t = Pol.cltvOk lt t := by
  -- the representative has the unit of `lt`, is ≤ `lt`, and is ≥ every satisfied value
  have hle : repAbs lt afters ≤ lt := by
    unfold repAbs
    apply maxOf_le
    · unfold Pol.absIsHeight Pol.LOCKTIME_THRESHOLD; split <;> simp_all <;> omega
    · intro x hx
      have := (List.mem_filter.mp hx).2
      unfold Pol.cltvOk at this
      simp only [Bool.and_eq_true, decide_eq_true_eq] at this
      exact this.2
  have hbase : (if Pol.absIsHeight lt then 0 else 500000000) ≤ repAbs lt afters := base_le_maxOf _ _
  have hkind : Pol.absIsHeight (repAbs lt afters) = Pol.absIsHeight lt := by
    unfold Pol.absIsHeight Pol.LOCKTIME_THRESHOLD at *
    by_cases hl : lt < 500000000
    · simp only [hl, decide_true, ite_true] at hbase ⊢
      simp only [decide_eq_true_eq]; omega
    · simp only [hl, decide_false] at hbase ⊢
      simp only [decide_eq_false_iff_not]
      simp at hbase; omega
  by_cases hs : Pol.cltvOk lt t = true
  · have hge : t ≤ repAbs lt afters := le_maxOf _ _ t (List.mem_filter.mpr ⟨ht, hs⟩)
    rw [hs]
    unfold Pol.cltvOk at hs ⊢
    simp only [Bool.and_eq_true, decide_eq_true_eq] at hs ⊢
    exact ⟨by rw [hkind]; exact hs.1, hge⟩
  · have hs' : Pol.cltvOk lt t = false := by simpa using hs
    rw [hs']
    unfold Pol.cltvOk at hs' ⊢
    rw [hkind]
    cases hk : (Pol.absIsHeight t == Pol.absIsHeight lt)
    · simp
    · simp only [hk, Bool.true_and, decide_eq_false_iff_not, Nat.not_le] at hs' ⊢
      omega

/-! ## Relative locks: one representative nSequence per gap -/

theorem relIsTime_base (b : Bool) (v : Nat) (hv : v < 65536) :
    Pol.relIsTime ((if b then 4194304 else 0) + v) = b := by
  unfold Pol.relIsTime
  cases b
  · simp; omega
  · simp; omega

theorem relValue_base (b : Bool) (v : Nat) (hv : v < 65536) :
    Pol.relValue ((if b then 4194304 else 0) + v) = v := by
  unfold Pol.relValue
  cases b <;> simp <;> omega

theorem seqDisabled_base (b : Bool) (v : Nat) (hv : v < 65536) :
    Pol.seqDisabled ((if b then 4194304 else 0) + v) = false := by
  unfold Pol.seqDisabled
  cases b <;> simp <;> omega

theorem relValue_lt (n : Nat) : Pol.relValue n < 65536 := by unfold Pol.relValue; omega

/-- representative of `sq` w.r.t. the given `older` values -/
def repRel (sq : Nat) (olders : List Nat) : Nat :=
  if Pol.seqDisabled sq then 2147483648
  else (if Pol.relIsTime sq then 4194304 else 0)
    + maxOf 0 ((olders.filter (Pol.csvOk sq)).map Pol.relValue)

theorem repRel_mem (sq : Nat) (olders : List Nat) : repRel sq olders ∈ relCands olders := by
  unfold repRel relCands
  split
  · simp
  · rcases maxOf_mem 0 ((olders.filter (Pol.csvOk sq)).map Pol.relValue) with h | h
    · rw [h]; split <;> simp
    · rcases List.mem_map.mp h with ⟨t, ht, hv⟩
      have hsat := (List.mem_filter.mp ht).2
      have hmem := (List.mem_filter.mp ht).1
      rw [← hv]
      refine List.mem_cons_of_mem _ (List.mem_cons_of_mem _ (List.mem_cons_of_mem _ ?_))
      refine List.mem_map.mpr ⟨t, hmem, ?_⟩
      unfold Pol.csvOk at hsat
      simp only [Bool.and_eq_true, beq_iff_eq] at hsat
      unfold relCanon
      rw [hsat.1.2]

theorem repRel_spec (sq : Nat) (olders : List Nat) (t : Nat) (ht : t ∈ olders) :
    Pol.csvOk (repRel sq olders) t = Pol.csvOk sq t := by
  unfold repRel
  by_cases hd : Pol.seqDisabled sq = true
  · simp only [hd, ite_true]
    unfold Pol.csvOk
    rw [hd]
    have : Pol.seqDisabled 2147483648 = true := by unfold Pol.seqDisabled; simp
    rw [this]; simp
  · have hd' : Pol.seqDisabled sq = false := by simpa using hd
    simp only [hd', Bool.false_eq_true, ite_false]
    -- abbreviations
    have hvm : maxOf 0 ((olders.filter (Pol.csvOk sq)).map Pol.relValue) ≤ Pol.relValue sq := by
      apply maxOf_le
      · exact Nat.zero_le _
      · intro x hx
        rcases List.mem_map.mp hx with ⟨u, hu, hux⟩
        have := (List.mem_filter.mp hu).2
        unfold Pol.csvOk at this
        simp only [Bool.and_eq_true, decide_eq_true_eq] at this
        rw [← hux]; exact this.2
    have hlt : maxOf 0 ((olders.filter (Pol.csvOk sq)).map Pol.relValue) < 65536 :=
      Nat.lt_of_le_of_lt hvm (relValue_lt sq)
    generalize hm : maxOf 0 ((olders.filter (Pol.csvOk sq)).map Pol.relValue) = vm at hvm hlt
    have hge : Pol.csvOk sq t = true → Pol.relValue t ≤ vm := by
      intro hs
      rw [← hm]
      exact le_maxOf 0 _ _ (List.mem_map.mpr ⟨t, List.mem_filter.mpr ⟨ht, hs⟩, rfl⟩)
    unfold Pol.csvOk at hge ⊢
    rw [seqDisabled_base _ _ hlt, relIsTime_base _ _ hlt, relValue_base _ _ hlt, hd']
    rw [hd'] at hge
    cases hk : (Pol.relIsTime t == Pol.relIsTime sq)
    · simp
    · simp only [hk, Bool.not_false, Bool.and_self, Bool.true_and, decide_eq_true_eq] at hge ⊢
      by_cases hle : Pol.relValue t ≤ Pol.relValue sq
      · have := hge hle
        simp [hle, this]
      · have : ¬ Pol.relValue t ≤ vm := by omega
        simp [hle, this]

/-! ## Adequacy of the representative worlds -/

theorem mem_afterVals {n : Nat} : ∀ {L : List Atom}, Pol.Atom.after n ∈ L → n ∈ afterVals L
  | a :: r, h => by
    rcases List.mem_cons.mp h with h | h
    · subst h; simp [afterVals]
    · have ih := mem_afterVals h
      cases a <;> simp [afterVals, ih]

theorem mem_olderVals {n : Nat} : ∀ {L : List Atom}, Pol.Atom.older n ∈ L → n ∈ olderVals L
  | a :: r, h => by
    rcases List.mem_cons.mp h with h | h
    · subst h; simp [olderVals]
    · have ih := mem_olderVals h
      cases a <;> simp [olderVals, ih]

/-- the representative of a world w.r.t. a list of atoms -/
def repWorld (L : List Atom) (W : World) : World :=
  mkWorld ((nonLocks L).filter W.val) (repAbs W.nLockTime (afterVals L).eraseDups)
    (repRel W.nSequence (olderVals L).eraseDups)

theorem repWorld_mem (L : List Atom) (W : World) : repWorld L W ∈ reps L := by
  unfold reps repWorld
  refine List.mem_flatMap.mpr ⟨_, filter_mem_subsets W.val (nonLocks L), ?_⟩
  refine List.mem_flatMap.mpr ⟨_, repAbs_mem W.nLockTime _, ?_⟩
  exact List.mem_map.mpr ⟨_, repRel_mem W.nSequence _, rfl⟩

theorem repWorld_val (L : List Atom) (W : World) : ∀ a ∈ L, (repWorld L W).val a = W.val a := by
  intro a ha
  cases a with
  | key i =>
    show ((nonLocks L).filter W.val).contains (Pol.Atom.key i) = W.canSign i
    rw [Bool.eq_iff_iff, List.contains_iff_mem, List.mem_filter]
    unfold nonLocks
    rw [List.mem_eraseDups, List.mem_filter]
    simp [isLock, ha, Pol.World.val]
  | hash k h =>
    show ((nonLocks L).filter W.val).contains (Pol.Atom.hash k h) = W.preimage k h
    rw [Bool.eq_iff_iff, List.contains_iff_mem, List.mem_filter]
    unfold nonLocks
    rw [List.mem_eraseDups, List.mem_filter]
    simp [isLock, ha, Pol.World.val]
  | after t =>
    show Pol.cltvOk (repAbs W.nLockTime (afterVals L).eraseDups) t = Pol.cltvOk W.nLockTime t
    exact repAbs_spec _ _ t (List.mem_eraseDups.mpr (mem_afterVals ha))
  | older t =>
    show Pol.csvOk (repRel W.nSequence (olderVals L).eraseDups) t = Pol.csvOk W.nSequence t
    exact repRel_spec _ _ t (List.mem_eraseDups.mpr (mem_olderVals ha))

/-- ADEQUACY: on any finite list of atoms, every world is indistinguishable from one of the
enumerated representatives -/
theorem reps_adequate (L : List Atom) (W : World) :
    ∃ W' ∈ reps L, ∀ a ∈ L, W'.val a = W.val a :=
  ⟨repWorld L W, repWorld_mem L W, repWorld_val L W⟩

/-! ## Abstract policies and the brute-force enumeration of assignments -/

theorem mem_atomsOfList {a : Atom} : ∀ {l : List Pol.Policy} {p : Pol.Policy}, p ∈ l → a ∈ Pol.atomsOf p →
    a ∈ Pol.atomsOfList l
  | q :: qs, p, hp, ha => by
    rw [Pol.atomsOfList]
    rcases List.mem_cons.mp hp with h | h
    · subst h; exact List.mem_append_left _ ha
    · exact List.mem_append_right _ (mem_atomsOfList h ha)

theorem countA_congr (v w : Atom → Bool) (subs : List Pol.Policy)
    (ih : ∀ p ∈ subs, Pol.holdsA v p = Pol.holdsA w p) : Pol.countA v subs = Pol.countA w subs := by
  induction subs with
  | nil => rfl
  | cons q qs ihq =>
    simp only [Pol.countA]
    rw [ih q (List.mem_cons_self), ihq (fun p hp => ih p (List.mem_cons_of_mem _ hp))]

/-- `holdsA` looks at the assignment only on the atoms of the policy -/
theorem holdsA_congr (v w : Atom → Bool) :
    ∀ q : Pol.Policy, (∀ a ∈ Pol.atomsOf q, v a = w a) → Pol.holdsA v q = Pol.holdsA w q := by
  intro q
  induction q using Pol.Policy.induct' with
  | unsat => intro _; rfl
  | trivial => intro _; rfl
  | atom a => intro h; simp only [Pol.holdsA]; exact h a (by simp [Pol.atomsOf])
  | thresh k subs ih =>
    intro h
    simp only [Pol.holdsA]
    rw [countA_congr v w subs (fun p hp => ih p hp (fun a ha => h a (by
      rw [Pol.atomsOf]; exact mem_atomsOfList hp ha)))]

/-- every assignment agrees, on a given list of atoms, with one of those `forallVals` tries -/
theorem forallVals_spec (atoms : List Atom) (f : (Atom → Bool) → Bool)
    (h : Pol.forallVals atoms f = true) (v : Atom → Bool) :
    ∃ w, f w = true ∧ ∀ a ∈ atoms, w a = v a := by
  unfold Pol.forallVals at h
  have hm := filter_mem_subsets v atoms.eraseDups
  refine ⟨Pol.valOf (atoms.eraseDups.filter v), List.all_eq_true.mp h _ hm, ?_⟩
  intro a ha
  unfold Pol.valOf
  rw [Bool.eq_iff_iff, List.contains_iff_mem, List.mem_filter, List.mem_eraseDups]
  simp [ha]

/-! ## Small facts used by the property theorems -/

theorem any_congr_mem {α} (f g : α → Bool) : ∀ l : List α, (∀ x ∈ l, f x = g x) → l.any f = l.any g
  | [], _ => rfl
  | x :: r, h => by
    simp only [List.any_cons]
    rw [h x List.mem_cons_self, any_congr_mem f g r (fun y hy => h y (List.mem_cons_of_mem _ hy))]

theorem mem_msKeys {out : Ms} {k : Key} (h : k ∈ msKeys out) : ∃ n ∈ subterms out, k ∈ nodeKeys n := by
  unfold msKeys at h
  exact List.mem_flatMap.mp h

theorem pkOk_of_nodeOk {env : KeyEnv} {p : VParams} {n : Ms} {k : Key} (hn : nodeOk env p n = true)
    (hk : k ∈ nodeKeys n) : pkOk env p k = true := by
  cases n <;> simp [nodeKeys] at hk <;> simp [nodeOk] at hn
  · subst hk; exact hn
  · subst hk; exact hn
  · exact hn.2 k hk
  · exact hn.2 k hk
  · exact hn.2 k hk
  · exact hn.2 k hk

end MsVerif.CC

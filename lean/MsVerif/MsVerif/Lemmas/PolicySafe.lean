/-
`is_safe_nonmalleable`, first component: "every satisfaction needs a signature" = the policy
does not hold when nobody signs.  `n_keys`.  `minimum_n_keys` against assignments.
-/
import MsVerif.Lemmas.PolicySels
import MsVerif.Lemmas.PolicyMinKeys
import MsVerif.Lemmas.PolicyNorm
import MsVerif.Lemmas.PolicyTimelocks

set_option linter.unusedSimpArgs false
namespace MsVerif.Pol
open Sem Conc

/-! ## safe -/

theorem all_noKeys_iff (s : List Atom) : s.all noKeys = !decide (1 ≤ nSigs s) := by
  induction s with
  | nil => simp [nSigs]
  | cons a s ih =>
    simp only [List.all_cons, ih, nSigs, List.countP_cons, noKeys]
    cases h : a.isKey <;> simp [h]

/-- the specification's "safe" is: not satisfiable without a signature -/
theorem isSafeSpec_eq (c : CPolicy) : isSafeSpec c = !holdsC noKeys c := by
  rw [holdsC_eq_good, good, isSafeSpec]
  induction selsC false c with
  | nil => rfl
  | cons s ss ih =>
    rw [List.all_cons, List.any_cons, ih, all_noKeys_iff]
    cases decide (1 ≤ nSigs s) <;> simp

theorem isSafeNonmalleableList_eq (l : List CPolicy) :
    isSafeNonmalleableList l = l.map isSafeNonmalleable := by
  induction l with
  | nil => simp [isSafeNonmalleableList]
  | cons p ps ih => simp [isSafeNonmalleableList, ih]

theorem trivialFree_go_iff (l : List CPolicy) :
    trivialFree.go l = true ↔ ∀ c ∈ l, trivialFree c = true := by
  induction l with
  | nil => simp [trivialFree.go]
  | cons p ps ih => simp [trivialFree.go, ih]

theorem countP_not {α} (p : α → Bool) (l : List α) :
    l.countP (fun x => !p x) = l.length - l.countP p := by
  induction l with
  | nil => simp
  | cons x xs ih =>
    have := List.countP_le_length (p := p) (l := xs)
    cases h : p x <;> simp [List.countP_cons, h, ih] <;> omega

theorem any_not_eq {α} (p : α → Bool) (l : List α) : l.any (fun x => !p x) = !l.all p := by
  induction l with
  | nil => simp
  | cons x xs ih => simp [List.any_cons, List.all_cons, ih]

theorem all_not_eq {α} (p : α → Bool) (l : List α) : l.all (fun x => !p x) = !l.any p := by
  induction l with
  | nil => simp
  | cons x xs ih => simp [List.any_cons, List.all_cons, ih]

theorem any_congr' {α} {p q : α → Bool} {l : List α} (h : ∀ x ∈ l, p x = q x) :
    l.any p = l.any q := by
  induction l with
  | nil => rfl
  | cons x xs ih =>
    rw [List.any_cons, List.any_cons, h x (by simp), ih (fun y hy => h y (by simp [hy]))]

theorem all_congr' {α} {p q : α → Bool} {l : List α} (h : ∀ x ∈ l, p x = q x) :
    l.all p = l.all q := by
  induction l with
  | nil => rfl
  | cons x xs ih =>
    rw [List.all_cons, List.all_cons, h x (by simp), ih (fun y hy => h y (by simp [hy]))]

/-- the library's `signed` flag is exact on well-formed policies -/
theorem safe_exact : ∀ c, WFC c = true → (isSafeNonmalleable c).1 = !holdsC noKeys c := by
  intro c
  induction c using CPolicy.induct' with
  | unsat => intro _; rfl
  | trivial => intro _; rfl
  | atom a => intro _; cases a <;> rfl
  | and subs ih =>
    intro hw
    simp only [WFC, WFC_go_iff] at hw
    simp only [isSafeNonmalleable, isSafeNonmalleableList_eq, List.any_map, holdsC, countC_eq]
    rw [cnt_all, ← any_not_eq]
    exact any_congr' (fun c hc => by simp [ih c hc (hw c hc)])
  | or subs ih =>
    intro hw
    simp only [WFC, Bool.and_eq_true, decide_eq_true_eq, WFC_go_iff] at hw
    simp only [isSafeNonmalleable, isSafeNonmalleableList_eq, List.all_map, holdsC, countC_eq]
    rw [cnt_any, ← all_not_eq]
    exact all_congr' (fun c hc => by simp [ih c hc (hw.2 c hc)])
  | thresh k subs ih =>
    intro hw
    simp only [WFC, Bool.and_eq_true, decide_eq_true_eq, WFC_go_iff] at hw
    simp only [isSafeNonmalleable, isSafeNonmalleableList_eq, safeNonmallThresh, List.countP_map,
      holdsC, countC_eq]
    have hc : subs.countP ((fun x => x.1) ∘ isSafeNonmalleable)
        = subs.countP (fun c => !holdsC noKeys c) :=
      List.countP_congr (fun c hc => by simp [ih c hc (hw.2 c hc)])
    rw [hc, countP_not]
    have := List.countP_le_length (p := holdsC noKeys) (l := subs)
    obtain ⟨⟨hk1, hkn⟩, _⟩ := hw
    by_cases h : k ≤ subs.countP (holdsC noKeys)
    · have : ¬ (subs.length - subs.countP (holdsC noKeys) ≥ subs.length - k + 1) := by omega
      simp [h, this]
    · have : subs.length - subs.countP (holdsC noKeys) ≥ subs.length - k + 1 := by omega
      simp [h, this]

/-! ## n_keys -/

theorem nKeysList_eq (l : List Policy) : nKeysList l = (l.map nKeys).sum := by
  induction l with
  | nil => simp [nKeysList]
  | cons p ps ih => simp [nKeysList, ih]

theorem nKeys_eq : ∀ p, nKeys p = keyOccurrences p := by
  intro p
  induction p using Policy.induct' with
  | unsat => rfl
  | trivial => rfl
  | atom a => cases a <;> rfl
  | thresh k subs ih =>
    rw [nKeys, nKeysList_eq, keyOccurrences, atomsOf, atomsOfList_eq]
    clear k
    induction subs with
    | nil => rfl
    | cons x xs ihx =>
      simp only [List.map_cons, List.sum_cons, List.flatMap_cons, List.countP_append]
      rw [ih x (by simp), ihx (fun p hp => ih p (by simp [hp]))]
      rfl

/-! ## selections are sublists of the atom list -/

theorem chooseK_sublist (subs : List Policy)
    (ih : ∀ p ∈ subs, ∀ s ∈ sels p, s.Sublist (atomsOf p)) :
    ∀ k, ∀ s ∈ chooseK (subs.map sels) k, s.Sublist (subs.flatMap atomsOf) := by
  induction subs with
  | nil =>
    intro k s hs
    cases k with
    | zero => simp [chooseK] at hs; subst hs; simp
    | succ k => simp [chooseK] at hs
  | cons x xs ihx =>
    intro k s hs
    have ihx' := ihx (fun p hp => ih p (by simp [hp]))
    cases k with
    | zero => rw [List.map_cons, mem_chooseK_zero] at hs; subst hs; simp
    | succ k =>
      rw [List.map_cons, mem_chooseK_cons] at hs
      rw [List.flatMap_cons]
      rcases hs with h | ⟨a, ha, r, hr, rfl⟩
      · exact (ihx' _ s h).trans (List.sublist_append_right _ _)
      · exact List.Sublist.append (ih x (by simp) a ha) (ihx' _ r hr)

theorem sels_sublist : ∀ p, ∀ s ∈ sels p, s.Sublist (atomsOf p) := by
  intro p
  induction p using Policy.induct' with
  | unsat => intro s hs; simp [sels] at hs
  | trivial => intro s hs; simp [sels] at hs; subst hs; simp
  | atom a => intro s hs; simp [sels] at hs; subst hs; simp [atomsOf]
  | thresh k subs ih =>
    intro s hs
    rw [sels, selsList_eq] at hs
    rw [atomsOf, atomsOfList_eq]
    exact chooseK_sublist subs ih k s hs

theorem nSigs_le_trueKeys (v : Atom → Bool) (p : Policy) (s : List Atom) (hs : s ∈ sels p)
    (hv : s.all v = true) : nSigs s ≤ trueKeys v p := by
  have hsub := (sels_sublist p s hs).filter (fun a => a.isKey && v a)
  have : s.filter (fun a => a.isKey && v a) = s.filter Atom.isKey := by
    apply List.filter_congr
    intro a ha
    rw [List.all_eq_true] at hv
    simp [hv a ha]
  rw [this] at hsub
  have := hsub.length_le
  simpa [nSigs, List.countP_eq_length_filter, trueKeys] using this

theorem nodup_filter_sublist {l t : List Atom} (hn : l.Nodup) (hs : t.Sublist l) :
    l.filter (fun a => t.contains a) = t := by
  induction hs with
  | slnil => rfl
  | cons a h ih =>
    rename_i t' l'
    obtain ⟨hnot, hn'⟩ := List.nodup_cons.mp hn
    have : t'.contains a = false := by
      cases hc : t'.contains a
      · rfl
      · exact absurd (h.subset (by simpa using hc)) hnot
    rw [List.filter_cons, this]; simpa using ih hn'
  | cons_cons a h ih =>
    rename_i t' l'
    obtain ⟨hnot, hn'⟩ := List.nodup_cons.mp hn
    rw [List.filter_cons]
    simp only [List.contains_cons, BEq.rfl, Bool.true_or, if_true]
    congr 1
    have e : l'.filter (fun x => (x == a || t'.contains x)) = l'.filter (fun x => t'.contains x) := by
      apply List.filter_congr
      intro x hx
      have : (x == a) = false := by
        cases hxa : x == a
        · rfl
        · exact absurd (by rw [← (by simpa using hxa : x = a)]; exact hx) hnot
      simp [this]
    rw [e, ih hn']

/-! ## `minimum_n_keys` = fewest signing keys over all satisfying assignments -/

theorem mem_subsets_of_sublist : ∀ (l s : List Atom), s.Sublist l → s ∈ subsets l := by
  intro l
  induction l with
  | nil => intro s h; cases h; simp [subsets]
  | cons a l ih =>
    intro s h
    rw [subsets, List.mem_append]
    cases h with
    | cons _ h' => exact Or.inl (ih s h')
    | cons_cons _ h' =>
      rename_i s'
      exact Or.inr (List.mem_map.mpr ⟨s', ih s' h', rfl⟩)

theorem sublist_of_mem_subsets : ∀ (l s : List Atom), s ∈ subsets l → s.Sublist l := by
  intro l
  induction l with
  | nil => intro s h; simp [subsets] at h; subst h; exact List.Sublist.refl _
  | cons a l ih =>
    intro s h
    rw [subsets, List.mem_append] at h
    rcases h with h | h
    · exact (ih s h).cons a
    · obtain ⟨s', hs', rfl⟩ := List.mem_map.mp h
      exact (ih s' hs').cons_cons a

theorem holdsA_valOf_sel (p : Policy) (s : List Atom) (hs : s ∈ sels p) :
    holdsA (valOf s) p = true := by
  rw [holdsA_eq_good, good, List.any_eq_true]
  exact ⟨s, hs, by simp [valOf]⟩

/-- with pairwise distinct keys, the key leaves made true by `valOf ts` are the keys of `ts` -/
theorem trueKeys_valOf (p : Policy) (ts : List Atom) (hts : ts.Sublist (atomsOf p))
    (hd : ((atomsOf p).filter Atom.isKey).Nodup) : trueKeys (valOf ts) p = nSigs ts := by
  have hsub := hts.filter Atom.isKey
  have := nodup_filter_sublist hd hsub
  have e : (atomsOf p).filter (fun a => a.isKey && valOf ts a)
      = ((atomsOf p).filter Atom.isKey).filter (fun a => (ts.filter Atom.isKey).contains a) := by
    rw [List.filter_filter]
    apply List.filter_congr
    intro a _
    cases hk : a.isKey <;> simp [hk, valOf, List.contains_eq_mem]
  rw [trueKeys, e, this, nSigs, List.countP_eq_length_filter]

end MsVerif.Pol
